(** C13 proofs (see Properties_C13.v for the statements). *)
From Coq Require Import ZArith List Bool Lia.
Require Import H4.gen.Gen_Atom H4.AtomModel.
Import ListNotations.
Local Open Scope Z_scope.

Ltac Zify.zify_post_hook ::= Z.to_euclidean_division_equations.

Lemma cache_size_is_4 : ATOM_CACHE_SIZE = 4.
Proof. reflexivity. Qed.

(* ------------------------------------------------------------------------------------------------ *)
(** * Arithmetic of the regenerated id macros *)

Lemma wrap32_small : forall x, -2147483648 <= x < 2147483648 -> wrap32 x = x.
Proof. intros; unfold wrap32; lia. Qed.

Lemma wrap32_range : forall x, -2147483648 <= wrap32 x < 2147483648.
Proof. intros; unfold wrap32; lia. Qed.

Lemma wrap32_idem : forall x, wrap32 (wrap32 x) = wrap32 x.
Proof. intros; apply wrap32_small, wrap32_range. Qed.

Lemma land_ones_mod : forall x k, 0 <= k -> Z.land x (2 ^ k - 1) = x mod 2 ^ k.
Proof. intros. rewrite <- Z.land_ones by lia. f_equal. rewrite Z.ones_equiv. lia. Qed.

Lemma group_of_spec : forall a, group_of a = (wrap32 a / 268435456) mod 16.
Proof.
  intros. unfold group_of, ATOM_TO_GROUP. fold (wrap32 a).
  change (Z.sub (Z.mul 4 8) 4) with 28. change 15 with (2 ^ 4 - 1).
  rewrite land_ones_mod by lia. rewrite Z.shiftr_div_pow2 by lia. reflexivity.
Qed.

Lemma loc_of_spec : forall a k, 0 <= k -> loc_of a (2 ^ k) = (a mod 4294967296) mod 2 ^ k.
Proof. intros. unfold loc_of, ATOM_TO_LOC. apply land_ones_mod; lia. Qed.

Lemma lor_disjoint : forall a n k, 0 <= k -> 0 <= n < 2 ^ k -> Z.lor (a * 2 ^ k) n = a * 2 ^ k + n.
Proof.
  intros a n k Hk Hn.
  assert (Z.land (a * 2 ^ k) n = 0).
  { apply Z.bits_inj'. intros i Hi. rewrite Z.land_spec, Z.bits_0.
    destruct (Z_lt_ge_dec i k).
    - rewrite Z.mul_pow2_bits_low by lia. reflexivity.
    - destruct (Z.eq_dec n 0) as [->|Hn0]. { rewrite Z.bits_0. apply andb_false_r. }
      assert (Z.log2 n < k) by (apply Z.log2_lt_pow2; lia).
      rewrite (Z.bits_above_log2 n i) by lia. apply andb_false_r. }
  rewrite <- Z.lxor_lor by assumption. symmetry. apply Z.add_nocarry_lxor. assumption.
Qed.

Lemma make_atom_spec : forall g i, 0 <= g < 16 -> MAKE_ATOM g i = g * 268435456 + (wrap32 i) mod 268435456.
Proof.
  intros g i Hg. unfold MAKE_ATOM. fold (wrap32 g). fold (wrap32 i).
  change (Z.sub (Z.mul 4 8) 4) with 28. rewrite (wrap32_small g) by lia.
  change 15 with (2 ^ 4 - 1). change 268435455 with (2 ^ 28 - 1).
  rewrite !land_ones_mod by lia. rewrite Z.shiftl_mul_pow2 by lia.
  rewrite (Z.mod_small g) by lia.
  rewrite lor_disjoint.
  - reflexivity.
  - lia.
  - apply Z.mod_pos_bound. lia.
Qed.

Lemma atom_of_enc : forall g n, 0 <= g < 16 -> 0 <= n < 268435456 -> atom_of g n = enc g n.
Proof.
  intros. unfold atom_of, enc. rewrite make_atom_spec by lia. rewrite (wrap32_small n) by lia.
  rewrite Z.mod_small by lia. reflexivity.
Qed.

(** the 28-bit mask: the id of registration number n + 2^28 is the id of registration number n *)
Lemma atom_of_wraps : forall g n, 0 <= g < 16 -> 0 <= n < 268435456 -> atom_of g (n + 268435456) = atom_of g n.
Proof.
  intros. unfold atom_of. rewrite !make_atom_spec by lia. f_equal. f_equal. unfold wrap32. lia.
Qed.

Lemma group_of_enc : forall g n, 0 <= g < 16 -> 0 <= n < 268435456 -> group_of (enc g n) = g.
Proof. intros. rewrite group_of_spec. unfold enc. rewrite wrap32_idem. unfold wrap32. lia. Qed.

Lemma enc_index : forall g n, 0 <= g < 16 -> 0 <= n < 268435456 -> (enc g n) mod 268435456 = n.
Proof. intros. unfold enc, wrap32. lia. Qed.

Lemma enc_inj : forall g n g' n', 0 <= g < 16 -> 0 <= n < 268435456 -> 0 <= g' < 16 -> 0 <= n' < 268435456 ->
  enc g n = enc g' n' -> g = g' /\ n = n'.
Proof.
  intros g n g' n' Hg Hn Hg' Hn' E. split.
  - rewrite <- (group_of_enc g n), <- (group_of_enc g' n') by lia. now rewrite E.
  - rewrite <- (enc_index g n), <- (enc_index g' n') by lia. now rewrite E.
Qed.

Lemma loc_of_enc : forall g n k, 0 <= g < 16 -> 0 <= n < 268435456 -> 0 <= k <= 28 ->
  loc_of (enc g n) (2 ^ k) = n mod 2 ^ k.
Proof.
  intros g n k Hg Hn Hk. rewrite loc_of_spec by lia.
  assert (E : 268435456 = 2 ^ k * 2 ^ (28 - k)) by (rewrite <- Z.pow_add_r by lia; replace (k + (28 - k)) with 28 by lia; reflexivity).
  assert (P : 0 < 2 ^ k) by (apply Z.pow_pos_nonneg; lia).
  assert (Q : 0 < 2 ^ (28 - k)) by (apply Z.pow_pos_nonneg; lia).
  unfold enc, wrap32.
  set (x := g * 268435456 + n).
  assert (X : ((x + 2147483648) mod 4294967296 - 2147483648) mod 4294967296 = x mod 4294967296) by lia.
  rewrite X.
  assert (D : x mod 4294967296 = x - 4294967296 * (x / 4294967296)) by lia.
  rewrite D. unfold x.
  replace (g * 268435456 + n - 4294967296 * ((g * 268435456 + n) / 4294967296))
    with (n + (g * 2 ^ (28 - k) - 16 * 2 ^ (28 - k) * ((g * 268435456 + n) / 4294967296)) * 2 ^ k) by (rewrite E at 1; nia).
  apply Z.mod_add. lia.
Qed.

(* ------------------------------------------------------------------------------------------------ *)
Arguments group_of : simpl never.
Arguments loc_of : simpl never.
Arguments atom_of : simpl never.
Arguments enc : simpl never.
Arguments wrap32 : simpl never.
Arguments u32 : simpl never.
Arguments valid_group : simpl never.

(** * Association lists *)

Lemma aget_aset_same : forall A k (v : A) l, aget k (aset k v l) = Some v.
Proof. induction l as [|[k' v'] t IH]; simpl; [rewrite Z.eqb_refl; auto|]. destruct (k =? k') eqn:E; simpl; rewrite ?Z.eqb_refl, ?E; auto. Qed.

Lemma aget_aset_other : forall A k k' (v : A) l, k <> k' -> aget k (aset k' v l) = aget k l.
Proof.
  induction l as [|[k2 v2] t IH]; intros; simpl.
  - destruct (k =? k') eqn:E; auto. apply Z.eqb_eq in E; contradiction.
  - destruct (k' =? k2) eqn:E2; simpl.
    + apply Z.eqb_eq in E2; subst. destruct (k =? k2) eqn:E; auto. apply Z.eqb_eq in E; contradiction.
    + destruct (k =? k2); auto.
Qed.

Lemma aget_adel_other : forall A k k' (l : list (Z * A)), k <> k' -> aget k (adel k' l) = aget k l.
Proof.
  induction l as [|[k2 v2] t IH]; intros; simpl; auto.
  destruct (k' =? k2) eqn:E2; simpl.
  - apply Z.eqb_eq in E2; subst. destruct (k =? k2) eqn:E; auto. apply Z.eqb_eq in E; contradiction.
  - destruct (k =? k2); auto.
Qed.

Lemma aget_In : forall A k (v : A) l, aget k l = Some v -> In (k, v) l.
Proof.
  induction l as [|[k2 v2] t IH]; simpl; intros; [discriminate|].
  destruct (k =? k2) eqn:E. - apply Z.eqb_eq in E; inversion H; subst; auto. - auto.
Qed.

Lemma aget_None_notin : forall A k (l : list (Z * A)), aget k l = None -> ~ In k (map fst l).
Proof.
  induction l as [|[k2 v2] t IH]; simpl; intros; auto.
  destruct (k =? k2) eqn:E; [discriminate|]. apply Z.eqb_neq in E. intros [X|X]; [congruence|]. now apply IH.
Qed.

Lemma notin_aget_None : forall A k (l : list (Z * A)), ~ In k (map fst l) -> aget k l = None.
Proof.
  induction l as [|[k2 v2] t IH]; simpl; intros; auto.
  destruct (k =? k2) eqn:E. - apply Z.eqb_eq in E; subst; tauto. - apply IH; tauto.
Qed.

Lemma In_adel : forall A k (x : Z * A) l, In x (adel k l) -> In x l.
Proof.
  induction l as [|[k2 v2] t IH]; simpl; intros; auto.
  destruct (k =? k2); simpl in *; tauto.
Qed.

Lemma NoDup_adel : forall A k (l : list (Z * A)), NoDup (map fst l) -> NoDup (map fst (adel k l)).
Proof.
  induction l as [|[k2 v2] t IH]; simpl; intros; auto.
  inversion H; subst. destruct (k =? k2); simpl; auto. constructor; auto.
  intro X. apply H2. apply in_map_iff in X. destruct X as [x [E I]]. apply in_map_iff. exists x; split; auto. eapply In_adel; eauto.
Qed.

Lemma aget_adel_same : forall A k (l : list (Z * A)), NoDup (map fst l) -> aget k (adel k l) = None.
Proof.
  induction l as [|[k2 v2] t IH]; simpl; intros; auto.
  inversion H; subst. destruct (k =? k2) eqn:E; simpl.
  - apply Z.eqb_eq in E; subst. now apply notin_aget_None.
  - rewrite E. auto.
Qed.

Lemma aget_filter : forall A (f : Z * A -> bool) k l,
  (forall v, In (k, v) l -> f (k, v) = true) -> aget k (filter f l) = aget k l.
Proof.
  induction l as [|[k2 v2] t IH]; simpl; intros; auto.
  destruct (k =? k2) eqn:E.
  - apply Z.eqb_eq in E; subst. rewrite H by auto. simpl. now rewrite Z.eqb_refl.
  - destruct (f (k2, v2)); simpl; rewrite ?E; apply IH; auto.
Qed.

Lemma aget_filter_none : forall A (f : Z * A -> bool) k l,
  (forall v, In (k, v) l -> f (k, v) = false) -> aget k (filter f l) = None.
Proof.
  induction l as [|[k2 v2] t IH]; simpl; intros; auto.
  destruct (f (k2, v2)) eqn:F; simpl.
  - destruct (k =? k2) eqn:E. + apply Z.eqb_eq in E; subst. rewrite H in F by auto. discriminate. + apply IH; auto.
  - apply IH; auto.
Qed.

(** buckets *)
Lemma find_remove_other : forall id id' b, id <> id' -> find_node id' (remove_node id b) = find_node id' b.
Proof.
  induction b as [|n t IH]; simpl; intros; auto.
  destruct (nid n =? id) eqn:E; simpl.
  - apply Z.eqb_eq in E. destruct (nid n =? id') eqn:E'; auto. apply Z.eqb_eq in E'. congruence.
  - destruct (nid n =? id'); auto.
Qed.

Lemma find_none_notin : forall id b, find_node id b = None -> ~ In id (map nid b).
Proof.
  induction b as [|n t IH]; simpl; intros; auto.
  destruct (nid n =? id) eqn:E; [discriminate|]. apply Z.eqb_neq in E. intros [X|X]; [congruence|]. now apply IH.
Qed.

Lemma notin_find_none : forall id b, ~ In id (map nid b) -> find_node id b = None.
Proof.
  induction b as [|n t IH]; simpl; intros; auto.
  destruct (nid n =? id) eqn:E. - apply Z.eqb_eq in E; tauto. - apply IH; tauto.
Qed.

Lemma find_remove_same : forall id b, NoDup (map nid b) -> find_node id (remove_node id b) = None.
Proof.
  induction b as [|n t IH]; simpl; intros; auto.
  inversion H; subst. destruct (nid n =? id) eqn:E; simpl.
  - apply Z.eqb_eq in E; subst. now apply notin_find_none.
  - rewrite E. auto.
Qed.

Lemma In_remove_node : forall id x b, In x (map nid (remove_node id b)) -> In x (map nid b).
Proof.
  induction b as [|n t IH]; simpl; intros; auto.
  destruct (nid n =? id); simpl in *; tauto.
Qed.

Lemma NoDup_remove_node : forall id b, NoDup (map nid b) -> NoDup (map nid (remove_node id b)).
Proof.
  induction b as [|n t IH]; simpl; intros; auto.
  inversion H; subst. destruct (nid n =? id); simpl; auto. constructor; auto.
  intro X. apply H2. eapply In_remove_node; eauto.
Qed.

(* ------------------------------------------------------------------------------------------------ *)
(** * The simulation relation between the atom table (M) and the finite map (S) *)

Definition pow2hash (h : Z) : Prop := exists k, 0 <= k <= 28 /\ h = 2 ^ k.

Definition Ginv (m : mstate) (s : sstate) : Prop :=
  forall g, valid_group g = true ->
    match aget g (mgroups m), aget g (sgroups s) with
    | None, None => True
    | Some gp, Some sg => gcount gp = scount sg /\ 0 <= scount sg <= 1000000 /\
        (0 < scount sg -> pow2hash (ghash gp) /\ gnext gp = snext sg /\ 0 <= snext sg <= 268435456)
    | _, _ => False
    end.

Definition Linv (m : mstate) (s : sstate) : Prop := forall id, m_find id m = s_lookup id s.

Definition MBinv (m : mstate) : Prop :=
  forall g gp, live_group g m = Some gp -> forall loc, NoDup (map nid (bucket gp loc)).

Definition SIinv (s : sstate) : Prop :=
  NoDup (map fst (slive s)) /\
  forall id g o, In (id, (g, o)) (slive s) ->
    valid_group g = true /\
    exists sg i, aget g (sgroups s) = Some sg /\ 0 < scount sg /\ 0 <= i < snext sg /\ snext sg <= 268435456 /\ id = enc g i.

Definition cval (m : mstate) (c : centry) : Prop := (cid c = -1 /\ cobj c = 0) \/ m_find (cid c) m = Some (cobj c).
Definition cdist (a b : centry) : Prop := cid a = cid b -> cid a = -1.
Definition Cinv (m : mstate) : Prop :=
  cval m (mc0 m) /\ cval m (mc1 m) /\ cval m (mc2 m) /\ cval m (mc3 m) /\
  cdist (mc0 m) (mc1 m) /\ cdist (mc0 m) (mc2 m) /\ cdist (mc0 m) (mc3 m) /\
  cdist (mc1 m) (mc2 m) /\ cdist (mc1 m) (mc3 m) /\ cdist (mc2 m) (mc3 m).

Definition Rel (m : mstate) (s : sstate) : Prop := Ginv m s /\ Linv m s /\ MBinv m /\ SIinv s /\ Cinv m.

Lemma valid_group_range : forall g, valid_group g = true -> 0 <= g < 9.
Proof. unfold valid_group, BADGROUP, MAXGROUP. intros. apply andb_true_iff in H. destruct H as [A B]. apply Z.ltb_lt in A, B. lia. Qed.

Lemma m_find_minus1 : forall m, m_find (-1) m = None.
Proof. intros. unfold m_find, live_group. replace (group_of (-1)) with 15 by (vm_compute; reflexivity). reflexivity. Qed.

Lemma Rel_init : Rel m_init s_init.
Proof.
  unfold Rel. split; [|split; [|split; [|split]]].
  - intros g _. simpl. auto.
  - intro id. unfold m_find, live_group. destruct (valid_group (group_of id)); reflexivity.
  - intros g gp H. unfold live_group in H. simpl in H. destruct (valid_group g); discriminate.
  - split; simpl. constructor. intros; contradiction.
  - unfold Cinv, cval, cdist. simpl. repeat split; auto.
Qed.

(** M's usable group pointer and S's agree *)
Lemma live_corr : forall m s g, Ginv m s ->
  (live_group g m = None /\ s_live_group g s = None) \/
  (exists gp sg, live_group g m = Some gp /\ s_live_group g s = Some sg /\ valid_group g = true /\
     aget g (mgroups m) = Some gp /\ aget g (sgroups s) = Some sg /\
     gcount gp = scount sg /\ 0 < scount sg <= 1000000 /\ pow2hash (ghash gp) /\ gnext gp = snext sg /\
     0 <= snext sg <= 268435456).
Proof.
  intros m s g G. unfold live_group, s_live_group.
  destruct (valid_group g) eqn:V; [|left; auto].
  specialize (G g V).
  destruct (aget g (mgroups m)) as [gp|], (aget g (sgroups s)) as [sg|]; try contradiction; [|left; auto].
  destruct G as (E & B & H). rewrite E.
  destruct (scount sg <=? 0) eqn:C.
  - left; auto.
  - apply Z.leb_gt in C. right. exists gp, sg. destruct (H C) as (P & N & R). repeat split; auto; lia.
Qed.

Lemma m_find_set_group : forall id g gp' m, valid_group g = true ->
  m_find id (set_group g gp' m) =
  if group_of id =? g then (if gcount gp' <=? 0 then None else find_node id (bucket gp' (loc_of id (ghash gp'))))
  else m_find id m.
Proof.
  intros. unfold m_find, live_group, set_group. cbn [mgroups].
  destruct (group_of id =? g) eqn:E.
  - apply Z.eqb_eq in E. rewrite E, H, aget_aset_same. destruct (gcount gp' <=? 0); auto.
  - apply Z.eqb_neq in E. rewrite aget_aset_other by auto. reflexivity.
Qed.

Lemma m_find_live : forall id m gp, live_group (group_of id) m = Some gp ->
  m_find id m = find_node id (bucket gp (loc_of id (ghash gp))).
Proof. intros. unfold m_find. now rewrite H. Qed.

Lemma bucket_aset : forall gp c h a n loc b l,
  bucket (mkGrp c h a n (aset loc b (gbk gp))) l = if l =? loc then b else bucket gp l.
Proof.
  intros. unfold bucket. simpl. destruct (l =? loc) eqn:E.
  - apply Z.eqb_eq in E; subst. now rewrite aget_aset_same.
  - apply Z.eqb_neq in E. now rewrite aget_aset_other.
Qed.

Lemma s_fresh : forall s g sg, SIinv s -> valid_group g = true -> aget g (sgroups s) = Some sg ->
  0 <= snext sg < 268435456 -> s_lookup (enc g (snext sg)) s = None /\ ~ In (enc g (snext sg)) (map fst (slive s)).
Proof.
  intros s g sg [ND SI] V A B.
  assert (N : ~ In (enc g (snext sg)) (map fst (slive s))).
  { intro X. apply in_map_iff in X. destruct X as [[id [g' o]] [E I]]. simpl in E. subst id.
    destruct (SI _ _ _ I) as (V' & sg' & i & A' & C' & Bi & L' & E').
    apply valid_group_range in V, V'.
    apply enc_inj in E'; try lia. destruct E' as [E1 E2]. subst g'. rewrite A in A'. inversion A'; subst sg'. lia. }
  split; auto. unfold s_lookup. now rewrite notin_aget_None.
Qed.

(** ** HAregister_atom *)
Lemma reg_refines : forall m s g obj, Rel m s -> op_ok (AReg g obj) s = true ->
  fst (ha_register g obj m) = fst (s_step (AReg g obj) s) /\
  Rel (snd (ha_register g obj m)) (snd (s_step (AReg g obj) s)).
Proof.
  intros m s g obj R OK. pose proof R as (G & L & MB & SI & C).
  unfold ha_register. simpl s_step. simpl in OK.
  destruct (live_corr m s g G) as [[A B]|(gp & sg & A & B & V & AM & AS & EC & CB & (k & Kb & HK) & EN & NB)].
  - rewrite A, B. simpl. auto.
  - rewrite A, B in *. apply andb_true_iff in OK. destruct OK as [_ OK]. apply Z.ltb_lt in OK. unfold ATOM_LIMIT in OK.
    assert (Vr := valid_group_range g V).
    assert (EID : atom_of g (gnext gp) = enc g (snext sg)) by (rewrite EN; apply atom_of_enc; lia).
    rewrite EID. set (id := enc g (snext sg)).
    destruct (s_fresh s g sg SI V AS ltac:(lia)) as [FR NI]. fold id in FR, NI.
    set (loc := gnext gp mod ghash gp).
    assert (LOC : loc_of id (ghash gp) = loc).
    { unfold id, loc. rewrite HK, EN. apply loc_of_enc; lia. }
    assert (GID : group_of id = g) by (apply group_of_enc; lia).
    set (gp' := mkGrp (gcount gp) (ghash gp) (u32 (gatoms gp + 1)) (u32 (gnext gp + 1))
                      (aset loc (mkNode id obj :: bucket gp loc) (gbk gp))).
    assert (CP : gcount gp' <=? 0 = false) by (apply Z.leb_gt; simpl; lia).
    assert (MF : forall id', m_find id' (set_group g gp' m) = if id' =? id then Some obj else m_find id' m).
    { intro id'. rewrite m_find_set_group by auto. rewrite CP.
      destruct (group_of id' =? g) eqn:E.
      - apply Z.eqb_eq in E. unfold gp' at 1 2. rewrite bucket_aset. simpl ghash.
        assert (LG : live_group (group_of id') m = Some gp) by (rewrite E; auto).
        rewrite (m_find_live id' m gp LG).
        destruct (id' =? id) eqn:E2.
        + apply Z.eqb_eq in E2. subst id'. rewrite LOC, Z.eqb_refl. simpl. now rewrite Z.eqb_refl.
        + destruct (loc_of id' (ghash gp) =? loc) eqn:E3; auto.
          apply Z.eqb_eq in E3. rewrite E3. simpl. apply Z.eqb_neq in E2.
          destruct (id =? id') eqn:E4; auto. apply Z.eqb_eq in E4. congruence.
      - destruct (id' =? id) eqn:E2; auto. apply Z.eqb_eq in E2. subst id'. apply Z.eqb_neq in E. congruence. }
    assert (MN : m_find id m = None) by (rewrite L; auto).
    simpl. split; auto. split; [|split; [|split; [|split]]].
    + (* Ginv *) intros g' V'. simpl. destruct (Z.eq_dec g' g) as [->|NE].
      * rewrite !aget_aset_same. simpl. unfold u32. repeat split; try lia. exists k; auto.
      * rewrite !aget_aset_other by auto. apply G; auto.
    + (* Linv *) intro id'. rewrite MF. unfold s_lookup. simpl. destruct (id' =? id); auto. apply L.
    + (* MBinv *) intros g' gpx LG loc'. unfold live_group, set_group in LG. simpl in LG.
      destruct (valid_group g') eqn:V'; [|discriminate].
      destruct (Z.eq_dec g' g) as [->|NE].
      * rewrite aget_aset_same in LG. rewrite CP in LG. inversion LG; subst gpx. unfold gp'. rewrite bucket_aset.
        destruct (loc' =? loc) eqn:E; [|apply (MB g gp A)].
        simpl. constructor; [|apply (MB g gp A)].
        apply find_none_notin. rewrite <- LOC. rewrite <- (m_find_live id m gp); auto. rewrite GID; auto.
      * rewrite aget_aset_other in LG by auto. apply (MB g' gpx). unfold live_group. now rewrite V'.
    + (* SIinv *) destruct SI as [ND SI]. split; simpl.
      * constructor; auto.
      * intros id' g' o [X|X].
        -- injection X as Ei Eg Eo. subst g' o. split; auto. exists (mkS (scount sg) (snext sg + 1)), (snext sg).
           rewrite aget_aset_same. simpl. rewrite <- Ei. repeat split; auto; try lia.
        -- destruct (SI _ _ _ X) as (V' & sg' & i & A' & C' & Bi & L' & E'). split; auto.
           destruct (Z.eq_dec g' g) as [->|NE].
           ++ rewrite AS in A'. inversion A'; subst sg'. exists (mkS (scount sg) (snext sg + 1)), i.
              rewrite aget_aset_same. simpl. repeat split; auto; lia.
           ++ exists sg', i. rewrite aget_aset_other by auto. repeat split; auto; lia.
    + (* Cinv *)
      assert (CV : forall c, cval m c -> cval (set_group g gp' m) c).
      { intros c [X|X]; [left; auto|right]. rewrite MF. destruct (cid c =? id) eqn:E; auto.
        apply Z.eqb_eq in E. rewrite E in X. congruence. }
      destruct C as (c0 & c1 & c2 & c3 & D). unfold Cinv. simpl. repeat split; auto; apply D.
Qed.

(** ** HAatom_object (cache + HAIatom_object) *)
Lemma cdist_sym : forall a b, cdist a b -> cdist b a.
Proof. unfold cdist. intros a b H E. rewrite E. apply H. congruence. Qed.

Lemma Rel_set_cache : forall m s a b c d, Rel m s -> Cinv (set_cache m a b c d) -> Rel (set_cache m a b c d) s.
Proof. intros m s a b c d (G & L & MB & SI & _) C. unfold Rel. split; [exact G|split; [exact L|split; [exact MB|split; [exact SI|exact C]]]]. Qed.

Lemma hit_value : forall m s c id, Linv m s -> cval m c -> cid c = id ->
  cobj c = match s_lookup id s with Some o => o | None => 0 end.
Proof.
  intros m s c id L [[A B]|A] E.
  - rewrite <- E, A, <- L, m_find_minus1. auto.
  - rewrite <- E, <- L, A. auto.
Qed.

Lemma lookup_refines : forall m s id, Rel m s ->
  fst (ha_object id m) = fst (s_step (ALookup id) s) /\ Rel (snd (ha_object id m)) (snd (s_step (ALookup id) s)).
Proof.
  intros m s id R. pose proof R as (G & L & MB & SI & C).
  destruct C as (v0 & v1 & v2 & v3 & d01 & d02 & d03 & d12 & d13 & d23).
  unfold ha_object. cbn [s_step fst snd].
  destruct (cid (mc0 m) =? id) eqn:E0; [apply Z.eqb_eq in E0; split; [eapply hit_value; eauto|auto]|].
  destruct (cid (mc1 m) =? id) eqn:E1.
  { apply Z.eqb_eq in E1; split; [eapply hit_value; eauto|]. apply Rel_set_cache; auto.
    unfold Cinv, set_cache; cbn [mc0 mc1 mc2 mc3]. repeat split; auto using cdist_sym. }
  destruct (cid (mc2 m) =? id) eqn:E2.
  { apply Z.eqb_eq in E2; split; [eapply hit_value; eauto|]. apply Rel_set_cache; auto.
    unfold Cinv, set_cache; cbn [mc0 mc1 mc2 mc3]. repeat split; auto using cdist_sym. }
  destruct (cid (mc3 m) =? id) eqn:E3.
  { apply Z.eqb_eq in E3; split; [eapply hit_value; eauto|]. apply Rel_set_cache; auto.
    unfold Cinv, set_cache; cbn [mc0 mc1 mc2 mc3]. repeat split; auto using cdist_sym. }
  apply Z.eqb_neq in E0, E1, E2, E3.
  unfold hai_object. rewrite <- L. destruct (m_find id m) as [o|] eqn:F; cbn [fst snd]; [|auto].
  split; auto. apply Rel_set_cache; auto.
  unfold Cinv, set_cache; cbn [mc0 mc1 mc2 mc3]. repeat split; auto.
  - right. exact F.
  - intro X. simpl in X. congruence.
  - intro X. simpl in X. congruence.
  - intro X. simpl in X. congruence.
Qed.

(** ** HAatom_group *)
Lemma group_refines : forall m s id, fst (m_step (AGroup id) m) = fst (s_step (AGroup id) s).
Proof. intros. cbn [m_step s_step fst]. unfold ha_group. now rewrite group_of_spec. Qed.

(* ------------------------------------------------------------------------------------------------ *)
(** * Consequences for a registration: the issued id is new, decodable, and immediately designates its object *)

Lemma register_issues_fresh_id : forall m s g obj, Rel m s -> op_ok (AReg g obj) s = true ->
  forall gp, live_group g m = Some gp ->
  let id := fst (ha_register g obj m) in
  s_lookup id s = None /\ m_find id m = None /\ group_of id = g /\
  m_find id (snd (ha_register g obj m)) = Some obj /\
  (forall id', id' <> id -> m_find id' (snd (ha_register g obj m)) = m_find id' m).
Proof.
  intros m s g obj R OK gp LG.
  destruct (reg_refines m s g obj R OK) as [E R'].
  pose proof R as (G & L & MB & SI & C). pose proof R' as (_ & L' & _).
  destruct (live_corr m s g G) as [[A B]|(gp0 & sg & A & B & V & AM & AS & EC & CB & PH & EN & NB)]; [congruence|].
  simpl in OK. rewrite B in OK. apply andb_true_iff in OK. destruct OK as [_ OK]. apply Z.ltb_lt in OK. unfold ATOM_LIMIT in OK.
  assert (Vr := valid_group_range g V).
  cbn zeta. rewrite E. simpl s_step in *. rewrite B in *. cbn [fst snd] in *.
  destruct (s_fresh s g sg SI V AS ltac:(lia)) as [FR NI].
  repeat split; auto.
  - now rewrite L.
  - apply group_of_enc; lia.
  - rewrite L'. unfold s_lookup. cbn [slive aget]. now rewrite Z.eqb_refl.
  - intros id' NE. rewrite L', L. unfold s_lookup. cbn [slive aget].
    destruct (id' =? enc g (snext sg)) eqn:X; auto. apply Z.eqb_eq in X. contradiction.
Qed.

(** the wrap-around: once a group has issued 2^28 ids in one lifetime, the next registration re-issues the id of
    registration number (gnext - 2^28); if that id is still registered, two live handles alias. *)
Lemma wrap_collision : forall m g gp n obj,
  live_group g m = Some gp -> gnext gp = n + 268435456 -> 0 <= n < 268435456 ->
  fst (ha_register g obj m) = atom_of g n.
Proof.
  intros m g gp n obj LG EN B. unfold ha_register. rewrite LG. cbn [fst]. rewrite EN.
  assert (V : valid_group g = true) by (unfold live_group in LG; destruct (valid_group g); [auto|discriminate]).
  apply valid_group_range in V. apply atom_of_wraps; lia.
Qed.

(* ------------------------------------------------------------------------------------------------ *)
(** * The file machine *)

Lemma close_with_attached_fails_lemma : forall st fid r fr,
  file_of fid st = Some (r, fr) -> frefcount fr = 1 -> 0 < fattach fr ->
  f_step (FClose fid) st = (RFail, st).
Proof. intros st fid r fr F R A. unfold f_step. rewrite F, R. apply Z.ltb_lt in A. rewrite A. reflexivity. Qed.

Lemma stale_file_id_rejected_lemma : forall st fid, aget fid (fids st) = None ->
  f_step (FClose fid) st = (RFail, st) /\ f_step (FInq fid) st = (RFail, st) /\
  (forall w, f_step (FStart fid w) st = (RFail, st)) /\ f_step (FEnd fid) st = (RFail, st).
Proof. intros st fid H. unfold f_step, file_of. rewrite H. auto. Qed.

Lemma wrong_kind_id_rejected_lemma : forall st id f, aget id (fids st) = Some (OAid f) ->
  f_step (FClose id) st = (RFail, st) /\ f_step (FInq id) st = (RFail, st) /\
  (forall w, f_step (FStart id w) st = (RFail, st)).
Proof. intros st id f H. unfold f_step, file_of. rewrite H. auto. Qed.

(* ------------------------------------------------------------------------------------------------ *)
(** ** HAinit_group *)
Lemma pow2_of_land : forall h, 0 < h -> Z.land h (h - 1) = 0 -> h = 2 ^ Z.log2 h.
Proof.
  intros h P L. destruct (Z.log2_spec h P) as [Lo Hi]. set (k := Z.log2 h) in *.
  assert (K : 0 <= k) by apply Z.log2_nonneg.
  destruct (Z.eq_dec h (2 ^ k)) as [|NE]; auto. exfalso.
  assert (Lk : Z.log2 (h - 1) = k). { apply Z.log2_unique; auto. replace (Z.succ k) with (k + 1) in * by lia. lia. }
  assert (T : Z.testbit (Z.land h (h - 1)) k = true).
  { rewrite Z.land_spec. unfold k at 1. rewrite Z.bit_log2 by lia. rewrite <- Lk. rewrite Z.bit_log2; auto.
    assert (0 < 2 ^ k) by (apply Z.pow_pos_nonneg; lia). lia. }
  rewrite L, Z.bits_0 in T. discriminate.
Qed.

Lemma pow2hash_of_check : forall hs, 0 < hs <= 268435456 -> Z.land hs (hs - 1) = 0 -> pow2hash hs.
Proof.
  intros hs B L. exists (Z.log2 hs). split; [|apply pow2_of_land; auto; lia].
  split; [apply Z.log2_nonneg|]. change 28 with (Z.log2 268435456). apply Z.log2_le_mono. lia.
Qed.

Lemma init_refines : forall m s g hs, Rel m s -> op_ok (AInit g hs) s = true ->
  fst (ha_init g hs m) = fst (s_step (AInit g hs) s) /\ Rel (snd (ha_init g hs m)) (snd (s_step (AInit g hs) s)).
Proof.
  intros m s g hs R OK. pose proof R as (G & L & MB & SI & C).
  unfold ha_init. cbn [s_step]. cbn [op_ok] in OK.
  destruct (negb (valid_group g) || (hs =? 0)) eqn:A; [cbn [orb fst snd]; auto|].
  apply orb_false_iff in A. destruct A as [V Z0]. apply negb_false_iff in V. apply Z.eqb_neq in Z0.
  destruct (negb (Z.land hs (hs - 1) =? 0)) eqn:P; cbn [orb fst snd]; [auto|].
  apply negb_false_iff in P. apply Z.eqb_eq in P.
  apply andb_true_iff in OK. destruct OK as [OK CB]. apply andb_true_iff in OK. destruct OK as [H0 H1].
  apply Z.leb_le in H0, H1. unfold ATOM_LIMIT in H1.
  assert (PH : pow2hash hs) by (apply pow2hash_of_check; auto; lia).
  specialize (G g V) as Gg.
  set (gp := match aget g (mgroups m) with Some gp => gp | None => mkGrp 0 0 0 0 [] end).
  set (sg := match aget g (sgroups s) with Some sg => sg | None => mkS 0 0 end).
  assert (EC : gcount gp = scount sg /\ 0 <= scount sg < 1000000 /\
               (0 < scount sg -> pow2hash (ghash gp) /\ gnext gp = snext sg /\ 0 <= snext sg <= 268435456 /\
                                 aget g (mgroups m) = Some gp /\ aget g (sgroups s) = Some sg)).
  { unfold gp, sg. destruct (aget g (mgroups m)) as [gp0|], (aget g (sgroups s)) as [sg0|]; try contradiction.
    - destruct Gg as (E & B & H). apply Z.ltb_lt in CB. repeat split; auto; try lia; apply H; auto.
    - simpl. repeat split; try lia. }
  destruct EC as (EC & CB' & LIVE).
  rewrite EC.
  set (gp1 := if scount sg =? 0 then mkGrp 0 hs 0 0 [] else gp).
  set (sg1 := if scount sg =? 0 then mkS 0 0 else sg).
  set (gp' := mkGrp (u32 (gcount gp1 + 1)) (ghash gp1) (gatoms gp1) (gnext gp1) (gbk gp1)).
  assert (E1 : gcount gp1 = scount sg1) by (unfold gp1, sg1; destruct (scount sg =? 0); auto).
  assert (B1 : 0 <= scount sg1 < 1000000) by (unfold sg1; destruct (scount sg =? 0); simpl; lia).
  assert (CP : gcount gp' <=? 0 = false) by (apply Z.leb_gt; unfold gp'; simpl; unfold u32; lia).
  assert (MF : forall id', m_find id' (set_group g gp' m) = m_find id' m).
  { intro id'. rewrite m_find_set_group by auto. rewrite CP. destruct (group_of id' =? g) eqn:E; auto.
    apply Z.eqb_eq in E. unfold m_find, live_group. rewrite E, V.
    unfold gp', gp1. destruct (scount sg =? 0) eqn:Z1.
    - apply Z.eqb_eq in Z1. simpl. unfold bucket. simpl.
      unfold gp in EC. destruct (aget g (mgroups m)) as [gp0|]; auto. rewrite EC, Z1. reflexivity.
    - apply Z.eqb_neq in Z1. destruct LIVE as (_ & _ & _ & AM & _); [lia|]. rewrite AM.
      replace (gcount gp <=? 0) with false by (symmetry; apply Z.leb_gt; lia). reflexivity. }
  split; [reflexivity|]. unfold Rel. split; [|split; [|split; [|split]]].
  - intros g' V'. unfold set_group. cbn [mgroups sgroups]. destruct (Z.eq_dec g' g) as [->|NE].
    + rewrite !aget_aset_same. fold sg1. unfold gp'. cbn [gcount ghash gnext scount snext]. unfold u32.
      split; [lia|]. split; [lia|]. intros _. unfold gp1, sg1. destruct (scount sg =? 0) eqn:Z1; cbn [ghash gnext snext].
      * repeat split; auto; lia.
      * apply Z.eqb_neq in Z1. destruct LIVE as (A1 & A2 & A3 & _); [lia|]. auto.
    + rewrite !aget_aset_other by auto. apply G; auto.
  - intro id'. rewrite MF. apply L.
  - intros g' gpx LG loc. unfold live_group, set_group in LG. cbn [mgroups] in LG.
    destruct (valid_group g') eqn:V'; [|discriminate]. destruct (Z.eq_dec g' g) as [->|NE].
    + rewrite aget_aset_same, CP in LG. inversion LG; subst gpx. unfold gp', gp1. destruct (scount sg =? 0) eqn:Z1.
      * unfold bucket. simpl. constructor.
      * apply Z.eqb_neq in Z1. destruct LIVE as (_ & _ & _ & AM & _); [lia|].
        apply (MB g gp). unfold live_group. rewrite V, AM.
        replace (gcount gp <=? 0) with false by (symmetry; apply Z.leb_gt; lia). reflexivity.
    + rewrite aget_aset_other in LG by auto. apply (MB g' gpx). unfold live_group. now rewrite V'.
  - destruct SI as [ND SI]. split; auto. cbn [slive sgroups]. intros id' g' o I.
    destruct (SI _ _ _ I) as (V' & sg' & i & A' & C' & Bi & L' & E'). split; auto.
    destruct (Z.eq_dec g' g) as [->|NE].
    + assert (sg' = sg) by (unfold sg; rewrite A'; auto). subst sg'.
      exists (mkS (scount sg1 + 1) (snext sg1)), i. rewrite aget_aset_same. unfold sg1.
      replace (scount sg =? 0) with false by (symmetry; apply Z.eqb_neq; lia). cbn [scount snext]. repeat split; auto; lia.
    + exists sg', i. rewrite aget_aset_other by auto. repeat split; auto; lia.
  - destruct C as (c0 & c1 & c2 & c3 & D).
    assert (CV : forall c, cval m c -> cval (set_group g gp' m) c).
    { intros c [X|X]; [left; auto|right]. now rewrite MF. }
    unfold Cinv. cbn [mc0 mc1 mc2 mc3 set_group]. repeat split; auto; apply D.
Qed.

(* ------------------------------------------------------------------------------------------------ *)
(** * Histories *)
Definition op_covered (o : aop) : bool :=
  match o with AInit _ _ | AReg _ _ | ALookup _ | AGroup _ => true | _ => false end.

Lemma step_refines : forall o m s, Rel m s -> op_covered o = true -> op_ok o s = true ->
  fst (m_step o m) = fst (s_step o s) /\ Rel (snd (m_step o m)) (snd (s_step o s)).
Proof.
  intros o m s R Cv OK. destruct o; try discriminate.
  - apply init_refines; auto.
  - apply reg_refines; auto.
  - apply lookup_refines; auto.
  - split; [apply group_refines|exact R].
Qed.

Lemma run_refines : forall h m s, Rel m s -> forallb op_covered h = true -> hist_ok h s = true ->
  fst (m_run h m) = fst (s_run h s) /\ Rel (snd (m_run h m)) (snd (s_run h s)).
Proof.
  induction h as [|o t IH]; intros m s R Cv OK; [simpl; auto|].
  cbn [forallb] in Cv. apply andb_true_iff in Cv. destruct Cv as [Co Ct].
  cbn [hist_ok] in OK. apply andb_true_iff in OK. destruct OK as [Oo Ot].
  destruct (step_refines o m s R Co Oo) as [E R'].
  cbn [m_run s_run]. destruct (m_step o m) as [r m1]. destruct (s_step o s) as [r2 s1]. cbn [fst snd] in *.
  destruct (IH m1 s1 R' Ct Ot) as [E2 R2].
  destruct (m_run t m1) as [rs m2]. destruct (s_run t s1) as [rs2 s2]. cbn [fst snd] in *.
  split; [congruence|auto].
Qed.

Lemma atom_refines_map_partial_lemma : forall h, forallb op_covered h = true -> hist_ok h s_init = true ->
  fst (m_run h m_init) = fst (s_run h s_init).
Proof. intros h C O. apply (run_refines h m_init s_init Rel_init C O). Qed.

(** decodability of issued ids *)
Lemma make_atom_decodable_lemma : forall g n, 0 <= g < 16 -> 0 <= n < 268435456 ->
  group_of (atom_of g n) = g /\ (atom_of g n) mod 268435456 = n /\
  (forall g' n', 0 <= g' < 16 -> 0 <= n' < 268435456 -> atom_of g n = atom_of g' n' -> g = g' /\ n = n').
Proof.
  intros g n Hg Hn. rewrite atom_of_enc by lia. split; [apply group_of_enc; lia|]. split; [apply enc_index; lia|].
  intros g' n' Hg' Hn' E. rewrite atom_of_enc in E by lia. apply enc_inj in E; auto.
Qed.
