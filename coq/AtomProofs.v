(** C13 proofs (see Properties_C13.v for the statements). *)
From Coq Require Import ZArith List Bool Lia.
Require Import H4.gen.Gen_Atom H4.AtomModel.
Import ListNotations.
Local Open Scope Z_scope.

Ltac Zify.zify_post_hook ::= Z.to_euclidean_division_equations.

Lemma cache_size_is_4 : ATOM_CACHE_SIZE = 4.
Proof. reflexivity. Qed.

(* ------------------------------------------------------------------------------------------------ *)
(** * Arithmetic of the regenerated id macros *)

Lemma wrap32_small : forall x, -2147483648 <= x < 2147483648 -> wrap32 x = x.
Proof. intros; unfold wrap32; lia. Qed.

Lemma wrap32_range : forall x, -2147483648 <= wrap32 x < 2147483648.
Proof. intros; unfold wrap32; lia. Qed.

Lemma wrap32_idem : forall x, wrap32 (wrap32 x) = wrap32 x.
Proof. intros; apply wrap32_small, wrap32_range. Qed.

Lemma land_ones_mod : forall x k, 0 <= k -> Z.land x (2 ^ k - 1) = x mod 2 ^ k.
Proof. intros. rewrite <- Z.land_ones by lia. f_equal. rewrite Z.ones_equiv. lia. Qed.

Lemma group_of_spec : forall a, group_of a = (wrap32 a / 268435456) mod 16.
Proof.
  intros. unfold group_of, ATOM_TO_GROUP. fold (wrap32 a).
  change (Z.sub (Z.mul 4 8) 4) with 28. change 15 with (2 ^ 4 - 1).
  rewrite land_ones_mod by lia. rewrite Z.shiftr_div_pow2 by lia. reflexivity.
Qed.

Lemma loc_of_spec : forall a k, 0 <= k -> loc_of a (2 ^ k) = (a mod 4294967296) mod 2 ^ k.
Proof. intros. unfold loc_of, ATOM_TO_LOC. apply land_ones_mod; lia. Qed.

Lemma lor_disjoint : forall a n k, 0 <= k -> 0 <= n < 2 ^ k -> Z.lor (a * 2 ^ k) n = a * 2 ^ k + n.
Proof.
  intros a n k Hk Hn.
  assert (Z.land (a * 2 ^ k) n = 0).
  { apply Z.bits_inj'. intros i Hi. rewrite Z.land_spec, Z.bits_0.
    destruct (Z_lt_ge_dec i k).
    - rewrite Z.mul_pow2_bits_low by lia. reflexivity.
    - destruct (Z.eq_dec n 0) as [->|Hn0]. { rewrite Z.bits_0. apply andb_false_r. }
      assert (Z.log2 n < k) by (apply Z.log2_lt_pow2; lia).
      rewrite (Z.bits_above_log2 n i) by lia. apply andb_false_r. }
  rewrite <- Z.lxor_lor by assumption. symmetry. apply Z.add_nocarry_lxor. assumption.
Qed.

Lemma make_atom_spec : forall g i, 0 <= g < 16 -> MAKE_ATOM g i = g * 268435456 + (wrap32 i) mod 268435456.
Proof.
  intros g i Hg. unfold MAKE_ATOM. fold (wrap32 g). fold (wrap32 i).
  change (Z.sub (Z.mul 4 8) 4) with 28. rewrite (wrap32_small g) by lia.
  change 15 with (2 ^ 4 - 1). change 268435455 with (2 ^ 28 - 1).
  rewrite !land_ones_mod by lia. rewrite Z.shiftl_mul_pow2 by lia.
  rewrite (Z.mod_small g) by lia.
  rewrite lor_disjoint.
  - reflexivity.
  - lia.
  - apply Z.mod_pos_bound. lia.
Qed.

Lemma atom_of_enc : forall g n, 0 <= g < 16 -> 0 <= n < 268435456 -> atom_of g n = enc g n.
Proof.
  intros. unfold atom_of, enc. rewrite make_atom_spec by lia. rewrite (wrap32_small n) by lia.
  rewrite Z.mod_small by lia. reflexivity.
Qed.

(** the 28-bit mask: the id of registration number n + 2^28 is the id of registration number n *)
Lemma atom_of_wraps : forall g n, 0 <= g < 16 -> 0 <= n < 268435456 -> atom_of g (n + 268435456) = atom_of g n.
Proof.
  intros. unfold atom_of. rewrite !make_atom_spec by lia. f_equal. f_equal. unfold wrap32. lia.
Qed.

Lemma group_of_enc : forall g n, 0 <= g < 16 -> 0 <= n < 268435456 -> group_of (enc g n) = g.
Proof. intros. rewrite group_of_spec. unfold enc. rewrite wrap32_idem. unfold wrap32. lia. Qed.

Lemma enc_index : forall g n, 0 <= g < 16 -> 0 <= n < 268435456 -> (enc g n) mod 268435456 = n.
Proof. intros. unfold enc, wrap32. lia. Qed.

Lemma enc_inj : forall g n g' n', 0 <= g < 16 -> 0 <= n < 268435456 -> 0 <= g' < 16 -> 0 <= n' < 268435456 ->
  enc g n = enc g' n' -> g = g' /\ n = n'.
Proof.
  intros g n g' n' Hg Hn Hg' Hn' E. split.
  - rewrite <- (group_of_enc g n), <- (group_of_enc g' n') by lia. now rewrite E.
  - rewrite <- (enc_index g n), <- (enc_index g' n') by lia. now rewrite E.
Qed.

Lemma loc_of_enc : forall g n k, 0 <= g < 16 -> 0 <= n < 268435456 -> 0 <= k <= 28 ->
  loc_of (enc g n) (2 ^ k) = n mod 2 ^ k.
Proof.
  intros g n k Hg Hn Hk. rewrite loc_of_spec by lia.
  assert (E : 268435456 = 2 ^ k * 2 ^ (28 - k)) by (rewrite <- Z.pow_add_r by lia; replace (k + (28 - k)) with 28 by lia; reflexivity).
  assert (P : 0 < 2 ^ k) by (apply Z.pow_pos_nonneg; lia).
  assert (Q : 0 < 2 ^ (28 - k)) by (apply Z.pow_pos_nonneg; lia).
  unfold enc, wrap32.
  set (x := g * 268435456 + n).
  assert (X : ((x + 2147483648) mod 4294967296 - 2147483648) mod 4294967296 = x mod 4294967296) by lia.
  rewrite X.
  assert (D : x mod 4294967296 = x - 4294967296 * (x / 4294967296)) by lia.
  rewrite D. unfold x.
  replace (g * 268435456 + n - 4294967296 * ((g * 268435456 + n) / 4294967296))
    with (n + (g * 2 ^ (28 - k) - 16 * 2 ^ (28 - k) * ((g * 268435456 + n) / 4294967296)) * 2 ^ k) by (rewrite E at 1; nia).
  apply Z.mod_add. lia.
Qed.

(* ------------------------------------------------------------------------------------------------ *)
Arguments group_of : simpl never.
Arguments loc_of : simpl never.
Arguments atom_of : simpl never.
Arguments enc : simpl never.
Arguments wrap32 : simpl never.
Arguments u32 : simpl never.
Arguments valid_group : simpl never.

(** * Association lists *)

Lemma aget_aset_same : forall A k (v : A) l, aget k (aset k v l) = Some v.
Proof. induction l as [|[k' v'] t IH]; simpl; [rewrite Z.eqb_refl; auto|]. destruct (k =? k') eqn:E; simpl; rewrite ?Z.eqb_refl, ?E; auto. Qed.

Lemma aget_aset_other : forall A k k' (v : A) l, k <> k' -> aget k (aset k' v l) = aget k l.
Proof.
  induction l as [|[k2 v2] t IH]; intros; simpl.
  - destruct (k =? k') eqn:E; auto. apply Z.eqb_eq in E; contradiction.
  - destruct (k' =? k2) eqn:E2; simpl.
    + apply Z.eqb_eq in E2; subst. destruct (k =? k2) eqn:E; auto. apply Z.eqb_eq in E; contradiction.
    + destruct (k =? k2); auto.
Qed.

Lemma aget_adel_other : forall A k k' (l : list (Z * A)), k <> k' -> aget k (adel k' l) = aget k l.
Proof.
  induction l as [|[k2 v2] t IH]; intros; simpl; auto.
  destruct (k' =? k2) eqn:E2; simpl.
  - apply Z.eqb_eq in E2; subst. destruct (k =? k2) eqn:E; auto. apply Z.eqb_eq in E; contradiction.
  - destruct (k =? k2); auto.
Qed.

Lemma aget_In : forall A k (v : A) l, aget k l = Some v -> In (k, v) l.
Proof.
  induction l as [|[k2 v2] t IH]; simpl; intros; [discriminate|].
  destruct (k =? k2) eqn:E. - apply Z.eqb_eq in E; inversion H; subst; auto. - auto.
Qed.

Lemma aget_None_notin : forall A k (l : list (Z * A)), aget k l = None -> ~ In k (map fst l).
Proof.
  induction l as [|[k2 v2] t IH]; simpl; intros; auto.
  destruct (k =? k2) eqn:E; [discriminate|]. apply Z.eqb_neq in E. intros [X|X]; [congruence|]. now apply IH.
Qed.

Lemma notin_aget_None : forall A k (l : list (Z * A)), ~ In k (map fst l) -> aget k l = None.
Proof.
  induction l as [|[k2 v2] t IH]; simpl; intros; auto.
  destruct (k =? k2) eqn:E. - apply Z.eqb_eq in E; subst; tauto. - apply IH; tauto.
Qed.

Lemma In_adel : forall A k (x : Z * A) l, In x (adel k l) -> In x l.
Proof.
  induction l as [|[k2 v2] t IH]; simpl; intros; auto.
  destruct (k =? k2); simpl in *; tauto.
Qed.

Lemma NoDup_adel : forall A k (l : list (Z * A)), NoDup (map fst l) -> NoDup (map fst (adel k l)).
Proof.
  induction l as [|[k2 v2] t IH]; simpl; intros; auto.
  inversion H; subst. destruct (k =? k2); simpl; auto. constructor; auto.
  intro X. apply H2. apply in_map_iff in X. destruct X as [x [E I]]. apply in_map_iff. exists x; split; auto. eapply In_adel; eauto.
Qed.

Lemma aget_adel_same : forall A k (l : list (Z * A)), NoDup (map fst l) -> aget k (adel k l) = None.
Proof.
  induction l as [|[k2 v2] t IH]; simpl; intros; auto.
  inversion H; subst. destruct (k =? k2) eqn:E; simpl.
  - apply Z.eqb_eq in E; subst. now apply notin_aget_None.
  - rewrite E. auto.
Qed.

Lemma aget_filter : forall A (f : Z * A -> bool) k l,
  (forall v, In (k, v) l -> f (k, v) = true) -> aget k (filter f l) = aget k l.
Proof.
  induction l as [|[k2 v2] t IH]; simpl; intros; auto.
  destruct (k =? k2) eqn:E.
  - apply Z.eqb_eq in E; subst. rewrite H by auto. simpl. now rewrite Z.eqb_refl.
  - destruct (f (k2, v2)); simpl; rewrite ?E; apply IH; auto.
Qed.

Lemma aget_filter_none : forall A (f : Z * A -> bool) k l,
  (forall v, In (k, v) l -> f (k, v) = false) -> aget k (filter f l) = None.
Proof.
  induction l as [|[k2 v2] t IH]; simpl; intros; auto.
  destruct (f (k2, v2)) eqn:F; simpl.
  - destruct (k =? k2) eqn:E. + apply Z.eqb_eq in E; subst. rewrite H in F by auto. discriminate. + apply IH; auto.
  - apply IH; auto.
Qed.

(** buckets *)
Lemma find_remove_other : forall id id' b, id <> id' -> find_node id' (remove_node id b) = find_node id' b.
Proof.
  induction b as [|n t IH]; simpl; intros; auto.
  destruct (nid n =? id) eqn:E; simpl.
  - apply Z.eqb_eq in E. destruct (nid n =? id') eqn:E'; auto. apply Z.eqb_eq in E'. congruence.
  - destruct (nid n =? id'); auto.
Qed.

Lemma find_none_notin : forall id b, find_node id b = None -> ~ In id (map nid b).
Proof.
  induction b as [|n t IH]; simpl; intros; auto.
  destruct (nid n =? id) eqn:E; [discriminate|]. apply Z.eqb_neq in E. intros [X|X]; [congruence|]. now apply IH.
Qed.

Lemma notin_find_none : forall id b, ~ In id (map nid b) -> find_node id b = None.
Proof.
  induction b as [|n t IH]; simpl; intros; auto.
  destruct (nid n =? id) eqn:E. - apply Z.eqb_eq in E; tauto. - apply IH; tauto.
Qed.

Lemma find_remove_same : forall id b, NoDup (map nid b) -> find_node id (remove_node id b) = None.
Proof.
  induction b as [|n t IH]; simpl; intros; auto.
  inversion H; subst. destruct (nid n =? id) eqn:E; simpl.
  - apply Z.eqb_eq in E; subst. now apply notin_find_none.
  - rewrite E. auto.
Qed.

Lemma In_remove_node : forall id x b, In x (map nid (remove_node id b)) -> In x (map nid b).
Proof.
  induction b as [|n t IH]; simpl; intros; auto.
  destruct (nid n =? id); simpl in *; tauto.
Qed.

Lemma NoDup_remove_node : forall id b, NoDup (map nid b) -> NoDup (map nid (remove_node id b)).
Proof.
  induction b as [|n t IH]; simpl; intros; auto.
  inversion H; subst. destruct (nid n =? id); simpl; auto. constructor; auto.
  intro X. apply H2. eapply In_remove_node; eauto.
Qed.

(* ------------------------------------------------------------------------------------------------ *)
(** * The simulation relation between the atom table (M) and the finite map (S) *)

Definition pow2hash (h : Z) : Prop := exists k, 0 <= k <= 28 /\ h = 2 ^ k.

Definition Ginv (m : mstate) (s : sstate) : Prop :=
  forall g, valid_group g = true ->
    match aget g (mgroups m), aget g (sgroups s) with
    | None, None => True
    | Some gp, Some sg => gcount gp = scount sg /\ 0 <= scount sg <= 1000000 /\
        (0 < scount sg -> pow2hash (ghash gp) /\ gnext gp = snext sg /\ 0 <= snext sg <= 268435456)
    | _, _ => False
    end.

Definition Linv (m : mstate) (s : sstate) : Prop := forall id, m_find id m = s_lookup id s.

Definition MBinv (m : mstate) : Prop :=
  forall g gp, live_group g m = Some gp -> forall loc, NoDup (map nid (bucket gp loc)).

Definition SIinv (s : sstate) : Prop :=
  NoDup (map fst (slive s)) /\
  forall id g o, In (id, (g, o)) (slive s) ->
    valid_group g = true /\
    exists sg i, aget g (sgroups s) = Some sg /\ 0 < scount sg /\ 0 <= i < snext sg /\ snext sg <= 268435456 /\ id = enc g i.

Definition cval (m : mstate) (c : centry) : Prop := (cid c = -1 /\ cobj c = 0) \/ m_find (cid c) m = Some (cobj c).
Definition cdist (a b : centry) : Prop := cid a = cid b -> cid a = -1.
Definition Cinv (m : mstate) : Prop :=
  cval m (mc0 m) /\ cval m (mc1 m) /\ cval m (mc2 m) /\ cval m (mc3 m) /\
  cdist (mc0 m) (mc1 m) /\ cdist (mc0 m) (mc2 m) /\ cdist (mc0 m) (mc3 m) /\
  cdist (mc1 m) (mc2 m) /\ cdist (mc1 m) (mc3 m) /\ cdist (mc2 m) (mc3 m).

Definition Rel (m : mstate) (s : sstate) : Prop := Ginv m s /\ Linv m s /\ MBinv m /\ SIinv s /\ Cinv m.

Lemma valid_group_range : forall g, valid_group g = true -> 0 <= g < 9.
Proof. unfold valid_group, BADGROUP, MAXGROUP. intros. apply andb_true_iff in H. destruct H as [A B]. apply Z.ltb_lt in A, B. lia. Qed.

Lemma m_find_minus1 : forall m, m_find (-1) m = None.
Proof. intros. unfold m_find, live_group. replace (group_of (-1)) with 15 by (vm_compute; reflexivity). reflexivity. Qed.

Lemma Rel_init : Rel m_init s_init.
Proof.
  unfold Rel. split; [|split; [|split; [|split]]].
  - intros g _. simpl. auto.
  - intro id. unfold m_find, live_group. destruct (valid_group (group_of id)); reflexivity.
  - intros g gp H. unfold live_group in H. simpl in H. destruct (valid_group g); discriminate.
  - split; simpl. constructor. intros; contradiction.
  - unfold Cinv, cval, cdist. simpl. repeat split; auto.
Qed.

(** M's usable group pointer and S's agree *)
Lemma live_corr : forall m s g, Ginv m s ->
  (live_group g m = None /\ s_live_group g s = None) \/
  (exists gp sg, live_group g m = Some gp /\ s_live_group g s = Some sg /\ valid_group g = true /\
     aget g (mgroups m) = Some gp /\ aget g (sgroups s) = Some sg /\
     gcount gp = scount sg /\ 0 < scount sg <= 1000000 /\ pow2hash (ghash gp) /\ gnext gp = snext sg /\
     0 <= snext sg <= 268435456).
Proof.
  intros m s g G. unfold live_group, s_live_group.
  destruct (valid_group g) eqn:V; [|left; auto].
  specialize (G g V).
  destruct (aget g (mgroups m)) as [gp|], (aget g (sgroups s)) as [sg|]; try contradiction; [|left; auto].
  destruct G as (E & B & H). rewrite E.
  destruct (scount sg <=? 0) eqn:C.
  - left; auto.
  - apply Z.leb_gt in C. right. exists gp, sg. destruct (H C) as (P & N & R). repeat split; auto; lia.
Qed.

Lemma m_find_set_group : forall id g gp' m, valid_group g = true ->
  m_find id (set_group g gp' m) =
  if group_of id =? g then (if gcount gp' <=? 0 then None else find_node id (bucket gp' (loc_of id (ghash gp'))))
  else m_find id m.
Proof.
  intros. unfold m_find, live_group, set_group. cbn [mgroups].
  destruct (group_of id =? g) eqn:E.
  - apply Z.eqb_eq in E. rewrite E, H, aget_aset_same. destruct (gcount gp' <=? 0); auto.
  - apply Z.eqb_neq in E. rewrite aget_aset_other by auto. reflexivity.
Qed.

Lemma m_find_live : forall id m gp, live_group (group_of id) m = Some gp ->
  m_find id m = find_node id (bucket gp (loc_of id (ghash gp))).
Proof. intros. unfold m_find. now rewrite H. Qed.

Lemma bucket_aset : forall gp c h a n loc b l,
  bucket (mkGrp c h a n (aset loc b (gbk gp))) l = if l =? loc then b else bucket gp l.
Proof.
  intros. unfold bucket. simpl. destruct (l =? loc) eqn:E.
  - apply Z.eqb_eq in E; subst. now rewrite aget_aset_same.
  - apply Z.eqb_neq in E. now rewrite aget_aset_other.
Qed.

Lemma s_fresh : forall s g sg, SIinv s -> valid_group g = true -> aget g (sgroups s) = Some sg ->
  0 <= snext sg < 268435456 -> s_lookup (enc g (snext sg)) s = None /\ ~ In (enc g (snext sg)) (map fst (slive s)).
Proof.
  intros s g sg [ND SI] V A B.
  assert (N : ~ In (enc g (snext sg)) (map fst (slive s))).
  { intro X. apply in_map_iff in X. destruct X as [[id [g' o]] [E I]]. simpl in E. subst id.
    destruct (SI _ _ _ I) as (V' & sg' & i & A' & C' & Bi & L' & E').
    apply valid_group_range in V, V'.
    apply enc_inj in E'; try lia. destruct E' as [E1 E2]. subst g'. rewrite A in A'. inversion A'; subst sg'. lia. }
  split; auto. unfold s_lookup. now rewrite notin_aget_None.
Qed.

(** ** HAregister_atom *)
Lemma reg_refines : forall m s g obj, Rel m s -> op_ok (AReg g obj) s = true ->
  fst (ha_register g obj m) = fst (s_step (AReg g obj) s) /\
  Rel (snd (ha_register g obj m)) (snd (s_step (AReg g obj) s)).
Proof.
  intros m s g obj R OK. pose proof R as (G & L & MB & SI & C).
  unfold ha_register. simpl s_step. simpl in OK.
  destruct (live_corr m s g G) as [[A B]|(gp & sg & A & B & V & AM & AS & EC & CB & (k & Kb & HK) & EN & NB)].
  - rewrite A, B. simpl. auto.
  - rewrite A, B in *. apply andb_true_iff in OK. destruct OK as [_ OK]. apply Z.ltb_lt in OK. unfold ATOM_LIMIT in OK.
    assert (Vr := valid_group_range g V).
    assert (EID : atom_of g (gnext gp) = enc g (snext sg)) by (rewrite EN; apply atom_of_enc; lia).
    rewrite EID. set (id := enc g (snext sg)).
    destruct (s_fresh s g sg SI V AS ltac:(lia)) as [FR NI]. fold id in FR, NI.
    set (loc := gnext gp mod ghash gp).
    assert (LOC : loc_of id (ghash gp) = loc).
    { unfold id, loc. rewrite HK, EN. apply loc_of_enc; lia. }
    assert (GID : group_of id = g) by (apply group_of_enc; lia).
    set (gp' := mkGrp (gcount gp) (ghash gp) (u32 (gatoms gp + 1)) (u32 (gnext gp + 1))
                      (aset loc (mkNode id obj :: bucket gp loc) (gbk gp))).
    assert (CP : gcount gp' <=? 0 = false) by (apply Z.leb_gt; simpl; lia).
    assert (MF : forall id', m_find id' (set_group g gp' m) = if id' =? id then Some obj else m_find id' m).
    { intro id'. rewrite m_find_set_group by auto. rewrite CP.
      destruct (group_of id' =? g) eqn:E.
      - apply Z.eqb_eq in E. unfold gp' at 1 2. rewrite bucket_aset. simpl ghash.
        assert (LG : live_group (group_of id') m = Some gp) by (rewrite E; auto).
        rewrite (m_find_live id' m gp LG).
        destruct (id' =? id) eqn:E2.
        + apply Z.eqb_eq in E2. subst id'. rewrite LOC, Z.eqb_refl. simpl. now rewrite Z.eqb_refl.
        + destruct (loc_of id' (ghash gp) =? loc) eqn:E3; auto.
          apply Z.eqb_eq in E3. rewrite E3. simpl. apply Z.eqb_neq in E2.
          destruct (id =? id') eqn:E4; auto. apply Z.eqb_eq in E4. congruence.
      - destruct (id' =? id) eqn:E2; auto. apply Z.eqb_eq in E2. subst id'. apply Z.eqb_neq in E. congruence. }
    assert (MN : m_find id m = None) by (rewrite L; auto).
    simpl. split; auto. split; [|split; [|split; [|split]]].
    + (* Ginv *) intros g' V'. simpl. destruct (Z.eq_dec g' g) as [->|NE].
      * rewrite !aget_aset_same. simpl. unfold u32. repeat split; try lia. exists k; auto.
      * rewrite !aget_aset_other by auto. apply G; auto.
    + (* Linv *) intro id'. rewrite MF. unfold s_lookup. simpl. destruct (id' =? id); auto. apply L.
    + (* MBinv *) intros g' gpx LG loc'. unfold live_group, set_group in LG. simpl in LG.
      destruct (valid_group g') eqn:V'; [|discriminate].
      destruct (Z.eq_dec g' g) as [->|NE].
      * rewrite aget_aset_same in LG. rewrite CP in LG. inversion LG; subst gpx. unfold gp'. rewrite bucket_aset.
        destruct (loc' =? loc) eqn:E; [|apply (MB g gp A)].
        simpl. constructor; [|apply (MB g gp A)].
        apply find_none_notin. rewrite <- LOC. rewrite <- (m_find_live id m gp); auto. rewrite GID; auto.
      * rewrite aget_aset_other in LG by auto. apply (MB g' gpx). unfold live_group. now rewrite V'.
    + (* SIinv *) destruct SI as [ND SI]. split; simpl.
      * constructor; auto.
      * intros id' g' o [X|X].
        -- injection X as Ei Eg Eo. subst g' o. split; auto. exists (mkS (scount sg) (snext sg + 1)), (snext sg).
           rewrite aget_aset_same. simpl. rewrite <- Ei. repeat split; auto; try lia.
        -- destruct (SI _ _ _ X) as (V' & sg' & i & A' & C' & Bi & L' & E'). split; auto.
           destruct (Z.eq_dec g' g) as [->|NE].
           ++ rewrite AS in A'. inversion A'; subst sg'. exists (mkS (scount sg) (snext sg + 1)), i.
              rewrite aget_aset_same. simpl. repeat split; auto; lia.
           ++ exists sg', i. rewrite aget_aset_other by auto. repeat split; auto; lia.
    + (* Cinv *)
      assert (CV : forall c, cval m c -> cval (set_group g gp' m) c).
      { intros c [X|X]; [left; auto|right]. rewrite MF. destruct (cid c =? id) eqn:E; auto.
        apply Z.eqb_eq in E. rewrite E in X. congruence. }
      destruct C as (c0 & c1 & c2 & c3 & D). unfold Cinv. simpl. repeat split; auto; apply D.
Qed.

(** ** HAatom_object (cache + HAIatom_object) *)
Lemma cdist_sym : forall a b, cdist a b -> cdist b a.
Proof. unfold cdist. intros a b H E. rewrite E. apply H. congruence. Qed.

Lemma Rel_set_cache : forall m s a b c d, Rel m s -> Cinv (set_cache m a b c d) -> Rel (set_cache m a b c d) s.
Proof. intros m s a b c d (G & L & MB & SI & _) C. unfold Rel. split; [exact G|split; [exact L|split; [exact MB|split; [exact SI|exact C]]]]. Qed.

Lemma hit_value : forall m s c id, Linv m s -> cval m c -> cid c = id ->
  cobj c = match s_lookup id s with Some o => o | None => 0 end.
Proof.
  intros m s c id L [[A B]|A] E.
  - rewrite <- E, A, <- L, m_find_minus1. auto.
  - rewrite <- E, <- L, A. auto.
Qed.

Lemma lookup_refines : forall m s id, Rel m s ->
  fst (ha_object id m) = fst (s_step (ALookup id) s) /\ Rel (snd (ha_object id m)) (snd (s_step (ALookup id) s)).
Proof.
  intros m s id R. pose proof R as (G & L & MB & SI & C).
  destruct C as (v0 & v1 & v2 & v3 & d01 & d02 & d03 & d12 & d13 & d23).
  unfold ha_object. cbn [s_step fst snd].
  destruct (cid (mc0 m) =? id) eqn:E0; [apply Z.eqb_eq in E0; split; [eapply hit_value; eauto|auto]|].
  destruct (cid (mc1 m) =? id) eqn:E1.
  { apply Z.eqb_eq in E1; split; [eapply hit_value; eauto|]. apply Rel_set_cache; auto.
    unfold Cinv, set_cache; cbn [mc0 mc1 mc2 mc3]. repeat split; auto using cdist_sym. }
  destruct (cid (mc2 m) =? id) eqn:E2.
  { apply Z.eqb_eq in E2; split; [eapply hit_value; eauto|]. apply Rel_set_cache; auto.
    unfold Cinv, set_cache; cbn [mc0 mc1 mc2 mc3]. repeat split; auto using cdist_sym. }
  destruct (cid (mc3 m) =? id) eqn:E3.
  { apply Z.eqb_eq in E3; split; [eapply hit_value; eauto|]. apply Rel_set_cache; auto.
    unfold Cinv, set_cache; cbn [mc0 mc1 mc2 mc3]. repeat split; auto using cdist_sym. }
  apply Z.eqb_neq in E0, E1, E2, E3.
  unfold hai_object. rewrite <- L. destruct (m_find id m) as [o|] eqn:F; cbn [fst snd]; [|auto].
  split; auto. apply Rel_set_cache; auto.
  unfold Cinv, set_cache; cbn [mc0 mc1 mc2 mc3]. repeat split; auto.
  - right. exact F.
  - intro X. simpl in X. congruence.
  - intro X. simpl in X. congruence.
  - intro X. simpl in X. congruence.
Qed.

(** ** HAatom_group *)
Lemma group_refines : forall m s id, fst (m_step (AGroup id) m) = fst (s_step (AGroup id) s).
Proof. intros. cbn [m_step s_step fst]. unfold ha_group. now rewrite group_of_spec. Qed.

(* ------------------------------------------------------------------------------------------------ *)
(** * Consequences for a registration: the issued id is new, decodable, and immediately designates its object *)

Lemma register_issues_fresh_id : forall m s g obj, Rel m s -> op_ok (AReg g obj) s = true ->
  forall gp, live_group g m = Some gp ->
  let id := fst (ha_register g obj m) in
  s_lookup id s = None /\ m_find id m = None /\ group_of id = g /\
  m_find id (snd (ha_register g obj m)) = Some obj /\
  (forall id', id' <> id -> m_find id' (snd (ha_register g obj m)) = m_find id' m).
Proof.
  intros m s g obj R OK gp LG.
  destruct (reg_refines m s g obj R OK) as [E R'].
  pose proof R as (G & L & MB & SI & C). pose proof R' as (_ & L' & _).
  destruct (live_corr m s g G) as [[A B]|(gp0 & sg & A & B & V & AM & AS & EC & CB & PH & EN & NB)]; [congruence|].
  simpl in OK. rewrite B in OK. apply andb_true_iff in OK. destruct OK as [_ OK]. apply Z.ltb_lt in OK. unfold ATOM_LIMIT in OK.
  assert (Vr := valid_group_range g V).
  cbn zeta. rewrite E. simpl s_step in *. rewrite B in *. cbn [fst snd] in *.
  destruct (s_fresh s g sg SI V AS ltac:(lia)) as [FR NI].
  repeat split; auto.
  - now rewrite L.
  - apply group_of_enc; lia.
  - rewrite L'. unfold s_lookup. cbn [slive aget]. now rewrite Z.eqb_refl.
  - intros id' NE. rewrite L', L. unfold s_lookup. cbn [slive aget].
    destruct (id' =? enc g (snext sg)) eqn:X; auto. apply Z.eqb_eq in X. contradiction.
Qed.

(** the wrap-around: once a group has issued 2^28 ids in one lifetime, the next registration re-issues the id of
    registration number (gnext - 2^28); if that id is still registered, two live handles alias. *)
Lemma wrap_collision : forall m g gp n obj,
  live_group g m = Some gp -> gnext gp = n + 268435456 -> 0 <= n < 268435456 ->
  fst (ha_register g obj m) = atom_of g n.
Proof.
  intros m g gp n obj LG EN B. unfold ha_register. rewrite LG. cbn [fst]. rewrite EN.
  assert (V : valid_group g = true) by (unfold live_group in LG; destruct (valid_group g); [auto|discriminate]).
  apply valid_group_range in V. apply atom_of_wraps; lia.
Qed.

(* ------------------------------------------------------------------------------------------------ *)
(** * The file machine *)

Lemma close_with_attached_fails_lemma : forall st fid r fr,
  file_of fid st = Some (r, fr) -> frefcount fr = 1 -> 0 < fattach fr ->
  f_step (FClose fid) st = (RFail, st).
Proof. intros st fid r fr F R A. unfold f_step. rewrite F, R. apply Z.ltb_lt in A. rewrite A. reflexivity. Qed.

Lemma stale_file_id_rejected_lemma : forall st fid, aget fid (fids st) = None ->
  f_step (FClose fid) st = (RFail, st) /\ f_step (FInq fid) st = (RFail, st) /\
  (forall w, f_step (FStart fid w) st = (RFail, st)) /\ f_step (FEnd fid) st = (RFail, st).
Proof. intros st fid H. unfold f_step, file_of. rewrite H. auto. Qed.

Lemma wrong_kind_id_rejected_lemma : forall st id f, aget id (fids st) = Some (OAid f) ->
  f_step (FClose id) st = (RFail, st) /\ f_step (FInq id) st = (RFail, st) /\
  (forall w, f_step (FStart id w) st = (RFail, st)).
Proof. intros st id f H. unfold f_step, file_of. rewrite H. auto. Qed.

(* ------------------------------------------------------------------------------------------------ *)
(** ** HAinit_group *)
Lemma pow2_of_land : forall h, 0 < h -> Z.land h (h - 1) = 0 -> h = 2 ^ Z.log2 h.
Proof.
  intros h P L. destruct (Z.log2_spec h P) as [Lo Hi]. set (k := Z.log2 h) in *.
  assert (K : 0 <= k) by apply Z.log2_nonneg.
  destruct (Z.eq_dec h (2 ^ k)) as [|NE]; auto. exfalso.
  assert (Lk : Z.log2 (h - 1) = k). { apply Z.log2_unique; auto. replace (Z.succ k) with (k + 1) in * by lia. lia. }
  assert (T : Z.testbit (Z.land h (h - 1)) k = true).
  { rewrite Z.land_spec. unfold k at 1. rewrite Z.bit_log2 by lia. rewrite <- Lk. rewrite Z.bit_log2; auto.
    assert (0 < 2 ^ k) by (apply Z.pow_pos_nonneg; lia). lia. }
  rewrite L, Z.bits_0 in T. discriminate.
Qed.

Lemma pow2hash_of_check : forall hs, 0 < hs <= 268435456 -> Z.land hs (hs - 1) = 0 -> pow2hash hs.
Proof.
  intros hs B L. exists (Z.log2 hs). split; [|apply pow2_of_land; auto; lia].
  split; [apply Z.log2_nonneg|]. change 28 with (Z.log2 268435456). apply Z.log2_le_mono. lia.
Qed.

Lemma init_refines : forall m s g hs, Rel m s -> op_ok (AInit g hs) s = true ->
  fst (ha_init g hs m) = fst (s_step (AInit g hs) s) /\ Rel (snd (ha_init g hs m)) (snd (s_step (AInit g hs) s)).
Proof.
  intros m s g hs R OK. pose proof R as (G & L & MB & SI & C).
  unfold ha_init. cbn [s_step]. cbn [op_ok] in OK.
  destruct (negb (valid_group g) || (hs =? 0)) eqn:A; [cbn [orb fst snd]; auto|].
  apply orb_false_iff in A. destruct A as [V Z0]. apply negb_false_iff in V. apply Z.eqb_neq in Z0.
  destruct (negb (Z.land hs (hs - 1) =? 0)) eqn:P; cbn [orb fst snd]; [auto|].
  apply negb_false_iff in P. apply Z.eqb_eq in P.
  apply andb_true_iff in OK. destruct OK as [OK CB]. apply andb_true_iff in OK. destruct OK as [H0 H1].
  apply Z.leb_le in H0, H1. unfold ATOM_LIMIT in H1.
  assert (PH : pow2hash hs) by (apply pow2hash_of_check; auto; lia).
  specialize (G g V) as Gg.
  set (gp := match aget g (mgroups m) with Some gp => gp | None => mkGrp 0 0 0 0 [] end).
  set (sg := match aget g (sgroups s) with Some sg => sg | None => mkS 0 0 end).
  assert (EC : gcount gp = scount sg /\ 0 <= scount sg < 1000000 /\
               (0 < scount sg -> pow2hash (ghash gp) /\ gnext gp = snext sg /\ 0 <= snext sg <= 268435456 /\
                                 aget g (mgroups m) = Some gp /\ aget g (sgroups s) = Some sg)).
  { unfold gp, sg. destruct (aget g (mgroups m)) as [gp0|], (aget g (sgroups s)) as [sg0|]; try contradiction.
    - destruct Gg as (E & B & H). apply Z.ltb_lt in CB. repeat split; auto; try lia; apply H; auto.
    - simpl. repeat split; try lia. }
  destruct EC as (EC & CB' & LIVE).
  rewrite EC.
  set (gp1 := if scount sg =? 0 then mkGrp 0 hs 0 0 [] else gp).
  set (sg1 := if scount sg =? 0 then mkS 0 0 else sg).
  set (gp' := mkGrp (u32 (gcount gp1 + 1)) (ghash gp1) (gatoms gp1) (gnext gp1) (gbk gp1)).
  assert (E1 : gcount gp1 = scount sg1) by (unfold gp1, sg1; destruct (scount sg =? 0); auto).
  assert (B1 : 0 <= scount sg1 < 1000000) by (unfold sg1; destruct (scount sg =? 0); simpl; lia).
  assert (CP : gcount gp' <=? 0 = false) by (apply Z.leb_gt; unfold gp'; simpl; unfold u32; lia).
  assert (MF : forall id', m_find id' (set_group g gp' m) = m_find id' m).
  { intro id'. rewrite m_find_set_group by auto. rewrite CP. destruct (group_of id' =? g) eqn:E; auto.
    apply Z.eqb_eq in E. unfold m_find, live_group. rewrite E, V.
    unfold gp', gp1. destruct (scount sg =? 0) eqn:Z1.
    - apply Z.eqb_eq in Z1. simpl. unfold bucket. simpl.
      unfold gp in EC. destruct (aget g (mgroups m)) as [gp0|]; auto. rewrite EC, Z1. reflexivity.
    - apply Z.eqb_neq in Z1. destruct LIVE as (_ & _ & _ & AM & _); [lia|]. rewrite AM.
      replace (gcount gp <=? 0) with false by (symmetry; apply Z.leb_gt; lia). reflexivity. }
  split; [reflexivity|]. unfold Rel. split; [|split; [|split; [|split]]].
  - intros g' V'. unfold set_group. cbn [mgroups sgroups]. destruct (Z.eq_dec g' g) as [->|NE].
    + rewrite !aget_aset_same. fold sg1. unfold gp'. cbn [gcount ghash gnext scount snext]. unfold u32.
      split; [lia|]. split; [lia|]. intros _. unfold gp1, sg1. destruct (scount sg =? 0) eqn:Z1; cbn [ghash gnext snext].
      * repeat split; auto; lia.
      * apply Z.eqb_neq in Z1. destruct LIVE as (A1 & A2 & A3 & _); [lia|]. auto.
    + rewrite !aget_aset_other by auto. apply G; auto.
  - intro id'. rewrite MF. apply L.
  - intros g' gpx LG loc. unfold live_group, set_group in LG. cbn [mgroups] in LG.
    destruct (valid_group g') eqn:V'; [|discriminate]. destruct (Z.eq_dec g' g) as [->|NE].
    + rewrite aget_aset_same, CP in LG. inversion LG; subst gpx. unfold gp', gp1. destruct (scount sg =? 0) eqn:Z1.
      * unfold bucket. simpl. constructor.
      * apply Z.eqb_neq in Z1. destruct LIVE as (_ & _ & _ & AM & _); [lia|].
        apply (MB g gp). unfold live_group. rewrite V, AM.
        replace (gcount gp <=? 0) with false by (symmetry; apply Z.leb_gt; lia). reflexivity.
    + rewrite aget_aset_other in LG by auto. apply (MB g' gpx). unfold live_group. now rewrite V'.
  - destruct SI as [ND SI]. split; auto. cbn [slive sgroups]. intros id' g' o I.
    destruct (SI _ _ _ I) as (V' & sg' & i & A' & C' & Bi & L' & E'). split; auto.
    destruct (Z.eq_dec g' g) as [->|NE].
    + assert (sg' = sg) by (unfold sg; rewrite A'; auto). subst sg'.
      exists (mkS (scount sg1 + 1) (snext sg1)), i. rewrite aget_aset_same. unfold sg1.
      replace (scount sg =? 0) with false by (symmetry; apply Z.eqb_neq; lia). cbn [scount snext]. repeat split; auto; lia.
    + exists sg', i. rewrite aget_aset_other by auto. repeat split; auto; lia.
  - destruct C as (c0 & c1 & c2 & c3 & D).
    assert (CV : forall c, cval m c -> cval (set_group g gp' m) c).
    { intros c [X|X]; [left; auto|right]. now rewrite MF. }
    unfold Cinv. cbn [mc0 mc1 mc2 mc3 set_group]. repeat split; auto; apply D.
Qed.

(* ------------------------------------------------------------------------------------------------ *)
(** ** HAremove_atom *)
Lemma adel_notin : forall A k (l : list (Z * A)), aget k l = None -> adel k l = l.
Proof.
  induction l as [|[k2 v2] t IH]; simpl; intros; auto.
  destruct (k =? k2); [discriminate|]. now rewrite IH.
Qed.

Lemma live_group_facts : forall g m gp, live_group g m = Some gp ->
  valid_group g = true /\ aget g (mgroups m) = Some gp /\ 0 < gcount gp.
Proof.
  unfold live_group. intros g m gp H. destruct (valid_group g); [|discriminate].
  destruct (aget g (mgroups m)) as [gp0|]; [|discriminate].
  destruct (gcount gp0 <=? 0) eqn:E; [discriminate|]. inversion H; subst. apply Z.leb_gt in E. auto.
Qed.

Lemma mgroups_cache_drop : forall id m, mgroups (cache_drop id m) = mgroups m.
Proof.
  intros. unfold cache_drop.
  destruct (cid (mc0 m) =? id); [reflexivity|]. destruct (cid (mc1 m) =? id); [reflexivity|].
  destruct (cid (mc2 m) =? id); [reflexivity|]. destruct (cid (mc3 m) =? id); reflexivity.
Qed.

Lemma live_group_cache_drop : forall g id m, live_group g (cache_drop id m) = live_group g m.
Proof. intros. unfold live_group. now rewrite mgroups_cache_drop. Qed.

Lemma m_find_cache_drop : forall x id m, m_find x (cache_drop id m) = m_find x m.
Proof. intros. unfold m_find. now rewrite live_group_cache_drop. Qed.

Lemma s_lookup_none_aget : forall id s, s_lookup id s = None -> aget id (slive s) = None.
Proof. unfold s_lookup. intros. destruct (aget id (slive s)); [discriminate|auto]. Qed.

Lemma cinv_drop : forall m m2 id,
  Cinv m -> id <> -1 ->
  mc0 m2 = mc0 (cache_drop id m) -> mc1 m2 = mc1 (cache_drop id m) -> mc2 m2 = mc2 (cache_drop id m) ->
  mc3 m2 = mc3 (cache_drop id m) ->
  (forall x, m_find x m2 = if x =? id then None else m_find x m) ->
  Cinv m2.
Proof.
  intros m m2 id (v0 & v1 & v2 & v3 & d01 & d02 & d03 & d12 & d13 & d23) NE E0 E1 E2 E3 MF.
  assert (A : forall c, cval m c -> cid c <> id -> cval m2 c).
  { intros c [X|X] N; [left; auto|right]. rewrite MF. apply Z.eqb_neq in N. now rewrite N. }
  assert (B : cval m2 cempty) by (left; auto).
  assert (T1 : forall x, cdist cempty x) by (intros x _; reflexivity).
  assert (T2 : forall x, cdist x cempty) by (intros x H; exact H).
  assert (N : forall a b, cdist a b -> cid a = id -> cid b <> id).
  { intros a b D Ea Eb. apply NE. rewrite <- Ea. apply D. congruence. }
  unfold Cinv. rewrite E0, E1, E2, E3. unfold cache_drop.
  destruct (cid (mc0 m) =? id) eqn:X0.
  { apply Z.eqb_eq in X0. cbn [mc0 mc1 mc2 mc3 set_cache].
    repeat split; auto; apply A; auto;
      first [exact (N _ _ d01 X0) | exact (N _ _ d02 X0) | exact (N _ _ d03 X0)]. }
  apply Z.eqb_neq in X0.
  destruct (cid (mc1 m) =? id) eqn:X1.
  { apply Z.eqb_eq in X1. cbn [mc0 mc1 mc2 mc3 set_cache].
    repeat split; auto; apply A; auto; first [exact (N _ _ d12 X1) | exact (N _ _ d13 X1)]. }
  apply Z.eqb_neq in X1.
  destruct (cid (mc2 m) =? id) eqn:X2.
  { apply Z.eqb_eq in X2. cbn [mc0 mc1 mc2 mc3 set_cache].
    repeat split; auto; apply A; auto; exact (N _ _ d23 X2). }
  apply Z.eqb_neq in X2.
  destruct (cid (mc3 m) =? id) eqn:X3.
  { apply Z.eqb_eq in X3. cbn [mc0 mc1 mc2 mc3 set_cache]. repeat split; auto. }
  apply Z.eqb_neq in X3. repeat split; auto.
Qed.

Lemma remove_refines : forall m s id, Rel m s ->
  fst (ha_remove id m) = fst (s_step (ARemove id) s) /\ Rel (snd (ha_remove id m)) (snd (s_step (ARemove id) s)).
Proof.
  intros m s id R. pose proof R as (G & L & MB & SI & C).
  cbn [s_step fst snd].
  assert (NOOP : m_find id m = None ->
          (0 = match s_lookup id s with Some o => o | None => 0 end) /\ Rel m (mkSS (sgroups s) (adel id (slive s)))).
  { intro F. rewrite <- L, F. split; auto. rewrite adel_notin by (apply s_lookup_none_aget; now rewrite <- L).
    destruct s; exact R. }
  unfold ha_remove. set (g := group_of id).
  destruct (live_group g m) as [gp|] eqn:LG.
  2:{ apply NOOP. unfold m_find. fold g. now rewrite LG. }
  assert (MFL : m_find id m = find_node id (bucket gp (loc_of id (ghash gp)))) by (apply m_find_live; exact LG).
  destruct (find_node id (bucket gp (loc_of id (ghash gp)))) as [o|] eqn:F.
  2:{ apply NOOP. exact MFL. }
  destruct (live_group_facts g m gp LG) as (V & AM & CP).
  set (loc := loc_of id (ghash gp)) in *.
  set (gp' := mkGrp (gcount gp) (ghash gp) (u32 (gatoms gp - 1)) (gnext gp) (aset loc (remove_node id (bucket gp loc)) (gbk gp))).
  set (m2 := cache_drop id (set_group g gp' m)).
  assert (CP' : gcount gp' <=? 0 = false) by (apply Z.leb_gt; exact CP).
  assert (NE : id <> -1) by (intro X; rewrite X, m_find_minus1 in MFL; discriminate).
  assert (MF : forall x, m_find x m2 = if x =? id then None else m_find x m).
  { intro x. unfold m2. rewrite m_find_cache_drop, m_find_set_group by auto. rewrite CP'.
    destruct (group_of x =? g) eqn:E.
    - apply Z.eqb_eq in E. assert (LGx : live_group (group_of x) m = Some gp) by (rewrite E; exact LG).
      rewrite (m_find_live x m gp LGx). unfold gp' at 1 2. rewrite bucket_aset. cbn [ghash].
      destruct (x =? id) eqn:E2.
      + apply Z.eqb_eq in E2. subst x. fold loc. rewrite Z.eqb_refl. apply find_remove_same. apply (MB g gp LG).
      + apply Z.eqb_neq in E2. destruct (loc_of x (ghash gp) =? loc) eqn:E3; auto.
        apply Z.eqb_eq in E3. rewrite E3. apply find_remove_other. congruence.
    - destruct (x =? id) eqn:E2; auto. apply Z.eqb_eq in E2. subst x. apply Z.eqb_neq in E. unfold g in E. congruence. }
  rewrite <- L, MFL. cbn [fst snd]. split; [reflexivity|]. fold m2.
  destruct SI as [ND SI].
  unfold Rel. split; [|split; [|split; [|split]]].
  - intros g' V'. unfold m2. rewrite mgroups_cache_drop. unfold set_group. cbn [mgroups sgroups].
    destruct (Z.eq_dec g' g) as [->|N].
    + rewrite aget_aset_same. specialize (G g V). rewrite AM in G. destruct (aget g (sgroups s)); [|contradiction]. exact G.
    + rewrite aget_aset_other by auto. apply G; auto.
  - intro x. rewrite MF. unfold s_lookup. cbn [slive]. destruct (x =? id) eqn:E.
    + apply Z.eqb_eq in E. subst x. now rewrite aget_adel_same.
    + apply Z.eqb_neq in E. rewrite aget_adel_other by auto. apply L.
  - intros g' gpx LG' loc'. unfold m2 in LG'. rewrite live_group_cache_drop in LG'.
    unfold live_group, set_group in LG'. cbn [mgroups] in LG'.
    destruct (valid_group g') eqn:V'; [|discriminate]. destruct (Z.eq_dec g' g) as [->|N].
    + rewrite aget_aset_same, CP' in LG'. inversion LG'; subst gpx. unfold gp'. rewrite bucket_aset.
      destruct (loc' =? loc); [apply NoDup_remove_node|]; apply (MB g gp LG).
    + rewrite aget_aset_other in LG' by auto. apply (MB g' gpx). unfold live_group. now rewrite V'.
  - split; cbn [slive sgroups]; [apply NoDup_adel; auto|]. intros x g' o' I. apply (SI x g' o'). eapply In_adel; eauto.
  - apply (cinv_drop m m2 id C NE); auto; unfold m2; unfold cache_drop, set_group; cbn [mc0 mc1 mc2 mc3];
      repeat match goal with |- context [if ?b then _ else _] => destruct b end; reflexivity.
Qed.

(* ------------------------------------------------------------------------------------------------ *)
(** ** HAdestroy_group *)
Lemma NoDup_filter_fst : forall A (f : Z * A -> bool) l, NoDup (map fst l) -> NoDup (map fst (filter f l)).
Proof.
  induction l as [|x t IH]; simpl; intros; auto. inversion H; subst.
  destruct (f x); simpl; auto. constructor; auto.
  intro X. apply H2. apply in_map_iff in X. destruct X as [y [E I]]. apply filter_In in I. apply in_map_iff. exists y; tauto.
Qed.

Lemma stored_group_is_group_of : forall s id g o, SIinv s -> In (id, (g, o)) (slive s) -> group_of id = g.
Proof.
  intros s id g o [_ SI] I. destruct (SI _ _ _ I) as (V & sg & i & A & C & Bi & L & E).
  apply valid_group_range in V. subst id. apply group_of_enc; lia.
Qed.

Lemma destroy_refines : forall m s g, Rel m s ->
  fst (ha_destroy g m) = fst (s_step (ADestroy g) s) /\ Rel (snd (ha_destroy g m)) (snd (s_step (ADestroy g) s)).
Proof.
  intros m s g R. pose proof R as (G & L & MB & SI & C).
  unfold ha_destroy. cbn [s_step].
  destruct (live_corr m s g G) as [[A B]|(gp & sg & A & B & V & AM & AS & EC & CB & PH & EN & NB)].
  { rewrite A, B. cbn [fst snd]. auto. }
  rewrite A, B. rewrite EC.
  assert (U : u32 (scount sg - 1) = scount sg - 1) by (unfold u32; lia). rewrite U.
  destruct (scount sg - 1 =? 0) eqn:Z1; cbn [fst snd]; (split; [reflexivity|]).
  - (* last user: the table goes away *)
    apply Z.eqb_eq in Z1.
    set (m1 := set_cache m (cclear_group g (mc0 m)) (cclear_group g (mc1 m)) (cclear_group g (mc2 m)) (cclear_group g (mc3 m))).
    set (gp' := mkGrp 0 (ghash gp) (gatoms gp) (gnext gp) []).
    assert (MF : forall x, m_find x (set_group g gp' m1) = if group_of x =? g then None else m_find x m).
    { intro x. rewrite m_find_set_group by auto. cbn [gcount gp']. destruct (group_of x =? g); reflexivity. }
    assert (SF : forall x, s_lookup x (mkSS (aset g (mkS 0 (snext sg)) (sgroups s))
                                            (filter (fun e => negb (fst (snd e) =? g)) (slive s)))
                           = if group_of x =? g then None else s_lookup x s).
    { intro x. unfold s_lookup. cbn [slive]. destruct (group_of x =? g) eqn:E.
      - rewrite aget_filter_none; auto. intros [g' o] I. cbn [fst snd].
        rewrite <- (stored_group_is_group_of s x g' o SI I). now rewrite E.
      - rewrite aget_filter; auto. intros [g' o] I. cbn [fst snd].
        rewrite <- (stored_group_is_group_of s x g' o SI I). now rewrite E. }
    destruct SI as [ND SIe].
    unfold Rel. split; [|split; [|split; [|split]]].
    + intros g' V'. unfold set_group. cbn [mgroups sgroups m1 set_cache]. destruct (Z.eq_dec g' g) as [->|N].
      * rewrite !aget_aset_same. cbn [gcount scount gp']. repeat split; lia.
      * rewrite !aget_aset_other by auto. apply G; auto.
    + intro x. rewrite MF, SF. destruct (group_of x =? g); auto.
    + intros g' gpx LG loc. unfold live_group, set_group in LG. cbn [mgroups m1 set_cache] in LG.
      destruct (valid_group g') eqn:V'; [|discriminate]. destruct (Z.eq_dec g' g) as [->|N].
      * rewrite aget_aset_same in LG. cbn [gcount gp'] in LG. discriminate.
      * rewrite aget_aset_other in LG by auto. apply (MB g' gpx). unfold live_group. now rewrite V'.
    + split; cbn [slive sgroups]; [apply NoDup_filter_fst; auto|]. intros x g' o I. apply filter_In in I. destruct I as [I F].
      cbn [fst snd] in F. apply negb_true_iff, Z.eqb_neq in F.
      destruct (SIe _ _ _ I) as (V' & sg' & i & A' & R'). split; auto. exists sg', i. rewrite aget_aset_other by auto. auto.
    + destruct C as (v0 & v1 & v2 & v3 & d01 & d02 & d03 & d12 & d13 & d23).
      assert (CV : forall c, cval m c -> cval (set_group g gp' m1) (cclear_group g c)).
      { intros c X. unfold cclear_group. destruct (group_of (cid c) =? g) eqn:E; [left; auto|].
        destruct X as [X|X]; [left; auto|right]. rewrite MF, E. exact X. }
      assert (CD : forall a b, cdist a b -> cdist (cclear_group g a) (cclear_group g b)).
      { intros a b D. unfold cclear_group, cdist.
        destruct (group_of (cid a) =? g), (group_of (cid b) =? g); cbn [cid cempty]; auto. }
      unfold Cinv. cbn [mc0 mc1 mc2 mc3 set_group m1 set_cache]. repeat split; auto.
  - (* other users remain: only the count changes *)
    apply Z.eqb_neq in Z1.
    set (gp' := mkGrp (scount sg - 1) (ghash gp) (gatoms gp) (gnext gp) (gbk gp)).
    assert (CP' : gcount gp' <=? 0 = false) by (apply Z.leb_gt; cbn [gcount gp']; lia).
    assert (MF : forall x, m_find x (set_group g gp' m) = m_find x m).
    { intro x. rewrite m_find_set_group by auto. rewrite CP'. destruct (group_of x =? g) eqn:E; auto.
      apply Z.eqb_eq in E. assert (LGx : live_group (group_of x) m = Some gp) by (rewrite E; exact A).
      rewrite (m_find_live x m gp LGx). reflexivity. }
    destruct SI as [ND SIe].
    unfold Rel. split; [|split; [|split; [|split]]].
    + intros g' V'. unfold set_group. cbn [mgroups sgroups]. destruct (Z.eq_dec g' g) as [->|N].
      * rewrite !aget_aset_same. cbn [gcount scount ghash gnext snext gp']. repeat split; auto; lia.
      * rewrite !aget_aset_other by auto. apply G; auto.
    + intro x. rewrite MF. apply L.
    + intros g' gpx LG loc. unfold live_group, set_group in LG. cbn [mgroups] in LG.
      destruct (valid_group g') eqn:V'; [|discriminate]. destruct (Z.eq_dec g' g) as [->|N].
      * rewrite aget_aset_same, CP' in LG. inversion LG; subst gpx. apply (MB g gp A).
      * rewrite aget_aset_other in LG by auto. apply (MB g' gpx). unfold live_group. now rewrite V'.
    + split; auto. cbn [slive sgroups]. intros x g' o I.
      destruct (SIe _ _ _ I) as (V' & sg' & i & A' & C' & R'). split; auto.
      destruct (Z.eq_dec g' g) as [->|N].
      * rewrite AS in A'. inversion A'; subst sg'. exists (mkS (scount sg - 1) (snext sg)), i.
        rewrite aget_aset_same. cbn [scount snext]. repeat split; try apply R'; lia.
      * exists sg', i. rewrite aget_aset_other by auto. auto.
    + destruct C as (v0 & v1 & v2 & v3 & D).
      assert (CV : forall c, cval m c -> cval (set_group g gp' m) c).
      { intros c [X|X]; [left; auto|right]. now rewrite MF. }
      unfold Cinv. cbn [mc0 mc1 mc2 mc3 set_group]. repeat split; auto; apply D.
Qed.

(* ------------------------------------------------------------------------------------------------ *)
(** ** HAsearch_atom: needs to know where the nodes sit *)
Definition MMinv (m : mstate) : Prop :=
  forall g gp, live_group g m = Some gp -> forall loc n, In n (bucket gp loc) ->
    group_of (nid n) = g /\ loc_of (nid n) (ghash gp) = loc.
Definition KDinv (m : mstate) : Prop := forall g gp, live_group g m = Some gp -> NoDup (map fst (gbk gp)).
Definition Rel2 (m : mstate) (s : sstate) : Prop := Rel m s /\ MMinv m /\ KDinv m.

Lemma In_aset : forall A k (v : A) l x, In x (map fst (aset k v l)) -> x = k \/ In x (map fst l).
Proof.
  induction l as [|[k2 v2] t IH]; simpl; intros x H.
  - destruct H; auto.
  - destruct (k =? k2) eqn:E; simpl in H.
    + apply Z.eqb_eq in E. subst. destruct H; auto.
    + destruct H; auto. destruct (IH _ H); auto.
Qed.

Lemma NoDup_aset : forall A k (v : A) l, NoDup (map fst l) -> NoDup (map fst (aset k v l)).
Proof.
  induction l as [|[k2 v2] t IH]; simpl; intros H.
  - repeat constructor; auto.
  - inversion H; subst. destruct (k =? k2) eqn:E; simpl.
    + apply Z.eqb_eq in E. subst. constructor; auto.
    + constructor; auto. intro X. destruct (In_aset _ _ _ _ _ X); auto. apply Z.eqb_neq in E. congruence.
Qed.

Lemma In_remove_node_elem : forall id n b, In n (remove_node id b) -> In n b.
Proof. induction b as [|x t IH]; simpl; intros; auto. destruct (nid x =? id); simpl in *; tauto. Qed.

Lemma find_In_nodup : forall n b, In n b -> NoDup (map nid b) -> find_node (nid n) b = Some (nobj n).
Proof.
  induction b as [|x t IH]; simpl; intros I ND; [contradiction|]. inversion ND; subst.
  destruct I as [->|I]; [now rewrite Z.eqb_refl|].
  destruct (nid x =? nid n) eqn:E; auto. apply Z.eqb_eq in E. exfalso. apply H1. rewrite E. now apply in_map.
Qed.

Lemma find_Some_In : forall id o b, find_node id b = Some o -> exists n, In n b /\ nid n = id /\ nobj n = o.
Proof.
  induction b as [|x t IH]; simpl; intros H; [discriminate|].
  destruct (nid x =? id) eqn:E.
  - apply Z.eqb_eq in E. inversion H. exists x; auto.
  - destruct (IH H) as (n & I & R). exists n; auto.
Qed.

Lemma aget_nodup_In : forall A k (v : A) l, NoDup (map fst l) -> In (k, v) l -> aget k l = Some v.
Proof.
  induction l as [|[k2 v2] t IH]; simpl; intros ND I; [contradiction|]. inversion ND; subst.
  destruct I as [E|I].
  - inversion E; subst. now rewrite Z.eqb_refl.
  - destruct (k =? k2) eqn:E; auto. apply Z.eqb_eq in E. subst. exfalso. apply H1. apply in_map_iff. exists (k2, v); auto.
Qed.

Lemma ext_set_group : forall m g gp', MMinv m -> KDinv m -> valid_group g = true ->
  (0 < gcount gp' ->
     (forall loc n, In n (bucket gp' loc) -> group_of (nid n) = g /\ loc_of (nid n) (ghash gp') = loc) /\
     NoDup (map fst (gbk gp'))) ->
  MMinv (set_group g gp' m) /\ KDinv (set_group g gp' m).
Proof.
  intros m g gp' MM KD V H.
  assert (X : forall g' gpx, live_group g' (set_group g gp' m) = Some gpx ->
              (g' = g /\ gpx = gp' /\ 0 < gcount gp') \/ live_group g' m = Some gpx).
  { intros g' gpx LG. unfold live_group, set_group in *. cbn [mgroups] in LG.
    destruct (valid_group g') eqn:V'; [|discriminate]. destruct (Z.eq_dec g' g) as [->|N].
    - rewrite aget_aset_same in LG. destruct (gcount gp' <=? 0) eqn:E; [discriminate|]. inversion LG; subst.
      apply Z.leb_gt in E. left; auto.
    - rewrite aget_aset_other in LG by auto. right. exact LG. }
  split.
  - intros g' gpx LG loc n I. destruct (X _ _ LG) as [(-> & -> & P)|O]; [apply (proj1 (H P)); auto|eapply MM; eauto].
  - intros g' gpx LG. destruct (X _ _ LG) as [(-> & -> & P)|O]; [apply (proj2 (H P))|eapply KD; eauto].
Qed.

Lemma ext_cache : forall m m', (forall g, live_group g m' = live_group g m) -> MMinv m -> KDinv m -> MMinv m' /\ KDinv m'.
Proof.
  intros m m' E MM KD. split.
  - intros g gp LG. rewrite E in LG. eapply MM; eauto.
  - intros g gp LG. rewrite E in LG. eapply KD; eauto.
Qed.

Lemma search_refines : forall m s g key, Rel2 m s ->
  ha_search g key m = fst (s_step (ASearch g key) s).
Proof.
  intros m s g key (R & MM & KD). pose proof R as (G & L & MB & SI & C).
  unfold ha_search. cbn [s_step].
  destruct (live_corr m s g G) as [[A B]|(gp & sg & A & B & V & AM & AS & _)].
  { now rewrite A, B. }
  rewrite A, B. cbn [fst].
  match goal with |- (if ?a then _ else _) = (if ?b then _ else _) => assert (E : a = b); [|now rewrite E] end.
  apply eq_true_iff_eq. rewrite !existsb_exists. split.
  - intros ([k b] & I & Hb). cbn [snd] in Hb. apply existsb_exists in Hb. destruct Hb as (n & In_b & Ho).
    apply Z.eqb_eq in Ho.
    assert (BK : bucket gp k = b) by (unfold bucket; now rewrite (aget_nodup_In _ k b (gbk gp) (KD g gp A) I)).
    assert (Inb : In n (bucket gp k)) by (now rewrite BK).
    destruct (MM g gp A k n Inb) as [GN LN].
    assert (F : m_find (nid n) m = Some key).
    { rewrite (m_find_live (nid n) m gp) by (rewrite GN; exact A). rewrite LN, <- Ho.
      apply find_In_nodup; auto. apply (MB g gp A). }
    rewrite L in F. unfold s_lookup in F. destruct (aget (nid n) (slive s)) as [[g' o]|] eqn:AG; [|discriminate].
    cbn in F. inversion F; subst o. apply aget_In in AG.
    exists (nid n, (g', key)). split; auto. cbn [fst snd].
    rewrite <- (stored_group_is_group_of s _ _ _ SI AG), GN, !Z.eqb_refl. reflexivity.
  - intros ([id [g' o]] & I & Hb). cbn [fst snd] in Hb. apply andb_true_iff in Hb. destruct Hb as [Eg Eo].
    apply Z.eqb_eq in Eg, Eo. subst g' o.
    assert (GI : group_of id = g) by (eapply stored_group_is_group_of; eauto).
    assert (F : s_lookup id s = Some key).
    { unfold s_lookup. rewrite (aget_nodup_In _ id (g, key) (slive s) (proj1 SI) I). reflexivity. }
    rewrite <- L in F. rewrite (m_find_live id m gp) in F by (rewrite GI; exact A).
    destruct (find_Some_In _ _ _ F) as (n & Inb & _ & Ho).
    unfold bucket in Inb. destruct (aget (loc_of id (ghash gp)) (gbk gp)) as [b|] eqn:AB; [|contradiction].
    exists (loc_of id (ghash gp), b). split; [now apply aget_In|]. cbn [snd]. apply existsb_exists. exists n. split; auto.
    now apply Z.eqb_eq.
Qed.

(** the extra invariants are kept by every operation *)
Lemma ext_step : forall o m s, Rel2 m s -> op_ok o s = true -> MMinv (snd (m_step o m)) /\ KDinv (snd (m_step o m)).
Proof.
  intros o m s (R & MM & KD) OK. pose proof R as (G & L & MB & SI & C).
  destruct o as [g hs|g|g obj|id|id|g key|id]; cbn [m_step snd]; auto.
  - (* init *)
    unfold ha_init. destruct (negb (valid_group g) || (hs =? 0)) eqn:A; [cbn [snd]; auto|].
    apply orb_false_iff in A. destruct A as [V _]. apply negb_false_iff in V.
    destruct (negb (Z.land hs (hs - 1) =? 0)); cbn [snd]; auto.
    apply ext_set_group; auto. cbn [gcount ghash gbk]. intros _.
    destruct (aget g (mgroups m)) as [gp|] eqn:AM.
    + destruct (gcount gp =? 0) eqn:Z0.
      * cbn [ghash gbk]. split; [intros loc n I; unfold bucket in I; simpl in I; contradiction|constructor].
      * apply Z.eqb_neq in Z0. specialize (G g V). rewrite AM in G. destruct (aget g (sgroups s)) as [sg|]; [|contradiction].
        assert (LG : live_group g m = Some gp).
        { unfold live_group. rewrite V, AM. replace (gcount gp <=? 0) with false; auto. symmetry. apply Z.leb_gt. lia. }
        split; [intros loc n I; apply (MM g gp LG loc n I)|apply (KD g gp LG)].
    + cbn [gcount Z.eqb ghash gbk]. split; [intros loc n I; unfold bucket in I; simpl in I; contradiction|constructor].
  - (* destroy *)
    unfold ha_destroy. destruct (live_group g m) as [gp|] eqn:LG; [|cbn [snd]; auto].
    destruct (live_group_facts g m gp LG) as (V & AM & CP).
    destruct (u32 (gcount gp - 1) =? 0) eqn:Z0; cbn [snd].
    + apply ext_set_group; auto. cbn [gcount]. lia.
    + apply ext_set_group; auto. cbn [gcount ghash gbk]. intros _.
      split; [intros loc n I; apply (MM g gp LG loc n I)|apply (KD g gp LG)].
  - (* register *)
    unfold ha_register. destruct (live_group g m) as [gp|] eqn:LG; [|cbn [snd]; auto]. cbn [snd].
    destruct (live_group_facts g m gp LG) as (V & AM & CP).
    destruct (live_corr m s g G) as [[A B]|(gp0 & sg & A & B & _ & _ & AS & EC & CB & (k & Kb & HK) & EN & NB)]; [congruence|].
    rewrite LG in A. inversion A; subst gp0. cbn [op_ok] in OK. rewrite B in OK.
    apply andb_true_iff in OK. destruct OK as [_ OK]. apply Z.ltb_lt in OK. unfold ATOM_LIMIT in OK.
    assert (Vr := valid_group_range g V).
    apply ext_set_group; auto. cbn [gcount ghash gbk]. intros _. split; [|apply NoDup_aset, (KD g gp LG)].
    intros loc n I. rewrite bucket_aset in I. destruct (loc =? gnext gp mod ghash gp) eqn:E; [|apply (MM g gp LG loc n I)].
    apply Z.eqb_eq in E. destruct I as [<-|I]; [|rewrite E; apply (MM g gp LG _ n I)].
    cbn [nid]. rewrite EN, atom_of_enc by lia. split; [apply group_of_enc; lia|].
    rewrite E, HK, EN. apply loc_of_enc; lia.
  - (* lookup *)
    unfold ha_object, hai_object.
    repeat match goal with |- context [if ?b then _ else _] => destruct b end; cbn [snd]; auto;
      try (destruct (m_find id m); cbn [snd]; auto);
      (split; [exact MM|exact KD]).
  - (* remove *)
    unfold ha_remove. destruct (live_group (group_of id) m) as [gp|] eqn:LG; [|cbn [snd]; auto].
    destruct (find_node id (bucket gp (loc_of id (ghash gp)))); cbn [snd]; auto.
    destruct (live_group_facts _ m gp LG) as (V & AM & CP).
    match goal with |- MMinv (cache_drop _ ?mm) /\ _ => assert (X : MMinv mm /\ KDinv mm) end.
    { apply ext_set_group; auto. cbn [gcount ghash gbk]. intros _. split; [|apply NoDup_aset, (KD _ gp LG)].
      intros loc n I. rewrite bucket_aset in I. destruct (loc =? loc_of id (ghash gp)) eqn:E; [|apply (MM _ gp LG loc n I)].
      apply Z.eqb_eq in E. rewrite E. apply (MM _ gp LG). eapply In_remove_node_elem; eauto. }
    destruct X as [X1 X2]. apply (ext_cache _ _ (fun g' => live_group_cache_drop g' id _) X1 X2).
Qed.

Lemma Rel2_init : Rel2 m_init s_init.
Proof.
  split; [exact Rel_init|]. split; intros g gp H; unfold live_group in H; simpl in H; destruct (valid_group g); discriminate.
Qed.

(* ------------------------------------------------------------------------------------------------ *)
(** * Histories *)
Definition op_covered (o : aop) : bool :=
  match o with AInit _ _ | AReg _ _ | ALookup _ | AGroup _ => true | _ => false end.

Lemma step_refines_full : forall o m s, Rel2 m s -> op_ok o s = true ->
  fst (m_step o m) = fst (s_step o s) /\ Rel2 (snd (m_step o m)) (snd (s_step o s)).
Proof.
  intros o m s R2 OK. pose proof R2 as (R & MM & KD).
  assert (X : fst (m_step o m) = fst (s_step o s) /\ Rel (snd (m_step o m)) (snd (s_step o s))).
  { destruct o.
    - apply init_refines; auto.
    - apply destroy_refines; auto.
    - apply reg_refines; auto.
    - apply lookup_refines; auto.
    - apply remove_refines; auto.
    - split; [cbn [m_step fst]; apply search_refines; auto|cbn [m_step s_step snd]; destruct (s_live_group g s); exact R].
    - split; [apply group_refines|exact R]. }
  destruct X as [E R']. split; auto. split; auto. eapply ext_step; eauto.
Qed.

Lemma run_refines_full : forall h m s, Rel2 m s -> hist_ok h s = true ->
  fst (m_run h m) = fst (s_run h s) /\ Rel2 (snd (m_run h m)) (snd (s_run h s)).
Proof.
  induction h as [|o t IH]; intros m s R OK; [simpl; auto|].
  cbn [hist_ok] in OK. apply andb_true_iff in OK. destruct OK as [Oo Ot].
  destruct (step_refines_full o m s R Oo) as [E R'].
  cbn [m_run s_run]. destruct (m_step o m) as [r m1]. destruct (s_step o s) as [r2 s1]. cbn [fst snd] in *.
  destruct (IH m1 s1 R' Ot) as [E2 R2].
  destruct (m_run t m1) as [rs m2]. destruct (s_run t s1) as [rs2 s2]. cbn [fst snd] in *.
  split; [congruence|auto].
Qed.

Lemma atom_refines_map_lemma : forall h, hist_ok h s_init = true -> fst (m_run h m_init) = fst (s_run h s_init).
Proof. intros h O. apply (run_refines_full h m_init s_init Rel2_init O). Qed.

Lemma atom_refines_map_partial_lemma : forall h, forallb op_covered h = true -> hist_ok h s_init = true ->
  fst (m_run h m_init) = fst (s_run h s_init).
Proof. intros h _ O. now apply atom_refines_map_lemma. Qed.

(** along every admissible history: no id is live twice in the map, every live id is enc(g,i) of a live group with
    i below the number of ids issued, and the implementation's uncached lookup equals the map *)
Lemma reachable_invariant_lemma : forall h, hist_ok h s_init = true ->
  let m := snd (m_run h m_init) in let s := snd (s_run h s_init) in
  NoDup (map fst (slive s)) /\ (forall id, m_find id m = s_lookup id s) /\ Cinv m.
Proof.
  intros h O. destruct (run_refines_full h m_init s_init Rel2_init O) as [_ ((G & L & MB & SI & C) & _)].
  cbn zeta. split; [apply SI|split; auto].
Qed.

(** decodability of issued ids *)
Lemma make_atom_decodable_lemma : forall g n, 0 <= g < 16 -> 0 <= n < 268435456 ->
  group_of (atom_of g n) = g /\ (atom_of g n) mod 268435456 = n /\
  (forall g' n', 0 <= g' < 16 -> 0 <= n' < 268435456 -> atom_of g n = atom_of g' n' -> g = g' /\ n = n').
Proof.
  intros g n Hg Hn. rewrite atom_of_enc by lia. split; [apply group_of_enc; lia|]. split; [apply enc_index; lia|].
  intros g' n' Hg' Hn' E. rewrite atom_of_enc in E by lia. apply enc_inj in E; auto.
Qed.

(* ------------------------------------------------------------------------------------------------ *)
(** * File machine: nothing of a fully released past reaches the next open *)
Lemma quiescent_no_rec : forall st p, f_quiescent st = true -> rec_of_path p st = None /\ fids st = [].
Proof.
  unfold f_quiescent, rec_of_path. intros st p H. apply andb_true_iff in H. destruct H as [A B].
  split; [|destruct (fids st); [auto|discriminate]].
  induction (frecs st) as [|[k r] t IH]; simpl in *; auto.
  apply andb_true_iff in A. destruct A as [A1 A2]. apply Z.eqb_eq in A1. rewrite A1.
  rewrite andb_false_r. auto.
Qed.

Lemma all_released_is_initial_lemma : forall st p acc,
  f_quiescent st = true -> Z.land acc DFACC_ALL = acc ->
  let fr := mkF p 1 0 (if acc =? DFACC_CREATE then DFACC_ALL else Z.lor acc DFACC_READ) in
  exists st' r,
    f_step (FOpen p acc) st = (ROk (fnext st), st') /\
    file_of (fnext st) st' = Some (r, fr) /\ fids st' = [(fnext st, OFile r)] /\
    (forall id, id <> fnext st -> aget id (fids st') = None) /\
    (* exactly what the very first open of a fresh library produces *)
    file_of 0 (snd (f_step (FOpen p acc) f_init)) = Some (0, fr) /\
    fst (f_step (FOpen p acc) f_init) = ROk 0.
Proof.
  intros st p acc Q A fr. destruct (quiescent_no_rec st p Q) as [NR NF].
  assert (A' : negb (Z.land acc DFACC_ALL =? acc) = false) by (rewrite A, Z.eqb_refl; reflexivity).
  eexists. exists (Z.of_nat (length (frecs st))).
  unfold f_step. rewrite A', NR. split; [reflexivity|].
  unfold file_of. cbn [fids frecs aget]. rewrite Z.eqb_refl, aget_aset_same. cbn [frefcount]. cbn [Z.eqb].
  split; [reflexivity|]. rewrite NF. split; [reflexivity|]. split.
  - intros id N. cbn [aget]. apply Z.eqb_neq in N. now rewrite N.
  - change (rec_of_path p f_init) with (@None (Z * frec)).
    cbn [snd fst]. unfold file_of, f_init. cbn [fids frecs fnext aget aset length Z.of_nat].
    rewrite !Z.eqb_refl. cbn [frefcount Z.eqb]. split; reflexivity.
Qed.

(* ------------------------------------------------------------------------------------------------ *)
(** * SD ids (expressions regenerated from mfsd.c) *)
Lemma land_high12 : forall x, 0 <= x < 4294967296 -> Z.land x 4293918720 = x - x mod 1048576.
Proof.
  intros x B. set (q := x / 1048576).
  assert (Q : 0 <= q < 4096) by (unfold q; lia).
  assert (E : x - x mod 1048576 = q * 2 ^ 20) by (unfold q; change (2 ^ 20) with 1048576; lia).
  rewrite E. apply Z.bits_inj'. intros i Hi. rewrite Z.land_spec.
  change 4293918720 with (4095 * 2 ^ 20).
  destruct (Z_lt_ge_dec i 20).
  - rewrite !Z.mul_pow2_bits_low by lia. apply andb_false_r.
  - replace i with (20 + (i - 20)) by lia. set (j := i - 20). assert (0 <= j) by (unfold j; lia).
    rewrite !Z.mul_pow2_bits_add by lia.
    assert (TX : Z.testbit x (20 + j) = Z.testbit q j).
    { unfold q. change 1048576 with (2 ^ 20). rewrite <- Z.shiftr_div_pow2 by lia. rewrite Z.shiftr_spec by lia.
      f_equal. lia. }
    rewrite TX. change 4095 with (Z.ones 12).
    destruct (Z_lt_ge_dec j 12).
    + rewrite Z.ones_spec_low by lia. apply andb_true_r.
    + rewrite Z.ones_spec_high by lia. rewrite andb_false_r. symmetry.
      destruct (Z.eq_dec q 0) as [->|NZ]; [apply Z.bits_0|].
      apply Z.bits_above_log2; [lia|].
      assert (Z.log2 q < 12) by (apply Z.log2_lt_pow2; [lia|change (2 ^ 12) with 4096; lia]). lia.
Qed.

Ltac sd_arith :=
  repeat rewrite Z.shiftl_mul_pow2 by lia; repeat rewrite Z.shiftr_div_pow2 by lia;
  change 15 with (2 ^ 4 - 1); change 4095 with (2 ^ 12 - 1); change 65535 with (2 ^ 16 - 1);
  repeat rewrite land_ones_mod by lia;
  change (2 ^ 4) with 16; change (2 ^ 12) with 4096; change (2 ^ 16) with 65536; change (2 ^ 20) with 1048576.

Lemma sd_file_id_spec : forall c, 0 <= c < 2048 -> SD_file_id c = c * 1048576 + 393216 + c.
Proof. intros c B. unfold SD_file_id. sd_arith. lia. Qed.

Lemma sd_sds_id_spec : forall c i, 0 <= c < 2048 -> 0 <= i < 65536 -> SD_sds_id (SD_file_id c) i = c * 1048576 + 262144 + i.
Proof. intros c i B Bi. rewrite sd_file_id_spec by lia. unfold SD_sds_id. sd_arith. lia. Qed.

Lemma sd_dim_id_spec : forall c i d, 0 <= c < 2048 -> 0 <= i < 65536 -> 0 <= d < 65536 ->
  SD_dim_id (SD_sds_id (SD_file_id c) i) d = c * 1048576 + 327680 + d.
Proof.
  intros c i d B Bi Bd. rewrite sd_sds_id_spec by lia. unfold SD_dim_id.
  rewrite land_high12 by lia. sd_arith. lia.
Qed.

Lemma sd_decode : forall c k x, 0 <= c < 2048 -> 0 <= k < 16 -> 0 <= x < 65536 ->
  let id := c * 1048576 + k * 65536 + x in
  SD_id_type id = k /\ SD_id_slot id = c /\ SD_var_index id = x /\ SD_dim_index id = x.
Proof.
  intros c k x B Bk Bx id. unfold id, SD_id_type, SD_id_slot, SD_var_index, SD_dim_index. sd_arith.
  repeat split; lia.
Qed.

Lemma sdid_decode_encode_lemma : forall c i d, 0 <= c < 2048 -> 0 <= i < 65536 -> 0 <= d < 65536 ->
  let fid := SD_file_id c in let sds := SD_sds_id fid i in let dim := SD_dim_id sds d in
  (SD_id_type fid = CDFTYPE /\ SD_id_slot fid = c) /\
  (SD_id_type sds = SDSTYPE /\ SD_id_slot sds = c /\ SD_var_index sds = i) /\
  (SD_id_type dim = DIMTYPE /\ SD_id_slot dim = c /\ SD_dim_index dim = d) /\
  fid <> -1 /\ sds <> -1 /\ dim <> -1.
Proof.
  intros c i d B Bi Bd. cbv zeta.
  rewrite sd_dim_id_spec, sd_sds_id_spec, sd_file_id_spec by lia.
  destruct (sd_decode c 6 c B ltac:(lia) ltac:(lia)) as (F1 & F2 & _).
  destruct (sd_decode c 4 i B ltac:(lia) Bi) as (S1 & S2 & S3 & _).
  destruct (sd_decode c 5 d B ltac:(lia) Bd) as (D1 & D2 & _ & D4).
  change (6 * 65536) with 393216 in *. change (4 * 65536) with 262144 in *. change (5 * 65536) with 327680 in *.
  unfold CDFTYPE, SDSTYPE, DIMTYPE. repeat split; auto; lia.
Qed.

(** SDIhandle_from_id + NC_check_id: an id passes only with the kind the call expects and an open file slot *)
Lemma sdid_kind_check_lemma : forall id typ ncdf open slot,
  sd_check id typ ncdf open = Some slot ->
  id <> -1 /\ SD_id_type id = typ /\ slot = SD_id_slot id /\ 0 <= slot < ncdf /\ open slot = true.
Proof.
  unfold sd_check, sd_valid_slot. intros id typ ncdf open slot H.
  destruct (id =? -1) eqn:E1; [discriminate|]. apply Z.eqb_neq in E1.
  destruct (SD_id_type id =? typ) eqn:E2; [|discriminate]. apply Z.eqb_eq in E2. cbn [negb] in H.
  destruct ((0 <=? SD_id_slot id) && (SD_id_slot id <? ncdf) && open (SD_id_slot id)) eqn:E3; [|discriminate].
  inversion H; subst slot. apply andb_true_iff in E3. destruct E3 as [E3 O]. apply andb_true_iff in E3. destruct E3 as [A B].
  apply Z.leb_le in A. apply Z.ltb_lt in B. repeat split; auto.
Qed.

Lemma sdid_wrong_kind_or_closed_rejected_lemma : forall c i ncdf open, 0 <= c < 2048 -> 0 <= i < 65536 ->
  let sds := SD_sds_id (SD_file_id c) i in
  sd_check sds CDFTYPE ncdf open = None /\ sd_check sds DIMTYPE ncdf open = None /\
  (open c = false -> sd_check sds SDSTYPE ncdf open = None) /\
  (0 <= c < ncdf -> open c = true -> sd_check sds SDSTYPE ncdf open = Some c).
Proof.
  intros c i ncdf open B Bi. cbv zeta.
  destruct (sdid_decode_encode_lemma c i 0 B Bi ltac:(lia)) as (_ & (T & S & _) & _ & _ & N & _).
  cbv zeta in T, S, N. unfold sd_check, sd_valid_slot. apply Z.eqb_neq in N. rewrite N, T, S.
  unfold SDSTYPE, CDFTYPE, DIMTYPE. cbn [Z.eqb Pos.eqb negb].
  repeat split; auto.
  - intros O. rewrite O. now rewrite andb_false_r.
  - intros [A1 A2] O. rewrite O. apply Z.leb_le in A1. apply Z.ltb_lt in A2. now rewrite A1, A2.
Qed.

(* ------------------------------------------------------------------------------------------------ *)
(** * The table of open SD files: reorganising it never moves or drops an open file *)
Lemma highest_acc_or_ge : forall l i acc, highest l i acc = acc \/ i <= highest l i acc.
Proof.
  induction l as [|x t IH]; intros i acc; simpl; auto.
  destruct x.
  - destruct (IH (i + 1) i) as [E|E]; right; lia.
  - destruct (IH (i + 1) acc) as [E|E]; [left; auto|right; lia].
Qed.

Lemma highest_ge : forall l i acc p o, slot_at l p = Some o -> i + Z.of_nat p <= highest l i acc.
Proof.
  induction l as [|x t IH]; intros i acc p o H.
  - unfold slot_at in H. destruct p; discriminate.
  - destruct p as [|p].
    + unfold slot_at in H. simpl in H. destruct x; [|discriminate]. simpl.
      destruct (highest_acc_or_ge t (i + 1) i); lia.
    + unfold slot_at in *. simpl in H. simpl highest.
      specialize (IH (i + 1) (match x with Some _ => i | None => acc end) p o H). lia.
Qed.

Lemma nth_error_ct_build : forall n i size alloc l p,
  nth_error (ct_build n i size alloc l) p =
  if (p <? n)%nat then Some (if NC_reset_copy_cond (i + Z.of_nat p) size alloc =? 0 then None
                             else match nth_error l p with Some x => x | None => None end)
  else None.
Proof.
  induction n as [|n IH]; intros i size alloc l p.
  - destruct p; reflexivity.
  - destruct p as [|p].
    + cbn [ct_build nth_error Nat.ltb Nat.leb Z.of_nat]. rewrite Z.add_0_r. destruct l; reflexivity.
    + cbn [ct_build nth_error]. rewrite IH. change (S p <? S n)%nat with (p <? n)%nat.
      replace (i + 1 + Z.of_nat p) with (i + Z.of_nat (S p)) by lia.
      destruct l; [destruct p; reflexivity|reflexivity].
Qed.

Lemma slot_at_length : forall l p o, slot_at l p = Some o -> (p < length l)%nat.
Proof.
  intros l p o H. unfold slot_at in H. destruct (nth_error l p) eqn:E; [|discriminate].
  apply nth_error_Some. congruence.
Qed.

Lemma ct_reset_keeps_open_files_lemma : forall t req lim p o,
  ct_check (Z.of_nat p) t = Some o ->
  ct_check (Z.of_nat p) (snd (ct_reset req lim t)) = Some o.
Proof.
  intros t req lim p o H. unfold ct_reset.
  destruct (negb (NC_reset_neg_guard req =? 0)); [exact H|].
  destruct (ctab t) as [|x0 l0] eqn:ET.
  { unfold ct_check in H. rewrite ET in H. destruct (NC_check_range (Z.of_nat p) (cncdf t) =? 0); [discriminate|].
    unfold slot_at in H. destruct (Z.to_nat (Z.of_nat p)); discriminate. }
  rewrite <- ET.
  destruct (negb (NC_reset_curr_guard req (ccurr t) =? 0)); [exact H|].
  set (alloc := if NC_reset_limit_cond req lim =? 0 then req else lim).
  destruct (negb (NC_reset_guard alloc (highest (ctab t) 0 (-1)) =? 0)) eqn:GD; [exact H|].
  cbn [snd]. unfold ct_check in *. cbn [cncdf ctab].
  unfold NC_check_range in *. rewrite Nat2Z.id in *.
  destruct (0 <=? Z.of_nat p) eqn:P0; [|discriminate]. destruct (Z.of_nat p <? cncdf t) eqn:P1; [|discriminate].
  cbn in H. apply Z.ltb_lt in P1.
  assert (HI := highest_ge (ctab t) 0 (-1) p o H).
  assert (LEN := slot_at_length _ _ _ H).
  (* the guard let the request through: the new size exceeds the highest occupied position *)
  unfold NC_reset_guard in GD. destruct (alloc <=? highest (ctab t) 0 (-1)) eqn:GE; [discriminate|].
  apply Z.leb_gt in GE.
  assert (PA : Z.of_nat p < alloc) by lia.
  assert (R : Z.of_nat p <? (if NC_reset_clamp_cond (cncdf t) alloc =? 0 then cncdf t else alloc) = true).
  { unfold NC_reset_clamp_cond. destruct (alloc <? cncdf t); cbn; apply Z.ltb_lt; lia. }
  rewrite R. cbn.
  unfold slot_at, ct_newlist. rewrite nth_error_ct_build.
  replace (p <? Z.to_nat alloc)%nat with true by (symmetry; apply Nat.ltb_lt; lia).
  rewrite Z.add_0_l. unfold NC_reset_copy_cond.
  replace (Z.of_nat p <? Z.of_nat (length (ctab t))) with true by (symmetry; apply Z.ltb_lt; lia).
  replace (Z.of_nat p <? alloc) with true by (symmetry; apply Z.ltb_lt; lia).
  cbn. unfold slot_at in H. destruct (nth_error (ctab t) p) as [[v|]|]; try discriminate. exact H.
Qed.


(* ------------------------------------------------------------------------------------------------ *)
(** * Refused opens leave everything as it was; ANend releases every kind of annotation id *)
Lemma denied_open_changes_nothing_lemma : forall st p acc,
  (forall r fr, rec_of_path p st = Some (r, fr) ->
     acc = DFACC_CREATE \/ (0 <? Z.land acc DFACC_WRITE) && (Z.land (faccess fr) DFACC_WRITE =? 0) = true) ->
  f_step (FOpenDenied p acc) st = (RFail, st).
Proof.
  intros st p acc H. unfold f_step.
  destruct (negb (Z.land acc DFACC_ALL =? acc)); [reflexivity|].
  destruct (rec_of_path p st) as [[r fr]|] eqn:E; [|reflexivity].
  destruct (H r fr eq_refl) as [->|W].
  - reflexivity.
  - destruct (acc =? DFACC_CREATE); [reflexivity|]. rewrite W. reflexivity.
Qed.

Lemma anend_releases_every_type_lemma :
  forall t, In t [AN_DATA_LABEL; AN_DATA_DESC; AN_FILE_LABEL; AN_FILE_DESC] -> In t ANend_types_released.
Proof. intros t H. simpl in H. unfold ANend_types_released. simpl. intuition (subst; auto). Qed.

(* ------------------------------------------------------------------------------------------------ *)
(** * Round 4: annotation tag/type switches; exclusive write attachments *)
Lemma antagref2id_inverts_create_lemma : forall t tag,
  In (t, tag) ANIcreate_type_to_tag -> aget tag ANtagref2id_tag_to_type = Some t.
Proof.
  intros t tag H. unfold ANIcreate_type_to_tag in H. simpl in H.
  repeat (destruct H as [H|H]; [inversion H; subst; reflexivity|]). contradiction.
Qed.

Lemma write_attach_is_exclusive_lemma : forall t parent p sub ok id id0 h0,
  hget KFile parent t = Some p -> aget id0 t = Some h0 -> hk h0 = KVs -> hparent h0 = parent ->
  hobj h0 = 100 * hobj p + sub ->
  VSattach_write_refused_whenever_attached = 1 /\ VSattach_read_refused_while_written = 1 /\
  fst (h_step (CIssue KVs parent KFile sub ok 1) (AOk id) t) = VBad 7 /\
  (hmode h0 = 1 -> fst (h_step (CIssue KVs parent KFile sub ok 0) (AOk id) t) = VBad 7) /\
  fst (h_step (CIssue KVs parent KFile sub ok 1) AFail t) = VOk.
Proof.
  intros t parent p sub ok id id0 h0 HP A K PA O.
  assert (I : In (id0, h0) t) by (apply aget_In; exact A).
  assert (C1 : excl_conflict KVs parent (100 * hobj p + sub) 1 t = true).
  { unfold excl_conflict. cbn [exclusive_kind andb]. apply existsb_exists. exists (id0, h0). split; auto.
    cbn [snd]. rewrite K, PA, O, !Z.eqb_refl. reflexivity. }
  split; [reflexivity|]. split; [reflexivity|]. cbn [h_step]. rewrite HP, C1. cbn [fst].
  split; [reflexivity|]. split; [|destruct ok; reflexivity].
  intro M.
  assert (C0 : excl_conflict KVs parent (100 * hobj p + sub) 0 t = true).
  { unfold excl_conflict. cbn [exclusive_kind andb]. apply existsb_exists. exists (id0, h0). split; auto.
    cbn [snd]. rewrite K, PA, O, M, !Z.eqb_refl. reflexivity. }
  now rewrite C0.
Qed.
