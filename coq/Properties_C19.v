(** C19 -- Inspection tools report what is actually in the file. *)
From Coq Require Import ZArith List Bool.
Require Import H4.ToolsCInt H4.gen.Gen_Tools H4.ToolsSpec H4.ToolsModel H4.ToolsProofs.
Import ListNotations.
Local Open Scope Z_scope.

Example int8_extremes_flagged : ad_count DFNT_INT8 (opts0 1) [-128] [127] = 1.
Proof. exact placeholder_c19. Qed.
