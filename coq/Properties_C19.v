(** C19 -- Inspection tools report what is actually in the file.
    Property theorems only; each is closed by [exact] of a lemma from ToolsProofs.v.
    S = ToolsSpec.v, M = ToolsModel.v over the definitions regenerated from the sources (gen/Gen_Tools.v). *)
From Coq Require Import ZArith List Bool Lia.
Require Import H4.ToolsCInt H4.gen.Gen_Tools H4.ToolsSpec H4.ToolsModel H4.ToolsProofs.
Import ListNotations.
Local Open Scope Z_scope.

(** ** hdiff's element-wise comparison (array_diff, no options), every integer number type:
    the count returned and the positions printed are exactly the positions whose values differ. *)
Theorem array_diff_refines_spec : forall nt lo hi a b m,
  nt_range nt = Some (lo, hi) -> Forall (in_range lo hi) a -> Forall (in_range lo hi) b ->
  Z.of_nat (length a) <= m ->
  array_diff_m nt (opts0 m) a b = (spec_count a b, spec_diff_positions 0 a b).
Proof. exact array_diff_refines_spec_lemma. Qed.
Print Assumptions array_diff_refines_spec.

(** reported count = 0 iff the arrays are equal (int8, uint8, char8, uchar8, int16, uint16, int32, uint32) *)
Theorem array_diff_zero_iff_equal : forall nt lo hi a b m,
  nt_range nt = Some (lo, hi) -> Forall (in_range lo hi) a -> Forall (in_range lo hi) b -> length a = length b ->
  (ad_count nt (opts0 m) a b = 0 <-> a = b).
Proof. exact array_diff_zero_iff_equal_lemma. Qed.
Print Assumptions array_diff_zero_iff_equal.

(** The code as it was (DESIGN section 8 #17 and its 16/32-bit siblings) violates that statement.
    Witnesses: int8 -128 vs 127, int16 -32768 vs 32767, int32 0 vs INT_MIN; each replayed on the C library
    (corpus/C19) -- repaired by fix: commits e3f171a and cfb578e. *)
Theorem array_diff_int8_narrowing_refuted : exists a b, a <> b /\ Forall (in_range (-128) 127) a /\
  Forall (in_range (-128) 127) b /\ length a = length b /\ ad_count_orig br8_orig a b = 0.
Proof. exact ad8_orig_refuted_lemma. Qed.
Print Assumptions array_diff_int8_narrowing_refuted.
Theorem array_diff_int16_narrowing_refuted : exists a b, a <> b /\ Forall (in_range (-32768) 32767) a /\
  Forall (in_range (-32768) 32767) b /\ length a = length b /\ ad_count_orig br16_orig a b = 0.
Proof. exact ad16_orig_refuted_lemma. Qed.
Print Assumptions array_diff_int16_narrowing_refuted.
Theorem array_diff_int32_overflow_refuted : exists a b, a <> b /\ Forall (in_range (-2147483648) 2147483647) a /\
  Forall (in_range (-2147483648) 2147483647) b /\ length a = length b /\ ad_count_orig br32_orig a b = 0.
Proof. exact ad32_orig_refuted_lemma. Qed.
Print Assumptions array_diff_int32_overflow_refuted.

(** ** Object matching (match(): cosequential walk of the two object lists, no sortedness needed):
    an object whose name occurs in one file only gets a one-sided table entry (what `hdiff -b` prints). *)
Theorem match_flags_added_removed : forall l1 l2 o,
  (In o l1 -> ~ In (o_name o) (map o_name l2) -> In (Only1 o) (cmatch l1 l2)) /\
  (In o l2 -> ~ In (o_name o) (map o_name l1) -> In (Only2 o) (cmatch l1 l2)).
Proof. intros l1 l2 o. split; [apply match_flags_removed_lemma | apply match_flags_added_lemma]. Qed.
Print Assumptions match_flags_added_removed.

(** ... but the count (hence the exit status) ignores one-sided entries: the faithful model violates "flags any
    added/removed object".  Known finding (known_findings.d/C19.json): counting them makes the pinned hrepack
    *_DFF tests fail, whose file pairs list internal Vdatas (chunk tables, attribute Vdatas) in different orders. *)
Theorem match_added_object_refuted : exists l1 l2 o, In o l2 /\ ~ In (o_name o) (map o_name l1) /\
  In (Only2 o) (cmatch l1 l2) /\ match_m l1 l2 = 0 /\ 1 <= match_wanted l1 l2.
Proof. exact match_added_refuted_lemma. Qed.
Print Assumptions match_added_object_refuted.

(** the table is symmetric: swapping the files mirrors every entry *)
Theorem match_table_symmetric : forall l1 l2, map mirror (cmatch l1 l2) = cmatch l2 l1.
Proof. exact cmatch_mirror. Qed.
Print Assumptions match_table_symmetric.

(** ** hdiff F F reports nothing and exits 0 (global attribute names unique, as SDsetattr guarantees) *)
Theorem hdiff_reflexive : forall f, NoDup (map a_name (f_gattrs f)) -> hdiff_m f f = 0 /\ hdiff_exit_m f f = 0.
Proof. exact hdiff_reflexive_lemma. Qed.
Print Assumptions hdiff_reflexive.

(** ** hdiff F1 F2 and hdiff F2 F1 agree on whether differences are found *)
Theorem hdiff_symmetric_found : forall f1 f2,
  NoDup (map a_name (f_gattrs f1)) -> NoDup (map a_name (f_gattrs f2)) -> hdiff_exit_m f1 f2 = hdiff_exit_m f2 f1.
Proof. exact hdiff_symmetric_found_lemma. Qed.
Print Assumptions hdiff_symmetric_found.

(** ** A change to a data value of an object present in both files is flagged.
    Any matched pair with a positive per-object count makes hdiff exit 1 ... *)
Theorem hdiff_flags_changed_pair : forall f1 f2 a b,
  In (Both a b) (cmatch (f_objs f1) (f_objs f2)) -> 1 <= diff_obj a b -> 1 <= hdiff_m f1 f2.
Proof. exact hdiff_flags_changed_pair_lemma. Qed.
Print Assumptions hdiff_flags_changed_pair.

(** ... objects with the same names in the same order are all matched ... *)
Theorem match_pairs_same_names : forall l1 l2, map o_name l1 = map o_name l2 ->
  cmatch l1 l2 = map (fun p => Both (fst p) (snd p)) (combine l1 l2).
Proof. exact cmatch_same_names. Qed.
Print Assumptions match_pairs_same_names.

(** ... and the per-object count is positive when the values of two comparable datasets / images / tables differ *)
Theorem diff_sds_flags_value : forall nt lo hi d v1 v2 a1 a2,
  nt_range nt = Some (lo, hi) -> Forall (in_range lo hi) v1 -> Forall (in_range lo hi) v2 ->
  length v1 = length v2 -> v1 <> v2 -> 1 <= diff_sds_m nt d v1 a1 nt d v2 a2.
Proof. exact diff_sds_flags_value_lemma. Qed.
Print Assumptions diff_sds_flags_value.

Theorem diff_gr_flags_value : forall nt lo hi c x y v1 v2,
  nt_range nt = Some (lo, hi) -> Forall (in_range lo hi) v1 -> Forall (in_range lo hi) v2 ->
  0 <= x * y * c -> Z.of_nat (length v1) = x * y * c -> Z.of_nat (length v2) = x * y * c -> v1 <> v2 ->
  1 <= diff_gr_m nt c x y v1 nt c x y v2.
Proof. exact diff_gr_flags_value_lemma. Qed.
Print Assumptions diff_gr_flags_value.

Theorem diff_vs_flags_value : forall n f v1 v2, v1 <> v2 -> diff_vs_m n f v1 n f v2 = 1.
Proof. exact diff_vs_flags_value_lemma. Qed.
Print Assumptions diff_vs_flags_value.

(** before the repair (fix: b3b565d) diff_gr handed array_diff only xdim*ydim elements: a 2x1 image with 2
    components differing in its last value was not flagged *)
Theorem diff_gr_component_count_refuted : exists v1 v2, v1 <> v2 /\ length v1 = length v2 /\
  let n := Z.to_nat (2 * 1) in ad_count 21 (opts0 2) (firstn n v1) (firstn n v2) = 0.
Proof. exact diff_gr_orig_refuted_lemma. Qed.
Print Assumptions diff_gr_component_count_refuted.

(** ** hdiff reports no difference and exits 0 exactly when two comparable files hold equal content.
    [comparable] (ToolsModel.v): same object names in the same order, objects pairwise of the same class; datasets and images of the same type
    and shape with in-range (or floating) values; any attributes, any Vdata headers (their differences are counted since
    fixes 46597fc / ea7db26); global attribute names unique.  Outside it: "Comparison not supported" objects (excluded by the property), and objects present in one
    file only (refuted above, known finding). *)
Theorem hdiff_exit_iff_same_content : forall f1 f2, comparable f1 f2 ->
  (hdiff_m f1 f2 = 0 <-> same_content f1 f2 = true) /\ hdiff_exit_m f1 f2 = spec_exit f1 f2.
Proof. exact hdiff_exit_iff_same_content_lemma. Qed.
Print Assumptions hdiff_exit_iff_same_content.

(** equal content => exit 0 needs no comparability at all *)
Theorem hdiff_same_content_exit0 : forall f1 f2,
  NoDup (map a_name (f_gattrs f1)) -> NoDup (map a_name (f_gattrs f2)) ->
  same_content f1 f2 = true -> hdiff_m f1 f2 = 0 /\ hdiff_exit_m f1 f2 = spec_exit f1 f2.
Proof. exact same_content_exit0_lemma. Qed.
Print Assumptions hdiff_same_content_exit0.

(** ** Number-type flavours (native, little-endian): array_diff selects its branch by the base type (regenerated
    controlling expression `type & DFNT_MASK`; before fix 3f7759d it was `type`: "bad type", nothing compared);
    hdp's select_func picks the same routine for every flavour (regenerated `nt & 0xff`). *)
Theorem array_diff_flavour_independent : forall nt, ad_kind nt = ad_kind (Z.land nt DFNT_MASK).
Proof. exact ad_kind_flavour_lemma. Qed.
Print Assumptions array_diff_flavour_independent.

Theorem hdp_routine_flavour_independent : forall base flag,
  In base [20; 21; 22; 23; 24; 25] -> In flag [0; DFNT_NATIVE; DFNT_LITEND] ->
  hdp_routine (Z.lor base flag) = hdp_routine base /\ hdp_routine base <> None.
Proof. exact hdp_routine_flavour_lemma. Qed.
Print Assumptions hdp_routine_flavour_independent.

(** ** Floating-point branches.  IEEE arithmetic is not modelled; the regenerated *width skeleton* of the
    difference expression is: over ANY value domain with per-format rounding in which the rounded difference of
    two numbers of one format is zero only if they are equal (gradual underflow), the float32 and the float64
    branch compute a difference that is zero iff the elements are equal -- i.e. the difference is taken in the
    element type's own width.  (fabsf((float32)(a-b)) in the float64 branch gives the skeleton
    FAbs (FNarrow 32 (FSub 64 FA FB)) and this proof fails.) *)
Theorem array_diff_float_own_width :
  forall (V : Type) (vsub : V -> V -> V) (vabs : V -> V) (vzero : V) (rnd : Z -> V -> V) (F : Z -> V -> Prop),
  (forall w a b, F w a -> F w b -> (rnd w (vsub a b) = vzero <-> a = b)) ->
  (forall x, vabs x = vzero <-> x = vzero) ->
  (forall w x, F w x -> rnd w x = x) -> (forall w x, F w (rnd w x)) -> (forall w x, F w x -> F w (vabs x)) ->
  (forall a b, F adf32_elt_bits a -> F adf32_elt_bits b -> (feval V vsub vabs rnd adf32_diff a b = vzero <-> a = b)) /\
  (forall a b, F adf64_elt_bits a -> F adf64_elt_bits b -> (feval V vsub vabs rnd adf64_diff a b = vzero <-> a = b)).
Proof.
  intros V vsub vabs vzero rnd F H1 H2 H3 H4 H5. split.
  - exact (float32_own_width_lemma V vsub vabs vzero rnd F H1 H2 H3 H4 H5).
  - exact (float64_own_width_lemma V vsub vabs vzero rnd F H1 H2).
Qed.
Print Assumptions array_diff_float_own_width.

(** with that, the executable model of the floating branches (flag iff the bit patterns differ; selected only when
    the regenerated skeleton stays in the element's width) reports exactly the differing positions *)
Theorem array_diff_float_refines_spec : forall nt a b m, ad_kind nt = ADFloat ->
  array_diff_m nt (opts0 m) a b = (spec_count a b, spec_diff_positions 0 a b).
Proof. exact ad_float_refines_spec_lemma. Qed.
Print Assumptions array_diff_float_refines_spec.

(** ** hdiff's object table (hdiff_table.c): dtable_add doubles the table when it is full and initialises only the
    new entries (regenerated: initial size, "full" test, growth factor, first index re-initialised), so after any
    number of additions every stored entry still carries the tag diff() dispatches on and its object; the count
    computed with the tags as they stand in the table is therefore the count of hdiff_m.
    (With `for (i = 0; ...)` in the growth branch dtable_grow_from becomes 0 and the proof fails.) *)
Theorem object_table_keeps_entries : forall l,
  table_tags l = map obj_tag l /\ map snd (dt_objs (dtable_build l)) = l.
Proof. exact table_keeps_tags_lemma. Qed.
Print Assumptions object_table_keeps_entries.

Theorem hdiff_with_table_tags : forall f1 f2,
  hdiff_tab_m f1 f2 = hdiff_m f1 f2 /\ hdiff_tab_exit_m f1 f2 = hdiff_exit_m f1 f2.
Proof. exact hdiff_tab_lemma. Qed.
Print Assumptions hdiff_with_table_tags.

(** ** hdp dumpvd (show.c): a Vdata above BUFFER bytes is read in pieces of BUFFER/vsize records; whatever the
    number of pieces and the length of the last one, every record is printed exactly once, in order, and the loop
    ends by itself (regenerated: split test, chunk, loop condition, piece size test, bound of the print loop). *)
Theorem dumpvd_prints_each_record_once : forall nv vsize, 0 <= nv -> 1 <= vsize <= BUFFER ->
  dumpvd_m nv vsize = Some (zseqn 0 (Z.to_nat nv)).
Proof. exact dumpvd_records_lemma. Qed.
Print Assumptions dumpvd_prints_each_record_once.

(** ** hdiff_list.c: a lone dataset / image is entered into the object table unless the table already holds it
    under one of ITS OWN tags -- an object of another kind that happens to carry the same reference number (refs
    are unique per tag only) does not hide it.  (Regenerated: does the "already inserted?" test look at the tag;
    with a ref-only test list_*_checks_tag becomes 0 and the proof fails.) *)
Theorem lone_objects_listed : forall refs tbl r, In r refs ->
  (exists t, In t (DFTAG_NDG :: sds_tags) /\ In (t, r) (list_lone_sds refs tbl)) /\
  (exists t, In t (DFTAG_RI :: gr_tags) /\ In (t, r) (list_lone_gr refs tbl)).
Proof. exact lone_objects_listed_lemma. Qed.
Print Assumptions lone_objects_listed.

(** ** hdp dumpvd -f: the field indices used for a Vdata depend on that Vdata's fields and the chosen names only,
    not on the Vdatas dumped before it (regenerated: the index array is reset inside getFieldIndices). *)
Theorem field_selection_stateless : forall prev vds chosen,
  fields_walk prev vds chosen = map (fun fields => chosen_indices 0 fields chosen) vds.
Proof. exact field_selection_stateless_lemma. Qed.
Print Assumptions field_selection_stateless.

(** ** Round 4.  vdata_cmp reads both Vdatas in the same layout (their interlaces were checked equal) and hdp's
    dumpvd reads record-major, as its print loop walks (regenerated interlace arguments of the VSread calls;
    before the show.c repair of round 4 dumpvd read NO_INTERLACE vdatas field-major and printed them scrambled). *)
Theorem vdata_reads_same_layout : forall il, vs_buffers_same_layout il = true /\
  dumpvd_read_il_ascii il = FULL_INTERLACE /\ dumpvd_read_il_binary il = FULL_INTERLACE.
Proof. exact vdata_reads_same_layout_lemma. Qed.
Print Assumptions vdata_reads_same_layout.

(** lone Vdatas with a non-empty class -- in particular class Attr0.0, the storage of Vdata and Vgroup
    attributes -- are never dropped from hdiff's object table, so their values are compared like any Vdata's
    (regenerated: which comparison of vdata_class[0] guards the reserved-class test of insert_vs) *)
Theorem attribute_vdatas_listed : forall reserved_of_class,
  insert_vs_skips true false false = false /\ insert_vs_skips true true reserved_of_class = false.
Proof. exact attribute_vdatas_listed_lemma. Qed.
Print Assumptions attribute_vdatas_listed.

(** the "different information for attribute" test of diff_sds_attrs (regenerated as a whole) fires exactly when
    type, element count or name differ -- which is the test the model's attribute loop uses, so a changed LENGTH
    of an attribute is a difference even when the common prefix is equal *)
Theorem sds_attr_info_test : forall x y,
  (negb (a_type x =? a_type y) || negb (Z.of_nat (length (a_vals x)) =? Z.of_nat (length (a_vals y))) || negb (zlist_eqb (a_name x) (a_name y)))
  = negb (sds_attr_info_differs (a_type x) (a_type y) (Z.of_nat (length (a_vals x))) (Z.of_nat (length (a_vals y)))
            (if zlist_eqb (a_name x) (a_name y) then 0 else 1) =? 0).
Proof. exact attrs_loop_test_lemma. Qed.
Print Assumptions sds_attr_info_test.

(** ** hdp: sdsdumpfull's start[]/left[] walk visits the rows in row-major order, terminates exactly after the
    last row (the result is not an artefact of the fuel), and the row-major linearisation is its inverse. *)
Theorem dump_order_rowmajor : forall dims, Forall (fun d => 0 < d) dims ->
  owalk (Z.to_nat (zprod dims)) (ostate0 dims) =
  Some (map (fun i => spec_index dims (Z.of_nat i)) (seq 0 (Z.to_nat (zprod dims)))).
Proof. exact dump_order_rowmajor_lemma. Qed.
Print Assumptions dump_order_rowmajor.

Theorem rowmajor_linear : forall dims k, Forall (fun d => 0 < d) dims -> 0 <= k < zprod dims ->
  spec_offset dims (spec_index dims k) = k.
Proof. exact rowmajor_linear_lemma. Qed.
Print Assumptions rowmajor_linear.

(** ** Integer text: the decimal text hdp prints for z, wherever it stands after white space, scans back to z
    (fscanf %d as hdfimport uses it) and the scan stops right behind it. *)
Theorem decimal_text_roundtrip : forall ws z rest, Forall (fun c => is_space c = true) ws -> no_digit_head rest ->
  scan_int (ws ++ fmt_dec z ++ rest) = Some (z, rest).
Proof. exact scan_int_fmt_dec. Qed.
Print Assumptions decimal_text_roundtrip.

(** ... and so does every other spelling fscanf %d accepts for the same number: leading zeros, explicit sign
    (0012, -088, +5).  (With %i instead of %d in gint32 the conversion is unknown to the model and
    import_shape_values no longer checks; zero-padded tokens make the tool itself fail.) *)
Theorem decimal_text_padded : forall zs n, Forall (fun c => c = 48) zs -> 0 <= n ->
  spelled (zs ++ fmt_nat n) n /\ spelled (45 :: zs ++ fmt_nat n) (- n) /\ spelled (43 :: zs ++ fmt_nat n) n.
Proof. exact spelled_padded_lemma. Qed.
Print Assumptions decimal_text_padded.

(** ** hdfimport, TEXT input, integer output types: the dataset has the shape and the values of its input,
    whatever spelling ([spelled]) and white space each token uses. *)
Theorem import_shape_values : forall outbits tag (tp tr tc : token) planes rows cols hdr data tail,
  outbits = 8 \/ outbits = 16 \/ outbits = 32 ->
  length tag = 4%nat -> good_tok tp -> good_tok tr -> good_tok tc -> tval tp = planes -> tval tr = rows -> tval tc = cols ->
  1 <= planes <= 2147483647 -> 2 <= rows <= 2147483647 -> 2 <= cols <= 2147483647 ->
  Forall good_tok hdr -> Forall good_tok data ->
  Z.of_nat (length hdr) = 2 + ((if 1 <? planes then planes else 0) + rows + cols) ->
  Z.of_nat (length data) = planes * rows * cols ->
  Forall (fun t => in_range (fst (import_range outbits)) (snd (import_range outbits)) (tval t)) data ->
  no_digit_head tail ->
  import_m outbits (tag ++ render [tp; tr; tc] ++ render hdr ++ render data ++ tail)
  = Some (spec_import planes rows cols (map tval data)).
Proof. exact import_shape_values_lemma. Qed.
Print Assumptions import_shape_values.

(** * Non-vacuity: the hypotheses are met by concrete, non-trivial states *)
Example ex_ranges : nt_range DFNT_INT8 = Some (-128, 127) /\ nt_range DFNT_UINT16 = Some (0, 65535) /\
  Forall (in_range (-128) 127) [-128; 0; 127] /\ ad_count DFNT_INT8 (opts0 3) [-128; 0; 127] [127; 0; -128] = 2.
Proof. repeat split; try (repeat constructor; unfold in_range; vm_compute; intuition discriminate). Qed.

Example ex_uint8_half_range : array_diff_m DFNT_UINT8 (opts0 2) [0; 200] [128; 72] = (2, [0; 1]).
Proof. vm_compute. reflexivity. Qed.

Example ex_int32_extremes : array_diff_m DFNT_INT32 (opts0 3) [0; -1073741824; -2147483648] [-2147483648; 1073741824; 2147483647] = (3, [0; 1; 2]).
Proof. vm_compute. reflexivity. Qed.

Definition ex_file1 : file :=
  mkfile [mkattr [116] 4 [97; 98]; mkattr [110] 24 [7]]
         [mkobj [103] BVg; mkobj [105] (BGr 21 2 2 1 [1; 2; 3; 4]); mkobj [115] (BSds 20 [2; 2] [-128; 0; 1; 127] [mkattr [117] 22 [5]]);
          mkobj [118] (BVd 2 [([120], (22, 1))] [5; 6])].
Definition ex_file2 : file :=
  mkfile [mkattr [116] 4 [97; 98]; mkattr [110] 24 [7]]
         [mkobj [103] BVg; mkobj [105] (BGr 21 2 2 1 [1; 2; 3; 5]); mkobj [115] (BSds 20 [2; 2] [127; 0; 1; 127] [mkattr [117] 22 [5]])].

Example ex_files : NoDup (map a_name (f_gattrs ex_file1)) /\ hdiff_m ex_file1 ex_file1 = 0 /\
  hdiff_m ex_file1 ex_file2 = 2 /\ hdiff_m ex_file2 ex_file1 = 2 /\ spec_exit ex_file1 ex_file2 = 1 /\
  In (Only1 (mkobj [118] (BVd 2 [([120], (22, 1))] [5; 6]))) (cmatch (f_objs ex_file1) (f_objs ex_file2)).
Proof.
  split; [repeat constructor; simpl; intuition discriminate|].
  repeat split; try (vm_compute; reflexivity). simpl. tauto.
Qed.

Example ex_walk : Forall (fun d => 0 < d) [2; 3] /\
  owalk (Z.to_nat (zprod [2; 3])) (ostate0 [2; 3]) = Some [[0; 0]; [0; 1]; [0; 2]; [1; 0]; [1; 1]; [1; 2]] /\
  dump_sds_m [2; 2; 2] [1; 2; 3; 4; 5; 6; 7; 8] = Some [1; 2; 3; 4; 5; 6; 7; 8].
Proof. split; [repeat constructor|]. split; vm_compute; reflexivity. Qed.

Example ex_text : fmt_dec (-2147483648) = [45; 50; 49; 52; 55; 52; 56; 51; 54; 52; 56] /\
  scan_int ([32; 10] ++ fmt_dec (-128) ++ [32; 55]) = Some (-128, [32; 55]) /\
  hdp_print DFNT_UINT16 65535 = Some [54; 53; 53; 51; 53] /\ hdp_print DFNT_INT8 (-7) = Some [45; 55].
Proof. repeat split; vm_compute; reflexivity. Qed.

Example ex_import : good_tok (canon [10] 2) /\ good_tok ([32; 32], ([48; 48; 49; 50], 12)) /\
  import_m 32 ([84; 69; 88; 84] ++ render [canon [10] 1; canon [32] 2; ([32], ([43; 48; 50], 2))]
              ++ render [canon [10] 127; canon [32] (-128); canon [10] 0; canon [32] 1; canon [32] 0; canon [32] 1]
              ++ render [([10], ([45; 48; 56; 56], -88)); ([32; 32], ([48; 48; 49; 50], 12)); canon [10] 7; ([32], ([48; 57], 9))] ++ [10])
  = Some ([2; 2], [-88; 12; 7; 9]).
Proof.
  split; [split; [split; [discriminate | repeat constructor] | apply spelled_canonical]|].
  split; [split; [split; [discriminate | repeat constructor]|]|].
  - exact (proj1 (decimal_text_padded [48; 48] 12 ltac:(repeat constructor) ltac:(lia))).
  - vm_compute. reflexivity.
Qed.

Definition ex_file3 : file :=
  mkfile [mkattr [110] 24 [7]; mkattr [116] 4 [97; 99]]
         [mkobj [103] BVg; mkobj [105] (BGr 21 2 2 1 [1; 2; 3; 4]); mkobj [115] (BSds 16404 [2; 2] [-128; 0; 1; 126] [mkattr [117] 22 [6]]);
          mkobj [118] (BVd 2 [([120], (22, 1))] [5; 6])].
Definition ex_file1' : file :=
  mkfile (f_gattrs ex_file1)
         [mkobj [103] BVg; mkobj [105] (BGr 21 2 2 1 [1; 2; 3; 4]); mkobj [115] (BSds 16404 [2; 2] [-128; 0; 1; 127] [mkattr [117] 22 [5]]);
          mkobj [118] (BVd 2 [([120], (22, 1))] [5; 6])].

Example ex_comparable : comparable ex_file1' ex_file3 /\ hdiff_m ex_file1' ex_file3 = 3 /\ same_content ex_file1' ex_file3 = false /\
  comparable ex_file1' ex_file1' /\ hdiff_m ex_file1' ex_file1' = 0.
Proof.
  assert (D : forall v, Forall (in_range (-128) 127) v -> elem_domain 16404 v).
  { intros v H. left. exists (-128), 127. split; [reflexivity | assumption]. }
  assert (D8 : forall v, Forall (in_range 0 255) v -> elem_domain 21 v).
  { intros v H. left. exists 0, 255. split; [reflexivity | assumption]. }
  assert (R : forall lo hi l, forallb (fun v => (lo <=? v) && (v <=? hi)) l = true -> Forall (in_range lo hi) l).
  { intros lo hi l H. apply Forall_forall. intros x Hx. rewrite forallb_forall in H. specialize (H x Hx).
    apply andb_true_iff in H. destruct H as [A B]. apply Z.leb_le in A, B. split; assumption. }
  assert (ND : NoDup (map a_name (f_gattrs ex_file1))) by (repeat constructor; simpl; intuition discriminate).
  assert (ND3 : NoDup (map a_name (f_gattrs ex_file3))) by (repeat constructor; simpl; intuition discriminate).
  split; [|split; [vm_compute; reflexivity|split; [vm_compute; reflexivity|split; [|vm_compute; reflexivity]]]].
  - split; [reflexivity|]. split; [|split; assumption].
    repeat constructor; cbn [o_body comparable_body]; try tauto;
      repeat split; try reflexivity; try discriminate; try (apply D, R; reflexivity); try (apply D8, R; reflexivity);
      try (vm_compute; discriminate);
      try (exists 0, 255; split; [reflexivity | apply R; reflexivity]);
      try (exists (-128), 127; split; [reflexivity | apply R; reflexivity]).
  - split; [reflexivity|]. split; [|split; assumption].
    repeat constructor; cbn [o_body comparable_body]; try tauto;
      repeat split; try reflexivity; try discriminate; try (apply D, R; reflexivity); try (apply D8, R; reflexivity);
      try (vm_compute; discriminate);
      try (exists 0, 255; split; [reflexivity | apply R; reflexivity]);
      try (exists (-128), 127; split; [reflexivity | apply R; reflexivity]).
Qed.

(** the hypotheses of array_diff_float_own_width are satisfiable (exact arithmetic as the value domain) *)
Example ex_float_hypotheses :
  (forall a b : Z, feval Z Z.sub Z.abs (fun _ x => x) adf64_diff a b = 0 <-> a = b) /\
  ad_kind DFNT_FLOAT32 = ADFloat /\ ad_kind (Z.lor DFNT_LITEND DFNT_FLOAT64) = ADFloat /\
  array_diff_m DFNT_FLOAT64 (opts0 2) [4338; 4607182418800017408] [4339; 4607182418800017408] = (1, [0]).
Proof.
  split.
  - intros a b.
    refine (proj2 (array_diff_float_own_width Z Z.sub Z.abs 0 (fun _ x => x) (fun _ _ => True) _ _ _ _ _) a b I I).
    + intros; split; intros; lia.
    + intros; split; intros; lia.
    + reflexivity.
    + exact (fun _ _ => I).
    + exact (fun _ _ _ => I).
  - repeat split; vm_compute; reflexivity.
Qed.

Example ex_table_growth :
  let l := map (fun k => mkobj [111; 48 + k] (BSds 24 [1] [k] [])) [0; 1; 2; 3; 4; 5; 6; 7; 8; 9; 10; 11; 12; 13; 14; 15; 16; 17; 18; 19; 20; 21] in
  dt_size (dtable_build l) = 40 /\ table_tags l = map (fun _ => 720) l.
Proof. vm_compute. split; reflexivity. Qed.

Example ex_dumpvd_pieces : dumpvd_m 9 400000 = Some [0; 1; 2; 3; 4; 5; 6; 7; 8] /\ dumpvd_chunk 400000 = 2 /\
  dumpvd_m 3 12 = Some [0; 1; 2].
Proof. vm_compute. repeat split; reflexivity. Qed.

Example ex_lone_listing :
  (* an image with ref 2 is in the table; the lone SDS with ref 2 is still listed *)
  list_lone_sds [2] [(DFTAG_RI, 1); (DFTAG_RI, 2)] = [(DFTAG_RI, 1); (DFTAG_RI, 2); (DFTAG_NDG, 2)] /\
  list_lone 0 sds_tags DFTAG_NDG [2] [(DFTAG_RI, 1); (DFTAG_RI, 2)] = [(DFTAG_RI, 1); (DFTAG_RI, 2)].
Proof. vm_compute. split; reflexivity. Qed.

Example ex_field_selection :
  fields_walk [] [[[105; 100]; [116]; [99]]; [[105; 100]; [108; 97]; [108; 111]]] [[105; 100]; [99]] = [[0; 2]; [0]].
Proof. vm_compute. reflexivity. Qed.
