(** C12 -- implementation model M of the DD directory (hdf/src/hfiledd.c, with the H-level callers in hfile.c).

    What is modelled, as the C code performs it:
      - DD blocks of ndds slots (kept concatenated: slot position p = block p/ndds, index p mod ndds; the
        nested block/idx loops of the C become scans of the concatenation);
      - HTPinit, HTPstart (re-parse of the disk image), HTPsync, HTPcreate, HTPselect, HTPdelete, HTPupdate,
        HTIupdate_dd (write-through or deferred, per cache mode), HTInew_dd_block (both cache modes),
        HTIfind_dd (exact lookups through the tag tree; wildcard scans in both directions; the DFTAG_NULL
        cursor ddnull/ddnull_idx), HTIcount_dd (incl. the odd/even unrolled loop), HTIregister_tag_ref /
        HTIunregister_tag_ref over the tag tree (an association list base tag -> bit-vector + ref dynarray),
        Hdupdd, Hdeldd, HDreuse_tagref, Hnumber, Hfind, Hexist, HDcheck_tagref, Hnewref, Htagnewref;
      - Hputelement / Hlength as the sequence of HTP calls Hstartaccess, Hsetlength and Hwrite make;
      - Hcache, HIsync, Hclose (sync) and Hopen of an existing file (HTPstart).
    The disk is modelled at DD granularity: per block a header (written or not, link to a next block or not)
    and per slot the last DD written there (None = never written: reads back as zero bytes).  Byte offsets
    of blocks and elements are abstracted (an element offset is INVALID_OFFSET or the token 0).
    The order of the steps of HTPdelete is taken from the generated HTPdelete_calls.
    No proofs here (model file). *)
From Coq Require Import ZArith List Bool.
Require Import H4.gen.Gen_DD H4.DDBvModel H4.DDSpec.
Import ListNotations.
Local Open Scope Z_scope.

Record dd := mkdd { d_tag : Z; d_ref : Z; d_off : Z; d_len : Z }.
Definition nil_dd : dd := mkdd DFTAG_NULL DFREF_NONE INVALID_OFFSET INVALID_LENGTH.
Definition zero_dd : dd := mkdd 0 0 0 0.          (* what never-written file bytes decode to *)
Definition VALID_OFFSET : Z := 0.                 (* abstract token for "allocated somewhere in the file" *)

Record tinfo := mkti { ti_bv : bv; ti_da : list (Z * nat) }.   (* ref bit-vector; dynarray ref -> slot *)

Record mst := mkst {
  m_ndds : Z;                        (* ddhead->ndds *)
  m_slots : list dd;                 (* all DD blocks, concatenated *)
  m_bdirty : list bool;              (* per block: dirty *)
  m_dhdr : list (option bool);       (* disk, per block: header never written / written with link-to-next flag *)
  m_dslots : list (option dd);       (* disk, per slot *)
  m_tree : list (Z * tinfo);         (* tag tree, keyed by base tag *)
  m_null : option nat;               (* ddnull/ddnull_idx: position of the last DFTAG_NULL slot handed out *)
  m_maxref : Z;
  m_cache : bool;
  m_fdirty : bool                    (* file_rec->dirty & DDLIST_DIRTY *)
}.

(* ---------- small list helpers ---------- *)
Fixpoint upd {A} (l : list A) (n : nat) (v : A) : list A :=
  match l, n with
  | [], _ => []
  | _ :: l', O => v :: l'
  | x :: l', S n' => x :: upd l' n' v
  end.
Definition slot (st : mst) (p : nat) : dd := nth p (m_slots st) nil_dd.
Definition nddsn (st : mst) : nat := Z.to_nat (m_ndds st).
Definition blk_of (st : mst) (p : nat) : nat := Nat.div p (nddsn st).

(* first position >= start (counting from i) whose DD satisfies f *)
Fixpoint find_fwd (f : dd -> bool) (l : list dd) (i start : nat) : option nat :=
  match l with
  | [] => None
  | d :: l' => if (start <=? i)%nat && f d then Some i else find_fwd f l' (S i) start
  end.
(* last position < bound whose DD satisfies f: the descending scan of the C, run on the reversed list *)
Definition find_bwd (f : dd -> bool) (l : list dd) (bound : nat) : option nat :=
  let n := length l in
  match find_fwd f (rev l) 0 (n - bound) with
  | Some j => Some (n - 1 - j)%nat
  | None => None
  end.

(* ---------- tag tree and dynarray (association lists) ---------- *)
Fixpoint tt_find (t : list (Z * tinfo)) (k : Z) : option tinfo :=
  match t with [] => None | (k', v) :: t' => if k' =? k then Some v else tt_find t' k end.
Fixpoint tt_set (t : list (Z * tinfo)) (k : Z) (v : tinfo) : list (Z * tinfo) :=
  match t with
  | [] => [(k, v)]
  | (k', v') :: t' => if k' =? k then (k, v) :: t' else (k', v') :: tt_set t' k v
  end.
Fixpoint da_get (d : list (Z * nat)) (r : Z) : option nat :=
  match d with [] => None | (r', p) :: d' => if r' =? r then Some p else da_get d' r end.
Definition da_del (d : list (Z * nat)) (r : Z) : list (Z * nat) := filter (fun x => negb (fst x =? r)) d.
Definition da_set (d : list (Z * nat)) (r : Z) (p : nat) : list (Z * nat) := (r, p) :: da_del d r.

(* ---------- HTIregister_tag_ref / HTIunregister_tag_ref ---------- *)
Definition REF_BITS0 : option bv :=      (* bv_new(-1) then bit 0 set ("ref 0 cannot be stored") *)
  match bv_new (-1) with Some b => bv_set b 0 BV_TRUE | None => None end.

Definition register_tag_ref (tree : list (Z * tinfo)) (tag ref : Z) (p : nat) : option (list (Z * tinfo)) :=
  let base := BASETAG tag in
  let start :=
    match tt_find tree base with
    | None => match REF_BITS0 with Some b => Some (mkti b []) | None => None end
    | Some ti => if bv_get (ti_bv ti) ref =? BV_TRUE then None (* DFE_DUPDD *) else Some ti
    end in
  match start with
  | None => None
  | Some ti =>
      match bv_set (ti_bv ti) ref BV_TRUE with
      | None => None
      | Some b => Some (tt_set tree base (mkti b (da_set (ti_da ti) ref p)))
      end
  end.

Definition unregister_tag_ref (tree : list (Z * tinfo)) (tag ref : Z) : option (list (Z * tinfo)) :=
  let base := BASETAG tag in
  match tt_find tree base with
  | None => None
  | Some ti =>
      if bv_get (ti_bv ti) ref =? BV_FALSE then None else
      match bv_set (ti_bv ti) ref BV_FALSE with
      | None => None
      | Some b =>
          match da_get (ti_da ti) ref with
          | None => None
          | Some _ => Some (tt_set tree base (mkti b (da_del (ti_da ti) ref)))
          end
      end
  end.

(* ---------- HTIfind_dd ---------- *)
(* exact lookup (tag and ref both given): through the tag tree *)
Definition find_exact (st : mst) (t r : Z) : option nat :=
  match tt_find (m_tree st) (BASETAG t) with
  | None => None
  | Some ti => da_get (ti_da ti) r
  end.

(* the per-DD tests of the forward wildcard loops (look_tag <> DFTAG_NULL branches) *)
Definition match_fwd (lt lr : Z) (d : dd) : bool :=
  let sp := MKSPECIALTAG lt in
  if (lt =? DFTAG_WILDCARD) && (lr =? DFREF_WILDCARD) then negb (d_tag d =? DFTAG_NULL)
  else if lt =? DFTAG_WILDCARD then negb (d_tag d =? DFTAG_NULL) && (d_ref d =? lr)
  else if sp =? DFTAG_NULL then
    negb ((d_tag d =? DFTAG_NULL) && negb (lt =? DFTAG_NULL)) && (d_tag d =? lt)
  else
    negb ((d_tag d =? DFTAG_NULL) && negb (lt =? DFTAG_NULL)) && ((d_tag d =? lt) || (d_tag d =? sp)).
(* the test of the single backward loop *)
Definition match_bwd (lt lr : Z) (d : dd) : bool :=
  let sp := MKSPECIALTAG lt in
  negb ((d_tag d =? DFTAG_NULL) && negb (lt =? DFTAG_NULL)) &&
  (((lt =? DFTAG_WILDCARD) || (d_tag d =? lt)) || (negb (sp =? DFTAG_NULL) && (d_tag d =? sp))) &&
  ((lr =? DFREF_WILDCARD) || (d_ref d =? lr)).

(* quick lookup of an empty DD from the ddnull cursor; updates the cursor when found *)
Definition find_null (st : mst) : mst * option nat :=
  let start := match m_null st with None => O | Some p => S p end in
  match find_fwd (fun d => d_tag d =? DFTAG_NULL) (m_slots st) 0 start with
  | Some p => (mkst (m_ndds st) (m_slots st) (m_bdirty st) (m_dhdr st) (m_dslots st) (m_tree st) (Some p)
                    (m_maxref st) (m_cache st) (m_fdirty st), Some p)
  | None => (st, None)
  end.

(* HTIfind_dd for searches with at least one wildcard and look_tag <> DFTAG_NULL; pdd = current position *)
Definition find_wild (st : mst) (lt lr : Z) (pdd : option nat) (dir : Z) : option nat :=
  if dir =? DF_FORWARD then
    find_fwd (match_fwd lt lr) (m_slots st) 0 (match pdd with None => O | Some p => S p end)
  else if dir =? DF_BACKWARD then
    find_bwd (match_bwd lt lr) (m_slots st) (match pdd with None => length (m_slots st) | Some p => p end)
  else None.

Definition htifind_dd (st : mst) (lt lr : Z) (pdd : option nat) (dir : Z) : option nat :=
  if negb (lt =? DFTAG_WILDCARD) && negb (lr =? DFTAG_WILDCARD) then find_exact st lt lr
  else find_wild st lt lr pdd dir.

(* ---------- HTIupdate_dd, HTInew_dd_block, HTPsync ---------- *)
Definition set_slots (st : mst) (s : list dd) : mst :=
  mkst (m_ndds st) s (m_bdirty st) (m_dhdr st) (m_dslots st) (m_tree st) (m_null st) (m_maxref st) (m_cache st) (m_fdirty st).
Definition set_tree (st : mst) (t : list (Z * tinfo)) : mst :=
  mkst (m_ndds st) (m_slots st) (m_bdirty st) (m_dhdr st) (m_dslots st) t (m_null st) (m_maxref st) (m_cache st) (m_fdirty st).
Definition set_null (st : mst) (c : option nat) : mst :=
  mkst (m_ndds st) (m_slots st) (m_bdirty st) (m_dhdr st) (m_dslots st) (m_tree st) c (m_maxref st) (m_cache st) (m_fdirty st).
Definition set_maxref (st : mst) (r : Z) : mst :=
  mkst (m_ndds st) (m_slots st) (m_bdirty st) (m_dhdr st) (m_dslots st) (m_tree st) (m_null st) r (m_cache st) (m_fdirty st).

Definition update_dd (st : mst) (p : nat) : mst :=
  if m_cache st then
    mkst (m_ndds st) (m_slots st) (upd (m_bdirty st) (blk_of st p) true) (m_dhdr st) (m_dslots st) (m_tree st)
         (m_null st) (m_maxref st) (m_cache st) true
  else
    mkst (m_ndds st) (m_slots st) (m_bdirty st) (m_dhdr st) (upd (m_dslots st) p (Some (slot st p))) (m_tree st)
         (m_null st) (m_maxref st) (m_cache st) (m_fdirty st).

Definition new_dd_block (st : mst) : mst :=
  let n := nddsn st in
  let last := (length (m_bdirty st) - 1)%nat in
  if m_cache st then
    (* header and NIL DDs of the new block are written now; the link field of the previously last header
       waits for HTPsync (both blocks are marked dirty) *)
    mkst (m_ndds st) (m_slots st ++ repeat nil_dd n) (upd (m_bdirty st) last true ++ [true])
         (m_dhdr st ++ [Some false]) (m_dslots st ++ repeat (Some nil_dd) n) (m_tree st) (m_null st) (m_maxref st)
         (m_cache st) true
  else
    (* header of the new block, its NIL DDs, and the link field of the previously last header *)
    mkst (m_ndds st) (m_slots st ++ repeat nil_dd n) (m_bdirty st ++ [false])
         (upd (m_dhdr st) last (match nth last (m_dhdr st) None with Some _ => Some true | None => None end) ++ [Some false])
         (m_dslots st ++ repeat (Some nil_dd) n) (m_tree st) (m_null st) (m_maxref st) (m_cache st) (m_fdirty st).

(* write one block (header + all its DDs) if dirty *)
Fixpoint sync_blocks (n : nat) (k nblk : nat) (dirty : list bool) (slots : list dd)
         (dhdr : list (option bool)) (dslots : list (option dd)) : list (option bool) * list (option dd) :=
  match dirty, dhdr with
  | dty :: dirty', h :: dhdr' =>
      let '(hs, ds) := sync_blocks n (S k) nblk dirty' (skipn n slots) dhdr' (skipn n dslots) in
      if dty then (Some (negb (S k =? nblk)%nat) :: hs, map Some (firstn n slots) ++ ds)
      else (h :: hs, firstn n dslots ++ ds)
  | _, _ => ([], [])
  end.

Definition htpsync (st : mst) : mst :=
  let '(hs, ds) := sync_blocks (nddsn st) 0 (length (m_bdirty st)) (m_bdirty st) (m_slots st) (m_dhdr st) (m_dslots st) in
  mkst (m_ndds st) (m_slots st) (map (fun _ => false) (m_bdirty st)) hs ds (m_tree st) (m_null st) (m_maxref st)
       (m_cache st) (m_fdirty st).

Definition hisync (st : mst) : mst :=
  if m_cache st && m_fdirty st then
    let st' := htpsync st in
    mkst (m_ndds st') (m_slots st') (m_bdirty st') (m_dhdr st') (m_dslots st') (m_tree st') (m_null st')
         (m_maxref st') (m_cache st') false
  else st.

Definition hcache (st : mst) (b : bool) : mst :=
  let st1 := if negb b && m_cache st then hisync st else st in
  mkst (m_ndds st1) (m_slots st1) (m_bdirty st1) (m_dhdr st1) (m_dslots st1) (m_tree st1) (m_null st1)
       (m_maxref st1) b (m_fdirty st1).

(* ---------- HTPcreate / HTPdelete / HTPupdate ---------- *)
Definition set_dd (st : mst) (p : nat) (d : dd) : mst := set_slots st (upd (m_slots st) p d).

(* returns the state the C leaves behind and, on success, the position of the new DD *)
Definition htpcreate (st : mst) (tag ref : Z) : mst * option nat :=
  if (tag =? DFTAG_NULL) || (tag =? DFTAG_WILDCARD) || (ref =? DFREF_WILDCARD) then (st, None) else
  match htifind_dd st tag ref None DF_FORWARD with
  | Some _ => (st, None)                                  (* already in use: DFE_DUPDD *)
  | None =>
      let '(st1, found) := find_null st in
      let '(st2, p) := match found with
                       | Some p => (st1, p)
                       | None => (new_dd_block st1, length (m_slots st1))
                       end in
      let st3 := set_dd st2 p (mkdd tag ref INVALID_OFFSET INVALID_LENGTH) in
      let st4 := update_dd st3 p in
      match register_tag_ref (m_tree st4) tag ref p with
      | None => (st4, None)
      | Some tr =>
          let st5 := set_tree st4 tr in
          (if m_maxref st5 <? ref then set_maxref st5 ref else st5, Some p)
      end
  end.

(* HTPselect: tag/ref -> position *)
Definition htpselect (st : mst) (tag ref : Z) : option nat :=
  if (tag =? DFTAG_NULL) || (tag =? DFTAG_WILDCARD) || (ref =? DFREF_WILDCARD) then None
  else find_exact st tag ref.

(* one step of HTPdelete, by its code in Gen_DD.HTPdelete_calls:
   0 HPfreediskblock (does nothing), 1 HTIupdate_dd, 2 HTIunregister_tag_ref (also clears the tag), 3 HAremove_atom *)
Definition htpdelete_step (p : nat) (acc : option mst) (code : Z) : option mst :=
  match acc with
  | None => None
  | Some st =>
      if code =? 1 then Some (update_dd st p)
      else if code =? 2 then
        match unregister_tag_ref (m_tree st) (d_tag (slot st p)) (d_ref (slot st p)) with
        | None => None
        | Some tr =>
            let d := slot st p in
            Some (set_dd (set_tree st tr) p (mkdd DFTAG_NULL (d_ref d) (d_off d) (d_len d)))
        end
      else Some st
  end.
Definition htpdelete (st : mst) (p : nat) : option mst :=
  fold_left (htpdelete_step p) HTPdelete_calls (Some (set_null st None)).

Definition htpupdate (st : mst) (p : nat) (new_off new_len : Z) : mst :=
  let d := slot st p in
  let d1 := mkdd (d_tag d) (d_ref d) (d_off d) (if new_len =? -2 then d_len d else new_len) in
  let d2 := mkdd (d_tag d1) (d_ref d1) (if new_off =? -2 then d_off d1 else new_off) (d_len d1) in
  update_dd (set_dd st p d2) p.

(* ---------- HTIcount_dd ---------- *)
Definition b2z (b : bool) : Z := if b then 1 else 0.
Fixpoint blocks_of (fuel n : nat) (l : list dd) : list (list dd) :=
  match fuel with
  | O => []
  | S f => match l with [] => [] | _ => firstn n l :: blocks_of f n (skipn n l) end
  end.
Definition count_simple (f : dd -> bool) (blk : list dd) : Z := fold_right (fun d a => b2z (f d) + a) 0 blk.
(* for (; idx < ndds; idx++, dd_ptr++) { test; idx++; dd_ptr++; test; }   None = read past the block *)
Fixpoint count_pairs (f : dd -> bool) (blk : list dd) : option Z :=
  match blk with
  | [] => Some 0
  | [_] => None
  | a :: b :: blk' => match count_pairs f blk' with Some c => Some (b2z (f a) + b2z (f b) + c) | None => None end
  end.
Definition count_unrolled (f : dd -> bool) (blk : list dd) : option Z :=
  if Nat.odd (length blk) then
    match blk with
    | a :: blk' => match count_pairs f blk' with Some c => Some (b2z (f a) + c) | None => None end
    | [] => Some 0
    end
  else count_pairs f blk.

Definition sum_opt (l : list (option Z)) : option Z :=
  fold_right (fun x a => match x, a with Some x, Some a => Some (x + a) | _, _ => None end) (Some 0) l.

Definition hticount_dd (st : mst) (ct cr : Z) : option Z :=
  let sp := MKSPECIALTAG ct in
  let blks := blocks_of (length (m_slots st)) (nddsn st) (m_slots st) in
  let refok (d : dd) := (cr =? DFREF_WILDCARD) || (d_ref d =? cr) in
  if ct =? DFTAG_WILDCARD then
    sum_opt (map (fun b => Some (count_simple (fun d => negb ((d_tag d =? DFTAG_NULL) || (d_tag d =? DFTAG_FREE)) && refok d) b)) blks)
  else if (ct =? DFTAG_NULL) || (ct =? DFTAG_FREE) then
    sum_opt (map (fun b => Some (count_simple (fun d => ((d_tag d =? ct) || (negb (sp =? DFTAG_NULL) && (d_tag d =? sp))) && refok d) b)) blks)
  else if sp =? DFTAG_NULL then
    sum_opt (map (fun b => Some (count_simple (fun d => (d_tag d =? ct) && refok d) b)) blks)
  else if cr =? DFREF_WILDCARD then
    sum_opt (map (count_unrolled (fun d => (d_tag d =? ct) || (d_tag d =? sp))) blks)
  else
    sum_opt (map (fun b => Some (count_simple (fun d => ((d_tag d =? ct) || (d_tag d =? sp)) && (d_ref d =? cr)) b)) blks).

(* ---------- Hnewref / Htagnewref ---------- *)
Fixpoint first_free_ref (st : mst) (fuel : nat) (r : Z) : Z :=
  match fuel with
  | O => 0
  | S f => match htifind_dd st DFTAG_WILDCARD r None DF_FORWARD with
           | None => r
           | Some _ => first_free_ref st f (r + 1)
           end
  end.
Definition hnewref (st : mst) : mst * Z :=
  if m_maxref st <? MAX_REF then (set_maxref st (m_maxref st + 1), m_maxref st + 1)
  else (st, first_free_ref st (Z.to_nat MAX_REF) 1).

Definition htagnewref (st : mst) (tag : Z) : mst * Z :=
  let base := BASETAG tag in
  match tt_find (m_tree st) base with
  | None => (st, 1)
  | Some ti =>
      match bv_find_next_zero (ti_bv ti) with
      | None => (st, 0)
      | Some (b, next) =>
          let st' := set_tree st (tt_set (m_tree st) base (mkti b (ti_da ti))) in
          if MAX_REF <? next then (st', 0) else (st', next)
      end
  end.

(* ---------- Hfind iteration ---------- *)
(* one Hfind call: (find_tag, find_ref) in/out *)
Definition hfind (st : mst) (stag sref ftag fref dir : Z) : option nat :=
  let cur :=
    if negb (fref =? 0) || negb (ftag =? 0) then
      match htifind_dd st ftag fref None dir with Some p => Some (Some p) | None => None end
    else Some None in
  match cur with
  | None => None
  | Some pdd => htifind_dd st stag sref pdd dir
  end.

Definition dd_triple (d : dd) : Z * Z * Z := (d_tag d, d_ref d, d_len d).

Fixpoint findall (st : mst) (fuel : nat) (stag sref ftag fref dir : Z) : list (Z * Z * Z) :=
  match fuel with
  | O => []
  | S f =>
      match hfind st stag sref ftag fref dir with
      | None => []
      | Some p =>
          let d := slot st p in
          dd_triple d ::
          (if negb (stag =? 0) && negb (sref =? 0) then [] else findall st f stag sref (d_tag d) (d_ref d) dir)
      end
  end.

(* ---------- Hstartaccess-based operations ---------- *)
Definition is_special_dd (d : dd) : bool := negb (SPECIALTAG (d_tag d) =? 0).

(* Hputelement(tag, ref, len): Hstartwrite (Hstartaccess + Hsetlength for a new element), Hwrite, Hendaccess *)
Definition hputelement (st : mst) (tag ref len : Z) : mst * res :=
  let t := BASETAG tag in
  match hfind st t ref 0 0 DF_FORWARD with
  | Some p0 =>
      let d0 := slot st p0 in
      match htpselect st (d_tag d0) (d_ref d0) with
      | None => (st, RFail)
      | Some p =>
          let d := slot st p in
          if is_special_dd d then (st, RNoDomain) else  (* special element: handled by its own layer *)
          let st1 := if m_maxref st <? d_ref d0 then set_maxref st (d_ref d0) else st in
          if (d_off d0 =? INVALID_OFFSET) && (d_len d0 =? INVALID_LENGTH) then
            (htpupdate st1 p VALID_OFFSET len, ROk)              (* treated as new: Hsetlength *)
          else if d_len d <? len then (st1, RFail)             (* write past the end of a fixed element *)
          else (st1, ROk)
      end
  | None =>
      match htpselect st t ref with
      | Some _ => (st, RFail)
      | None =>
          match htpcreate st t ref with
          | (st1, None) => (st1, RFail)
          | (st1, Some p) =>
              let st2 := if m_maxref st1 <? ref then set_maxref st1 ref else st1 in
              (htpupdate st2 p VALID_OFFSET len, ROk)
          end
      end
  end.

(* Hlength(tag, ref): Hstartread + HQuerylength *)
Definition hlength (st : mst) (tag ref : Z) : mst * res :=
  let t := BASETAG tag in
  match hfind st t ref 0 0 DF_FORWARD with
  | None => (st, RVal FAIL)
  | Some p0 =>
      let d0 := slot st p0 in
      match htpselect st (d_tag d0) (d_ref d0) with
      | None => (st, RVal FAIL)
      | Some p =>
          if is_special_dd (slot st p) then (st, RNoDomain) else
          ((if m_maxref st <? d_ref d0 then set_maxref st (d_ref d0) else st), RVal (d_len (slot st p)))
      end
  end.

Definition hdupdd (st : mst) (nt nr ot or_ : Z) : mst * res :=
  match htpselect st ot or_ with
  | None => (st, RFail)
  | Some po =>
      (* a special element is duplicated as a special element *)
      let nt' := if is_special_dd (slot st po) && (SPECIALTAG nt =? 0) then MKSPECIALTAG nt else nt in
      if is_special_dd (slot st po) && (SPECIALTAG nt =? 0) && (nt' =? DFTAG_NULL) then (st, RFail) else
      match htpcreate st nt' nr with
      | (st1, None) => (st1, RFail)
      | (st1, Some pn) => (htpupdate st1 pn (d_off (slot st1 po)) (d_len (slot st1 po)), ROk)
      end
  end.

Definition hdeldd (st : mst) (t r : Z) : mst * res :=
  if (t =? DFTAG_WILDCARD) || (r =? DFREF_WILDCARD) then (st, RFail) else
  match htpselect st t r with
  | None => (st, RFail)
  | Some p => match htpdelete st p with Some st' => (st', ROk) | None => (st, RFail) end
  end.

Definition hdreuse (st : mst) (t r : Z) : mst * res :=
  if (t =? DFTAG_WILDCARD) || (r =? DFREF_WILDCARD) then (st, RFail) else
  match htpselect st t r with
  | None => (st, RFail)
  | Some p => if is_special_dd (slot st p) then (st, RNoDomain)
              else (htpupdate st p INVALID_OFFSET INVALID_LENGTH, ROk)
  end.

(* ---------- Hopen (create), Hclose + Hopen (existing file) ---------- *)
Definition htpinit (ndds : Z) : mst :=
  let n := if ndds =? 0 then DEF_NDDS else if ndds <? MIN_NDDS then MIN_NDDS else ndds in
  mkst n (repeat nil_dd (Z.to_nat n)) [false] [Some false] (repeat (Some nil_dd) (Z.to_nat n)) [] None 0 true false.

Definition hopen_create (ndds : Z) : option mst :=
  if ndds <? 0 then None else
  (* caching defaults to on (default_cache); then HIupdate_version writes the version descriptor *)
  match hputelement (htpinit ndds) DFTAG_VERSION 1 LIBVER_LEN with
  | (st, ROk) => Some st
  | _ => None
  end.

(* HTPstart: walk the chain of DD blocks on disk *)
Fixpoint read_blocks (n : nat) (dhdr : list (option bool)) (dslots : list (option dd)) : option (list dd * nat) :=
  match dhdr with
  | [] => None                                   (* link to a block that is not there *)
  | None :: _ => None                            (* header reads as ndds = 0: DFE_CORRUPT *)
  | Some nx :: dhdr' =>
      let here := map (fun o => match o with Some d => d | None => zero_dd end) (firstn n dslots) in
      if nx then
        match read_blocks n dhdr' (skipn n dslots) with
        | Some (rest, k) => Some (here ++ rest, S k)
        | None => None
        end
      else Some (here, 1%nat)
  end.

Fixpoint register_all (tree : list (Z * tinfo)) (l : list dd) (p : nat) : option (list (Z * tinfo)) :=
  match l with
  | [] => Some tree
  | d :: l' =>
      if d_tag d =? DFTAG_NULL then register_all tree l' (S p)
      else match register_tag_ref tree (d_tag d) (d_ref d) p with
           | Some tr => register_all tr l' (S p)
           | None => None
           end
  end.

Definition htpstart (st : mst) : option mst :=
  match read_blocks (nddsn st) (m_dhdr st) (m_dslots st) with
  | None => None
  | Some (slots, nblk) =>
      match register_all [] slots 0 with
      | None => None
      | Some tr =>
          Some (mkst (m_ndds st) slots (repeat false nblk) (firstn nblk (m_dhdr st))
                     (firstn (nblk * nddsn st) (m_dslots st)) tr None
                     (fold_left (fun a d => Z.max a (d_ref d)) slots 0) true false)
      end
  end.

Definition hreopen (st : mst) : option mst := htpstart (hisync st).

(* ---------- one operation of a history ---------- *)
Definition m_step (st : mst) (o : op) : mst * res :=
  match o with
  | OOpen n => match hopen_create n with Some st' => (st', ROk) | None => (st, RFail) end
  | OReopen => match hreopen st with Some st' => (st', ROk) | None => (st, RFail) end
  | OCache b => (hcache st (negb (b =? 0)), ROk)
  | OSync => (hisync st, ROk)
  | OPut t r l => hputelement st t r l
  | ODup nt nr ot or_ => hdupdd st nt nr ot or_
  | ODel t r => hdeldd st t r
  | OReuse t r => hdreuse st t r
  | ONewref _ => let '(st', v) := hnewref st in (st', RVal v)
  | OTagnewref t _ => let '(st', v) := htagnewref st t in (st', RVal v)
  | ONumber t => (st, match hticount_dd st t DFREF_WILDCARD with Some c => RVal c | None => RFail end)
  | OExist t r => (st, RVal (match hfind st t r 0 0 DF_FORWARD with Some _ => 1 | None => 0 end))
  | OCheck t r =>
      if (t =? DFTAG_NULL) || (t =? DFTAG_WILDCARD) || (r =? DFREF_WILDCARD) then (st, RVal (-1))
      else (st, RVal (match find_exact st t r with Some _ => 1 | None => 0 end))
  | OLength t r => hlength st t r
  | OFindall t r d => (st, RList (findall st (S (length (m_slots st))) t r 0 0 d))
  | ODump => (st, RDump (m_maxref st) (m_ndds st) (map dd_triple (m_slots st)))
  end.

Definition m_empty : mst := mkst MIN_NDDS [] [] [] [] [] None 0 true false.

Fixpoint m_run (st : mst) (h : list op) : list res :=
  match h with
  | [] => []
  | o :: h' => let '(st', r) := m_step st o in r :: m_run st' h'
  end.
