(** C03 -- SDS hyperslab reads and writes behave as an n-dimensional array.
    Property theorems only; each is closed by [exact] of a lemma from SlabProofs.v. *)
From Coq Require Import ZArith List Bool.
Require Import H4.SlabSpec H4.gen.Gen_Slab H4.SlabModel H4.SlabProofs.
Import ListNotations.
Local Open Scope Z_scope.

Theorem zrange_has_count_elements : forall n s t, length (zrange s t n) = n.
Proof. exact zrange_length. Qed.
Print Assumptions zrange_has_count_elements.
