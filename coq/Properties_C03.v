(** C03 -- SDS hyperslab reads and writes behave as an n-dimensional array.
    Property theorems only; each is closed by [exact] of a lemma from SlabProofs.v.
    S = SlabSpec.v (flat n-d array), M = SlabModel.v (NCcoordck, NC_varoffset, NCvcmaxcontig, NCvario,
    NCsimplerecio, NCgenio, hdf_xdr_NCvdata; boundary conditions regenerated into gen/Gen_Slab.v). *)
From Coq Require Import ZArith List Bool.
Require Import H4.SlabSpec H4.gen.Gen_Slab H4.SlabModel H4.SlabProofs H4.SlabRefine.
Import ListNotations.
Local Open Scope Z_scope.

(** NC_varoffset (dsizes as NC_var_shape computes them, also for a record variable whose first extent is 0)
    is the element size times the row-major linear index. *)
Theorem varoffset_rowmajor : forall m c, length c = length (m_shape m) ->
  varoffset m c = m_esz m * lin (m_shape m) c.
Proof. exact varoffset_rowmajor_lemma. Qed.
Print Assumptions varoffset_rowmajor.

(** NCvario's decomposition into maximal contiguous runs, at full strength.  For every variable (fixed-size of
    rank >= 1, or record variable of rank >= 2; the 1-d record variable goes through NCsimplerecio), every
    non-negative start and EVERY edge vector that NCvcmaxcontig (with its early break) accepts: the element
    offsets of the (offset, count) transfers issued by the ripple counter, concatenated in issue order, are
    exactly the offsets of the slab's cells in row-major order.  The proof derives from the regenerated tests
    that vcmaxcontig = Some k forces the dimensions after k to be taken whole (vcmaxcontig_sound). *)
Theorem vario_plan_correct : forall m start edges ps n,
  length start = length (m_shape m) -> length edges = length (m_shape m) ->
  ((if is_recvar m then 1 else 0) < length (m_shape m))%nat ->
  Forall (fun o => 0 <= o) start -> Forall (fun d => 0 <= d) (m_shape m) ->
  vario_plan m start edges = Some (ps, n) ->
  flat_map (block m n) ps = map (varoffset m) (slab_cells start (ones start) edges).
Proof. exact vario_plan_correct_lemma. Qed.
Print Assumptions vario_plan_correct.

(** NCvcmaxcontig's two tests and NCcoordck's bound test, as regenerated from putget.c, mean what the
    decomposition needs: an edge is accepted iff 0 <= edge <= shape - origin, the scan stops at the first
    edge shorter than its dimension, a coordinate is good iff 0 <= x < extent. *)
Theorem maxcontig_tests : forall e s o,
  truth (maxcontig_bad e s o) = negb ((0 <=? e) && (e <=? s - o)) /\ truth (maxcontig_break e s) = (e <? s).
Proof. intros. split. apply maxcontig_bad_spec. apply maxcontig_break_spec. Qed.
Print Assumptions maxcontig_tests.

(** NCgenio: for all strides >= 1 and counts >= 1 the odometer (start, +stride while below
    stop = start + count*stride, regenerated carry test) visits exactly the slab's cells in row-major order;
    each visit is one NCvario call, to which the theorems above apply.  (The memory side uses imap = NULL,
    i.e. consecutive buffer elements; the imap pointer arithmetic is not modelled.) *)
Theorem genio_plan_correct : forall start count stride,
  length count = length start -> length stride = length start ->
  Forall (fun c => 1 <= c) count -> Forall (fun t => 1 <= t) stride ->
  cartesian (map3 genio_axis start count stride) = slab_cells start stride count.
Proof. exact genio_positions. Qed.
Print Assumptions genio_plan_correct.

(** Out-of-range requests on a fixed-size dataset, model level, for ALL ranks >= 1, shapes and requests, in exactly
    the terms of the specification (S returns RFail iff counts, strides >= 1 and [all4 dim_in start stride count shape]
    is false): SDreaddata and SDwritedata, with stride NULL, all-ones or any strides >= 1, return FAIL whenever some
    start_i < 0 or start_i + (count_i - 1) * stride_i >= extent_i.  The proof follows the code: SDreaddata's stride
    check, else NCgenio's odometer (genio_loop induction: every visited position is an NCvario call), else inside
    NCvario: NCcoordck rejects the start, or NCvcmaxcontig rejects an edge, or -- NCvcmaxcontig having stopped
    validating at the first short edge -- the ripple counter reaches a position NCcoordck rejects (vario_loop
    induction, vcmaxcontig_sound, oob_bad_position / strided_oob_cell).
    Frame clause (sd_write_frame, third conjunct): for a dataset that has storage (after its first write), ANY
    SDwritedata -- valid or not, any stride mode, returning SUCCEED or FAIL, including the partial writes of a failing
    request (ex_oob) -- leaves every cell whose offset is not one of the requested slab's cell offsets unchanged.
    Proof: vario_loop_frame / genio_loop_frame (inductions over both loops), write_cells_frame, and
    vario_plan_correct to identify the union of the transferred blocks with the slab.
    First write included (fourth conjunct, sd_write_frame_base, stride NULL): counting the content of a still empty
    element as all fill values, ANY SDwritedata changes only cells of the requested region that lie inside the
    shape -- so after a first write, failing or not, every cell outside the region holds the fill value.
    PARTIAL -- missing: record variables (dimension 0 growable on write, bounded by numrecs on read: NCcoordck then
    changes the state, the lemmas coordck_fixed / vario_loop_false / vario_oob_fails need record-variable twins, and
    the 1-d record variable goes through NCsimplerecio); the first-write form of the frame for stride arrays
    (needs the accounting of the user values across NCgenio's calls of NCvario). *)
Theorem out_of_range_rejected_partial :
  (forall m us start stride count,
     is_recvar m = false -> (0 < length (m_shape m))%nat ->
     length start = length (m_shape m) -> length count = length (m_shape m) ->
     (us = true -> length stride = length (m_shape m) /\ Forall (fun t => 1 <= t) stride) ->
     Forall (fun c => 1 <= c) count ->
     all4 dim_in start (if us then stride else ones start) count (m_shape m) = false ->
     exists m' cells tr, sd_read m us start stride count = (m', MRead (-1) cells tr)) /\
  (forall m us start stride count vals,
     is_recvar m = false -> (0 < length (m_shape m))%nat ->
     length start = length (m_shape m) -> length count = length (m_shape m) ->
     (us = true -> length stride = length (m_shape m) /\ Forall (fun t => 1 <= t) stride) ->
     Forall (fun c => 1 <= c) count ->
     all4 dim_in start (if us then stride else ones start) count (m_shape m) = false ->
     exists m' tr, sd_write m us start stride count vals = (m', MRet (-1) tr)) /\
  (forall m us start stride count vals j,
     is_recvar m = false -> (0 < length (m_shape m))%nat -> 0 < m_esz m -> m_store m <> [] ->
     length start = length (m_shape m) -> length count = length (m_shape m) ->
     (us = true -> length stride = length (m_shape m)) -> Forall (fun d => 0 <= d) (m_shape m) ->
     ~ In (Z.of_nat j * m_esz m) (map (varoffset m) (slab_cells start (if us then stride else ones start) count)) ->
     nth j (m_store (fst (sd_write m us start stride count vals))) Undef = nth j (m_store m) Undef) /\
  (forall m start stride count vals i,
     okvar m -> (0 < length (m_shape m))%nat ->
     length start = length (m_shape m) -> length count = length (m_shape m) ->
     length vals = Z.to_nat (prod count) ->
     let m' := fst (sd_write m false start stride count vals) in
     okvar m' /\ m_shape m' = m_shape m /\
     (nth i (base m') Undef = nth i (base m) Undef \/
      In i (map (idx (m_shape m)) (filter (inb (m_shape m)) (slab_cells start (ones start) count))))) /\
  (* strided reads reaching the extent are rejected before any transfer, dataset untouched *)
  (forall m start stride count,
     is_recvar m = false -> (0 < length (m_shape m))%nat ->
     length start = length (m_shape m) -> length stride = length (m_shape m) -> length count = length (m_shape m) ->
     all4 reach_in start stride count (m_shape m) = false ->
     sd_read m true start stride count = (m, MRead (-1) [] [])) /\
  (* what the regenerated tests mean *)
  (forall t c d s, truth (sdread_stride_bad0 t c d s) = (d <=? reach s t c)) /\
  (forall t c d s, truth (sdread_stride_badi t c d s) = (d <=? reach s t c)) /\
  (forall c shape, length c = length shape ->
     any2 coordck_bad c shape = negb (all3 (fun x d _ => (0 <=? x) && (x <? d)) c shape c)).
Proof.
  split. exact sd_read_rejected. split. exact sd_write_rejected. split. exact sd_write_frame.
  split. exact sd_write_frame_base. split. exact sd_read_strided_rejected.
  split. exact stride_check_spec0. split. exact stride_check_speci. exact any2_coordck.
Qed.
Print Assumptions out_of_range_rejected_partial.

(** First write to a new fixed-size dataset, fill mode on, through the code's own loops (hdf_xdr_NCvdata with an
    empty element): the leading and trailing fill values are written by the do/while loops whose body updates
    ("buf_size -= chunk_size; chunk_size = MIN(chunk_size, buf_size)", first piece MIN(buf_size, MAX_SIZE),
    test buf_size > 0) are regenerated IN SOURCE ORDER from putget.c.  For EVERY transfer position w and length
    count inside a variable of L elements (any byte count, below or above MAX_SIZE): the pieces are at most
    MAX_SIZE bytes and add up to exactly the lead-in w*esz resp. the remainder, the data transfer is issued at
    byte w*esz (no seek follows the leading fill, so this is where the loop must leave the position), afterwards
    the element has its full length and every cell outside the transfer holds the fill value. *)
Theorem first_write_fills : forall m w L count vals,
  m_store m = [] -> m_nofill m = false -> 0 < m_esz m ->
  0 <= w -> 0 <= count -> w + count <= L -> var_len m = L * m_esz m ->
  length vals = Z.to_nat count ->
  exists m' lc tc,
    xdr_vdata m true (w * m_esz m) count vals =
      Some (m', chunk_transfers 0 lc ++ [TWrite (w * m_esz m) (count * m_esz m)] ++
                chunk_transfers (w * m_esz m + count * m_esz m) tc, []) /\
    sumZ lc = w * m_esz m /\ sumZ tc = (L - w - count) * m_esz m /\
    Forall (fun c => 0 < c <= MAX_SIZE) (lc ++ tc) /\
    m_store m' = repeat (Val (fill_of m)) (Z.to_nat w) ++ vals ++
                 repeat (Val (fill_of m)) (Z.to_nat (L - w - count)) /\
    Z.of_nat (length (m_store m')) * m_esz m = var_len m.
Proof. exact first_write_fills_lemma. Qed.
Print Assumptions first_write_fills.

(** Growth along the unlimited dimension, fill mode on (NCcoordck): a write positioned at record r >= numrecs
    appends records numrecs..r, all holding the fill value, one Hwrite per record, and sets numrecs = r+1.
    (NCvario's final "upper[0]" update then raises numrecs to r+count; modelled in [vario], tied by the
    SDgetinfo correspondence, not part of this theorem.) *)
Theorem unlimited_growth : forall m coords rc,
  is_recvar m = true -> m_nofill m = false ->
  any2 coordck_bad (tl coords) (tl (m_shape m)) = false ->
  0 <= m_numrecs m <= hd 0 coords ->
  0 < m_esz m -> 0 <= rc -> var_len m = rc * m_esz m ->
  Z.of_nat (length (m_store m)) = m_numrecs m * rc ->
  exists m' tr,
    coordck m true coords = Some (m', tr) /\
    m_numrecs m' = hd 0 coords + 1 /\
    m_store m' = m_store m ++ repeat (Val (fill_of m)) (Z.to_nat ((hd 0 coords + 1 - m_numrecs m) * rc)) /\
    length tr = Z.to_nat (hd 0 coords + 1 - m_numrecs m).
Proof. exact unlimited_growth_lemma. Qed.
Print Assumptions unlimited_growth.

(** The implementation model refines the array specification on whole operation histories.
    For every fixed-size dataset of rank >= 1 with extents >= 1 and every supported number type, and for EVERY
    history of SDsetfillmode (other than SD_NOFILL), SDsetfillvalue (before or after the first write),
    SDsetblocksize, SDwritedata and SDreaddata with stride NULL -- valid requests, requests reaching outside the
    shape (with their partial writes), empty / negative counts --, SDgetinfo/SDgetfillvalue and SDend+SDstart:
    the model's run and the specification's run agree operation by operation:
      - wherever the specification says ROk the model returns 0, wherever it says RFail the model returns -1;
      - every cell the specification defines in a successful read (a written value, or the fill value for a cell
        never written) is the cell the model reads;
      - every extent lies in the specification's interval, the fill-value attribute is the same.
    [op_dom] is exactly this domain (argument vectors of the dataset's rank, as many values as selected cells);
    [out_sim] is the agreement of one operation's outputs.  The proof is a simulation: [sim a m] relates the array
    to the element content (all fill values while the element is still empty), is established by SDcreate
    (sim_init) and preserved by every operation (sim_step: sim_write, sim_read, ...), then lifted to histories by
    induction (run_sim).  Outside this theorem (correspondence only): stride arrays (NCgenio), unlimited
    datasets, no-fill mode (outside the model as well), rank 0. *)
Theorem sd_refines_array : forall shape nt ops,
  (0 < length shape)%nat -> Forall (fun d => 1 <= d) shape ->
  (exists s, nt_size nt = Some s /\ 0 < s) ->
  Forall (op_dom (length shape)) ops ->
  Forall2 out_sim (s_run (s_init shape false (default_fill nt)) ops) (m_run (m_init shape false nt) ops).
Proof. exact sd_refines_array_lemma. Qed.
Print Assumptions sd_refines_array.

(** SDsetfillmode in a writable session: SD_NOFILL sets no-fill mode, and switching back with SD_FILL restores fill
    mode (ncsetfill's "changing back to fill mode" block reaches the statement that clears NC_NOFILL; every return in
    front of it is guarded by an I/O failure -- regenerated from file.c by the translator kind guarded_returns) *)
Theorem fill_mode_restored : forall m, m_rdonly m = false ->
  m_nofill (fst (m_step m (OpMode NC_NOFILL))) = true /\
  m_nofill (fst (m_step (fst (m_step m (OpMode NC_NOFILL))) (OpMode NC_FILL))) = false /\
  m_nofill (fst (m_step m (OpMode NC_FILL))) = false.
Proof. exact fill_mode_restored_lemma. Qed.
Print Assumptions fill_mode_restored.

(** A read of a dataset that has no data yet returns the fill value in EVERY requested element, in a read-write
    session (template branch) and in a read-only session (hdf_get_vp_aid fails, data_ref == 0), with a user-set
    fill value (HDmemfill, element count) or the type's default (NC_arrayfill, byte length): the four call
    arguments are regenerated from putget.c. *)
Theorem empty_read_fills_all_elements : forall m count, 0 < m_esz m ->
  match m_fillattr m with
  | Some _ => if m_rdonly m then vdata_rdonly_memfill_count count (m_esz m)
              else vdata_template_memfill_count count (m_esz m)
  | None => (if m_rdonly m then vdata_rdonly_arrayfill_bytes count (m_esz m)
             else vdata_template_arrayfill_bytes count (m_esz m)) / m_esz m
  end = count.
Proof. exact empty_read_fills_all. Qed.
Print Assumptions empty_read_fills_all_elements.

(** the simulation relation is established by SDcreate and preserved by every operation of the domain *)
Theorem sim_invariant :
  (forall shape nt, (0 < length shape)%nat -> Forall (fun d => 1 <= d) shape ->
     (exists s, nt_size nt = Some s /\ 0 < s) ->
     sim (s_init shape false (default_fill nt)) (m_init shape false nt)) /\
  (forall a m o, sim a m -> op_dom (length (m_shape m)) o ->
     sim (fst (s_step a o)) (fst (m_step m o)) /\ out_sim (snd (s_step a o)) (snd (m_step m o))).
Proof. split. exact sim_init. exact sim_step. Qed.
Print Assumptions sim_invariant.

(* ---- non-vacuity: the hypotheses are met by concrete, non-trivial states -------------------- *)
Definition ex_m : mstate := m_init [3; 4; 5] false DFNT_INT16.
Example ex_varoffset : varoffset ex_m [2; 1; 3] = 2 * lin [3; 4; 5] [2; 1; 3] /\ varoffset ex_m [2; 1; 3] = 96.
Proof. vm_compute. split; reflexivity. Qed.

(** NCvcmaxcontig returns k = 1 for whole last dimension and a short edge at dimension 1; the plan's blocks are
    the slab's offsets (instance of vario_plan_correct_partial with pre = [3], dk = 4, post = [5]) *)
Example ex_plan :
  vario_plan ex_m [1; 1; 0] [2; 2; 5] = Some ([[1; 1; 0]; [2; 1; 0]], 10) /\
  flat_map (block ex_m 10) [[1; 1; 0]; [2; 1; 0]] = map (varoffset ex_m) (slab_cells [1; 1; 0] [1; 1; 1] [2; 2; 5]).
Proof. vm_compute. split; reflexivity. Qed.

Example ex_genio : cartesian (map3 genio_axis [0; 1] [2; 2] [2; 3]) = [[0; 1]; [0; 4]; [2; 1]; [2; 4]].
Proof. vm_compute. reflexivity. Qed.

(** first write of 2 elements at element 3 of a new 2x3 int32 dataset, user fill 7 *)
Example ex_first_write :
  let m := mkM [2; 3] 4 0 (Some 7) 0 false [] 0 false in
  var_len m = 6 * 4 /\
  xdr_vdata m true (3 * 4) 2 [Val 100; Val 101] =
    Some (mkM [2; 3] 4 0 (Some 7) 0 false [Val 7; Val 7; Val 7; Val 100; Val 101; Val 7] 0 false,
          [TWrite 0 12; TWrite 12 8; TWrite 20 4], []).
Proof. vm_compute. split; reflexivity. Qed.

(** the leading fill of 2,300,123 bytes is written as 1,000,000 + 1,000,000 + 300,123 *)
Example ex_chunks :
  fill_chunks vdata_lead_loop_step vdata_lead_loop_more (chunk_fuel 2300123) 2300123 (vdata_lead_loop_init 2300123)
  = Some [1000000; 1000000; 300123].
Proof. vm_compute. reflexivity. Qed.

(** growth: numrecs 1 -> write positioned at record 3 of an (unlimited x 2) uint8 dataset *)
Example ex_growth :
  let m := mkM [0; 2] 1 1 None 129 false [Val 1; Val 2] 0 false in
  is_recvar m = true /\ var_len m = 2 * 1 /\
  coordck m true [3; 0] =
    Some (mkM [0; 2] 1 4 None 129 false [Val 1; Val 2; Val 129; Val 129; Val 129; Val 129; Val 129; Val 129] 0 false,
          [TWrite 2 2; TWrite 4 2; TWrite 6 2]).
Proof. vm_compute. repeat split; reflexivity. Qed.

(** hypotheses of out_of_range_rejected_partial (1): 3x4 dataset, request rows 1..3 (one too many) x columns 1..2.
    NCvcmaxcontig validates only the last dimension (short edge -> break); rows 1 and 2 are transferred (after the
    first-write fill), row 3 is rejected by NCcoordck: FAIL with a partial write inside the requested region *)
Example ex_oob :
  all4 dim_in [1; 1] (ones [1; 1]) [3; 2] [3; 4] = false /\
  Forall (fun c => 1 <= c) [3; 2] /\
  fst (vario true [1; 1] [3; 2] (mkAcc (m_init [3; 4] false DFNT_UINT8) [] [] (map Val [1;2;3;4;5;6]))) = false /\
  acc_tr (snd (vario true [1; 1] [3; 2] (mkAcc (m_init [3; 4] false DFNT_UINT8) [] [] (map Val [1;2;3;4;5;6]))))
    = [TWrite 0 5; TWrite 5 2; TWrite 7 5; TWrite 9 2].
Proof. vm_compute. repeat split; auto. repeat constructor; discriminate. Qed.

(** frame instance: 3x4 uint8 dataset with storage; the failing request of ex_oob (rows 1..3 x columns 1..2) leaves
    cell (0,0) (index 0, offset 0 not among the slab's offsets) unchanged and does write cell (1,1) (index 5) *)
Example ex_frame :
  let m := mkM [3; 4] 1 0 None 129 false (repeat (Val 7) 12) 0 false in
  ~ In (Z.of_nat 0 * m_esz m) (map (varoffset m) (slab_cells [1; 1] (ones [1; 1]) [3; 2])) /\
  snd (sd_write m false [1; 1] [] [3; 2] [1;2;3;4;5;6]) = MRet (-1) [TWrite 5 2; TWrite 9 2] /\
  m_store (fst (sd_write m false [1; 1] [] [3; 2] [1;2;3;4;5;6])) =
    [Val 7; Val 7; Val 7; Val 7; Val 7; Val 1; Val 2; Val 7; Val 7; Val 3; Val 4; Val 7].
Proof. vm_compute. split; [| split; reflexivity]. intros [H | [H | [H | [H | [H | [H | []]]]]]]; discriminate. Qed.

(** a strided write reaching outside: 3x4 dataset, start (0,1) stride (2,2) count (2,2): column 1+2 = 3 ok,
    count (2,3) reaches column 5 *)
Example ex_oob_strided :
  all4 dim_in [0; 1] [2; 2] [2; 3] [3; 4] = false /\
  snd (sd_write (m_init [3; 4] false DFNT_UINT8) true [0; 1] [2; 2] [2; 3] [1;2;3;4;5;6]) =
    MRet (-1) [TWrite 0 1; TWrite 1 1; TWrite 2 10; TWrite 3 1].
Proof. vm_compute. split; reflexivity. Qed.

(** sd_refines_array is not vacuous: a history of its domain on a 3x4 uint8 dataset -- fill value set, a valid
    write, a write reaching outside the shape (partial write), an empty write, a fill value set after the first
    write, reads, reopen -- and the two runs it relates *)
Example ex_refines_domain :
  let ops := [OpFillv 9; OpWrite false [1; 1] [] [2; 2] [11; 12; 13; 14];
              OpWrite false [1; 2] [] [3; 2] [21; 22; 23; 24; 25; 26];
              OpWrite false [0; 0] [] [0; 1] [];
              OpFillv 5; OpRead false [0; 0] [] [3; 4]; OpReopen; OpInfo; OpRead false [2; 0] [] [2; 1]] in
  Forall (op_dom 2) ops /\ (exists s, nt_size DFNT_UINT8 = Some s /\ 0 < s) /\
  s_run (s_init [3; 4] false (default_fill DFNT_UINT8)) ops =
    [SNone; SRet ROk; SRet RFail; SRet RAny; SNone;
     SRead ROk [Undef; Undef; Undef; Undef; Undef; Val 11; Undef; Undef; Undef; Val 13; Undef; Undef];
     SNone; SInfo [(3, 3); (4, 4)] (Some 5); SRead RFail []] /\
  m_run (m_init [3; 4] false DFNT_UINT8) ops =
    [MNone; MRet 0 [TWrite 0 5; TWrite 5 2; TWrite 7 5; TWrite 9 2]; MRet (-1) [TWrite 6 2; TWrite 10 2];
     MRet 0 []; MNone;
     MRead 0 [Val 9; Val 9; Val 9; Val 9; Val 9; Val 11; Val 21; Val 22; Val 9; Val 13; Val 23; Val 24] [TRead 0 12];
     MNone; MInfo [3; 4] (Some 5); MRead (-1) [Val 9] [TRead 8 1]].
Proof. vm_compute. repeat split; repeat constructor; try discriminate. all: try (eexists; split; reflexivity). Qed.

(** the whole model and the specification on one history: strided write, out-of-range read, full read *)
Example ex_history :
  let ops := [OpWrite true [0; 1] [2; 2] [2; 2] [11; 12; 13; 14];
              OpRead true [0; 0] [1; 1] [4; 1];
              OpRead false [0; 0] [1; 1] [3; 4]] in
  m_run (m_init [3; 4] false DFNT_UINT8) ops =
    [MRet 0 [TWrite 0 1; TWrite 1 1; TWrite 2 10; TWrite 3 1; TWrite 9 1; TWrite 11 1];
     MRead (-1) [] [];
     MRead 0 [Val 129; Val 11; Val 129; Val 12; Val 129; Val 129; Val 129; Val 129; Val 129; Val 13; Val 129; Val 14]
           [TRead 0 12]] /\
  s_run (s_init [3; 4] false (default_fill DFNT_UINT8)) ops =
    [SRet ROk; SRead RFail [];
     SRead ROk [Val 129; Val 11; Val 129; Val 12; Val 129; Val 129; Val 129; Val 129; Val 129; Val 13; Val 129; Val 14]].
Proof. vm_compute. split; reflexivity. Qed.
