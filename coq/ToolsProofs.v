(** C19 -- proofs about the model of hdiff / hdp / hdfimport (ToolsModel.v) against the specification (ToolsSpec.v). *)
From Coq Require Import ZArith List Bool Lia.
Require Import H4.ToolsCInt H4.gen.Gen_Tools H4.ToolsSpec H4.ToolsModel.
Import ListNotations.
Local Open Scope Z_scope.

Lemma placeholder_c19 : ad_count DFNT_INT8 (opts0 1) [-128] [127] = 1.
Proof. vm_compute. reflexivity. Qed.
