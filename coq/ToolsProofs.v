(** C19 -- proofs about the model of hdiff / hdp / hdfimport (ToolsModel.v) against the specification (ToolsSpec.v). *)
From Coq Require Import ZArith List Bool Lia.
Require Import H4.ToolsCInt H4.gen.Gen_Tools H4.ToolsSpec H4.ToolsModel.
Import ListNotations.
Local Open Scope Z_scope.

(* ------------------------------------------------------------------------------------------ *)
(** * C integer conversions *)

Ltac wrapnum :=
  unfold swrap, uwrap;
  change (2 ^ (8 - 1)) with 128; change (2 ^ 8) with 256;
  change (2 ^ (16 - 1)) with 32768; change (2 ^ 16) with 65536;
  change (2 ^ (32 - 1)) with 2147483648; change (2 ^ 32) with 4294967296;
  change (2 ^ (64 - 1)) with 9223372036854775808; change (2 ^ 64) with 18446744073709551616.

Lemma swrap8_range z : -128 <= swrap 8 z <= 127.
Proof. wrapnum. Z.to_euclidean_division_equations. lia. Qed.
Lemma swrap16_range z : -32768 <= swrap 16 z <= 32767.
Proof. wrapnum. Z.to_euclidean_division_equations. lia. Qed.
Lemma swrap32_range z : -2147483648 <= swrap 32 z <= 2147483647.
Proof. wrapnum. Z.to_euclidean_division_equations. lia. Qed.

Lemma swrap8_id z : -128 <= z <= 127 -> swrap 8 z = z.
Proof. intros. wrapnum. Z.to_euclidean_division_equations. lia. Qed.
Lemma swrap16_id z : -32768 <= z <= 32767 -> swrap 16 z = z.
Proof. intros. wrapnum. Z.to_euclidean_division_equations. lia. Qed.
Lemma swrap32_id z : -2147483648 <= z <= 2147483647 -> swrap 32 z = z.
Proof. intros. wrapnum. Z.to_euclidean_division_equations. lia. Qed.
Lemma swrap64_id z : -9223372036854775808 <= z <= 9223372036854775807 -> swrap 64 z = z.
Proof. intros. wrapnum. Z.to_euclidean_division_equations. lia. Qed.

(** reading through a signed pointer is injective on any window of 2^w values (both the signed and the
    unsigned type of that width) *)
Lemma swrap8_inj x y : Z.abs (x - y) < 256 -> swrap 8 x = swrap 8 y -> x = y.
Proof. wrapnum. intros. Z.to_euclidean_division_equations. lia. Qed.
Lemma swrap16_inj x y : Z.abs (x - y) < 65536 -> swrap 16 x = swrap 16 y -> x = y.
Proof. wrapnum. intros. Z.to_euclidean_division_equations. lia. Qed.
Lemma swrap32_inj x y : Z.abs (x - y) < 4294967296 -> swrap 32 x = swrap 32 y -> x = y.
Proof. wrapnum. intros. Z.to_euclidean_division_equations. lia. Qed.

(* ------------------------------------------------------------------------------------------ *)
(** * The difference expressions of array_diff (as regenerated from hdiff_array.c) *)

Lemma ad8_diff_abs a b : -128 <= a <= 127 -> -128 <= b <= 127 -> ad8_diff a b = Z.abs (a - b).
Proof. intros. unfold ad8_diff. rewrite (swrap32_id (a - b)) by lia. apply swrap32_id. lia. Qed.

Lemma ad16_diff_abs a b : -32768 <= a <= 32767 -> -32768 <= b <= 32767 -> ad16_diff a b = Z.abs (a - b).
Proof. intros. unfold ad16_diff. rewrite (swrap32_id (a - b)) by lia. apply swrap32_id. lia. Qed.

Lemma ad32_diff_sat a b : -2147483648 <= a <= 2147483647 -> -2147483648 <= b <= 2147483647 ->
  ad32_diff a b = Z.min (Z.abs (a - b)) 2147483647.
Proof.
  intros. unfold ad32_diff. rewrite (swrap64_id (a - b)) by lia. rewrite (swrap64_id (Z.abs (a - b))) by lia.
  unfold b2z. destruct (Z.ltb_spec (Z.abs (a - b)) 2147483647); simpl.
  - rewrite swrap32_id by lia. lia.
  - rewrite swrap32_id by lia. lia.
Qed.

(* ------------------------------------------------------------------------------------------ *)
(** * array_diff without options reports exactly the positions whose values differ *)

Definition flagged (br : branch) (x y : Z) : bool :=
  negb (br_over br (br_diff br (reinterp (br_sg br) (br_bits br) x) (reinterp (br_sg br) (br_bits br) y)) 0 =? 0).

Fixpoint flagged_positions (br : branch) (i : Z) (a b : list Z) : list Z :=
  match a, b with
  | x :: a', y :: b' => if flagged br x y then i :: flagged_positions br (i + 1) a' b' else flagged_positions br (i + 1) a' b'
  | _, _ => []
  end.

Lemma ad_elt_plain br m i x y n pr :
  ad_elt br (opts0 m) i x y n pr = if flagged br x y then (n + 1, if n + 1 <=? m then i :: pr else pr) else (n, pr).
Proof. unfold ad_elt, flagged, opts0. simpl. reflexivity. Qed.

Lemma ad_loop_count br m : forall a b i n pr,
  fst (ad_loop br (opts0 m) i a b n pr) = n + Z.of_nat (length (flagged_positions br i a b)).
Proof.
  induction a as [|x a IH]; intros b i n pr.
  - simpl. lia.
  - destruct b as [|y b]; [simpl; lia|].
    cbn [ad_loop flagged_positions]. rewrite ad_elt_plain.
    destruct (flagged br x y).
    + rewrite IH. cbn [length]. lia.
    + apply IH.
Qed.

Lemma ad_loop_full br m : forall a b i n pr, n + Z.of_nat (length a) <= m ->
  ad_loop br (opts0 m) i a b n pr = (n + Z.of_nat (length (flagged_positions br i a b)), rev pr ++ flagged_positions br i a b).
Proof.
  induction a as [|x a IH]; intros b i n pr Hm.
  - simpl. rewrite app_nil_r. f_equal. lia.
  - destruct b as [|y b]; [simpl; rewrite app_nil_r; f_equal; lia|].
    cbn [ad_loop flagged_positions]. rewrite ad_elt_plain. cbn [length] in Hm.
    destruct (flagged br x y).
    + assert (E : n + 1 <=? m = true) by (apply Z.leb_le; lia). rewrite E.
      rewrite IH by lia. cbn [length rev]. rewrite <- app_assoc. simpl. f_equal. lia.
    + apply IH. lia.
Qed.

Lemma over0 d : (negb (b2z (0 <? d) =? 0)) = (0 <? d).
Proof. destruct (0 <? d); reflexivity. Qed.

Lemma flagged_br8 x y : Z.abs (x - y) < 256 -> flagged br8 x y = negb (x =? y).
Proof.
  intros H. unfold flagged, br8; cbn [br_over br_diff br_sg br_bits]. unfold ad8_elt_signed, ad8_elt_bits, reinterp, ad8_over.
  rewrite over0. pose proof (swrap8_range x). pose proof (swrap8_range y).
  rewrite ad8_diff_abs by lia.
  destruct (Z.eqb_spec x y) as [->|N]; simpl.
  - rewrite Z.sub_diag. reflexivity.
  - apply Z.ltb_lt. assert (swrap 8 x <> swrap 8 y) by (intro E; apply N, swrap8_inj; assumption). lia.
Qed.

Lemma flagged_br16 x y : Z.abs (x - y) < 65536 -> flagged br16 x y = negb (x =? y).
Proof.
  intros H. unfold flagged, br16; cbn [br_over br_diff br_sg br_bits]. unfold ad16_elt_signed, ad16_elt_bits, reinterp, ad16_over.
  rewrite over0. pose proof (swrap16_range x). pose proof (swrap16_range y).
  rewrite ad16_diff_abs by lia.
  destruct (Z.eqb_spec x y) as [->|N]; simpl.
  - rewrite Z.sub_diag. reflexivity.
  - apply Z.ltb_lt. assert (swrap 16 x <> swrap 16 y) by (intro E; apply N, swrap16_inj; assumption). lia.
Qed.

Lemma flagged_br32 x y : Z.abs (x - y) < 4294967296 -> flagged br32 x y = negb (x =? y).
Proof.
  intros H. unfold flagged, br32; cbn [br_over br_diff br_sg br_bits]. unfold ad32_elt_signed, ad32_elt_bits, reinterp, ad32_over.
  rewrite over0. pose proof (swrap32_range x). pose proof (swrap32_range y).
  rewrite ad32_diff_sat by lia.
  destruct (Z.eqb_spec x y) as [->|N]; simpl.
  - rewrite Z.sub_diag. reflexivity.
  - apply Z.ltb_lt. assert (swrap 32 x <> swrap 32 y) by (intro E; apply N, swrap32_inj; assumption). lia.
Qed.

Ltac c19_one br lem :=
  let E := fresh "E" in intros E; injection E as <- <-; exists br; split; [reflexivity | intros; apply lem; lia].

(** every integer number type selects a branch whose flag is "the values differ" on the type's range *)
Lemma kind_of_ranged nt lo hi : nt_range nt = Some (lo, hi) ->
  exists br, ad_kind nt = ADInt br /\ forall x y, in_range lo hi x -> in_range lo hi y -> flagged br x y = negb (x =? y).
Proof.
  unfold nt_range, nt_ranges, in_range. cbn [nt_range_in].
  destruct (Z.eqb_spec nt 20) as [->|_]; [c19_one br8 flagged_br8|].
  destruct (Z.eqb_spec nt 21) as [->|_]; [c19_one br8 flagged_br8|].
  destruct (Z.eqb_spec nt 3) as [->|_]; [c19_one br8 flagged_br8|].
  destruct (Z.eqb_spec nt 4) as [->|_]; [c19_one br8 flagged_br8|].
  destruct (Z.eqb_spec nt 22) as [->|_]; [c19_one br16 flagged_br16|].
  destruct (Z.eqb_spec nt 23) as [->|_]; [c19_one br16 flagged_br16|].
  destruct (Z.eqb_spec nt 24) as [->|_]; [c19_one br32 flagged_br32|].
  destruct (Z.eqb_spec nt 25) as [->|_]; [c19_one br32 flagged_br32|].
  discriminate.
Qed.

Lemma flagged_positions_spec br lo hi :
  (forall x y, in_range lo hi x -> in_range lo hi y -> flagged br x y = negb (x =? y)) ->
  forall a b i, Forall (in_range lo hi) a -> Forall (in_range lo hi) b ->
  flagged_positions br i a b = spec_diff_positions i a b.
Proof.
  intros F. induction a as [|x a IH]; intros b i Ha Hb; [reflexivity|].
  destruct b as [|y b]; [reflexivity|].
  inversion Ha; inversion Hb; subst. cbn [flagged_positions spec_diff_positions].
  rewrite F by assumption. destruct (x =? y); simpl; rewrite IH by assumption; reflexivity.
Qed.

Lemma array_diff_refines_spec_lemma : forall nt lo hi a b m,
  nt_range nt = Some (lo, hi) -> Forall (in_range lo hi) a -> Forall (in_range lo hi) b ->
  Z.of_nat (length a) <= m ->
  array_diff_m nt (opts0 m) a b = (spec_count a b, spec_diff_positions 0 a b).
Proof.
  intros nt lo hi a b m R Ha Hb Hm. destruct (kind_of_ranged _ _ _ R) as (br & K & F).
  unfold array_diff_m. rewrite K. rewrite ad_loop_full by lia.
  rewrite (flagged_positions_spec br lo hi F) by assumption. reflexivity.
Qed.

Lemma array_diff_count_lemma : forall nt lo hi a b m,
  nt_range nt = Some (lo, hi) -> Forall (in_range lo hi) a -> Forall (in_range lo hi) b ->
  ad_count nt (opts0 m) a b = spec_count a b.
Proof.
  intros nt lo hi a b m R Ha Hb. destruct (kind_of_ranged _ _ _ R) as (br & K & F).
  unfold ad_count, array_diff_m. rewrite K. rewrite ad_loop_count.
  rewrite (flagged_positions_spec br lo hi F) by assumption. reflexivity.
Qed.

Lemma spec_positions_nil_iff : forall a b i, length a = length b -> (spec_diff_positions i a b = [] <-> a = b).
Proof.
  induction a as [|x a IH]; intros [|y b] i L; try discriminate; [tauto|].
  cbn [spec_diff_positions]. injection L as L. destruct (Z.eqb_spec x y) as [->|N].
  - rewrite (IH b (i + 1) L). split; [intros ->; reflexivity | intros E; injection E; auto].
  - split; [discriminate | intros E; injection E; intros; contradiction].
Qed.

Lemma spec_count_zero_iff a b : length a = length b -> (spec_count a b = 0 <-> a = b).
Proof.
  intros L. unfold spec_count. rewrite <- (spec_positions_nil_iff a b 0 L).
  destruct (spec_diff_positions 0 a b); simpl; split; intros; try reflexivity; try discriminate; lia.
Qed.

Lemma array_diff_zero_iff_equal_lemma : forall nt lo hi a b m,
  nt_range nt = Some (lo, hi) -> Forall (in_range lo hi) a -> Forall (in_range lo hi) b -> length a = length b ->
  (ad_count nt (opts0 m) a b = 0 <-> a = b).
Proof.
  intros. rewrite (array_diff_count_lemma nt lo hi) by assumption. apply spec_count_zero_iff. assumption.
Qed.

(** the code before the repairs violates the statement: witnesses *)
Lemma ad8_orig_refuted_lemma : exists a b, a <> b /\ Forall (in_range (-128) 127) a /\ Forall (in_range (-128) 127) b /\
  length a = length b /\ ad_count_orig br8_orig a b = 0.
Proof. exists [-128], [127]. repeat split; try (repeat constructor; unfold in_range; lia); discriminate. Qed.
Lemma ad16_orig_refuted_lemma : exists a b, a <> b /\ Forall (in_range (-32768) 32767) a /\ Forall (in_range (-32768) 32767) b /\
  length a = length b /\ ad_count_orig br16_orig a b = 0.
Proof. exists [-32768], [32767]. repeat split; try (repeat constructor; unfold in_range; lia); discriminate. Qed.
Lemma ad32_orig_refuted_lemma : exists a b, a <> b /\ Forall (in_range (-2147483648) 2147483647) a /\
  Forall (in_range (-2147483648) 2147483647) b /\ length a = length b /\ ad_count_orig br32_orig a b = 0.
Proof. exists [0], [-2147483648]. repeat split; try (repeat constructor; unfold in_range; lia); discriminate. Qed.

(* ------------------------------------------------------------------------------------------ *)
(** * Object matching *)

Lemma strcmp_eq : forall a b, strcmp a b = Eq <-> a = b.
Proof.
  induction a as [|x a IH]; intros [|y b]; simpl; split; intros H; try reflexivity; try discriminate.
  - destruct (Z.compare_spec x y); try discriminate. subst. f_equal. apply IH. assumption.
  - injection H as -> ->. rewrite Z.compare_refl. apply IH. reflexivity.
Qed.

Lemma strcmp_opp : forall a b, strcmp b a = CompOpp (strcmp a b).
Proof.
  induction a as [|x a IH]; intros [|y b]; simpl; try reflexivity.
  rewrite (Z.compare_antisym x y). destruct (x ?= y); simpl; auto.
Qed.

Lemma strcmp_refl a : strcmp a a = Eq.
Proof. apply strcmp_eq. reflexivity. Qed.

Lemma cmatch_nil_r l1 : cmatch l1 [] = map Only1 l1.
Proof. destruct l1; reflexivity. Qed.

Lemma cmatch_cons a l1 b l2 :
  cmatch (a :: l1) (b :: l2) =
  match strcmp (o_name a) (o_name b) with
  | Eq => Both a b :: cmatch l1 l2
  | Lt => Only1 a :: cmatch l1 (b :: l2)
  | Gt => Only2 b :: cmatch (a :: l1) l2
  end.
Proof. reflexivity. Qed.

Lemma map_mirror_only1 l : map mirror (map Only1 l) = map Only2 l.
Proof. induction l; simpl; congruence. Qed.
Lemma map_mirror_only2 l : map mirror (map Only2 l) = map Only1 l.
Proof. induction l; simpl; congruence. Qed.

Lemma cmatch_mirror : forall l1 l2, map mirror (cmatch l1 l2) = cmatch l2 l1.
Proof.
  induction l1 as [|a l1 IH1]; intros l2.
  - simpl. rewrite cmatch_nil_r. destruct l2; [reflexivity|]. apply map_mirror_only2.
  - induction l2 as [|b l2 IH2].
    + rewrite cmatch_nil_r. simpl. f_equal. apply map_mirror_only1.
    + rewrite !cmatch_cons. rewrite (strcmp_opp (o_name a) (o_name b)).
      destruct (strcmp (o_name a) (o_name b)); cbn [CompOpp map mirror]; f_equal.
      * apply IH1.
      * apply IH1.
      * apply IH2.
Qed.

Lemma cmatch_same : forall l, cmatch l l = map (fun o => Both o o) l.
Proof. induction l as [|a l IH]; [reflexivity|]. rewrite cmatch_cons, strcmp_refl. simpl. f_equal. assumption. Qed.

(** every object of either list appears in the table, paired only with an object of the same name *)
Lemma cmatch_covers1 : forall l1 l2 o, In o l1 ->
  In (Only1 o) (cmatch l1 l2) \/ exists b, In b l2 /\ o_name o = o_name b /\ In (Both o b) (cmatch l1 l2).
Proof.
  induction l1 as [|a l1 IH1]; intros l2 o Hin; [contradiction|].
  induction l2 as [|b l2 IH2].
  - left. rewrite cmatch_nil_r. apply in_map. assumption.
  - rewrite cmatch_cons. destruct (strcmp (o_name a) (o_name b)) eqn:C.
    + destruct Hin as [->|Hin].
      * right. exists b. split; [left; reflexivity|]. split; [apply strcmp_eq; assumption | left; reflexivity].
      * destruct (IH1 l2 o Hin) as [H|(b' & Hb & Hn & H)]; [left; right; assumption|].
        right. exists b'. split; [right; assumption|]. split; [assumption | right; assumption].
    + destruct Hin as [->|Hin]; [left; left; reflexivity|].
      destruct (IH1 (b :: l2) o Hin) as [H|(b' & Hb & Hn & H)]; [left; right; assumption|].
      right. exists b'. split; [assumption|]. split; [assumption | right; assumption].
    + destruct IH2 as [H|(b' & Hb & Hn & H)]; [left; right; assumption|].
      right. exists b'. split; [right; assumption|]. split; [assumption | right; assumption].
Qed.

Lemma in_mirror e l : In e l -> In (mirror e) (map mirror l).
Proof. apply in_map. Qed.

Lemma cmatch_covers2 : forall l1 l2 o, In o l2 ->
  In (Only2 o) (cmatch l1 l2) \/ exists a, In a l1 /\ o_name o = o_name a /\ In (Both a o) (cmatch l1 l2).
Proof.
  intros l1 l2 o Hin. rewrite <- (cmatch_mirror l2 l1).
  destruct (cmatch_covers1 l2 l1 o Hin) as [H|(a & Ha & Hn & H)].
  - left. apply (in_mirror _ _ H).
  - right. exists a. repeat split; try assumption. apply (in_mirror _ _ H).
Qed.

(** non-negativity of every count *)
Lemma ad_float_count : forall a b i n pr, fst (ad_float i a b n pr) = n + Z.of_nat (length (spec_diff_positions i a b)).
Proof.
  induction a as [|x a IH]; intros [|y b] i n pr; simpl; try lia.
  destruct (x =? y); rewrite IH; simpl length; lia.
Qed.

Lemma ad_count_nonneg nt m a b : 0 <= ad_count nt (opts0 m) a b.
Proof.
  unfold ad_count, array_diff_m. destruct (ad_kind nt).
  - rewrite ad_loop_count. lia.
  - rewrite ad_float_count. lia.
  - simpl. lia.
Qed.

Lemma attrs_diff_loop_nonneg : forall a1 a2, 0 <= attrs_diff_loop a1 a2.
Proof.
  induction a1 as [|x a1 IH]; intros [|y a2]; simpl; try lia. unfold sds_attr_info_counted, sds_attr_number_counted, vs_header_counted in *. 
  specialize (IH a2).
  destruct (negb (a_type x =? a_type y) || negb (Z.of_nat (length (a_vals x)) =? Z.of_nat (length (a_vals y))) || negb (zlist_eqb (a_name x) (a_name y))); [lia|].
  destruct (zlist_eqb (a_vals x) (a_vals y)); lia.
Qed.

Lemma diff_sds_m_nonneg t1 d1 v1 a1 t2 d2 v2 a2 : 0 <= diff_sds_m t1 d1 v1 a1 t2 d2 v2 a2.
Proof.
  unfold diff_sds_m. destruct (negb (t1 =? t2)); [lia|]. destruct (negb (zlist_eqb d1 d2)); [lia|].
  destruct v1 as [|x v1]; [lia|]. destruct v2 as [|y v2]; [lia|].
  pose proof (ad_count_nonneg t1 (zprod d1) (x :: v1) (y :: v2)).
  unfold sds_attrs_diff. unfold sds_attr_info_counted, sds_attr_number_counted, vs_header_counted in *. destruct (negb _); [lia|]. pose proof (attrs_diff_loop_nonneg a1 a2). lia.
Qed.
Lemma diff_gr_m_nonneg t1 c1 x1 y1 v1 t2 c2 x2 y2 v2 : 0 <= diff_gr_m t1 c1 x1 y1 v1 t2 c2 x2 y2 v2.
Proof.
  unfold diff_gr_m. destruct (_ || _); [lia|]. destruct (zlist_eqb v1 v2); [lia|]. apply ad_count_nonneg.
Qed.
Lemma diff_vs_m_nonneg n1 f1 v1 n2 f2 v2 : 0 <= diff_vs_m n1 f1 v1 n2 f2 v2.
Proof. unfold diff_vs_m. unfold sds_attr_info_counted, sds_attr_number_counted, vs_header_counted in *. destruct (_ || _); [lia|]. destruct (zlist_eqb v1 v2); lia. Qed.

Ltac c19_cases :=
  repeat match goal with |- context [match ?x with _ => _ end] => destruct x end.

Lemma diff_obj_nonneg o1 o2 : 0 <= diff_obj o1 o2.
Proof.
  unfold diff_obj, diff_obj_tag. destruct (zassoc (obj_tag o1) diff_switch) as [z|]; [|lia].
  destruct (o_body o1), (o_body o2); c19_cases;
    first [lia | apply diff_sds_m_nonneg | apply diff_gr_m_nonneg | apply diff_vs_m_nonneg].
Qed.

Lemma entry_cost_nonneg e : 0 <= entry_cost e.
Proof. destruct e; simpl; try lia. apply diff_obj_nonneg. Qed.

Lemma zsum_nonneg l : Forall (fun x => 0 <= x) l -> 0 <= zsum l.
Proof. induction 1; simpl; lia. Qed.

Lemma zsum_in_le l x : Forall (fun x => 0 <= x) l -> In x l -> x <= zsum l.
Proof.
  induction 1 as [|y l Hy Hl IH]; intros Hin; [contradiction|]. simpl.
  pose proof (zsum_nonneg l Hl). destruct Hin as [->|Hin]; [lia|]. specialize (IH Hin). lia.
Qed.

Lemma costs_nonneg l : Forall (fun x => 0 <= x) (map entry_cost l).
Proof. apply Forall_forall. intros x Hx. apply in_map_iff in Hx. destruct Hx as (e & <- & _). apply entry_cost_nonneg. Qed.

Lemma match_m_nonneg l1 l2 : 0 <= match_m l1 l2.
Proof. apply zsum_nonneg, costs_nonneg. Qed.

Lemma match_flags_removed_lemma : forall l1 l2 o, In o l1 -> ~ In (o_name o) (map o_name l2) ->
  In (Only1 o) (cmatch l1 l2).
Proof.
  intros l1 l2 o Hin Hno.
  destruct (cmatch_covers1 l1 l2 o Hin) as [H|(b & Hb & Hn & _)]; [assumption|].
  exfalso. apply Hno. rewrite Hn. apply in_map. assumption.
Qed.

Lemma match_flags_added_lemma : forall l1 l2 o, In o l2 -> ~ In (o_name o) (map o_name l1) ->
  In (Only2 o) (cmatch l1 l2).
Proof.
  intros l1 l2 o Hin Hno.
  destruct (cmatch_covers2 l1 l2 o Hin) as [H|(b & Hb & Hn & _)]; [assumption|].
  exfalso. apply Hno. rewrite Hn. apply in_map. assumption.
Qed.

(** a one-sided entry is in the table but not in the count: an added object goes unnoticed by the exit status *)
Lemma match_added_refuted_lemma : exists l1 l2 o, In o l2 /\ ~ In (o_name o) (map o_name l1) /\
  In (Only2 o) (cmatch l1 l2) /\ match_m l1 l2 = 0 /\ 1 <= match_wanted l1 l2.
Proof.
  exists [mkobj [97] BVg], [mkobj [97] BVg; mkobj [98] (BSds 24 [2] [1; 2] [])], (mkobj [98] (BSds 24 [2] [1; 2] [])).
  split; [right; left; reflexivity|]. split; [simpl; intros [H|[]]; discriminate|].
  split; [right; left; reflexivity|]. split; [reflexivity | vm_compute; discriminate].
Qed.

(* ------------------------------------------------------------------------------------------ *)
(** * hdiff is reflexive and symmetric in whether differences are found *)

Lemma zlist_eqb_eq : forall a b, zlist_eqb a b = true <-> a = b.
Proof.
  induction a as [|x a IH]; intros [|y b]; simpl; split; intros H; try reflexivity; try discriminate.
  - apply andb_true_iff in H. destruct H as [H1 H2]. apply Z.eqb_eq in H1. apply IH in H2. congruence.
  - injection H as -> ->. rewrite Z.eqb_refl. simpl. apply IH. reflexivity.
Qed.
Lemma zlist_eqb_refl a : zlist_eqb a a = true.
Proof. apply zlist_eqb_eq. reflexivity. Qed.
Lemma zlist_eqb_sym : forall a b, zlist_eqb a b = zlist_eqb b a.
Proof. induction a as [|x a IH]; intros [|y b]; simpl; try reflexivity. rewrite (Z.eqb_sym x y), IH. reflexivity. Qed.

Lemma ad_kind_cases nt :
  ad_kind nt = ADInt br8 \/ ad_kind nt = ADInt br16 \/ ad_kind nt = ADInt br32 \/ ad_kind nt = ADFloat \/ ad_kind nt = ADBad.
Proof. unfold ad_kind. cbv zeta. destruct (zmem _ ad8_types); auto. destruct (zmem _ ad16_types); auto.
  destruct (zmem _ ad32_types); auto. destruct (_ || _); auto. destruct (float_own_width _); auto. Qed.

Lemma flagged_sym8 x y : flagged br8 x y = flagged br8 y x.
Proof.
  unfold flagged, br8; cbn [br_over br_diff br_sg br_bits]. unfold ad8_elt_signed, ad8_elt_bits, reinterp, ad8_over.
  pose proof (swrap8_range x). pose proof (swrap8_range y). rewrite !ad8_diff_abs by lia.
  replace (swrap 8 y - swrap 8 x) with (- (swrap 8 x - swrap 8 y)) by lia. rewrite Z.abs_opp. reflexivity.
Qed.
Lemma flagged_sym16 x y : flagged br16 x y = flagged br16 y x.
Proof.
  unfold flagged, br16; cbn [br_over br_diff br_sg br_bits]. unfold ad16_elt_signed, ad16_elt_bits, reinterp, ad16_over.
  pose proof (swrap16_range x). pose proof (swrap16_range y). rewrite !ad16_diff_abs by lia.
  replace (swrap 16 y - swrap 16 x) with (- (swrap 16 x - swrap 16 y)) by lia. rewrite Z.abs_opp. reflexivity.
Qed.
Lemma flagged_sym32 x y : flagged br32 x y = flagged br32 y x.
Proof.
  unfold flagged, br32; cbn [br_over br_diff br_sg br_bits]. unfold ad32_elt_signed, ad32_elt_bits, reinterp, ad32_over.
  pose proof (swrap32_range x). pose proof (swrap32_range y). rewrite !ad32_diff_sat by lia.
  replace (swrap 32 y - swrap 32 x) with (- (swrap 32 x - swrap 32 y)) by lia. rewrite Z.abs_opp. reflexivity.
Qed.

Lemma flagged_positions_sym br : (forall x y, flagged br x y = flagged br y x) ->
  forall a b i, flagged_positions br i a b = flagged_positions br i b a.
Proof.
  intros F. induction a as [|x a IH]; intros [|y b] i; simpl; try reflexivity.
  rewrite (F x y), IH. reflexivity.
Qed.

Lemma spec_positions_sym : forall a b i, spec_diff_positions i a b = spec_diff_positions i b a.
Proof. induction a as [|x a IH]; intros [|y b] i; simpl; try reflexivity. rewrite (Z.eqb_sym x y), IH. reflexivity. Qed.

Lemma ad_count_sym nt m m' a b : ad_count nt (opts0 m) a b = ad_count nt (opts0 m') b a.
Proof.
  unfold ad_count, array_diff_m.
  destruct (ad_kind_cases nt) as [K|[K|[K|[K|K]]]]; rewrite K.
  - rewrite !ad_loop_count, (flagged_positions_sym br8 flagged_sym8). reflexivity.
  - rewrite !ad_loop_count, (flagged_positions_sym br16 flagged_sym16). reflexivity.
  - rewrite !ad_loop_count, (flagged_positions_sym br32 flagged_sym32). reflexivity.
  - rewrite !ad_float_count, spec_positions_sym. reflexivity.
  - reflexivity.
Qed.

Lemma flagged_positions_refl br : (forall x, flagged br x x = false) -> forall a i, flagged_positions br i a a = [].
Proof. intros F. induction a as [|x a IH]; intros i; simpl; [reflexivity|]. rewrite F. apply IH. Qed.

Lemma spec_positions_refl : forall a i, spec_diff_positions i a a = [].
Proof. induction a as [|x a IH]; intros i; simpl; [reflexivity|]. rewrite Z.eqb_refl. apply IH. Qed.

Lemma ad_count_refl nt m a : ad_count nt (opts0 m) a a = 0.
Proof.
  unfold ad_count, array_diff_m.
  destruct (ad_kind_cases nt) as [K|[K|[K|[K|K]]]]; rewrite K.
  - rewrite ad_loop_count, flagged_positions_refl; [reflexivity|]. intros x. rewrite flagged_br8 by (rewrite Z.sub_diag; simpl; lia). rewrite Z.eqb_refl. reflexivity.
  - rewrite ad_loop_count, flagged_positions_refl; [reflexivity|]. intros x. rewrite flagged_br16 by (rewrite Z.sub_diag; simpl; lia). rewrite Z.eqb_refl. reflexivity.
  - rewrite ad_loop_count, flagged_positions_refl; [reflexivity|]. intros x. rewrite flagged_br32 by (rewrite Z.sub_diag; simpl; lia). rewrite Z.eqb_refl. reflexivity.
  - rewrite ad_float_count, spec_positions_refl. reflexivity.
  - reflexivity.
Qed.

Lemma attrs_diff_loop_refl : forall a, attrs_diff_loop a a = 0.
Proof. induction a as [|x a IH]; simpl; [reflexivity|]. rewrite !Z.eqb_refl, !zlist_eqb_refl. simpl. assumption. Qed.

Lemma attrs_diff_loop_sym : forall a b, attrs_diff_loop a b = attrs_diff_loop b a.
Proof.
  induction a as [|x a IH]; intros [|y b]; simpl; try reflexivity.
  rewrite (Z.eqb_sym (a_type x)), (Z.eqb_sym (Z.of_nat (length (a_vals x)))), (zlist_eqb_sym (a_name x)), (zlist_eqb_sym (a_vals x)), IH.
  reflexivity.
Qed.

Lemma diff_sds_m_refl t d v a : diff_sds_m t d v a t d v a = 0.
Proof.
  unfold diff_sds_m. rewrite Z.eqb_refl, zlist_eqb_refl. simpl. destruct v; [reflexivity|].
  rewrite ad_count_refl. unfold sds_attrs_diff. rewrite Z.eqb_refl. simpl. apply attrs_diff_loop_refl.
Qed.

Lemma diff_sds_m_sym t1 d1 v1 a1 t2 d2 v2 a2 : diff_sds_m t1 d1 v1 a1 t2 d2 v2 a2 = diff_sds_m t2 d2 v2 a2 t1 d1 v1 a1.
Proof.
  unfold diff_sds_m. rewrite (Z.eqb_sym t2 t1), (zlist_eqb_sym d2 d1).
  destruct (Z.eqb_spec t1 t2) as [->|]; [|reflexivity]. simpl.
  destruct (zlist_eqb d1 d2); [|reflexivity]. simpl.
  destruct v1, v2; try reflexivity.
  rewrite (ad_count_sym t2 (zprod d1) (zprod d2)). unfold sds_attrs_diff.
  rewrite (Z.eqb_sym (Z.of_nat (length a2))), (attrs_diff_loop_sym a2 a1). reflexivity.
Qed.

Lemma diff_gr_m_refl t c x y v : diff_gr_m t c x y v t c x y v = 0.
Proof. unfold diff_gr_m. rewrite !Z.eqb_refl, zlist_eqb_refl. reflexivity. Qed.

Lemma diff_gr_m_sym t1 c1 x1 y1 v1 t2 c2 x2 y2 v2 : diff_gr_m t1 c1 x1 y1 v1 t2 c2 x2 y2 v2 = diff_gr_m t2 c2 x2 y2 v2 t1 c1 x1 y1 v1.
Proof.
  unfold diff_gr_m. rewrite (Z.eqb_sym t2 t1), (Z.eqb_sym c2 c1), (Z.eqb_sym x2 x1), (Z.eqb_sym y2 y1), (zlist_eqb_sym v2 v1).
  destruct (Z.eqb_spec t1 t2) as [->|]; [|reflexivity].
  destruct (Z.eqb_spec c1 c2) as [->|]; [|reflexivity].
  destruct (Z.eqb_spec x1 x2) as [->|]; [|reflexivity].
  destruct (Z.eqb_spec y1 y2) as [->|]; [|reflexivity]. simpl.
  destruct (zlist_eqb v1 v2); [reflexivity|]. apply ad_count_sym.
Qed.

Lemma field_eqb_sym f g : field_eqb f g = field_eqb g f.
Proof. unfold field_eqb. rewrite (zlist_eqb_sym (fst f)), (Z.eqb_sym (fst (snd f))), (Z.eqb_sym (snd (snd f))). reflexivity. Qed.
Lemma field_eqb_refl f : field_eqb f f = true.
Proof. unfold field_eqb. rewrite zlist_eqb_refl, !Z.eqb_refl. reflexivity. Qed.
Lemma list_eqb_sym {A} (e : A -> A -> bool) : (forall x y, e x y = e y x) -> forall a b, list_eqb e a b = list_eqb e b a.
Proof. intros S. induction a as [|x a IH]; intros [|y b]; simpl; try reflexivity. rewrite (S x y), IH. reflexivity. Qed.
Lemma list_eqb_refl {A} (e : A -> A -> bool) : (forall x, e x x = true) -> forall a, list_eqb e a a = true.
Proof. intros R. induction a as [|x a IH]; simpl; [reflexivity|]. rewrite R, IH. reflexivity. Qed.

Lemma diff_vs_m_refl n f v : diff_vs_m n f v n f v = 0.
Proof. unfold diff_vs_m. rewrite Z.eqb_refl, (list_eqb_refl _ field_eqb_refl), zlist_eqb_refl. reflexivity. Qed.
Lemma diff_vs_m_sym n1 f1 v1 n2 f2 v2 : diff_vs_m n1 f1 v1 n2 f2 v2 = diff_vs_m n2 f2 v2 n1 f1 v1.
Proof. unfold diff_vs_m. rewrite (Z.eqb_sym n2 n1), (list_eqb_sym _ field_eqb_sym f2 f1), (zlist_eqb_sym v2 v1). reflexivity. Qed.

Lemma diff_obj_refl o : diff_obj o o = 0.
Proof.
  unfold diff_obj, diff_obj_tag, obj_tag. destruct (o_body o); c19_cases;
    first [reflexivity | apply diff_sds_m_refl | apply diff_gr_m_refl | apply diff_vs_m_refl].
Qed.

Lemma diff_obj_sym o1 o2 : diff_obj o1 o2 = diff_obj o2 o1.
Proof.
  unfold diff_obj, diff_obj_tag, obj_tag. destruct (o_body o1), (o_body o2); c19_cases;
    first [reflexivity | apply diff_sds_m_sym | apply diff_gr_m_sym | apply diff_vs_m_sym | discriminate | idtac].
Qed.

Lemma entry_cost_mirror e : entry_cost (mirror e) = entry_cost e.
Proof. destruct e; simpl; try reflexivity. apply diff_obj_sym. Qed.

Lemma match_m_sym l1 l2 : match_m l2 l1 = match_m l1 l2.
Proof.
  unfold match_m. rewrite <- (cmatch_mirror l1 l2), map_map. f_equal. apply map_ext. apply entry_cost_mirror.
Qed.

Lemma match_m_refl l : match_m l l = 0.
Proof.
  unfold match_m. rewrite cmatch_same, map_map. induction l as [|o l IH]; [reflexivity|].
  cbn [map zsum entry_cost]. rewrite diff_obj_refl. cbn [entry_cost] in IH. rewrite IH. reflexivity.
Qed.

(** global attributes: SDfindattr finds the attribute itself when names are unique *)
Lemma find_attr_in : forall g name a, find_attr name g = Some a -> In a g /\ a_name a = name.
Proof.
  induction g as [|b g IH]; intros name a H; [discriminate|]. simpl in H.
  destruct (zlist_eqb name (a_name b)) eqn:E.
  - injection H as <-. split; [left; reflexivity|]. symmetry. apply zlist_eqb_eq. assumption.
  - destruct (IH _ _ H). split; [right; assumption | assumption].
Qed.

Lemma find_attr_none : forall g name, find_attr name g = None -> ~ In name (map a_name g).
Proof.
  induction g as [|b g IH]; intros name H; [intros []|]. simpl in H.
  destruct (zlist_eqb name (a_name b)) eqn:E; [discriminate|].
  intros [H1|H1]; [|exact (IH _ H H1)]. subst. rewrite zlist_eqb_refl in E. discriminate.
Qed.

Lemma find_attr_self : forall g a, NoDup (map a_name g) -> In a g -> find_attr (a_name a) g = Some a.
Proof.
  induction g as [|b g IH]; intros a ND Hin; [contradiction|]. simpl in ND. inversion ND as [|? ? Hnot ND']; subst.
  simpl. destruct (zlist_eqb (a_name a) (a_name b)) eqn:E.
  - apply zlist_eqb_eq in E. destruct Hin as [->|Hin]; [reflexivity|].
    exfalso. apply Hnot. rewrite <- E. apply in_map. assumption.
  - destruct Hin as [->|Hin]; [rewrite zlist_eqb_refl in E; discriminate|]. apply IH; assumption.
Qed.

Definition attr_agree (a b : attr) : bool :=
  (a_type a =? a_type b) && (Z.of_nat (length (a_vals a)) =? Z.of_nat (length (a_vals b))) && zlist_eqb (a_vals a) (a_vals b).

Lemma gattr_one_alt g2 a : gattr_one g2 a =
  match find_attr (a_name a) g2 with None => 1 | Some b => if attr_agree a b then 0 else 1 end.
Proof.
  unfold gattr_one, attr_agree. destruct (find_attr (a_name a) g2); [|reflexivity].
  destruct (a_type a =? a_type a0), (Z.of_nat (length (a_vals a)) =? Z.of_nat (length (a_vals a0))), (zlist_eqb (a_vals a) (a_vals a0)); reflexivity.
Qed.

Lemma attr_agree_sym a b : attr_agree a b = attr_agree b a.
Proof. unfold attr_agree. rewrite (Z.eqb_sym (a_type a)), (Z.eqb_sym (Z.of_nat (length (a_vals a)))), (zlist_eqb_sym (a_vals a)). reflexivity. Qed.
Lemma attr_agree_refl a : attr_agree a a = true.
Proof. unfold attr_agree. rewrite !Z.eqb_refl, zlist_eqb_refl. reflexivity. Qed.

Lemma zsum_zero_iff l : Forall (fun x => 0 <= x) l -> (zsum l = 0 <-> Forall (fun x => x = 0) l).
Proof.
  induction 1 as [|x l Hx Hl IH]; simpl; [split; auto|].
  pose proof (zsum_nonneg l Hl). split.
  - intros E. constructor; [lia|]. apply IH. lia.
  - intros F. inversion F; subst. apply IH in H3. lia.
Qed.

Lemma gattr_one_nonneg g a : 0 <= gattr_one g a.
Proof. rewrite gattr_one_alt. destruct (find_attr _ _); [destruct (attr_agree _ _)|]; lia. Qed.
Lemma gattr_missing_nonneg g a : 0 <= gattr_missing g a.
Proof. unfold gattr_missing. destruct (find_attr _ _); lia. Qed.
Lemma map_nonneg {A} (f : A -> Z) l : (forall x, 0 <= f x) -> Forall (fun x => 0 <= x) (map f l).
Proof. intros H. apply Forall_forall. intros x Hx. apply in_map_iff in Hx. destruct Hx as (e & <- & _). apply H. Qed.

Lemma gattr_diff_nonneg g1 g2 : 0 <= gattr_diff_m g1 g2.
Proof.
  unfold gattr_diff_m.
  pose proof (zsum_nonneg _ (map_nonneg (gattr_one g2) g1 (gattr_one_nonneg g2))).
  pose proof (zsum_nonneg _ (map_nonneg (gattr_missing g1) g2 (gattr_missing_nonneg g1))). lia.
Qed.

(** gattr_diff = 0 says: every attribute of g1 is found in g2 and agrees; every name of g2 is found in g1 *)
Lemma gattr_zero_iff g1 g2 : gattr_diff_m g1 g2 = 0 <->
  (forall a, In a g1 -> exists b, find_attr (a_name a) g2 = Some b /\ attr_agree a b = true) /\
  (forall b, In b g2 -> find_attr (a_name b) g1 <> None).
Proof.
  unfold gattr_diff_m.
  pose proof (map_nonneg (gattr_one g2) g1 (gattr_one_nonneg g2)) as N1.
  pose proof (map_nonneg (gattr_missing g1) g2 (gattr_missing_nonneg g1)) as N2.
  pose proof (zsum_nonneg _ N1). pose proof (zsum_nonneg _ N2).
  split.
  - intros E. assert (E1 : zsum (map (gattr_one g2) g1) = 0) by lia. assert (E2 : zsum (map (gattr_missing g1) g2) = 0) by lia.
    apply (zsum_zero_iff _ N1) in E1. apply (zsum_zero_iff _ N2) in E2. rewrite Forall_forall in E1, E2.
    split.
    + intros a Ha. specialize (E1 _ (in_map _ _ _ Ha)). rewrite gattr_one_alt in E1.
      destruct (find_attr (a_name a) g2) as [b|]; [|discriminate]. exists b. split; [reflexivity|].
      destruct (attr_agree a b); [reflexivity | discriminate].
    + intros b Hb. specialize (E2 _ (in_map _ _ _ Hb)). unfold gattr_missing in E2.
      destruct (find_attr (a_name b) g1); [discriminate | discriminate].
  - intros [A B].
    assert (E1 : zsum (map (gattr_one g2) g1) = 0).
    { apply (zsum_zero_iff _ N1). apply Forall_forall. intros x Hx. apply in_map_iff in Hx. destruct Hx as (a & <- & Ha).
      destruct (A a Ha) as (b & Fb & Ag). rewrite gattr_one_alt, Fb, Ag. reflexivity. }
    assert (E2 : zsum (map (gattr_missing g1) g2) = 0).
    { apply (zsum_zero_iff _ N2). apply Forall_forall. intros x Hx. apply in_map_iff in Hx. destruct Hx as (b & <- & Hb).
      specialize (B b Hb). unfold gattr_missing. destruct (find_attr (a_name b) g1); [reflexivity | contradiction]. }
    lia.
Qed.

Lemma gattr_refl g : NoDup (map a_name g) -> gattr_diff_m g g = 0.
Proof.
  intros ND. apply gattr_zero_iff. split.
  - intros a Ha. exists a. split; [apply find_attr_self; assumption | apply attr_agree_refl].
  - intros b Hb. rewrite find_attr_self by assumption. discriminate.
Qed.

Lemma gattr_zero_sym g1 g2 : NoDup (map a_name g2) -> gattr_diff_m g1 g2 = 0 -> gattr_diff_m g2 g1 = 0.
Proof.
  intros ND E. apply gattr_zero_iff in E. destruct E as [A B]. apply gattr_zero_iff. split.
  - intros b Hb. specialize (B b Hb). destruct (find_attr (a_name b) g1) as [a|] eqn:Fa; [|contradiction].
    exists a. split; [reflexivity|]. destruct (find_attr_in _ _ _ Fa) as [Ha Hn].
    destruct (A a Ha) as (b' & Fb & Ag). rewrite Hn in Fb. rewrite find_attr_self in Fb by assumption.
    injection Fb as <-. rewrite attr_agree_sym. assumption.
  - intros a Ha. destruct (A a Ha) as (b & Fb & _). rewrite Fb. discriminate.
Qed.

Lemma hdiff_reflexive_lemma : forall f, NoDup (map a_name (f_gattrs f)) -> hdiff_m f f = 0 /\ hdiff_exit_m f f = 0.
Proof.
  intros f ND. assert (E : hdiff_m f f = 0) by (unfold hdiff_m; rewrite match_m_refl, gattr_refl by assumption; reflexivity).
  split; [assumption|]. unfold hdiff_exit_m. rewrite E. reflexivity.
Qed.

Lemma hdiff_zero_sym f1 f2 : NoDup (map a_name (f_gattrs f2)) -> hdiff_m f1 f2 = 0 -> hdiff_m f2 f1 = 0.
Proof.
  unfold hdiff_m. intros ND E.
  pose proof (match_m_nonneg (f_objs f1) (f_objs f2)). pose proof (gattr_diff_nonneg (f_gattrs f1) (f_gattrs f2)).
  rewrite match_m_sym. rewrite (gattr_zero_sym (f_gattrs f1) (f_gattrs f2)) by (assumption || lia). lia.
Qed.

Lemma hdiff_symmetric_found_lemma : forall f1 f2,
  NoDup (map a_name (f_gattrs f1)) -> NoDup (map a_name (f_gattrs f2)) ->
  hdiff_exit_m f1 f2 = hdiff_exit_m f2 f1.
Proof.
  intros f1 f2 N1 N2. unfold hdiff_exit_m.
  destruct (Z.eqb_spec (hdiff_m f1 f2) 0) as [E|E], (Z.eqb_spec (hdiff_m f2 f1) 0) as [E'|E']; try reflexivity.
  - exfalso. apply E'. apply hdiff_zero_sym; assumption.
  - exfalso. apply E. apply hdiff_zero_sym; assumption.
Qed.

(* ------------------------------------------------------------------------------------------ *)
(** * A changed value in an object present in both files is flagged *)

Lemma cmatch_same_names : forall l1 l2, map o_name l1 = map o_name l2 ->
  cmatch l1 l2 = map (fun p => Both (fst p) (snd p)) (combine l1 l2).
Proof.
  induction l1 as [|a l1 IH]; intros [|b l2] E; try discriminate; [reflexivity|].
  simpl in E. injection E as En E. rewrite cmatch_cons, En, strcmp_refl. simpl. f_equal. apply IH. assumption.
Qed.

Lemma hdiff_flags_changed_pair_lemma : forall f1 f2 a b,
  In (Both a b) (cmatch (f_objs f1) (f_objs f2)) -> 1 <= diff_obj a b -> 1 <= hdiff_m f1 f2.
Proof.
  intros f1 f2 a b Hin Hd. unfold hdiff_m, match_m.
  pose proof (gattr_diff_nonneg (f_gattrs f1) (f_gattrs f2)).
  pose proof (zsum_in_le _ (entry_cost (Both a b)) (costs_nonneg (cmatch (f_objs f1) (f_objs f2))) (in_map _ _ _ Hin)).
  simpl in H0. lia.
Qed.

Lemma ad_count_pos nt lo hi a b m : nt_range nt = Some (lo, hi) -> Forall (in_range lo hi) a -> Forall (in_range lo hi) b ->
  length a = length b -> a <> b -> 1 <= ad_count nt (opts0 m) a b.
Proof.
  intros R Ha Hb L N. pose proof (ad_count_nonneg nt m a b).
  destruct (Z.eq_dec (ad_count nt (opts0 m) a b) 0) as [E|E]; [|lia].
  exfalso. apply N. apply (array_diff_zero_iff_equal_lemma nt lo hi a b m); assumption.
Qed.

Lemma diff_sds_flags_value_lemma : forall nt lo hi d v1 v2 a1 a2,
  nt_range nt = Some (lo, hi) -> Forall (in_range lo hi) v1 -> Forall (in_range lo hi) v2 ->
  length v1 = length v2 -> v1 <> v2 -> 1 <= diff_sds_m nt d v1 a1 nt d v2 a2.
Proof.
  intros nt lo hi d v1 v2 a1 a2 R H1 H2 L N. unfold diff_sds_m. rewrite Z.eqb_refl, zlist_eqb_refl. simpl.
  pose proof (ad_count_pos nt lo hi v1 v2 (zprod d) R H1 H2 L N) as P.
  assert (A : 0 <= sds_attrs_diff a1 a2).
  { unfold sds_attrs_diff. unfold sds_attr_info_counted, sds_attr_number_counted, vs_header_counted in *. destruct (negb _); [lia | apply attrs_diff_loop_nonneg]. }
  destruct v1 as [|x v1]; destruct v2 as [|y v2]; try discriminate; [contradiction|]. lia.
Qed.

Lemma diff_vs_flags_value_lemma : forall n f v1 v2, v1 <> v2 -> diff_vs_m n f v1 n f v2 = 1.
Proof.
  intros n f v1 v2 N. unfold diff_vs_m. rewrite Z.eqb_refl, (list_eqb_refl _ field_eqb_refl). simpl.
  destruct (zlist_eqb v1 v2) eqn:E; [|reflexivity]. apply zlist_eqb_eq in E. contradiction.
Qed.

Lemma diff_gr_flags_value_lemma : forall nt lo hi c x y v1 v2,
  nt_range nt = Some (lo, hi) -> Forall (in_range lo hi) v1 -> Forall (in_range lo hi) v2 ->
  0 <= x * y * c -> Z.of_nat (length v1) = x * y * c -> Z.of_nat (length v2) = x * y * c -> v1 <> v2 ->
  1 <= diff_gr_m nt c x y v1 nt c x y v2.
Proof.
  intros nt lo hi c x y v1 v2 R H1 H2 P L1 L2 N. unfold diff_gr_m. rewrite !Z.eqb_refl. simpl.
  destruct (zlist_eqb v1 v2) eqn:E; [apply zlist_eqb_eq in E; contradiction|].
  unfold gr_cmp_count.
  rewrite (firstn_all2 v1) by (apply Nat2Z.inj_le; rewrite Z2Nat.id by lia; lia).
  rewrite (firstn_all2 v2) by (apply Nat2Z.inj_le; rewrite Z2Nat.id by lia; lia).
  apply (ad_count_pos nt lo hi); try assumption. apply Nat2Z.inj. lia.
Qed.

(** the count diff_gr passed before the repair did not cover the later components: witness *)
Lemma diff_gr_orig_refuted_lemma : exists v1 v2, v1 <> v2 /\ length v1 = length v2 /\
  let n := Z.to_nat (2 * 1) in ad_count 21 (opts0 2) (firstn n v1) (firstn n v2) = 0.
Proof. exists [1; 2; 3; 4], [1; 2; 3; 5]. split; [discriminate|]. split; reflexivity. Qed.

(* ------------------------------------------------------------------------------------------ *)
(** * hdp's row walk visits the rows in row-major order *)

Fixpoint enc (dims : list Z) (k : Z) : ostate :=
  match dims with
  | [] => []
  | d :: r => let s := (k / zprod r) mod d in (s, (d - s, d)) :: enc r k
  end.

Lemma zprod_pos dims : Forall (fun d => 0 < d) dims -> 0 < zprod dims.
Proof. induction 1; simpl; [lia|]. apply Z.mul_pos_pos; assumption. Qed.

Lemma enc0 dims : Forall (fun d => 0 < d) dims -> enc dims 0 = ostate0 dims.
Proof.
  induction 1 as [|d r Hd Hr IH]; [reflexivity|]. simpl. rewrite Z.div_0_l by (pose proof (zprod_pos r Hr); lia).
  rewrite Z.mod_0_l by lia. rewrite Z.sub_0_r. f_equal. assumption.
Qed.

Lemma starts_enc dims k : starts (enc dims k) = spec_index dims k.
Proof. induction dims as [|d r IH]; [reflexivity|]. simpl. f_equal. assumption. Qed.

Lemma div_succ_exact P k : 0 < P -> 0 <= k -> (k + 1) mod P = 0 -> (k + 1) / P = k / P + 1.
Proof.
  intros HP Hk E. pose proof (Z.div_mod (k + 1) P ltac:(lia)) as D. rewrite E in D.
  symmetry. assert (k / P = (k + 1) / P - 1); [|lia].
  symmetry. apply (Z.div_unique k P ((k + 1) / P - 1) (P - 1)); [lia|]. lia.
Qed.

Lemma div_succ_inexact P k : 0 < P -> 0 <= k -> (k + 1) mod P <> 0 -> (k + 1) / P = k / P.
Proof.
  intros HP Hk E. pose proof (Z.div_mod k P ltac:(lia)) as D. pose proof (Z.mod_pos_bound k P HP) as B.
  symmetry. apply (Z.div_unique (k + 1) P (k / P) (k mod P + 1)); [|lia].
  assert (k mod P + 1 <> P); [|lia]. intros C. apply E.
  replace (k + 1) with (P * (k / P + 1)) by lia. rewrite Z.mul_comm. apply Z.mod_mul. lia.
Qed.

Lemma mod_mul_zero_iff P d n : 0 < P -> 0 < d -> (n mod (d * P) = 0 <-> n mod P = 0 /\ (n / P) mod d = 0).
Proof.
  intros HP Hd. rewrite (Z.mul_comm d P), Z.rem_mul_r by lia.
  pose proof (Z.mod_pos_bound n P HP). pose proof (Z.mod_pos_bound (n / P) d Hd). split.
  - intros E. assert (0 <= P * ((n / P) mod d)) by (apply Z.mul_nonneg_nonneg; lia). split; [lia|].
    assert (P * ((n / P) mod d) = 0) by lia. apply Z.mul_eq_0 in H2. lia.
  - intros [-> ->]. lia.
Qed.

Lemma ostep_enc : forall dims k, Forall (fun d => 0 < d) dims -> 0 <= k ->
  ostep (enc dims k) = (enc dims (k + 1), (k + 1) mod zprod dims =? 0).
Proof.
  induction dims as [|d r IH]; intros k Hpos Hk.
  - simpl. rewrite Z.mod_1_r. reflexivity.
  - inversion Hpos as [|? ? Hd Hr]; subst. pose proof (zprod_pos r Hr) as HP.
    cbn [enc ostep]. rewrite (IH k Hr Hk). cbn [zprod].
    pose proof (Z.mod_pos_bound (k / zprod r) d Hd) as Bs.
    destruct (Z.eqb_spec ((k + 1) mod zprod r) 0) as [E|E].
    + rewrite (div_succ_exact _ _ HP Hk E).
      destruct (Z.ltb_spec 0 (d - (k / zprod r) mod d - 1)) as [L|L].
      * assert (M : (k / zprod r + 1) mod d = (k / zprod r) mod d + 1).
        { rewrite Z.add_mod by lia. rewrite (Z.mod_small 1 d) by lia. apply Z.mod_small. lia. }
        rewrite M. f_equal; [f_equal; f_equal; f_equal; lia|].
        symmetry. apply Z.eqb_neq. intros C. apply (mod_mul_zero_iff _ _ _ HP Hd) in C. destruct C as [_ C].
        rewrite (div_succ_exact _ _ HP Hk E), M in C. lia.
      * assert (M : (k / zprod r + 1) mod d = 0).
        { pose proof (Z.div_mod (k / zprod r) d ltac:(lia)) as D.
          replace (k / zprod r + 1) with ((k / zprod r / d + 1) * d) by lia. apply Z.mod_mul. lia. }
        rewrite M. f_equal; [f_equal; f_equal; f_equal; lia|].
        symmetry. apply Z.eqb_eq. apply (mod_mul_zero_iff _ _ _ HP Hd). split; [assumption|].
        rewrite (div_succ_exact _ _ HP Hk E). assumption.
    + rewrite (div_succ_inexact _ _ HP Hk E). f_equal.
      symmetry. apply Z.eqb_neq. intros C. apply (mod_mul_zero_iff _ _ _ HP Hd) in C. tauto.
Qed.

Lemma owalk_enc dims : Forall (fun d => 0 < d) dims ->
  forall m k, (0 < m)%nat -> Z.of_nat k + Z.of_nat m = zprod dims ->
  owalk m (enc dims (Z.of_nat k)) = Some (map (fun i => spec_index dims (Z.of_nat i)) (seq k m)).
Proof.
  intros Hpos. induction m as [|m IH]; intros k Hm Hsum; [lia|].
  cbn [owalk]. rewrite (ostep_enc dims (Z.of_nat k) Hpos) by lia.
  destruct (Z.eqb_spec ((Z.of_nat k + 1) mod zprod dims) 0) as [E|E].
  - assert (m = O).
    { destruct m; [reflexivity|]. exfalso. rewrite Z.mod_small in E by lia. lia. }
    subst m. simpl. rewrite starts_enc. reflexivity.
  - assert (0 < m)%nat.
    { destruct m; [|lia]. exfalso. apply E. replace (Z.of_nat k + 1) with (zprod dims) by lia. apply Z.mod_same.
      pose proof (zprod_pos dims Hpos). lia. }
    replace (Z.of_nat k + 1) with (Z.of_nat (S k)) by lia.
    rewrite (IH (S k)) by lia. cbn [seq map]. rewrite starts_enc. reflexivity.
Qed.

Lemma dump_order_rowmajor_lemma : forall dims, Forall (fun d => 0 < d) dims ->
  owalk (Z.to_nat (zprod dims)) (ostate0 dims) =
  Some (map (fun i => spec_index dims (Z.of_nat i)) (seq 0 (Z.to_nat (zprod dims)))).
Proof.
  intros dims Hpos. pose proof (zprod_pos dims Hpos). rewrite <- (enc0 dims Hpos).
  apply (owalk_enc dims Hpos (Z.to_nat (zprod dims)) O); lia.
Qed.

Lemma spec_offset_index : forall dims k, Forall (fun d => 0 < d) dims ->
  spec_offset dims (spec_index dims k) = k mod zprod dims.
Proof.
  induction dims as [|d r IH]; intros k Hpos; [simpl; rewrite Z.mod_1_r; reflexivity|].
  inversion Hpos as [|? ? Hd Hr]; subst. pose proof (zprod_pos r Hr).
  cbn [spec_index spec_offset zprod]. rewrite (IH k Hr). rewrite (Z.mul_comm d), Z.rem_mul_r by lia. lia.
Qed.

Lemma rowmajor_linear_lemma : forall dims k, Forall (fun d => 0 < d) dims -> 0 <= k < zprod dims ->
  spec_offset dims (spec_index dims k) = k.
Proof. intros. rewrite spec_offset_index by assumption. apply Z.mod_small. assumption. Qed.

(* ------------------------------------------------------------------------------------------ *)
(** * Decimal text: what hdp prints parses back to the value; hdfimport's tokeniser reads what was written *)

Definition dstep (a c : Z) : Z := a * 10 + (c - 48).

Lemma dec_rev_val : forall f n, 0 <= n < 2 ^ Z.of_nat f -> fold_right (fun c a => dstep a c) 0 (dec_rev f n) = n.
Proof.
  induction f as [|f IH]; intros n H.
  - simpl in *. lia.
  - cbn [dec_rev fold_right]. unfold dstep at 1. destruct (Z.ltb_spec n 10) as [L|L].
    + cbn [fold_right]. rewrite Z.mod_small by lia. lia.
    + rewrite IH.
      * pose proof (Z.div_mod n 10 ltac:(lia)). lia.
      * rewrite Nat2Z.inj_succ, Z.pow_succ_r in H by lia. split; [apply Z.div_pos; lia|].
        apply Z.div_lt_upper_bound; lia.
Qed.

Lemma dec_rev_digits : forall f n, 0 <= n -> Forall (fun c => is_digit c = true) (dec_rev f n).
Proof.
  induction f as [|f IH]; intros n H; [constructor|]. cbn [dec_rev]. constructor.
  - unfold is_digit. pose proof (Z.mod_pos_bound n 10 ltac:(lia)). apply andb_true_iff. split; apply Z.leb_le; lia.
  - destruct (n <? 10); [constructor|]. apply IH. apply Z.div_pos; lia.
Qed.

Lemma fmt_nat_val n : 0 <= n -> fold_left dstep (fmt_nat n) 0 = n.
Proof.
  intros H. unfold fmt_nat. rewrite <- fold_left_rev_right, rev_involutive. apply dec_rev_val.
  split; [assumption|]. rewrite Nat2Z.inj_succ, Z2Nat.id by apply Z.log2_nonneg.
  destruct (Z.eq_dec n 0) as [->|]; [simpl; lia|]. apply Z.log2_spec. lia.
Qed.

Lemma fmt_nat_digits n : 0 <= n -> Forall (fun c => is_digit c = true) (fmt_nat n).
Proof. intros H. unfold fmt_nat. apply Forall_rev. apply dec_rev_digits. assumption. Qed.

Lemma fmt_nat_nonempty n : fmt_nat n <> [].
Proof. unfold fmt_nat. cbn [dec_rev]. intros E. apply (f_equal (@length Z)) in E. rewrite rev_length in E. simpl in E. lia. Qed.

Definition no_digit_head (s : list Z) : Prop := match s with [] => True | c :: _ => is_digit c = false end.

Lemma scan_digits_app : forall l acc rest, Forall (fun c => is_digit c = true) l -> no_digit_head rest ->
  scan_digits (l ++ rest) acc = (fold_left dstep l acc, rest).
Proof.
  induction l as [|c l IH]; intros acc rest Hl Hr.
  - simpl. destruct rest as [|c r]; [reflexivity|]. simpl in *. rewrite Hr. reflexivity.
  - inversion Hl; subst. simpl. rewrite H1. apply IH; assumption.
Qed.

Lemma skip_space_app : forall ws s, Forall (fun c => is_space c = true) ws ->
  (match s with [] => True | c :: _ => is_space c = false end) -> skip_space (ws ++ s) = s.
Proof.
  induction ws as [|w ws IH]; intros s Hw Hs.
  - simpl. destruct s as [|c r]; [reflexivity|]. simpl. rewrite Hs. reflexivity.
  - inversion Hw; subst. simpl. rewrite H1. apply IH; assumption.
Qed.

Lemma digit_not_space c : is_digit c = true -> is_space c = false.
Proof. unfold is_digit, is_space. intros H. apply andb_true_iff in H. destruct H as [H1 H2]. apply Z.leb_le in H1, H2.
  destruct (Z.eqb_spec c 32); [lia|]. destruct (Z.leb_spec 9 c), (Z.leb_spec c 13); simpl; try reflexivity; lia. Qed.

(** fscanf("%d") applied to white space followed by the decimal text of z returns z and stops right after it *)
Lemma scan_int_fmt_dec : forall ws z rest, Forall (fun c => is_space c = true) ws -> no_digit_head rest ->
  scan_int (ws ++ fmt_dec z ++ rest) = Some (z, rest).
Proof.
  intros ws z rest Hw Hr. unfold scan_int, fmt_dec. destruct (Z.ltb_spec z 0) as [L|L].
  - rewrite skip_space_app by (assumption || reflexivity). cbn [app].
    pose proof (fmt_nat_digits (- z) ltac:(lia)) as D. pose proof (fmt_nat_nonempty (- z)) as NE.
    change (45 =? 45) with true. cbn [orb].
    destruct (fmt_nat (- z)) as [|d l] eqn:E; [contradiction|]. cbn [app]. inversion D; subst. rewrite H1.
    change (d :: l ++ rest) with ((d :: l) ++ rest). rewrite scan_digits_app by assumption.
    rewrite <- E, fmt_nat_val by lia. f_equal. f_equal. lia.
  - pose proof (fmt_nat_digits z L) as D. pose proof (fmt_nat_nonempty z) as NE.
    destruct (fmt_nat z) as [|d l] eqn:E; [contradiction|]. inversion D; subst.
    rewrite skip_space_app; [|assumption|cbn [app]; apply digit_not_space; assumption]. cbn [app].
    assert (d =? 45 = false /\ d =? 43 = false) as [-> ->].
    { unfold is_digit in H1. apply andb_true_iff in H1. destruct H1 as [A B]. apply Z.leb_le in A, B. split; apply Z.eqb_neq; lia. }
    cbn [orb]. rewrite H1. change (d :: l ++ rest) with ((d :: l) ++ rest). rewrite scan_digits_app by assumption.
    rewrite <- E, fmt_nat_val by lia. reflexivity.
Qed.

(** a token list: each number, in any spelling fscanf %d reads as that number, preceded by non-empty white space.
    A token is (white space, (text, value)). *)
Definition good_sep (ws : list Z) : Prop := ws <> [] /\ Forall (fun c => is_space c = true) ws.
Definition spelled (text : list Z) (v : Z) : Prop :=
  forall ws rest, Forall (fun c => is_space c = true) ws -> no_digit_head rest -> scan_int (ws ++ text ++ rest) = Some (v, rest).
Definition token := (list Z * (list Z * Z))%type.
Definition tval (t : token) : Z := snd (snd t).
Definition good_tok (t : token) : Prop := good_sep (fst t) /\ spelled (fst (snd t)) (tval t).
Definition render (toks : list token) : list Z := flat_map (fun t => fst t ++ fst (snd t)) toks.
Definition canon (ws : list Z) (z : Z) : token := (ws, (fmt_dec z, z)).

Lemma space_not_digit c : is_space c = true -> is_digit c = false.
Proof. intros H. destruct (is_digit c) eqn:E; [|reflexivity]. rewrite (digit_not_space c E) in H. discriminate. Qed.

Lemma spelled_canonical z : spelled (fmt_dec z) z.
Proof. intros ws rest Hw Hr. apply scan_int_fmt_dec; assumption. Qed.

Lemma fold_zeros : forall zs l, Forall (fun c => c = 48) zs -> fold_left dstep (zs ++ l) 0 = fold_left dstep l 0.
Proof. induction zs as [|c zs IH]; intros l H; [reflexivity|]. inversion H; subst. cbn [app fold_left]. unfold dstep at 2. simpl. apply IH. assumption. Qed.

Lemma zeros_digits zs : Forall (fun c => c = 48) zs -> Forall (fun c => is_digit c = true) zs.
Proof. intros H. eapply Forall_impl; [|exact H]. intros c ->. reflexivity. Qed.

(** a non-empty digit string (leading zeros allowed), with an optional sign, scans as its decimal value *)
Lemma scan_int_digits ws D rest : Forall (fun c => is_space c = true) ws -> D <> [] -> Forall (fun c => is_digit c = true) D ->
  no_digit_head rest -> scan_int (ws ++ D ++ rest) = Some (fold_left dstep D 0, rest).
Proof.
  intros Hw NE HD Hr. destruct D as [|d l]; [contradiction|]. inversion HD; subst. unfold scan_int.
  rewrite skip_space_app; [|assumption|cbn [app]; apply digit_not_space; assumption]. cbn [app].
  assert (d =? 45 = false /\ d =? 43 = false) as [-> ->].
  { unfold is_digit in H1. apply andb_true_iff in H1. destruct H1 as [A B]. apply Z.leb_le in A, B. split; apply Z.eqb_neq; lia. }
  cbn [orb]. rewrite H1. change (d :: l ++ rest) with ((d :: l) ++ rest). rewrite scan_digits_app by assumption. reflexivity.
Qed.

Lemma scan_int_signed ws sg D rest : Forall (fun c => is_space c = true) ws -> sg = 45 \/ sg = 43 -> D <> [] ->
  Forall (fun c => is_digit c = true) D -> no_digit_head rest ->
  scan_int (ws ++ (sg :: D) ++ rest) = Some ((if sg =? 45 then - fold_left dstep D 0 else fold_left dstep D 0), rest).
Proof.
  intros Hw Hs NE HD Hr. destruct D as [|d l]; [contradiction|]. inversion HD; subst. unfold scan_int.
  rewrite skip_space_app; [|assumption|cbn [app]; destruct Hs as [->| ->]; reflexivity]. cbn [app].
  assert (B : (sg =? 45) || (sg =? 43) = true) by (destruct Hs as [->| ->]; reflexivity). rewrite B.
  rewrite H1. change (d :: l ++ rest) with ((d :: l) ++ rest). rewrite scan_digits_app by assumption. reflexivity.
Qed.

(** zero-padded and explicitly signed spellings: 0012, -088, +5, 000 *)
Lemma spelled_padded_lemma : forall zs n, Forall (fun c => c = 48) zs -> 0 <= n ->
  spelled (zs ++ fmt_nat n) n /\ spelled (45 :: zs ++ fmt_nat n) (- n) /\ spelled (43 :: zs ++ fmt_nat n) n.
Proof.
  intros zs n Hz Hn.
  assert (HD : Forall (fun c => is_digit c = true) (zs ++ fmt_nat n)) by (apply Forall_app; split; [apply zeros_digits; assumption | apply fmt_nat_digits; assumption]).
  assert (NE : zs ++ fmt_nat n <> []) by (intros E; apply app_eq_nil in E; destruct E as [_ E]; exact (fmt_nat_nonempty n E)).
  assert (V : fold_left dstep (zs ++ fmt_nat n) 0 = n) by (rewrite fold_zeros by assumption; apply fmt_nat_val; assumption).
  split; [|split]; intros ws rest Hw Hr.
  - rewrite scan_int_digits by assumption. rewrite V. reflexivity.
  - rewrite (scan_int_signed ws 45) by (auto || assumption). rewrite V. reflexivity.
  - rewrite (scan_int_signed ws 43) by (auto || assumption). rewrite V. reflexivity.
Qed.

Lemma render_no_digit_head toks rest : Forall good_tok toks -> no_digit_head rest -> no_digit_head (render toks ++ rest).
Proof.
  intros H Hr. destruct toks as [|[ws z] toks]; [assumption|]. inversion H; subst. destruct H2 as [[NE F] _]. simpl in *.
  destruct ws as [|w ws]; [contradiction|]. inversion F; subst. simpl. apply space_not_digit. assumption.
Qed.

Lemma scan_ints_render : forall toks bits rest, Forall good_tok toks -> no_digit_head rest ->
  scan_ints (length toks) bits (render toks ++ rest) = Some (map (fun t => swrap bits (tval t)) toks, rest).
Proof.
  induction toks as [|[ws [tx z]] toks IH]; intros bits rest H Hr; [reflexivity|].
  inversion H; subst. destruct H2 as [[NE F] Sp]. cbn [length scan_ints render flat_map fst snd]. rewrite <- !app_assoc.
  cbn [fst snd tval] in Sp. rewrite (Sp ws _ F) by (apply render_no_digit_head; assumption).
  fold (render toks). rewrite IH by assumption. reflexivity.
Qed.

Lemma skipn_app_exact {A} (a b : list A) n : length a = n -> skipn n (a ++ b) = b.
Proof. intros <-. induction a; simpl; auto. Qed.

Definition import_range (outbits : Z) : Z * Z :=
  if outbits =? 8 then (-128, 127) else if outbits =? 16 then (-32768, 32767) else (-2147483648, 2147483647).

Lemma import_shape_values_lemma : forall outbits tag (tp tr tc : token) planes rows cols hdr data tail,
  outbits = 8 \/ outbits = 16 \/ outbits = 32 ->
  length tag = 4%nat -> good_tok tp -> good_tok tr -> good_tok tc -> tval tp = planes -> tval tr = rows -> tval tc = cols ->
  1 <= planes <= 2147483647 -> 2 <= rows <= 2147483647 -> 2 <= cols <= 2147483647 ->
  Forall good_tok hdr -> Forall good_tok data ->
  Z.of_nat (length hdr) = 2 + ((if 1 <? planes then planes else 0) + rows + cols) ->
  Z.of_nat (length data) = planes * rows * cols ->
  Forall (fun t => in_range (fst (import_range outbits)) (snd (import_range outbits)) (tval t)) data ->
  no_digit_head tail ->
  import_m outbits (tag ++ render [tp; tr; tc] ++ render hdr ++ render data ++ tail)
  = Some (spec_import planes rows cols (map tval data)).
Proof.
  intros outbits tag tp tr tc planes rows cols hdr data tail Hb Ht G1 G2 G3 Vp Vr Vc Hp Hr Hc Hh Hd Lh Ld Rd Htl.
  unfold import_m.
  assert (C : exists sb ob, import_conv outbits = Some (sb, ob) /\
                            Forall (fun t => swrap ob (swrap sb (tval t)) = tval t) data).
  { destruct Hb as [ -> | [ -> | -> ] ].
    - exists 16, 8. split; [reflexivity|]. eapply Forall_impl; [|exact Rd]. intros t [A B].
      change (-128 <= tval t) in A. change (tval t <= 127) in B. rewrite (swrap16_id (tval t)) by lia. apply swrap8_id. lia.
    - exists 16, 16. split; [reflexivity|]. eapply Forall_impl; [|exact Rd]. intros t [A B].
      change (-32768 <= tval t) in A. change (tval t <= 32767) in B. rewrite (swrap16_id (tval t)) by lia. apply swrap16_id. lia.
    - exists 32, 32. split; [reflexivity|]. eapply Forall_impl; [|exact Rd]. intros t [A B].
      change (-2147483648 <= tval t) in A. change (tval t <= 2147483647) in B. rewrite (swrap32_id (tval t)) by lia. apply swrap32_id. lia. }
  destruct C as (sb & ob & -> & Hv).
  change (scanf_bits gint_format) with (Some 32).
  rewrite (skipn_app_exact tag _ 4%nat Ht).
  change 3%nat with (length [tp; tr; tc]).
  rewrite scan_ints_render; [| constructor; [exact G1|]; constructor; [exact G2|]; constructor; [exact G3|]; constructor | apply render_no_digit_head; [assumption|];
                               apply render_no_digit_head; assumption].
  cbn [map]. rewrite Vp, Vr, Vc. rewrite !swrap32_id by lia.
  assert (E1 : cols <? 2 = false) by (apply Z.ltb_ge; lia). assert (E2 : rows <? 2 = false) by (apply Z.ltb_ge; lia).
  rewrite E1, E2. cbn [orb].
  replace (Z.to_nat (2 + ((if 1 <? planes then planes else 0) + rows + cols))) with (length hdr) by lia.
  rewrite scan_ints_render; [| assumption | apply render_no_digit_head; assumption].
  replace (Z.to_nat (planes * rows * cols)) with (length data) by lia.
  rewrite scan_ints_render by assumption.
  unfold spec_import. f_equal. f_equal. rewrite map_map. apply map_ext_Forall. assumption.
Qed.

(* ------------------------------------------------------------------------------------------ *)
(** * Equal content -> hdiff reports nothing *)

Lemma list_eqb_eq {A} (e : A -> A -> bool) : (forall x y, e x y = true -> x = y) ->
  forall a b, list_eqb e a b = true -> a = b.
Proof.
  intros H. induction a as [|x a IH]; intros [|y b] E; simpl in E; try discriminate; [reflexivity|].
  apply andb_true_iff in E. destruct E as [E1 E2]. f_equal; [apply H; assumption | apply IH; assumption].
Qed.

Lemma attr_eqb_eq x y : attr_eqb x y = true -> x = y.
Proof.
  unfold attr_eqb. intros E. apply andb_true_iff in E. destruct E as [E E3]. apply andb_true_iff in E. destruct E as [E1 E2].
  apply zlist_eqb_eq in E1, E3. apply Z.eqb_eq in E2. destruct x, y; simpl in *. congruence.
Qed.

Lemma field_eqb_eq x y : field_eqb x y = true -> x = y.
Proof.
  unfold field_eqb. intros E. apply andb_true_iff in E. destruct E as [E E3]. apply andb_true_iff in E. destruct E as [E1 E2].
  apply zlist_eqb_eq in E1. apply Z.eqb_eq in E2, E3. destruct x as [n [t o]], y as [n' [t' o']]; simpl in *. congruence.
Qed.

Ltac c19_split E :=
  repeat match type of E with (_ && _) = true => let E' := fresh "E" in apply andb_true_iff in E; destruct E as [E E'] end.

Lemma body_eqb_eq x y : body_eqb x y = true -> x = y.
Proof.
  destruct x, y; simpl; intros E; try discriminate; try reflexivity.
  - c19_split E. apply Z.eqb_eq in E. apply zlist_eqb_eq in E2, E1. apply (list_eqb_eq _ attr_eqb_eq) in E0. congruence.
  - c19_split E. apply Z.eqb_eq in E, E3, E2, E1. apply zlist_eqb_eq in E0. congruence.
  - c19_split E. apply Z.eqb_eq in E. apply (list_eqb_eq _ field_eqb_eq) in E1. apply zlist_eqb_eq in E0. congruence.
Qed.

Lemma obj_eqb_eq x y : obj_eqb x y = true -> x = y.
Proof.
  unfold obj_eqb. intros E. apply andb_true_iff in E. destruct E as [E1 E2]. apply zlist_eqb_eq in E1. apply body_eqb_eq in E2.
  destruct x, y; simpl in *. congruence.
Qed.

Lemma attr_in_In a l : attr_in a l = true -> In a l.
Proof. unfold attr_in. intros E. apply existsb_exists in E. destruct E as (b & Hb & E). apply attr_eqb_eq in E. subst. assumption. Qed.

Lemma same_content_exit0_lemma : forall f1 f2,
  NoDup (map a_name (f_gattrs f1)) -> NoDup (map a_name (f_gattrs f2)) ->
  same_content f1 f2 = true -> hdiff_m f1 f2 = 0 /\ hdiff_exit_m f1 f2 = spec_exit f1 f2.
Proof.
  intros f1 f2 N1 N2 S. assert (E : hdiff_m f1 f2 = 0).
  { unfold same_content in S. apply andb_true_iff in S. destruct S as [S1 S2].
    apply (list_eqb_eq _ obj_eqb_eq) in S1. unfold attrs_same in S2. apply andb_true_iff in S2. destruct S2 as [A B].
    rewrite forallb_forall in A, B.
    unfold hdiff_m. rewrite S1, match_m_refl. simpl. apply gattr_zero_iff. split.
    - intros a Ha. exists a. split; [|apply attr_agree_refl]. apply find_attr_self; [assumption|]. apply attr_in_In, A, Ha.
    - intros b Hb. rewrite (find_attr_self (f_gattrs f1) b N1) by (apply attr_in_In, B, Hb). discriminate. }
  split; [assumption|]. unfold hdiff_exit_m, spec_exit. rewrite E, S. reflexivity.
Qed.

(* ------------------------------------------------------------------------------------------ *)
(** * Number-type flavours; the floating-point branches compute the difference in the element's own width *)

Lemma ad_kind_flavour_lemma nt : ad_kind nt = ad_kind (Z.land nt DFNT_MASK).
Proof.
  unfold ad_kind, ad_type_key, DFNT_MASK. rewrite <- Z.land_assoc. change (Z.land 4095 4095) with 4095. reflexivity.
Qed.

Lemma hdp_routine_flavour_lemma : forall base flag, In base [20; 21; 22; 23; 24; 25] -> In flag [0; DFNT_NATIVE; DFNT_LITEND] ->
  hdp_routine (Z.lor base flag) = hdp_routine base /\ hdp_routine base <> None.
Proof.
  intros base flag Hb Hf. simpl in Hb, Hf.
  repeat (destruct Hb as [<-|Hb]; [repeat (destruct Hf as [<-|Hf]; [split; [vm_compute; reflexivity | vm_compute; discriminate]|]); contradiction|]).
  contradiction.
Qed.

Section FloatFacts.
  (* any value domain with subtraction, absolute value, zero, per-format rounding and a "representable in the
     w-bit format" predicate satisfying the IEEE-754 facts used (gradual underflow: the rounded difference of two
     numbers of one format is zero only if they are equal) *)
  Variable V : Type.
  Variables (vsub : V -> V -> V) (vabs : V -> V) (vzero : V) (rnd : Z -> V -> V) (F : Z -> V -> Prop).
  Hypothesis rnd_sub_zero : forall w a b, F w a -> F w b -> (rnd w (vsub a b) = vzero <-> a = b).
  Hypothesis abs_zero : forall x, vabs x = vzero <-> x = vzero.
  Hypothesis rnd_id : forall w x, F w x -> rnd w x = x.
  Hypothesis F_rnd : forall w x, F w (rnd w x).
  Hypothesis F_abs : forall w x, F w x -> F w (vabs x).

  Lemma float32_own_width_lemma a b : F adf32_elt_bits a -> F adf32_elt_bits b ->
    (feval V vsub vabs rnd adf32_diff a b = vzero <-> a = b).
  Proof.
    intros Ha Hb. unfold adf32_diff, adf32_elt_bits in *. cbn [feval].
    rewrite rnd_id by (apply F_abs, F_rnd). rewrite abs_zero. apply rnd_sub_zero; assumption.
  Qed.

  Lemma float64_own_width_lemma a b : F adf64_elt_bits a -> F adf64_elt_bits b ->
    (feval V vsub vabs rnd adf64_diff a b = vzero <-> a = b).
  Proof.
    intros Ha Hb. unfold adf64_diff, adf64_elt_bits in *. cbn [feval].
    rewrite abs_zero. apply rnd_sub_zero; assumption.
  Qed.
End FloatFacts.

Lemma float_kinds_lemma : ad_kind DFNT_FLOAT32 = ADFloat /\ ad_kind DFNT_FLOAT64 = ADFloat /\
  ad_kind (Z.lor DFNT_LITEND DFNT_FLOAT64) = ADFloat.
Proof. repeat split; vm_compute; reflexivity. Qed.

Lemma ad_float_refines_spec_lemma : forall nt a b m, ad_kind nt = ADFloat ->
  array_diff_m nt (opts0 m) a b = (spec_count a b, spec_diff_positions 0 a b).
Proof.
  intros nt a b m K. unfold array_diff_m. rewrite K. unfold spec_count.
  assert (G : forall a b i n pr, ad_float i a b n pr = (n + Z.of_nat (length (spec_diff_positions i a b)), rev pr ++ spec_diff_positions i a b)).
  { clear. induction a as [|x a IH]; intros [|y b] i n pr; cbn [ad_float spec_diff_positions]; try (rewrite app_nil_r; f_equal; simpl; lia).
    destruct (x =? y); rewrite IH; cbn [length rev]; [reflexivity|]. rewrite <- app_assoc. simpl. f_equal. lia. }
  rewrite G. reflexivity.
Qed.

(* ------------------------------------------------------------------------------------------ *)
(** * hdiff exits 0 exactly when two comparable files hold the same content *)

Lemma ad_count_domain t v1 v2 m : elem_domain t v1 -> elem_domain t v2 -> ad_count t (opts0 m) v1 v2 = spec_count v1 v2.
Proof.
  intros [(lo & hi & R & H1)|K] D2.
  - destruct D2 as [(lo' & hi' & R' & H2)|K'].
    + rewrite R in R'. injection R' as <- <-.
      unfold ad_count, array_diff_m. rewrite ad_kind_flavour_lemma.
      apply (array_diff_count_lemma (Z.land t DFNT_MASK) lo hi v1 v2 m R H1 H2).
    + exfalso. rewrite ad_kind_flavour_lemma in K'. destruct (kind_of_ranged _ _ _ R) as (br & Kb & _). congruence.
  - unfold ad_count. rewrite (ad_float_refines_spec_lemma t v1 v2 m K). reflexivity.
Qed.

Lemma attrs_loop_zero : forall a1 a2, length a1 = length a2 -> attrs_diff_loop a1 a2 = 0 -> a1 = a2.
Proof.
  induction a1 as [|x a1 IH]; intros [|y a2] L E; try discriminate; [reflexivity|].
  cbn [attrs_diff_loop] in E. pose proof (attrs_diff_loop_nonneg a1 a2) as NN. injection L as L.
  unfold sds_attr_info_counted in E.
  destruct (Z.eqb_spec (a_type x) (a_type y)) as [Ht|]; [|cbn [negb orb] in E; lia].
  destruct (Z.eqb_spec (Z.of_nat (length (a_vals x))) (Z.of_nat (length (a_vals y)))) as [Hl|]; [|cbn [negb orb] in E; lia].
  destruct (zlist_eqb (a_name x) (a_name y)) eqn:Hn; [|cbn [negb orb] in E; lia]. cbn [negb orb] in E.
  destruct (zlist_eqb (a_vals x) (a_vals y)) eqn:V; [|lia].
  apply zlist_eqb_eq in V, Hn. f_equal; [destruct x, y; simpl in *; congruence | apply IH; [assumption | lia]].
Qed.

Lemma sds_attrs_zero a1 a2 : sds_attrs_diff a1 a2 = 0 -> a1 = a2.
Proof.
  unfold sds_attrs_diff, sds_attr_number_counted.
  destruct (Z.eqb_spec (Z.of_nat (length a1)) (Z.of_nat (length a2))) as [L|]; cbn [negb]; [|discriminate].
  apply attrs_loop_zero. lia.
Qed.

Lemma diff_sds_zero t d v1 a1 v2 a2 :
  v1 <> [] -> length v1 = length v2 -> elem_domain t v1 -> elem_domain t v2 ->
  diff_sds_m t d v1 a1 t d v2 a2 = 0 -> v1 = v2 /\ a1 = a2.
Proof.
  intros NE L D1 D2 E. unfold diff_sds_m in E. rewrite Z.eqb_refl, zlist_eqb_refl in E. cbn [negb] in E.
  destruct v1 as [|x v1]; [contradiction|]. destruct v2 as [|y v2]; [discriminate|].
  pose proof (ad_count_nonneg t (zprod d) (x :: v1) (y :: v2)) as N1.
  assert (N2 : 0 <= sds_attrs_diff a1 a2).
  { unfold sds_attrs_diff, sds_attr_number_counted. destruct (negb _); [lia | apply attrs_diff_loop_nonneg]. }
  split.
  - apply (spec_count_zero_iff _ _ L). rewrite <- (ad_count_domain t _ _ (zprod d) D1 D2). lia.
  - apply sds_attrs_zero. lia.
Qed.

Lemma diff_vs_zero n1 f1 v1 n2 f2 v2 : diff_vs_m n1 f1 v1 n2 f2 v2 = 0 -> n1 = n2 /\ f1 = f2 /\ v1 = v2.
Proof.
  unfold diff_vs_m, vs_header_counted. destruct (Z.eqb_spec n1 n2) as [->|]; cbn [negb orb]; [|discriminate].
  destruct (list_eqb field_eqb f1 f2) eqn:F; cbn [negb]; [|discriminate].
  destruct (zlist_eqb v1 v2) eqn:V; [|discriminate]. intros _.
  apply (list_eqb_eq _ field_eqb_eq) in F. apply zlist_eqb_eq in V. auto.
Qed.

Lemma diff_gr_zero t c x y v1 v2 :
  0 <= x * y * c -> Z.of_nat (length v1) = x * y * c -> Z.of_nat (length v2) = x * y * c ->
  elem_domain t v1 -> elem_domain t v2 -> diff_gr_m t c x y v1 t c x y v2 = 0 -> v1 = v2.
Proof.
  intros P L1 L2 D1 D2 E. unfold diff_gr_m in E. rewrite !Z.eqb_refl in E. cbn [negb orb] in E.
  destruct (zlist_eqb v1 v2) eqn:V; [apply zlist_eqb_eq; assumption|].
  unfold gr_cmp_count in E.
  rewrite (firstn_all2 v1) in E by (apply Nat2Z.inj_le; rewrite Z2Nat.id by lia; lia).
  rewrite (firstn_all2 v2) in E by (apply Nat2Z.inj_le; rewrite Z2Nat.id by lia; lia).
  rewrite (ad_count_domain t v1 v2 _ D1 D2) in E. apply spec_count_zero_iff; [apply Nat2Z.inj; lia | assumption].
Qed.

Lemma diff_obj_zero_eq o1 o2 : o_name o1 = o_name o2 -> comparable_body (o_body o1) (o_body o2) -> diff_obj o1 o2 = 0 -> o1 = o2.
Proof.
  destruct o1 as [n1 b1], o2 as [n2 b2]. cbn [o_name o_body]. intros <- C E. f_equal.
  unfold diff_obj, diff_obj_tag, obj_tag in E. cbn [o_body] in E.
  destruct b1, b2; cbn [comparable_body] in C; try contradiction.
  - destruct C as (<- & <- & NE & L & D1 & D2).
    change (diff_sds_m nt dims vals attrs nt dims vals0 attrs0 = 0) in E.
    destruct (diff_sds_zero _ _ _ _ _ _ NE L D1 D2 E) as [-> ->]. reflexivity.
  - destruct C as (<- & <- & <- & <- & P & L1 & L2 & D1 & D2).
    change (diff_gr_m nt ncomp xdim ydim vals nt ncomp xdim ydim vals0 = 0) in E.
    rewrite (diff_gr_zero _ _ _ _ _ _ P L1 L2 D1 D2 E). reflexivity.
  - change (diff_vs_m nrec fields vals nrec0 fields0 vals0 = 0) in E.
    destruct (diff_vs_zero _ _ _ _ _ _ E) as (-> & -> & ->). reflexivity.
  - reflexivity.
Qed.

Lemma match_same_names_zero : forall l1 l2, map o_name l1 = map o_name l2 ->
  Forall2 (fun a b => comparable_body (o_body a) (o_body b)) l1 l2 -> match_m l1 l2 = 0 -> l1 = l2.
Proof.
  intros l1 l2 N F. unfold match_m. rewrite (cmatch_same_names l1 l2 N). clear N0 || idtac.
  revert N. induction F as [|a b l1 l2 C F IH]; intros N E; [reflexivity|].
  cbn [map combine zsum entry_cost fst snd] in E. cbn [map] in N. injection N as Na N.
  pose proof (diff_obj_nonneg a b).
  assert (0 <= zsum (map entry_cost (map (fun p => Both (fst p) (snd p)) (combine l1 l2)))) by (apply zsum_nonneg, costs_nonneg).
  f_equal; [apply diff_obj_zero_eq; [assumption | assumption | lia] | apply IH; [assumption | lia]].
Qed.

Lemma names_unique g x y : NoDup (map a_name g) -> In x g -> In y g -> a_name x = a_name y -> x = y.
Proof.
  induction g as [|a g IH]; intros ND Hx Hy E; [contradiction|]. simpl in ND. inversion ND as [|? ? Hn ND']; subst.
  destruct Hx as [->|Hx], Hy as [->|Hy]; try reflexivity.
  - exfalso. apply Hn. rewrite E. apply in_map. assumption.
  - exfalso. apply Hn. rewrite <- E. apply in_map. assumption.
  - apply IH; assumption.
Qed.

Lemma attr_agree_eq a b : a_name a = a_name b -> attr_agree a b = true -> a = b.
Proof.
  unfold attr_agree. intros N E. apply andb_true_iff in E. destruct E as [E E3]. apply andb_true_iff in E. destruct E as [E1 _].
  apply Z.eqb_eq in E1. apply zlist_eqb_eq in E3. destruct a, b; simpl in *. congruence.
Qed.

Lemma attr_eqb_refl a : attr_eqb a a = true.
Proof. unfold attr_eqb. rewrite !zlist_eqb_refl, Z.eqb_refl. reflexivity. Qed.

Lemma In_attr_in a l : In a l -> attr_in a l = true.
Proof. intros H. unfold attr_in. apply existsb_exists. exists a. split; [assumption | apply attr_eqb_refl]. Qed.

Lemma gattr_zero_same g1 g2 : NoDup (map a_name g2) -> gattr_diff_m g1 g2 = 0 -> attrs_same g1 g2 = true.
Proof.
  intros N2 E. apply gattr_zero_iff in E. destruct E as [A B]. unfold attrs_same. apply andb_true_iff. split.
  - apply forallb_forall. intros a Ha. destruct (A a Ha) as (b & Fb & Ag). destruct (find_attr_in _ _ _ Fb) as [Hb Hn].
    rewrite (attr_agree_eq a b (eq_sym Hn) Ag). apply In_attr_in. assumption.
  - apply forallb_forall. intros b Hb. specialize (B b Hb).
    destruct (find_attr (a_name b) g1) as [a|] eqn:Fa; [|contradiction].
    destruct (find_attr_in _ _ _ Fa) as [Ha Hn]. destruct (A a Ha) as (b' & Fb & Ag).
    destruct (find_attr_in _ _ _ Fb) as [Hb' Hn'].
    assert (b' = b) by (apply (names_unique g2); [assumption | assumption | assumption | congruence]). subst b'.
    rewrite <- (attr_agree_eq a b (eq_sym Hn') Ag). apply In_attr_in. assumption.
Qed.

Lemma obj_list_eqb_refl : forall l, list_eqb obj_eqb l l = true.
Proof.
  apply list_eqb_refl. intros [n b]. unfold obj_eqb. cbn [o_name o_body]. rewrite zlist_eqb_refl. simpl.
  destruct b; simpl; rewrite ?Z.eqb_refl, ?zlist_eqb_refl; simpl; try reflexivity.
  - apply (list_eqb_refl _ attr_eqb_refl).
  - rewrite (list_eqb_refl _ field_eqb_refl). reflexivity.
Qed.

Lemma hdiff_exit_iff_same_content_lemma : forall f1 f2, comparable f1 f2 ->
  (hdiff_m f1 f2 = 0 <-> same_content f1 f2 = true) /\ hdiff_exit_m f1 f2 = spec_exit f1 f2.
Proof.
  intros f1 f2 (N & F & N1 & N2).
  assert (I : hdiff_m f1 f2 = 0 <-> same_content f1 f2 = true).
  { split.
    - intros E. unfold hdiff_m in E.
      pose proof (match_m_nonneg (f_objs f1) (f_objs f2)). pose proof (gattr_diff_nonneg (f_gattrs f1) (f_gattrs f2)).
      unfold same_content. apply andb_true_iff. split.
      + rewrite (match_same_names_zero _ _ N F) by lia. apply obj_list_eqb_refl.
      + apply gattr_zero_same; [assumption | lia].
    - intros S. apply (same_content_exit0_lemma f1 f2 N1 N2 S). }
  split; [assumption|]. unfold hdiff_exit_m, spec_exit.
  destruct (Z.eqb_spec (hdiff_m f1 f2) 0) as [E|E], (same_content f1 f2) eqn:S; try reflexivity.
  - apply I in E. congruence.
  - exfalso. apply E. apply I. reflexivity.
Qed.

(* ------------------------------------------------------------------------------------------ *)
(** * The object table keeps every entry when it grows; hdp's dumpvd prints every record exactly once *)

Lemma reset_from_id : forall l from i, i + Z.of_nat (length l) <= from -> reset_from from i l = l.
Proof.
  induction l as [|[t o] l IH]; intros from i H; [reflexivity|]. cbn [reset_from length] in *.
  destruct (Z.leb_spec from i); [lia|]. f_equal. apply IH. lia.
Qed.

Lemma dtable_add_objs t o : dt_objs (dtable_add_m t o) = dt_objs t ++ [(obj_tag o, o)].
Proof.
  unfold dtable_add_m. destruct (negb _); cbn [dt_objs dt_size]; [|reflexivity].
  unfold dtable_grow_from. rewrite reset_from_id by lia. reflexivity.
Qed.

Lemma dtable_fold_objs : forall l t, dt_objs (fold_left dtable_add_m l t) = dt_objs t ++ map (fun o => (obj_tag o, o)) l.
Proof.
  induction l as [|o l IH]; intros t; simpl; [rewrite app_nil_r; reflexivity|].
  rewrite IH, dtable_add_objs, <- app_assoc. reflexivity.
Qed.

Lemma table_keeps_tags_lemma : forall l, table_tags l = map obj_tag l /\ map snd (dt_objs (dtable_build l)) = l.
Proof.
  intros l. unfold table_tags, dtable_build. rewrite dtable_fold_objs. cbn [dtable_init_m dt_objs app].
  rewrite !map_map. split; [reflexivity|]. cbn [snd]. apply map_id.
Qed.

Lemma cmatch_nil_l l2 : cmatch [] l2 = map Only2 l2.
Proof. destruct l2; reflexivity. Qed.

Lemma costs_only2 : forall l tags, costs_tab (map Only2 l) tags = 0 /\ zsum (map entry_cost (map Only2 l)) = 0.
Proof. induction l as [|b l IH]; intros tags; [split; reflexivity|]. cbn [map costs_tab zsum entry_cost]. destruct (IH tags). split; lia. Qed.

Lemma costs_only1 : forall l tags, costs_tab (map Only1 l) tags = 0 /\ zsum (map entry_cost (map Only1 l)) = 0.
Proof.
  induction l as [|b l IH]; intros tags; [split; reflexivity|]. cbn [map costs_tab zsum entry_cost].
  destruct (IH (tl tags)). split; lia.
Qed.

Lemma costs_tab_match : forall l1 l2, costs_tab (cmatch l1 l2) (map obj_tag l1) = match_m l1 l2.
Proof.
  unfold match_m. induction l1 as [|a l1 IH1]; intros l2.
  - rewrite cmatch_nil_l. destruct (costs_only2 l2 (map obj_tag [])). congruence.
  - induction l2 as [|b l2 IH2].
    + rewrite cmatch_nil_r. destruct (costs_only1 (a :: l1) (map obj_tag (a :: l1))). congruence.
    + rewrite cmatch_cons. destruct (strcmp (o_name a) (o_name b)).
      * cbn [map costs_tab zsum entry_cost tl]. rewrite IH1. reflexivity.
      * cbn [map costs_tab zsum entry_cost tl]. rewrite IH1. reflexivity.
      * cbn [costs_tab zsum entry_cost map]. cbn [map] in IH2. rewrite IH2. reflexivity.
Qed.

Lemma hdiff_tab_lemma : forall f1 f2, hdiff_tab_m f1 f2 = hdiff_m f1 f2 /\ hdiff_tab_exit_m f1 f2 = hdiff_exit_m f1 f2.
Proof.
  intros f1 f2. assert (E : hdiff_tab_m f1 f2 = hdiff_m f1 f2).
  { unfold hdiff_tab_m, hdiff_m, match_tab_m. rewrite (proj1 (table_keeps_tags_lemma _)), costs_tab_match. reflexivity. }
  split; [assumption|]. unfold hdiff_tab_exit_m, hdiff_exit_m. rewrite E. reflexivity.
Qed.

Lemma zseqn_app : forall n m s, zseqn s (n + m) = zseqn s n ++ zseqn (s + Z.of_nat n) m.
Proof.
  induction n as [|n IH]; intros m s.
  - simpl. rewrite Z.add_0_r. reflexivity.
  - cbn [Nat.add zseqn app]. rewrite IH. do 3 f_equal. lia.
Qed.

Lemma zseqn_length : forall n s, length (zseqn s n) = n.
Proof. induction n; intros; simpl; auto. Qed.

Lemma vd_loop_all : forall fuel nv chunk done buf, 1 <= chunk -> 0 <= done <= nv -> (Z.to_nat (nv - done) < fuel)%nat ->
  vd_loop fuel nv chunk done buf = Some (zseqn done (Z.to_nat (nv - done))).
Proof.
  induction fuel as [|f IH]; intros nv chunk done buf Hc Hd Hf; [lia|].
  cbn [vd_loop]. unfold dumpvd_continue, dumpvd_more, dumpvd_print_bound.
  destruct (Z.eqb_spec done nv) as [->|N]; cbn [negb].
  - rewrite Z.sub_diag. reflexivity.
  - change ((if true then 1 else 0) =? 0) with false. cbv iota.
    set (count := if negb ((if chunk <? nv - done then 1 else 0) =? 0) then chunk else nv - done).
    assert (Cn : 1 <= count <= nv - done).
    { subst count. destruct (Z.ltb_spec chunk (nv - done)); simpl; lia. }
    clearbody count. change (1 =? 0) with false. cbv iota.
    rewrite (IH nv chunk (done + count) _ Hc); [| lia | lia].
    rewrite firstn_app, zseqn_length, Nat.sub_diag, firstn_all2 by (rewrite zseqn_length; lia).
    cbn [firstn]. rewrite app_nil_r.
    replace (Z.to_nat (nv - done)) with (Z.to_nat count + Z.to_nat (nv - (done + count)))%nat by lia.
    rewrite zseqn_app. do 3 f_equal. lia.
Qed.

Lemma dumpvd_records_lemma : forall nv vsize, 0 <= nv -> 1 <= vsize <= BUFFER ->
  dumpvd_m nv vsize = Some (zseqn 0 (Z.to_nat nv)).
Proof.
  intros nv vsize Hn Hv. unfold dumpvd_m, dumpvd_split, dumpvd_chunk, BUFFER in *.
  destruct (Z.ltb_spec 1048576 (nv * vsize)) as [L|L].
  - change (negb (1 =? 0)) with true. cbv iota. rewrite vd_loop_all; [rewrite Z.sub_0_r; reflexivity | | lia | lia].
    apply Z.quot_le_lower_bound; lia.
  - change (negb (0 =? 0)) with false. cbv iota. destruct (Z.eq_dec nv 0) as [->|NZ]; [reflexivity|].
    rewrite vd_loop_all; [rewrite Z.sub_0_r; reflexivity | lia | lia | lia].
Qed.

(* ------------------------------------------------------------------------------------------ *)
(** * Lone objects are listed whatever refs other kinds of object carry; field selection has no memory *)

Lemma list_lone_incl : forall c tags tag refs tbl e, In e tbl -> In e (list_lone c tags tag refs tbl).
Proof.
  induction refs as [|r rs IH]; intros tbl e H; [assumption|]. cbn [list_lone].
  destruct (already_listed c tags r tbl); apply IH; [assumption | apply in_or_app; left; assumption].
Qed.

Lemma list_lone_all : forall tags tag refs tbl r, In r refs ->
  exists t, In t (tag :: tags) /\ In (t, r) (list_lone 1 tags tag refs tbl).
Proof.
  induction refs as [|x rs IH]; intros tbl r H; [contradiction|]. cbn [list_lone].
  destruct H as [->|H].
  - destruct (already_listed 1 tags r tbl) eqn:A.
    + unfold already_listed in A. apply existsb_exists in A. destruct A as ([t r'] & Hin & C).
      change (1 =? 0) with false in C. cbv iota in C. cbn [fst snd] in C. apply andb_true_iff in C. destruct C as [Ct Cr].
      apply Z.eqb_eq in Cr. subst r'. exists t. split.
      * right. unfold zmem in Ct. apply existsb_exists in Ct. destruct Ct as (t' & Ht & E). apply Z.eqb_eq in E. subst. assumption.
      * apply list_lone_incl. assumption.
    + exists tag. split; [left; reflexivity|]. apply list_lone_incl. apply in_or_app. right. left. reflexivity.
  - destruct (already_listed 1 tags x tbl); apply IH; assumption.
Qed.

Lemma lone_objects_listed_lemma : forall refs tbl r, In r refs ->
  (exists t, In t (DFTAG_NDG :: sds_tags) /\ In (t, r) (list_lone_sds refs tbl)) /\
  (exists t, In t (DFTAG_RI :: gr_tags) /\ In (t, r) (list_lone_gr refs tbl)).
Proof.
  intros refs tbl r H. unfold list_lone_sds, list_lone_gr, list_sds_checks_tag, list_gr_checks_tag.
  split; apply list_lone_all; assumption.
Qed.

Lemma field_selection_stateless_lemma : forall prev vds chosen,
  fields_walk prev vds chosen = map (fun fields => chosen_indices 0 fields chosen) vds.
Proof.
  intros prev vds chosen. revert prev. induction vds as [|f vds IH]; intros prev; [reflexivity|].
  cbn [fields_walk map]. rewrite IH. f_equal. unfold field_indices, field_indices_reset_per_vdata.
  change (1 =? 0) with false. cbv iota. destruct (chosen_indices 0 f chosen); reflexivity.
Qed.

(* ------------------------------------------------------------------------------------------ *)
(** * Round 4 *)

Lemma vdata_reads_same_layout_lemma : forall il, vs_buffers_same_layout il = true /\
  dumpvd_read_il_ascii il = FULL_INTERLACE /\ dumpvd_read_il_binary il = FULL_INTERLACE.
Proof. intros il. unfold vs_buffers_same_layout, vs_read_il1, vs_read_il2. rewrite Z.eqb_refl. repeat split. Qed.

Lemma attribute_vdatas_listed_lemma : forall reserved_of_class,
  (* is_reserved("") = false *) insert_vs_skips true false false = false /\
  (* a lone Vdata with a non-empty class, reserved (Attr0.0) or not, is not skipped *)
  insert_vs_skips true true reserved_of_class = false.
Proof. intros r. unfold insert_vs_skips, insert_vs_reserved_test_needs_empty_class. simpl. split; reflexivity. Qed.

Lemma sds_attr_info_test_lemma : forall t1 t2 l1 l2 c,
  (sds_attr_info_differs t1 t2 l1 l2 c =? 0) = ((t1 =? t2) && (l1 =? l2) && (c =? 0)).
Proof.
  intros. unfold sds_attr_info_differs.
  destruct (t1 =? t2), (l1 =? l2), (c =? 0); reflexivity.
Qed.

(** hence the positional attribute loop of the model tests exactly what the code tests *)
Lemma attrs_loop_test_lemma : forall x y,
  (negb (a_type x =? a_type y) || negb (Z.of_nat (length (a_vals x)) =? Z.of_nat (length (a_vals y))) || negb (zlist_eqb (a_name x) (a_name y)))
  = negb (sds_attr_info_differs (a_type x) (a_type y) (Z.of_nat (length (a_vals x))) (Z.of_nat (length (a_vals y)))
            (if zlist_eqb (a_name x) (a_name y) then 0 else 1) =? 0).
Proof.
  intros. rewrite sds_attr_info_test_lemma.
  destruct (a_type x =? a_type y), (Z.of_nat (length (a_vals x)) =? Z.of_nat (length (a_vals y))), (zlist_eqb (a_name x) (a_name y)); reflexivity.
Qed.
