(** C19 -- proofs about the model of hdiff / hdp / hdfimport (ToolsModel.v) against the specification (ToolsSpec.v). *)
From Coq Require Import ZArith List Bool Lia.
Require Import H4.ToolsCInt H4.gen.Gen_Tools H4.ToolsSpec H4.ToolsModel.
Import ListNotations.
Local Open Scope Z_scope.

(* ------------------------------------------------------------------------------------------ *)
(** * C integer conversions *)

Ltac wrapnum :=
  unfold swrap, uwrap;
  change (2 ^ (8 - 1)) with 128; change (2 ^ 8) with 256;
  change (2 ^ (16 - 1)) with 32768; change (2 ^ 16) with 65536;
  change (2 ^ (32 - 1)) with 2147483648; change (2 ^ 32) with 4294967296;
  change (2 ^ (64 - 1)) with 9223372036854775808; change (2 ^ 64) with 18446744073709551616.

Lemma swrap8_range z : -128 <= swrap 8 z <= 127.
Proof. wrapnum. Z.to_euclidean_division_equations. lia. Qed.
Lemma swrap16_range z : -32768 <= swrap 16 z <= 32767.
Proof. wrapnum. Z.to_euclidean_division_equations. lia. Qed.
Lemma swrap32_range z : -2147483648 <= swrap 32 z <= 2147483647.
Proof. wrapnum. Z.to_euclidean_division_equations. lia. Qed.

Lemma swrap8_id z : -128 <= z <= 127 -> swrap 8 z = z.
Proof. intros. wrapnum. Z.to_euclidean_division_equations. lia. Qed.
Lemma swrap16_id z : -32768 <= z <= 32767 -> swrap 16 z = z.
Proof. intros. wrapnum. Z.to_euclidean_division_equations. lia. Qed.
Lemma swrap32_id z : -2147483648 <= z <= 2147483647 -> swrap 32 z = z.
Proof. intros. wrapnum. Z.to_euclidean_division_equations. lia. Qed.
Lemma swrap64_id z : -9223372036854775808 <= z <= 9223372036854775807 -> swrap 64 z = z.
Proof. intros. wrapnum. Z.to_euclidean_division_equations. lia. Qed.

(** reading through a signed pointer is injective on any window of 2^w values (both the signed and the
    unsigned type of that width) *)
Lemma swrap8_inj x y : Z.abs (x - y) < 256 -> swrap 8 x = swrap 8 y -> x = y.
Proof. wrapnum. intros. Z.to_euclidean_division_equations. lia. Qed.
Lemma swrap16_inj x y : Z.abs (x - y) < 65536 -> swrap 16 x = swrap 16 y -> x = y.
Proof. wrapnum. intros. Z.to_euclidean_division_equations. lia. Qed.
Lemma swrap32_inj x y : Z.abs (x - y) < 4294967296 -> swrap 32 x = swrap 32 y -> x = y.
Proof. wrapnum. intros. Z.to_euclidean_division_equations. lia. Qed.

(* ------------------------------------------------------------------------------------------ *)
(** * The difference expressions of array_diff (as regenerated from hdiff_array.c) *)

Lemma ad8_diff_abs a b : -128 <= a <= 127 -> -128 <= b <= 127 -> ad8_diff a b = Z.abs (a - b).
Proof. intros. unfold ad8_diff. rewrite (swrap32_id (a - b)) by lia. apply swrap32_id. lia. Qed.

Lemma ad16_diff_abs a b : -32768 <= a <= 32767 -> -32768 <= b <= 32767 -> ad16_diff a b = Z.abs (a - b).
Proof. intros. unfold ad16_diff. rewrite (swrap32_id (a - b)) by lia. apply swrap32_id. lia. Qed.

Lemma ad32_diff_sat a b : -2147483648 <= a <= 2147483647 -> -2147483648 <= b <= 2147483647 ->
  ad32_diff a b = Z.min (Z.abs (a - b)) 2147483647.
Proof.
  intros. unfold ad32_diff. rewrite (swrap64_id (a - b)) by lia. rewrite (swrap64_id (Z.abs (a - b))) by lia.
  unfold b2z. destruct (Z.ltb_spec (Z.abs (a - b)) 2147483647); simpl.
  - rewrite swrap32_id by lia. lia.
  - rewrite swrap32_id by lia. lia.
Qed.

(* ------------------------------------------------------------------------------------------ *)
(** * array_diff without options reports exactly the positions whose values differ *)

Definition flagged (br : branch) (x y : Z) : bool :=
  negb (br_over br (br_diff br (reinterp (br_sg br) (br_bits br) x) (reinterp (br_sg br) (br_bits br) y)) 0 =? 0).

Fixpoint flagged_positions (br : branch) (i : Z) (a b : list Z) : list Z :=
  match a, b with
  | x :: a', y :: b' => if flagged br x y then i :: flagged_positions br (i + 1) a' b' else flagged_positions br (i + 1) a' b'
  | _, _ => []
  end.

Lemma ad_elt_plain br m i x y n pr :
  ad_elt br (opts0 m) i x y n pr = if flagged br x y then (n + 1, if n + 1 <=? m then i :: pr else pr) else (n, pr).
Proof. unfold ad_elt, flagged, opts0. simpl. reflexivity. Qed.

Lemma ad_loop_count br m : forall a b i n pr,
  fst (ad_loop br (opts0 m) i a b n pr) = n + Z.of_nat (length (flagged_positions br i a b)).
Proof.
  induction a as [|x a IH]; intros b i n pr.
  - simpl. lia.
  - destruct b as [|y b]; [simpl; lia|].
    cbn [ad_loop flagged_positions]. rewrite ad_elt_plain.
    destruct (flagged br x y).
    + rewrite IH. cbn [length]. lia.
    + apply IH.
Qed.

Lemma ad_loop_full br m : forall a b i n pr, n + Z.of_nat (length a) <= m ->
  ad_loop br (opts0 m) i a b n pr = (n + Z.of_nat (length (flagged_positions br i a b)), rev pr ++ flagged_positions br i a b).
Proof.
  induction a as [|x a IH]; intros b i n pr Hm.
  - simpl. rewrite app_nil_r. f_equal. lia.
  - destruct b as [|y b]; [simpl; rewrite app_nil_r; f_equal; lia|].
    cbn [ad_loop flagged_positions]. rewrite ad_elt_plain. cbn [length] in Hm.
    destruct (flagged br x y).
    + assert (E : n + 1 <=? m = true) by (apply Z.leb_le; lia). rewrite E.
      rewrite IH by lia. cbn [length rev]. rewrite <- app_assoc. simpl. f_equal. lia.
    + apply IH. lia.
Qed.

Lemma over0 d : (negb (b2z (0 <? d) =? 0)) = (0 <? d).
Proof. destruct (0 <? d); reflexivity. Qed.

Lemma flagged_br8 x y : Z.abs (x - y) < 256 -> flagged br8 x y = negb (x =? y).
Proof.
  intros H. unfold flagged, br8; cbn [br_over br_diff br_sg br_bits]. unfold ad8_elt_signed, ad8_elt_bits, reinterp, ad8_over.
  rewrite over0. pose proof (swrap8_range x). pose proof (swrap8_range y).
  rewrite ad8_diff_abs by lia.
  destruct (Z.eqb_spec x y) as [->|N]; simpl.
  - rewrite Z.sub_diag. reflexivity.
  - apply Z.ltb_lt. assert (swrap 8 x <> swrap 8 y) by (intro E; apply N, swrap8_inj; assumption). lia.
Qed.

Lemma flagged_br16 x y : Z.abs (x - y) < 65536 -> flagged br16 x y = negb (x =? y).
Proof.
  intros H. unfold flagged, br16; cbn [br_over br_diff br_sg br_bits]. unfold ad16_elt_signed, ad16_elt_bits, reinterp, ad16_over.
  rewrite over0. pose proof (swrap16_range x). pose proof (swrap16_range y).
  rewrite ad16_diff_abs by lia.
  destruct (Z.eqb_spec x y) as [->|N]; simpl.
  - rewrite Z.sub_diag. reflexivity.
  - apply Z.ltb_lt. assert (swrap 16 x <> swrap 16 y) by (intro E; apply N, swrap16_inj; assumption). lia.
Qed.

Lemma flagged_br32 x y : Z.abs (x - y) < 4294967296 -> flagged br32 x y = negb (x =? y).
Proof.
  intros H. unfold flagged, br32; cbn [br_over br_diff br_sg br_bits]. unfold ad32_elt_signed, ad32_elt_bits, reinterp, ad32_over.
  rewrite over0. pose proof (swrap32_range x). pose proof (swrap32_range y).
  rewrite ad32_diff_sat by lia.
  destruct (Z.eqb_spec x y) as [->|N]; simpl.
  - rewrite Z.sub_diag. reflexivity.
  - apply Z.ltb_lt. assert (swrap 32 x <> swrap 32 y) by (intro E; apply N, swrap32_inj; assumption). lia.
Qed.

Ltac c19_one br lem :=
  let E := fresh "E" in intros E; injection E as <- <-; exists br; split; [reflexivity | intros; apply lem; lia].

(** every integer number type selects a branch whose flag is "the values differ" on the type's range *)
Lemma kind_of_ranged nt lo hi : nt_range nt = Some (lo, hi) ->
  exists br, ad_kind nt = ADInt br /\ forall x y, in_range lo hi x -> in_range lo hi y -> flagged br x y = negb (x =? y).
Proof.
  unfold nt_range, nt_ranges, in_range. cbn [nt_range_in].
  destruct (Z.eqb_spec nt 20) as [->|_]; [c19_one br8 flagged_br8|].
  destruct (Z.eqb_spec nt 21) as [->|_]; [c19_one br8 flagged_br8|].
  destruct (Z.eqb_spec nt 3) as [->|_]; [c19_one br8 flagged_br8|].
  destruct (Z.eqb_spec nt 4) as [->|_]; [c19_one br8 flagged_br8|].
  destruct (Z.eqb_spec nt 22) as [->|_]; [c19_one br16 flagged_br16|].
  destruct (Z.eqb_spec nt 23) as [->|_]; [c19_one br16 flagged_br16|].
  destruct (Z.eqb_spec nt 24) as [->|_]; [c19_one br32 flagged_br32|].
  destruct (Z.eqb_spec nt 25) as [->|_]; [c19_one br32 flagged_br32|].
  discriminate.
Qed.

Lemma flagged_positions_spec br lo hi :
  (forall x y, in_range lo hi x -> in_range lo hi y -> flagged br x y = negb (x =? y)) ->
  forall a b i, Forall (in_range lo hi) a -> Forall (in_range lo hi) b ->
  flagged_positions br i a b = spec_diff_positions i a b.
Proof.
  intros F. induction a as [|x a IH]; intros b i Ha Hb; [reflexivity|].
  destruct b as [|y b]; [reflexivity|].
  inversion Ha; inversion Hb; subst. cbn [flagged_positions spec_diff_positions].
  rewrite F by assumption. destruct (x =? y); simpl; rewrite IH by assumption; reflexivity.
Qed.

Lemma array_diff_refines_spec_lemma : forall nt lo hi a b m,
  nt_range nt = Some (lo, hi) -> Forall (in_range lo hi) a -> Forall (in_range lo hi) b ->
  Z.of_nat (length a) <= m ->
  array_diff_m nt (opts0 m) a b = (spec_count a b, spec_diff_positions 0 a b).
Proof.
  intros nt lo hi a b m R Ha Hb Hm. destruct (kind_of_ranged _ _ _ R) as (br & K & F).
  unfold array_diff_m. rewrite K. rewrite ad_loop_full by lia.
  rewrite (flagged_positions_spec br lo hi F) by assumption. reflexivity.
Qed.

Lemma array_diff_count_lemma : forall nt lo hi a b m,
  nt_range nt = Some (lo, hi) -> Forall (in_range lo hi) a -> Forall (in_range lo hi) b ->
  ad_count nt (opts0 m) a b = spec_count a b.
Proof.
  intros nt lo hi a b m R Ha Hb. destruct (kind_of_ranged _ _ _ R) as (br & K & F).
  unfold ad_count, array_diff_m. rewrite K. rewrite ad_loop_count.
  rewrite (flagged_positions_spec br lo hi F) by assumption. reflexivity.
Qed.

Lemma spec_positions_nil_iff : forall a b i, length a = length b -> (spec_diff_positions i a b = [] <-> a = b).
Proof.
  induction a as [|x a IH]; intros [|y b] i L; try discriminate; [tauto|].
  cbn [spec_diff_positions]. injection L as L. destruct (Z.eqb_spec x y) as [->|N].
  - rewrite (IH b (i + 1) L). split; [intros ->; reflexivity | intros E; injection E; auto].
  - split; [discriminate | intros E; injection E; intros; contradiction].
Qed.

Lemma spec_count_zero_iff a b : length a = length b -> (spec_count a b = 0 <-> a = b).
Proof.
  intros L. unfold spec_count. rewrite <- (spec_positions_nil_iff a b 0 L).
  destruct (spec_diff_positions 0 a b); simpl; split; intros; try reflexivity; try discriminate; lia.
Qed.

Lemma array_diff_zero_iff_equal_lemma : forall nt lo hi a b m,
  nt_range nt = Some (lo, hi) -> Forall (in_range lo hi) a -> Forall (in_range lo hi) b -> length a = length b ->
  (ad_count nt (opts0 m) a b = 0 <-> a = b).
Proof.
  intros. rewrite (array_diff_count_lemma nt lo hi) by assumption. apply spec_count_zero_iff. assumption.
Qed.

(** the code before the repairs violates the statement: witnesses *)
Lemma ad8_orig_refuted_lemma : exists a b, a <> b /\ Forall (in_range (-128) 127) a /\ Forall (in_range (-128) 127) b /\
  length a = length b /\ ad_count_orig br8_orig a b = 0.
Proof. exists [-128], [127]. repeat split; try (repeat constructor; unfold in_range; lia); discriminate. Qed.
Lemma ad16_orig_refuted_lemma : exists a b, a <> b /\ Forall (in_range (-32768) 32767) a /\ Forall (in_range (-32768) 32767) b /\
  length a = length b /\ ad_count_orig br16_orig a b = 0.
Proof. exists [-32768], [32767]. repeat split; try (repeat constructor; unfold in_range; lia); discriminate. Qed.
Lemma ad32_orig_refuted_lemma : exists a b, a <> b /\ Forall (in_range (-2147483648) 2147483647) a /\
  Forall (in_range (-2147483648) 2147483647) b /\ length a = length b /\ ad_count_orig br32_orig a b = 0.
Proof. exists [0], [-2147483648]. repeat split; try (repeat constructor; unfold in_range; lia); discriminate. Qed.
