(** C04 -- implementation model M of the chunked-element transfer loops of hdf/src/hchunks.c on top of the cache:
    HMCPwrite / HMCPread (the [while (bytes < len)] loops: locate, piece length, mcache_get, memcpy, mcache_put,
    advance) and HMCwriteChunk / HMCreadChunk (one whole page through the cache).  The chunk table (TBBT + Vdata
    records) and the chunk elements are abstracted into the backing store of MCacheModel.v: chunk number -> page,
    an absent chunk being the fill page (HMCPchunkread).  Total computable definitions only. *)
From Coq Require Import ZArith List Bool.
Require Import H4.gen.Gen_Chunk H4.ChunkModel H4.MCacheModel.
Import ListNotations.
Local Open Scope Z_scope.

(** memcpy(chk_dptr + off, data, n) on a page, and the read direction *)
Definition splice (pg : page) (off : Z) (d : list Z) : page :=
  firstn (Z.to_nat off) pg ++ d ++ skipn (Z.to_nat off + List.length d) pg.
Definition slice (pg : page) (off len : Z) : list Z := firstn (Z.to_nat len) (skipn (Z.to_nat off) pg).

Definition cstate := (mcache * fstore)%type.

Section HMC.
  Variable nt : Z.
  Variable dd : list dimrec.

  (** HMCPwrite: [fuel] bounds the number of loop iterations (every iteration moves at least one byte; running out
      of fuel, like a non-positive piece length, is reported as failure, never as a result) *)
  Fixpoint hmcp_write (fuel : nat) (st : cstate) (pos : Z) (data : list Z) : option cstate :=
    match data with
    | [] => Some st
    | _ :: _ =>
        match fuel with
        | O => None
        | S f =>
            let cn := fst (chunk_locate nt dd pos) in
            let off := snd (chunk_locate nt dd pos) in
            let piece := chunk_piece nt dd pos (Z.of_nat (List.length data)) in
            if piece <=? 0 then None
            else match mc_access fstore fs_in fs_out (fst st) (snd st) (cn + 1)
                         (fun pg => splice pg off (firstn (Z.to_nat piece) data)) MCACHE_DIRTY with
                 | None => None
                 | Some (mp', s', _) => hmcp_write f (mp', s') (pos + piece) (skipn (Z.to_nat piece) data)
                 end
        end
    end.

  (** HMCPread *)
  Fixpoint hmcp_read (fuel : nat) (st : cstate) (pos len : Z) : option (cstate * list Z) :=
    if len <=? 0 then Some (st, [])
    else match fuel with
         | O => None
         | S f =>
             let cn := fst (chunk_locate nt dd pos) in
             let off := snd (chunk_locate nt dd pos) in
             let piece := chunk_piece nt dd pos len in
             if piece <=? 0 then None
             else match mc_access fstore fs_in fs_out (fst st) (snd st) (cn + 1) (fun pg => pg) 0 with
                  | None => None
                  | Some (mp', s', pg) =>
                      match hmcp_read f (mp', s') (pos + piece) (len - piece) with
                      | None => None
                      | Some (st2, rest) => Some (st2, slice pg off piece ++ rest)
                      end
                  end
         end.

  (** HMCwriteChunk / HMCreadChunk: chunk number from the origin, one whole page through the cache *)
  Definition hmc_writechunk (st : cstate) (origin : list Z) (data : page) : option cstate :=
    match mc_access fstore fs_in fs_out (fst st) (snd st) (calculate_chunk_num origin dd + 1)
            (fun _ => data) MCACHE_DIRTY with
    | None => None
    | Some (mp', s', _) => Some (mp', s')
    end.

  Definition hmc_readchunk (st : cstate) (origin : list Z) : option (cstate * page) :=
    match mc_access fstore fs_in fs_out (fst st) (snd st) (calculate_chunk_num origin dd + 1) (fun pg => pg) 0 with
    | None => None
    | Some (mp', s', pg) => Some ((mp', s'), pg)
    end.
End HMC.
