(** Extraction of the C01 specification and the linked-block model (ExtrOcamlBasic only). *)
Require Import H4.EStoreSpec H4.HBlocksModel.
Require Extraction.
Require ExtrOcamlBasic.
Extraction "../extract/gen/estore_spec.ml" EStoreSpec.step EStoreSpec.init EStoreSpec.bstep EStoreSpec.binit.
Extraction "../extract/gen/hblocks_model.ml" hl_new hl_of_data hl_write hl_read hl_seek table_flags fl bl nb len.
