(** C02 -- proofs about the format specification (FmtSpec.v) and the writers' model (FmtModel.v). *)
From Coq Require Import ZArith List Bool Lia.
Require Import H4.FmtSpec.
Import ListNotations.
Local Open Scope Z_scope.

Lemma walk_length : forall fuel img off bl, walk fuel img off = Some bl -> (length bl <= fuel)%nat.
Proof.
  induction fuel; simpl; intros img off bl H; [discriminate|].
  destruct (p_block img off) as [b|]; [|discriminate].
  destruct (blk_next b =? 0).
  - inversion H; subst; simpl; lia.
  - destruct (walk fuel img (blk_next b)) as [rest|] eqn:E; [|discriminate].
    inversion H; subst; simpl. apply IHfuel in E. lia.
Qed.
