(** C02 -- proofs about the format specification (FmtSpec.v) and the writers' model (FmtModel.v). *)
From Coq Require Import ZArith List Bool Lia String Znumtheory.
Require Import H4.FmtSpec H4.FmtModel H4.gen.Gen_Fmt.
Import ListNotations.
Local Open Scope Z_scope.

(* ================================================================================================== *)
(** * 1. The published constants are the constants of the current sources *)

Lemma consts_agree :
  HDFMAGIC = magic /\ MAGICLEN = 4 /\ DD_SZ = dd_size /\ NDDS_SZ + OFFSET_SZ = blkhdr_size /\
  INVALID_OFFSET = -1 /\ INVALID_LENGTH = -1 /\
  DFTAG_NULL = tag_null /\ DFTAG_LINKED = tag_linked /\ DFTAG_COMPRESSED = tag_compressed /\
  DFTAG_CHUNK = tag_chunk /\ DFTAG_VH = tag_vh /\ DFTAG_VS = tag_vs /\ DFTAG_VG = tag_vg /\
  SPECIAL_LINKED = sp_linked /\ SPECIAL_EXT = sp_ext /\ SPECIAL_COMP = sp_comp /\ SPECIAL_CHUNKED = sp_chunked /\
  [COMP_CODE_NONE; COMP_CODE_RLE; COMP_CODE_NBIT; COMP_CODE_SKPHUFF; COMP_CODE_DEFLATE; COMP_CODE_SZIP] = [0; 1; 2; 3; 4; 5] /\
  VSET_NEW_VERSION = 4 /\ VS_ATTR_SET = 1 /\ VG_ATTR_SET = 1 /\ COMP_HEADER_VERSION = 0 /\ _HDF_CHK_HDR_VER = 0 /\
  RUN_MASK = 128 /\ COUNT_MASK = 127 /\ RLE_MIN_RUN = 3 /\ RLE_MIN_MIX = 1.
Proof. repeat split; reflexivity. Qed.

(** BASETAG / SPECIALTAG / MKSPECIALTAG of hfile_priv.h against the specification's [base_tag] / [is_special],
    for every 16-bit tag (complete sweep of the finite domain) *)
Definition tag_macros_ok (t : Z) : bool :=
  (BASETAG t =? base_tag t) && Bool.eqb (negb (SPECIALTAG t =? 0)) (is_special t) &&
  (if (t <? 16384) && negb (t =? 0) then (base_tag (MKSPECIALTAG t) =? t) && is_special (MKSPECIALTAG t) else true).

Lemma zrange_In : forall n t, 0 <= t < n -> In t (zrange n).
Proof.
  intros n t H. unfold zrange. apply in_map_iff. exists (Z.to_nat t). split; [lia|].
  apply in_seq. lia.
Qed.

Lemma tag_macros_sweep : forallb tag_macros_ok (zrange 65536) = true.
Proof. vm_compute. reflexivity. Qed.

Lemma tag_macros_agree : forall t, 0 <= t < 65536 ->
  BASETAG t = base_tag t /\ (SPECIALTAG t <> 0 <-> is_special t = true) /\
  (0 < t < 16384 -> base_tag (MKSPECIALTAG t) = t /\ is_special (MKSPECIALTAG t) = true).
Proof.
  intros t Ht. pose proof (proj1 (forallb_forall _ _) tag_macros_sweep t (zrange_In _ _ Ht)) as H.
  unfold tag_macros_ok in H. apply andb_true_iff in H. destruct H as [H H3].
  apply andb_true_iff in H. destruct H as [H1 H2].
  apply Z.eqb_eq in H1. apply Bool.eqb_prop in H2. split; [exact H1|]. split.
  - rewrite <- H2. destruct (SPECIALTAG t =? 0) eqn:E; simpl.
    + apply Z.eqb_eq in E. split; [congruence|discriminate].
    + apply Z.eqb_neq in E. tauto.
  - intros Hr. assert ((t <? 16384) && negb (t =? 0) = true) as E.
    { apply andb_true_iff. split; [apply Z.ltb_lt; lia|]. apply negb_true_iff. apply Z.eqb_neq. lia. }
    rewrite E in H3. apply andb_true_iff in H3. destruct H3 as [A B]. apply Z.eqb_eq in A. tauto.
Qed.

(* ================================================================================================== *)
(** * 2. The ENCODE / DECODE statement macros are big-endian two's complement *)

Lemma land255 : forall x, Z.land x 255 = x mod 256.
Proof. intro x. change 255 with (Z.ones 8). rewrite Z.land_ones by lia. reflexivity. Qed.

Lemma land_shiftl_small : forall hi lo n, 0 <= n -> 0 <= lo < 2 ^ n -> Z.land (Z.shiftl hi n) lo = 0.
Proof.
  intros hi lo n Hn Hlo. apply Z.bits_inj'. intros k Hk.
  rewrite Z.land_spec, Z.bits_0.
  destruct (Z.lt_ge_cases k n).
  - rewrite Z.shiftl_spec_low by lia. reflexivity.
  - assert (Z.testbit lo k = false) as E.
    { apply Z.testbit_false; [lia|]. rewrite Z.div_small; [reflexivity|].
      split; [lia|]. apply Z.lt_le_trans with (2 ^ n); [lia|]. apply Z.pow_le_mono_r; lia. }
    rewrite E. apply andb_false_r.
Qed.

Lemma lor_shiftl_add : forall hi lo n, 0 <= n -> 0 <= lo < 2 ^ n -> Z.lor (Z.shiftl hi n) lo = hi * 2 ^ n + lo.
Proof.
  intros. rewrite <- Z.lxor_lor by (apply land_shiftl_small; auto).
  rewrite <- Z.add_nocarry_lxor by (apply land_shiftl_small; auto).
  rewrite Z.shiftl_mul_pow2 by lia. reflexivity.
Qed.

Definition is_byte (b : Z) : Prop := 0 <= b < 256.
Definition u16 (v : Z) : Prop := 0 <= v < 65536.
Definition i16 (v : Z) : Prop := -32768 <= v < 32768.
Definition u32 (v : Z) : Prop := 0 <= v < 4294967296.
Definition i32 (v : Z) : Prop := -2147483648 <= v < 2147483648.

(** shape of the four ENCODE macros, for every integer argument *)
Lemma INT16ENCODE_shape : forall v,
  INT16ENCODE_bytes v = [(v mod 4294967296 / 256) mod 256; (v mod 4294967296) mod 256].
Proof.
  intro v. unfold INT16ENCODE_bytes. rewrite !land255, Z.shiftr_div_pow2 by lia. change (2 ^ 8) with 256.
  rewrite !Z.mod_mod by lia. reflexivity.
Qed.

Lemma UINT16ENCODE_shape : forall v,
  UINT16ENCODE_bytes v = [(v mod 4294967296 / 256) mod 256; v mod 256].
Proof.
  intro v. unfold UINT16ENCODE_bytes. rewrite !land255, Z.shiftr_div_pow2 by lia. change (2 ^ 8) with 256.
  rewrite !Z.mod_mod by lia. reflexivity.
Qed.

Lemma INT32ENCODE_shape : forall v, let u := v mod 4294967296 in
  INT32ENCODE_bytes v = [(u / 16777216) mod 256; (u / 65536) mod 256; (u / 256) mod 256; u mod 256].
Proof.
  intro v. unfold INT32ENCODE_bytes. rewrite !land255, !Z.shiftr_div_pow2 by lia.
  change (2 ^ 8) with 256. change (2 ^ 16) with 65536. change (2 ^ 24) with 16777216.
  rewrite !Z.mod_mod by lia. reflexivity.
Qed.

Lemma UINT32ENCODE_shape : forall v,
  UINT32ENCODE_bytes v = [(v / 16777216) mod 256; (v / 65536) mod 256; (v / 256) mod 256; v mod 256].
Proof.
  intro v. unfold UINT32ENCODE_bytes. rewrite !land255, !Z.shiftr_div_pow2 by lia.
  change (2 ^ 8) with 256. change (2 ^ 16) with 65536. change (2 ^ 24) with 16777216.
  rewrite !Z.mod_mod by lia. reflexivity.
Qed.

Lemma be16_bytes : forall u, be16 ((u / 256) mod 256) (u mod 256) = u mod 65536.
Proof. intro u. unfold be16. change 65536 with (256 * 256). rewrite Z.rem_mul_r by lia. lia. Qed.

Lemma mod_split : forall u m, 0 < m -> u mod (256 * m) = u mod 256 + 256 * ((u / 256) mod m).
Proof. intros. apply Z.rem_mul_r; lia. Qed.

Lemma be32_bytes : forall u,
  be32 ((u / 16777216) mod 256) ((u / 65536) mod 256) ((u / 256) mod 256) (u mod 256) = u mod 4294967296.
Proof.
  intro u. unfold be32.
  replace 4294967296 with (256 * 16777216) by reflexivity. rewrite (mod_split u 16777216) by lia.
  replace (u / 256 mod 16777216) with ((u / 256) mod (256 * 65536)) by reflexivity.
  rewrite (mod_split (u / 256) 65536) by lia.
  replace (u / 256 / 256 mod 65536) with ((u / 256 / 256) mod (256 * 256)) by reflexivity.
  rewrite (mod_split (u / 256 / 256) 256) by lia.
  rewrite !Z.div_div by lia.
  replace (256 * 256) with 65536 by reflexivity. replace (65536 * 256) with 16777216 by reflexivity.
  lia.
Qed.

Lemma sgn16_mod : forall v, i16 v -> sgn16 (v mod 65536) = v.
Proof.
  intros v H. unfold i16 in H. unfold sgn16. destruct (Z.lt_ge_cases v 0).
  - assert (v mod 65536 = v + 65536) as E by (rewrite <- (Z.mod_add v 1 65536) by lia; rewrite Z.mod_small; lia).
    rewrite E. destruct (v + 65536 <? 32768) eqn:L; [apply Z.ltb_lt in L; lia | lia].
  - rewrite Z.mod_small by lia. destruct (v <? 32768) eqn:L; [reflexivity | apply Z.ltb_ge in L; lia].
Qed.

Lemma sgn32_mod : forall v, i32 v -> sgn32 (v mod 4294967296) = v.
Proof.
  intros v H. unfold i32 in H. unfold sgn32. destruct (Z.lt_ge_cases v 0).
  - assert (v mod 4294967296 = v + 4294967296) as E by (rewrite <- (Z.mod_add v 1 4294967296) by lia; rewrite Z.mod_small; lia).
    rewrite E. destruct (v + 4294967296 <? 2147483648) eqn:L; [apply Z.ltb_lt in L; lia | lia].
  - rewrite Z.mod_small by lia. destruct (v <? 2147483648) eqn:L; [reflexivity | apply Z.ltb_ge in L; lia].
Qed.

Lemma mod32_mod16 : forall a, (a mod 4294967296) mod 65536 = a mod 65536.
Proof. intro a. symmetry. apply Znumtheory.Zmod_div_mod; try lia. exists 65536. reflexivity. Qed.

(** the specification's primitive readers invert the library's ENCODE macros *)
Lemma p_u16_enc : forall v r, u16 v -> p_u16 (UINT16ENCODE_bytes v ++ r) = Some (v, r).
Proof.
  intros v r H. unfold u16 in H. rewrite UINT16ENCODE_shape. simpl. f_equal. f_equal.
  rewrite (Z.mod_small v 4294967296) by lia. rewrite be16_bytes. apply Z.mod_small. lia.
Qed.

Lemma p_i16_enc : forall v r, i16 v -> p_i16 (INT16ENCODE_bytes v ++ r) = Some (v, r).
Proof.
  intros v r H. rewrite INT16ENCODE_shape. simpl. f_equal. f_equal.
  rewrite be16_bytes, mod32_mod16. apply sgn16_mod. exact H.
Qed.

(** a non-negative value written with the signed macro is read back by the unsigned reader, and vice versa *)
Lemma p_u16_enc_i : forall v r, 0 <= v < 32768 -> p_u16 (INT16ENCODE_bytes v ++ r) = Some (v, r).
Proof.
  intros v r H. rewrite INT16ENCODE_shape. simpl. f_equal. f_equal.
  rewrite be16_bytes, mod32_mod16. apply Z.mod_small. lia.
Qed.

Lemma p_i32_enc : forall v r, i32 v -> p_i32 (INT32ENCODE_bytes v ++ r) = Some (v, r).
Proof.
  intros v r H. rewrite INT32ENCODE_shape. simpl. f_equal. f_equal.
  rewrite be32_bytes, Z.mod_mod by lia. apply sgn32_mod. exact H.
Qed.

Lemma p_u32_enc : forall v r, u32 v -> p_u32 (UINT32ENCODE_bytes v ++ r) = Some (v, r).
Proof.
  intros v r H. unfold u32 in H. rewrite UINT32ENCODE_shape. simpl. f_equal. f_equal.
  rewrite be32_bytes. apply Z.mod_small. lia.
Qed.

Lemma enc_len_u16 : forall v, List.length (UINT16ENCODE_bytes v) = 2%nat. Proof. reflexivity. Qed.
Lemma enc_len_i16 : forall v, List.length (INT16ENCODE_bytes v) = 2%nat. Proof. reflexivity. Qed.
Lemma enc_len_i32 : forall v, List.length (INT32ENCODE_bytes v) = 4%nat. Proof. reflexivity. Qed.
Lemma enc_len_u32 : forall v, List.length (UINT32ENCODE_bytes v) = 4%nat. Proof. reflexivity. Qed.

(** every byte an ENCODE macro emits is a byte *)
Lemma enc_bytes_u16 : forall v, Forall is_byte (UINT16ENCODE_bytes v).
Proof. intro v. rewrite UINT16ENCODE_shape. repeat constructor; apply Z.mod_pos_bound; lia. Qed.
Lemma enc_bytes_i16 : forall v, Forall is_byte (INT16ENCODE_bytes v).
Proof. intro v. rewrite INT16ENCODE_shape. repeat constructor; apply Z.mod_pos_bound; lia. Qed.
Lemma enc_bytes_i32 : forall v, Forall is_byte (INT32ENCODE_bytes v).
Proof. intro v. rewrite INT32ENCODE_shape. repeat constructor; apply Z.mod_pos_bound; lia. Qed.
Lemma enc_bytes_u32 : forall v, Forall is_byte (UINT32ENCODE_bytes v).
Proof. intro v. rewrite UINT32ENCODE_shape. repeat constructor; apply Z.mod_pos_bound; lia. Qed.

(** the library's DECODE macros compute the specification's big-endian readers (the destination's C type does
    the final wrap: [sgn16] for an int16 variable, [sgn32] for an int32 variable) *)
Lemma UINT16DECODE_spec : forall b0 b1, is_byte b0 -> is_byte b1 -> UINT16DECODE_val b0 b1 = be16 b0 b1.
Proof.
  intros b0 b1 H0 H1. unfold is_byte in *. unfold UINT16DECODE_val, be16.
  rewrite !land255, !(Z.mod_small _ 256) by lia.
  assert (Z.shiftl b0 8 = b0 * 256) as S by (rewrite Z.shiftl_mul_pow2 by lia; reflexivity).
  rewrite (Z.mod_small (Z.shiftl b0 8) 65536) by lia. rewrite (Z.mod_small b1 65536) by lia.
  rewrite lor_shiftl_add by (simpl; lia). reflexivity.
Qed.

Lemma INT16DECODE_spec : forall b0 b1, is_byte b0 -> is_byte b1 ->
  sgn16 ((INT16DECODE_val b0 b1) mod 65536) = sgn16 (be16 b0 b1).
Proof.
  intros b0 b1 H0 H1. unfold is_byte in *. unfold INT16DECODE_val, be16.
  rewrite !land255, !(Z.mod_small _ 256) by lia.
  assert ((if Z.land b0 128 =? 0 then 0 else Z.lnot 65535) + 32768 = 32768 \/
          (if Z.land b0 128 =? 0 then 0 else Z.lnot 65535) + 32768 = -32768) as E.
  { destruct (Z.land b0 128 =? 0); [left | right]; reflexivity. }
  assert (((if Z.land b0 128 =? 0 then 0 else Z.lnot 65535) + 32768) mod 65536 - 32768 = 0) as E0.
  { destruct E as [E | E]; rewrite E; reflexivity. }
  rewrite E0. rewrite Z.lor_0_l.
  rewrite !(Z.mod_small (_ + 32768) 65536) by lia.
  replace (b0 + 32768 - 32768) with b0 by lia. replace (b1 + 32768 - 32768) with b1 by lia.
  rewrite lor_shiftl_add by (simpl; lia). change (2 ^ 8) with 256.
  f_equal. apply Z.mod_small. lia.
Qed.

Lemma shl_mul : forall a n, 0 <= n -> Z.shiftl a n = a * 2 ^ n.
Proof. intros. apply Z.shiftl_mul_pow2; auto. Qed.

Lemma lor4_bytes : forall a b c d, is_byte a -> is_byte b -> is_byte c -> is_byte d ->
  Z.lor (Z.lor (Z.lor (Z.shiftl a 24) (Z.shiftl b 16)) (Z.shiftl c 8)) d = be32 a b c d.
Proof.
  intros a b c d Ha Hb Hc Hd. unfold is_byte in *. unfold be32.
  assert (Z.shiftl b 16 = b * 65536) as S1 by (rewrite shl_mul by lia; reflexivity).
  assert (Z.shiftl c 8 = c * 256) as S2 by (rewrite shl_mul by lia; reflexivity).
  rewrite (lor_shiftl_add a (Z.shiftl b 16) 24) by (change (2 ^ 24) with 16777216; lia).
  replace (a * 2 ^ 24 + Z.shiftl b 16) with (Z.shiftl (a * 256 + b) 16)
    by (rewrite S1, shl_mul by lia; change (2 ^ 16) with 65536; change (2 ^ 24) with 16777216; lia).
  rewrite (lor_shiftl_add (a * 256 + b) (Z.shiftl c 8) 16) by (change (2 ^ 16) with 65536; lia).
  replace ((a * 256 + b) * 2 ^ 16 + Z.shiftl c 8) with (Z.shiftl ((a * 256 + b) * 256 + c) 8)
    by (rewrite S2, shl_mul by lia; change (2 ^ 16) with 65536; change (2 ^ 8) with 256; lia).
  rewrite lor_shiftl_add by (change (2 ^ 8) with 256; lia). reflexivity.
Qed.

Lemma UINT32DECODE_spec : forall b0 b1 b2 b3, is_byte b0 -> is_byte b1 -> is_byte b2 -> is_byte b3 ->
  UINT32DECODE_val b0 b1 b2 b3 = be32 b0 b1 b2 b3.
Proof.
  intros b0 b1 b2 b3 H0 H1 H2 H3. unfold UINT32DECODE_val.
  pose proof H0 as H0'. pose proof H1 as H1'. pose proof H2 as H2'. pose proof H3 as H3'.
  unfold is_byte in H0', H1', H2', H3'.
  rewrite !land255, !(Z.mod_small _ 256) by lia. rewrite !(Z.mod_small _ 4294967296) by lia.
  apply lor4_bytes; assumption.
Qed.

Lemma INT32DECODE_spec : forall b0 b1 b2 b3, is_byte b0 -> is_byte b1 -> is_byte b2 -> is_byte b3 ->
  sgn32 ((INT32DECODE_val b0 b1 b2 b3) mod 4294967296) = sgn32 (be32 b0 b1 b2 b3).
Proof.
  intros b0 b1 b2 b3 H0 H1 H2 H3. unfold INT32DECODE_val.
  pose proof H0 as H0'. pose proof H1 as H1'. pose proof H2 as H2'. pose proof H3 as H3'.
  unfold is_byte in H0', H1', H2', H3'.
  assert (((if Z.land b0 128 =? 0 then 0 else Z.lnot 4294967295) + 2147483648) mod 4294967296 - 2147483648 = 0) as E0.
  { destruct (Z.land b0 128 =? 0); reflexivity. }
  rewrite E0, Z.lor_0_l.
  change (255 mod 4294967296) with 255.
  rewrite !land255, !(Z.mod_small _ 256) by lia.
  rewrite !(Z.mod_small (_ + 2147483648) 4294967296) by lia.
  replace (b1 + 2147483648 - 2147483648) with b1 by lia. replace (b2 + 2147483648 - 2147483648) with b2 by lia.
  rewrite lor4_bytes by assumption. f_equal. apply Z.mod_small. unfold be32. lia.
Qed.
