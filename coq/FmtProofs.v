(** C02 -- proofs about the format specification (FmtSpec.v) and the writers' model (FmtModel.v). *)
From Coq Require Import ZArith List Bool Lia String Znumtheory.
Require Import H4.FmtSpec H4.FmtModel H4.gen.Gen_Fmt.
Import ListNotations.
Local Open Scope Z_scope.

(* ================================================================================================== *)
(** * 1. The published constants are the constants of the current sources *)

Lemma consts_agree :
  HDFMAGIC = magic /\ MAGICLEN = 4 /\ DD_SZ = dd_size /\ NDDS_SZ + OFFSET_SZ = blkhdr_size /\
  INVALID_OFFSET = -1 /\ INVALID_LENGTH = -1 /\
  DFTAG_NULL = tag_null /\ DFTAG_LINKED = tag_linked /\ DFTAG_COMPRESSED = tag_compressed /\
  DFTAG_CHUNK = tag_chunk /\ DFTAG_VH = tag_vh /\ DFTAG_VS = tag_vs /\ DFTAG_VG = tag_vg /\
  SPECIAL_LINKED = sp_linked /\ SPECIAL_EXT = sp_ext /\ SPECIAL_COMP = sp_comp /\ SPECIAL_CHUNKED = sp_chunked /\
  [COMP_CODE_NONE; COMP_CODE_RLE; COMP_CODE_NBIT; COMP_CODE_SKPHUFF; COMP_CODE_DEFLATE; COMP_CODE_SZIP] = [0; 1; 2; 3; 4; 5] /\
  VSET_NEW_VERSION = 4 /\ VS_ATTR_SET = 1 /\ VG_ATTR_SET = 1 /\ COMP_HEADER_VERSION = 0 /\ _HDF_CHK_HDR_VER = 0 /\
  RUN_MASK = 128 /\ COUNT_MASK = 127 /\ RLE_MIN_RUN = 3 /\ RLE_MIN_MIX = 1.
Proof. repeat split; reflexivity. Qed.

(** BASETAG / SPECIALTAG / MKSPECIALTAG of hfile_priv.h against the specification's [base_tag] / [is_special],
    for every 16-bit tag (complete sweep of the finite domain) *)
Definition tag_macros_ok (t : Z) : bool :=
  (BASETAG t =? base_tag t) && Bool.eqb (negb (SPECIALTAG t =? 0)) (is_special t) &&
  (if (t <? 16384) && negb (t =? 0) then (base_tag (MKSPECIALTAG t) =? t) && is_special (MKSPECIALTAG t) else true).

Lemma zrange_In : forall n t, 0 <= t < n -> In t (zrange n).
Proof.
  intros n t H. unfold zrange. apply in_map_iff. exists (Z.to_nat t). split; [lia|].
  apply in_seq. lia.
Qed.

Lemma tag_macros_sweep :
  forallb (fun hi => forallb (fun lo => tag_macros_ok (hi * 256 + lo)) (zrange 256)) (zrange 256) = true.
Proof. vm_compute. reflexivity. Qed.

Lemma tag_macros_agree : forall t, 0 <= t < 65536 ->
  BASETAG t = base_tag t /\ (SPECIALTAG t <> 0 <-> is_special t = true) /\
  (0 < t < 16384 -> base_tag (MKSPECIALTAG t) = t /\ is_special (MKSPECIALTAG t) = true).
Proof.
  intros t Ht.
  assert (0 <= t / 256 < 256) as Hhi by (split; [apply Z.div_pos; lia | apply Z.div_lt_upper_bound; lia]).
  pose proof (Z.mod_pos_bound t 256 ltac:(lia)) as Hlo.
  pose proof (proj1 (forallb_forall _ _) tag_macros_sweep (t / 256) (zrange_In _ _ Hhi)) as H.
  cbv beta in H.
  pose proof (proj1 (forallb_forall _ _) H (t mod 256) (zrange_In _ _ Hlo)) as H'. clear H. rename H' into H.
  cbv beta in H. replace (t / 256 * 256 + t mod 256) with t in H by (rewrite Z.mul_comm; apply Z.div_mod; lia).
  unfold tag_macros_ok in H. apply andb_true_iff in H. destruct H as [H H3].
  apply andb_true_iff in H. destruct H as [H1 H2].
  apply Z.eqb_eq in H1. apply Bool.eqb_prop in H2. split; [exact H1|]. split.
  - rewrite <- H2. destruct (SPECIALTAG t =? 0) eqn:E; simpl.
    + apply Z.eqb_eq in E. split; [congruence|discriminate].
    + apply Z.eqb_neq in E. tauto.
  - intros Hr. assert ((t <? 16384) && negb (t =? 0) = true) as E.
    { apply andb_true_iff. split; [apply Z.ltb_lt; lia|]. apply negb_true_iff. apply Z.eqb_neq. lia. }
    rewrite E in H3. apply andb_true_iff in H3. destruct H3 as [A B]. apply Z.eqb_eq in A. tauto.
Qed.

(* ================================================================================================== *)
(** * 2. The ENCODE / DECODE statement macros are big-endian two's complement *)

Lemma land255 : forall x, Z.land x 255 = x mod 256.
Proof. intro x. change 255 with (Z.ones 8). rewrite Z.land_ones by lia. reflexivity. Qed.

Lemma land_shiftl_small : forall hi lo n, 0 <= n -> 0 <= lo < 2 ^ n -> Z.land (Z.shiftl hi n) lo = 0.
Proof.
  intros hi lo n Hn Hlo. apply Z.bits_inj'. intros k Hk.
  rewrite Z.land_spec, Z.bits_0.
  destruct (Z.lt_ge_cases k n).
  - rewrite Z.shiftl_spec_low by lia. reflexivity.
  - assert (Z.testbit lo k = false) as E.
    { apply Z.testbit_false; [lia|]. rewrite Z.div_small; [reflexivity|].
      split; [lia|]. apply Z.lt_le_trans with (2 ^ n); [lia|]. apply Z.pow_le_mono_r; lia. }
    rewrite E. apply andb_false_r.
Qed.

Lemma lor_shiftl_add : forall hi lo n, 0 <= n -> 0 <= lo < 2 ^ n -> Z.lor (Z.shiftl hi n) lo = hi * 2 ^ n + lo.
Proof.
  intros. rewrite <- Z.lxor_lor by (apply land_shiftl_small; auto).
  rewrite <- Z.add_nocarry_lxor by (apply land_shiftl_small; auto).
  rewrite Z.shiftl_mul_pow2 by lia. reflexivity.
Qed.

Definition is_byte (b : Z) : Prop := 0 <= b < 256.
Definition u16 (v : Z) : Prop := 0 <= v < 65536.
Definition i16 (v : Z) : Prop := -32768 <= v < 32768.
Definition u32 (v : Z) : Prop := 0 <= v < 4294967296.
Definition i32 (v : Z) : Prop := -2147483648 <= v < 2147483648.

(** shape of the four ENCODE macros, for every integer argument *)
Lemma INT16ENCODE_shape : forall v,
  INT16ENCODE_bytes v = [(v mod 4294967296 / 256) mod 256; (v mod 4294967296) mod 256].
Proof.
  intro v. unfold INT16ENCODE_bytes. rewrite !land255, Z.shiftr_div_pow2 by lia. change (2 ^ 8) with 256.
  rewrite !Z.mod_mod by lia. reflexivity.
Qed.

Lemma UINT16ENCODE_shape : forall v,
  UINT16ENCODE_bytes v = [(v mod 4294967296 / 256) mod 256; v mod 256].
Proof.
  intro v. unfold UINT16ENCODE_bytes. rewrite !land255, Z.shiftr_div_pow2 by lia. change (2 ^ 8) with 256.
  rewrite !Z.mod_mod by lia. reflexivity.
Qed.

Lemma INT32ENCODE_shape : forall v, let u := v mod 4294967296 in
  INT32ENCODE_bytes v = [(u / 16777216) mod 256; (u / 65536) mod 256; (u / 256) mod 256; u mod 256].
Proof.
  intro v. unfold INT32ENCODE_bytes. rewrite !land255, !Z.shiftr_div_pow2 by lia.
  change (2 ^ 8) with 256. change (2 ^ 16) with 65536. change (2 ^ 24) with 16777216.
  rewrite !Z.mod_mod by lia. reflexivity.
Qed.

Lemma UINT32ENCODE_shape : forall v,
  UINT32ENCODE_bytes v = [(v / 16777216) mod 256; (v / 65536) mod 256; (v / 256) mod 256; v mod 256].
Proof.
  intro v. unfold UINT32ENCODE_bytes. rewrite !land255, !Z.shiftr_div_pow2 by lia.
  change (2 ^ 8) with 256. change (2 ^ 16) with 65536. change (2 ^ 24) with 16777216.
  rewrite !Z.mod_mod by lia. reflexivity.
Qed.

Lemma be16_bytes : forall u, be16 ((u / 256) mod 256) (u mod 256) = u mod 65536.
Proof. intro u. unfold be16. change 65536 with (256 * 256). rewrite Z.rem_mul_r by lia. lia. Qed.

Lemma mod_split : forall u m, 0 < m -> u mod (256 * m) = u mod 256 + 256 * ((u / 256) mod m).
Proof. intros. apply Z.rem_mul_r; lia. Qed.

Lemma be32_bytes : forall u,
  be32 ((u / 16777216) mod 256) ((u / 65536) mod 256) ((u / 256) mod 256) (u mod 256) = u mod 4294967296.
Proof.
  intro u. unfold be32.
  replace 4294967296 with (256 * 16777216) by reflexivity. rewrite (mod_split u 16777216) by lia.
  replace (u / 256 mod 16777216) with ((u / 256) mod (256 * 65536)) by reflexivity.
  rewrite (mod_split (u / 256) 65536) by lia.
  replace (u / 256 / 256 mod 65536) with ((u / 256 / 256) mod (256 * 256)) by reflexivity.
  rewrite (mod_split (u / 256 / 256) 256) by lia.
  rewrite !Z.div_div by lia.
  replace (256 * 256) with 65536 by reflexivity. replace (65536 * 256) with 16777216 by reflexivity.
  lia.
Qed.

Lemma sgn16_mod : forall v, i16 v -> sgn16 (v mod 65536) = v.
Proof.
  intros v H. unfold i16 in H. unfold sgn16. destruct (Z.lt_ge_cases v 0).
  - assert (v mod 65536 = v + 65536) as E by (rewrite <- (Z.mod_add v 1 65536) by lia; rewrite Z.mod_small; lia).
    rewrite E. destruct (v + 65536 <? 32768) eqn:L; [apply Z.ltb_lt in L; lia | lia].
  - rewrite Z.mod_small by lia. destruct (v <? 32768) eqn:L; [reflexivity | apply Z.ltb_ge in L; lia].
Qed.

Lemma sgn32_mod : forall v, i32 v -> sgn32 (v mod 4294967296) = v.
Proof.
  intros v H. unfold i32 in H. unfold sgn32. destruct (Z.lt_ge_cases v 0).
  - assert (v mod 4294967296 = v + 4294967296) as E by (rewrite <- (Z.mod_add v 1 4294967296) by lia; rewrite Z.mod_small; lia).
    rewrite E. destruct (v + 4294967296 <? 2147483648) eqn:L; [apply Z.ltb_lt in L; lia | lia].
  - rewrite Z.mod_small by lia. destruct (v <? 2147483648) eqn:L; [reflexivity | apply Z.ltb_ge in L; lia].
Qed.

Lemma mod32_mod16 : forall a, (a mod 4294967296) mod 65536 = a mod 65536.
Proof. intro a. symmetry. apply Znumtheory.Zmod_div_mod; try lia. exists 65536. reflexivity. Qed.

(** the specification's primitive readers invert the library's ENCODE macros *)
Lemma p_u16_enc : forall v r, u16 v -> p_u16 (UINT16ENCODE_bytes v ++ r) = Some (v, r).
Proof.
  intros v r H. unfold u16 in H. rewrite UINT16ENCODE_shape. simpl. f_equal. f_equal.
  rewrite (Z.mod_small v 4294967296) by lia. rewrite be16_bytes. apply Z.mod_small. lia.
Qed.

Lemma p_i16_enc : forall v r, i16 v -> p_i16 (INT16ENCODE_bytes v ++ r) = Some (v, r).
Proof.
  intros v r H. rewrite INT16ENCODE_shape. simpl. f_equal. f_equal.
  rewrite be16_bytes, mod32_mod16. apply sgn16_mod. exact H.
Qed.

(** a non-negative value written with the signed macro is read back by the unsigned reader, and vice versa *)
Lemma p_u16_enc_i : forall v r, 0 <= v < 32768 -> p_u16 (INT16ENCODE_bytes v ++ r) = Some (v, r).
Proof.
  intros v r H. rewrite INT16ENCODE_shape. simpl. f_equal. f_equal.
  rewrite be16_bytes, mod32_mod16. apply Z.mod_small. lia.
Qed.

Lemma p_i32_enc : forall v r, i32 v -> p_i32 (INT32ENCODE_bytes v ++ r) = Some (v, r).
Proof.
  intros v r H. rewrite INT32ENCODE_shape. simpl. f_equal. f_equal.
  rewrite be32_bytes, Z.mod_mod by lia. apply sgn32_mod. exact H.
Qed.

Lemma p_u32_enc : forall v r, u32 v -> p_u32 (UINT32ENCODE_bytes v ++ r) = Some (v, r).
Proof.
  intros v r H. unfold u32 in H. rewrite UINT32ENCODE_shape. simpl. f_equal. f_equal.
  rewrite be32_bytes. apply Z.mod_small. lia.
Qed.

Lemma enc_len_u16 : forall v, List.length (UINT16ENCODE_bytes v) = 2%nat. Proof. reflexivity. Qed.
Lemma enc_len_i16 : forall v, List.length (INT16ENCODE_bytes v) = 2%nat. Proof. reflexivity. Qed.
Lemma enc_len_i32 : forall v, List.length (INT32ENCODE_bytes v) = 4%nat. Proof. reflexivity. Qed.
Lemma enc_len_u32 : forall v, List.length (UINT32ENCODE_bytes v) = 4%nat. Proof. reflexivity. Qed.

(** every byte an ENCODE macro emits is a byte *)
Lemma enc_bytes_u16 : forall v, Forall is_byte (UINT16ENCODE_bytes v).
Proof. intro v. rewrite UINT16ENCODE_shape. repeat constructor; apply Z.mod_pos_bound; lia. Qed.
Lemma enc_bytes_i16 : forall v, Forall is_byte (INT16ENCODE_bytes v).
Proof. intro v. rewrite INT16ENCODE_shape. repeat constructor; apply Z.mod_pos_bound; lia. Qed.
Lemma enc_bytes_i32 : forall v, Forall is_byte (INT32ENCODE_bytes v).
Proof. intro v. rewrite INT32ENCODE_shape. repeat constructor; apply Z.mod_pos_bound; lia. Qed.
Lemma enc_bytes_u32 : forall v, Forall is_byte (UINT32ENCODE_bytes v).
Proof. intro v. rewrite UINT32ENCODE_shape. repeat constructor; apply Z.mod_pos_bound; lia. Qed.

(** the library's DECODE macros compute the specification's big-endian readers (the destination's C type does
    the final wrap: [sgn16] for an int16 variable, [sgn32] for an int32 variable) *)
Lemma UINT16DECODE_spec : forall b0 b1, is_byte b0 -> is_byte b1 -> UINT16DECODE_val b0 b1 = be16 b0 b1.
Proof.
  intros b0 b1 H0 H1. unfold is_byte in *. unfold UINT16DECODE_val, be16.
  rewrite !land255, !(Z.mod_small _ 256) by lia.
  assert (Z.shiftl b0 8 = b0 * 256) as S by (rewrite Z.shiftl_mul_pow2 by lia; reflexivity).
  rewrite (Z.mod_small (Z.shiftl b0 8) 65536) by lia. rewrite (Z.mod_small b1 65536) by lia.
  rewrite lor_shiftl_add by (simpl; lia). reflexivity.
Qed.

Lemma INT16DECODE_spec : forall b0 b1, is_byte b0 -> is_byte b1 ->
  sgn16 ((INT16DECODE_val b0 b1) mod 65536) = sgn16 (be16 b0 b1).
Proof.
  intros b0 b1 H0 H1. unfold is_byte in *. unfold INT16DECODE_val, be16.
  rewrite !land255, !(Z.mod_small _ 256) by lia.
  assert ((if Z.land b0 128 =? 0 then 0 else Z.lnot 65535) + 32768 = 32768 \/
          (if Z.land b0 128 =? 0 then 0 else Z.lnot 65535) + 32768 = -32768) as E.
  { destruct (Z.land b0 128 =? 0); [left | right]; reflexivity. }
  assert (((if Z.land b0 128 =? 0 then 0 else Z.lnot 65535) + 32768) mod 65536 - 32768 = 0) as E0.
  { destruct E as [E | E]; rewrite E; reflexivity. }
  rewrite E0. rewrite Z.lor_0_l.
  rewrite !(Z.mod_small (_ + 32768) 65536) by lia.
  replace (b0 + 32768 - 32768) with b0 by lia. replace (b1 + 32768 - 32768) with b1 by lia.
  rewrite lor_shiftl_add by (simpl; lia). change (2 ^ 8) with 256.
  f_equal. apply Z.mod_small. lia.
Qed.

Lemma shl_mul : forall a n, 0 <= n -> Z.shiftl a n = a * 2 ^ n.
Proof. intros. apply Z.shiftl_mul_pow2; auto. Qed.

Lemma lor4_bytes : forall a b c d, is_byte a -> is_byte b -> is_byte c -> is_byte d ->
  Z.lor (Z.lor (Z.lor (Z.shiftl a 24) (Z.shiftl b 16)) (Z.shiftl c 8)) d = be32 a b c d.
Proof.
  intros a b c d Ha Hb Hc Hd. unfold is_byte in *. unfold be32.
  assert (Z.shiftl b 16 = b * 65536) as S1 by (rewrite shl_mul by lia; reflexivity).
  assert (Z.shiftl c 8 = c * 256) as S2 by (rewrite shl_mul by lia; reflexivity).
  rewrite (lor_shiftl_add a (Z.shiftl b 16) 24) by (change (2 ^ 24) with 16777216; lia).
  replace (a * 2 ^ 24 + Z.shiftl b 16) with (Z.shiftl (a * 256 + b) 16)
    by (rewrite S1, shl_mul by lia; change (2 ^ 16) with 65536; change (2 ^ 24) with 16777216; lia).
  rewrite (lor_shiftl_add (a * 256 + b) (Z.shiftl c 8) 16) by (change (2 ^ 16) with 65536; lia).
  replace ((a * 256 + b) * 2 ^ 16 + Z.shiftl c 8) with (Z.shiftl ((a * 256 + b) * 256 + c) 8)
    by (rewrite S2, shl_mul by lia; change (2 ^ 16) with 65536; change (2 ^ 8) with 256; lia).
  rewrite lor_shiftl_add by (change (2 ^ 8) with 256; lia). reflexivity.
Qed.

Lemma UINT32DECODE_spec : forall b0 b1 b2 b3, is_byte b0 -> is_byte b1 -> is_byte b2 -> is_byte b3 ->
  UINT32DECODE_val b0 b1 b2 b3 = be32 b0 b1 b2 b3.
Proof.
  intros b0 b1 b2 b3 H0 H1 H2 H3. unfold UINT32DECODE_val.
  pose proof H0 as H0'. pose proof H1 as H1'. pose proof H2 as H2'. pose proof H3 as H3'.
  unfold is_byte in H0', H1', H2', H3'.
  rewrite !land255, !(Z.mod_small _ 256) by lia. rewrite !(Z.mod_small _ 4294967296) by lia.
  apply lor4_bytes; assumption.
Qed.

Lemma INT32DECODE_spec : forall b0 b1 b2 b3, is_byte b0 -> is_byte b1 -> is_byte b2 -> is_byte b3 ->
  sgn32 ((INT32DECODE_val b0 b1 b2 b3) mod 4294967296) = sgn32 (be32 b0 b1 b2 b3).
Proof.
  intros b0 b1 b2 b3 H0 H1 H2 H3. unfold INT32DECODE_val.
  pose proof H0 as H0'. pose proof H1 as H1'. pose proof H2 as H2'. pose proof H3 as H3'.
  unfold is_byte in H0', H1', H2', H3'.
  assert (((if Z.land b0 128 =? 0 then 0 else Z.lnot 4294967295) + 2147483648) mod 4294967296 - 2147483648 = 0) as E0.
  { destruct (Z.land b0 128 =? 0); reflexivity. }
  rewrite E0, Z.lor_0_l.
  change (255 mod 4294967296) with 255.
  rewrite !land255, !(Z.mod_small _ 256) by lia.
  rewrite !(Z.mod_small (_ + 2147483648) 4294967296) by lia.
  replace (b1 + 2147483648 - 2147483648) with b1 by lia. replace (b2 + 2147483648 - 2147483648) with b2 by lia.
  rewrite lor4_bytes by assumption. f_equal. apply Z.mod_small. unfold be32. lia.
Qed.

(* ================================================================================================== *)
(** * 3. The model's encoders use exactly the macros the source uses, in the source's order
      (every lemma of this section is closed by [reflexivity] over the lists regenerated from the C text:
      a change of width, signedness or order in a writer breaks it) *)

Lemma seq_names :
  map snd DDENCODE_seq = ["tag"; "ref"; "offset"; "length"]%string /\
  map snd HTPsync_seq = ["block->ndds"; "block->nextoffset"]%string /\
  map snd HLcreate_seq = ["SPECIAL_LINKED"; "info->length"; "block_length"; "number_blocks"; "link_ref"]%string /\
  map snd HLgetdatainfo_seq = ["total_length"; "block_length"; "num_blocks"; "link_ref"]%string /\
  map snd HXcreate_seq = ["SPECIAL_EXT"; "info->length"; "info->extern_offset"; "info->length_file_name"]%string /\
  map snd HCIwrite_header_seq = ["SPECIAL_COMP"; "COMP_HEADER_VERSION"; "info->length"; "(uint16)info->comp_ref"]%string /\
  map snd (firstn 10 HCPencode_header_seq) =
    ["(uint16)model_type"; "(uint16)coder_type"; "c_info->nbit.nt"; "(uint16)c_info->nbit.sign_ext";
     "(uint16)c_info->nbit.fill_one"; "(int32)c_info->nbit.start_bit"; "(int32)c_info->nbit.bit_len";
     "(uint32)c_info->skphuff.skp_size"; "(uint32)c_info->skphuff.skp_size"; "(uint16)c_info->deflate.level"]%string /\
  map snd HMCcreate_seq =
    ["SPECIAL_CHUNKED"; "info->sp_tag_header_len"; "info->flag"; "info->length"; "info->chunk_size"; "info->nt_size";
     "info->chktbl_tag"; "info->chktbl_ref"; "info->sp_tag"; "info->sp_ref"; "info->ndims"; "(info->ddims[j].flag)";
     "(info->ddims[j].dim_length)"; "(info->ddims[j].chunk_length)"; "(info->fill_val_len)"; "SPECIAL_COMP";
     "info->comp_sp_tag_head_len"]%string /\
  map snd vpackvs_seq =
    ["vs->interlace"; "vs->nvertices"; "vs->wlist.ivsize"; "vs->wlist.n"; "vs->wlist.type[i]"; "vs->wlist.isize[i]";
     "vs->wlist.off[i]"; "vs->wlist.order[i]"; "slen"; "slen"; "slen"; "vs->extag"; "vs->exref"; "vs->version";
     "vs->more"; "vs->flags"; "vs->nattrs"; "vs->alist[i].findex"; "vs->alist[i].atag"; "vs->alist[i].aref";
     "vs->version"; "vs->more"]%string /\
  map snd vpackvg_seq =
    ["vg->nvelt"; "vg->tag[i]"; "vg->ref[i]"; "temp_len"; "temp_len"; "vg->extag"; "vg->exref"; "vg->flags";
     "vg->nattrs"; "vg->alist[i].atag"; "vg->alist[i].aref"; "vg->version"; "vg->more"]%string.
Proof. repeat split; reflexivity. Qed.

Notation U16 := UINT16ENCODE_bytes.
Notation I16 := INT16ENCODE_bytes.
Notation U32 := UINT32ENCODE_bytes.
Notation I32 := INT32ENCODE_bytes.

Lemma dd_encode_eq : forall d,
  dd_encode d = U16 (dd_tag d) ++ U16 (dd_ref d) ++ I32 (dd_off d) ++ I32 (dd_len d).
Proof. reflexivity. Qed.

Lemma block_encode_eq : forall b,
  block_encode b = I16 (blk_ndds b) ++ I32 (blk_next b) ++ flat_map dd_encode (blk_dds b).
Proof. reflexivity. Qed.

Lemma linked_encode_eq : forall h,
  linked_encode h = U16 SPECIAL_LINKED ++ I32 (lh_length h) ++ I32 (lh_blen h) ++ I32 (lh_nblk h) ++ U16 (lh_ref h).
Proof. reflexivity. Qed.

Lemma ext_encode_eq : forall h,
  ext_encode h = I16 SPECIAL_EXT ++ I32 (xh_length h) ++ I32 (xh_offset h) ++ I32 (zlen (xh_name h)) ++ xh_name h.
Proof. reflexivity. Qed.

Lemma coder_encode_eq : forall m c,
  coder_encode m c = U16 m ++ U16 (coder_code c) ++
    match c with
    | CNbit nt se fo sb bl => I32 nt ++ U16 se ++ U16 fo ++ I32 sb ++ I32 bl
    | CSkphuff a b => U32 a ++ U32 b
    | CDeflate lv => U16 lv
    | CSzip a b mk d e => U32 a ++ U32 b ++ U32 mk ++ [d; e]
    | _ => []
    end.
Proof. intros m c. destruct c; reflexivity. Qed.

Lemma comp_encode_eq : forall h,
  comp_encode h = I16 SPECIAL_COMP ++ U16 (ch_version h) ++ I32 (ch_length h) ++ U16 (ch_ref h) ++
                  coder_encode (ch_model h) (ch_coder h).
Proof. reflexivity. Qed.

Lemma cdim_encode_eq : forall d, cdim_encode d = I32 (cd_flag d) ++ I32 (cd_len d) ++ I32 (cd_clen d).
Proof. reflexivity. Qed.

Lemma chunk_encode_eq : forall h,
  chunk_encode h =
  U16 SPECIAL_CHUNKED ++ I32 (kh_hlen h) ++ [kh_version h] ++ I32 (kh_flag h) ++ I32 (kh_length h) ++
  I32 (kh_csize h) ++ I32 (kh_ntsize h) ++ U16 (kh_tbltag h) ++ U16 (kh_tblref h) ++ U16 (kh_sptag h) ++
  U16 (kh_spref h) ++ I32 (zlen (kh_dims h)) ++ flat_map cdim_encode (kh_dims h) ++
  I32 (zlen (kh_fill h)) ++ kh_fill h ++
  match kh_comp h with
  | Some (cl, m, c) => U16 SPECIAL_COMP ++ I32 cl ++ coder_encode m c
  | None => []
  end.
Proof. intro h. unfold chunk_encode. destruct (kh_comp h) as [[[cl m] c]|]; reflexivity. Qed.

Definition str_i16 (s : list Z) : list Z := I16 (zlen s) ++ s.
Definition str_u16 (s : list Z) : list Z := U16 (zlen s) ++ s.
Definition vattr_enc (a : vattr) : list Z := I32 (va_findex a) ++ U16 (va_tag a) ++ U16 (va_ref a).
Definition vgattr_enc (a : Z * Z) : list Z := U16 (fst a) ++ U16 (snd a).

Lemma vh_body_eq : forall v,
  vh_body v =
  I16 (vh_interlace v) ++ I32 (vh_nvert v) ++ U16 (vh_ivsize v) ++ I16 (zlen (vh_types v)) ++
  flat_map I16 (vh_types v) ++ flat_map U16 (vh_isizes v) ++ flat_map U16 (vh_offs v) ++
  flat_map U16 (vh_orders v) ++ flat_map str_i16 (vh_names v) ++ str_i16 (vh_name v) ++ str_i16 (vh_class v) ++
  U16 (vh_extag v) ++ U16 (vh_exref v) ++ I16 (vh_version v) ++ I16 (vh_more v) ++
  (if vh_flags v =? 0 then [] else
     U32 (vh_flags v) ++
     if Z.land (vh_flags v) 1 =? 0 then [] else I32 (zlen (vh_attrs v)) ++ flat_map vattr_enc (vh_attrs v)).
Proof. reflexivity. Qed.

Lemma vh_tail_eq : forall v, vh_tail v = I16 (vh_version v) ++ I16 (vh_more v) ++ [0].
Proof. reflexivity. Qed.

Lemma vg_body_eq : forall g,
  vg_body g =
  U16 (zlen (vg_tags g)) ++ flat_map U16 (vg_tags g) ++ flat_map U16 (vg_refs g) ++
  str_u16 (vg_name g) ++ str_u16 (vg_class g) ++ U16 (vg_extag g) ++ U16 (vg_exref g) ++
  (if vg_flags g =? 0 then [] else
     U32 (vg_flags g) ++
     if Z.land (vg_flags g) 1 =? 0 then [] else I32 (zlen (vg_attrs g)) ++ flat_map vgattr_enc (vg_attrs g)).
Proof. reflexivity. Qed.

Lemma vg_tail_eq : forall g, vg_tail g = U16 (vg_out_version g) ++ U16 (vg_more g) ++ [0].
Proof. reflexivity. Qed.

(* ================================================================================================== *)
(** * 4. Codec round trips: the specification's parsers invert the library's writers *)

Opaque encn enc_by.
Arguments dd_encode : simpl never.
Arguments cdim_encode : simpl never.
Arguments UINT16ENCODE_bytes : simpl never.
Arguments INT16ENCODE_bytes : simpl never.
Arguments UINT32ENCODE_bytes : simpl never.
Arguments INT32ENCODE_bytes : simpl never.

Lemma zlen_nonneg : forall {A} (l : list A), 0 <= zlen l.
Proof. intros. unfold zlen. lia. Qed.

Lemma zlen_app : forall {A} (a b : list A), zlen (a ++ b) = zlen a + zlen b.
Proof. intros. unfold zlen. rewrite app_length. lia. Qed.

Lemma p_bytes_app : forall s r, p_bytes (List.length s) (s ++ r) = Some (s, r).
Proof. induction s; intro r; simpl; [reflexivity|]. rewrite IHs. reflexivity. Qed.

Lemma p_count_ok : forall n (l : list Z), (n <= List.length l)%nat -> p_count (Z.of_nat n) l = Some n.
Proof.
  intros n l H. unfold p_count, zlen.
  destruct (Z.of_nat n <? 0) eqn:A; [apply Z.ltb_lt in A; lia|].
  destruct (Z.of_nat (List.length l) <? Z.of_nat n) eqn:B; [apply Z.ltb_lt in B; lia|].
  simpl. rewrite Nat2Z.id. reflexivity.
Qed.

Lemma p_count_zlen : forall {A} (xs : list A) (l : list Z), (List.length xs <= List.length l)%nat ->
  p_count (zlen xs) l = Some (List.length xs).
Proof. intros. unfold zlen at 1. apply p_count_ok. assumption. Qed.

Section Rep.
  Context {A : Type} (p : list Z -> option (A * list Z)) (enc : A -> list Z) (ok : A -> Prop).
  Hypothesis rt : forall x r, ok x -> p (enc x ++ r) = Some (x, r).

  Lemma p_rep_enc : forall xs r, Forall ok xs -> p_rep p (List.length xs) (flat_map enc xs ++ r) = Some (xs, r).
  Proof.
    induction xs as [|x xs IH]; intros r H; simpl; [reflexivity|].
    inversion H; subst. rewrite <- app_assoc. rewrite rt by assumption. rewrite IH by assumption. reflexivity.
  Qed.

  Lemma flat_map_len : (forall x, (1 <= List.length (enc x))%nat) ->
    forall xs, (List.length xs <= List.length (flat_map enc xs))%nat.
  Proof.
    intros Hn. induction xs; simpl; [lia|]. rewrite app_length. specialize (Hn a). lia.
  Qed.
End Rep.

Lemma p_str16_u : forall s r, zlen s < 65536 -> p_str16 (str_u16 s ++ r) = Some (s, r).
Proof.
  intros s r H. unfold p_str16, str_u16. rewrite <- app_assoc.
  rewrite p_u16_enc by (unfold u16; pose proof (zlen_nonneg s); lia).
  rewrite p_count_zlen by (rewrite app_length; lia). apply p_bytes_app.
Qed.

Lemma p_str16_i : forall s r, zlen s < 32768 -> p_str16 (str_i16 s ++ r) = Some (s, r).
Proof.
  intros s r H. unfold p_str16, str_i16. rewrite <- app_assoc.
  rewrite p_u16_enc_i by (pose proof (zlen_nonneg s); lia).
  rewrite p_count_zlen by (rewrite app_length; lia). apply p_bytes_app.
Qed.

Ltac projs := cbn [dd_tag dd_ref dd_off dd_len blk_off blk_ndds blk_next blk_dds lh_length lh_blen lh_nblk lh_ref
  xh_length xh_offset xh_name ch_version ch_length ch_ref ch_model ch_coder cd_flag cd_len cd_clen
  kh_hlen kh_version kh_flag kh_length kh_csize kh_ntsize kh_tbltag kh_tblref kh_sptag kh_spref kh_dims kh_fill kh_comp
  va_findex va_tag va_ref vh_interlace vh_nvert vh_ivsize vh_types vh_isizes vh_offs vh_orders vh_names vh_name vh_class
  vh_extag vh_exref vh_version vh_more vh_flags vh_attrs vg_tags vg_refs vg_name vg_class vg_extag vg_exref vg_flags
  vg_attrs vg_version vg_more fst snd] in *.
Ltac rng := unfold u16, i16, u32, i32 in *; repeat match goal with H : _ /\ _ |- _ => destruct H end;
            try assumption; try lia.
Ltac step :=
  first [ rewrite p_u16_enc by rng | rewrite p_i16_enc by rng | rewrite p_u16_enc_i by rng
        | rewrite p_i32_enc by rng | rewrite p_u32_enc by rng ]; cbv beta iota.

(** ** data descriptors and DD blocks *)
Definition dd_ok (d : dd) : Prop := u16 (dd_tag d) /\ u16 (dd_ref d) /\ i32 (dd_off d) /\ i32 (dd_len d).

Lemma p_dd_enc : forall d r, dd_ok d -> p_dd (dd_encode d ++ r) = Some (d, r).
Proof.
  intros [t rf o n] r H. unfold dd_ok in H; projs. rewrite dd_encode_eq; projs.
  unfold p_dd. rewrite <- !app_assoc. do 4 step. reflexivity.
Qed.

Lemma dd_encode_len : forall d, List.length (dd_encode d) = 12%nat.
Proof. intro d. rewrite dd_encode_eq. rewrite !app_length, !enc_len_u16, !enc_len_i32. reflexivity. Qed.

Lemma flat_dd_len : forall ds, zlen (flat_map dd_encode ds) = 12 * zlen ds.
Proof.
  induction ds; [reflexivity|]. cbn [flat_map]. rewrite zlen_app, IHds. unfold zlen. rewrite dd_encode_len. cbn [List.length]. lia.
Qed.

(** ** special-element description records *)
Definition linked_ok (h : linked_hdr) : Prop := i32 (lh_length h) /\ i32 (lh_blen h) /\ i32 (lh_nblk h) /\ u16 (lh_ref h).

Lemma p_special_linked : forall h r, linked_ok h -> p_special (linked_encode h ++ r) = Some (SLinked h, r).
Proof.
  intros [a b c d] r H. unfold linked_ok in H; projs. rewrite linked_encode_eq; projs.
  unfold p_special. rewrite <- !app_assoc. rewrite p_u16_enc by (vm_compute; split; [discriminate|reflexivity]).
  cbv beta iota. change (SPECIAL_LINKED =? sp_linked) with true. cbv iota.
  unfold p_linked. do 4 step. reflexivity.
Qed.

Lemma p_linktable_enc : forall nx refs r, u16 nx -> Forall u16 refs ->
  p_linktable (List.length refs) (linktable_encode nx refs ++ r) = Some (nx, refs, r).
Proof.
  intros nx refs r H1 H2. unfold p_linktable, linktable_encode. rewrite <- app_assoc. step.
  rewrite (p_rep_enc p_u16 U16 u16) by (auto using p_u16_enc). reflexivity.
Qed.

Definition ext_ok (h : ext_hdr) : Prop := i32 (xh_length h) /\ i32 (xh_offset h) /\ i32 (zlen (xh_name h)).

Lemma p_special_ext : forall h r, ext_ok h -> p_special (ext_encode h ++ r) = Some (SExt h, r).
Proof.
  intros [a b nm] r H. unfold ext_ok in H; projs. rewrite ext_encode_eq; projs.
  unfold p_special. rewrite <- !app_assoc. rewrite p_u16_enc_i by (vm_compute; split; [discriminate|reflexivity]).
  cbv beta iota. change (SPECIAL_EXT =? sp_linked) with false. change (SPECIAL_EXT =? sp_ext) with true. cbv iota.
  unfold p_ext. do 3 step. rewrite p_count_zlen by (rewrite app_length; lia). rewrite p_bytes_app. reflexivity.
Qed.

Definition coder_ok (c : coder) : Prop :=
  match c with
  | CNone | CRle => True
  | CNbit nt se fo sb bl => i32 nt /\ u16 se /\ u16 fo /\ i32 sb /\ i32 bl
  | CSkphuff a b => u32 a /\ u32 b
  | CDeflate lv => u16 lv
  | CSzip a b m d e => u32 a /\ u32 b /\ u32 m
  | COther k => u16 k /\ 5 < k
  end.

Lemma p_coder_enc : forall m c r, u16 m -> coder_ok c -> p_coder (coder_encode m c ++ r) = Some (m, c, r).
Proof.
  intros m c r Hm Hc. rewrite coder_encode_eq. unfold p_coder. rewrite <- !app_assoc. step.
  destruct c; cbn [coder_ok] in Hc; cbn [coder_code].
  - rewrite p_u16_enc by (vm_compute; split; [discriminate|reflexivity]). reflexivity.
  - rewrite p_u16_enc by (vm_compute; split; [discriminate|reflexivity]). reflexivity.
  - rewrite p_u16_enc by (vm_compute; split; [discriminate|reflexivity]). cbv beta iota.
    change (COMP_CODE_NBIT =? 0) with false. change (COMP_CODE_NBIT =? 1) with false. change (COMP_CODE_NBIT =? 2) with true.
    cbv iota. rewrite <- !app_assoc. do 5 step. reflexivity.
  - rewrite p_u16_enc by (vm_compute; split; [discriminate|reflexivity]). cbv beta iota.
    change (COMP_CODE_SKPHUFF =? 0) with false. change (COMP_CODE_SKPHUFF =? 1) with false.
    change (COMP_CODE_SKPHUFF =? 2) with false. change (COMP_CODE_SKPHUFF =? 3) with true.
    cbv iota. rewrite <- !app_assoc. do 2 step. reflexivity.
  - rewrite p_u16_enc by (vm_compute; split; [discriminate|reflexivity]). cbv beta iota.
    change (COMP_CODE_DEFLATE =? 0) with false. change (COMP_CODE_DEFLATE =? 1) with false.
    change (COMP_CODE_DEFLATE =? 2) with false. change (COMP_CODE_DEFLATE =? 3) with false.
    change (COMP_CODE_DEFLATE =? 4) with true.
    cbv iota. step. reflexivity.
  - rewrite p_u16_enc by (vm_compute; split; [discriminate|reflexivity]). cbv beta iota.
    change (COMP_CODE_SZIP =? 0) with false. change (COMP_CODE_SZIP =? 1) with false.
    change (COMP_CODE_SZIP =? 2) with false. change (COMP_CODE_SZIP =? 3) with false.
    change (COMP_CODE_SZIP =? 4) with false. change (COMP_CODE_SZIP =? 5) with true.
    cbv iota. rewrite <- !app_assoc. do 3 step. reflexivity.
  - destruct Hc as [Hk Hk5]. step.
    destruct (code =? 0) eqn:E0; [apply Z.eqb_eq in E0; lia|].
    destruct (code =? 1) eqn:E1; [apply Z.eqb_eq in E1; lia|].
    destruct (code =? 2) eqn:E2; [apply Z.eqb_eq in E2; lia|].
    destruct (code =? 3) eqn:E3; [apply Z.eqb_eq in E3; lia|].
    destruct (code =? 4) eqn:E4; [apply Z.eqb_eq in E4; lia|].
    destruct (code =? 5) eqn:E5; [apply Z.eqb_eq in E5; lia|].
    rewrite app_nil_l. reflexivity.
Qed.

Definition comp_ok (h : comp_hdr) : Prop :=
  u16 (ch_version h) /\ i32 (ch_length h) /\ u16 (ch_ref h) /\ u16 (ch_model h) /\ coder_ok (ch_coder h).

Lemma p_special_comp : forall h r, comp_ok h -> p_special (comp_encode h ++ r) = Some (SComp h, r).
Proof.
  intros [v n cr m c] r H. unfold comp_ok in H; projs. destruct H as (H1 & H2 & H3 & H4 & H5).
  rewrite comp_encode_eq; projs.
  unfold p_special. rewrite <- !app_assoc. rewrite p_u16_enc_i by (vm_compute; split; [discriminate|reflexivity]).
  cbv beta iota. change (SPECIAL_COMP =? sp_linked) with false. change (SPECIAL_COMP =? sp_ext) with false.
  change (SPECIAL_COMP =? sp_comp) with true. cbv iota.
  unfold p_comp. do 3 step. rewrite p_coder_enc by assumption. reflexivity.
Qed.

Definition cdim_ok (d : chunk_dim) : Prop := i32 (cd_flag d) /\ i32 (cd_len d) /\ i32 (cd_clen d).

Lemma p_cdim_enc : forall d r, cdim_ok d -> p_cdim (cdim_encode d ++ r) = Some (d, r).
Proof.
  intros [a b c] r H. unfold cdim_ok in H; projs. rewrite cdim_encode_eq; projs.
  unfold p_cdim. rewrite <- !app_assoc. do 3 step. reflexivity.
Qed.

Definition chunk_ok (h : chunk_hdr) : Prop :=
  i32 (kh_hlen h) /\ i32 (kh_flag h) /\ i32 (kh_length h) /\ i32 (kh_csize h) /\ i32 (kh_ntsize h) /\
  u16 (kh_tbltag h) /\ u16 (kh_tblref h) /\ u16 (kh_sptag h) /\ u16 (kh_spref h) /\
  i32 (zlen (kh_dims h)) /\ Forall cdim_ok (kh_dims h) /\ i32 (zlen (kh_fill h)) /\
  match kh_comp h with
  | Some (cl, m, c) => kh_flag h mod 256 = 3 /\ i32 cl /\ u16 m /\ coder_ok c
  | None => kh_flag h mod 256 <> 3
  end.

Lemma p_special_chunked : forall h r, chunk_ok h -> p_special (chunk_encode h ++ r) = Some (SChunked h, r).
Proof.
  intros [hl v fl n cs nt tt tr st sr dims fv cmp] r H. unfold chunk_ok in H; projs.
  destruct H as (H1 & H2 & H3 & H4 & H5 & H6 & H7 & H8 & H9 & H10 & H11 & H12 & H13).
  rewrite chunk_encode_eq; projs.
  unfold p_special. rewrite <- !app_assoc. rewrite p_u16_enc by (vm_compute; split; [discriminate|reflexivity]).
  cbv beta iota. change (SPECIAL_CHUNKED =? sp_linked) with false. change (SPECIAL_CHUNKED =? sp_ext) with false.
  change (SPECIAL_CHUNKED =? sp_comp) with false. change (SPECIAL_CHUNKED =? sp_chunked) with true. cbv iota.
  unfold p_chunked. step. cbn [app]. unfold p_u8 at 1. cbv beta iota. do 9 step.
  assert (forall x, (1 <= List.length (cdim_encode x))%nat) as L by (intro; rewrite cdim_encode_eq; rewrite !app_length, !enc_len_i32; lia).
  rewrite p_count_zlen by (rewrite app_length; pose proof (flat_map_len cdim_encode L dims); lia).
  rewrite (p_rep_enc p_cdim cdim_encode cdim_ok) by (auto using p_cdim_enc).
  step. rewrite p_count_zlen by (rewrite app_length; lia). rewrite p_bytes_app.
  destruct cmp as [[[cl m] c]|].
  - destruct H13 as (F & C1 & C2 & C3). rewrite F. change (3 =? sp_comp) with true. cbv iota.
    rewrite <- !app_assoc. rewrite p_u16_enc by (vm_compute; split; [discriminate|reflexivity]). cbv beta iota.
    step. rewrite p_coder_enc by assumption. change (SPECIAL_COMP =? sp_comp) with true. reflexivity.
  - destruct (fl mod 256 =? sp_comp) eqn:E; [apply Z.eqb_eq in E; unfold sp_comp in E; contradiction|].
    rewrite app_nil_l. reflexivity.
Qed.

(** ** Vdata header (vpackvs) and Vgroup (vpackvg) records *)
Lemma p_rep_enc_n : forall {A} (p : list Z -> option (A * list Z)) (enc : A -> list Z) (ok : A -> Prop),
  (forall x r, ok x -> p (enc x ++ r) = Some (x, r)) ->
  forall n xs r, n = List.length xs -> Forall ok xs -> p_rep p n (flat_map enc xs ++ r) = Some (xs, r).
Proof. intros. subst n. eapply p_rep_enc; eauto. Qed.

Lemma land1_odd : forall f, Z.land f 1 = if Z.odd f then 1 else 0.
Proof.
  intro f. change 1 with (Z.ones 1) at 1. rewrite Z.land_ones by lia. change (2 ^ 1) with 2.
  rewrite <- Z.bit0_mod, Z.bit0_odd. destruct (Z.odd f); reflexivity.
Qed.

Section Flags.
  Context {A : Type} (pa : list Z -> option (A * list Z)) (enca : A -> list Z) (oka : A -> Prop).
  Hypothesis rta : forall x r, oka x -> pa (enca x ++ r) = Some (x, r).
  Hypothesis lena : forall x, (1 <= List.length (enca x))%nat.

  Lemma p_flags_enc : forall version flags (attrs : list A) r,
    (version = 4 <-> flags <> 0) -> u32 flags -> (Z.odd flags = false -> attrs = []) ->
    i32 (zlen attrs) -> Forall oka attrs ->
    p_flags pa version
      ((if flags =? 0 then [] else
          U32 flags ++ if Z.land flags 1 =? 0 then [] else I32 (zlen attrs) ++ flat_map enca attrs) ++ r)
    = Some (flags, attrs, r).
  Proof.
    intros version flags attrs r Hv Hf Ho Hn Ha. unfold p_flags.
    destruct (flags =? 0) eqn:E0.
    - apply Z.eqb_eq in E0. subst flags.
      destruct (version =? 4) eqn:E4; [apply Z.eqb_eq in E4; apply Hv in E4; congruence|].
      rewrite Ho by reflexivity. reflexivity.
    - apply Z.eqb_neq in E0. assert (version = 4) as V by (apply Hv; assumption). rewrite V. cbn [Z.eqb Pos.eqb].
      rewrite <- app_assoc. step. rewrite land1_odd. destruct (Z.odd flags) eqn:Od.
      + change (1 =? 0) with false. cbv iota. rewrite <- app_assoc. step.
        rewrite p_count_zlen by (rewrite app_length; pose proof (flat_map_len enca lena attrs); lia).
        rewrite (p_rep_enc pa enca oka) by assumption. reflexivity.
      + change (0 =? 0) with true. cbv iota. rewrite Ho by reflexivity. reflexivity.
  Qed.
End Flags.

Definition vattr_ok (a : vattr) : Prop := i32 (va_findex a) /\ u16 (va_tag a) /\ u16 (va_ref a).

Lemma p_vattr_enc : forall a r, vattr_ok a -> p_vattr (vattr_enc a ++ r) = Some (a, r).
Proof.
  intros [f t rf] r H. unfold vattr_ok in H; projs. unfold vattr_enc, p_vattr; projs.
  rewrite <- !app_assoc. do 3 step. reflexivity.
Qed.

Definition tagref_ok (a : Z * Z) : Prop := u16 (fst a) /\ u16 (snd a).

Lemma p_tagref_enc : forall a r, tagref_ok a -> p_tagref (vgattr_enc a ++ r) = Some (a, r).
Proof.
  intros [t rf] r H. unfold tagref_ok in H; projs. unfold vgattr_enc, p_tagref; projs.
  rewrite <- !app_assoc. do 2 step. reflexivity.
Qed.

Lemma skipn_exact : forall {A} (a b : list A), skipn (List.length a) (a ++ b) = b.
Proof. intros. rewrite skipn_app, skipn_all, Nat.sub_diag. reflexivity. Qed.

Lemma tail_version_i : forall body a b,
  tail_version (body ++ I16 a ++ I16 b ++ [0]) = Some (a mod 65536, b mod 65536).
Proof.
  intros body a b. unfold tail_version.
  assert (List.length (body ++ I16 a ++ I16 b ++ [0]) = (List.length body + 5)%nat) as L
    by (rewrite !app_length, !enc_len_i16; reflexivity).
  rewrite L. destruct (Nat.ltb (List.length body + 5) 5) eqn:E; [apply Nat.ltb_lt in E; lia|].
  replace (List.length body + 5 - 5)%nat with (List.length body) by lia. rewrite skipn_exact.
  rewrite !INT16ENCODE_shape. cbn [app p_u16]. rewrite !be16_bytes, !mod32_mod16. reflexivity.
Qed.

Lemma tail_version_u : forall body a b, u16 a -> u16 b ->
  tail_version (body ++ U16 a ++ U16 b ++ [0]) = Some (a, b).
Proof.
  intros body a b Ha Hb. unfold tail_version.
  assert (List.length (body ++ U16 a ++ U16 b ++ [0]) = (List.length body + 5)%nat) as L
    by (rewrite !app_length, !enc_len_u16; reflexivity).
  rewrite L. destruct (Nat.ltb (List.length body + 5) 5) eqn:E; [apply Nat.ltb_lt in E; lia|].
  replace (List.length body + 5 - 5)%nat with (List.length body) by lia. rewrite skipn_exact.
  rewrite p_u16_enc by assumption. rewrite p_u16_enc by assumption. reflexivity.
Qed.

Definition strs_ok (l : list (list Z)) : Prop := Forall (fun s => zlen s < 32768) l.

Definition vh_ok (v : vh) : Prop :=
  i16 (vh_interlace v) /\ i32 (vh_nvert v) /\ u16 (vh_ivsize v) /\ zlen (vh_types v) < 32768 /\
  Forall i16 (vh_types v) /\ Forall u16 (vh_isizes v) /\ Forall u16 (vh_offs v) /\ Forall u16 (vh_orders v) /\
  strs_ok (vh_names v) /\
  List.length (vh_types v) = List.length (vh_isizes v) /\ List.length (vh_types v) = List.length (vh_offs v) /\
  List.length (vh_types v) = List.length (vh_orders v) /\ List.length (vh_types v) = List.length (vh_names v) /\
  zlen (vh_name v) < 32768 /\ zlen (vh_class v) < 32768 /\ u16 (vh_extag v) /\ u16 (vh_exref v) /\
  i16 (vh_version v) /\ i16 (vh_more v) /\ u32 (vh_flags v) /\
  (vh_version v = 4 <-> vh_flags v <> 0) /\ (Z.odd (vh_flags v) = false -> vh_attrs v = []) /\
  i32 (zlen (vh_attrs v)) /\ Forall vattr_ok (vh_attrs v).

Lemma parse_vh_enc : forall v, vh_ok v -> parse_vh (vh_encode v) = Some v.
Proof.
  intros [il nv iv ty isz off ord nms nm cl et er ver more fl al] H. unfold vh_ok in H; projs.
  destruct H as (H1 & H2 & H3 & H4 & H5 & H6 & H7 & H8 & H9 & L1 & L2 & L3 & L4 & H10 & H11 & H12 & H13 &
                 H14 & H15 & H16 & H17 & H18 & H19 & H20).
  unfold parse_vh, vh_encode. rewrite vh_tail_eq, vh_body_eq; projs.
  rewrite tail_version_i. cbv beta iota zeta. rewrite !sgn16_mod by assumption.
  rewrite <- !app_assoc.
  step. step. step. rewrite p_i16_enc by (pose proof (zlen_nonneg ty); rng). cbv beta iota.
  assert (forall x, (1 <= List.length (I16 x))%nat) as Li by (intro; rewrite enc_len_i16; lia).
  rewrite p_count_zlen by (rewrite app_length; pose proof (flat_map_len I16 Li ty); lia).
  rewrite (p_rep_enc_n p_i16 I16 i16) by (auto using p_i16_enc).
  rewrite (p_rep_enc_n p_u16 U16 u16) by (auto using p_u16_enc).
  rewrite (p_rep_enc_n p_u16 U16 u16) by (auto using p_u16_enc).
  rewrite (p_rep_enc_n p_u16 U16 u16) by (auto using p_u16_enc).
  rewrite (p_rep_enc_n p_str16 str_i16 (fun s => zlen s < 32768)) by (auto using p_str16_i).
  rewrite p_str16_i by assumption. rewrite p_str16_i by assumption.
  do 4 step.
  rewrite (p_flags_enc p_vattr vattr_enc vattr_ok p_vattr_enc) by
    (try assumption; intro x; unfold vattr_enc; rewrite !app_length, enc_len_i32; lia).
  do 2 step. rewrite !Z.eqb_refl. reflexivity.
Qed.

Definition vg_ok (g : vg) : Prop :=
  zlen (vg_tags g) < 65536 /\ Forall u16 (vg_tags g) /\ Forall u16 (vg_refs g) /\
  List.length (vg_tags g) = List.length (vg_refs g) /\
  zlen (vg_name g) < 65536 /\ zlen (vg_class g) < 65536 /\ u16 (vg_extag g) /\ u16 (vg_exref g) /\
  u32 (vg_flags g) /\ u16 (vg_version g) /\ u16 (vg_more g) /\
  (vg_version g = 4 <-> vg_flags g <> 0) /\ (Z.odd (vg_flags g) = false -> vg_attrs g = []) /\
  i32 (zlen (vg_attrs g)) /\ Forall tagref_ok (vg_attrs g).

Lemma vg_out_version_ok : forall g, vg_ok g -> vg_out_version g = vg_version g.
Proof.
  intros g H. unfold vg_ok in H. destruct H as (_ & _ & _ & _ & _ & _ & _ & _ & _ & _ & _ & Hv & _).
  unfold vg_out_version. destruct (vg_flags g =? 0) eqn:E; [reflexivity|].
  apply Z.eqb_neq in E. apply Hv in E. rewrite E. reflexivity.
Qed.

Lemma parse_vg_enc : forall g, vg_ok g -> parse_vg (vg_encode g) = Some g.
Proof.
  intros g H. pose proof (vg_out_version_ok g H) as OV.
  destruct g as [tg rf nm cl et er fl al ver more]. unfold vg_ok in H; projs.
  destruct H as (H1 & H2 & H3 & L1 & H4 & H5 & H6 & H7 & H8 & H9 & H10 & H11 & H12 & H13 & H14).
  unfold parse_vg, vg_encode. rewrite vg_tail_eq, vg_body_eq, OV; projs.
  rewrite tail_version_u by assumption. cbv beta iota.
  rewrite <- !app_assoc.
  rewrite p_u16_enc by (pose proof (zlen_nonneg tg); rng). cbv beta iota.
  assert (forall x, (1 <= List.length (U16 x))%nat) as Lu by (intro; rewrite enc_len_u16; lia).
  rewrite p_count_zlen by (rewrite app_length; pose proof (flat_map_len U16 Lu tg); lia).
  rewrite (p_rep_enc_n p_u16 U16 u16) by (auto using p_u16_enc).
  rewrite (p_rep_enc_n p_u16 U16 u16) by (auto using p_u16_enc).
  rewrite p_str16_u by assumption. rewrite p_str16_u by assumption.
  do 2 step.
  rewrite (p_flags_enc p_tagref vgattr_enc tagref_ok p_tagref_enc) by
    (try assumption; intro x; unfold vgattr_enc; rewrite !app_length, enc_len_u16; lia).
  do 2 step. rewrite !Z.eqb_refl. reflexivity.
Qed.

(* ================================================================================================== *)
(** * 5. The decidable checks imply the declarative well-formedness; the chain walk *)

Lemma sub_bounds : forall img off len l, sub img off len = Some l ->
  0 <= off /\ 0 <= len /\ off + len <= zlen img /\ l = firstn (Z.to_nat len) (skipn (Z.to_nat off) img).
Proof.
  intros img off len l H. unfold sub in H.
  destruct (off <? 0) eqn:A; [discriminate|]. destruct (len <? 0) eqn:B; [discriminate|].
  destruct (zlen img <? off + len) eqn:C; [discriminate|]. simpl in H. inversion H.
  apply Z.ltb_ge in A, B, C. repeat split; lia.
Qed.

Lemma p_block_facts : forall img off b, p_block img off = Some b ->
  blk_off b = off /\ 0 < blk_ndds b /\ 0 <= off /\ off + blkhdr_size + blk_ndds b * dd_size <= zlen img.
Proof.
  intros img off b H. unfold p_block in H.
  destruct (sub img off blkhdr_size) as [hdr|] eqn:S1; [|discriminate].
  destruct (p_i16 hdr) as [[n r]|]; [|discriminate].
  destruct (p_i32 r) as [[nx r']|]; [|discriminate].
  destruct (n <=? 0) eqn:N; [discriminate|]. apply Z.leb_gt in N.
  destruct (sub img (off + blkhdr_size) (n * dd_size)) as [body|] eqn:S2; [|discriminate].
  destruct (p_rep p_dd (Z.to_nat n) body) as [[dds r'']|]; [|discriminate].
  inversion H; subst; clear H. cbn [blk_off blk_ndds].
  apply sub_bounds in S1. apply sub_bounds in S2. repeat split; lia.
Qed.

Lemma walk_chain : forall fuel img off bl, walk fuel img off = Some bl -> chain img off bl.
Proof.
  induction fuel; intros img off bl H; simpl in H; [discriminate|].
  destruct (p_block img off) as [b|] eqn:P; [|discriminate].
  destruct (blk_next b =? 0) eqn:N.
  - inversion H; subst. apply chain_last; [assumption | apply Z.eqb_eq; assumption].
  - destruct (walk fuel img (blk_next b)) as [rest|] eqn:W; [|discriminate].
    inversion H; subst. apply chain_cons; [assumption | apply Z.eqb_neq; assumption | apply IHfuel; assumption].
Qed.

Lemma walk_length : forall fuel img off bl, walk fuel img off = Some bl -> (List.length bl <= fuel)%nat.
Proof.
  induction fuel; simpl; intros img off bl H; [discriminate|].
  destruct (p_block img off) as [b|]; [|discriminate].
  destruct (blk_next b =? 0).
  - inversion H; subst; simpl; lia.
  - destruct (walk fuel img (blk_next b)) as [rest|] eqn:E; [|discriminate].
    inversion H; subst; simpl. apply IHfuel in E. lia.
Qed.

(** more fuel never changes an answer *)
Lemma walk_fuel_mono : forall fuel img off bl k, walk fuel img off = Some bl -> walk (fuel + k) img off = Some bl.
Proof.
  induction fuel; intros img off bl k H; simpl in H; [discriminate|]. simpl.
  destruct (p_block img off) as [b|]; [|discriminate].
  destruct (blk_next b =? 0); [assumption|].
  destruct (walk fuel img (blk_next b)) as [rest|] eqn:W; [|discriminate].
  rewrite (IHfuel _ _ _ k W). assumption.
Qed.

(** following the "next" pointers *)
Definition next_off (img : image) (off : Z) : option Z :=
  match p_block img off with
  | Some b => if blk_next b =? 0 then None else Some (blk_next b)
  | None => None
  end.
Fixpoint follow (n : nat) (img : image) (off : Z) : option Z :=
  match n with O => Some off | S k => match next_off img off with Some o => follow k img o | None => None end end.

Lemma walk_follow : forall n fuel img off off' bl, follow n img off = Some off' -> walk fuel img off = Some bl ->
  exists bl', walk (fuel - n) img off' = Some bl' /\ (n <= fuel)%nat.
Proof.
  induction n; intros fuel img off off' bl F W.
  - simpl in F. inversion F; subst. rewrite Nat.sub_0_r. exists bl. split; [assumption | lia].
  - simpl in F. unfold next_off in F. destruct fuel; simpl in W; [discriminate|].
    destruct (p_block img off) as [b|]; [|discriminate].
    destruct (blk_next b =? 0); [discriminate|].
    destruct (walk fuel img (blk_next b)) as [rest|] eqn:W'; [|discriminate].
    destruct (IHn fuel img (blk_next b) off' rest F W') as [bl' [A B]].
    exists bl'. split; [simpl; assumption | lia].
Qed.

(** a chain that runs into a cycle is rejected whatever the fuel: the walk cannot be fooled into looping *)
Lemma walk_cycle_none : forall img off n, (0 < n)%nat -> follow n img off = Some off ->
  forall fuel, walk fuel img off = None.
Proof.
  intros img off n Hn F fuel. induction fuel as [fuel IH] using lt_wf_ind.
  destruct (walk fuel img off) as [bl|] eqn:W; [|reflexivity].
  destruct (walk_follow n fuel img off off bl F W) as [bl' [A B]].
  rewrite (IH (fuel - n)%nat) in A by lia. discriminate.
Qed.

Lemma pairwise_sound : forall {A} (ok : A -> A -> bool) l, pairwise ok l = true ->
  ForallOrdPairs (fun a b => ok a b = true) l.
Proof.
  induction l; intro H; simpl in H; [constructor|].
  apply andb_true_iff in H. destruct H as [H1 H2]. constructor; [|auto].
  apply Forall_forall. intros x Hx. apply (proj1 (forallb_forall _ _) H1 x Hx).
Qed.

Lemma FOP_impl : forall {A} (P Q : A -> A -> Prop) l, (forall a b, P a b -> Q a b) ->
  ForallOrdPairs P l -> ForallOrdPairs Q l.
Proof.
  intros A P Q l HPQ H. induction H; constructor; [|assumption].
  eapply Forall_impl; [|eassumption]. intros; auto.
Qed.

Lemma FOP_map : forall {A B} (f : A -> B) (R : B -> B -> Prop) l,
  ForallOrdPairs (fun a b => R (f a) (f b)) l -> ForallOrdPairs R (map f l).
Proof.
  intros A B f R l H. induction H; simpl; constructor; [|assumption].
  apply Forall_forall. intros y Hy. apply in_map_iff in Hy. destruct Hy as [x [E Hx]]. subst y.
  eapply Forall_forall in H; eauto.
Qed.

Lemma strictly_apart_sound : forall a b, strictly_apart a b = true -> apart a b.
Proof.
  intros [o1 n1] [o2 n2] H. unfold strictly_apart in H. unfold apart; simpl.
  apply orb_true_iff in H. destruct H as [H|H]; apply Z.leb_le in H; lia.
Qed.

Lemma ranges_ok_sound : forall a b, ranges_ok a b = true -> apart_or_alias a b.
Proof.
  intros [o1 n1] [o2 n2] H. unfold ranges_ok in H. unfold apart_or_alias, apart; simpl.
  repeat (apply orb_true_iff in H; destruct H as [H|H]); try (apply Z.leb_le in H; lia).
  apply andb_true_iff in H. destruct H as [A B]. apply Z.eqb_eq in A, B. subst. right. right. right. reflexivity.
Qed.

Lemma key_differs_sound : forall a b, key_differs a b = true -> ~ same_key a b.
Proof.
  intros a b H [A B]. unfold key_differs in H. rewrite A, B, !Z.eqb_refl in H. discriminate.
Qed.

Lemma extent_ok_sound : forall img d, extent_ok img d = true -> in_image img d.
Proof.
  intros img d H. unfold extent_ok in H. unfold in_image.
  apply orb_true_iff in H. destruct H as [H|H].
  - apply andb_true_iff in H. destruct H as [A B]. apply Z.eqb_eq in A, B. left. tauto.
  - apply andb_true_iff in H. destruct H as [H C]. apply andb_true_iff in H. destruct H as [A B].
    apply Z.leb_le in A, B, C. right. tauto.
Qed.

Lemma chain_blocks : forall img off bl, chain img off bl ->
  Forall (fun b => 0 < blk_ndds b /\ 0 <= blk_off b /\ blk_off b + snd (blk_extent b) <= zlen img) bl.
Proof.
  intros img off bl H. induction H.
  - constructor; [|constructor]. apply p_block_facts in H. unfold blk_extent; cbn [snd fst]. unfold blkhdr_size, dd_size in *. lia.
  - constructor; [|assumption]. apply p_block_facts in H. unfold blk_extent; cbn [snd fst]. unfold blkhdr_size, dd_size in *. lia.
Qed.

Lemma apart_distinct_offsets : forall bl,
  Forall (fun b => 0 < blk_ndds b) bl -> ForallOrdPairs apart (map blk_extent bl) -> NoDup (map blk_off bl).
Proof.
  induction bl as [|a bl IH]; intros Hp H; simpl; [constructor|].
  inversion Hp; subst. simpl in H. inversion H; subst. constructor; [|auto].
  intro Hin. apply in_map_iff in Hin. destruct Hin as [b [E Hb]].
  assert (apart (blk_extent a) (blk_extent b)) as Ap.
  { eapply Forall_forall in H4; [exact H4|]. apply in_map. assumption. }
  eapply Forall_forall in H3; [|exact Hb]. unfold apart, blk_extent, blkhdr_size, dd_size in Ap; cbn [fst snd] in Ap. lia.
Qed.

Lemma magic_check : forall m, List.length m = 4%nat ->
  forallb (fun p => fst p =? snd p) (combine m magic) = true -> m = magic.
Proof.
  intros m L H. destruct m as [|a [|b [|c [|d [|e m]]]]]; try discriminate.
  simpl in H. repeat (apply andb_true_iff in H; destruct H as [?H H]).
  repeat match goal with E : (_ =? _) = true |- _ => apply Z.eqb_eq in E end. subst. reflexivity.
Qed.

Theorem wf_check_sound : forall ext_file inflate img,
  wf_check ext_file inflate img = true -> WellFormed ext_file inflate img.
Proof.
  intros ext_file inflate img H. unfold wf_check in H.
  destruct (parse_file img) as [bl|] eqn:P; [|discriminate].
  apply andb_true_iff in H; destruct H as [H C3]. apply andb_true_iff in H; destruct H as [H C].
  apply andb_true_iff in H; destruct H as [H C0]. apply andb_true_iff in H; destruct H as [H C1].
  apply andb_true_iff in H; destruct H as [H C2].
  exists bl. split; [exact P|].
  unfold parse_file in P. destruct (sub img 0 4) as [m|] eqn:S; [|discriminate].
  destruct (forallb (fun p => fst p =? snd p) (combine m magic)) eqn:M; [|discriminate].
  pose proof (walk_chain _ _ _ _ P) as Ch. pose proof (chain_blocks _ _ _ Ch) as Bl.
  unfold chk_blocks in H. apply pairwise_sound in H.
  apply (FOP_impl _ apart _ strictly_apart_sound) in H.
  split; [|split].
  - constructor.
    + apply sub_bounds in S. destruct S as (_ & _ & L & E).
      change (Z.to_nat 0) with 0%nat in E. change (Z.to_nat 4) with 4%nat in E. cbn [skipn] in E. subst m.
      apply magic_check in M; [exact M|]. rewrite firstn_length. unfold zlen in L. lia.
    + exact Ch.
    + inversion H; subst. apply apart_distinct_offsets; [|assumption].
      eapply Forall_impl; [|exact Bl]. intros a (A1 & A2 & A3). exact A1.
    + exact H.
    + eapply Forall_impl; [|exact Bl]. intros a (A1 & A2 & A3). split; assumption.
    + unfold chk_nodup in C2. apply pairwise_sound in C2. eapply FOP_impl; [|exact C2]. apply key_differs_sound.
    + unfold chk_extents in C1. apply Forall_forall. intros d Hd. apply extent_ok_sound.
      apply (proj1 (forallb_forall _ _) C1 d Hd).
    + unfold chk_overlap in C0. apply andb_true_iff in C0. destruct C0 as [A _].
      apply pairwise_sound in A. eapply FOP_impl; [|exact A]. apply ranges_ok_sound.
    + unfold chk_overlap in C0. apply andb_true_iff in C0. destruct C0 as [_ B].
      apply Forall_forall. intros b Hb. apply Forall_forall. intros e He.
      pose proof (proj1 (forallb_forall _ _) B b Hb) as B1. cbv beta in B1.
      pose proof (proj1 (forallb_forall _ _) B1 e He) as B2. unfold apart_or_empty in B2.
      apply orb_true_iff in B2. destruct B2 as [B2|B2]; [left; apply Z.leb_le; assumption | right; apply strictly_apart_sound; assumption].
  - unfold chk_special in C. apply Forall_forall. intros d Hd. apply (proj1 (forallb_forall _ _) C d Hd).
  - unfold chk_vrecords in C3. apply Forall_forall. intros d Hd. apply (proj1 (forallb_forall _ _) C3 d Hd).
Qed.

(* ================================================================================================== *)
(** * 6. HTPsync at the level of the serializer: a directory written block by block re-parses to itself *)

Lemma sub_intro : forall img off len, 0 <= off -> 0 <= len -> off + len <= zlen img ->
  sub img off len = Some (firstn (Z.to_nat len) (skipn (Z.to_nat off) img)).
Proof.
  intros img off len A B C. unfold sub.
  destruct (off <? 0) eqn:E1; [apply Z.ltb_lt in E1; lia|].
  destruct (len <? 0) eqn:E2; [apply Z.ltb_lt in E2; lia|].
  destruct (zlen img <? off + len) eqn:E3; [apply Z.ltb_lt in E3; lia|]. reflexivity.
Qed.

Lemma skipn_skipn : forall {A} (x y : nat) (l : list A), skipn x (skipn y l) = skipn (y + x) l.
Proof.
  intros A x y. revert x. induction y; intros x l; [reflexivity|].
  destruct l; [rewrite !skipn_nil; reflexivity|]. simpl. apply IHy.
Qed.

Lemma firstn_app_exact : forall {A} (a b : list A), firstn (List.length a) (a ++ b) = a.
Proof. intros. rewrite firstn_app, Nat.sub_diag, firstn_all. simpl. apply app_nil_r. Qed.

Lemma write_at_length : forall img off bytes, 0 <= off -> off + zlen bytes <= zlen img ->
  List.length (write_at img off bytes) = List.length img.
Proof.
  intros img off bytes A B. unfold write_at, zlen in *.
  rewrite !app_length, firstn_length, skipn_length. lia.
Qed.

Lemma sub_write_same : forall img off bytes, 0 <= off -> off + zlen bytes <= zlen img ->
  sub (write_at img off bytes) off (zlen bytes) = Some bytes.
Proof.
  intros img off bytes A B.
  rewrite sub_intro; try assumption; [| apply zlen_nonneg | unfold zlen at 2; rewrite write_at_length by assumption; exact B].
  f_equal. unfold write_at.
  assert (List.length (firstn (Z.to_nat off) img) = Z.to_nat off) as L by (rewrite firstn_length; unfold zlen in B; lia).
  rewrite <- L at 1. rewrite skipn_exact. unfold zlen. rewrite Nat2Z.id. apply firstn_app_exact.
Qed.

Lemma sub_write_other : forall img off bytes o n, 0 <= off -> off + zlen bytes <= zlen img ->
  0 <= o -> 0 <= n -> o + n <= zlen img -> (o + n <= off \/ off + zlen bytes <= o) ->
  sub (write_at img off bytes) o n = sub img o n.
Proof.
  intros img off bytes o n A B C D E F.
  rewrite !sub_intro; try assumption; [| unfold zlen at 1; rewrite write_at_length by assumption; exact E].
  f_equal. unfold write_at. unfold zlen in *.
  assert (List.length (firstn (Z.to_nat off) img) = Z.to_nat off) as L by (rewrite firstn_length; lia).
  destruct F as [F|F].
  - (* the region lies before the write *)
    rewrite skipn_app, firstn_app, L.
    replace (Z.to_nat o - Z.to_nat off)%nat with 0%nat by lia.
    rewrite skipn_length, L.
    replace (Z.to_nat n - (Z.to_nat off - Z.to_nat o))%nat with 0%nat by lia. cbn [firstn skipn]. rewrite app_nil_r.
    rewrite <- (firstn_skipn (Z.to_nat off) img) at 2. rewrite skipn_app, firstn_app, L.
    replace (Z.to_nat o - Z.to_nat off)%nat with 0%nat by lia. rewrite skipn_length, L.
    replace (Z.to_nat n - (Z.to_nat off - Z.to_nat o))%nat with 0%nat by lia. cbn [firstn skipn]. rewrite app_nil_r.
    reflexivity.
  - (* the region lies after the write *)
    rewrite app_assoc, skipn_app.
    assert (List.length (firstn (Z.to_nat off) img ++ bytes) = (Z.to_nat off + List.length bytes)%nat) as L2
      by (rewrite app_length, L; reflexivity).
    rewrite L2. rewrite skipn_all2 by lia. cbn [app].
    rewrite skipn_skipn. f_equal. f_equal. lia.
Qed.

Definition blk_ok (b : ddblock) : Prop :=
  i16 (blk_ndds b) /\ 0 < blk_ndds b /\ i32 (blk_next b) /\ zlen (blk_dds b) = blk_ndds b /\ Forall dd_ok (blk_dds b).

Lemma block_encode_zlen : forall b, blk_ok b -> zlen (block_encode b) = snd (blk_extent b).
Proof.
  intros b (_ & _ & _ & L & _). rewrite block_encode_eq, !zlen_app, flat_dd_len, L.
  unfold zlen. rewrite enc_len_i16, enc_len_i32. unfold blk_extent, blkhdr_size, dd_size. cbn [snd]. lia.
Qed.

Lemma sub_app_split : forall img off a b, sub img off (zlen (a ++ b)) = Some (a ++ b) ->
  sub img off (zlen a) = Some a /\ sub img (off + zlen a) (zlen b) = Some b.
Proof.
  intros img off a b H. apply sub_bounds in H. destruct H as (A & _ & C & E).
  rewrite zlen_app in C. pose proof (zlen_nonneg a). pose proof (zlen_nonneg b).
  set (X := skipn (Z.to_nat off) img) in *.
  assert (firstn (List.length a + List.length b) X = a ++ b) as E'.
  { rewrite E. f_equal. unfold zlen. rewrite app_length. lia. }
  split.
  - rewrite sub_intro by lia. f_equal. fold X. unfold zlen. rewrite Nat2Z.id.
    rewrite <- (firstn_app_exact a b) at 2. rewrite <- E'. rewrite firstn_firstn. f_equal. lia.
  - rewrite sub_intro by lia. f_equal.
    replace (Z.to_nat (off + zlen a)) with (List.length a + Z.to_nat off)%nat by (unfold zlen; lia).
    rewrite Nat.add_comm, <- skipn_skipn. fold X. unfold zlen. rewrite Nat2Z.id.
    rewrite <- (firstn_skipn (List.length a + List.length b) X), E'.
    rewrite <- app_assoc, skipn_exact. apply firstn_app_exact.
Qed.

(** a block whose bytes are in the image is what the specification's block parser reads there *)
Lemma p_block_of_bytes : forall img b, blk_ok b ->
  sub img (blk_off b) (zlen (block_encode b)) = Some (block_encode b) -> p_block img (blk_off b) = Some b.
Proof.
  intros img b Hok H. pose proof Hok as (H1 & H2 & H3 & H4 & H5).
  rewrite block_encode_eq in H.
  replace (I16 (blk_ndds b) ++ I32 (blk_next b) ++ flat_map dd_encode (blk_dds b))
    with ((I16 (blk_ndds b) ++ I32 (blk_next b)) ++ flat_map dd_encode (blk_dds b)) in H by (rewrite <- app_assoc; reflexivity).
  apply sub_app_split in H. destruct H as [Ha Hb].
  assert (zlen (I16 (blk_ndds b) ++ I32 (blk_next b)) = blkhdr_size) as Z6
    by (unfold zlen; rewrite app_length, enc_len_i16, enc_len_i32; reflexivity).
  rewrite Z6 in Ha, Hb. rewrite flat_dd_len, H4 in Hb.
  unfold p_block. rewrite Ha. rewrite <- (app_nil_r (I16 (blk_ndds b) ++ I32 (blk_next b))), <- app_assoc.
  step. step. destruct (blk_ndds b <=? 0) eqn:E; [apply Z.leb_le in E; lia|].
  replace (blk_ndds b * dd_size) with (12 * blk_ndds b) by (unfold dd_size; lia). rewrite Hb.
  rewrite <- (app_nil_r (flat_map dd_encode (blk_dds b))).
  rewrite (p_rep_enc_n p_dd dd_encode dd_ok) by (auto using p_dd_enc; unfold zlen in H4; lia).
  destruct b; reflexivity.
Qed.

Definition inside (img : image) (b : ddblock) : Prop := 4 <= blk_off b /\ blk_off b + snd (blk_extent b) <= zlen img.

Lemma inside_write : forall img a bl, blk_ok a -> inside img a -> Forall (inside img) bl ->
  List.length (write_at img (blk_off a) (block_encode a)) = List.length img /\
  Forall (inside (write_at img (blk_off a) (block_encode a))) bl.
Proof.
  intros img a bl Oa [I1 I2] Ib.
  assert (List.length (write_at img (blk_off a) (block_encode a)) = List.length img) as L
    by (apply write_at_length; [lia | rewrite block_encode_zlen by assumption; lia]).
  split; [exact L|]. eapply Forall_impl; [|exact Ib].
  intros x [X1 X2]. split; [assumption | unfold zlen in *; rewrite L; assumption].
Qed.

Lemma sync_blocks_length : forall bl img, Forall blk_ok bl -> Forall (inside img) bl ->
  List.length (sync_blocks img bl) = List.length img.
Proof.
  induction bl as [|a bl IH]; intros img Hok Hin; [reflexivity|].
  destruct (inside_write img a bl (Forall_inv Hok) (Forall_inv Hin) (Forall_inv_tail Hin)) as [L Hin'].
  unfold sync_blocks in *. cbn [fold_left]. rewrite IH; [exact L | exact (Forall_inv_tail Hok) | exact Hin'].
Qed.

(** a region apart from every block is untouched by the sync *)
Lemma sync_blocks_frame : forall bl img o n, Forall blk_ok bl -> Forall (inside img) bl ->
  0 <= o -> 0 <= n -> o + n <= zlen img -> Forall (fun b => apart (o, n) (blk_extent b)) bl ->
  sub (sync_blocks img bl) o n = sub img o n.
Proof.
  induction bl as [|a bl IH]; intros img o n Hok Hin Ho Hn Hb Hap; [reflexivity|].
  pose proof (Forall_inv Hok) as Oa. pose proof (Forall_inv Hin) as Ia. pose proof (Forall_inv Hap) as Aa.
  destruct (inside_write img a bl Oa Ia (Forall_inv_tail Hin)) as [L Hin']. destruct Ia as [I1 I2].
  unfold sync_blocks in *. cbn [fold_left].
  rewrite IH; [| exact (Forall_inv_tail Hok) | exact Hin' | assumption | assumption
               | unfold zlen in *; rewrite L; assumption | exact (Forall_inv_tail Hap)].
  apply sub_write_other; try assumption; try lia.
  - rewrite block_encode_zlen by assumption; lia.
  - rewrite block_encode_zlen by assumption. unfold apart in Aa. cbn [fst snd] in Aa.
    unfold blk_extent in *. cbn [fst snd] in *. lia.
Qed.

Lemma apart_sym : forall a b, apart a b -> apart b a.
Proof. unfold apart. intros. lia. Qed.

(** after the sync every block's region holds that block's encoding *)
Lemma sync_blocks_region : forall bl img b, Forall blk_ok bl -> Forall (inside img) bl ->
  ForallOrdPairs apart (map blk_extent bl) -> In b bl ->
  sub (sync_blocks img bl) (blk_off b) (zlen (block_encode b)) = Some (block_encode b).
Proof.
  induction bl as [|a bl IH]; intros img b Hok Hin Hap Hb; [destruct Hb|].
  pose proof (Forall_inv Hok) as Oa. pose proof (Forall_inv Hin) as Ia.
  destruct (inside_write img a bl Oa Ia (Forall_inv_tail Hin)) as [L Hin']. destruct Ia as [I1 I2].
  cbn [map] in Hap. inversion Hap as [|x l Fa Fb]; subst.
  unfold sync_blocks in *. cbn [fold_left]. destruct Hb as [Hb|Hb].
  - subst b.
    fold (sync_blocks (write_at img (blk_off a) (block_encode a)) bl).
    rewrite sync_blocks_frame; [| exact (Forall_inv_tail Hok) | exact Hin' | lia | apply zlen_nonneg
                                | unfold zlen at 2; rewrite L; rewrite block_encode_zlen by assumption; exact I2 |].
    + apply sub_write_same; [lia | rewrite block_encode_zlen by assumption; lia].
    + apply Forall_forall. intros x Hx. rewrite block_encode_zlen by assumption.
      eapply Forall_forall in Fa; [|apply in_map; exact Hx].
      unfold apart, blk_extent in *. cbn [fst snd] in *. lia.
  - apply IH; [exact (Forall_inv_tail Hok) | exact Hin' | exact Fb | exact Hb].
Qed.

(** the chain of "next" pointers of a directory laid out in memory *)
Inductive linked_from : Z -> list ddblock -> Prop :=
| lf_last : forall b, blk_next b = 0 -> linked_from (blk_off b) [b]
| lf_cons : forall b rest, blk_next b <> 0 -> linked_from (blk_next b) rest -> linked_from (blk_off b) (b :: rest).

Lemma walk_of_blocks : forall img bl off, linked_from off bl ->
  (forall b, In b bl -> p_block img (blk_off b) = Some b) ->
  forall fuel, (List.length bl <= fuel)%nat -> walk fuel img off = Some bl.
Proof.
  intros img bl off H. induction H; intros P fuel Hf.
  - destruct fuel; [simpl in Hf; lia|]. cbn [walk]. rewrite (P b (or_introl eq_refl)).
    rewrite H, Z.eqb_refl. reflexivity.
  - destruct fuel; [simpl in Hf; lia|]. cbn [walk]. rewrite (P b (or_introl eq_refl)).
    destruct (blk_next b =? 0) eqn:E; [apply Z.eqb_eq in E; contradiction|].
    rewrite IHlinked_from; [reflexivity | intros x Hx; apply P; right; exact Hx | simpl in Hf; lia].
Qed.

Theorem sync_reparses : forall img bl,
  4 <= zlen img -> Forall blk_ok bl -> Forall (inside img) bl ->
  ForallOrdPairs apart (map blk_extent bl) -> linked_from 4 bl -> (List.length bl <= List.length img)%nat ->
  parse_file (sync_file img bl) = Some bl.
Proof.
  intros img bl Hlen Hok Hin Hap Hlf Hn. unfold sync_file, parse_file.
  set (img0 := write_at img 0 HDFMAGIC).
  assert (List.length img0 = List.length img) as L0 by (apply write_at_length; [lia | exact Hlen]).
  assert (Forall (inside img0) bl) as Hin0.
  { eapply Forall_impl; [|exact Hin]. intros x [X1 X2]. split; [assumption | unfold zlen in *; rewrite L0; assumption]. }
  assert (sub (sync_blocks img0 bl) 0 4 = Some magic) as M.
  { rewrite sync_blocks_frame; try assumption; try lia; [| unfold zlen in *; rewrite L0; lia |].
    - apply (sub_write_same img 0 HDFMAGIC); [lia | exact Hlen].
    - apply Forall_forall. intros x Hx. eapply Forall_forall in Hin; [|exact Hx]. destruct Hin as [X1 X2].
      unfold apart, blk_extent. cbn [fst snd]. lia. }
  rewrite M. change (forallb (fun p => fst p =? snd p) (combine magic magic)) with true. cbv iota.
  apply walk_of_blocks; [exact Hlf | | rewrite sync_blocks_length by assumption; rewrite L0; exact Hn].
  intros b Hb. apply p_block_of_bytes; [eapply Forall_forall in Hok; eauto|].
  apply sync_blocks_region; assumption.
Qed.

(** there are never more blocks than bytes: the fuel [length img] of [parse_file] always suffices *)
Lemma blocks_fit : forall img bl, Forall blk_ok bl -> Forall (inside img) bl ->
  ForallOrdPairs apart (map blk_extent bl) -> (List.length bl <= List.length img)%nat.
Proof.
  intros img bl Hok Hin Hap.
  assert (NoDup (map blk_off bl)) as ND.
  { apply apart_distinct_offsets; [|exact Hap]. eapply Forall_impl; [|exact Hok]. intros a (_ & P & _). exact P. }
  assert (NoDup (map (fun b => Z.to_nat (blk_off b)) bl)) as ND'.
  { clear Hap Hok. induction bl as [|a bl IH]; [constructor|]. cbn [map] in *. inversion ND; subst.
    constructor; [|apply IH; [exact (Forall_inv_tail Hin) | assumption]].
    intro Hx. apply in_map_iff in Hx. destruct Hx as [b [E Hb]]. apply H1. apply in_map_iff. exists b. split; [|exact Hb].
    pose proof (Forall_inv Hin) as [A1 _]. eapply Forall_forall in Hin; [|right; exact Hb]. destruct Hin as [B1 _]. lia. }
  rewrite <- (map_length (fun b => Z.to_nat (blk_off b)) bl), <- (seq_length (List.length img) 0).
  apply NoDup_incl_length; [exact ND'|].
  intros x Hx. apply in_map_iff in Hx. destruct Hx as [b [E Hb]]. subst x. apply in_seq.
  eapply Forall_forall in Hin; [|exact Hb]. eapply Forall_forall in Hok; [|exact Hb].
  destruct Hin as [A1 A2]. destruct Hok as (_ & P & _).
  unfold blk_extent, blkhdr_size, dd_size, zlen in A2. cbn [snd] in A2. lia.
Qed.

Theorem sync_wellformed : forall img bl,
  4 <= zlen img -> Forall blk_ok bl -> Forall (inside img) bl ->
  ForallOrdPairs apart (map blk_extent bl) -> linked_from 4 bl ->
  parse_file (sync_file img bl) = Some bl.
Proof.
  intros. apply sync_reparses; try assumption. eapply blocks_fit; eassumption.
Qed.

(* ================================================================================================== *)
(** * 7. Space is handed out strictly at the end of the file: allocations never overlap *)

Lemma alloc_all_spec : forall sizes f_end, Forall (fun n => 0 <= n) sizes ->
  Forall (fun e => f_end <= fst e /\ 0 <= snd e) (alloc_all f_end sizes) /\
  ForallOrdPairs apart (alloc_all f_end sizes) /\
  map snd (alloc_all f_end sizes) = sizes.
Proof.
  induction sizes as [|n t IH]; intros f_end H; cbn [alloc_all getdiskblock].
  - repeat split; constructor.
  - pose proof (Forall_inv H) as Hn. cbv beta in Hn. destruct (IH (f_end + n) (Forall_inv_tail H)) as (A & B & C).
    split; [|split].
    + constructor; [cbn [fst snd]; lia|]. eapply Forall_impl; [|exact A]. intros e [E1 E2]. cbv beta. lia.
    + constructor; [|exact B]. eapply Forall_impl; [|exact A]. intros e [E1 E2]. unfold apart. cbn [fst snd]. lia.
    + cbn [map snd]. rewrite C. reflexivity.
Qed.

(* ================================================================================================== *)
(** * 8. HLgetdatainfo: never more than info_count entries, and exactly the extents the format defines *)

(** ** 8a. capacity, for every input (no assumption on the tables or the lookup) *)
Definition st_ok (cap : option Z) (st : Z * Z * list (Z * Z)) : Prop :=
  match cap with
  | None => snd st = [] /\ 0 <= fst (fst st)
  | Some n => fst (fst st) = zlen (snd st) /\ fst (fst st) <= n
  end.

Lemma hl_table_bounded : forall blk refs blen total cap isf st st' isf',
  st_ok cap st -> hl_table blk refs blen total cap isf st = Some (st', isf') -> st_ok cap st'.
Proof.
  induction refs as [|r t IH]; intros blen total cap isf [[num accum] out] st' isf' Hst H; cbn [hl_table] in H.
  - inversion H; subst; assumption.
  - destruct (negb (accum <? total) || hl_full cap num) eqn:E; [inversion H; subst; assumption|].
    apply orb_false_iff in E. destruct E as [_ E].
    destruct (r =? 0); [eapply IH; [|exact H]; destruct cap; unfold st_ok in *; cbn [fst snd] in *; exact Hst|].
    destruct (blk r) as [[o len]|]; [|discriminate]. eapply IH; [|exact H].
    destruct cap as [n|]; unfold st_ok in *; cbn [fst snd] in *.
    + unfold hl_full in E. apply Z.leb_gt in E. rewrite zlen_app. unfold zlen at 2. cbn [List.length]. lia.
    + destruct Hst. split; [assumption|lia].
Qed.

Lemma hl_tables_bounded : forall blk tables blen total cap isf st st',
  st_ok cap st -> hl_tables blk tables blen total cap isf st = Some st' -> st_ok cap st'.
Proof.
  induction tables as [|[nx refs] more IH]; intros blen total cap isf [[num accum] out] st' Hst H; cbn [hl_tables] in H.
  - inversion H; subst; assumption.
  - destruct (hl_full cap num); [inversion H; subst; assumption|].
    destruct (hl_table blk refs blen total cap isf (num, accum, out)) as [[st1 isf1]|] eqn:T; [|discriminate].
    pose proof (hl_table_bounded _ _ _ _ _ _ _ _ _ Hst T) as B.
    destruct (nx =? 0); [inversion H; subst; assumption|]. destruct st1 as [[a b] c]. eapply IH; eassumption.
Qed.

(** info_count is an [unsigned] in C *)
Definition cap_ok (cap : option Z) : Prop := match cap with Some n => 0 <= n | None => True end.

Theorem hl_getdatainfo_bounded : forall blk tables blen total cap ret out,
  cap_ok cap -> hl_getdatainfo blk tables blen total cap = Some (ret, out) ->
  match cap with
  | None => out = [] /\ 0 <= ret                   (* NULL arrays: nothing is written *)
  | Some n => ret = zlen out /\ ret <= n /\ 0 < n   (* at most info_count entries, and all of them counted *)
  end.
Proof.
  intros blk tables blen total cap ret out Hc H. unfold hl_getdatainfo in H. unfold cap_ok in Hc.
  assert (st_ok cap (0, 0, [])) as S0.
  { destruct cap as [n|]; unfold st_ok; cbn [fst snd]; [|split; [reflexivity|lia]]. split; [reflexivity|exact Hc]. }
  assert (match tables with [] => None | _ :: _ =>
            match hl_tables blk tables blen total cap true (0, 0, []) with Some (num, _, o) => Some (num, o) | None => None end end
          = Some (ret, out) -> st_ok cap (ret, 0, out)) as K.
  { intro H'. destruct tables as [|t ts]; [discriminate|].
    destruct (hl_tables blk (t :: ts) blen total cap true (0, 0, [])) as [[[num acc] o]|] eqn:T; [|discriminate].
    inversion H'; subst. pose proof (hl_tables_bounded _ _ _ _ _ _ _ _ S0 T) as B.
    destruct cap; unfold st_ok in *; cbn [fst snd] in *; exact B. }
  destruct cap as [n|].
  - destruct n as [|p|p]; [discriminate| |]; apply K in H; unfold st_ok in H; cbn [fst snd] in H; destruct H; repeat split; try assumption; lia.
  - apply K in H. unfold st_ok in H; cbn [fst snd] in H. destruct H. split; assumption.
Qed.

(** ** 8b. exactness: for every chain of block tables -- slots never written included -- the walk reports the
       extents the format specification defines, cut to the caller's capacity *)
Definition take (n num : Z) {A} (l : list A) : list A := firstn (Z.to_nat (n - num)) l.

Lemma hl_table_stopped : forall blk refs blen total cap isf num accum out,
  negb (accum <? total) || hl_full cap num = true ->
  hl_table blk refs blen total cap isf (num, accum, out) = Some ((num, accum, out), isf).
Proof. intros. destruct refs; cbn [hl_table]; [reflexivity|]. rewrite H. reflexivity. Qed.

Lemma hl_table_app : forall blk a b blen total cap isf st,
  hl_table blk (a ++ b) blen total cap isf st =
  match hl_table blk a blen total cap isf st with
  | None => None
  | Some (st', isf') => hl_table blk b blen total cap isf' st'
  end.
Proof.
  induction a as [|r a IH]; intros b blen total cap isf [[num accum] out]; [reflexivity|].
  cbn [app hl_table]. destruct (negb (accum <? total) || hl_full cap num) eqn:E.
  - rewrite hl_table_stopped by assumption. reflexivity.
  - destruct (r =? 0); [apply IH|]. destruct (blk r) as [[o len]|]; [apply IH|reflexivity].
Qed.

Lemma hl_tables_flat : forall blk blen total cap pre lastrefs, Forall (fun t => fst t <> 0) pre ->
  forall isf st,
  hl_tables blk (pre ++ [(0, lastrefs)]) blen total cap isf st =
  match hl_table blk (List.concat (map snd pre) ++ lastrefs) blen total cap isf st with
  | None => None | Some (st', _) => Some st' end.
Proof.
  intros blk blen total cap pre lastrefs Hpre. induction pre as [|[nx refs] pre IH]; intros isf [[num accum] out].
  - cbn [app map List.concat hl_tables]. destruct (hl_full cap num) eqn:E.
    + rewrite hl_table_stopped by (rewrite E; apply orb_true_r). reflexivity.
    + destruct (hl_table blk lastrefs blen total cap isf (num, accum, out)) as [[st' i']|]; reflexivity.
  - cbn [app map List.concat snd hl_tables]. pose proof (Forall_inv Hpre) as Hnx. cbn [fst] in Hnx.
    rewrite <- app_assoc, hl_table_app. destruct (hl_full cap num) eqn:E.
    + rewrite hl_table_stopped by (rewrite E; apply orb_true_r).
      rewrite hl_table_stopped by (rewrite E; apply orb_true_r). reflexivity.
    + destruct (hl_table blk refs blen total cap isf (num, accum, out)) as [[st' i']|]; [|reflexivity].
      destruct (nx =? 0) eqn:En; [apply Z.eqb_eq in En; contradiction|]. apply IH. exact (Forall_inv_tail Hpre).
Qed.

(** the first slot stands for the length of the block that was made from existing data *)
Definition first_ok (blk : Z -> option (Z * Z)) (isf : bool) (refs : list Z) (first blen : Z) : Prop :=
  isf = true -> match refs with
                | [] => True
                | r0 :: _ => if r0 =? 0 then first = blen else exists o, blk r0 = Some (o, first)
                end.

Lemma slots_beyond : forall blk total refs st first blen isf, 0 <= blen -> 0 <= first -> total <= st ->
  extents_of_slots blk total (block_slots refs st first blen isf) = Some [].
Proof.
  induction refs as [|r t IH]; intros st first blen isf Hb Hf Hst; [reflexivity|].
  cbn [block_slots extents_of_slots]. destruct (st <? total) eqn:E; [apply Z.ltb_lt in E; lia|].
  cbn [negb]. rewrite orb_true_r. apply IH; try assumption. destruct isf; lia.
Qed.

Lemma hl_table_exact : forall blk blen total first cap, 0 <= blen -> 0 <= first ->
  forall refs isf num accum out E, first_ok blk isf refs first blen ->
  match cap with Some n => num <= n | None => True end ->
  extents_of_slots blk total (block_slots refs accum first blen isf) = Some E ->
  exists acc' isf',
    hl_table blk refs blen total cap isf (num, accum, out) =
    Some (match cap with
          | Some n => (num + zlen (take n num E), acc', out ++ take n num E)
          | None => (num + zlen E, acc', out)
          end, isf').
Proof.
  intros blk blen total first cap Hb Hf. induction refs as [|r t IH]; intros isf num accum out E Hfo Hn HS.
  - cbn [block_slots extents_of_slots] in HS. inversion HS; subst. exists accum, isf. cbn [hl_table].
    destruct cap as [n|]; unfold take; try rewrite firstn_nil; unfold zlen; cbn [List.length]; rewrite ?app_nil_r, Z.add_0_r; reflexivity.
  - cbn [hl_table]. destruct (accum <? total) eqn:Et.
    2:{ (* the element ends before this slot *)
        apply Z.ltb_ge in Et. rewrite (slots_beyond blk total (r :: t) accum first blen isf Hb Hf Et) in HS.
        inversion HS; subst. exists accum, isf. cbn [negb orb].
        destruct cap as [n|]; unfold take; try rewrite firstn_nil; unfold zlen; cbn [List.length]; rewrite ?app_nil_r, Z.add_0_r; reflexivity. }
    cbn [negb orb]. destruct (hl_full cap num) eqn:Efull.
    { (* the caller's arrays are full *)
      destruct cap as [n|]; [|discriminate]. unfold hl_full in Efull. apply Z.leb_le in Efull.
      exists accum, isf. unfold take. replace (Z.to_nat (n - num)) with 0%nat by lia. cbn [firstn].
      unfold zlen. cbn [List.length]. rewrite app_nil_r, Z.add_0_r. reflexivity. }
    cbn [block_slots extents_of_slots] in HS. rewrite Et in HS. cbn [negb] in HS. rewrite orb_false_r in HS.
    destruct (r =? 0) eqn:E0.
    + (* a slot never written *)
      assert ((if isf then first else blen) = blen) as Hsz.
      { destruct isf; [|reflexivity]. specialize (Hfo eq_refl). cbn in Hfo. rewrite E0 in Hfo. exact Hfo. }
      rewrite Hsz in HS. apply (IH false num (accum + blen) out E); [intro; discriminate | exact Hn | exact HS].
    + destruct (blk r) as [[o len]|] eqn:Hk; [|discriminate].
      destruct (extents_of_slots blk total (block_slots t (accum + (if isf then first else blen)) first blen false)) as [E'|] eqn:HS';
        [|discriminate]. inversion HS; subst E. clear HS.
      assert ((if isf then first else blen) = (if isf then len else blen)) as Hsz.
      { destruct isf; [|reflexivity]. specialize (Hfo eq_refl). cbn in Hfo. rewrite E0 in Hfo. destruct Hfo as [o' Ho'].
        rewrite Hk in Ho'. inversion Ho'. reflexivity. }
      rewrite Hsz in *.
      set (e := (o, Z.min (Z.min (if isf then len else blen) len) (total - accum))).
      destruct cap as [n|].
      * unfold hl_full in Efull. apply Z.leb_gt in Efull.
        destruct (IH false (num + 1) (accum + (if isf then len else blen)) (out ++ [e]) E') as [acc' [isf' IH']];
          [intro; discriminate | lia | exact HS' |].
        exists acc', isf'. rewrite IH'. unfold take.
        replace (Z.to_nat (n - num)) with (S (Z.to_nat (n - (num + 1)))) by lia. cbn [firstn].
        rewrite <- app_assoc. cbn [app]. unfold zlen. cbn [List.length]. f_equal. f_equal. f_equal. f_equal. lia.
      * destruct (IH false (num + 1) (accum + (if isf then len else blen)) out E') as [acc' [isf' IH']];
          [intro; discriminate | exact I | exact HS' |].
        exists acc', isf'. rewrite IH'. unfold zlen. cbn [List.length]. f_equal. f_equal. f_equal. f_equal. lia.
Qed.

Theorem hl_getdatainfo_exact : forall blk pre lastrefs blen total first cap exts,
  0 <= blen -> 0 <= first -> Forall (fun t => fst t <> 0) pre ->
  first_ok blk true (List.concat (map snd pre) ++ lastrefs) first blen ->
  cap_ok cap -> cap <> Some 0 ->
  extents_of_slots blk total (block_slots (List.concat (map snd pre) ++ lastrefs) 0 first blen true) = Some exts ->
  hl_getdatainfo blk (pre ++ [(0, lastrefs)]) blen total cap = Some (datainfo_answer exts cap).
Proof.
  intros blk pre lastrefs blen total first cap exts Hb Hf Hpre Hfo Hc Hc0 HS. unfold hl_getdatainfo.
  assert (forall X (a : list X) b, a ++ [b] <> []) as NE by (intros X a b; destruct a; discriminate).
  assert (match cap with Some n => 0 <= n | None => True end) as Hn by exact Hc.
  destruct (hl_table_exact blk blen total first cap Hb Hf _ true 0 0 [] exts Hfo Hn HS) as [acc' [isf' E]].
  destruct (pre ++ [(0, lastrefs)]) as [|t0 ts] eqn:T; [exfalso; eapply NE; exact T|]. rewrite <- T.
  rewrite (hl_tables_flat blk blen total cap pre lastrefs Hpre), E.
  destruct cap as [n|].
  - destruct n as [|p|p]; [congruence| |unfold cap_ok in Hc; lia].
    unfold datainfo_answer, take. rewrite Z.sub_0_r, Z.add_0_l. reflexivity.
  - unfold datainfo_answer. rewrite Z.add_0_l. reflexivity.
Qed.

(* ================================================================================================== *)
(** * 9. GRgetpalinfo stays inside the caller's array; SDgetattdatainfo finds the attribute by its whole name *)

Lemma palinfo_guard_spec : forall idx n, GRgetpalinfo_guard 0 idx n = if idx <? n then 1 else 0.
Proof. intros idx n. unfold GRgetpalinfo_guard. destruct (idx <? n); reflexivity. Qed.

Lemma palinfo_loop_spec : forall ds n idx out, idx <= n ->
  palinfo_loop ds n idx out =
  (idx + zlen (take n idx (filter (fun d => is_pal_tag (dd_tag d)) ds)),
   out ++ take n idx (filter (fun d => is_pal_tag (dd_tag d)) ds)).
Proof.
  induction ds as [|d t IH]; intros n idx out Hn; cbn [palinfo_loop filter].
  - unfold take. rewrite firstn_nil. unfold zlen. cbn [List.length]. rewrite app_nil_r, Z.add_0_r. reflexivity.
  - rewrite palinfo_guard_spec. destruct (idx <? n) eqn:E.
    + apply Z.ltb_lt in E. change (1 =? 0) with false. cbv iota.
      change ((dd_tag d =? DFTAG_IP8) || (dd_tag d =? DFTAG_LUT)) with (is_pal_tag (dd_tag d)).
      destruct (is_pal_tag (dd_tag d)).
      * rewrite IH by lia. unfold take. replace (Z.to_nat (n - idx)) with (S (Z.to_nat (n - (idx + 1)))) by lia.
        cbn [firstn]. rewrite <- app_assoc. cbn [app]. unfold zlen. cbn [List.length].
        replace (idx + 1 + Z.of_nat (List.length (firstn (Z.to_nat (n - (idx + 1))) (filter (fun d0 => is_pal_tag (dd_tag d0)) t))))
          with (idx + Z.of_nat (S (List.length (firstn (Z.to_nat (n - (idx + 1))) (filter (fun d0 => is_pal_tag (dd_tag d0)) t))))) by lia.
        reflexivity.
      * apply IH. lia.
    + apply Z.ltb_ge in E. change (0 =? 0) with true. cbv iota. unfold take.
      replace (Z.to_nat (n - idx)) with 0%nat by lia. cbn [firstn]. unfold zlen. cbn [List.length].
      rewrite app_nil_r, Z.add_0_r. reflexivity.
Qed.

Theorem gr_getpalinfo_exact : forall ds n, 0 <= n -> gr_getpalinfo ds n = pal_answer ds (Some n).
Proof.
  intros ds n Hn. unfold gr_getpalinfo, pal_answer, palettes. rewrite palinfo_loop_spec by lia.
  unfold take. rewrite Z.sub_0_r, Z.add_0_l. reflexivity.
Qed.

Lemma str_eqb_bytes : forall a b, str_eqb a b = bytes_eqb a b.
Proof. induction a as [|x a IH]; destruct b as [|y b]; cbn [str_eqb bytes_eqb]; try reflexivity; rewrite IH; reflexivity. Qed.

Theorem sd_attr_lookup_exact : forall members name, sd_attr_lookup members name = attr_find members name.
Proof.
  intros members name. unfold sd_attr_lookup, attr_find.
  induction members as [|m t IH]; [reflexivity|]. cbn [find].
  unfold SDgetattdatainfo_match at 1. rewrite (str_eqb_bytes name (snd (fst m))) || change (str_eqb name (snd (fst m))) with (bytes_eqb name (snd (fst m))).
  destruct (bytes_eqb (fst (fst m)) attr_class && bytes_eqb name (snd (fst m))); [reflexivity | exact IH].
Qed.

(* ================================================================================================== *)
(** * 10. VSgetattdatainfo selects the attrindex-th attribute of the requested owner; sources of the modelled
      raw-location functions *)

Lemma vs_owner_test_spec : forall a b, VSgetattdatainfo_owner_test a b = if a =? b then 1 else 0.
Proof. reflexivity. Qed.

Lemma vs_search_text : VSgetattdatainfo_step = "vs_alist++;"%string /\ VSgetattdatainfo_attached = "vs_alist->aref"%string.
Proof. split; reflexivity. Qed.

Lemma vs_att_loop_spec : forall l f k a, a < k ->
  vs_att_loop l f k a = nth_error (filter (fun e => va_findex e =? f) l) (Z.to_nat (k - a - 1)).
Proof.
  induction l as [|e t IH]; intros f k a Ha; cbn [vs_att_loop filter].
  - destruct (Z.to_nat (k - a - 1)); reflexivity.
  - rewrite vs_owner_test_spec. destruct (va_findex e =? f).
    + change (1 =? 0) with false. cbv iota. destruct (a + 1 =? k) eqn:E.
      * apply Z.eqb_eq in E. replace (Z.to_nat (k - a - 1)) with 0%nat by lia. reflexivity.
      * apply Z.eqb_neq in E. rewrite IH by lia.
        replace (Z.to_nat (k - a - 1)) with (S (Z.to_nat (k - (a + 1) - 1))) by lia. reflexivity.
    + change (0 =? 0) with true. cbv iota. apply IH. exact Ha.
Qed.

Theorem vs_getattdatainfo_exact : forall alist f k, vs_getattdatainfo_entry alist f k = vsattr_nth alist f k.
Proof.
  intros alist f k. unfold vs_getattdatainfo_entry, vsattr_nth. destruct (k <? 0) eqn:E; [reflexivity|].
  apply Z.ltb_ge in E. rewrite vs_att_loop_spec by lia. f_equal. lia.
Qed.

(** the hand-written models / specification clauses of the raw-location functions were written against exactly
    these function bodies (SHA-256 of the body without comments and white space): an edit to any of them breaks this
    lemma and the model has to be looked at again *)
Lemma datainfo_sources_pinned :
  HLgetdatainfo_src = "0ca8f6c9be7230963158bbb2f4b8910c4b101174804053a79ce2f5d4cf1e9b7f"%string /\
  HMCgetdatainfo_src = "4a61ae083a854aa4d849055c52a2db8d198bcca10cae1a112eaba1f6f33c826c"%string /\
  HDgetdatainfo_src = "72876229e63d89d6b4f9b592fa2f0a5fb72258613bd4c894cb506b126c103138"%string /\
  VSgetdatainfo_src = "eafd7651805761f768495e0cbcd6b5dcf2e8acfb7eb2469bf3cc7b7c4252c5f4"%string /\
  Vgetattdatainfo_src = "686bf2cca46ceea07c8465ff3a925926b3a9c116654ef09ce0c62a54fe872f29"%string /\
  VSgetattdatainfo_src = "ef12b075210af77643df1a990d741c0ba72d109d9c86a1157e947980d81e1199"%string /\
  GRgetattdatainfo_src = "a2956ef1be5dc9b7a08d64b77007826eb94074b137c003ab007c6710b47b6ace"%string /\
  GRgetdatainfo_src = "11cc056b40b3dfe1e3783cdc2a57abadb51ccc48973e9f6effa7a84f7b861fd6"%string /\
  GRgetpalinfo_src = "36378284fbbc5854f806928e1f583b807246ccb93f3680f8d4991d0443c7c360"%string /\
  ANgetdatainfo_src = "a94aa22ca0637a9fc3fc3be950c1fa0e15fb6bec0693c0b109810d8afd9f8cd5"%string /\
  SDgetdatainfo_src = "c7e3225752d32dc209adf190ea9595d285ddcd84995a199557ee1acc3c24e7b3"%string /\
  SDgetattdatainfo_src = "26ce5769c26c979983480662bc3cb79707664650fcb7fbd0101e2eb3c4830090"%string /\
  SDgetoldattdatainfo_src = "8819bb2e5b107c2a6b998ba1836522aa1da79eaa6deaf3fa3471b99f6c7f4602"%string /\
  SDgetanndatainfo_src = "992d7cb55faa0a34af06c6753bd4da8984a32a198ebfea22e7698cd927ae2dbf"%string.
Proof. repeat split; reflexivity. Qed.

(* ================================================================================================== *)
(** * 11. HIsync: whatever else is flushed, a file whose end is dirty reaches its reserved end *)

Lemma hisync_steps_text :
  HIsync_ddlist_step = "if(file_rec->dirty&DDLIST_DIRTY)"%string /\
  HIsync_extend_step = "if(file_rec->dirty&FILE_END_DIRTY)"%string.
Proof. split; reflexivity. Qed.

Lemma extend_file_len : forall img f_end, f_end <= zlen (extend_file img f_end) /\ zlen img <= zlen (extend_file img f_end).
Proof. intros. unfold extend_file. rewrite zlen_app. unfold zlen at 2 4. rewrite repeat_length. unfold zlen. lia. Qed.

(** every descriptor that lies below the reserved end is inside the flushed file, for either state of the DD list *)
Theorem hi_sync_reaches_end : forall img bl f_end dd_dirty d,
  0 <= dd_off d -> 0 <= dd_len d -> dd_off d + dd_len d <= f_end ->
  in_image (hi_sync img bl f_end dd_dirty true) d.
Proof.
  intros img bl f_end dd_dirty d H1 H2 H3. unfold in_image, hi_sync. right.
  pose proof (extend_file_len (if dd_dirty then sync_blocks img bl else img) f_end) as [E _]. lia.
Qed.
