(** C10 -- specification S: attributes and descriptive metadata are returned exactly as last set.

    Part 1 (read this first): an attributable object carries an ORDERED LIST of attributes
    (name, number type, count, bytes).  [attr_set] replaces in place (index kept, everything else intact) or
    appends; an interface that forbids a change of type / count refuses and keeps the old value.
    Part 2: the objects of one SD file (global list, variables, dimensions with their coordinate variable) and of
    one H-level file (GR file + images, Vdatas with per-field lists, Vgroups), and [step], the oracle the C library
    is compared with operation by operation.  Results outside the property's domain are [RUnspec] (nothing later in
    that history is compared) or [RSkip] (this result is not compared, the state effect is defined). *)
From Coq Require Import ZArith List Bool.
Require Import H4.gen.Gen_Attr.
Import ListNotations.
Local Open Scope Z_scope.

(* ------------------------------------------------------------------------------------------------------- *)
(** * Part 1: one attribute list *)

Definition bytes := list Z.

Fixpoint beq (a b : bytes) : bool :=
  match a, b with
  | [], [] => true
  | x :: a', y :: b' => Z.eqb x y && beq a' b'
  | _, _ => false
  end.

Record attr := mkAttr { a_name : bytes; a_nt : Z; a_count : Z; a_data : bytes }.

(** what a re-set of an existing name may change *)
Inductive policy := PAny (* SD *) | PSameType (* GR: count may change *) | PSameTypeCount (* Vdata, Vgroup *).

Definition compatible (p : policy) (old new : attr) : bool :=
  match p with
  | PAny => true
  | PSameType => Z.eqb (a_nt old) (a_nt new)
  | PSameTypeCount => Z.eqb (a_nt old) (a_nt new) && Z.eqb (a_count old) (a_count new)
  end.

(** set: replace the first attribute of that name in place, or append; [None] = refused, list unchanged *)
Fixpoint attr_set (p : policy) (l : list attr) (a : attr) : option (list attr) :=
  match l with
  | [] => Some [a]
  | x :: r => if beq (a_name x) (a_name a)
              then (if compatible p x a then Some (a :: r) else None)
              else option_map (cons x) (attr_set p r a)
  end.

Fixpoint attr_find_from (l : list attr) (n : bytes) (i : Z) : option Z :=
  match l with
  | [] => None
  | x :: r => if beq (a_name x) n then Some i else attr_find_from r n (i + 1)
  end.
(** index of the first attribute with that name *)
Definition attr_find (l : list attr) (n : bytes) : option Z := attr_find_from l n 0.

(** attribute by index *)
Definition attr_get (l : list attr) (i : Z) : option attr :=
  if i <? 0 then None else nth_error l (Z.to_nat i).

Definition zlen {A} (l : list A) : Z := Z.of_nat (length l).

(* ------------------------------------------------------------------------------------------------------- *)
(** * Number types (tables regenerated from dfconv.c / cdf.c) *)

Fixpoint assocZ (t : list (Z * Z)) (k : Z) : option Z :=
  match t with [] => None | (a, b) :: r => if Z.eqb a k then Some b else assocZ r k end.

(** DFKNTsize: masks the little-endian bit *)
Definition nt_size (nt : Z) : option Z := assocZ DFKNTsize_switch (Z.land nt (Z.lnot DFNT_LITEND)).
(** hdf_unmap_type: the netCDF class of an HDF number type (low byte) *)
Definition nc_type (nt : Z) : option Z := assocZ hdf_unmap_type_switch (Z.land nt 255).

(** arguments every attribute interface insists on (SDsetattr also refuses native number types) *)
Definition args_ok (native_ok : bool) (nt count : Z) (data : bytes) : bool :=
  match nt_size nt, nc_type nt with
  | Some sz, Some _ => (native_ok || (Z.land nt DFNT_NATIVE =? 0)) && (1 <=? count) && (count <=? MAX_ORDER)
                       && (count * sz <=? MAX_FIELD_SIZE) && (zlen data =? count * sz)
  | _, _ => false
  end.

(* ------------------------------------------------------------------------------------------------------- *)
(** * Part 2: objects, operations, oracle *)

Inductive tok := TI (z : Z) | TB (b : bytes) | TQ (* unspecified token: compares equal to anything *).
Inductive res := ROk (t : list tok) | RFail | RUnspec | RSkip.

Inductive mode := MCreate | MWrite | MRead.
Inductive obj := OFile | OVar (i : Z) | ODim (i d : Z).

Inductive vkind := KSds | KCoord.
(** a variable: dataset or coordinate variable.  [v_name = None]: name chosen by the library (unnamed dimension).
    [v_dims]: the slots of its dimensions in the file's dimension table ([s_slots]: slot -> dimension; SDsetdimname
    with a name in use makes a slot denote the existing dimension).  [v_scale]: values of a coordinate variable once
    set.  [v_cobj]: the dimension a coordinate variable was made for (-1 for a dataset). *)
Record var := mkVar { v_name : option bytes; v_kind : vkind; v_nt : Z; v_dims : list Z;
                      v_attrs : list attr; v_scale : option bytes; v_cobj : Z }.
Record dimo := mkDim { d_name : option bytes; d_size : Z }.
Record sdcore := mkSd { s_gattrs : list attr; s_vars : list var; s_dims : list dimo; s_slots : list Z }.

Record vdata := mkVd { vd_nf : Z; vd_attrs : list (Z * list attr) (* field index -> list *) }.
Record hcore := mkH { h_gattrs : list attr; h_imgs : list (bytes * list attr); h_vds : list vdata;
                      h_vgs : list (list attr) }.

Record state := mkSt { sd_cur : sdcore; sd_saved : sdcore; sd_mode : option mode; sd_dirty : bool;
                       h_cur : hcore; h_mode : option mode; sd_exists : bool; h_exists : bool }.

Definition sd0 := mkSd [] [] [] [].
Definition init := mkSt sd0 sd0 None false (mkH [] [] [] []) None false false.

Inductive op :=
| SdStart (m : mode) | SdEnd
| SdCreate (name : bytes) (nt rank : Z) (dims : list Z)
| SdSetAttr (o : obj) (name : bytes) (nt count : Z) (data : bytes)
| SdAttrs (o : obj) | SdAttrInfo (o : obj) (i : Z) | SdFindAttr (o : obj) (name : bytes)
| SdSetDataStrs (i : Z) (l u f c : option bytes) | SdGetDataStrs (i len : Z)
| SdSetCal (i : Z) (data : bytes) (nt : Z) | SdGetCal (i : Z)
| SdSetRange (i : Z) (mx mn : bytes) | SdGetRange (i : Z)
| SdSetFill (i : Z) (v : bytes) | SdGetFill (i : Z)
| SdSetDimName (i d : Z) (name : bytes) | SdDimInfo (i d : Z)
| SdSetDimScale (i d count nt : Z) (data : bytes) | SdGetDimScale (i d : Z)
| SdSetDimStrs (i d : Z) (l u f : option bytes) | SdGetDimStrs (i d len : Z)
| SdLookup
| HStart (m : mode) | HEnd
| GrCreate (name : bytes) (ncomp nt x y : Z)
| GrSetAttr (o : option Z) (name : bytes) (nt count : Z) (data : bytes)
| GrAttrs (o : option Z) | GrAttrInfo (o : option Z) (i : Z) | GrFindAttr (o : option Z) (name : bytes) | GrLookup
| VsCreate (name : bytes) (nf : Z)
| VsSetAttr (k fi : Z) (name : bytes) (nt count : Z) (data : bytes)
| VsAttrs (k fi : Z) | VsAttrInfo (k fi i : Z) | VsFindAttr (k fi : Z) (name : bytes)
| VgCreate (name : bytes)
| VgSetAttr (k : Z) (name : bytes) (nt count : Z) (data : bytes)
| VgAttrs (k : Z) | VgAttrInfo (k i : Z) | VgFindAttr (k : Z) (name : bytes).

(* ---- small list helpers ---------------------------------------------------------------------------- *)
Definition znth {A} (l : list A) (i : Z) : option A := if i <? 0 then None else nth_error l (Z.to_nat i).
Fixpoint zupd {A} (l : list A) (i : nat) (x : A) : list A :=
  match l, i with
  | [], _ => []
  | _ :: r, O => x :: r
  | y :: r, S j => y :: zupd r j x
  end.
Definition zset {A} (l : list A) (i : Z) (x : A) : list A := zupd l (Z.to_nat i) x.

Definition has_prefix (p l : bytes) : bool := beq p (firstn (length p) l).
Definition fake_prefix : bytes := [102; 97; 107; 101; 68; 105; 109].   (* "fakeDim" *)
Fixpoint cstr (l : bytes) : bytes := match l with [] => [] | x :: r => if x =? 0 then [] else x :: cstr r end.
Fixpoint zeros (n : nat) : bytes := match n with O => [] | S k => 0 :: zeros k end.
(** first [n] bytes of a value copied into a zeroed buffer *)
Definition fixed (n : Z) (d : bytes) : bytes := firstn (Z.to_nat n) (d ++ zeros (Z.to_nat n)).
Fixpoint le_unsigned (l : bytes) : Z := match l with [] => 0 | x :: r => x + 256 * le_unsigned r end.
Definition le_int32 (l : bytes) : Z := let u := le_unsigned (fixed 4 l) in if u <? 2147483648 then u else u - 4294967296.

(** the listing printed by the "attrs" observers: per index  name nt count data index-found-by-name *)
Fixpoint listing (all l : list attr) : list tok :=
  match l with
  | [] => []
  | a :: r => TB (a_name a) :: TI (a_nt a) :: TI (a_count a) :: TB (a_data a)
              :: (match attr_find all (a_name a) with Some i => TI i | None => TI (-1) end) :: listing all r
  end.
Definition attrs_res (l : list attr) : res := ROk (TI (zlen l) :: listing l l).
Definition info_res (l : list attr) (i : Z) : res :=
  match attr_get l i with
  | Some a => ROk [TB (a_name a); TI (a_nt a); TI (a_count a); TB (a_data a)]
  | None => RFail
  end.
Definition find_res (l : list attr) (n : bytes) : res :=
  match attr_find l n with Some i => ROk [TI i] | None => RFail end.

(* ---- SD ------------------------------------------------------------------------------------------------ *)
Definition writable (m : option mode) : bool := match m with Some MCreate | Some MWrite => true | _ => false end.

Definition set_vars (c : sdcore) (vs : list var) : sdcore := mkSd (s_gattrs c) vs (s_dims c) (s_slots c).
Definition set_dims (c : sdcore) (ds : list dimo) : sdcore := mkSd (s_gattrs c) (s_vars c) ds (s_slots c).
Definition set_slots (c : sdcore) (sl : list Z) : sdcore := mkSd (s_gattrs c) (s_vars c) (s_dims c) sl.
Definition set_gattrs (c : sdcore) (l : list attr) : sdcore := mkSd l (s_vars c) (s_dims c) (s_slots c).

(** dimension [d] of variable [i]: its slot in the file's dimension table and the dimension that slot denotes *)
Definition var_slot (c : sdcore) (i d : Z) : option Z :=
  match znth (s_vars c) i with Some v => znth (v_dims v) d | None => None end.
Definition var_dim (c : sdcore) (i d : Z) : option Z :=
  match var_slot c i d with Some sl => znth (s_slots c) sl | None => None end.

(** the coordinate variable of dimension [k]: the first coordinate variable made for that dimension *)
Fixpoint coord_from (vs : list var) (k : Z) (i : Z) : option Z :=
  match vs with
  | [] => None
  | v :: r => match v_kind v with
              | KCoord => if v_cobj v =? k then Some i else coord_from r k (i + 1)
              | KSds => coord_from r k (i + 1)
              end
  end.
Definition coord_of (c : sdcore) (k : Z) : option Z := coord_from (s_vars c) k 0.

(** get the coordinate variable of dimension [k] (reached through slot [sl]), creating it (float32 unless [nt]
    given) when missing *)
Definition ensure_coord (c : sdcore) (sl k : Z) (nt : Z) : sdcore * Z :=
  match coord_of c k with
  | Some i => (c, i)
  | None =>
    let nm := match znth (s_dims c) k with Some dm => d_name dm | None => None end in
    (set_vars c (s_vars c ++ [mkVar nm KCoord (if nt =? 0 then DFNT_FLOAT32 else nt) [sl] [] None k]), zlen (s_vars c))
  end.

Definition upd_var (v : var) (nm : option bytes) (nt : Z) (dims : list Z) (l : list attr) (sc : option bytes) : var :=
  mkVar nm (v_kind v) nt dims l sc (v_cobj v).
Definition set_var_attrs (c : sdcore) (i : Z) (l : list attr) : sdcore :=
  match znth (s_vars c) i with
  | Some v => set_vars c (zset (s_vars c) i (upd_var v (v_name v) (v_nt v) (v_dims v) l (v_scale v)))
  | None => c
  end.

(** resolve an object to (state after a possible coordinate-variable creation, where its list lives, the list) *)
Inductive where_ := WFile | WVar (i : Z).
Definition resolve (c : sdcore) (o : obj) (create : bool) : option (sdcore * where_ * list attr) :=
  match o with
  | OFile => Some (c, WFile, s_gattrs c)
  | OVar i => match znth (s_vars c) i with Some v => Some (c, WVar i, v_attrs v) | None => None end
  | ODim i d =>
    match var_slot c i d, var_dim c i d with
    | Some sl, Some k =>
      if create then
        let '(c', j) := ensure_coord c sl k 0 in
        match znth (s_vars c') j with Some v => Some (c', WVar j, v_attrs v) | None => None end
      else match coord_of c k with
           | Some j => match znth (s_vars c) j with Some v => Some (c, WVar j, v_attrs v) | None => None end
           | None => Some (c, WFile, [])       (* no coordinate variable: empty list, never written to *)
           end
    | _, _ => None
    end
  end.
Definition put_attrs (c : sdcore) (w : where_) (l : list attr) : sdcore :=
  match w with WFile => set_gattrs c l | WVar i => set_var_attrs c i l end.

Definition with_cur (s : state) (c : sdcore) (dirty : bool) : state :=
  mkSt c (sd_saved s) (sd_mode s) (sd_dirty s || dirty) (h_cur s) (h_mode s) (sd_exists s) (h_exists s).

(* ---- the predefined metadata, as functions on one attribute list ----------------------------------------- *)
(** set several attributes one after the other (SDIputattr, policy PAny never refuses) *)
Fixpoint put_all (l : list attr) (news : list attr) : list attr :=
  match news with
  | [] => l
  | a :: r => put_all (match attr_set PAny l a with Some l' => l' | None => l end) r
  end.
Definition find_attr (l : list attr) (name : bytes) : option attr :=
  match attr_find l name with Some i => attr_get l i | None => None end.

Definition str_attr (name : bytes) (s : option bytes) : list attr :=
  match s with
  | Some (x :: r) => [mkAttr name DFNT_CHAR (zlen (x :: r)) (x :: r)]
  | _ => []
  end.
(** SDsetdatastrs / SDsetdimstrs: NULL and empty strings are skipped *)
Definition spec_setstrs (l : list attr) (lab u f cs : option bytes) : list attr :=
  put_all l (str_attr _HDF_LongName lab ++ str_attr _HDF_Units u ++ str_attr _HDF_Format f ++ str_attr _HDF_CoordSys cs).
(** SDgetdatastrs / SDgetdimstrs: at most [len] bytes of the attribute, as a C string *)
Definition get_str (l : list attr) (name : bytes) (len : Z) : bytes :=
  match find_attr l name with
  | Some a => cstr (firstn (Z.to_nat (Z.min (a_count a) len)) (a_data a))
  | None => []
  end.

Definition int32_bytes (v : Z) : bytes :=
  [Z.land v 255; Z.land (Z.shiftr v 8) 255; Z.land (Z.shiftr v 16) 255; Z.land (Z.shiftr v 24) 255].
(** SDsetcal: four float64 (given as 8 bytes each) and the int32 number type *)
Definition cal_attrs (cal cale ioff ioffe : bytes) (nt : Z) : list attr :=
  [mkAttr _HDF_ScaleFactor DFNT_FLOAT64 1 cal; mkAttr _HDF_ScaleFactorErr DFNT_FLOAT64 1 cale;
   mkAttr _HDF_AddOffset DFNT_FLOAT64 1 ioff; mkAttr _HDF_AddOffsetErr DFNT_FLOAT64 1 ioffe;
   mkAttr _HDF_CalibratedNt DFNT_INT32 1 (int32_bytes nt)].
Definition spec_setcal (l : list attr) (cal cale ioff ioffe : bytes) (nt : Z) : list attr :=
  put_all l (cal_attrs cal cale ioff ioffe nt).
(** SDgetcal: the five values (each copied whole into the caller's zeroed buffer), or failure *)
Definition spec_getcal (l : list attr) : option (bytes * bytes * bytes * bytes * bytes) :=
  match find_attr l _HDF_ScaleFactor, find_attr l _HDF_ScaleFactorErr, find_attr l _HDF_AddOffset,
        find_attr l _HDF_AddOffsetErr, find_attr l _HDF_CalibratedNt with
  | Some a1, Some a2, Some a3, Some a4, Some a5 => Some (a_data a1, a_data a2, a_data a3, a_data a4, a_data a5)
  | _, _, _, _, _ => None
  end.
(** SDsetrange / SDgetrange on a variable of number type [vnt] whose elements have [sz] bytes *)
Definition spec_setrange (l : list attr) (vnt sz : Z) (mx mn : bytes) : list attr :=
  put_all l [mkAttr _HDF_ValidRange vnt 2 (fixed sz mn ++ fixed sz mx)].
Definition spec_getrange (l : list attr) (sz : Z) : option (bytes * bytes) :=
  match find_attr l _HDF_ValidRange with
  | Some a => Some (firstn (Z.to_nat sz) (skipn (Z.to_nat sz) (a_data a)), firstn (Z.to_nat sz) (a_data a))
  | None => None
  end.
Definition spec_setfill (l : list attr) (vnt sz : Z) (v : bytes) : list attr :=
  put_all l [mkAttr _FillValue vnt 1 (fixed sz v)].
Definition spec_getfill (l : list attr) : option bytes := option_map a_data (find_attr l _FillValue).

Definition dim_names_ok (n : bytes) : bool := negb (has_prefix fake_prefix n) && (1 <=? zlen n) && (zlen n <=? 60).

(** what the file keeps at SDend: every variable refers to its dimensions directly (duplicate slots are merged) *)
Definition normalize (c : sdcore) : sdcore :=
  let res (sl : Z) := match znth (s_slots c) sl with Some k => k | None => sl end in
  mkSd (s_gattrs c)
       (map (fun v => mkVar (v_name v) (v_kind v) (v_nt v) (map res (v_dims v)) (v_attrs v) (v_scale v) (v_cobj v)) (s_vars c))
       (s_dims c) (map Z.of_nat (seq 0 (length (s_dims c)))).

Definition sd_step (s : state) (o : op) : state * res :=
  let c := sd_cur s in
  let w := writable (sd_mode s) in
  match o with
  | SdStart m =>
    match sd_mode s with
    | Some _ => (s, RUnspec)
    | None => match m with
              | MCreate => (mkSt sd0 sd0 (Some m) false (h_cur s) (h_mode s) true (h_exists s), ROk [])
              | _ => if sd_exists s
                     then (mkSt (sd_saved s) (sd_saved s) (Some m) false (h_cur s) (h_mode s) true (h_exists s), ROk [])
                     else (s, RUnspec)
              end
    end
  | SdEnd =>
    match sd_mode s with
    | None => (s, RUnspec)
    | Some _ => let keep := if w && sd_dirty s then normalize c else sd_saved s in
                (mkSt keep keep None false (h_cur s) (h_mode s) (sd_exists s) (h_exists s), ROk [])
    end
  | SdCreate name nt rank dims =>
    if negb w then (s, RUnspec) else
    match nt_size nt, nc_type nt with
    | Some _, Some _ =>
      if (Z.land nt DFNT_NATIVE =? 0) && (zlen dims =? rank) && (1 <=? rank) && (rank <=? 4)
         && forallb (fun x => 1 <=? x) dims && dim_names_ok name && negb (match name with 32 :: _ => true | _ => false end)
      then
        let nd := zlen (s_dims c) in
        let ns := zlen (s_slots c) in
        let idx := map Z.of_nat (seq 0 (length dims)) in
        let c1 := mkSd (s_gattrs c)
                       (s_vars c ++ [mkVar (Some name) KSds nt (map (fun k => ns + k) idx) [] None (-1)])
                       (s_dims c ++ map (fun x => mkDim None x) dims)
                       (s_slots c ++ map (fun k => nd + k) idx) in
        (with_cur s c1 true, ROk [TI (zlen (s_vars c))])
      else (s, RUnspec)
    | _, _ => (s, RUnspec)
    end
  | SdSetAttr ob name nt count data =>
    if negb w then (s, RUnspec) else
    if negb (args_ok false nt count data) then (s, RFail) else
    match resolve c ob true with
    | None => (s, RFail)
    | Some (c', wh, l) =>
      if H4_MAX_NC_NAME <? zlen name then (with_cur s c' false, RFail) else
      match attr_set PAny l (mkAttr name nt count data) with
      | Some l' => (with_cur s (put_attrs c' wh l') true, ROk [])
      | None => (with_cur s c' false, RFail)
      end
    end
  | SdAttrs ob =>
    match resolve c ob false with Some (_, _, l) => (s, attrs_res l) | None => (s, RFail) end
  | SdAttrInfo ob i =>
    match resolve c ob true with Some (c', _, l) => (with_cur s c' false, info_res l i) | None => (s, RFail) end
  | SdFindAttr ob n =>
    match resolve c ob true with Some (c', _, l) => (with_cur s c' false, find_res l n) | None => (s, RFail) end
  | SdSetDataStrs i l u f cs =>
    if negb w then (s, RUnspec) else
    match znth (s_vars c) i with
    | None => (s, RFail)
    | Some v => (with_cur s (set_var_attrs c i (spec_setstrs (v_attrs v) l u f cs)) true, ROk [])
    end
  | SdGetDataStrs i len =>
    match znth (s_vars c) i with
    | None => (s, RFail)
    | Some v => let a := v_attrs v in
                (s, ROk [TB (get_str a _HDF_LongName len); TB (get_str a _HDF_Units len); TB (get_str a _HDF_Format len);
                         TB (get_str a _HDF_CoordSys len)])
    end
  | SdSetCal i data nt =>
    if negb w then (s, RUnspec) else
    match znth (s_vars c) i with
    | None => (s, RFail)
    | Some v =>
      let f k := firstn 8 (skipn (8 * k) data) in
      (with_cur s (set_var_attrs c i (spec_setcal (v_attrs v) (f 0%nat) (f 1%nat) (f 2%nat) (f 3%nat) nt)) true, ROk [])
    end
  | SdGetCal i =>
    match znth (s_vars c) i with
    | None => (s, RFail)
    | Some v =>
      match spec_getcal (v_attrs v) with
      | Some (d1, d2, d3, d4, d5) => (s, ROk [TB (fixed 8 d1 ++ fixed 8 d2 ++ fixed 8 d3 ++ fixed 8 d4); TI (le_int32 d5)])
      | None => (s, RFail)
      end
    end
  | SdSetRange i mx mn =>
    if negb w then (s, RUnspec) else
    match znth (s_vars c) i with
    | None => (s, RFail)
    | Some v => match nt_size (v_nt v) with
                | Some sz => (with_cur s (set_var_attrs c i (spec_setrange (v_attrs v) (v_nt v) sz mx mn)) true, ROk [])
                | None => (s, RUnspec)
                end
    end
  | SdGetRange i =>
    match znth (s_vars c) i with
    | None => (s, RFail)
    | Some v =>
      match nt_size (v_nt v), find_attr (v_attrs v) _HDF_ValidRange with
      | Some sz, Some a =>
        if (a_nt a =? v_nt v) && (a_count a =? 2)
        then match spec_getrange (v_attrs v) sz with Some (mx, mn) => (s, ROk [TB mx; TB mn]) | None => (s, RFail) end
        else (s, RUnspec)     (* a valid_range of a foreign type / count: outside the predefined getter's domain *)
      | Some _, None => (s, RSkip)    (* falls back to valid_max / valid_min (netCDF convention): not generated *)
      | None, _ => (s, RUnspec)
      end
    end
  | SdSetFill i val =>
    if negb w then (s, RUnspec) else
    match znth (s_vars c) i with
    | None => (s, RFail)
    | Some v => match nt_size (v_nt v) with
                | Some sz => (with_cur s (set_var_attrs c i (spec_setfill (v_attrs v) (v_nt v) sz val)) true, ROk [])
                | None => (s, RUnspec)
                end
    end
  | SdGetFill i =>
    match znth (s_vars c) i with
    | None => (s, RFail)
    | Some v =>
      match find_attr (v_attrs v) _FillValue with
      | Some a => if (a_nt a =? v_nt v) && (a_count a =? 1)
                  then match spec_getfill (v_attrs v) with Some d => (s, ROk [TB d]) | None => (s, RFail) end
                  else (s, RUnspec)
      | None => (s, RFail)
      end
    end
  | SdSetDimName i d name =>
    if negb w then (s, RUnspec) else
    if negb (dim_names_ok name) then (s, RUnspec) else
    match var_slot c i d, var_dim c i d with
    | Some sl, Some k =>
      match znth (s_dims c) k with
      | None => (s, RFail)
      | Some dm =>
        (* another dimension of that name? *)
        let other := find (fun p => match d_name (snd p) with Some n => beq n name && negb (fst p =? k) | None => false end)
                          (combine (map Z.of_nat (seq 0 (length (s_dims c)))) (s_dims c)) in
        match other with
        | Some (k2, dm2) =>
          if d_size dm2 =? d_size dm
          then (with_cur s (set_slots c (zset (s_slots c) sl k2)) true, ROk [])   (* share: the slot now denotes k2 *)
          else (s, RFail)
        | None =>
          (* rename; the coordinate variable (scale, attributes) follows the dimension *)
          let vars' := match coord_of c k with
                       | Some j => match znth (s_vars c) j with
                                   | Some v => zset (s_vars c) j (upd_var v (Some name) (v_nt v) (v_dims v) (v_attrs v) (v_scale v))
                                   | None => s_vars c
                                   end
                       | None => s_vars c
                       end in
          (with_cur s (set_dims (set_vars c vars') (zset (s_dims c) k (mkDim (Some name) (d_size dm)))) true, ROk [])
        end
      end
    | _, _ => (s, RFail)
    end
  | SdDimInfo i d =>
    match var_dim c i d with
    | None => (s, RFail)
    | Some k =>
      match znth (s_dims c) k with
      | None => (s, RFail)
      | Some dm =>
        let nm := match d_name dm with Some n => TB n | None => TQ end in
        match coord_of c k with
        | Some j => match znth (s_vars c) j with
                    | Some v => (s, ROk [nm; TI (d_size dm); TI (match v_scale v with Some _ => v_nt v | None => 0 end); TI (zlen (v_attrs v))])
                    | None => (s, RFail)
                    end
        | None => (s, ROk [nm; TI (d_size dm); TI 0; TI 0])
        end
      end
    end
  | SdSetDimScale i d count nt data =>
    if negb w then (s, RUnspec) else
    match var_slot c i d, var_dim c i d, nt_size nt, nc_type nt with
    | Some sl, Some k, Some sz, Some _ =>
      match znth (s_dims c) k with
      | None => (s, RFail)
      | Some dm =>
        if negb (count =? d_size dm) then (s, RFail) else
        if negb ((zlen data =? count * sz) && (Z.land nt DFNT_NATIVE =? 0)) then (s, RUnspec) else
        let '(c', j) := ensure_coord c sl k nt in
        match znth (s_vars c') j with
        | Some v => (with_cur s (set_vars c' (zset (s_vars c') j (upd_var v (v_name v) nt (v_dims v) (v_attrs v) (Some data)))) true, ROk [])
        | None => (s, RFail)
        end
      end
    | None, _, _, _ | _, None, _, _ => (s, RFail)
    | _, _, _, _ => (s, RUnspec)
    end
  | SdGetDimScale i d =>
    match var_slot c i d, var_dim c i d with
    | Some sl, Some k =>
      let '(c', j) := ensure_coord c sl k 0 in
      match znth (s_vars c') j with
      | Some v => match v_scale v with
                  | Some dt => (with_cur s c' true, ROk [TI (v_nt v); TB dt])
                  | None => (s, RUnspec)      (* values of a scale never set: unspecified, as is what SDdiminfo says afterwards *)
                  end
      | None => (s, RFail)
      end
    | _, _ => (s, RFail)
    end
  | SdSetDimStrs i d l u f =>
    if negb w then (s, RUnspec) else
    match var_slot c i d, var_dim c i d with
    | Some sl, Some k =>
      let '(c', j) := ensure_coord c sl k 0 in
      match znth (s_vars c') j with
      | Some v => (with_cur s (set_var_attrs c' j (spec_setstrs (v_attrs v) l u f None)) true, ROk [])
      | None => (s, RFail)
      end
    | _, _ => (s, RFail)
    end
  | SdGetDimStrs i d len =>
    match var_dim c i d with
    | None => (s, RFail)
    | Some k =>
      let a := match coord_of c k with
               | Some j => match znth (s_vars c) j with Some v => v_attrs v | None => [] end
               | None => []
               end in
      (s, ROk [TB (get_str a _HDF_LongName len); TB (get_str a _HDF_Units len); TB (get_str a _HDF_Format len)])
    end
  | SdLookup =>
    let vs := s_vars c in
    let first_named (n : bytes) :=
        (fix go (l : list var) (i : Z) : Z :=
           match l with
           | [] => -1
           | v :: r => match v_name v with Some m => if beq m n then i else go r (i + 1) | None => go r (i + 1) end
           end) vs 0 in
    let row (p : Z * var) : list tok :=
        let '(j, v) := p in
        (match v_name v with Some n => [TB n; TI (first_named n)] | None => [TQ; TQ] end)
        ++ [TI 1; TI j; TI (match v_kind v with KCoord => 1 | KSds => 0 end); TI (zlen (v_dims v)); TI (v_nt v); TI (zlen (v_attrs v))] in
    (s, ROk (TI (zlen vs) :: flat_map row (combine (map Z.of_nat (seq 0 (length vs))) vs) ++ [TI 1]))
  | _ => (s, RUnspec)
  end.

(* ---- H-level file: GR, Vdata, Vgroup ------------------------------------------------------------------- *)
Definition with_h (s : state) (h : hcore) : state :=
  mkSt (sd_cur s) (sd_saved s) (sd_mode s) (sd_dirty s) h (h_mode s) (sd_exists s) (h_exists s).

Fixpoint assoc_attrs (t : list (Z * list attr)) (k : Z) : list attr :=
  match t with [] => [] | (a, b) :: r => if a =? k then b else assoc_attrs r k end.
Fixpoint assoc_put (t : list (Z * list attr)) (k : Z) (l : list attr) : list (Z * list attr) :=
  match t with
  | [] => [(k, l)]
  | (a, b) :: r => if a =? k then (a, l) :: r else (a, b) :: assoc_put r k l
  end.
Definition total_attrs (t : list (Z * list attr)) : Z := fold_right (fun p acc => zlen (snd p) + acc) 0 t.

Definition no_comma (n : bytes) : bool := forallb (fun x => negb (x =? 44)) n.

Definition gr_list (h : hcore) (o : option Z) : option (list attr) :=
  match o with
  | None => Some (h_gattrs h)
  | Some i => match znth (h_imgs h) i with Some p => Some (snd p) | None => None end
  end.
Definition gr_put (h : hcore) (o : option Z) (l : list attr) : hcore :=
  match o with
  | None => mkH l (h_imgs h) (h_vds h) (h_vgs h)
  | Some i => match znth (h_imgs h) i with
              | Some p => mkH (h_gattrs h) (zset (h_imgs h) i (fst p, l)) (h_vds h) (h_vgs h)
              | None => h
              end
  end.

Definition field_ok (v : vdata) (fi : Z) : bool := (fi =? _HDF_VDATA) || ((0 <=? fi) && (fi <? vd_nf v)).

Definition h_step (s : state) (o : op) : state * res :=
  let h := h_cur s in
  let w := writable (h_mode s) in
  match o with
  | HStart m =>
    match h_mode s with
    | Some _ => (s, RUnspec)
    | None => match m with
              | MCreate => (mkSt (sd_cur s) (sd_saved s) (sd_mode s) (sd_dirty s) (mkH [] [] [] []) (Some m) (sd_exists s) true, ROk [])
              | _ => if h_exists s
                     then (mkSt (sd_cur s) (sd_saved s) (sd_mode s) (sd_dirty s) h (Some m) (sd_exists s) true, ROk [])
                     else (s, RUnspec)
              end
    end
  | HEnd =>
    match h_mode s with
    | None => (s, RUnspec)
    | Some _ => (mkSt (sd_cur s) (sd_saved s) (sd_mode s) (sd_dirty s) h None (sd_exists s) (h_exists s), ROk [])
    end
  | GrCreate name ncomp nt x y =>
    if negb w then (s, RUnspec) else
    if (1 <=? zlen name) && (zlen name <=? 60) && no_comma name
    then (with_h s (mkH (h_gattrs h) (h_imgs h ++ [(name, [])]) (h_vds h) (h_vgs h)), ROk [TI (zlen (h_imgs h))])
    else (s, RUnspec)
  | GrSetAttr ob name nt count data =>
    if negb w then (s, RUnspec) else
    if negb ((1 <=? zlen name) && (zlen name <=? FIELDNAMELENMAX) && no_comma name) then (s, RUnspec) else
    match gr_list h ob with
    | None => (s, RFail)
    | Some l =>
      if negb (args_ok true nt count data) then (s, RFail) else
      match attr_set PSameType l (mkAttr name nt count data) with
      | Some l' => (with_h s (gr_put h ob l'), ROk [])
      | None => (s, RFail)
      end
    end
  | GrAttrs ob => match gr_list h ob with Some l => (s, attrs_res l) | None => (s, RFail) end
  | GrAttrInfo ob i => match gr_list h ob with Some l => (s, info_res l i) | None => (s, RFail) end
  | GrFindAttr ob n => match gr_list h ob with Some l => (s, find_res l n) | None => (s, RFail) end
  | GrLookup =>
    let im := h_imgs h in
    let first_named (n : bytes) :=
        (fix go (l : list (bytes * list attr)) (i : Z) : Z :=
           match l with [] => -1 | p :: r => if beq (fst p) n then i else go r (i + 1) end) im 0 in
    (s, ROk (TI (zlen im) :: flat_map (fun p => [TB (fst (snd p)); TI (first_named (fst (snd p))); TI (fst p); TI 1])
                                      (combine (map Z.of_nat (seq 0 (length im))) im)))
  | VsCreate name nf =>
    if negb w then (s, RUnspec) else
    if (1 <=? nf) && (nf <=? 6) && (1 <=? zlen name) && (zlen name <=? VSNAMELENMAX)
    then (with_h s (mkH (h_gattrs h) (h_imgs h) (h_vds h ++ [mkVd nf []]) (h_vgs h)), ROk [TI (zlen (h_vds h))])
    else (s, RUnspec)
  | VsSetAttr k fi name nt count data =>
    match znth (h_vds h) k with
    | None => (s, RFail)
    | Some v =>
      if negb w then (s, RFail) else
      if negb (field_ok v fi) then (s, RFail) else
      if negb ((1 <=? zlen name) && (zlen name <=? VSNAMELENMAX)) then (s, RUnspec) else
      if negb (args_ok true nt count data) then (s, RFail) else
      match attr_set PSameTypeCount (assoc_attrs (vd_attrs v) fi) (mkAttr name nt count data) with
      | Some l' => (with_h s (mkH (h_gattrs h) (h_imgs h) (zset (h_vds h) k (mkVd (vd_nf v) (assoc_put (vd_attrs v) fi l'))) (h_vgs h)), ROk [])
      | None => (s, RFail)
      end
    end
  | VsAttrs k fi =>
    match znth (h_vds h) k with
    | None => (s, RFail)
    | Some v => if field_ok v fi
                then (s, match attrs_res (assoc_attrs (vd_attrs v) fi) with ROk t => ROk (TI (total_attrs (vd_attrs v)) :: t) | r => r end)
                else (s, RUnspec)
    end
  | VsAttrInfo k fi i =>
    match znth (h_vds h) k with
    | None => (s, RFail)
    | Some v => if field_ok v fi then (s, info_res (assoc_attrs (vd_attrs v) fi) i) else (s, RFail)
    end
  | VsFindAttr k fi n =>
    match znth (h_vds h) k with
    | None => (s, RFail)
    | Some v => if field_ok v fi then (s, find_res (assoc_attrs (vd_attrs v) fi) n) else (s, RFail)
    end
  | VgCreate name =>
    if negb w then (s, RUnspec) else
    if (1 <=? zlen name) && (zlen name <=? 60)
    then (with_h s (mkH (h_gattrs h) (h_imgs h) (h_vds h) (h_vgs h ++ [[]])), ROk [TI (zlen (h_vgs h))])
    else (s, RUnspec)
  | VgSetAttr k name nt count data =>
    match znth (h_vgs h) k with
    | None => (s, RFail)
    | Some l =>
      if negb w then (s, RFail) else
      if negb ((1 <=? zlen name) && (zlen name <=? VSNAMELENMAX)) then (s, RUnspec) else
      if negb (args_ok true nt count data) then (s, RFail) else
      match attr_set PSameTypeCount l (mkAttr name nt count data) with
      | Some l' => (with_h s (mkH (h_gattrs h) (h_imgs h) (h_vds h) (zset (h_vgs h) k l')), ROk [])
      | None => (s, RFail)
      end
    end
  | VgAttrs k => match znth (h_vgs h) k with Some l => (s, attrs_res l) | None => (s, RFail) end
  | VgAttrInfo k i => match znth (h_vgs h) k with Some l => (s, info_res l i) | None => (s, RFail) end
  | VgFindAttr k n => match znth (h_vgs h) k with Some l => (s, find_res l n) | None => (s, RFail) end
  | _ => (s, RUnspec)
  end.

Definition is_h_op (o : op) : bool :=
  match o with
  | HStart _ | HEnd | GrCreate _ _ _ _ _ | GrSetAttr _ _ _ _ _ | GrAttrs _ | GrAttrInfo _ _ | GrFindAttr _ _ | GrLookup
  | VsCreate _ _ | VsSetAttr _ _ _ _ _ _ | VsAttrs _ _ | VsAttrInfo _ _ _ | VsFindAttr _ _ _
  | VgCreate _ | VgSetAttr _ _ _ _ _ | VgAttrs _ | VgAttrInfo _ _ | VgFindAttr _ _ => true
  | _ => false
  end.

(** the oracle.  Operations on a closed interface are outside the domain. *)
Definition step (s : state) (o : op) : state * res :=
  if is_h_op o
  then match o, h_mode s with
       | HStart _, _ => h_step s o
       | _, None => (s, RUnspec)
       | _, Some _ => h_step s o
       end
  else match o, sd_mode s with
       | SdStart _, _ => sd_step s o
       | _, None => (s, RUnspec)
       | _, Some _ => sd_step s o
       end.
