(** C10 -- specification S: attributes and descriptive metadata are returned exactly as last set.

    Part 1 (read this first): an attributable object carries an ORDERED LIST of attributes
    (name, number type, count, bytes).  [attr_set] replaces in place (index kept, everything else intact) or
    appends; an interface that forbids a change of type / count refuses and keeps the old value.
    Part 2: the objects of one SD file (global list, variables, dimensions with their coordinate variable) and of
    one H-level file (GR file + images, Vdatas with per-field lists, Vgroups), and [step], the oracle the C library
    is compared with operation by operation.  Results outside the property's domain are [RUnspec] (nothing later in
    that history is compared) or [RSkip] (this result is not compared, the state effect is defined). *)
From Coq Require Import ZArith List Bool.
Require Import H4.gen.Gen_Attr.
Import ListNotations.
Local Open Scope Z_scope.

(* ------------------------------------------------------------------------------------------------------- *)
(** * Part 1: one attribute list *)

Definition bytes := list Z.

Fixpoint beq (a b : bytes) : bool :=
  match a, b with
  | [], [] => true
  | x :: a', y :: b' => Z.eqb x y && beq a' b'
  | _, _ => false
  end.

Record attr := mkAttr { a_name : bytes; a_nt : Z; a_count : Z; a_data : bytes }.

(** what a re-set of an existing name may change *)
Inductive policy := PAny (* SD *) | PSameType (* GR: count may change *) | PSameTypeCount (* Vdata, Vgroup *).

Definition compatible (p : policy) (old new : attr) : bool :=
  match p with
  | PAny => true
  | PSameType => Z.eqb (a_nt old) (a_nt new)
  | PSameTypeCount => Z.eqb (a_nt old) (a_nt new) && Z.eqb (a_count old) (a_count new)
  end.

(** set: replace the first attribute of that name in place, or append; [None] = refused, list unchanged *)
Fixpoint attr_set (p : policy) (l : list attr) (a : attr) : option (list attr) :=
  match l with
  | [] => Some [a]
  | x :: r => if beq (a_name x) (a_name a)
              then (if compatible p x a then Some (a :: r) else None)
              else option_map (cons x) (attr_set p r a)
  end.

Fixpoint attr_find_from (l : list attr) (n : bytes) (i : Z) : option Z :=
  match l with
  | [] => None
  | x :: r => if beq (a_name x) n then Some i else attr_find_from r n (i + 1)
  end.
(** index of the first attribute with that name *)
Definition attr_find (l : list attr) (n : bytes) : option Z := attr_find_from l n 0.

(** attribute by index *)
Definition attr_get (l : list attr) (i : Z) : option attr :=
  if i <? 0 then None else nth_error l (Z.to_nat i).

Definition zlen {A} (l : list A) : Z := Z.of_nat (length l).

(* ------------------------------------------------------------------------------------------------------- *)
(** * Number types (tables regenerated from dfconv.c / cdf.c) *)

Fixpoint assocZ (t : list (Z * Z)) (k : Z) : option Z :=
  match t with [] => None | (a, b) :: r => if Z.eqb a k then Some b else assocZ r k end.

(** DFKNTsize: masks the little-endian bit *)
Definition nt_size (nt : Z) : option Z := assocZ DFKNTsize_switch (Z.land nt (Z.lnot DFNT_LITEND)).
(** hdf_unmap_type: the netCDF class of an HDF number type (low byte) *)
Definition nc_type (nt : Z) : option Z := assocZ hdf_unmap_type_switch (Z.land nt 255).

(** the number types a dataset or a dimension scale may have: the HDF types and their little-endian variants *)
Definition nt_plain (nt : Z) : bool :=
  existsb (fun p => (nt =? fst p) || (nt =? fst p + DFNT_LITEND)) hdf_unmap_type_switch.

(** arguments every attribute interface insists on (SDsetattr also refuses native number types) *)
Definition args_ok (native_ok : bool) (nt count : Z) (data : bytes) : bool :=
  match nt_size nt, nc_type nt with
  | Some sz, Some _ => (native_ok || (Z.land nt DFNT_NATIVE =? 0)) && (1 <=? count) && (count <=? MAX_ORDER)
                       && (count * sz <=? MAX_FIELD_SIZE) && (zlen data =? count * sz)
  | _, _ => false
  end.

(* ------------------------------------------------------------------------------------------------------- *)
(** * Part 2: objects, operations, oracle *)

Inductive tok := TI (z : Z) | TB (b : bytes) | TQ (* unspecified token: compares equal to anything *).
Inductive res := ROk (t : list tok) | RFail | RUnspec | RSkip.

Inductive mode := MCreate | MWrite | MRead.
Inductive obj := OFile | OVar (i : Z) | ODim (i d : Z).

Inductive vkind := KSds | KCoord.
(** the name of a dimension or variable: given by the caller, or chosen by the library for an unnamed dimension
    ("fakeDim<n>"; callers' names never start with "fakeDim": [dim_names_ok]).  Library-chosen names are not compared. *)
Inductive dname := DUser (b : bytes) | DFake (n : nat).
Definition dname_eqb (a b : dname) : bool :=
  match a, b with DUser x, DUser y => beq x y | DFake m, DFake n => Nat.eqb m n | _, _ => false end.
(** a variable: dataset or coordinate variable.
    [v_dims]: the slots of its dimensions in the file's dimension table ([s_slots]: slot -> dimension; SDsetdimname
    with a name in use makes a slot denote the existing dimension).  [v_scale]: values of a coordinate variable once
    set.  [v_cobj]: the dimension a coordinate variable was made for.  [v_ref]: its reference token. *)
Definition name_tok (n : dname) : tok := match n with DUser b => TB b | DFake _ => TQ end.
Record var := mkVar { v_name : dname; v_kind : vkind; v_nt : Z; v_dims : list nat;
                      v_attrs : list attr; v_scale : option bytes; v_cobj : option nat; v_ref : Z }.
Record dimo := mkDim { d_name : dname; d_size : Z }.
Record sdcore := mkSd { s_gattrs : list attr; s_vars : list var; s_dims : list dimo; s_slots : list nat }.

Record vdata := mkVd { vd_nf : Z; vd_attrs : list (Z * list attr) (* field index -> list *) }.
Record hcore := mkH { h_gattrs : list attr; h_imgs : list (bytes * list attr); h_vds : list vdata;
                      h_vgs : list (list attr) }.

Record state := mkSt { sd_cur : sdcore; sd_saved : sdcore; sd_mode : option mode; sd_dirty : bool;
                       h_cur : hcore; h_mode : option mode; sd_exists : bool; h_exists : bool }.

Definition sd0 := mkSd [] [] [] [].
Definition init := mkSt sd0 sd0 None false (mkH [] [] [] []) None false false.

Inductive op :=
| SdStart (m : mode) | SdEnd
| SdCreate (name : bytes) (nt rank : Z) (dims : list Z)
| SdSetAttr (o : obj) (name : bytes) (nt count : Z) (data : bytes)
| SdAttrs (o : obj) | SdAttrInfo (o : obj) (i : Z) | SdFindAttr (o : obj) (name : bytes)
| SdSetDataStrs (i : Z) (l u f c : option bytes) | SdGetDataStrs (i len : Z)
| SdSetCal (i : Z) (data : bytes) (nt : Z) | SdGetCal (i : Z)
| SdSetRange (i : Z) (mx mn : bytes) | SdGetRange (i : Z)
| SdSetFill (i : Z) (v : bytes) | SdGetFill (i : Z)
| SdSetDimName (i d : Z) (name : bytes) | SdDimInfo (i d : Z)
| SdSetDimScale (i d count nt : Z) (data : bytes) | SdGetDimScale (i d : Z)
| SdSetDimStrs (i d : Z) (l u f : option bytes) | SdGetDimStrs (i d len : Z)
| SdLookup
| HStart (m : mode) | HEnd
| GrCreate (name : bytes) (ncomp nt x y : Z)
| GrSetAttr (o : option Z) (name : bytes) (nt count : Z) (data : bytes)
| GrAttrs (o : option Z) | GrAttrInfo (o : option Z) (i : Z) | GrFindAttr (o : option Z) (name : bytes) | GrLookup
| VsCreate (name : bytes) (nf : Z)
| VsSetAttr (k fi : Z) (name : bytes) (nt count : Z) (data : bytes)
| VsAttrs (k fi : Z) | VsAttrInfo (k fi i : Z) | VsFindAttr (k fi : Z) (name : bytes)
| VgCreate (name : bytes)
| VgSetAttr (k : Z) (name : bytes) (nt count : Z) (data : bytes)
| VgAttrs (k : Z) | VgAttrInfo (k i : Z) | VgFindAttr (k : Z) (name : bytes)
| HRead (o : op).   (* the same Vdata / Vgroup call on an object attached for reading (Vattach / VSattach "r") *)

(* ---- small list helpers ---------------------------------------------------------------------------- *)
Definition znth {A} (l : list A) (i : Z) : option A := if i <? 0 then None else nth_error l (Z.to_nat i).
Fixpoint zupd {A} (l : list A) (i : nat) (x : A) : list A :=
  match l, i with
  | [], _ => []
  | _ :: r, O => x :: r
  | y :: r, S j => y :: zupd r j x
  end.
Definition zset {A} (l : list A) (i : Z) (x : A) : list A := zupd l (Z.to_nat i) x.

Definition has_prefix (p l : bytes) : bool := beq p (firstn (length p) l).
Definition fake_prefix : bytes := FAKE_PREFIX.   (* "fakeDim", from hdf_write_dim *)
Fixpoint cstr (l : bytes) : bytes := match l with [] => [] | x :: r => if x =? 0 then [] else x :: cstr r end.
Fixpoint zeros (n : nat) : bytes := match n with O => [] | S k => 0 :: zeros k end.
(** first [n] bytes of a value copied into a zeroed buffer *)
Definition fixed (n : Z) (d : bytes) : bytes := firstn (Z.to_nat n) (d ++ zeros (Z.to_nat n)).
Fixpoint le_unsigned (l : bytes) : Z := match l with [] => 0 | x :: r => x + 256 * le_unsigned r end.
Definition le_int32 (l : bytes) : Z := let u := le_unsigned (fixed 4 l) in if u <? 2147483648 then u else u - 4294967296.

(** the listing printed by the "attrs" observers: per index  name nt count data index-found-by-name *)
Fixpoint listing (all l : list attr) : list tok :=
  match l with
  | [] => []
  | a :: r => TB (a_name a) :: TI (a_nt a) :: TI (a_count a) :: TB (a_data a)
              :: (match attr_find all (a_name a) with Some i => TI i | None => TI (-1) end) :: listing all r
  end.
Definition attrs_res (l : list attr) : res := ROk (TI (zlen l) :: listing l l).
Definition info_res (l : list attr) (i : Z) : res :=
  match attr_get l i with
  | Some a => ROk [TB (a_name a); TI (a_nt a); TI (a_count a); TB (a_data a)]
  | None => RFail
  end.
Definition find_res (l : list attr) (n : bytes) : res :=
  match attr_find l n with Some i => ROk [TI i] | None => RFail end.

(* ---- SD ------------------------------------------------------------------------------------------------ *)
Definition writable (m : option mode) : bool := match m with Some MCreate | Some MWrite => true | _ => false end.

Fixpoint first_idx {A} (f : A -> bool) (l : list A) : option nat :=
  match l with [] => None | x :: r => if f x then Some O else option_map S (first_idx f r) end.

Definition set_vars (c : sdcore) (vs : list var) : sdcore := mkSd (s_gattrs c) vs (s_dims c) (s_slots c).
Definition set_dims (c : sdcore) (ds : list dimo) : sdcore := mkSd (s_gattrs c) (s_vars c) ds (s_slots c).
Definition set_slots (c : sdcore) (sl : list nat) : sdcore := mkSd (s_gattrs c) (s_vars c) (s_dims c) sl.
Definition set_gattrs (c : sdcore) (l : list attr) : sdcore := mkSd l (s_vars c) (s_dims c) (s_slots c).

(** dimension [d] of variable [i]: its slot in the file's dimension table and the dimension that slot denotes *)
Definition var_slot (c : sdcore) (i d : Z) : option nat :=
  match znth (s_vars c) i with Some v => znth (v_dims v) d | None => None end.
Definition slot_dim (c : sdcore) (sl : nat) : option nat := nth_error (s_slots c) sl.

(** The two places where the C code and the specification are written differently, as parameters of the oracle:
    [hk_coord c k]  = the coordinate variable of dimension [k];
    [hk_persist c]  = what a later SDstart finds after SDend has written the metadata of [c]. *)
Record hooks := mkHooks { hk_coord : sdcore -> nat -> option nat; hk_persist : sdcore -> sdcore }.

(** specification: the first coordinate variable made for that dimension *)
Definition is_coord_of (k : nat) (v : var) : bool :=
  match v_kind v, v_cobj v with KCoord, Some k' => Nat.eqb k' k | _, _ => false end.
Definition coord_of (c : sdcore) (k : nat) : option nat := first_idx (is_coord_of k) (s_vars c).

(** specification: the file keeps the dimensions in use (in the order of their first slot), every variable refers
    to them directly, a coordinate variable whose dimension is no longer in use belongs to no dimension *)
Fixpoint keep_first (l seen : list nat) : list nat :=
  match l with
  | [] => []
  | x :: r => if existsb (Nat.eqb x) seen then keep_first r seen else x :: keep_first r (x :: seen)
  end.
Definition live_list (c : sdcore) : list nat := keep_first (s_slots c) [].
Definition index_of (k : nat) (l : list nat) : option nat := first_idx (Nat.eqb k) l.
Definition dim0 := mkDim (DFake 0) 0.
Definition normalize (c : sdcore) : sdcore :=
  let live := live_list c in
  let res (sl : nat) := match slot_dim c sl with
                        | Some k => match index_of k live with Some j => j | None => O end
                        | None => O
                        end in
  mkSd (s_gattrs c)
       (map (fun v => mkVar (v_name v) (v_kind v) (v_nt v) (map res (v_dims v)) (v_attrs v) (v_scale v)
                            (match v_cobj v with Some k => index_of k live | None => None end) (v_ref v)) (s_vars c))
       (map (fun k => nth k (s_dims c) dim0) live)
       (seq 0 (length live)).
Definition spec_hooks := mkHooks coord_of normalize.

(** get the coordinate variable of dimension [k] (reached through slot [sl]), creating it (float32 unless [nt]
    given) when missing *)
Definition ensure_coord (hk : hooks) (c : sdcore) (sl k : nat) (nt : Z) : sdcore * nat :=
  match hk_coord hk c k with
  | Some i => (c, i)
  | None =>
    let nm := match nth_error (s_dims c) k with Some dm => d_name dm | None => DFake 0 end in
    (set_vars c (s_vars c ++ [mkVar nm KCoord (if nt =? 0 then DFNT_FLOAT32 else nt) [sl] [] None (Some k) (zlen (s_vars c))]),
     length (s_vars c))
  end.

Definition upd_var (v : var) (nm : dname) (nt : Z) (l : list attr) (sc : option bytes) : var :=
  mkVar nm (v_kind v) nt (v_dims v) l sc (v_cobj v) (v_ref v).
Definition set_var_attrs (c : sdcore) (i : nat) (l : list attr) : sdcore :=
  match nth_error (s_vars c) i with
  | Some v => set_vars c (zupd (s_vars c) i (upd_var v (v_name v) (v_nt v) l (v_scale v)))
  | None => c
  end.

(** resolve an object to (state after a possible coordinate-variable creation, where its list lives, the list) *)
Inductive where_ := WFile | WVar (i : nat).
Definition resolve (hk : hooks) (c : sdcore) (o : obj) (create : bool) : option (sdcore * where_ * list attr) :=
  match o with
  | OFile => Some (c, WFile, s_gattrs c)
  | OVar i => match znth (s_vars c) i with Some v => Some (c, WVar (Z.to_nat i), v_attrs v) | None => None end
  | ODim i d =>
    match var_slot c i d with
    | Some sl =>
      match slot_dim c sl with
      | Some k =>
        if create then
          let '(c', j) := ensure_coord hk c sl k 0 in
          match nth_error (s_vars c') j with Some v => Some (c', WVar j, v_attrs v) | None => None end
        else match hk_coord hk c k with
             | Some j => match nth_error (s_vars c) j with Some v => Some (c, WVar j, v_attrs v) | None => None end
             | None => Some (c, WFile, [])       (* no coordinate variable: empty list, never written to *)
             end
      | None => None
      end
    | None => None
    end
  end.
Definition put_attrs (c : sdcore) (w : where_) (l : list attr) : sdcore :=
  match w with WFile => set_gattrs c l | WVar i => set_var_attrs c i l end.

Definition with_cur (s : state) (c : sdcore) (dirty : bool) : state :=
  mkSt c (sd_saved s) (sd_mode s) (sd_dirty s || dirty) (h_cur s) (h_mode s) (sd_exists s) (h_exists s).

(* ---- the predefined metadata, as functions on one attribute list ----------------------------------------- *)
(** set several attributes one after the other (SDIputattr, policy PAny never refuses) *)
Fixpoint put_all (l : list attr) (news : list attr) : list attr :=
  match news with
  | [] => l
  | a :: r => put_all (match attr_set PAny l a with Some l' => l' | None => l end) r
  end.
Definition find_attr (l : list attr) (name : bytes) : option attr :=
  match attr_find l name with Some i => attr_get l i | None => None end.

Definition str_attr (name : bytes) (s : option bytes) : list attr :=
  match s with
  | Some (x :: r) => [mkAttr name DFNT_CHAR (zlen (x :: r)) (x :: r)]
  | _ => []
  end.
(** SDsetdatastrs / SDsetdimstrs: NULL and empty strings are skipped *)
Definition spec_setstrs (l : list attr) (lab u f cs : option bytes) : list attr :=
  put_all l (str_attr _HDF_LongName lab ++ str_attr _HDF_Units u ++ str_attr _HDF_Format f ++ str_attr _HDF_CoordSys cs).
(** SDgetdatastrs / SDgetdimstrs: at most [len] bytes of the attribute, as a C string *)
Definition get_str (l : list attr) (name : bytes) (len : Z) : bytes :=
  match find_attr l name with
  | Some a => cstr (firstn (Z.to_nat (Z.min (a_count a) len)) (a_data a))
  | None => []
  end.

Definition int32_bytes (v : Z) : bytes :=
  [Z.land v 255; Z.land (Z.shiftr v 8) 255; Z.land (Z.shiftr v 16) 255; Z.land (Z.shiftr v 24) 255].
(** SDsetcal: four float64 (given as 8 bytes each) and the int32 number type *)
Definition cal_attrs (cal cale ioff ioffe : bytes) (nt : Z) : list attr :=
  [mkAttr _HDF_ScaleFactor DFNT_FLOAT64 1 cal; mkAttr _HDF_ScaleFactorErr DFNT_FLOAT64 1 cale;
   mkAttr _HDF_AddOffset DFNT_FLOAT64 1 ioff; mkAttr _HDF_AddOffsetErr DFNT_FLOAT64 1 ioffe;
   mkAttr _HDF_CalibratedNt DFNT_INT32 1 (int32_bytes nt)].
Definition spec_setcal (l : list attr) (cal cale ioff ioffe : bytes) (nt : Z) : list attr :=
  put_all l (cal_attrs cal cale ioff ioffe nt).
(** SDgetcal: the five values (each copied whole into the caller's zeroed buffer), or failure *)
Definition spec_getcal (l : list attr) : option (bytes * bytes * bytes * bytes * bytes) :=
  match find_attr l _HDF_ScaleFactor, find_attr l _HDF_ScaleFactorErr, find_attr l _HDF_AddOffset,
        find_attr l _HDF_AddOffsetErr, find_attr l _HDF_CalibratedNt with
  | Some a1, Some a2, Some a3, Some a4, Some a5 => Some (a_data a1, a_data a2, a_data a3, a_data a4, a_data a5)
  | _, _, _, _, _ => None
  end.
(** SDsetrange / SDgetrange on a variable of number type [vnt] whose elements have [sz] bytes *)
Definition spec_setrange (l : list attr) (vnt sz : Z) (mx mn : bytes) : list attr :=
  put_all l [mkAttr _HDF_ValidRange vnt 2 (fixed sz mn ++ fixed sz mx)].
Definition spec_getrange (l : list attr) (sz : Z) : option (bytes * bytes) :=
  match find_attr l _HDF_ValidRange with
  | Some a => Some (firstn (Z.to_nat sz) (skipn (Z.to_nat sz) (a_data a)), firstn (Z.to_nat sz) (a_data a))
  | None => None
  end.
(** SDgetrange without a usable valid_range: the netCDF convention, two attributes valid_max and valid_min, both of
    the variable's number type; each value is copied whole into the caller's buffer; the maximum is returned first *)
Definition valid_max_name : bytes := [118; 97; 108; 105; 100; 95; 109; 97; 120].   (* "valid_max" *)
Definition valid_min_name : bytes := [118; 97; 108; 105; 100; 95; 109; 105; 110].   (* "valid_min" *)
Definition spec_getrange_fb (l : list attr) (vnt sz : Z) : option (bytes * bytes) :=
  match find_attr l valid_max_name, find_attr l valid_min_name with
  | Some a1, Some a2 => if (a_nt a1 =? vnt) && (a_nt a2 =? vnt) then Some (fixed sz (a_data a1), fixed sz (a_data a2)) else None
  | _, _ => None
  end.
Definition opt_eqb (a b : option Z) : bool := match a, b with Some x, Some y => x =? y | None, None => true | _, _ => false end.
Definition spec_setfill (l : list attr) (vnt sz : Z) (v : bytes) : list attr :=
  put_all l [mkAttr _FillValue vnt 1 (fixed sz v)].
Definition spec_getfill (l : list attr) : option bytes := option_map a_data (find_attr l _FillValue).

Definition dim_names_ok (n : bytes) : bool := negb (has_prefix fake_prefix n) && (1 <=? zlen n) && (zlen n <=? 60).

(** a dimension other than [k], in use, that carries the name [n] (SDsetdimname walks the dimension table) *)
Definition dim_in_use (c : sdcore) (n : dname) (k : nat) : option nat :=
  find (fun k2 => negb (Nat.eqb k2 k) && match nth_error (s_dims c) k2 with Some dm => dname_eqb (d_name dm) n | None => false end)
       (s_slots c).

(** SDcreate: [rank] new unnamed dimensions ("fakeDim<slot number>"), one new slot each, one new dataset *)
Definition sd_create (c : sdcore) (name : bytes) (nt : Z) (dims : list Z) : sdcore :=
  let ns := length (s_slots c) in
  let nd := length (s_dims c) in
  let idx := seq 0 (length dims) in
  mkSd (s_gattrs c)
       (s_vars c ++ [mkVar (DUser name) KSds nt (map (fun k => ns + k)%nat idx) [] None None (zlen (s_vars c))])
       (s_dims c ++ map (fun p => mkDim (DFake (ns + fst p)) (snd p)) (combine idx dims))
       (s_slots c ++ map (fun k => nd + k)%nat idx).

(** SDsetdimname, name not in use: rename; the coordinate variable (scale, attributes) follows the dimension *)
Definition sd_rename (hk : hooks) (c : sdcore) (k : nat) (dm : dimo) (name : bytes) : sdcore :=
  let vars' := match hk_coord hk c k with
               | Some j => match nth_error (s_vars c) j with
                           | Some v => zupd (s_vars c) j (upd_var v (DUser name) (v_nt v) (v_attrs v) (v_scale v))
                           | None => s_vars c
                           end
               | None => s_vars c
               end in
  set_dims (set_vars c vars') (zupd (s_dims c) k (mkDim (DUser name) (d_size dm))).

Definition sd_step_with (hk : hooks) (s : state) (o : op) : state * res :=
  let c := sd_cur s in
  let w := writable (sd_mode s) in
  match o with
  | SdStart m =>
    match sd_mode s with
    | Some _ => (s, RUnspec)
    | None => match m with
              | MCreate => (mkSt sd0 sd0 (Some m) false (h_cur s) (h_mode s) true (h_exists s), ROk [])
              | _ => if sd_exists s
                     then (mkSt (sd_saved s) (sd_saved s) (Some m) false (h_cur s) (h_mode s) true (h_exists s), ROk [])
                     else (s, RUnspec)
              end
    end
  | SdEnd =>
    match sd_mode s with
    | None => (s, RUnspec)
    | Some _ => let keep := if w && sd_dirty s then hk_persist hk c else sd_saved s in
                (mkSt keep keep None false (h_cur s) (h_mode s) (sd_exists s) (h_exists s), ROk [])
    end
  | SdCreate name nt rank dims =>
    if negb w then (s, RUnspec) else
    match nt_size nt, nc_type nt with
    | Some _, Some _ =>
      if nt_plain nt && (zlen dims =? rank) && (1 <=? rank) && (rank <=? 4)
         && (match dims with d0 :: r => (0 <=? d0) && forallb (fun x => 1 <=? x) r | [] => false end)   (* first may be unlimited (0) *)
         && dim_names_ok name && negb (match name with 32 :: _ => true | _ => false end)
      then (with_cur s (sd_create c name nt dims) true, ROk [TI (zlen (s_vars c))])
      else (s, RUnspec)
    | _, _ => (s, RUnspec)
    end
  | SdSetAttr ob name nt count data =>
    if negb w then (s, RUnspec) else
    if negb (args_ok false nt count data) then (s, RFail) else
    match resolve hk c ob true with
    | None => (s, RFail)
    | Some (c', wh, l) =>
      if H4_MAX_NC_NAME <? zlen name then (with_cur s c' false, RFail) else
      match attr_set PAny l (mkAttr name nt count data) with
      | Some l' => (with_cur s (put_attrs c' wh l') true, ROk [])
      | None => (with_cur s c' false, RFail)
      end
    end
  | SdAttrs ob =>
    match resolve hk c ob false with Some (_, _, l) => (s, attrs_res l) | None => (s, RFail) end
  | SdAttrInfo ob i =>
    match resolve hk c ob true with Some (c', _, l) => (with_cur s c' false, info_res l i) | None => (s, RFail) end
  | SdFindAttr ob n =>
    match resolve hk c ob true with Some (c', _, l) => (with_cur s c' false, find_res l n) | None => (s, RFail) end
  | SdSetDataStrs i l u f cs =>
    if negb w then (s, RUnspec) else
    match znth (s_vars c) i with
    | None => (s, RFail)
    | Some v => (with_cur s (set_var_attrs c (Z.to_nat i) (spec_setstrs (v_attrs v) l u f cs)) true, ROk [])
    end
  | SdGetDataStrs i len =>
    match znth (s_vars c) i with
    | None => (s, RFail)
    | Some v => let a := v_attrs v in
                (s, ROk [TB (get_str a _HDF_LongName len); TB (get_str a _HDF_Units len); TB (get_str a _HDF_Format len);
                         TB (get_str a _HDF_CoordSys len)])
    end
  | SdSetCal i data nt =>
    if negb w then (s, RUnspec) else
    match znth (s_vars c) i with
    | None => (s, RFail)
    | Some v =>
      let f k := firstn 8 (skipn (8 * k) data) in
      (with_cur s (set_var_attrs c (Z.to_nat i) (spec_setcal (v_attrs v) (f 0%nat) (f 1%nat) (f 2%nat) (f 3%nat) nt)) true, ROk [])
    end
  | SdGetCal i =>
    match znth (s_vars c) i with
    | None => (s, RFail)
    | Some v =>
      match spec_getcal (v_attrs v) with
      | Some (d1, d2, d3, d4, d5) => (s, ROk [TB (fixed 8 d1 ++ fixed 8 d2 ++ fixed 8 d3 ++ fixed 8 d4); TI (le_int32 d5)])
      | None => (s, RFail)
      end
    end
  | SdSetRange i mx mn =>
    if negb w then (s, RUnspec) else
    match znth (s_vars c) i with
    | None => (s, RFail)
    | Some v => match nt_size (v_nt v) with
                | Some sz => (with_cur s (set_var_attrs c (Z.to_nat i) (spec_setrange (v_attrs v) (v_nt v) sz mx mn)) true, ROk [])
                | None => (s, RUnspec)
                end
    end
  | SdGetRange i =>
    match znth (s_vars c) i with
    | None => (s, RFail)
    | Some v =>
      match nt_size (v_nt v) with
      | None => (s, RUnspec)
      | Some sz =>
        let fallback := match spec_getrange_fb (v_attrs v) (v_nt v) sz with
                        | Some (mx, mn) => (s, ROk [TB mx; TB mn])
                        | None => (s, RFail)
                        end in
        match find_attr (v_attrs v) _HDF_ValidRange with
        | Some a =>
          if opt_eqb (nc_type (a_nt a)) (nc_type (v_nt v))      (* "data->type == var->type": the netCDF type classes *)
          then (if 2 <=? a_count a
                then match spec_getrange (v_attrs v) sz with Some (mx, mn) => (s, ROk [TB mx; TB mn]) | None => (s, RFail) end
                else (s, RUnspec))                               (* a one-value valid_range: read past its end *)
          else fallback
        | None => fallback
        end
      end
    end
  | SdSetFill i val =>
    if negb w then (s, RUnspec) else
    match znth (s_vars c) i with
    | None => (s, RFail)
    | Some v => match nt_size (v_nt v) with
                | Some sz => (with_cur s (set_var_attrs c (Z.to_nat i) (spec_setfill (v_attrs v) (v_nt v) sz val)) true, ROk [])
                | None => (s, RUnspec)
                end
    end
  | SdGetFill i =>
    match znth (s_vars c) i with
    | None => (s, RFail)
    | Some v =>
      match find_attr (v_attrs v) _FillValue with
      | Some a => if (a_nt a =? v_nt v) && (a_count a =? 1)
                  then match spec_getfill (v_attrs v) with Some d => (s, ROk [TB d]) | None => (s, RFail) end
                  else (s, RUnspec)
      | None => (s, RFail)
      end
    end
  | SdSetDimName i d name =>
    if negb w then (s, RUnspec) else
    if negb (dim_names_ok name) then (s, RUnspec) else
    match var_slot c i d with
    | None => (s, RFail)
    | Some sl =>
      match slot_dim c sl with
      | None => (s, RFail)
      | Some k =>
        match nth_error (s_dims c) k with
        | None => (s, RFail)
        | Some dm =>
          match dim_in_use c (DUser name) k with
          | Some k2 =>
            match nth_error (s_dims c) k2 with
            | Some dm2 => if d_size dm2 =? d_size dm
                          then (with_cur s (set_slots c (zupd (s_slots c) sl k2)) true, ROk [])   (* share: the slot now denotes k2 *)
                          else (s, RFail)
            | None => (s, RFail)
            end
          | None => (with_cur s (sd_rename hk c k dm name) true, ROk [])
          end
        end
      end
    end
  | SdDimInfo i d =>
    match var_slot c i d with
    | None => (s, RFail)
    | Some sl =>
      match slot_dim c sl with
      | None => (s, RFail)
      | Some k =>
        match nth_error (s_dims c) k with
        | None => (s, RFail)
        | Some dm =>
          match hk_coord hk c k with
          | Some j => match nth_error (s_vars c) j with
                      | Some v => (s, ROk [name_tok (d_name dm); TI (d_size dm); TI (match v_scale v with Some _ => v_nt v | None => 0 end); TI (zlen (v_attrs v))])
                      | None => (s, RFail)
                      end
          | None => (s, ROk [name_tok (d_name dm); TI (d_size dm); TI 0; TI 0])
          end
        end
      end
    end
  | SdSetDimScale i d count nt data =>
    if negb w then (s, RUnspec) else
    match var_slot c i d with
    | None => (s, RFail)
    | Some sl =>
      match slot_dim c sl with
      | None => (s, RFail)
      | Some k =>
        match nt_size nt, nc_type nt, nth_error (s_dims c) k with
        | Some sz, Some _, Some dm =>
          if negb ((d_size dm =? 0) || (count =? d_size dm)) then (s, RFail) else      (* any count on an unlimited dimension *)
          if negb ((zlen data =? count * sz) && nt_plain nt && (1 <=? count)) then (s, RUnspec) else
          (* an unlimited dimension's scale only grows: re-set with the same type and at least as many values *)
          let regrow_ok := match hk_coord hk c k with
                           | Some j0 => match nth_error (s_vars c) j0 with
                                        | Some v0 => match v_scale v0 with
                                                     | Some old => (v_nt v0 =? nt) && (zlen old <=? zlen data)
                                                     | None => true
                                                     end
                                        | None => true
                                        end
                           | None => true
                           end in
          if (d_size dm =? 0) && negb regrow_ok then (s, RUnspec) else
          let '(c', j) := ensure_coord hk c sl k nt in
          match nth_error (s_vars c') j with
          | Some v => (with_cur s (set_vars c' (zupd (s_vars c') j (upd_var v (v_name v) nt (v_attrs v) (Some data)))) true, ROk [])
          | None => (s, RFail)
          end
        | _, _, None => (s, RFail)
        | _, _, _ => (s, RUnspec)
        end
      end
    end
  | SdGetDimScale i d =>
    match var_slot c i d with
    | None => (s, RFail)
    | Some sl =>
      match slot_dim c sl with
      | None => (s, RFail)
      | Some k =>
        let '(c', j) := ensure_coord hk c sl k 0 in
        match nth_error (s_vars c') j with
        | Some v => match v_scale v with
                    | Some dt => (with_cur s c' true, ROk [TI (v_nt v); TB dt])
                    | None => (s, RUnspec)      (* values of a scale never set: unspecified, as is what SDdiminfo says afterwards *)
                    end
        | None => (s, RFail)
        end
      end
    end
  | SdSetDimStrs i d l u f =>
    if negb w then (s, RUnspec) else
    match var_slot c i d with
    | None => (s, RFail)
    | Some sl =>
      match slot_dim c sl with
      | None => (s, RFail)
      | Some k =>
        let '(c', j) := ensure_coord hk c sl k 0 in
        match nth_error (s_vars c') j with
        | Some v => (with_cur s (set_var_attrs c' j (spec_setstrs (v_attrs v) l u f None)) true, ROk [])
        | None => (s, RFail)
        end
      end
    end
  | SdGetDimStrs i d len =>
    match var_slot c i d with
    | None => (s, RFail)
    | Some sl =>
      match slot_dim c sl with
      | None => (s, RFail)
      | Some k =>
        let a := match hk_coord hk c k with
                 | Some j => match nth_error (s_vars c) j with Some v => v_attrs v | None => [] end
                 | None => []
                 end in
        (s, ROk [TB (get_str a _HDF_LongName len); TB (get_str a _HDF_Units len); TB (get_str a _HDF_Format len)])
      end
    end
  | SdLookup =>
    let vs := s_vars c in
    let first_named (n : dname) := match first_idx (fun v => dname_eqb (v_name v) n) vs with Some i => Z.of_nat i | None => -1 end in
    let row (p : nat * var) : list tok :=
        let '(j, v) := p in
        (match v_name v with DUser n => [TB n; TI (first_named (DUser n))] | DFake _ => [TQ; TQ] end)
        ++ [TI 1; TI (Z.of_nat j); TI (match v_kind v with KCoord => 1 | KSds => 0 end); TI (zlen (v_dims v)); TI (v_nt v); TI (zlen (v_attrs v))] in
    (s, ROk (TI (zlen vs) :: flat_map row (combine (seq 0 (length vs)) vs) ++ [TI 1]))
  | _ => (s, RUnspec)
  end.
Definition sd_step := sd_step_with spec_hooks.

(* ---- H-level file: GR, Vdata, Vgroup ------------------------------------------------------------------- *)
Definition with_h (s : state) (h : hcore) : state :=
  mkSt (sd_cur s) (sd_saved s) (sd_mode s) (sd_dirty s) h (h_mode s) (sd_exists s) (h_exists s).

Fixpoint assoc_attrs (t : list (Z * list attr)) (k : Z) : list attr :=
  match t with [] => [] | (a, b) :: r => if a =? k then b else assoc_attrs r k end.
Fixpoint assoc_put (t : list (Z * list attr)) (k : Z) (l : list attr) : list (Z * list attr) :=
  match t with
  | [] => [(k, l)]
  | (a, b) :: r => if a =? k then (a, l) :: r else (a, b) :: assoc_put r k l
  end.
Definition total_attrs (t : list (Z * list attr)) : Z := fold_right (fun p acc => zlen (snd p) + acc) 0 t.

Definition no_comma (n : bytes) : bool := forallb (fun x => negb (x =? 44)) n.

Definition gr_list (h : hcore) (o : option Z) : option (list attr) :=
  match o with
  | None => Some (h_gattrs h)
  | Some i => match znth (h_imgs h) i with Some p => Some (snd p) | None => None end
  end.
Definition gr_put (h : hcore) (o : option Z) (l : list attr) : hcore :=
  match o with
  | None => mkH l (h_imgs h) (h_vds h) (h_vgs h)
  | Some i => match znth (h_imgs h) i with
              | Some p => mkH (h_gattrs h) (zset (h_imgs h) i (fst p, l)) (h_vds h) (h_vgs h)
              | None => h
              end
  end.

Definition field_ok (v : vdata) (fi : Z) : bool := (fi =? _HDF_VDATA) || ((0 <=? fi) && (fi <? vd_nf v)).

Definition h_step_plain (s : state) (o : op) : state * res :=
  let h := h_cur s in
  let w := writable (h_mode s) in
  match o with
  | HStart m =>
    match h_mode s with
    | Some _ => (s, RUnspec)
    | None => match m with
              | MCreate => (mkSt (sd_cur s) (sd_saved s) (sd_mode s) (sd_dirty s) (mkH [] [] [] []) (Some m) (sd_exists s) true, ROk [])
              | _ => if h_exists s
                     then (mkSt (sd_cur s) (sd_saved s) (sd_mode s) (sd_dirty s) h (Some m) (sd_exists s) true, ROk [])
                     else (s, RUnspec)
              end
    end
  | HEnd =>
    match h_mode s with
    | None => (s, RUnspec)
    | Some _ => (mkSt (sd_cur s) (sd_saved s) (sd_mode s) (sd_dirty s) h None (sd_exists s) (h_exists s), ROk [])
    end
  | GrCreate name ncomp nt x y =>
    if negb w then (s, RUnspec) else
    if (1 <=? zlen name) && (zlen name <=? 60) && no_comma name
    then (with_h s (mkH (h_gattrs h) (h_imgs h ++ [(name, [])]) (h_vds h) (h_vgs h)), ROk [TI (zlen (h_imgs h))])
    else (s, RUnspec)
  | GrSetAttr ob name nt count data =>
    if negb w then (s, RUnspec) else
    if negb ((1 <=? zlen name) && (zlen name <=? FIELDNAMELENMAX) && no_comma name) then (s, RUnspec) else
    match gr_list h ob with
    | None => (s, RFail)
    | Some l =>
      if negb (args_ok true nt count data) then (s, RFail) else
      match attr_set PSameType l (mkAttr name nt count data) with
      | Some l' => (with_h s (gr_put h ob l'), ROk [])
      | None => (s, RFail)
      end
    end
  | GrAttrs ob => match gr_list h ob with Some l => (s, attrs_res l) | None => (s, RFail) end
  | GrAttrInfo ob i => match gr_list h ob with Some l => (s, info_res l i) | None => (s, RFail) end
  | GrFindAttr ob n => match gr_list h ob with Some l => (s, find_res l n) | None => (s, RFail) end
  | GrLookup =>
    let im := h_imgs h in
    let first_named (n : bytes) :=
        (fix go (l : list (bytes * list attr)) (i : Z) : Z :=
           match l with [] => -1 | p :: r => if beq (fst p) n then i else go r (i + 1) end) im 0 in
    (s, ROk (TI (zlen im) :: flat_map (fun p => [TB (fst (snd p)); TI (first_named (fst (snd p))); TI (fst p); TI 1])
                                      (combine (map Z.of_nat (seq 0 (length im))) im)))
  | VsCreate name nf =>
    if negb w then (s, RUnspec) else
    if (1 <=? nf) && (nf <=? 6) && (1 <=? zlen name) && (zlen name <=? VSNAMELENMAX)
    then (with_h s (mkH (h_gattrs h) (h_imgs h) (h_vds h ++ [mkVd nf []]) (h_vgs h)), ROk [TI (zlen (h_vds h))])
    else (s, RUnspec)
  | VsSetAttr k fi name nt count data =>
    match znth (h_vds h) k with
    | None => (s, RFail)
    | Some v =>
      if negb w then (s, RFail) else
      if negb (field_ok v fi) then (s, RFail) else
      if negb ((1 <=? zlen name) && (zlen name <=? VSNAMELENMAX)) then (s, RUnspec) else
      if negb (args_ok true nt count data) then (s, RFail) else
      match attr_set PSameTypeCount (assoc_attrs (vd_attrs v) fi) (mkAttr name nt count data) with
      | Some l' => (with_h s (mkH (h_gattrs h) (h_imgs h) (zset (h_vds h) k (mkVd (vd_nf v) (assoc_put (vd_attrs v) fi l'))) (h_vgs h)), ROk [])
      | None => (s, RFail)
      end
    end
  | VsAttrs k fi =>
    match znth (h_vds h) k with
    | None => (s, RFail)
    | Some v => if field_ok v fi
                then (s, match attrs_res (assoc_attrs (vd_attrs v) fi) with ROk t => ROk (TI (total_attrs (vd_attrs v)) :: t) | r => r end)
                else (s, RUnspec)
    end
  | VsAttrInfo k fi i =>
    match znth (h_vds h) k with
    | None => (s, RFail)
    | Some v => if field_ok v fi then (s, info_res (assoc_attrs (vd_attrs v) fi) i) else (s, RFail)
    end
  | VsFindAttr k fi n =>
    match znth (h_vds h) k with
    | None => (s, RFail)
    | Some v => if field_ok v fi then (s, find_res (assoc_attrs (vd_attrs v) fi) n) else (s, RFail)
    end
  | VgCreate name =>
    if negb w then (s, RUnspec) else
    if (1 <=? zlen name) && (zlen name <=? 60)
    then (with_h s (mkH (h_gattrs h) (h_imgs h) (h_vds h) (h_vgs h ++ [[]])), ROk [TI (zlen (h_vgs h))])
    else (s, RUnspec)
  | VgSetAttr k name nt count data =>
    match znth (h_vgs h) k with
    | None => (s, RFail)
    | Some l =>
      if negb w then (s, RFail) else
      if negb ((1 <=? zlen name) && (zlen name <=? VSNAMELENMAX)) then (s, RUnspec) else
      if negb (args_ok true nt count data) then (s, RFail) else
      match attr_set PSameTypeCount l (mkAttr name nt count data) with
      | Some l' => (with_h s (mkH (h_gattrs h) (h_imgs h) (h_vds h) (zset (h_vgs h) k l')), ROk [])
      | None => (s, RFail)
      end
    end
  | VgAttrs k => match znth (h_vgs h) k with Some l => (s, attrs_res l) | None => (s, RFail) end
  | VgAttrInfo k i => match znth (h_vgs h) k with Some l => (s, info_res l i) | None => (s, RFail) end
  | VgFindAttr k n => match znth (h_vgs h) k with Some l => (s, find_res l n) | None => (s, RFail) end
  | _ => (s, RUnspec)
  end.

(** an object attached for reading refuses every set (nothing changes); its observers are the usual ones *)
Definition h_step (s : state) (o : op) : state * res :=
  match o with
  | HRead (VsSetAttr _ _ _ _ _ _) | HRead (VgSetAttr _ _ _ _ _) => (s, RFail)
  | HRead (VsAttrs k fi) => h_step_plain s (VsAttrs k fi)
  | HRead (VsAttrInfo k fi i) => h_step_plain s (VsAttrInfo k fi i)
  | HRead (VsFindAttr k fi n) => h_step_plain s (VsFindAttr k fi n)
  | HRead (VgAttrs k) => h_step_plain s (VgAttrs k)
  | HRead (VgAttrInfo k i) => h_step_plain s (VgAttrInfo k i)
  | HRead (VgFindAttr k n) => h_step_plain s (VgFindAttr k n)
  | HRead _ => (s, RUnspec)
  | _ => h_step_plain s o
  end.

Definition is_h_op (o : op) : bool :=
  match o with
  | HStart _ | HEnd | GrCreate _ _ _ _ _ | GrSetAttr _ _ _ _ _ | GrAttrs _ | GrAttrInfo _ _ | GrFindAttr _ _ | GrLookup
  | VsCreate _ _ | VsSetAttr _ _ _ _ _ _ | VsAttrs _ _ | VsAttrInfo _ _ _ | VsFindAttr _ _ _
  | VgCreate _ | VgSetAttr _ _ _ _ _ | VgAttrs _ | VgAttrInfo _ _ | VgFindAttr _ _ | HRead _ => true
  | _ => false
  end.

(** the oracle.  Operations on a closed interface are outside the domain. *)
Definition step_with (hk : hooks) (s : state) (o : op) : state * res :=
  if is_h_op o
  then match o, h_mode s with
       | HStart _, _ => h_step s o
       | _, None => (s, RUnspec)
       | _, Some _ => h_step s o
       end
  else match o, sd_mode s with
       | SdStart _, _ => sd_step_with hk s o
       | _, None => (s, RUnspec)
       | _, Some _ => sd_step_with hk s o
       end.
Definition step := step_with spec_hooks.
