(** C20 -- C integer widths made explicit: the arithmetic the generated guard expressions (gen/Gen_Limits.v) are
    evaluated with.  [int] and [int32] arithmetic wraps modulo 2^32 into [-2^31, 2^31); [uint16] is modulo 2^16.
    (Definitions only; used by the translator output, the models and the proofs.) *)
From Coq Require Import ZArith.
Local Open Scope Z_scope.

Definition wrap32 (z : Z) : Z := ((z + 2147483648) mod 4294967296) - 2147483648.
Definition u16 (z : Z) : Z := z mod 65536.
Definition add32 (a b : Z) : Z := wrap32 (a + b).
Definition sub32 (a b : Z) : Z := wrap32 (a - b).
Definition mul32 (a b : Z) : Z := wrap32 (a * b).
Definition INT32_MAXW : Z := 2147483647.
Definition is_int32 (z : Z) : Prop := -2147483648 <= z <= 2147483647.
