(** C01 -- Data-element byte streams read back exactly what was written.
    Property theorems only (each closed by [exact]); proofs in HBlocksProofs.v / EStoreProofs.v.

    Scope of what is PROVED here: (1) the specification S used as the oracle of the correspondence check
    has the array laws; (2) the faithful model of linked-block storage (HLPwrite / HLPread / block-table
    walk, hblocks.c) refines the byte stream for every first-block length, block length >= 1, table size
    >= 1 and every sequence of positioned writes and reads -- positions are arbitrary, so every
    interleaving of access handles sharing the element is covered; (3) promotion of existing data
    (HLcreate / HLconvert on a contiguous element) preserves content.
    (4) the contiguous path of hfile.c (HFileModel.v: allocation at the end of the file, Hwrite with the
    append-at-EOF versus promote decision, Hread, Htrunc, Hdupdd, Hdeldd): extents never overlap, and (5) a
    successful write / read / truncation / duplication has exactly the effect the specification's byte-array
    functions [write_at] / [read_at] describe, for every history.
    (6) external elements (hextelt.c HXPwrite / HXPread, model shared with C04: position update, growth test and new
    length regenerated from the source) are byte arrays at an offset of the external file.
    Reopen (HTPstart), HXcreate's promotion of existing data and hbuffer.c are decided by the correspondence against
    S only (DESIGN.md C01). *)
From Coq Require Import ZArith List Bool.
Require Import H4.EStoreSpec H4.HBlocksModel H4.HBlocksProofs H4.EStoreProofs H4.HFileModel H4.HFileProofs H4.HFileRefine.
Require H4.ExtEltModel H4.ExtEltProofs.
Import ListNotations.
Local Open Scope Z_scope.

(** (2) a linked-block element created empty is a byte stream *)
Theorem hl_refines_stream : forall blen nblk ops,
  1 <= blen -> 1 <= nblk -> Forall op_pos_ok ops ->
  lb_run (hl_new blen nblk) ops = stream_run [] ops.
Proof.
  intros blen nblk ops Hb Hn Hops.
  exact (lb_refines_stream_lemma ops (hl_new blen nblk) (Inv_new blen nblk Hb Hn) Hops).
Qed.
Print Assumptions hl_refines_stream.

(** (3) promotion: existing data becomes the first block; content, length and all later behaviour are
    those of the same stream *)
Theorem promote_preserves : forall data blen nblk ops,
  1 <= blen -> 1 <= nblk -> Forall op_pos_ok ops ->
  abs_stream (hl_of_data data blen nblk) = data /\
  lb_run (hl_of_data data blen nblk) ops = stream_run data ops.
Proof.
  intros data blen nblk ops Hb Hn Hops. split; [exact (abs_of_data data blen nblk)|].
  rewrite <- (abs_of_data data blen nblk) at 2.
  exact (lb_refines_stream_lemma ops _ (Inv_of_data data blen nblk Hb Hn) Hops).
Qed.
Print Assumptions promote_preserves.

(** the silent promotion uses the library's default block length / table size; the theorem applies to them
    (this obligation breaks if the constants in hlimits.h are ever set below 1) *)
Theorem silent_promotion_preserves : forall data ops, Forall op_pos_ok ops ->
  abs_stream (hl_promote data) = data /\ lb_run (hl_promote data) ops = stream_run data ops.
Proof.
  intros data ops Hops. unfold hl_promote.
  split; [exact (abs_of_data data _ _)|].
  rewrite <- (abs_of_data data H4.gen.Gen_HBlocks.HDF_APPENDABLE_BLOCK_LEN H4.gen.Gen_HBlocks.HDF_APPENDABLE_BLOCK_NUM) at 2.
  refine (lb_refines_stream_lemma ops _ (Inv_of_data data _ _ _ _) Hops); vm_compute; discriminate.
Qed.
Print Assumptions silent_promotion_preserves.

(** from any reachable state of a linked-block element *)
Theorem lb_refines_stream : forall ops st, HBlocksProofs.Inv st -> Forall op_pos_ok ops ->
  lb_run st ops = stream_run (abs_stream st) ops.
Proof. exact lb_refines_stream_lemma. Qed.
Print Assumptions lb_refines_stream.

(** position <-> (block, offset) is a bijection: no two positions share a cell, every cell is a position *)
Theorem locate_bijective : forall st, HBlocksProofs.WF st ->
  (forall q, 0 <= q -> let '(i, r) := locate st q in 0 <= i /\ 0 <= r < cur_len st i /\ bstart st i + r = q) /\
  (forall i r, 0 <= i -> 0 <= r < cur_len st i -> locate st (bstart st i + r) = (i, r)).
Proof. intros st H. split; [intros q Hq; exact (locate_spec st q H Hq) | intros i r; exact (locate_unique st i r H)]. Qed.
Print Assumptions locate_bijective.

(** (1) S: read-after-write, frame, length; and S after close/reopen is the zero-gap stream *)
Theorem spec_read_after_write : forall d pos bytes, 0 <= pos ->
  read_at (write_at d pos bytes) pos (EStoreSpec.zlen bytes) = bytes.
Proof. exact read_after_write_lemma. Qed.
Print Assumptions spec_read_after_write.

Theorem spec_write_frame : forall d pos bytes, 0 <= pos ->
  length (write_at d pos bytes) = Nat.max (length d) (Z.to_nat pos + length bytes) /\
  (forall k, (k <= Z.to_nat pos)%nat -> (k <= length d)%nat -> firstn k (write_at d pos bytes) = firstn k d) /\
  ((Z.to_nat pos + length bytes <= length d)%nat ->
     skipn (Z.to_nat pos + length bytes) (write_at d pos bytes) = skipn (Z.to_nat pos + length bytes) d).
Proof.
  intros d pos bytes Hp. split; [exact (write_length_lemma d pos bytes Hp)|].
  split; [intros k; exact (write_keeps_prefix_lemma d pos bytes k Hp) | exact (write_keeps_suffix_lemma d pos bytes Hp)].
Qed.
Print Assumptions spec_write_frame.

Theorem spec_reopen_is_zero_gap_stream : forall d pos bytes,
  settle (write_at d pos bytes) = write_at0 (settle d) pos (settle bytes).
Proof. exact settle_write_at_lemma. Qed.
Print Assumptions spec_reopen_is_zero_gap_stream.

(** (4) the contiguous path (HFileModel.v: HPgetdiskblock, Hsetlength, Hwrite with the append-at-end-of-file
    versus promote decision, Htrunc, Hdupdd, Hdeldd): for EVERY history the live extents lie inside the file,
    and two descriptors share a byte only if they start at the same offset (aliases made by Hdupdd) *)
Theorem alloc_disjoint : forall ops e, 0 <= e -> HFileProofs.Inv (fold_left fstep ops (finit e)).
Proof. exact alloc_disjoint_lemma. Qed.
Print Assumptions alloc_disjoint.

(** every block handed out starts at the old end of file *)
Theorem alloc_at_end : forall s n, HFileProofs.Inv s -> 0 <= n ->
  let '(s', off) := alloc s n in
  off = fend s /\ fend s' = fend s + n /\ HFileProofs.Inv s' /\ forall d, In d (dds s) -> doff d + dlen d <= off.
Proof. exact alloc_fresh. Qed.
Print Assumptions alloc_at_end.

(** a successful write changes no byte of any other (non-aliased) element, whether it stays inside the
    element or appends in place at the end of the file *)
Theorem write_frame : forall s k pos app bytes s' n d k2 d2,
  HFileProofs.Inv s -> 0 <= pos -> hwrite s k pos app bytes = (s', WOk n) ->
  dfind k (dds s) = Some d -> dfind k2 (dds s) = Some d2 -> k2 <> k -> doff d2 <> doff d ->
  content s' k2 = content s k2.
Proof. exact write_frame_lemma. Qed.
Print Assumptions write_frame.

Theorem read_after_write_contig : forall s k pos app bytes s' n,
  0 <= pos -> hwrite s k pos app bytes = (s', WOk n) ->
  n = HFileModel.zlen bytes /\ hread s' k pos n = Some bytes.
Proof. exact read_after_write_contig_lemma. Qed.
Print Assumptions read_after_write_contig.

(** (5) the contiguous path refines the byte-array specification.  Nothing at or beyond the end of the file has
    ever been written, in any history, so a gap skipped over by seeking before an append reads as zeros *)
Theorem zero_beyond_end : forall ops e x,
  fend (fold_left fstep ops (finit e)) <= x -> img (fold_left fstep ops (finit e)) x = 0.
Proof. exact zero_beyond_end_lemma. Qed.
Print Assumptions zero_beyond_end.

(** after ANY history of creations, allocations, writes, truncations, duplications and deletions, a successful
    Hwrite (inside the element, or appending in place at the end of the file, possibly after seeking past the end)
    turns the element's content into the specification's [write_at], gap settled to zero *)
Theorem contig_write_refines_spec : forall ops e k pos app bytes s' n c,
  0 <= e -> 0 <= pos -> Forall is_byte c -> Forall is_byte bytes ->
  hwrite (fold_left fstep ops (finit e)) k pos app bytes = (s', WOk n) ->
  content (fold_left fstep ops (finit e)) k = Some c ->
  content s' k = Some (settle (write_at c pos bytes)).
Proof. exact contig_history_write_refines_lemma. Qed.
Print Assumptions contig_write_refines_spec.

(** the same from ANY state that satisfies the extent invariant, whatever bytes the file holds beyond the element --
    e.g. after Htrunc, close and reopen, when the bytes behind the shortened element are still those of its longer
    version: the gap is written out as zeros (before the repair of Hwrite this was false: [stale_gap_is_zeroed]) *)
Theorem contig_write_refines_spec_any_image : forall s k pos app bytes s' n c,
  HFileProofs.Inv s -> 0 <= pos -> Forall is_byte c -> Forall is_byte bytes ->
  hwrite s k pos app bytes = (s', WOk n) -> content s k = Some c ->
  content s' k = Some (settle (write_at c pos bytes)).
Proof. exact contig_write_refines_spec_lemma. Qed.
Print Assumptions contig_write_refines_spec_any_image.

Theorem contig_read_refines_spec : forall s k pos n c,
  content s k = Some c -> 0 <= pos -> 0 < n -> pos + n <= HFileModel.zlen c ->
  hread s k pos n = Some (read_at c pos n).
Proof. exact contig_read_refines_lemma. Qed.
Print Assumptions contig_read_refines_spec.

Theorem contig_trunc_refines_spec : forall s k len s' c,
  htrunc s k len = Some s' -> content s k = Some c ->
  content s' k = Some (firstn (Z.to_nat len) c).
Proof. exact contig_trunc_refines_lemma. Qed.
Print Assumptions contig_trunc_refines_spec.

Theorem contig_dup_refines_spec : forall s nk ok s',
  hdup s nk ok = Some s' -> content s' nk = content s ok /\ content s ok <> None.
Proof. exact contig_dup_refines_lemma. Qed.
Print Assumptions contig_dup_refines_spec.

(** (6) external elements: element byte q is byte extern_offset + q of the external file; a write of [data] at the
    handle's position makes the length max(old length, posn + len) (it never shrinks, whatever the offset), changes
    exactly the element bytes [posn, posn + len), leaves every foreign byte in front of the element alone; a read inside
    the element returns exactly its bytes and advances the position by the count *)
Theorem external_element_is_byte_array :
  (forall x f data, 0 <= ExtEltModel.x_posn x -> 0 <= ExtEltModel.x_offset x ->
     let x' := fst (ExtEltModel.hxp_write x f data) in let f' := snd (ExtEltModel.hxp_write x f data) in
     let len := Z.of_nat (List.length data) in
     ExtEltModel.x_length x' = Z.max (ExtEltModel.x_length x) (ExtEltModel.x_posn x + len) /\
     ExtEltModel.x_posn x' = ExtEltModel.x_posn x + len /\ ExtEltModel.x_offset x' = ExtEltModel.x_offset x /\
     (forall q, 0 <= q ->
        f' (ExtEltModel.x_offset x + q) =
          if (ExtEltModel.x_posn x <=? q) && (q <? ExtEltModel.x_posn x + len)
          then nth (Z.to_nat (q - ExtEltModel.x_posn x)) data 0 else f (ExtEltModel.x_offset x + q)) /\
     (forall k, k < ExtEltModel.x_offset x -> f' k = f k)) /\
  (forall x f len, 0 <= ExtEltModel.x_posn x -> 1 <= len -> ExtEltModel.x_posn x + len <= ExtEltModel.x_length x ->
     exists x' out, ExtEltModel.hxp_read x f len = Some (x', out) /\
       ExtEltModel.x_posn x' = ExtEltModel.x_posn x + len /\ ExtEltModel.x_length x' = ExtEltModel.x_length x /\
       Z.of_nat (List.length out) = len /\
       forall i, 0 <= i < len -> nth (Z.to_nat i) out 0 = f (ExtEltModel.x_offset x + (ExtEltModel.x_posn x + i))).
Proof. exact (conj ExtEltProofs.hxp_write_refines ExtEltProofs.hxp_read_refines). Qed.
Print Assumptions external_element_is_byte_array.

(** Non-vacuity *)
Example stale_gap_is_zeroed :
  let s := mkfs [mkdd (1,1) 202 2] 204 (fun _ => 170) in     (* every byte of the file is 0xAA *)
  HFileProofs.Inv s /\
  match hwrite s (1,1) 5 true [9; 10] with
  | (s', WOk 2) => content s' (1,1) = Some [170; 170; 0; 0; 0; 9; 10]
  | _ => False end.
Proof.
  split; [|vm_compute; reflexivity].
  split; [cbn; discriminate|]. split.
  - intros d [<-|[]]. unfold region_ok. cbn. repeat split; discriminate.
  - intros d1 d2 [<-|[]] [<-|[]]. left. reflexivity.
Qed.
Example contig_append_after_seek_past_end :
  let s := fold_left fstep [FCreate (1,1) 2; FWrite (1,1) 0 true [7; 8]] (finit 202) in
  content s (1,1) = Some [7; 8] /\
  match hwrite s (1,1) 5 true [9; 10] with
  | (s', WOk 2) => content s' (1,1) = Some [7; 8; 0; 0; 0; 9; 10] /\
                   settle (write_at [7; 8] 5 [9; 10]) = [7; 8; 0; 0; 0; 9; 10] /\
                   hread s' (1,1) 2 4 = Some [0; 0; 0; 9]
  | _ => False end.
Proof. vm_compute. repeat split. Qed.
Example inv_holds_after_work :
  match hl_write (hl_new 4 2) 9 [1; 2; 3; 4; 5; 6] with
  | Some (st, n) => n = 6 /\ table_flags st = [[false; false]; [true; true]] /\
                    abs_stream st = [0;0;0;0;0;0;0;0;0;1;2;3;4;5;6]
  | None => False end.
Proof. vm_compute. repeat split. Qed.
Example ops_ok : Forall op_pos_ok [LWrite 9 [1;2;3]; LRead 0 0; LWrite 2 [7]; LRead 1 20].
Proof. repeat constructor; cbn; discriminate. Qed.
Example contig_history_reaches_append_and_promote :
  let s := fold_left fstep [FCreate (1,1) 4; FWrite (1,1) 0 true [1;2;3;4;5;6]; FCreate (1,2) 3;
                            FDup (1,3) (1,1); FTrunc (1,2) 1] (finit 202) in
  map (fun d => (dk d, doff d, dlen d)) (dds s) = [((1,2), 208, 1); ((1,3), 202, 6); ((1,1), 202, 6)] /\
  fend s = 211 /\ snd (hwrite s (1,1) 6 true [9]) = WPromote /\ snd (hwrite s (1,2) 1 true [9; 9]) = WPromote.
Proof. vm_compute. repeat split. Qed.
Example runs_agree :
  lb_run (hl_new 4 2) [LWrite 9 [1;2;3]; LRead 0 0; LWrite 2 [7]; LRead 1 20]
  = [LWrote 3; LBytes [0;0;0;0;0;0;0;0;0;1;2;3]; LWrote 1; LBytes [0;7;0;0;0;0;0;0;1;2;3]].
Proof. vm_compute. reflexivity. Qed.
