(** Extraction of the C15 specification and record models (ExtrOcamlBasic only; Z stays the extracted datatype). *)
Require Import H4.MixSpec H4.MixModel H4.gen.Gen_Mix.
Require Extraction.
Require ExtrOcamlBasic.
Extraction "../extract/gen/mix_model.ml" sds_views img_views ann_views file_order dfsd_session
  sd_read_sdd dfsd_read_sdd sdd_encode nt_decode dfsd_nt_decode nt_encode
  id_decode id_encode di_decode di_encode ndg_view dfsd_view dfr8_view dfgr_view get old_sds_file old_img_file
  hdf_write_var_SDD DFSDIputndg_SDD DFGRgetrig_ID DFGRaddrig_ID DFR8putrig_ID GRIupdatemeta_ID
  DFTAG_NDG DFTAG_SDG DFTAG_SDD DFTAG_NT DFTAG_SD DFTAG_RIG DFTAG_ID DFTAG_RI DFTAG_CI shown_nt gr_compat sdlnk_sdg sd_read_scales dfsd_read_scales ntsize DFTAG_SDS ndg_dims convert.
