(** Extraction of the C15 specification and record models (ExtrOcamlBasic only; Z stays the extracted datatype). *)
Require Import H4.MixSpec H4.MixModel.
Require Extraction.
Require ExtrOcamlBasic.
Extraction "../extract/gen/mix_spec.ml" sds_views img_views ann_views.
Extraction "../extract/gen/mix_model.ml" be_bytes.
