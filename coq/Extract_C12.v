(** Extraction of the C12 specification S, the implementation model M and the bit-vector model
    (ExtrOcamlBasic only; Z / nat stay the extracted inductive types). *)
Require Import H4.DDBvModel H4.DDSpec H4.DDModel H4.DDEofModel H4.DDDynModel.
Require Extraction.
Require ExtrOcamlBasic.
Extraction "../extract/gen/dd_model.ml" s_run m_run m_empty bv_run_new htpstart_end_off eof_covers dn_run_new.
