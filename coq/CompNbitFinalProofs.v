(** C05 -- n-bit end to end, final assembly: nbit_decode c (nbit_encode c v) = nbit_project c v. *)
From Coq Require Import ZArith List Bool Lia.
Require Import H4.gen.Gen_Comp H4.CompSpec H4.CompRleProofs H4.CompCodecModel H4.CompCodecProofs H4.CompBitioProofs
  H4.CompNbitProofs H4.CompNbitFullProofs.
Import ListNotations.
Local Open Scope Z_scope.

(** ** per byte: the decoder's byte is (b land mask) lor fill-pattern *)
Lemma base_byte mi b (fill : bool) : mi_wf mi -> (0 < mi_len mi \/ mi_mask mi = 0) -> 0 <= b < 256 ->
  dec_byte mi (if fill then Z.land 255 (CompCodecModel.u8 (Z.lnot (mi_mask mi))) else 0) b =
  Z.lor (Z.land b (mi_mask mi)) (if fill then Z.land 255 (CompCodecModel.u8 (Z.lnot (mi_mask mi))) else 0).
Proof.
  intros [Z0|(Ho & Hl & Hm)] Hz Hb; unfold dec_byte.
  - rewrite Z0. destruct Hz as [Hz|Hz]; [lia|]. rewrite Hz. change (0 <? 0) with false. cbv iota. rewrite Z.land_0_r. reflexivity.
  - destruct (Z.ltb_spec 0 (mi_len mi)); [|lia].
    pose proof (nbit_byte_roundtrip_lemma (mi_off mi) (mi_len mi) b fill Ho Hl Hb) as C.
    unfold nbit_byte_case in C. rewrite <- Hm in C. cbv zeta in C. rewrite !andb_true_iff in C.
    destruct C as [[[C1 _] _] _]. apply Z.eqb_eq in C1. unfold sh_of. rewrite C1. apply Z.lor_comm.
Qed.

Lemma ext_nf (se fill s : bool) (sign_byte sext j mask m b : Z) :
  (if se then
     if Bool.eqb s fill then Z.lor (Z.land b mask) m
     else if j <? sign_byte then (if s then 255 else 0)
     else if j =? sign_byte then (if s then Z.lor (Z.lor (Z.land b mask) m) sext
                                  else Z.land (Z.lor (Z.land b mask) m) (CompCodecModel.u8 (Z.lnot sext)))
     else Z.lor (Z.land b mask) m
   else Z.lor (Z.land b mask) m) =
  Z.lor (Z.land b (fst (nf_byte se fill s sign_byte sext j mask m))) (snd (nf_byte se fill s sign_byte sext j mask m)).
Proof.
  unfold nf_byte. destruct se; cbn [andb]; [|reflexivity]. destruct (Bool.eqb s fill); cbn [negb]; [reflexivity|].
  destruct (j <? sign_byte); cbn [fst snd].
  - rewrite Z.land_0_r, Z.lor_0_l. reflexivity.
  - destruct (j =? sign_byte); [|reflexivity]. destruct s; cbn [fst snd].
    + now rewrite Z.lor_assoc.
    + rewrite Z.land_lor_distr_l. now rewrite Z.land_assoc.
Qed.

Lemma nth_map_in {A B} (f : A -> B) (d : A) (d' : B) : forall l i, (i < length l)%nat -> nth i (map f l) d' = f (nth i l d).
Proof. induction l as [|x t IH]; intros i H; [cbn in H; lia|]. destruct i; cbn; [reflexivity|]. apply IH. cbn in H. lia. Qed.
Lemma tab_nth (l : list Z) (i : nat) : tab l (Z.of_nat i) = nth i l 0.
Proof. unfold tab. now rewrite Nat2Z.id. Qed.

(** ** one value: the pure decoder computes the documented projection *)
Lemma value_pure_project size start len se fill prev vs :
  In size [1; 2; 4; 8] -> 0 <= start < 8 * size -> 1 <= len <= start + 1 ->
  Forall byte vs -> zlen vs = size ->
  fst (value_pure (mk_nbit size start len se fill) prev vs) = nbit_project1 size start len se fill vs.
Proof.
  intros Hs Hst Hl Hb Lvs. set (c := mk_nbit size start len se fill).
  assert (Hsz : 1 <= size <= 8) by (cbn in Hs; lia).
  set (k := start mod 8). set (sbI := size - (start / 8 + 1)).
  assert (Hk : 0 <= k < 8) by (apply Z.mod_pos_bound; lia).
  set (bsb := nth (Z.to_nat sbI) vs 0). set (s := Z.testbit bsb k).
  pose proof (cfg_check_lemma size start len se fill s Hs Hst Hl) as C. unfold cfg_check in C. fold c in C.
  cbv zeta in C. fold sbI k in C. rewrite !andb_true_iff in C.
  destruct C as [[[[[C1 C2] C3] C4] C5] C6]. apply Z.leb_le in C2. apply Z.ltb_lt in C3, C4. apply Z.eqb_eq in C5.
  pose proof (nbit_mask_info_wf size start len se fill Hs Hst Hl) as Hw. fold c in Hw.
  assert (Lm : zlen (nbit_mask_info c) = size).
  { pose proof (nbit_masks_lemma size start len Hs Hst Hl) as M. unfold nbit_cfg_case in M. cbv zeta in M.
    rewrite !andb_true_iff in M. destruct M as [[M1 _] _]. apply Z.eqb_eq in M1. exact M1. }
  set (mis := nbit_mask_info c) in *. set (mbuf := nbit_mask_buf c).
  assert (Lmn : length mis = Z.to_nat size) by (unfold zlen in Lm; lia).
  assert (Lvn : length vs = Z.to_nat size) by (unfold zlen in Lvs; lia).
  assert (Lbn : length mbuf = length mis) by (unfold mbuf, nbit_mask_buf; now rewrite map_length).
  assert (Hbytes : forall i, (i < Z.to_nat size)%nat -> 0 <= nth i vs 0 < 256).
  { intros i Hi. rewrite Forall_forall in Hb. apply Hb. apply nth_In. lia. }
  (* the sign the decoder sees is bit [start] of the value *)
  set (misb := nth (Z.to_nat sbI) mis mi_zero) in *.
  assert (Hsbn : (Z.to_nat sbI < Z.to_nat size)%nat) by (apply Z2Nat.inj_lt; clear - C2 C3 Hsz; lia).
  assert (Hmisb : mi_wf misb) by (rewrite Forall_forall in Hw; apply Hw; apply nth_In; rewrite Lmn; exact Hsbn).
  assert (Esign : dec_sign mis vs 0 (nb_sign_byte c) (nb_sign_mask c) = (s, true)).
  { change (nb_sign_byte c) with sbI.
    assert (P1 : length vs = length mis) by congruence.
    assert (P2 : 0 <= sbI - 0) by (clear - C2; lia).
    assert (P3 : (Z.to_nat (sbI - 0) < length mis)%nat) by (rewrite Z.sub_0_r, Lmn; exact Hsbn).
    assert (P4 : 0 < mi_len (nth (Z.to_nat (sbI - 0)) mis mi_zero)) by (rewrite Z.sub_0_r; exact C4).
    rewrite (dec_sign_at sbI (nb_sign_mask c) mis vs 0 P1 P2 P3 P4).
    rewrite Z.sub_0_r. fold misb bsb. f_equal.
    destruct Hmisb as [Z0|(Ho & Hl' & Hm)]; [clear - Z0 C4; lia|].
    pose proof (entry_sign_lemma (mi_off misb) (mi_len misb) bsb Ho Hl' (Hbytes (Z.to_nat sbI) Hsbn)) as E.
    unfold entry_sign_case in E. apply Bool.eqb_prop in E.
    replace (mk_mi (mi_off misb) (mi_len misb) (nbit_byte_mask (mi_off misb) (mi_len misb))) with misb in E
      by (destruct misb; cbn in *; congruence).
    unfold nb_sign_mask. cbn [nb_off c]. fold k. rewrite <- C5. rewrite E. rewrite C5. reflexivity. }
  assert (Ev : Z.testbit (be_value vs) start = s).
  { unfold s, bsb. rewrite <- (byteof_be_value vs (Z.to_nat sbI) Hb ltac:(lia)). rewrite testbit_byteof by (rewrite ?Z2Nat.id; lia).
    f_equal. rewrite Lvs, Z2Nat.id by lia. unfold sbI, k. pose proof (Z.div_mod start 8 ltac:(lia)). lia. }
  (* index-wise equality *)
  apply (nth_ext _ _ 0 0).
  - unfold value_pure. fold c mis mbuf. rewrite Esign. unfold nbit_project1. unfold zlen.
    assert (Lp : length (be_bytes size (nbit_project_value size start len se fill (be_value vs))) = Z.to_nat size).
    { pose proof (zlen_be_bytes' size (nbit_project_value size start len se fill (be_value vs)) ltac:(lia)) as Z1. unfold zlen in Z1. lia. }
    rewrite Lp. cbn [nb_sign c]. destruct se; cbn [fst]; rewrite ?sign_extend_length, dec_bytes_pure_length by lia; lia.
  - intros i Hi.
    assert (Hi' : (i < Z.to_nat size)%nat).
    { unfold value_pure in Hi. fold c mis mbuf in Hi. rewrite Esign in Hi. cbn [nb_sign c] in Hi.
      destruct se; cbn [fst] in Hi; rewrite ?sign_extend_length, dec_bytes_pure_length in Hi by lia; lia. }
    set (bi := nth i vs 0). pose proof (Hbytes i Hi') as Hbi. fold bi in Hbi.
    set (mi := nth i mis mi_zero).
    assert (Hmi : mi_wf mi) by (rewrite Forall_forall in Hw; apply Hw; apply nth_In; lia).
    assert (Hmz : 0 < mi_len mi \/ mi_mask mi = 0).
    { rewrite forallb_forall in C6. specialize (C6 mi ltac:(apply nth_In; lia)). apply orb_true_iff in C6.
      destruct C6 as [H|H]; [left; now apply Z.ltb_lt | right; now apply Z.eqb_eq]. }
    set (m := if fill then Z.land 255 (CompCodecModel.u8 (Z.lnot (mi_mask mi))) else 0).
    assert (Em : nth i mbuf 0 = m).
    { unfold mbuf, nbit_mask_buf. fold mis. cbn [nb_fill c].
      rewrite (nth_map_in _ mi_zero 0) by lia. reflexivity. }
    assert (Ebase : nth i (dec_bytes_pure mis mbuf vs) 0 = Z.lor (Z.land bi (mi_mask mi)) m).
    { rewrite dec_bytes_pure_nth by lia. fold mi bi. rewrite Em. apply base_byte; auto. }
    set (sext := CompCodecModel.u8 (Z.lnot (tab mask_arr32 k))).
    (* model side in normal form *)
    assert (Emodel : nth i (fst (value_pure c prev vs)) 0 =
                     Z.lor (Z.land bi (fst (nf_byte se fill s sbI sext (Z.of_nat i) (mi_mask mi) m)))
                           (snd (nf_byte se fill s sbI sext (Z.of_nat i) (mi_mask mi) m))).
    { rewrite <- ext_nf. unfold value_pure. fold mis mbuf. rewrite Esign. cbn [nb_sign c]. destruct se; cbn [fst].
      - rewrite sign_extend_nth by (rewrite dec_bytes_pure_length; lia). cbv zeta. rewrite Ebase.
        cbn [nb_fill c nb_off c]. fold k sext. change (nb_sign_byte c) with sbI. reflexivity.
      - exact Ebase. }
    (* specification side *)
    set (hi := if se then s else fill).
    assert (Espec : nth i (nbit_project1 size start len se fill vs) 0 =
                    Z.lor (Z.land bi (tab (be_bytes size (nbit_field_mask start len)) (Z.of_nat i)))
                          (tab (be_bytes size (spec_K size start len hi fill)) (Z.of_nat i))).
    { unfold nbit_project1. rewrite <- tab_nth. rewrite !tab_be_bytes by lia.
      unfold nbit_project_value. rewrite Ev. fold hi. rewrite <- Z.lor_assoc. fold (spec_K size start len hi fill).
      rewrite byteof_lor, byteof_land. f_equal. f_equal.
      rewrite <- Lvs. apply byteof_be_value; auto. lia. }
    rewrite Emodel, Espec.
    pose proof (zrange_forall _ size C1 (Z.of_nat i) ltac:(lia)) as Ci. cbv beta zeta in Ci.
    rewrite Nat2Z.id in Ci. fold mi in Ci. rewrite tab_nth in Ci. fold mbuf in Ci. rewrite Em in Ci. fold sext hi in Ci.
    destruct (Z.eqb_spec (Z.of_nat i) sbI) as [Ei|Nei].
    + (* the sign byte: compare after normalising at the sign bit *)
      assert (Ebs : Z.testbit bi k = s). { unfold s, bsb, bi. f_equal. f_equal. lia. }
      unfold pair_eqb in Ci. apply andb_true_iff in Ci. destruct Ci as [P1 P2]. apply Z.eqb_eq in P1, P2.
      rewrite (norm_k_ok bi k _ _ ltac:(lia)). rewrite (norm_k_ok bi k (tab _ _) (tab _ _) ltac:(lia)).
      rewrite Ebs. rewrite <- surjective_pairing. rewrite P1, P2. reflexivity.
    + unfold pair_eqb in Ci. apply andb_true_iff in Ci. destruct Ci as [P1 P2]. apply Z.eqb_eq in P1, P2.
      cbn [fst snd] in P1, P2. rewrite P1, P2. reflexivity.
Qed.

(** ** all values *)
Lemma values_pure_project size start len se fill : In size [1; 2; 4; 8] -> 0 <= start < 8 * size -> 1 <= len <= start + 1 ->
  forall values prev, Forall (fun v => zlen v = size /\ Forall byte v) values ->
  values_pure (mk_nbit size start len se fill) prev values = concat (map (nbit_project1 size start len se fill) values).
Proof.
  intros Hs Hst Hl. induction values as [|v t IH]; intros prev F; [reflexivity|].
  apply Forall_cons_iff in F. destruct F as [[Lv Bv] Ft].
  cbn [values_pure map concat].
  pose proof (value_pure_project size start len se fill prev v Hs Hst Hl Bv Lv) as E.
  destruct (value_pure (mk_nbit size start len se fill) prev v) as [o p]. cbn [fst] in E. rewrite E, IH by assumption. reflexivity.
Qed.

Lemma firstn_len_app {A} (v r : list A) n : length v = n -> firstn n (v ++ r) = v.
Proof. intros <-. rewrite firstn_app, Nat.sub_diag, firstn_all, firstn_O. apply app_nil_r. Qed.
Lemma skipn_len_app {A} (v r : list A) n : length v = n -> skipn n (v ++ r) = r.
Proof. intros <-. rewrite skipn_app, Nat.sub_diag, skipn_all. reflexivity. Qed.
Lemma chunks_of_concat size : (1 <= size)%nat -> forall values fuel, Forall (fun v => length v = size) values ->
  (length values <= fuel)%nat -> chunks_of fuel size (concat values) = values.
Proof.
  intros Hs. induction values as [|v t IH]; intros fuel F Hf.
  - destruct fuel; reflexivity.
  - apply Forall_cons_iff in F. destruct F as [Lv Ft]. destruct fuel as [|f]; [cbn in Hf; lia|].
    cbn [concat chunks_of]. destruct (v ++ concat t) as [|x r] eqn:E.
    + destruct v; [cbn in Lv; lia | discriminate].
    + rewrite <- E. rewrite (firstn_len_app v _ size Lv), (skipn_len_app v _ size Lv). rewrite IH; auto. cbn in Hf. lia.
Qed.

Lemma length_concat_ge (values : list (list Z)) size : (1 <= size)%nat -> Forall (fun v => length v = size) values ->
  (length values <= length (concat values))%nat.
Proof.
  intros Hs. induction 1 as [|v t Lv Ft IH]; [cbn; lia|]. cbn [concat length]. rewrite app_length. lia.
Qed.

Lemma nbit_project_concat size start len se fill values : 1 <= size ->
  Forall (fun v => zlen v = size /\ Forall byte v) values ->
  nbit_project size start len se fill (concat values) = concat (map (nbit_project1 size start len se fill) values).
Proof.
  intros Hs F. unfold nbit_project.
  assert (Fl : Forall (fun v => length v = Z.to_nat size) values).
  { eapply Forall_impl; [|exact F]. intros v [L _]. unfold zlen in L. lia. }
  rewrite chunks_of_concat; auto; [lia|]. apply (length_concat_ge values (Z.to_nat size)); [lia | exact Fl].
Qed.

(** * the n-bit round trip: decode (encode v) = documented projection of v *)
Lemma nbit_roundtrip_lemma : forall size start len se fo values,
  In size [1; 2; 4; 8] -> 0 <= start < 8 * size -> 1 <= len <= start + 1 ->
  Forall (fun v => zlen v = size /\ Forall byte v) values ->
  let c := mk_nbit size start len se fo in
  nbit_decode c (nbit_encode c (concat values)) (zlen values) = Some (nbit_project size start len se fo (concat values)).
Proof.
  intros size start len se fo values Hs Hst Hl F c. unfold c.
  rewrite nbit_decode_encode_pure by assumption. f_equal.
  rewrite values_pure_project by assumption. symmetry. apply nbit_project_concat; [cbn in Hs; lia | assumption].
Qed.
