(** C01 -- implementation model of the contiguous element path of hfile.c (no proofs here):
    HPgetdiskblock (space only at the end of the file), Hsetlength, Hwrite with the
    append-at-end-of-file versus promote-to-linked-blocks decision, Hread, Htrunc, Hdupdd, Hdeldd.
    The file is an image [Z -> Z] plus the end-of-file offset f_end_off; descriptors are (key, offset, length).
    Handles carry position and the appendable flag, so they are parameters of the operations. *)
From Coq Require Import ZArith List Bool.
Import ListNotations.
Local Open Scope Z_scope.

Definition key := (Z * Z)%type.
Definition key_eqb (a b : key) : bool := (fst a =? fst b) && (snd a =? snd b).

Record ddrec := mkdd { dk : key; doff : Z; dlen : Z }.
Record fs := mkfs { dds : list ddrec; fend : Z; img : Z -> Z }.

Fixpoint dfind (k : key) (l : list ddrec) : option ddrec :=
  match l with [] => None | d :: t => if key_eqb k (dk d) then Some d else dfind k t end.
Fixpoint dremove (k : key) (l : list ddrec) : list ddrec :=
  match l with [] => [] | d :: t => if key_eqb k (dk d) then dremove k t else d :: dremove k t end.
Definition dset (d : ddrec) (l : list ddrec) : list ddrec := d :: dremove (dk d) l.

Definition zlen {A} (l : list A) : Z := Z.of_nat (length l).

(** HP_write of [bytes] at file offset [a] *)
Fixpoint poke (m : Z -> Z) (a : Z) (bytes : list Z) : Z -> Z :=
  match bytes with [] => m | b :: t => poke (fun x => if x =? a then b else m x) (a + 1) t end.

Definition peek (m : Z -> Z) (a : Z) (n : nat) : list Z := map (fun i => m (a + Z.of_nat i)) (seq 0 n).

Inductive wres := WFail | WPromote | WOk (n : Z).

(** HPgetdiskblock: the block starts at the old end of file *)
Definition alloc (s : fs) (n : Z) : fs * Z := (mkfs (dds s) (fend s + n) (img s), fend s).

(** Hstartwrite on a new tag/ref = HTPcreate + Hsetlength *)
Definition hcreate (s : fs) (k : key) (len : Z) : option fs :=
  match dfind k (dds s) with
  | Some _ => None
  | None => if len <? 0 then None else
            let '(s1, off) := alloc s len in
            Some (mkfs (dset (mkdd k off len) (dds s1)) (fend s1) (img s1))
  end.

(** Hwrite on a contiguous element through a handle at [pos] with the appendable flag [app] *)
Definition hwrite (s : fs) (k : key) (pos : Z) (app : bool) (bytes : list Z) : fs * wres :=
  match dfind k (dds s) with
  | None => (s, WFail)
  | Some d =>
      let n := zlen bytes in
      if (n <=? 0) || (negb app && (dlen d <? n + pos)) then (s, WFail) else
      if app && (dlen d <? n + pos) then
        if negb (dlen d + doff d =? fend s) then (s, WPromote)   (* not at end of file: HLconvert *)
        else
          let d' := mkdd k (doff d) (pos + n) in                 (* HTPupdate(ddid, -2, posn + length) *)
          let e := doff d + pos + n in
          (* a gap skipped over by seeking is written out as zeros first (the bytes there may be left over from a
             longer version of the element that was truncated) *)
          let img1 := poke (img s) (doff d + dlen d) (repeat 0 (Z.to_nat (pos - dlen d))) in
          (mkfs (dset d' (dds s)) (Z.max (fend s) e) (poke img1 (doff d + pos) bytes), WOk n)
      else
        let e := doff d + pos + n in
        (mkfs (dds s) (Z.max (fend s) e) (poke (img s) (doff d + pos) bytes), WOk n)
  end.

(** Hread (after the repair: length clamped at zero) *)
Definition hread (s : fs) (k : key) (pos n : Z) : option (list Z) :=
  match dfind k (dds s) with
  | None => None
  | Some d =>
      if n <? 0 then None else
      let n1 := if (n =? 0) || (dlen d <? n + pos) then dlen d - pos else n in
      let n2 := Z.max 0 n1 in
      Some (peek (img s) (doff d + pos) (Z.to_nat n2))
  end.

Definition htrunc (s : fs) (k : key) (len : Z) : option fs :=
  match dfind k (dds s) with
  | None => None
  | Some d => if (len <? dlen d) && (0 <=? len)
              then Some (mkfs (dset (mkdd k (doff d) len) (dds s)) (fend s) (img s)) else None
  end.

Definition hdup (s : fs) (newk oldk : key) : option fs :=
  match dfind newk (dds s), dfind oldk (dds s) with
  | None, Some d => Some (mkfs (dset (mkdd newk (doff d) (dlen d)) (dds s)) (fend s) (img s))
  | _, _ => None
  end.

Definition hdel (s : fs) (k : key) : option fs :=
  match dfind k (dds s) with
  | Some _ => Some (mkfs (dremove k (dds s)) (fend s) (img s))
  | None => None
  end.

(** the content of an element as the byte array the specification talks about *)
Definition content (s : fs) (k : key) : option (list Z) :=
  match dfind k (dds s) with
  | Some d => Some (peek (img s) (doff d) (Z.to_nat (dlen d)))
  | None => None
  end.

(** histories *)
Inductive fop :=
| FCreate (k : key) (len : Z)
| FAlloc (n : Z)                               (* any other allocation: DD blocks, special headers, blocks *)
| FWrite (k : key) (pos : Z) (app : bool) (bytes : list Z)
| FTrunc (k : key) (len : Z)
| FDup (newk oldk : key)
| FDel (k : key).

Definition fstep (s : fs) (o : fop) : fs :=
  match o with
  | FCreate k len => match hcreate s k len with Some s' => s' | None => s end
  | FAlloc n => if n <? 0 then s else fst (alloc s n)
  | FWrite k pos app bytes => if pos <? 0 then s else fst (hwrite s k pos app bytes)
  | FTrunc k len => match htrunc s k len with Some s' => s' | None => s end
  | FDup nk ok => match hdup s nk ok with Some s' => s' | None => s end
  | FDel k => match hdel s k with Some s' => s' | None => s end
  end.

Definition finit (end0 : Z) : fs := mkfs [] end0 (fun _ => 0).
