(** C17 -- specification S: crash images of an append-only session.

    A file image is a list of bytes.  A session is observed as an ordered log of writes (offset, bytes); every
    write is atomic.  The format reader below implements only the on-disk format of the descriptor chain
    (magic number, DD blocks = 6-byte header [ndds:int16, next:int32] + ndds 12-byte descriptors
    [tag:uint16 ref:uint16 offset:int32 length:int32], all big-endian).  It is the "independent reader" run on
    every crash image, and the object the theorems of Properties_C17.v talk about.

    No proofs in this file (total computable definitions only). *)
From Coq Require Import ZArith List Bool.
Require Import H4.gen.Gen_Crash.
Import ListNotations.
Local Open Scope Z_scope.

Definition image := list Z.
Definition wlog := list (Z * list Z).

Definition zlen {A} (l : list A) : Z := Z.of_nat (length l).

(** [read_bytes img off n]: the n bytes at offset off, or None when they are not all inside the image
    (the library's fread comes back short and Hopen fails). *)
Definition read_bytes (img : image) (off n : Z) : option (list Z) :=
  if (0 <=? off) && (0 <=? n) && (off + n <=? zlen img)
  then Some (firstn (Z.to_nat n) (skipn (Z.to_nat off) img))
  else None.

(** one atomic write; a gap between the end of the image and the offset reads as zero (POSIX hole) *)
Definition write_at (img : image) (off : Z) (bs : list Z) : image :=
  let o := Z.to_nat off in
  let padded := img ++ repeat 0 (o - length img) in
  firstn o padded ++ bs ++ skipn (o + length bs) padded.

Definition apply_log (img : image) (l : wlog) : image :=
  fold_left (fun i w => write_at i (fst w) (snd w)) l img.

(** big-endian numbers *)
Definition be (l : list Z) : Z := fold_left (fun a b => a * 256 + b) l 0.
Definition s16 (z : Z) : Z := if z <? 32768 then z else z - 65536.
Definition s32 (z : Z) : Z := if z <? 2147483648 then z else z - 4294967296.

Fixpoint enc_be (n : nat) (z : Z) : list Z :=
  match n with
  | O => []
  | S k => enc_be k (z / 256) ++ [z mod 256]
  end.
Definition enc16 (z : Z) : list Z := enc_be 2 (z mod 65536).
Definition enc32 (z : Z) : list Z := enc_be 4 (z mod 4294967296).

Record dd := mkdd { d_tag : Z; d_ref : Z; d_off : Z; d_len : Z }.
Record block := mkblock { b_off : Z; b_ndds : Z; b_next : Z; b_dds : list dd }.

Definition parse_dd (b : list Z) : dd :=
  mkdd (be (firstn 2 b)) (be (firstn 2 (skipn 2 b)))
       (s32 (be (firstn 4 (skipn 4 b)))) (s32 (be (firstn 4 (skipn 8 b)))).

Fixpoint parse_dds (n : nat) (b : list Z) : list dd :=
  match n with
  | O => []
  | S k => parse_dd (firstn 12 b) :: parse_dds k (skipn 12 b)
  end.

Definition enc_dd (d : dd) : list Z := enc16 (d_tag d) ++ enc16 (d_ref d) ++ enc32 (d_off d) ++ enc32 (d_len d).
Definition enc_dds (l : list dd) : list Z := flat_map enc_dd l.
Definition enc_hdr (ndds next : Z) : list Z := enc16 ndds ++ enc32 next.

Definition nil_dd : dd := mkdd DFTAG_NULL DFREF_NONE INVALID_OFFSET INVALID_LENGTH.

Definition hdr_sz : Z := NDDS_SZ + OFFSET_SZ.

(** one DD block at [off] (HTPstart: ndds <= 0 is DFE_CORRUPT; a short read fails) *)
Definition read_block (img : image) (off : Z) : option block :=
  match read_bytes img off hdr_sz with
  | None => None
  | Some h =>
      let ndds := s16 (be (firstn 2 h)) in
      let next := s32 (be (skipn 2 h)) in
      if ndds <=? 0 then None
      else match read_bytes img (off + hdr_sz) (ndds * DD_SZ) with
           | None => None
           | Some b => Some (mkblock off ndds next (parse_dds (Z.to_nat ndds) b))
           end
  end.

(** the chain of DD blocks starting at [off]; None on a malformed block or when the fuel (the image length: a
    chain without a cycle cannot be longer) runs out *)
Fixpoint parse_chain (fuel : nat) (img : image) (off : Z) : option (list block) :=
  match fuel with
  | O => None
  | S f =>
      match read_block img off with
      | None => None
      | Some b =>
          if b_next b =? 0 then Some [b]
          else match parse_chain f img (b_next b) with
               | None => None
               | Some l => Some (b :: l)
               end
      end
  end.

Fixpoint list_eqb (a b : list Z) : bool :=
  match a, b with
  | [], [] => true
  | x :: a', y :: b' => (x =? y) && list_eqb a' b'
  | _, _ => false
  end.

Definition parse_file (img : image) : option (list block) :=
  match read_bytes img 0 MAGICLEN with
  | None => None
  | Some m => if list_eqb m HDFMAGIC then parse_chain (S (length img)) img MAGICLEN else None
  end.

Definition all_dds (bl : list block) : list dd := flat_map b_dds bl.
Definition block_end (b : block) : Z := start_block_end (b_off b) (b_ndds b).

(** the end of everything stored in the file, as HTPstart computes it: the maximum over the DD blocks and over
    offset+length of every descriptor (NIL descriptors contribute -2) *)
Definition old_end (bl : list block) : Z :=
  fold_left Z.max (map block_end bl ++ map (fun d => d_off d + d_len d) (all_dds bl)) 0.

Definition dd_eqb (a b : dd) : bool :=
  (d_tag a =? d_tag b) && (d_ref a =? d_ref b) && (d_off a =? d_off b) && (d_len a =? d_len b).

Definition dd_live (d : dd) : bool := negb (d_tag d =? DFTAG_NULL).
Definition dd_has_data (d : dd) : bool := (0 <=? d_off d) && (0 <=? d_len d).

Definition elem_bytes (img : image) (d : dd) : option (list Z) := read_bytes img (d_off d) (d_len d).

(** one previously stored object is intact in [new]: its descriptor is in the directory of [new] and its bytes
    are the same *)
Definition dd_preserved (old new : image) (newdir : list dd) (d : dd) : bool :=
  existsb (dd_eqb d) newdir &&
  (if dd_has_data d
   then match elem_bytes old d with
        | None => true
        | Some x => match elem_bytes new d with Some y => list_eqb x y | None => false end
        end
   else true).

(** THE crash-safety observable: [new] opens (the descriptor chain parses) and every live descriptor of [old]
    is preserved *)
Definition preserves (old new : image) : bool :=
  match parse_file old, parse_file new with
  | Some ob, Some nb => forallb (fun d => if dd_live d then dd_preserved old new (all_dds nb) d else true) (all_dds ob)
  | _, _ => false
  end.

Definition log_above (e : Z) (l : wlog) : bool := forallb (fun w => e <=? fst w) l.

(** all prefixes of the flush, on top of the complete pre-flush log *)
Definition crash_safe (old : image) (pre flush : wlog) : bool :=
  match parse_file old with
  | None => false
  | Some ob =>
      log_above (old_end ob) pre &&
      forallb (fun k => preserves old (apply_log old (firstn k (pre ++ flush)))) (seq 0 (S (length (pre ++ flush))))
  end.

(** ---- well-formedness of an existing file (hypothesis of the theorems; decidable, evaluated on every old
    file the harness produces) *)
Definition bytes_ok (img : image) : bool := forallb (fun b => (0 <=? b) && (b <? 256)) img.

Definition disjointb (a1 a2 b1 b2 : Z) : bool := (a2 <=? b1) || (b2 <=? a1).

Fixpoint pairwise_disjoint (l : list (Z * Z)) : bool :=
  match l with
  | [] => true
  | (a1, a2) :: r => forallb (fun q => disjointb a1 a2 (fst q) (snd q)) r && pairwise_disjoint r
  end.

Definition block_region (b : block) : Z * Z := (b_off b, block_end b).

Definition wf_image (img : image) : bool :=
  bytes_ok img &&
  match parse_file img with
  | None => false
  | Some bl =>
      pairwise_disjoint ((0, MAGICLEN) :: map block_region bl) &&
      forallb (fun d => if dd_live d && dd_has_data d
                        then forallb (fun b => disjointb (d_off d) (d_off d + d_len d) (b_off b) (block_end b)) bl
                        else true) (all_dds bl)
  end.
