(** C10 -- implementation model M: the attribute mechanisms as the C code performs them.
    No proofs here (AttrProofs.v); every definition is total and computable (extracted for the R-vs-M check).

    - [nc_findattr]      attr.c NC_findattr: linear scan, "len == name->len && strncmp(name, values, len) == 0"
    - [sdi_putattr]      mfsd.c SDIputattr: hdf_unmap_type, first-time array, replace in place, H4_MAX_NC_ATTRS, append
    - [nc_aput]          attr.c NC_aput (netCDF API): define-mode / data-mode replace rule
    - [sd_findattr]      mfsd.c SDfindattr
    - [sd_setcal] ...    the predefined attributes as SDIputattr triples, and their getters (NC_copy_arrayvals)
    - [sd_getcoordvar]   mfsd.c SDIgetcoordvar: dimension -> coordinate variable by name / rank 1 / variable kind
    - [sd_nametoindex] [sd_reftoindex] [sd_idtoref]
    - [gr_setattr] ...   mfgr.c GRsetattr / GRattrinfo / GRfindattr on the index-keyed attribute tree
    - [vs_setattr] ...   vattr.c VSsetattr / VSattrinfo / VSfindattr / VSfnattrs and Vsetattr / Vattrinfo / Vfindattr: the
                         attribute table (findex, tag, ref) and the attribute Vdata (name, class "Attr0.0", one field
                         "VALUES" of the attribute's type and order = count, one record) *)
From Coq Require Import ZArith List Bool.
Require Import H4.gen.Gen_Attr H4.AttrSpec.
Import ListNotations.
Local Open Scope Z_scope.

(* ---- C strings ------------------------------------------------------------------------------------------ *)
(** a C string is the list of its bytes before the terminating NUL; [strncmp a b n == 0] *)
Fixpoint strncmp_eq (a b : bytes) (n : nat) : bool :=
  match n with
  | O => true
  | S k => match a, b with
           | [], [] => true
           | x :: a', y :: b' => if x =? y then (if x =? 0 then true else strncmp_eq a' b' k) else false
           | [], y :: _ => y =? 0
           | x :: _, [] => x =? 0
           end
  end.
(** [strcmp a b == 0] *)
Definition strcmp_eq (a b : bytes) : bool := strncmp_eq a b (S (Nat.max (length a) (length b))).
(** strlen of the C string held in a buffer *)
Definition strlen (a : bytes) : Z := zlen (cstr a).

(* ---- the NC_attr record and the NC_array of attributes ----------------------------------------------- *)
Record mattr := mkM { m_name : bytes;        (* NC_string: len bytes *)
                      m_type : Z;            (* nc_type of data *)
                      m_hdf : Z;             (* HDFtype *)
                      m_count : Z;           (* data->count *)
                      m_data : bytes }.      (* data->values, count * szof bytes *)

(** NC_findattr: position of the first attribute whose NC_string equals the C string [name] *)
Fixpoint nc_findattr_from (l : list mattr) (name : bytes) (i : nat) : option nat :=
  match l with
  | [] => None
  | a :: r => if (strlen name =? zlen (m_name a)) && strncmp_eq name (m_name a) (Z.to_nat (strlen name))
              then Some i else nc_findattr_from r name (S i)
  end.
Definition nc_findattr (ap : option (list mattr)) (name : bytes) : option nat :=
  match ap with None => None | Some l => nc_findattr_from l name 0 end.

(** NC_new_attr: NC_new_string refuses names longer than H4_MAX_NC_NAME; the name stored is the C string *)
Definition nc_new_attr (name : bytes) (type nt count : Z) (data : bytes) : option mattr :=
  if H4_MAX_NC_NAME <? strlen name then None else Some (mkM (cstr name) type nt count data).

Fixpoint upd {A} (l : list A) (i : nat) (x : A) : list A :=
  match l, i with
  | [], _ => []
  | _ :: r, O => x :: r
  | y :: r, S j => y :: upd r j x
  end.

(** SDIputattr.  Result: [None] = FAIL (list untouched), [Some ap'] = SUCCEED *)
Definition sdi_putattr (ap : option (list mattr)) (name : bytes) (nt count : Z) (data : bytes)
  : option (option (list mattr)) :=
  match nc_type nt with
  | None => None                                             (* hdf_unmap_type == FAIL *)
  | Some type =>
    match ap with
    | None =>                                                (* first time *)
      match nc_new_attr name type nt count data with
      | Some a => Some (Some [a])
      | None => None
      end
    | Some l =>
      match nc_findattr (Some l) name with
      | Some i =>                                            (* name in use: replace in place *)
        match nc_new_attr name type nt count data with
        | Some a => Some (Some (upd l i a))
        | None => None
        end
      | None =>
        if H4_MAX_NC_ATTRS <=? zlen l then None              (* too many *)
        else match nc_new_attr name type nt count data with
             | Some a => Some (Some (l ++ [a]))              (* NC_incr_array *)
             | None => None
             end
      end
    end
  end.

(** NC_aput (netCDF API).  [rdwr]: file writable; [indef]: in define mode (NC_indefine succeeds).  In data mode an
    existing attribute may only be overwritten by a value that is not larger (NC_re_array).
    Result: [None] = -1, else the new list (the C function returns count - 1). *)
Definition nc_aput (rdwr indef : bool) (ap : option (list mattr)) (name : bytes) (type count szof : Z) (data : bytes)
  : option (option (list mattr)) :=
  if negb rdwr then None else
  match ap with
  | None => if indef then match nc_new_attr name type 0 count data with Some a => Some (Some [a]) | None => None end
            else None
  | Some l =>
    match nc_findattr (Some l) name with
    | Some i =>
      if indef then match nc_new_attr name type 0 count data with Some a => Some (Some (upd l i a)) | None => None end
      else match nth_error l i with
           | Some old => if count * szof <=? zlen (m_data old)
                         then Some (Some (upd l i (mkM (m_name old) type (m_hdf old) count data)))
                         else None
           | None => None
           end
    | None => if H4_MAX_NC_ATTRS <=? zlen l then None
              else if indef then match nc_new_attr name type 0 count data with Some a => Some (Some (l ++ [a])) | None => None end
              else None
    end
  end.

(** SDfindattr: same comparison, written with strlen(attrname) as the strncmp bound *)
Definition sd_findattr (ap : option (list mattr)) (name : bytes) : option nat := nc_findattr ap name.

(** SDattrinfo / SDreadattr: bounds check "index >= ap->count" on the unsigned count *)
Definition sd_attrinfo (ap : option (list mattr)) (index : Z) : option mattr :=
  match ap with
  | None => None
  | Some l => if (index <? 0) || (zlen l <=? index) then None else nth_error l (Z.to_nat index)
  end.

(* ---- predefined attributes ---------------------------------------------------------------------------- *)
Definition bind {A B} (x : option A) (f : A -> option B) : option B := match x with Some a => f a | None => None end.

Definition le_bytes32 (v : Z) : bytes :=
  [Z.land v 255; Z.land (Z.shiftr v 8) 255; Z.land (Z.shiftr v 16) 255; Z.land (Z.shiftr v 24) 255].

(** SDsetcal: five SDIputattr calls; the first failure aborts (earlier puts stay) *)
Definition sd_setcal (ap : option (list mattr)) (cal cale ioff ioffe : bytes) (nt : Z) : option (option (list mattr)) :=
  bind (sdi_putattr ap _HDF_ScaleFactor DFNT_FLOAT64 1 cal) (fun a1 =>
  bind (sdi_putattr a1 _HDF_ScaleFactorErr DFNT_FLOAT64 1 cale) (fun a2 =>
  bind (sdi_putattr a2 _HDF_AddOffset DFNT_FLOAT64 1 ioff) (fun a3 =>
  bind (sdi_putattr a3 _HDF_AddOffsetErr DFNT_FLOAT64 1 ioffe) (fun a4 =>
  sdi_putattr a4 _HDF_CalibratedNt DFNT_INT32 1 (le_bytes32 nt))))).

Definition attr_at (ap : option (list mattr)) (name : bytes) : option mattr :=
  match ap, nc_findattr ap name with
  | Some l, Some i => nth_error l i
  | _, _ => None
  end.

(** SDgetcal: five NC_findattr + NC_copy_arrayvals (all of the attribute's bytes) *)
Definition sd_getcal (ap : option (list mattr)) : option (bytes * bytes * bytes * bytes * bytes) :=
  bind (attr_at ap _HDF_ScaleFactor) (fun a1 =>
  bind (attr_at ap _HDF_ScaleFactorErr) (fun a2 =>
  bind (attr_at ap _HDF_AddOffset) (fun a3 =>
  bind (attr_at ap _HDF_AddOffsetErr) (fun a4 =>
  bind (attr_at ap _HDF_CalibratedNt) (fun a5 =>
  Some (m_data a1, m_data a2, m_data a3, m_data a4, m_data a5)))))).

(** SDsetrange: min then max, [sz] = DFKNTsize(var->HDFtype | DFNT_NATIVE) bytes each *)
Definition sd_setrange (ap : option (list mattr)) (vnt sz : Z) (pmax pmin : bytes) : option (option (list mattr)) :=
  sdi_putattr ap _HDF_ValidRange vnt 2 (fixed sz pmin ++ fixed sz pmax).
(** SDgetrange (valid_range branch): requires the attribute's nc_type to equal the variable's; -> (max, min) *)
Definition sd_getrange (ap : option (list mattr)) (vtype szof : Z) : option (bytes * bytes) :=
  match attr_at ap _HDF_ValidRange with
  | Some a => if m_type a =? vtype
              then Some (firstn (Z.to_nat szof) (skipn (Z.to_nat szof) (m_data a)), firstn (Z.to_nat szof) (m_data a))
              else None
  | None => None
  end.
(** SDgetrange (fall-back branch): attr1 / attr2 are looked up under the names the source gives them, must both have
    the variable's HDF type, and are copied whole to pmax / pmin (which name reaches which: regenerated) *)
Definition sd_getrange_fb (ap : option (list mattr)) (vnt sz : Z) : option (bytes * bytes) :=
  match attr_at ap GETRANGE_MAX_NAME, attr_at ap GETRANGE_MIN_NAME with
  | Some a1, Some a2 => if (m_hdf a1 =? vnt) && (m_hdf a2 =? vnt) then Some (fixed sz (m_data a1), fixed sz (m_data a2)) else None
  | _, _ => None
  end.
(** SDgetdimscale: how many values are read.  A fixed dimension: its size.  An unlimited one: the file-wide record
    count for a netCDF file, the coordinate variable's own record count for an HDF file (the test as the source has it) *)
Definition sd_getdimscale_count (is_hdf : bool) (dimsize file_numrecs var_numrecs : Z) : Z :=
  if negb (dimsize =? 0) then dimsize
  else if (if GETDIMSCALE_FILE_NUMRECS_IF_HDF =? 0 then negb is_hdf else is_hdf) then file_numrecs else var_numrecs.
Definition sd_setfill (ap : option (list mattr)) (vnt sz : Z) (v : bytes) : option (option (list mattr)) :=
  sdi_putattr ap _FillValue vnt 1 (fixed sz v).
Definition sd_getfill (ap : option (list mattr)) : option bytes :=
  match attr_at ap _FillValue with Some a => Some (m_data a) | None => None end.

(** SDsetdatastrs: NULL and empty strings are skipped *)
Definition put_str (ap : option (option (list mattr))) (name : bytes) (s : option bytes) : option (option (list mattr)) :=
  match ap with
  | None => None
  | Some a => match s with
              | Some (x :: r) => if x =? 0 then Some a else sdi_putattr a name DFNT_CHAR (strlen (x :: r)) (cstr (x :: r))
              | _ => Some a
              end
  end.
Definition sd_setdatastrs (ap : option (list mattr)) (l u f c : option bytes) : option (option (list mattr)) :=
  put_str (put_str (put_str (put_str (Some ap) _HDF_LongName l) _HDF_Units u) _HDF_Format f) _HDF_CoordSys c.
(** SDgetdatastrs, one string: strncpy of min(count, len) bytes; NUL-terminated when count < len *)
Definition sd_getstr (ap : option (list mattr)) (name : bytes) (len : Z) : bytes :=
  match attr_at ap name with
  | Some a => cstr (firstn (Z.to_nat (Z.min (m_count a) len)) (m_data a))
  | None => []
  end.

(* ---- variables: coordinate-variable mapping and the lookups ---------------------------------------------- *)
Inductive vtype_t := IS_SDSVAR | IS_CRDVAR | VT_UNKNOWN.
Record mvar := mkMV { mv_name : bytes; mv_rank : Z; mv_vtype : vtype_t; mv_hdf : Z; mv_ref : Z; mv_dim0 : Z }.

Definition name_match (name stored : bytes) : bool :=
  (strlen name =? zlen stored) && strncmp_eq name stored (Z.to_nat (strlen name)).

(** the search loop of SDIgetcoordvar (HDF file) *)
Fixpoint coordvar_from (vs : list mvar) (dimname : bytes) (i : nat) : option nat :=
  match vs with
  | [] => None
  | v :: r => if (mv_rank v =? 1) && name_match dimname (mv_name v)
                 && (match mv_vtype v with IS_SDSVAR => false | _ => true end)
              then Some i else coordvar_from r dimname (S i)
  end.
(** SDIgetcoordvar: index of the coordinate variable, creating it (type nt, or float32 when nt = 0) when missing;
    an existing one is retyped when nt <> 0.  [newref] is what Hnewref returns. *)
Definition sd_getcoordvar (vs : list mvar) (dimname : bytes) (dimid nt newref : Z) : list mvar * nat :=
  match coordvar_from vs dimname 0 with
  | Some i => (match nth_error vs i with
               | Some v => if nt =? 0 then vs else upd vs i (mkMV (mv_name v) (mv_rank v) (mv_vtype v) nt (mv_ref v) (mv_dim0 v))
               | None => vs
               end, i)
  | None => (vs ++ [mkMV dimname 1 IS_CRDVAR (if nt =? 0 then DFNT_FLOAT32 else nt) newref dimid], length vs)
  end.

Fixpoint nametoindex_from (vs : list mvar) (name : bytes) (i : nat) : option nat :=
  match vs with
  | [] => None
  | v :: r => if name_match name (mv_name v) then Some i else nametoindex_from r name (S i)
  end.
Definition sd_nametoindex (vs : list mvar) (name : bytes) : option nat := nametoindex_from vs name 0.
Fixpoint reftoindex_from (vs : list mvar) (ref : Z) (i : nat) : option nat :=
  match vs with
  | [] => None
  | v :: r => if mv_ref v =? ref then Some i else reftoindex_from r ref (S i)
  end.
Definition sd_reftoindex (vs : list mvar) (ref : Z) : option nat := reftoindex_from vs ref 0.
Definition sd_idtoref (vs : list mvar) (i : nat) : option Z := option_map mv_ref (nth_error vs i).

(* ---- GR attribute tree ----------------------------------------------------------------------------------- *)
(** at_info_t; the tree is keyed by [g_index], traversal (tbbtfirst/tbbtnext) is in key order: a list sorted by index *)
Record gattr := mkG { g_index : Z; g_name : bytes; g_nt : Z; g_len : Z; g_data : bytes }.

Fixpoint gr_search (t : list gattr) (name : bytes) : option gattr :=
  match t with
  | [] => None
  | a :: r => if strcmp_eq (g_name a) name then Some a else gr_search r name
  end.
Fixpoint gr_replace (t : list gattr) (idx : Z) (a : gattr) : list gattr :=
  match t with
  | [] => []
  | x :: r => if g_index x =? idx then a :: r else x :: gr_replace r idx a
  end.
(** GRsetattr (argument checks as in the C code; [count_] = *update_count).  [None] = FAIL *)
Definition gr_setattr (t : list gattr) (count_ : Z) (name : bytes) (nt count : Z) (data : bytes)
  : option (list gattr * Z) :=
  match nt_size nt with
  | None => None
  | Some sz =>
    if (MAX_ORDER <? count) || (MAX_FIELD_SIZE <? count * sz) || (count <=? 0) then None else
    match gr_search t name with
    | Some old => if negb (nt =? g_nt old) then None
                  else Some (gr_replace t (g_index old) (mkG (g_index old) (g_name old) (g_nt old) count data), count_)
    | None => Some (t ++ [mkG count_ (cstr name) nt count data], count_ + 1)
    end
  end.
(** GRattrinfo / GRgetattr: range check against the count, then tbbtdfind by index *)
Definition gr_attrinfo (t : list gattr) (count_ index : Z) : option gattr :=
  if (index <? 0) || (count_ <=? index) then None else find (fun a => g_index a =? index) t.
Definition gr_findattr (t : list gattr) (name : bytes) : option Z := option_map g_index (gr_search t name).

(* ---- Vdata / Vgroup attribute tables ---------------------------------------------------------------------- *)
(** the attribute Vdata as VHstoredatam creates it *)
Record avdata := mkAV { av_name : bytes; av_class : bytes; av_field : bytes; av_type : Z; av_order : Z;
                        av_nrecs : Z; av_data : bytes }.
(** one entry of vs->alist (the ref is represented by the Vdata it denotes) *)
Record aentry := mkAE { ae_findex : Z; ae_tag : Z; ae_vd : avdata }.

(** VSsetname keeps at most VSNAMELENMAX bytes *)
Definition vs_setname (n : bytes) : bytes := firstn (Z.to_nat VSNAMELENMAX) (cstr n).
(** VHstoredatam(fid, ATTR_FIELD_NAME, values, 1, datatype, attrname, _HDF_ATTRIBUTE, count) *)
Definition store_attr_vdata (name : bytes) (nt count : Z) (data : bytes) : option avdata :=
  match nt_size nt with
  | None => None
  | Some sz => if (count <? 1) || (MAX_ORDER <? count) || (MAX_FIELD_SIZE <? count * sz) then None
               else Some (mkAV (vs_setname name) _HDF_ATTRIBUTE ATTR_FIELD_NAME nt count 1 data)
  end.

(** the loop of VSsetattr over vs->alist: first entry of this field whose Vdata name equals attrname *)
Inductive vsres := VFail | VOk (l : list aentry).
Fixpoint vs_replace_loop (l : list aentry) (findex : Z) (name : bytes) (nt count : Z) (data : bytes)
  : option vsres (* None = no entry matched *) :=
  match l with
  | [] => None
  | e :: r =>
    if (ae_findex e =? findex) && strcmp_eq (av_name (ae_vd e)) name
    then (if (av_type (ae_vd e) =? nt) && (av_order (ae_vd e) =? count)
          then Some (VOk (mkAE (ae_findex e) (ae_tag e)
                               (mkAV (av_name (ae_vd e)) (av_class (ae_vd e)) (av_field (ae_vd e)) (av_type (ae_vd e))
                                     (av_order (ae_vd e)) (av_nrecs (ae_vd e)) data) :: r))
          else Some VFail)
    else match vs_replace_loop r findex name nt count data with
         | Some (VOk r') => Some (VOk (e :: r'))
         | x => x
         end
  end.
(** VSsetattr ([nfields] = vs->wlist.n, [writable] = access != 'r') *)
(** the access test ("vs->access == 'r'" / "vg->access != 'w'": FAIL), present as often as the source has it *)
Definition access_ok (checks : Z) (writable : bool) : bool := if 0 <? checks then writable else true.
Definition vs_setattr_gen (checks : Z) (writable : bool) (nfields : Z) (l : list aentry) (findex : Z) (name : bytes) (nt count : Z) (data : bytes)
  : vsres :=
  if negb (access_ok checks writable) then VFail else
  if ((nfields <=? findex) || (findex <? 0)) && negb (findex =? _HDF_VDATA) then VFail else
  match vs_replace_loop l findex name nt count data with
  | Some r => r
  | None => match store_attr_vdata name nt count data with
            | Some vd => VOk (l ++ [mkAE findex DFTAG_VH vd])
            | None => VFail
            end
  end.
Definition vs_setattr := vs_setattr_gen VSSETATTR_ACCESS_CHECKS.
(** VSfnattrs *)
Definition vs_fnattrs (l : list aentry) (findex : Z) : Z := zlen (filter (fun e => ae_findex e =? findex) l).
(** VSattrinfo / VSgetattr: the attrindex-th entry of this field; attrindex is first checked against the total *)
Fixpoint vs_nth_of_field (l : list aentry) (findex : Z) (k : nat) : option aentry :=
  match l with
  | [] => None
  | e :: r => if ae_findex e =? findex
              then (match k with O => Some e | S j => vs_nth_of_field r findex j end)
              else vs_nth_of_field r findex k
  end.
Definition vs_attrinfo (l : list aentry) (findex attrindex : Z) : option aentry :=
  if (attrindex <? 0) || (zlen l <=? attrindex) then None else vs_nth_of_field l findex (Z.to_nat attrindex).
(** VSfindattr: per-field index of the first entry of this field whose Vdata name equals attrname *)
Fixpoint vs_findattr_from (l : list aentry) (findex : Z) (name : bytes) (a_index : Z) : option Z :=
  match l with
  | [] => None
  | e :: r => if ae_findex e =? findex
              then (if strcmp_eq (av_name (ae_vd e)) name then Some a_index else vs_findattr_from r findex name (a_index + 1))
              else vs_findattr_from r findex name a_index
  end.
Definition vs_findattr (l : list aentry) (findex : Z) (name : bytes) : option Z := vs_findattr_from l findex name 0.

(** Vsetattr / Vattrinfo / Vfindattr: the same table without field index (entries carry findex 0) *)
Definition vg_setattr (writable : bool) (l : list aentry) (name : bytes) (nt count : Z) (data : bytes) : vsres :=
  vs_setattr_gen VSETATTR_ACCESS_CHECKS writable 1 l 0 name nt count data.
Definition vg_attrinfo (l : list aentry) (i : Z) : option aentry := vs_attrinfo l 0 i.
Definition vg_findattr (l : list aentry) (name : bytes) : option Z := vs_findattr l 0 name.

(* ---- abstraction functions used by the refinement theorems ----------------------------------------------- *)
Definition abs_m (a : mattr) : attr := mkAttr (m_name a) (m_hdf a) (m_count a) (m_data a).
Definition abs_g (a : gattr) : attr := mkAttr (g_name a) (g_nt a) (g_len a) (g_data a).
Definition abs_e (e : aentry) : attr := mkAttr (av_name (ae_vd e)) (av_type (ae_vd e)) (av_order (ae_vd e)) (av_data (ae_vd e)).
Definition abs_field (l : list aentry) (findex : Z) : list attr := map abs_e (filter (fun e => ae_findex e =? findex) l).
