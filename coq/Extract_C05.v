(** Extraction of the C05 specification and models (ExtrOcamlBasic only; Z stays the extracted datatype). *)
Require Import H4.CompSpec.
Require Extraction.
Require ExtrOcamlBasic.
Extraction "../extract/gen/comp_model.ml" s_run b_run elt_empty bitelt_new nbit_params_ok.
