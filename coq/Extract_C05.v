(** Extraction of the C05 specification and models (ExtrOcamlBasic only; Z stays the extracted datatype). *)
Require Import H4.CompSpec H4.CompRleModel H4.CompCodecModel H4.CompBitbufModel.
Require Extraction.
Require ExtrOcamlBasic.
Extraction "../extract/gen/comp_model.ml" s_run b_run elt_empty bitelt_new nbit_params_ok
  rle_write_session rle_decode_all rle_run_reads rle_dec_init
  nbit_encode nbit_decode skp_encode skp_decode hdr_record hdr_encode hdr_decode hdr_query_len
  bw_write bw_flush bitw_init bitr_init br_read br_seek bb_start bb_readbits bb_seek.
