(** C11 -- proofs about the implementation model (ANModel.v) and its relation to the specification (ANSpec.v). *)
From Coq Require Import ZArith List Bool Lia Permutation Sorted.
Require Import H4.gen.Gen_AN H4.ANSpec H4.ANModel.
Import ListNotations.
Local Open Scope Z_scope.

(* ================= 1. the 16-bit codec and the annotation payload ================================== *)
Lemma land_255 : forall x, Z.land x 255 = x mod 256.
Proof. intro x. change 255 with (Z.ones 8). rewrite Z.land_ones by lia. reflexivity. Qed.

Lemma lor_disjoint : forall h l, 0 <= h -> 0 <= l < 256 -> Z.lor (h * 256) l = h * 256 + l.
Proof.
  intros h l Hh Hl.
  assert (Z.land (h * 256) l = 0).
  { apply Z.bits_inj'. intros n Hn. rewrite Z.land_spec, Z.bits_0.
    destruct (Z_lt_ge_dec n 8).
    - change 256 with (2 ^ 8). rewrite Z.mul_pow2_bits_low by lia. reflexivity.
    - assert (Z.testbit l n = false).
      { destruct (Z.eq_dec l 0) as [->|]. apply Z.bits_0.
        apply Z.bits_above_log2. lia. apply Z.log2_lt_pow2. lia.
        apply Z.lt_le_trans with (2 ^ 8). simpl; lia. apply Z.pow_le_mono_r; lia. }
      rewrite H. apply andb_false_r. }
  rewrite <- Z.lxor_lor by assumption. symmetry. apply Z.add_nocarry_lxor. assumption.
Qed.

Lemma codec16 : forall v, 0 <= v < 65536 -> UINT16DECODE (UINT16ENCODE_b0 v) (UINT16ENCODE_b1 v) = v.
Proof.
  intros v Hv. unfold UINT16DECODE, UINT16ENCODE_b0, UINT16ENCODE_b1.
  rewrite !land_255. rewrite Z.shiftr_div_pow2 by lia. rewrite Z.shiftl_mul_pow2 by lia.
  change (2 ^ 8) with 256.
  rewrite (Z.mod_small v 4294967296) by lia.
  assert (H1 : 0 <= v / 256 < 256) by (split; [apply Z.div_pos; lia | apply Z.div_lt_upper_bound; lia]).
  assert (H2 : 0 <= v mod 256 < 256) by (apply Z.mod_pos_bound; lia).
  rewrite !(Z.mod_small (v / 256) 256) by lia.
  rewrite !(Z.mod_small (v mod 256) 256) by lia.
  rewrite (Z.mod_small (v / 256 * 256) 65536) by lia.
  rewrite (Z.mod_small (v mod 256) 65536) by lia.
  rewrite lor_disjoint by lia. rewrite Z.mul_comm. symmetry. apply Z.div_mod. lia.
Qed.

Lemma encode_bytes : forall v, 0 <= UINT16ENCODE_b0 v < 256 /\ 0 <= UINT16ENCODE_b1 v < 256.
Proof. intro v. unfold UINT16ENCODE_b0, UINT16ENCODE_b1. split; apply Z.mod_pos_bound; lia. Qed.

Lemma payload_roundtrip_lemma : forall anntag ttag tref text,
  0 <= ttag < 65536 -> 0 <= tref < 65536 ->
  payload_text anntag (payload anntag ttag tref text) = text /\
  (is_data_tag anntag = true -> decode_target (payload anntag ttag tref text) = (ttag, tref)) /\
  zlen (payload anntag ttag tref text) = zlen text + (if is_data_tag anntag then 4 else 0).
Proof.
  intros anntag ttag tref text Ht Hr. unfold payload_text, payload, zlen.
  destruct (is_data_tag anntag); simpl.
  - split; [reflexivity|]. split; [|lia].
    intros _. unfold decode_target; simpl. rewrite !codec16 by assumption. reflexivity.
  - split; [reflexivity|]. split; [discriminate|lia].
Qed.

(* ================= 2. keys ============================================================================== *)
Lemma lor_disjoint_pow : forall n h l, 0 <= n -> 0 <= l < 2 ^ n -> Z.lor (h * 2 ^ n) l = h * 2 ^ n + l.
Proof.
  intros n h l Hn Hl.
  assert (Z.land (h * 2 ^ n) l = 0).
  { apply Z.bits_inj'. intros m Hm. rewrite Z.land_spec, Z.bits_0.
    destruct (Z_lt_ge_dec m n).
    - rewrite Z.mul_pow2_bits_low by lia. reflexivity.
    - assert (Z.testbit l m = false).
      { destruct (Z.eq_dec l 0) as [->|]. apply Z.bits_0.
        apply Z.bits_above_log2. lia. apply Z.log2_lt_pow2. lia.
        apply Z.lt_le_trans with (2 ^ n). lia. apply Z.pow_le_mono_r; lia. }
      rewrite H. apply andb_false_r. }
  rewrite <- Z.lxor_lor by assumption. symmetry. apply Z.add_nocarry_lxor. assumption.
Qed.

Lemma key_value : forall t r, 0 <= t < 32768 -> 0 <= r < 65536 -> AN_CREATE_KEY t r = t * 65536 + r.
Proof.
  intros t r Ht Hr. unfold AN_CREATE_KEY.
  replace ((t + 2147483648) mod 4294967296 - 2147483648) with t
    by (rewrite Z.mod_small by lia; lia).
  change 65535 with (Z.ones 16). rewrite Z.land_ones by lia.
  rewrite Z.mod_small by (change (2 ^ 16) with 65536; lia).
  rewrite Z.shiftl_mul_pow2 by lia. rewrite lor_disjoint_pow by (change (2 ^ 16) with 65536; lia).
  reflexivity.
Qed.

Lemma key_type : forall t r, 0 <= t < 32768 -> 0 <= r < 65536 -> AN_KEY2TYPE (AN_CREATE_KEY t r) = t.
Proof.
  intros t r Ht Hr. rewrite key_value by assumption. unfold AN_KEY2TYPE.
  replace ((t * 65536 + r + 2147483648) mod 4294967296 - 2147483648) with (t * 65536 + r)
    by (rewrite Z.mod_small by lia; lia).
  rewrite Z.shiftr_div_pow2 by lia. change (2 ^ 16) with 65536.
  replace ((t * 65536 + r) / 65536) with t.
  - rewrite Z.mod_small by lia. lia.
  - apply Z.div_unique with r; lia.
Qed.

Lemma key_ref : forall t r, 0 <= t < 32768 -> 0 <= r < 65536 -> AN_KEY2REF (AN_CREATE_KEY t r) = r.
Proof.
  intros t r Ht Hr. rewrite key_value by assumption. unfold AN_KEY2REF.
  replace ((t * 65536 + r + 2147483648) mod 4294967296 - 2147483648) with (t * 65536 + r)
    by (rewrite Z.mod_small by lia; lia).
  change 65535 with (Z.ones 16). rewrite Z.land_ones by lia. change (2 ^ 16) with 65536.
  rewrite Z.mod_mod by lia.
  symmetry. apply Z.mod_unique with t; lia.
Qed.

Lemma key_inj : forall t r t' r', 0 <= t < 32768 -> 0 <= r < 65536 -> 0 <= t' < 32768 -> 0 <= r' < 65536 ->
  AN_CREATE_KEY t r = AN_CREATE_KEY t' r' -> t = t' /\ r = r'.
Proof.
  intros t r t' r' Ht Hr Ht' Hr' H.
  split; [rewrite <- (key_type t r), <- (key_type t' r') by assumption | rewrite <- (key_ref t r), <- (key_ref t' r') by assumption];
  rewrite H; reflexivity.
Qed.

Lemma cmp_eq : forall i j, (ANIanncmp i j =? 0) = (i =? j).
Proof. intros. unfold ANIanncmp. destruct (i =? j) eqn:E; simpl; [reflexivity|]. destruct (j <? i); reflexivity. Qed.
Lemma cmp_lt : forall i j, (ANIanncmp i j <? 0) = (j <? i).
Proof.
  intros. unfold ANIanncmp. destruct (i =? j) eqn:E; simpl.
  - apply Z.eqb_eq in E. subst. symmetry. apply Z.ltb_irrefl.
  - destruct (j <? i); reflexivity.
Qed.

(* ================= 3. the ordered tree ================================================================== *)
Definition tkeys (t : tree) : list Z := map fst t.

Lemma tfind_In : forall t k e, tfind k t = Some e -> In (k, e) t.
Proof.
  induction t as [|[k' e'] r IH]; simpl; intros k e H; [discriminate|].
  rewrite cmp_eq in H. destruct (k =? k') eqn:E.
  - apply Z.eqb_eq in E. inversion H; subst. left; reflexivity.
  - right. apply IH. assumption.
Qed.

Lemma tfind_None : forall t k, tfind k t = None <-> ~ In k (tkeys t).
Proof.
  induction t as [|[k' e'] r IH]; simpl; intros k.
  - split; auto.
  - rewrite cmp_eq. destruct (k =? k') eqn:E.
    + apply Z.eqb_eq in E. subst. split; [discriminate | intros H; exfalso; apply H; left; reflexivity].
    + apply Z.eqb_neq in E. rewrite IH. split; intros H; [intros [H1|H1]; [congruence | auto] | intros H1; apply H; right; assumption].
Qed.

Lemma In_tfind : forall t k e, NoDup (tkeys t) -> In (k, e) t -> tfind k t = Some e.
Proof.
  induction t as [|[k' e'] r IH]; simpl; intros k e ND H; [contradiction|].
  inversion ND as [|? ? Hn ND']; subst. rewrite cmp_eq. destruct H as [H|H].
  - inversion H; subst. rewrite Z.eqb_refl. reflexivity.
  - destruct (k =? k') eqn:E.
    + apply Z.eqb_eq in E. subst. exfalso. apply Hn. apply (in_map fst) in H. exact H.
    + apply IH; assumption.
Qed.

Lemma tins_In : forall t k e t', tins k e t = Some t' -> forall x, In x t' <-> x = (k, e) \/ In x t.
Proof.
  induction t as [|[k' e'] r IH]; simpl; intros k e t' H x.
  - inversion H; subst. simpl. intuition.
  - rewrite cmp_eq, cmp_lt in H. destruct (k =? k'); [discriminate|].
    destruct (k' <? k).
    + inversion H; subst. simpl. intuition.
    + destruct (tins k e r) as [r'|] eqn:E; [|discriminate]. inversion H; subst. simpl.
      rewrite (IH _ _ _ E x). intuition.
Qed.

Lemma tins_keys : forall t k e t', tins k e t = Some t' -> forall x, In x (tkeys t') <-> x = k \/ In x (tkeys t).
Proof.
  induction t as [|[k' e'] r IH]; simpl; intros k e t' H x.
  - inversion H; subst. simpl. intuition.
  - rewrite cmp_eq, cmp_lt in H. destruct (k =? k'); [discriminate|].
    destruct (k' <? k).
    + inversion H; subst. simpl. intuition.
    + destruct (tins k e r) as [r'|] eqn:E; [|discriminate]. inversion H; subst. simpl.
      rewrite (IH _ _ _ E x). intuition.
Qed.

Definition tsorted (t : tree) : Prop := StronglySorted (fun a b => fst b < fst a) t.

Lemma tsorted_NoDup : forall t, tsorted t -> NoDup (tkeys t).
Proof.
  induction t as [|[k e] r IH]; intros H; simpl; constructor; inversion H as [|? ? Hs Hf]; subst.
  - intros Hin. apply in_map_iff in Hin. destruct Hin as [[k' e'] [E Hin]]. simpl in E. subst.
    rewrite Forall_forall in Hf. specialize (Hf _ Hin). simpl in Hf. lia.
  - apply IH. assumption.
Qed.

Lemma tins_sorted : forall t k e t', tsorted t -> tins k e t = Some t' -> tsorted t'.
Proof.
  induction t as [|[k' e'] r IH]; simpl; intros k e t' Hs H.
  - inversion H; subst. constructor; constructor.
  - rewrite cmp_eq, cmp_lt in H. destruct (k =? k') eqn:E; [discriminate|]. apply Z.eqb_neq in E.
    inversion Hs as [|? ? Hs' Hf]; subst.
    destruct (k' <? k) eqn:L.
    + apply Z.ltb_lt in L. inversion H; subst. constructor; [assumption|].
      constructor; [simpl; lia|]. rewrite Forall_forall in *. intros x Hx. specialize (Hf x Hx). simpl in *. lia.
    + apply Z.ltb_ge in L. destruct (tins k e r) as [r'|] eqn:E2; [|discriminate]. inversion H; subst.
      constructor; [eapply IH; eassumption|].
      rewrite Forall_forall in *. intros x Hx. apply (tins_In _ _ _ _ E2) in Hx. destruct Hx as [->|Hx]; [simpl; lia | auto].
Qed.

Lemma tins_fresh : forall t k e t', tsorted t -> tins k e t = Some t' -> ~ In k (tkeys t).
Proof.
  induction t as [|[k' e'] r IH]; simpl; intros k e t' Hs H; [auto|].
  rewrite cmp_eq, cmp_lt in H. destruct (k =? k') eqn:E; [discriminate|]. apply Z.eqb_neq in E.
  inversion Hs as [|? ? Hs' Hf]; subst.
  destruct (k' <? k) eqn:L.
  - apply Z.ltb_lt in L. intros [H1|H1]; [congruence|].
    apply in_map_iff in H1. destruct H1 as [[k2 e2] [E2 Hin]]. simpl in E2; subst.
    rewrite Forall_forall in Hf. specialize (Hf _ Hin). simpl in Hf. lia.
  - destruct (tins k e r) as [r'|] eqn:E2; [|discriminate].
    intros [H1|H1]; [congruence|]. exact (IH _ _ _ Hs' E2 H1).
Qed.

Lemma tins_some : forall t k e, ~ In k (tkeys t) -> exists t', tins k e t = Some t'.
Proof.
  induction t as [|[k' e'] r IH]; simpl; intros k e H; [eexists; reflexivity|].
  rewrite cmp_eq, cmp_lt. destruct (k =? k') eqn:E.
  - apply Z.eqb_eq in E. exfalso. apply H. left. congruence.
  - destruct (k' <? k); [eexists; reflexivity|].
    destruct (IH k e) as [r' Hr]; [intros Hin; apply H; right; assumption|]. rewrite Hr. eexists; reflexivity.
Qed.

(* ================= 4. the invariant of mfan.c's tables =================================================== *)
Lemma zassoc_In : forall A (l : list (Z * A)) k v, zassoc k l = Some v -> In (k, v) l.
Proof.
  induction l as [|[k' v'] t IH]; simpl; intros k v H; [discriminate|].
  destruct (k =? k') eqn:E; [apply Z.eqb_eq in E; inversion H; subst; left; reflexivity | right; auto].
Qed.
Lemma In_zassoc : forall A (l : list (Z * A)) k v, NoDup (map fst l) -> In (k, v) l -> zassoc k l = Some v.
Proof.
  induction l as [|[k' v'] t IH]; simpl; intros k v ND H; [contradiction|].
  inversion ND as [|? ? Hn ND']; subst. destruct H as [H|H].
  - inversion H; subst. rewrite Z.eqb_refl. reflexivity.
  - destruct (k =? k') eqn:E; [|auto]. apply Z.eqb_eq in E. subst. exfalso. apply Hn.
    apply (in_map fst) in H. exact H.
Qed.

Definition tyok (ty : Z) : Prop := 0 <= ty <= 3.
Definition entry_ok (s : lstate) (ty k : Z) (e : entry) : Prop :=
  1 <= e_annref e <= MAX_REF /\ k = AN_CREATE_KEY ty (e_annref e) /\
  exists nd, zassoc (e_id e) (l_atoms s) = Some nd /\ n_key nd = k.

Record Inv (s : lstate) : Prop := mkInv {
  inv_tree : forall ty t, l_tree s ty = Some t ->
             tyok ty /\ tsorted t /\ forall k e, In (k, e) t -> entry_ok s ty k e;
  inv_ids : forall id nd, In (id, nd) (l_atoms s) -> 0 <= id < l_next s;
  inv_nodup : NoDup (map fst (l_atoms s));
  inv_owner : forall id nd, zassoc id (l_atoms s) = Some nd ->
              exists ty t e, l_tree s ty = Some t /\ In (n_key nd, e) t /\ e_id e = id;
  inv_num : forall ty, l_num s ty = -1 <-> l_tree s ty = None;
  inv_numge : forall ty, -1 <= l_num s ty;
  inv_next : 0 <= l_next s;
  inv_refs : forall d, In d (l_dds s) -> 1 <= d_ref d <= MAX_REF
}.

Lemma Inv_init : Inv linit.
Proof.
  constructor; simpl; try discriminate; try contradiction; try (constructor; fail); try lia.
  intros ty. split; reflexivity.
Qed.

(** only the trees, counters and atoms matter (plus the ref range of the descriptors) *)
Lemma Inv_ext : forall s s', Inv s ->
  (forall ty, l_tree s' ty = l_tree s ty) -> (forall ty, l_num s' ty = -1 <-> l_num s ty = -1) ->
  (forall ty, -1 <= l_num s' ty) ->
  l_atoms s' = l_atoms s -> l_next s' = l_next s ->
  (forall d, In d (l_dds s') -> 1 <= d_ref d <= MAX_REF) -> Inv s'.
Proof.
  intros s s' [I1 I2 I3 I4 I5 I5b I6 I7] Ht Hn Hg Ha Hx Hr.
  constructor; try rewrite Ha; try rewrite Hx; auto.
  - intros ty t H. rewrite Ht in H. destruct (I1 ty t H) as [A [B C]]. split; [assumption|]. split; [assumption|].
    intros k e Hin. destruct (C k e Hin) as [X [Y [nd Z]]]. split; [assumption|]. split; [assumption|].
    exists nd. rewrite Ha. assumption.
  - intros id nd H. destruct (I4 id nd H) as [ty [t [e [A B]]]]. exists ty, t, e. rewrite Ht. auto.
  - intros ty. rewrite Hn, Ht. apply I5.
Qed.

Lemma upd_same : forall A (f : Z -> A) k v, upd f k v k = v.
Proof. intros. unfold upd. rewrite Z.eqb_refl. reflexivity. Qed.
Lemma upd_other : forall A (f : Z -> A) k v k', k' <> k -> upd f k v k' = f k'.
Proof. intros. unfold upd. destruct (k' =? k) eqn:E; [apply Z.eqb_eq in E; congruence | reflexivity]. Qed.

(** opening an empty tree for a type that has none *)
Lemma Inv_open_tree : forall s ty, Inv s -> tyok ty -> l_tree s ty = None -> Inv (set_tree s ty (Some []) 0).
Proof.
  intros s ty [I1 I2 I3 I4 I5 I5b I6 I7] Hty Hnone. constructor; simpl; auto.
  - intros ty' t H. destruct (Z.eq_dec ty' ty) as [->|N].
    + rewrite upd_same in H. inversion H; subst. split; [assumption|]. split; [constructor|]. intros k e [].
    + rewrite upd_other in H by assumption. exact (I1 ty' t H).
  - intros id nd H. destruct (I4 id nd H) as [ty' [t [e [A [B C]]]]]. exists ty', t, e.
    split; [|auto]. destruct (Z.eq_dec ty' ty) as [->|N]; [congruence|]. rewrite upd_other by assumption. assumption.
  - intros ty'. destruct (Z.eq_dec ty' ty) as [->|N].
    + rewrite !upd_same. split; discriminate.
    + rewrite !upd_other by assumption. apply I5.
  - intros ty'. unfold upd. destruct (ty' =? ty); [lia | apply I5b].
Qed.

(** one insertion *)
Lemma add_core_Inv : forall s ty annref etag eref new s' id,
  Inv s -> 1 <= annref <= MAX_REF ->
  add_core s ty annref etag eref new = Some (s', id) ->
  Inv s' /\ id = l_next s /\ l_dds s' = l_dds s /\ (forall ty', l_num s' ty' = l_num s ty') /\
  (forall ty', ty' <> ty -> l_tree s' ty' = l_tree s ty') /\
  (exists t t', l_tree s ty = Some t /\ l_tree s' ty = Some t' /\
                tins (AN_CREATE_KEY ty annref) (mkentry id annref etag eref) t = Some t') /\
  l_atoms s' = (id, mknode (AN_CREATE_KEY ty annref) new) :: l_atoms s.
Proof.
  intros s ty annref etag eref new s' id HI Hr H. unfold add_core in H.
  destruct (l_tree s ty) as [t|] eqn:Et; [|discriminate].
  destruct (tins _ _ t) as [t'|] eqn:Ei; [|discriminate]. inversion H; subst; clear H.
  destruct HI as [I1 I2 I3 I4 I5 I5b I6 I7].
  destruct (I1 ty t Et) as [Hty [Hs Hent]].
  assert (Hold : forall i nd, zassoc i (l_atoms s) = Some nd -> (i =? l_next s) = false).
  { intros i nd Hz. apply zassoc_In in Hz. apply I2 in Hz. apply Z.eqb_neq. lia. }
  assert (Hnum : forall ty', upd (l_num s) ty (l_num s ty) ty' = l_num s ty').
  { intros ty'. unfold upd. destruct (ty' =? ty) eqn:E; [apply Z.eqb_eq in E; subst|]; reflexivity. }
  split.
  { constructor; simpl.
    - intros ty' t0 H. destruct (Z.eq_dec ty' ty) as [->|N].
      + rewrite upd_same in H. inversion H; subst t0; clear H. split; [assumption|].
        split; [eapply tins_sorted; eassumption|].
        intros k e Hin. apply (tins_In _ _ _ _ Ei) in Hin. destruct Hin as [Hin|Hin].
        * inversion Hin; subst. split; [simpl; assumption|]. split; [reflexivity|]. simpl.
          rewrite Z.eqb_refl. eexists; split; reflexivity.
        * destruct (Hent k e Hin) as [A [B [nd [C D]]]]. split; [assumption|]. split; [assumption|].
          exists nd. simpl. rewrite (Hold _ _ C). split; assumption.
      + rewrite upd_other in H by assumption. destruct (I1 ty' t0 H) as [A [B C]].
        split; [assumption|]. split; [assumption|]. intros k e Hin.
        destruct (C k e Hin) as [X [Y [nd [Z1 Z2]]]]. split; [assumption|]. split; [assumption|].
        exists nd. simpl. rewrite (Hold _ _ Z1). split; assumption.
    - intros i nd [H|H]; [inversion H; subst; lia | apply I2 in H; lia].
    - constructor; [|assumption]. intros Hin. apply in_map_iff in Hin. destruct Hin as [[i nd] [E Hin]].
      simpl in E; subst. apply I2 in Hin. lia.
    - intros i nd H. destruct (i =? l_next s) eqn:E.
      + apply Z.eqb_eq in E. inversion H; subst. simpl. exists ty, t', (mkentry (l_next s) annref etag eref).
        rewrite upd_same. split; [reflexivity|]. split; [|reflexivity].
        apply (tins_In _ _ _ _ Ei). left; reflexivity.
      + destruct (I4 i nd H) as [ty' [t0 [e [A [B C]]]]].
        destruct (Z.eq_dec ty' ty) as [->|N].
        * exists ty, t', e. rewrite upd_same. split; [reflexivity|]. split; [|assumption].
          rewrite Et in A. inversion A; subst. apply (tins_In _ _ _ _ Ei). right; assumption.
        * exists ty', t0, e. rewrite upd_other by assumption. auto.
    - intros ty'. rewrite Hnum. destruct (Z.eq_dec ty' ty) as [->|N].
      + rewrite upd_same. split; [intros H; apply I5 in H; congruence | discriminate].
      + rewrite upd_other by assumption. apply I5.
    - intros ty'. rewrite Hnum. apply I5b.
    - lia.
    - assumption. }
  split; [reflexivity|]. split; [reflexivity|]. split; [exact Hnum|].
  split; [intros ty' N; simpl; apply upd_other; assumption|].
  split; [exists t, t'; simpl; rewrite upd_same; auto | reflexivity].
Qed.

Lemma atype2tag_ok : forall ty g, atype2tag ty = Some g -> tyok ty.
Proof.
  intros ty g H. unfold atype2tag, ANatype2tag_ann_tag_switch in H. simpl in H. unfold tyok.
  repeat match type of H with context [?a =? ?b] => destruct (Z.eqb_spec a b); [subst; lia|] end. discriminate.
Qed.

Lemma load_tree_Inv : forall ty tag els s s',
  Inv s -> (forall d, In d els -> 1 <= d_ref d <= MAX_REF) -> load_tree ty tag els s = Some s' ->
  Inv s' /\ l_dds s' = l_dds s /\ (forall ty', l_num s' ty' = l_num s ty') /\
  (forall ty', ty' <> ty -> l_tree s' ty' = l_tree s ty').
Proof.
  induction els as [|d rest IH]; simpl; intros s s' HI Hr H.
  - inversion H; subst. auto.
  - destruct (add_core s ty (d_ref d) _ _ false) as [[s1 id]|] eqn:E; [|discriminate].
    destruct (add_core_Inv _ _ _ _ _ _ _ _ HI (Hr d (or_introl eq_refl)) E) as [HI1 [_ [Hd [Hn [Ht _]]]]].
    destruct (IH s1 s' HI1 (fun x Hx => Hr x (or_intror Hx)) H) as [HI2 [Hd2 [Hn2 Ht2]]].
    split; [assumption|]. split; [congruence|]. split; [intros; rewrite Hn2; apply Hn|].
    intros ty' N. rewrite Ht2 by assumption. apply Ht; assumption.
Qed.

Lemma of_tag_In : forall tag dds d, In d (of_tag tag dds) -> In d dds /\ d_tag d = tag.
Proof. intros tag dds d H. unfold of_tag in H. apply filter_In in H. destruct H as [A B]. apply Z.eqb_eq in B. auto. Qed.

Lemma create_tree_Inv : forall s ty s' n, Inv s -> tyok ty -> ANIcreate_ann_tree s ty = (s', n) ->
  Inv s' /\ l_dds s' = l_dds s /\ (n <> FAILV -> exists t, l_tree s' ty = Some t) /\
  (forall ty', ty' <> ty -> l_tree s' ty' = l_tree s ty' /\ l_num s' ty' = l_num s ty').
Proof.
  intros s ty s' n HI Hty H. unfold ANIcreate_ann_tree in H.
  destruct (l_num s ty =? -1) eqn:En; simpl in H.
  2:{ inversion H; subst. split; [assumption|]. split; [reflexivity|]. split; [|auto].
      intros _. apply Z.eqb_neq in En. destruct (l_tree s' ty) as [t|] eqn:Et; [eauto|].
      exfalso. apply En. apply (inv_num _ HI). assumption. }
  apply Z.eqb_eq in En. assert (Hnone : l_tree s ty = None) by (apply (inv_num _ HI); assumption).
  pose proof (Inv_open_tree s ty HI Hty Hnone) as HI0.
  assert (Hoth : forall ty', ty' <> ty -> l_tree (set_tree s ty (Some []) 0) ty' = l_tree s ty' /\
                                          l_num (set_tree s ty (Some []) 0) ty' = l_num s ty').
  { intros ty' N. simpl. rewrite !upd_other by assumption. auto. }
  destruct (atype2tag ty) as [tag|].
  2:{ inversion H; subst. split; [assumption|]. split; [reflexivity|]. split; [intros X; exfalso; apply X; reflexivity|]. exact Hoth. }
  destruct (load_tree ty tag (of_tag tag (l_dds s)) _) as [s1|] eqn:El.
  2:{ inversion H; subst. split; [assumption|]. split; [reflexivity|]. split; [intros X; exfalso; apply X; reflexivity|]. exact Hoth. }
  inversion H; subst; clear H.
  destruct (load_tree_Inv _ _ _ _ _ HI0 (fun d Hd => inv_refs _ HI d (proj1 (of_tag_In _ _ _ Hd))) El) as [HI1 [Hd [Hn Ht]]].
  assert (Hsome : exists t, l_tree s1 ty = Some t).
  { destruct (l_tree s1 ty) as [t|] eqn:E; [eauto|]. apply (inv_num _ HI1) in E. rewrite Hn in E. simpl in E.
    rewrite upd_same in E. discriminate. }
  split.
  { apply (Inv_ext s1); auto.
    - intros ty'. simpl. unfold upd. destruct (ty' =? ty) eqn:E; [apply Z.eqb_eq in E; subst|]; reflexivity.
    - intros ty'. simpl. unfold upd. destruct (ty' =? ty) eqn:E; [|reflexivity]. apply Z.eqb_eq in E; subst.
      rewrite Hn. simpl. rewrite upd_same. unfold zlen. split; intros X; lia.
    - intros ty'. simpl. unfold upd. destruct (ty' =? ty); [unfold zlen; lia | apply (inv_numge _ HI1)].
    - simpl. apply (inv_refs _ HI1). }
  split; [simpl; simpl in Hd; assumption|].
  split; [intros _; simpl; rewrite upd_same; assumption|].
  intros ty' N. simpl. rewrite !upd_other by assumption. rewrite Ht by assumption. rewrite Hn. exact (Hoth ty' N).
Qed.

(* ================= 5. new refs are fresh (the repaired ANIcreate) ========================================= *)
Lemma existsb_eqb_In : forall r l, existsb (Z.eqb r) l = true <-> In r l.
Proof.
  intros r l. rewrite existsb_exists. split.
  - intros [x [H E]]. apply Z.eqb_eq in E. subst. assumption.
  - intros H. exists r. split; [assumption | apply Z.eqb_refl].
Qed.

Lemma first_free_spec : forall from used r, first_free from used = Some r -> from <= r /\ ~ In r used.
Proof.
  intros from used r H. unfold first_free in H. apply find_some in H. destruct H as [Hin Hb].
  apply in_map_iff in Hin. destruct Hin as [i [E _]]. split; [lia|].
  intros Hc. apply existsb_eqb_In in Hc. rewrite Hc in Hb. discriminate.
Qed.

(** pigeonhole: among length used + 1 consecutive values one is unused *)
Lemma first_free_exists : forall from used, exists r, first_free from used = Some r.
Proof.
  intros from used. unfold first_free.
  destruct (find _ _) as [r|] eqn:E; [eauto|]. exfalso.
  set (cands := map (fun i => from + Z.of_nat i) (seq 0 (S (length used)))) in *.
  assert (Hincl : incl cands used).
  { intros x Hx. pose proof (find_none _ _ E x Hx) as Hn. apply negb_false_iff in Hn. apply existsb_eqb_In. assumption. }
  assert (Hnd : NoDup cands).
  { unfold cands. apply FinFun.Injective_map_NoDup; [|apply seq_NoDup]. intros a b Hab. lia. }
  pose proof (NoDup_incl_length Hnd Hincl) as Hlen. unfold cands in Hlen. rewrite map_length, seq_length in Hlen. lia.
Qed.

Lemma htagnewref_range : forall tag dds r, htagnewref tag dds = r -> r <> 0 ->
  1 <= r <= MAX_REF /\ ~ In r (map d_ref (of_tag tag dds)).
Proof.
  intros tag dds r H N. unfold htagnewref in H.
  destruct (first_free 1 _) as [x|] eqn:E; [|congruence].
  destruct (x <=? MAX_REF) eqn:L; [|congruence]. subst. apply Z.leb_le in L.
  apply first_free_spec in E. destruct E. auto.
Qed.

Lemma ANInewref_fresh : forall s ty tag r, ANInewref s ty tag = r -> r <> 0 ->
  1 <= r <= MAX_REF /\
  ~ In r (tree_refs (match l_tree s ty with Some t => t | None => [] end)) /\
  ~ In r (map d_ref (of_tag tag (l_dds s))).
Proof.
  intros s ty tag r H N. unfold ANInewref in H.
  destruct (htagnewref tag (l_dds s) =? 0) eqn:E0; [congruence|]. apply Z.eqb_neq in E0.
  destruct (htagnewref_range _ _ _ eq_refl E0) as [[Hlo _] _].
  destruct (first_free _ _) as [x|] eqn:E; [|congruence].
  destruct (x <=? MAX_REF) eqn:L; [|congruence]. subst. apply Z.leb_le in L.
  apply first_free_spec in E. destruct E as [A B]. split; [lia|].
  split; intros Hc; apply B; apply in_or_app; auto.
Qed.

Lemma tkeys_refs : forall s ty t k, Inv s -> l_tree s ty = Some t -> In k (tkeys t) ->
  exists r, In r (tree_refs t) /\ k = AN_CREATE_KEY ty r /\ 1 <= r <= MAX_REF.
Proof.
  intros s ty t k HI Ht Hin. apply in_map_iff in Hin. destruct Hin as [[k' e] [E Hin]]. simpl in E; subst.
  destruct (inv_tree _ HI ty t Ht) as [_ [_ C]]. destruct (C k e Hin) as [A [B _]].
  exists (e_annref e). split; [|auto]. unfold tree_refs. apply in_map_iff. exists (k, e). auto.
Qed.

Lemma MAX_REF_val : MAX_REF = 65535. Proof. reflexivity. Qed.

Lemma ANIaddentry_Inv : forall s ty annref etag eref new s' id,
  Inv s -> 1 <= annref <= MAX_REF -> l_num s ty <> -1 ->
  ~ In annref (tree_refs (match l_tree s ty with Some t => t | None => [] end)) ->
  ANIaddentry s ty annref etag eref new = (s', id) ->
  Inv s' /\ (l_dds s' = l_dds s) /\
  (id <> FAILV -> exists nd, zassoc id (l_atoms s') = Some nd /\ n_key nd = AN_CREATE_KEY ty annref /\ n_new nd = new).
Proof.
  intros s ty annref etag eref new s' id HI Hr Hnum Hfresh H. unfold ANIaddentry in H.
  destruct (l_num s ty =? -1) eqn:E; [apply Z.eqb_eq in E; congruence|]. clear E.
  destruct (atype2tag ty) as [tag|] eqn:Et; [|inversion H; subst; auto].
  2:{ split; [assumption|]. split; [reflexivity|]. intros X; exfalso; apply X; reflexivity. }
  pose proof (atype2tag_ok _ _ Et) as Hty.
  match type of H with context [add_core s ty annref ?a ?b new] => destruct (add_core s ty annref a b new) as [[s2 id2]|] eqn:Ea end.
  - inversion H; subst; clear H.
    destruct (add_core_Inv _ _ _ _ _ _ _ _ HI Hr Ea) as [HI2 [Hid [Hd [Hn [Ht [[t [t' [A [B C]]]] Hat]]]]]].
    split.
    { apply (Inv_ext s2); auto.
      - intros ty'. simpl. unfold upd. destruct (ty' =? ty) eqn:E; [apply Z.eqb_eq in E; subst|]; reflexivity.
      - intros ty'. simpl. unfold upd. destruct (ty' =? ty) eqn:E; [|reflexivity]. apply Z.eqb_eq in E; subst.
        pose proof (inv_numge _ HI2 ty). rewrite Hn in *. split; intros X; lia.
      - intros ty'. simpl. unfold upd. destruct (ty' =? ty); [pose proof (inv_numge _ HI2 ty); lia | apply (inv_numge _ HI2)].
      - simpl. apply (inv_refs _ HI2). }
    split; [simpl; assumption|]. intros _. simpl. rewrite Hat. simpl. rewrite Z.eqb_refl. eexists. split; [reflexivity|]. auto.
  - (* tbbtdins refused the key: impossible, the ref is not in the tree *)
    exfalso. unfold add_core in Ea. destruct (l_tree s ty) as [t|] eqn:Etr.
    + match type of Ea with context [tins ?k ?e t] => destruct (tins_some t k e) as [t' Hs] end.
      * intros Hin. destruct (tkeys_refs _ _ _ _ HI Etr Hin) as [r [Hr1 [Hk Hr2]]].
        rewrite MAX_REF_val in *. apply key_inj in Hk; try (unfold tyok in Hty; lia). destruct Hk; subst. auto.
      * rewrite Hs in Ea. discriminate.
    + apply (inv_num _ HI) in Etr. congruence.
Qed.

Lemma ANIcreate_Inv : forall s etag eref ty s' id, Inv s -> ANIcreate s etag eref ty = (s', id) ->
  Inv s' /\ l_dds s' = l_dds s /\
  (id <> FAILV -> exists nd, zassoc id (l_atoms s') = Some nd /\ AN_KEY2TYPE (n_key nd) = ty /\ n_new nd = true).
Proof.
  intros s etag eref ty s' id HI H. unfold ANIcreate in H.
  destruct (atype2tag ty) as [tag|] eqn:Et.
  2:{ inversion H; subst. split; [assumption|]. split; [reflexivity|]. intros X; exfalso; apply X; reflexivity. }
  pose proof (atype2tag_ok _ _ Et) as Hty.
  assert (Hload : exists s1 n, (if l_num s ty =? -1 then ANIcreate_ann_tree s ty else (s, 0)) = (s1, n) /\
                   Inv s1 /\ l_dds s1 = l_dds s /\ (n <> FAILV -> l_num s1 ty <> -1)).
  { destruct (l_num s ty =? -1) eqn:En.
    - destruct (ANIcreate_ann_tree s ty) as [s1 n] eqn:Ec. exists s1, n.
      destruct (create_tree_Inv _ _ _ _ HI Hty Ec) as [A [B [C _]]]. split; [reflexivity|]. split; [assumption|].
      split; [assumption|]. intros Hn. destruct (C Hn) as [t Ht]. intros X. apply (inv_num _ A) in X. congruence.
    - exists s, 0. split; [reflexivity|]. split; [assumption|]. split; [reflexivity|]. intros _. apply Z.eqb_neq. assumption. }
  destruct Hload as [s1 [n [E1 [HI1 [Hd1 Hn1]]]]]. rewrite E1 in H.
  destruct (n =? FAILV) eqn:En.
  { inversion H; subst. split; [assumption|]. split; [assumption|]. intros X; exfalso; apply X; reflexivity. }
  apply Z.eqb_neq in En.
  remember (ANInewref s1 ty tag) as annref eqn:Er.
  match type of H with (if ?c then _ else _) = _ => destruct c eqn:Ez end.
  { inversion H; subst s' id. split; [assumption|]. split; [assumption|]. intros X; exfalso; apply X; reflexivity. }
  apply orb_false_iff in Ez. destruct Ez as [Ez _]. apply orb_false_iff in Ez. destruct Ez as [Ez _].
  apply Z.eqb_neq in Ez.
  destruct (ANInewref_fresh _ _ _ _ (eq_sym Er) Ez) as [Hr [Hf _]].
  destruct (ANIaddentry_Inv _ _ _ _ _ _ _ _ HI1 Hr (Hn1 En) Hf H) as [A [B C]].
  split; [assumption|]. split; [congruence|]. intros Hid. destruct (C Hid) as [nd [X [Y Z]]].
  exists nd. split; [assumption|]. split; [|assumption]. rewrite Y. rewrite MAX_REF_val in Hr.
  apply key_type; unfold tyok in Hty; lia.
Qed.

Lemma set_node_assoc : forall l id n i, zassoc i (set_node id n l) =
  if i =? id then (match zassoc id l with Some _ => Some n | None => None end) else zassoc i l.
Proof.
  induction l as [|[j x] t IH]; simpl; intros id n i.
  - destruct (i =? id); reflexivity.
  - destruct (j =? id) eqn:Ej; simpl.
    + apply Z.eqb_eq in Ej. subst j. destruct (i =? id) eqn:Ei; [rewrite Z.eqb_refl; reflexivity|reflexivity].
    + rewrite IH. destruct (i =? j) eqn:Eij.
      * apply Z.eqb_eq in Eij. subst j. rewrite Ej. reflexivity.
      * destruct (i =? id) eqn:Ei; [|reflexivity]. apply Z.eqb_eq in Ei. subst i. rewrite Z.eqb_sym, Ej. reflexivity.
Qed.
Lemma set_node_keys : forall l id n, map fst (set_node id n l) = map fst l.
Proof.
  induction l as [|[j x] t IH]; simpl; intros; [reflexivity|]. destruct (j =? id) eqn:E; simpl; [|rewrite IH; reflexivity].
  reflexivity.
Qed.
Lemma set_node_In : forall l id n i x, In (i, x) (set_node id n l) -> exists y, In (i, y) l.
Proof.
  induction l as [|[j y] t IH]; simpl; intros id n i x H; [contradiction|].
  destruct (j =? id) eqn:E; simpl in H.
  - destruct H as [H|H]; [inversion H; subst; apply Z.eqb_eq in E; subst; eauto | eauto].
  - destruct H as [H|H]; [inversion H; subst; eauto|]. destruct (IH _ _ _ _ H) as [z Hz]. eauto.
Qed.

(** clearing the new-annotation flag of one node keeps the invariant *)
Lemma Inv_set_node : forall s id nd, Inv s -> zassoc id (l_atoms s) = Some nd ->
  Inv (set_atoms s (set_node id (mknode (n_key nd) false) (l_atoms s)) (l_next s)).
Proof.
  intros s id nd HI Hz. destruct HI as [I1 I2 I3 I4 I5 I5b I6 I7]. constructor; simpl; auto.
  - intros ty t H. destruct (I1 ty t H) as [A [B C]]. split; [assumption|]. split; [assumption|].
    intros k e Hin. destruct (C k e Hin) as [X [Y [n0 [Z1 Z2]]]]. split; [assumption|]. split; [assumption|].
    simpl. rewrite set_node_assoc. destruct (e_id e =? id) eqn:E.
    + apply Z.eqb_eq in E. rewrite E in Z1. rewrite Hz in *. inversion Z1; subst. eexists; split; [reflexivity | simpl; congruence].
    + eauto.
  - intros i x H. destruct (set_node_In _ _ _ _ _ H) as [y Hy]. eapply I2; eassumption.
  - rewrite set_node_keys. assumption.
  - intros i x H. rewrite set_node_assoc in H. destruct (i =? id) eqn:E.
    + apply Z.eqb_eq in E. subst i. rewrite Hz in H. inversion H; subst. simpl. apply (I4 id nd Hz).
    + apply (I4 i x H).
Qed.

Lemma hput_refs : forall tag ref data dds d, In d (hput tag ref data dds) -> In d dds \/ d_ref d = ref.
Proof.
  induction dds as [|x t IH]; simpl; intros d H.
  - destruct H as [H|[]]. subst. right; reflexivity.
  - destruct (dd_is tag ref x) eqn:E; simpl in H.
    + destruct H as [H|H]; [subst; right; reflexivity | left; right; assumption].
    + destruct H as [H|H]; [left; left; assumption|]. destruct (IH d H); auto.
Qed.

Lemma ANIwriteann_Inv : forall s id text s' ok, Inv s -> ANIwriteann s id text = (s', ok) -> Inv s'.
Proof.
  intros s id text s' ok HI H. unfold ANIwriteann in H.
  destruct (zassoc id (l_atoms s)) as [nd|] eqn:Ez; [|inversion H; subst; assumption].
  destruct (atype2tag _) as [tag|] eqn:Et; [|inversion H; subst; assumption].
  destruct (l_tree s _) as [t|] eqn:Etr; [|inversion H; subst; assumption].
  destruct (tfind _ t) as [e|] eqn:Ef; [|inversion H; subst; assumption].
  assert (HI1 : Inv (if n_new nd then set_atoms s (set_node id (mknode (n_key nd) false) (l_atoms s)) (l_next s) else s)).
  { destruct (n_new nd); [apply Inv_set_node; assumption | assumption]. }
  match type of H with (if ?c then _ else _) = _ => destruct c end; [inversion H; subst; assumption|].
  inversion H; subst; clear H.
  (* the ref written is the ref of a tree entry: in range *)
  apply tfind_In in Ef. destruct (inv_tree _ HI _ _ Etr) as [Hty [_ C]]. destruct (C _ _ Ef) as [Hr [Hk _]].
  assert (Href : AN_KEY2REF (n_key nd) = e_annref e).
  { rewrite Hk. rewrite MAX_REF_val in Hr. apply key_ref; unfold tyok in Hty; lia. }
  match goal with |- Inv (set_dds ?s1 _) => apply (Inv_ext s1); auto end.
  - reflexivity.
  - apply (inv_numge _ HI1).
  - simpl. intros d Hd. apply hput_refs in Hd. destruct Hd as [Hd|Hd].
    + apply (inv_refs _ HI1). destruct (n_new nd); exact Hd.
    + rewrite Hd, Href. assumption.
Qed.

Lemma ANend_Inv : forall s, Inv s -> Inv (ANend s).
Proof.
  intros s HI. unfold ANend. constructor; simpl; try discriminate.
  - intros id nd H. apply filter_In in H. destruct H as [H _]. apply (inv_ids _ HI id nd H).
  - pose proof (inv_nodup _ HI) as ND. induction (l_atoms s) as [|[i x] t IH]; simpl; [constructor|].
    inversion ND; subst. destruct (negb _); simpl; [constructor|]; auto.
    intros Hin. apply in_map_iff in Hin. destruct Hin as [[j y] [E Hin]]. simpl in E; subst.
    apply filter_In in Hin. destruct Hin as [Hin _]. apply H1. apply (in_map fst) in Hin. exact Hin.
  - (* every atom belonged to an entry of one of the four trees, so none is left *)
    intros id nd H. exfalso. apply zassoc_In in H. apply filter_In in H. destruct H as [Hin Hf].
    apply In_zassoc in Hin; [|apply (inv_nodup _ HI)].
    destruct (inv_owner _ HI id nd Hin) as [ty [t [e [A [B C]]]]].
    destruct (inv_tree _ HI ty t A) as [Hty _]. apply negb_true_iff in Hf.
    assert (Hx : existsb (Z.eqb id) (concat (map (fun ty0 => match l_tree s ty0 with
                   | Some t0 => map (fun p => e_id (snd p)) t0 | None => [] end)
                   [AN_FILE_LABEL; AN_FILE_DESC; AN_DATA_LABEL; AN_DATA_DESC])) = true).
    { apply existsb_eqb_In. apply in_concat. exists (map (fun p => e_id (snd p)) t). split.
      - apply in_map_iff. exists ty. rewrite A. split; [reflexivity|].
        unfold tyok in Hty. unfold AN_FILE_LABEL, AN_FILE_DESC, AN_DATA_LABEL, AN_DATA_DESC. simpl.
        assert (ty = 0 \/ ty = 1 \/ ty = 2 \/ ty = 3) by lia. intuition.
      - apply in_map_iff. exists (n_key nd, e). auto. }
    exact (Bool.diff_true_false (eq_trans (eq_sym Hx) Hf)).
  - intros ty. split; reflexivity.
  - apply (inv_next _ HI).
  - apply (inv_refs _ HI).
Qed.

(* ================= 6. every library call keeps the invariant ============================================= *)
Lemma need_tree_Inv : forall s ty s1 r, Inv s -> tyok ty -> need_tree s ty = (s1, r) ->
  Inv s1 /\ l_dds s1 = l_dds s /\ (forall t, r = Some t -> l_tree s1 ty = Some t).
Proof.
  intros s ty s1 r HI Hty H. unfold need_tree in H.
  destruct (l_num s ty =? -1) eqn:En.
  - destruct (ANIcreate_ann_tree s ty) as [s2 n] eqn:Ec.
    destruct (create_tree_Inv _ _ _ _ HI Hty Ec) as [A [B _]].
    destruct (n =? FAILV); inversion H; subst; (split; [assumption|]; split; [assumption|]); [discriminate|auto].
  - simpl in H. inversion H; subst. split; [assumption|]. split; [reflexivity|]. auto.
Qed.

Lemma tagref2id_type_ok : forall g ty, zassoc g ANtagref2id_type_switch = Some ty -> tyok ty.
Proof.
  intros g ty H. unfold ANtagref2id_type_switch in H. simpl in H. unfold tyok.
  repeat match type of H with context [?a =? ?b] => destruct (a =? b); [inversion H; subst; lia|] end. discriminate.
Qed.

Lemma ANselect_Inv : forall s i ty s' id, Inv s -> tyok ty -> ANselect s i ty = (s', id) -> Inv s' /\ l_dds s' = l_dds s.
Proof.
  intros s i ty s' id HI Hty H. unfold ANselect in H. destruct (need_tree s ty) as [s1 [t|]] eqn:E;
  destruct (need_tree_Inv _ _ _ _ HI Hty E) as [A [B _]].
  - destruct (truth _); [destruct (tindex _ _)|]; inversion H; subst; auto.
  - inversion H; subst; auto.
Qed.
Lemma ANnumann_Inv : forall s ty g r s' n, Inv s -> tyok ty -> ANnumann s ty g r = (s', n) -> Inv s' /\ l_dds s' = l_dds s.
Proof.
  intros s ty g r s' n HI Hty H. unfold ANnumann, ANInumann in H.
  destruct (_ || _); [inversion H; subst; auto|].
  destruct (need_tree s ty) as [s1 [t|]] eqn:E; destruct (need_tree_Inv _ _ _ _ HI Hty E) as [A [B _]]; inversion H; subst; auto.
Qed.
Lemma ANannlist_Inv : forall s ty g r s' n, Inv s -> tyok ty -> ANannlist s ty g r = (s', n) -> Inv s' /\ l_dds s' = l_dds s.
Proof.
  intros s ty g r s' n HI Hty H. unfold ANannlist, ANIannlist in H.
  destruct (_ || _); [inversion H; subst; auto|].
  destruct (need_tree s ty) as [s1 [t|]] eqn:E; destruct (need_tree_Inv _ _ _ _ HI Hty E) as [A [B _]]; inversion H; subst; auto.
Qed.
Lemma ANget_tagref_Inv : forall s i ty s' r, Inv s -> tyok ty -> ANget_tagref s i ty = (s', r) -> Inv s' /\ l_dds s' = l_dds s.
Proof.
  intros s i ty s' r HI Hty H. unfold ANget_tagref in H. destruct (need_tree s ty) as [s1 [t|]] eqn:E;
  destruct (need_tree_Inv _ _ _ _ HI Hty E) as [A [B _]].
  - destruct (truth _); [destruct (tindex _ _); [destruct (zassoc _ _)|]|]; inversion H; subst; auto.
  - inversion H; subst; auto.
Qed.
Lemma ANtagref2id_Inv : forall s g r s' id, Inv s -> ANtagref2id s g r = (s', id) -> Inv s' /\ l_dds s' = l_dds s.
Proof.
  intros s g r s' id HI H. unfold ANtagref2id in H.
  destruct (zassoc g ANtagref2id_type_switch) as [ty|] eqn:Et; [|inversion H; subst; auto].
  pose proof (tagref2id_type_ok _ _ Et) as Hty.
  destruct (need_tree s ty) as [s1 [t|]] eqn:E; destruct (need_tree_Inv _ _ _ _ HI Hty E) as [A [B _]].
  - destruct (tfind _ _); inversion H; subst; auto.
  - inversion H; subst; auto.
Qed.
Lemma tyok_fl : tyok AN_FILE_LABEL. Proof. unfold tyok, AN_FILE_LABEL; lia. Qed.
Lemma tyok_fd : tyok AN_FILE_DESC. Proof. unfold tyok, AN_FILE_DESC; lia. Qed.
Lemma tyok_dl : tyok AN_DATA_LABEL. Proof. unfold tyok, AN_DATA_LABEL; lia. Qed.
Lemma tyok_dd : tyok AN_DATA_DESC. Proof. unfold tyok, AN_DATA_DESC; lia. Qed.
Lemma ANfileinfo_Inv : forall s s' r, Inv s -> ANfileinfo s = (s', r) -> Inv s' /\ l_dds s' = l_dds s.
Proof.
  intros s s' r HI H. unfold ANfileinfo in H.
  destruct (ANIcreate_ann_tree s AN_FILE_LABEL) as [s1 a] eqn:E1.
  destruct (create_tree_Inv _ _ _ _ HI tyok_fl E1) as [A1 [B1 _]].
  destruct (a =? FAILV); [inversion H; subst; auto|].
  destruct (ANIcreate_ann_tree s1 AN_FILE_DESC) as [s2 b] eqn:E2.
  destruct (create_tree_Inv _ _ _ _ A1 tyok_fd E2) as [A2 [B2 _]].
  destruct (b =? FAILV); [inversion H; subst; split; [assumption|congruence]|].
  destruct (ANIcreate_ann_tree s2 AN_DATA_LABEL) as [s3 c] eqn:E3.
  destruct (create_tree_Inv _ _ _ _ A2 tyok_dl E3) as [A3 [B3 _]].
  destruct (c =? FAILV); [inversion H; subst; split; [assumption|congruence]|].
  destruct (ANIcreate_ann_tree s3 AN_DATA_DESC) as [s4 d] eqn:E4.
  destruct (create_tree_Inv _ _ _ _ A3 tyok_dd E4) as [A4 [B4 _]].
  destruct (d =? FAILV); inversion H; subst; split; try assumption; congruence.
Qed.

(** dfan.c never touches the trees or the atoms *)
Definition same_tables (s s' : lstate) : Prop :=
  l_tree s' = l_tree s /\ l_num s' = l_num s /\ l_atoms s' = l_atoms s /\ l_next s' = l_next s.
Lemma same_tables_refl : forall s, same_tables s s. Proof. intros; repeat split. Qed.
Lemma same_tables_trans : forall a b c, same_tables a b -> same_tables b c -> same_tables a c.
Proof. intros a b c [A1 [A2 [A3 A4]]] [B1 [B2 [B3 B4]]]. repeat split; congruence. Qed.
Lemma Inv_same_tables : forall s s', Inv s -> same_tables s s' ->
  (forall d, In d (l_dds s') -> 1 <= d_ref d <= MAX_REF) -> Inv s'.
Proof.
  intros s s' HI [A [B [C D]]] Hr. apply (Inv_ext s); auto; try (intros; rewrite ?A, ?B; reflexivity).
  intros ty. rewrite B. apply (inv_numge _ HI).
Qed.

Lemma DFANIlocate_frame : forall s k g r s' a, DFANIlocate s k g r = (s', a) -> same_tables s s' /\ l_dds s' = l_dds s.
Proof.
  intros s k g r s' a H. unfold DFANIlocate in H.
  destruct (l_dir s k).
  - destruct (g =? 0); [|destruct (find _ _)]; inversion H; subst; split; try apply same_tables_refl; reflexivity.
  - destruct (zlen _ =? 0); simpl in H.
    + inversion H; subst. split; [apply same_tables_refl | reflexivity].
    + destruct (g =? 0); [|destruct (find _ _)]; inversion H; subst; (split; [repeat split | reflexivity]).
Qed.

Lemma hfind_some : forall tag ref dds d, hfind tag ref dds = Some d -> In d dds /\ d_tag d = tag /\ d_ref d = ref.
Proof.
  intros tag ref dds d H. unfold hfind in H. apply find_some in H. destruct H as [A B]. unfold dd_is in B.
  apply andb_true_iff in B. destruct B as [B1 B2]. apply Z.eqb_eq in B1. apply Z.eqb_eq in B2. auto.
Qed.

Lemma DFANIputann_Inv : forall s k g r txt s' ok, Inv s -> DFANIputann s k g r txt = (s', ok) -> Inv s' /\ same_tables s s'.
Proof.
  intros s k g r txt s' ok HI H. unfold DFANIputann in H.
  destruct (_ || _); [inversion H; subst; split; [assumption | apply same_tables_refl]|].
  destruct (DFANIlocate s k g r) as [s1 found] eqn:El.
  destruct (DFANIlocate_frame _ _ _ _ _ _ El) as [F1 D1].
  assert (HI1 : Inv s1) by (apply (Inv_same_tables s); [assumption|assumption|rewrite D1; apply (inv_refs _ HI)]).
  match type of H with (if ?c then _ else _) = _ => destruct c eqn:Ea end; [inversion H; subst; auto|].
  apply Z.eqb_neq in Ea.
  match type of H with (if ?c then _ else _) = _ => destruct c eqn:Eb end; [inversion H; subst; auto|].
  set (annref := if found =? 0 then htagnewref (dfan_tag k) (l_dds s1) else found) in *.
  assert (Hrange : 1 <= annref <= MAX_REF).
  { unfold annref in *. destruct (found =? 0) eqn:Ef.
    - apply (htagnewref_range _ _ _ eq_refl Ea).
    - simpl in Eb. destruct (hfind (dfan_tag k) found (l_dds s1)) as [d|] eqn:Eh; [|discriminate].
      apply hfind_some in Eh. destruct Eh as [A [_ C]]. rewrite <- C. apply (inv_refs _ HI1). assumption. }
  set (s2 := set_dds s1 (hput (dfan_tag k) annref (encode_target g r ++ txt) (l_dds s1))) in *.
  assert (HI2 : Inv s2).
  { apply (Inv_same_tables s1); [assumption | repeat split |].
    simpl. intros d Hd. apply hput_refs in Hd. destruct Hd as [Hd|Hd]; [apply (inv_refs _ HI1); assumption | rewrite Hd; assumption]. }
  assert (F2 : same_tables s s2) by (apply (same_tables_trans _ s1); [assumption | repeat split]).
  destruct (zlen txt =? 0); [inversion H; subst; auto|].
  inversion H; subst; clear H.
  destruct (found =? 0); (split; [apply (Inv_same_tables s2); [assumption | repeat split | simpl; apply (inv_refs _ HI2)] |
                                  apply (same_tables_trans _ s2); [assumption | repeat split]]).
Qed.

Lemma DFANIgetann_frame : forall s k g r m s' b, DFANIgetann s k g r m = (s', b) -> same_tables s s' /\ l_dds s' = l_dds s.
Proof.
  intros s k g r m s' b H. unfold DFANIgetann in H.
  destruct (_ || _); [inversion H; subst; split; [apply same_tables_refl | reflexivity]|].
  destruct (DFANIlocate s k g r) as [s1 a] eqn:El. destruct (DFANIlocate_frame _ _ _ _ _ _ El) as [F1 D1].
  destruct (a =? 0); [inversion H; subst; auto|].
  destruct (hfind _ _ _); [|inversion H; subst; auto].
  destruct (_ <? 0); inversion H; subst; auto.
  all: try (split; [apply (same_tables_trans _ s1); [assumption | repeat split] | simpl; assumption]).
Qed.
Lemma DFANIgetannlen_frame : forall s k g r s' n, DFANIgetannlen s k g r = (s', n) -> same_tables s s' /\ l_dds s' = l_dds s.
Proof.
  intros s k g r s' n H. unfold DFANIgetannlen in H.
  destruct (_ || _); [inversion H; subst; split; [apply same_tables_refl | reflexivity]|].
  destruct (DFANIlocate s k g r) as [s1 a] eqn:El. destruct (DFANIlocate_frame _ _ _ _ _ _ El) as [F1 D1].
  destruct (a =? 0); [inversion H; subst; auto|].
  destruct (hfind _ _ _); inversion H; subst; auto.
  all: try (split; [apply (same_tables_trans _ s1); [assumption | repeat split] | simpl; assumption]).
Qed.
Lemma DFANIaddfann_Inv : forall s k txt s' ok, Inv s -> DFANIaddfann s k txt = (s', ok) -> Inv s' /\ same_tables s s'.
Proof.
  intros s k txt s' ok HI H. unfold DFANIaddfann in H.
  match type of H with (if ?c then _ else _) = _ => destruct c eqn:Ea end; [inversion H; subst; split; [assumption|apply same_tables_refl]|].
  apply Z.eqb_neq in Ea. pose proof (htagnewref_range _ _ _ eq_refl Ea) as [Hr _].
  match type of H with context [set_dds s ?x] => set (s1 := set_dds s x) in * end.
  assert (HI1 : Inv s1).
  { apply (Inv_same_tables s); [assumption | repeat split |]. simpl. intros d Hd. apply hput_refs in Hd.
    destruct Hd as [Hd|Hd]; [apply (inv_refs _ HI); assumption | rewrite Hd; assumption]. }
  destruct (zlen txt =? 0); inversion H; subst; (split; [|repeat split]); try assumption.
  apply (Inv_same_tables s1); [assumption | repeat split | simpl; apply (inv_refs _ HI1)].
Qed.
Ltac dmatch H := match type of H with
  | (match ?x with _ => _ end) = _ => destruct x eqn:?
  | (if ?x then _ else _) = _ => destruct x eqn:? end.
Lemma getfannlen_frame : forall s k f s' n, DFANIgetfannlen s k f = (s', n) -> same_tables s s' /\ l_dds s' = l_dds s.
Proof.
  intros s k f s' n H. unfold DFANIgetfannlen in H.
  destruct f; simpl in H; repeat dmatch H; inversion H; subst; split; repeat split.
Qed.
Lemma getfann_frame : forall s k f s' r, DFANIgetfann s k f = (s', r) -> same_tables s s' /\ l_dds s' = l_dds s.
Proof.
  intros s k f s' r H. unfold DFANIgetfann in H.
  destruct f; simpl in H; repeat dmatch H; inversion H; subst; split; repeat split;
  try (destruct (dd_after _ _); reflexivity).
Qed.
Lemma enum_fann_frame : forall fuel s k f s' r, enum_fann fuel s k f = (s', r) -> same_tables s s' /\ l_dds s' = l_dds s.
Proof.
  induction fuel as [|n IH]; simpl; intros s k f s' r H.
  - inversion H; subst. split; [apply same_tables_refl | reflexivity].
  - destruct (DFANIgetfannlen s k f) as [s1 len] eqn:E1. destruct (getfannlen_frame _ _ _ _ _ E1) as [F1 D1].
    destruct (len <? 0); [inversion H; subst; auto|].
    destruct (DFANIgetfann s1 k f) as [s2 [t|]] eqn:E2; destruct (getfann_frame _ _ _ _ _ E2) as [F2 D2].
    + destruct (enum_fann n s2 k false) as [s3 [l|]] eqn:E3; destruct (IH _ _ _ _ _ E3) as [F3 D3];
      inversion H; subst; (split; [eapply same_tables_trans; [eapply same_tables_trans|]; eassumption | congruence]).
    + inversion H; subst. split; [eapply same_tables_trans; eassumption | congruence].
Qed.
Lemma DFANIlablist_frame : forall s o g m s' r, DFANIlablist s o g m = (s', r) -> same_tables s s' /\ l_dds s' = l_dds s.
Proof.
  intros s o g m s' r H. unfold DFANIlablist in H.
  destruct (g =? 0); [inversion H; subst; split; [apply same_tables_refl | reflexivity]|].
  destruct (zlen _ =? 0); [inversion H; subst; split; [apply same_tables_refl | reflexivity]|].
  destruct (hnumber _ _ =? 0); [inversion H; subst; split; [apply same_tables_refl | reflexivity]|].
  destruct (l_dir s DFAN_LABEL) eqn:Ed.
  - simpl in H. inversion H; subst. split; [apply same_tables_refl | reflexivity].
  - destruct (DFANIlocate s DFAN_LABEL 0 0) as [s1 a] eqn:El. destruct (DFANIlocate_frame _ _ _ _ _ _ El) as [F1 D1].
    destruct (a =? 0); inversion H; subst; auto.
Qed.

(* ================= 7. every harness step keeps the invariant ================================================ *)
Definition op_types_ok (o : op) : Prop :=
  match o with
  | OSelect _ ty _ _ | OSelectAll ty | ONumann ty _ _ | OAnnlist ty _ _ => tyok ty
  | _ => True
  end.

Lemma DFANIclear_Inv : forall s, Inv s -> Inv (DFANIclear s).
Proof. intros s HI. apply (Inv_same_tables s); [assumption | repeat split | simpl; apply (inv_refs _ HI)]. Qed.

Lemma mstep_Inv : forall h o h' r, Inv (h_lib h) -> op_types_ok o -> mstep h o = (h', r) -> Inv (h_lib h').
Proof.
  intros h o h' r HI Hok H. destruct o; unfold mstep in H; cbv beta iota zeta in H; simpl in Hok.
  - (* start *) destruct (h_sess h); inversion H; subst; assumption.
  - (* end *) destruct (h_sess h); inversion H; subst; simpl; [apply DFANIclear_Inv, ANend_Inv|]; assumption.
  - (* create *) destruct (h_sess h); simpl in H; [|inversion H; subst; assumption].
    destruct (ANIcreate _ _ _ _) as [l1 id] eqn:E. inversion H; subst. simpl. apply (ANIcreate_Inv _ _ _ _ _ _ HI E).
  - (* createf *) destruct (h_sess h); simpl in H; [|inversion H; subst; assumption].
    destruct (ANcreatef _ _) as [l1 id] eqn:E. inversion H; subst. simpl. unfold ANcreatef in E.
    destruct (zassoc _ _); [apply (ANIcreate_Inv _ _ _ _ _ _ HI E) | inversion E; subst; assumption].
  - (* write *) destruct (ANIwriteann _ _ _) as [l1 ok] eqn:E. inversion H; subst. simpl. apply (ANIwriteann_Inv _ _ _ _ _ HI E).
  - (* read *) destruct (ANIreadann _ _ _); inversion H; subst; assumption.
  - (* len *) inversion H; subst; assumption.
  - (* select *) destruct (h_sess h); simpl in H; [|inversion H; subst; assumption].
    destruct (ANselect _ _ _) as [l1 id] eqn:E. inversion H; subst. simpl. apply (ANselect_Inv _ _ _ _ _ HI Hok E).
  - (* selectall *) destruct (h_sess h); simpl in H; [|inversion H; subst; assumption].
    destruct (ANfileinfo _) as [l1 [v|]] eqn:E; destruct (ANfileinfo_Inv _ _ _ HI E) as [A _].
    + destruct (_ || _); inversion H; subst; assumption.
    + inversion H; subst; assumption.
  - (* fileinfo *) destruct (h_sess h); simpl in H; [|inversion H; subst; assumption].
    destruct (ANfileinfo _) as [l1 [v|]] eqn:E; destruct (ANfileinfo_Inv _ _ _ HI E) as [A _]; inversion H; subst; assumption.
  - (* numann *) destruct (h_sess h); simpl in H; [|inversion H; subst; assumption].
    destruct (ANnumann _ _ _ _) as [l1 n] eqn:E. inversion H; subst. simpl. apply (ANnumann_Inv _ _ _ _ _ _ HI Hok E).
  - (* annlist *) destruct (h_sess h); simpl in H; [|inversion H; subst; assumption].
    destruct (ANannlist _ _ _ _) as [l1 [ids|]] eqn:E; destruct (ANannlist_Inv _ _ _ _ _ _ HI Hok E) as [A _]; inversion H; subst; assumption.
  - (* tagref2id *) destruct (h_sess h); simpl in H; [|inversion H; subst; assumption].
    destruct (ANtagref2id _ _ _) as [l1 id] eqn:E. inversion H; subst. simpl. apply (ANtagref2id_Inv _ _ _ _ _ HI E).
  - (* id2tagref *) destruct (ANid2tagref _ _) as [[g rf]|]; inversion H; subst; assumption.
  - (* endaccess *) inversion H; subst; assumption.
  - (* ids *) match type of H with (if ?c then _ else _) = _ => destruct c end; inversion H; subst; assumption.
  - (* dfput *) destruct (h_sess h); [inversion H; subst; assumption|].
    destruct (DFANIputann _ _ _ _ _) as [l1 ok] eqn:E. inversion H; subst. simpl. apply (DFANIputann_Inv _ _ _ _ _ _ _ HI E).
  - (* dfget *) destruct (h_sess h); [inversion H; subst; assumption|].
    destruct (DFANIgetann _ _ _ _ _) as [l1 [b|]] eqn:E; destruct (DFANIgetann_frame _ _ _ _ _ _ _ E) as [F D];
    inversion H; subst; simpl; (apply (Inv_same_tables (h_lib h)); [assumption | assumption | rewrite D; apply (inv_refs _ HI)]).
  - (* dfgetlen *) destruct (h_sess h); [inversion H; subst; assumption|].
    destruct (DFANIgetannlen _ _ _ _) as [l1 n] eqn:E; destruct (DFANIgetannlen_frame _ _ _ _ _ _ E) as [F D].
    inversion H; subst; simpl. apply (Inv_same_tables (h_lib h)); [assumption | assumption | rewrite D; apply (inv_refs _ HI)].
  - (* dfaddf *) destruct (h_sess h); [inversion H; subst; assumption|].
    destruct (DFANIaddfann _ _ _) as [l1 ok] eqn:E. inversion H; subst. simpl. apply (DFANIaddfann_Inv _ _ _ _ _ HI E).
  - (* dfgetfs *) destruct (h_sess h); [inversion H; subst; assumption|].
    destruct (enum_fann _ _ _ _) as [l1 [ts|]] eqn:E; destruct (enum_fann_frame _ _ _ _ _ _ E) as [F D];
    inversion H; subst; simpl; (apply (Inv_same_tables (h_lib h)); [assumption | assumption | rewrite D; apply (inv_refs _ HI)]).
  - (* dflablist *) destruct (h_sess h); [inversion H; subst; assumption|].
    destruct (DFANIlablist _ _ _ _) as [l1 [[orefs labs]|]] eqn:E; destruct (DFANIlablist_frame _ _ _ _ _ _ E) as [F D];
    inversion H; subst; simpl; (apply (Inv_same_tables (h_lib h)); [assumption | assumption | rewrite D; apply (inv_refs _ HI)]).
Qed.

Fixpoint mrun (h : hstate) (ops : list op) : hstate :=
  match ops with [] => h | o :: t => mrun (fst (mstep h o)) t end.

Lemma reachable_Inv : forall ops h, Inv (h_lib h) -> Forall op_types_ok ops -> Inv (h_lib (mrun h ops)).
Proof.
  induction ops as [|o t IH]; simpl; intros h HI Hok; [assumption|].
  inversion Hok; subst. apply IH; [|assumption]. destruct (mstep h o) as [h' r] eqn:E. simpl.
  eapply mstep_Inv; eassumption.
Qed.

(* ================= 8. identifiers <-> tag/ref ================================================================= *)
Lemma id2tagref_table : forall ty, tyok ty -> exists g, zassoc ty ANid2tagref_tag_switch = Some g /\
  zassoc g ANtagref2id_type_switch = Some ty /\ atype2tag ty = Some g.
Proof.
  intros ty H. unfold tyok in H. assert (ty = 0 \/ ty = 1 \/ ty = 2 \/ ty = 3) as [-> | [-> | [-> | ->]]] by lia;
  eexists; repeat split; reflexivity.
Qed.

Lemma id_bijection_lemma : forall s, Inv s ->
  (forall id1 id2 tr, ANid2tagref s id1 = Some tr -> ANid2tagref s id2 = Some tr -> id1 = id2) /\
  (forall id g r, ANid2tagref s id = Some (g, r) -> ANtagref2id s g r = (s, id)) /\
  (forall g r s' id, 0 <= r < 65536 -> ANtagref2id s g r = (s', id) -> id <> FAILV -> ANid2tagref s' id = Some (g, r)).
Proof.
  intros s HI.
  assert (P2 : forall id g r, ANid2tagref s id = Some (g, r) -> ANtagref2id s g r = (s, id)).
  { intros id g r H. unfold ANid2tagref in H. destruct (zassoc id (l_atoms s)) as [nd|] eqn:Ez; [|discriminate].
    destruct (inv_owner _ HI id nd Ez) as [ty [t [e [Ht [Hin Hid]]]]].
    destruct (inv_tree _ HI ty t Ht) as [Hty [Hs Hent]]. destruct (Hent _ _ Hin) as [Hr [Hk _]].
    rewrite MAX_REF_val in Hr. assert (T1 : 0 <= ty < 32768) by (unfold tyok in Hty; lia).
    assert (T2 : 0 <= e_annref e < 65536) by lia.
    rewrite Hk, key_type, key_ref in H by assumption.
    destruct (id2tagref_table ty Hty) as [g0 [G1 [G2 G3]]]. rewrite G1 in H. inversion H; subst g r; clear H.
    unfold ANtagref2id. rewrite G2. unfold need_tree.
    destruct (l_num s ty =? -1) eqn:En.
    { apply Z.eqb_eq in En. apply (inv_num _ HI) in En. congruence. }
    simpl. rewrite Ht. rewrite <- Hk. rewrite (In_tfind _ _ _ (tsorted_NoDup _ Hs) Hin). rewrite Hid. reflexivity. }
  split; [|split; [exact P2|]].
  - intros id1 id2 [g r] H1 H2. apply P2 in H1. apply P2 in H2. rewrite H1 in H2. inversion H2. reflexivity.
  - intros g r s' id Hr H Hid. pose proof (ANtagref2id_Inv _ _ _ _ _ HI H) as [HI' _].
    unfold ANtagref2id in H. destruct (zassoc g ANtagref2id_type_switch) as [ty|] eqn:Eg; [|inversion H; subst; congruence].
    pose proof (tagref2id_type_ok _ _ Eg) as Hty.
    destruct (need_tree s ty) as [s1 [t|]] eqn:En; [|inversion H; subst; congruence].
    destruct (need_tree_Inv _ _ _ _ HI Hty En) as [HI1 [_ Ht]]. specialize (Ht t eq_refl).
    destruct (tfind _ t) as [e|] eqn:Ef; [|inversion H; subst; congruence]. inversion H; subst s' id; clear H.
    apply tfind_In in Ef. destruct (inv_tree _ HI1 ty t Ht) as [_ [_ Hent]]. destruct (Hent _ _ Ef) as [Hr2 [Hk [nd [Hz Hn]]]].
    unfold ANid2tagref. rewrite Hz, Hn.
    assert (T1 : 0 <= ty < 32768) by (unfold tyok in Hty; lia).
    rewrite key_type, key_ref by assumption.
    destruct (id2tagref_table ty Hty) as [g0 [G1 [G2 G3]]]. rewrite G1.
    (* the tag table is injective: g0 = g *)
    assert (g0 = g).
    { unfold tyok in Hty. unfold ANtagref2id_type_switch in Eg, G2. simpl in Eg, G2.
      repeat match type of Eg with context [?a =? ?b] => destruct (Z.eqb_spec a b); [subst; inversion Eg; subst; simpl in G2;
        repeat match type of G2 with context [?c =? ?d] => destruct (Z.eqb_spec c d); [subst; try reflexivity; try discriminate|] end;
        try discriminate|] end; try discriminate. }
    subst. reflexivity.
Qed.

