(** C10 -- placeholder while the pipeline is brought up (replaced by the full theorems). *)
From Coq Require Import ZArith List.
Require Import H4.AttrSpec.
Import ListNotations.
Theorem attr_set_empty : forall p a, attr_set p [] a = Some [a].
Proof. reflexivity. Qed.
Print Assumptions attr_set_empty.
