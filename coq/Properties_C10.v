(** C10 -- Attributes and descriptive metadata are returned exactly as last set.
    Property theorems only (each closed by [exact]); proofs in AttrProofs.v.

    S = AttrSpec.v: per attributable object an ordered list of (name, number type, count, bytes); [attr_set] replaces
    in place or appends; a policy says what a re-set may change (SD: anything; GR: not the type; Vdata/Vgroup: neither
    type nor count).  M = AttrModel.v: NC_findattr / SDIputattr / NC_aput / SDfindattr / SDattrinfo, the predefined
    attributes, SDIgetcoordvar, SDnametoindex / SDreftoindex / SDidtoref, the GR attribute tree, the Vdata / Vgroup
    attribute tables with their attribute Vdatas.
    (1) laws of S, for every list, policy and attribute;  (2) the predefined metadata round trips;  (3) M refines S;
    (4) the lookups are mutually inverse.  NOT proved (correspondence only): the metadata rewrite at SDend and the
    reload at SDstart (cdf.c), GRend / GRstart, the storage of attribute Vdatas in the file. *)
From Coq Require Import ZArith List Bool.
Require Import H4.gen.Gen_Attr H4.AttrSpec H4.AttrModel H4.AttrProofs.
Import ListNotations.
Local Open Scope Z_scope.

(* ---- (1) the attribute list ---------------------------------------------------------------------------- *)

(** after a successful set the attribute is found by its name, and reading that index returns exactly the
    type, count and bytes that were set *)
Theorem attr_get_set_same : forall p l a l', attr_set p l a = Some l' ->
  exists i, attr_find l' (a_name a) = Some i /\ attr_get l' i = Some a.
Proof. exact attr_get_set_same_lemma. Qed.
Print Assumptions attr_get_set_same.

(** every other name is found at the same index with the same content *)
Theorem attr_get_set_other : forall p l a l' n, attr_set p l a = Some l' -> n <> a_name a ->
  attr_find l' n = attr_find l n /\ (forall i, attr_find l n = Some i -> attr_get l' i = attr_get l i).
Proof. exact attr_get_set_other_lemma. Qed.
Print Assumptions attr_get_set_other.

(** a set keeps every index: position i still holds an attribute of the same name, untouched unless it is the one
    being set; the list either keeps its length (replace) or grows by exactly the new attribute at the end *)
Theorem attr_index_stable : forall p l a l', attr_set p l a = Some l' ->
  (forall i x, attr_get l i = Some x ->
     exists y, attr_get l' i = Some y /\ a_name y = a_name x /\ (a_name x <> a_name a -> y = x)) /\
  ((zlen l' = zlen l /\ attr_find l (a_name a) <> None) \/ (attr_find l (a_name a) = None /\ l' = l ++ [a])).
Proof. exact attr_index_stable_lemma. Qed.
Print Assumptions attr_index_stable.

(** a set is refused only by the interface's policy on an existing attribute of that name (which stays: the
    list is not changed by a refused set), and SD's policy never refuses *)
Theorem attr_set_refused_keeps_old : forall p l a, attr_set p l a = None ->
  exists i old, attr_find l (a_name a) = Some i /\ attr_get l i = Some old /\ compatible p old a = false.
Proof. exact attr_set_refused_lemma. Qed.
Print Assumptions attr_set_refused_keeps_old.

(** find-by-name is the inverse of get-by-index: always from name to index; from index to name when names are
    distinct -- and distinctness is preserved by every set *)
Theorem attr_find_inverse_of_index : forall l,
  (forall n i, attr_find l n = Some i -> exists x, attr_get l i = Some x /\ a_name x = n) /\
  (NoDup (map a_name l) -> forall i x, attr_get l i = Some x -> attr_find l (a_name x) = Some i) /\
  (forall p a l', NoDup (map a_name l) -> attr_set p l a = Some l' -> NoDup (map a_name l')).
Proof.
  intro l. split; [exact (proj1 (attr_find_inverse_lemma l))|]. split; [exact (proj2 (attr_find_inverse_lemma l))|].
  intros p a l' H1 H2. exact (set_nodup p l a l' H1 H2).
Qed.
Print Assumptions attr_find_inverse_of_index.

(* ---- (2) predefined metadata -------------------------------------------------------------------------- *)

(** SDgetcal (SDsetcal x) = x, SDgetrange (SDsetrange x) = x, SDgetfillvalue (SDsetfillvalue x) = x, and the data /
    dimension strings, on every attribute list (whatever attributes, also of these names, it held before) *)
Theorem predef_roundtrip : forall l,
  (forall cal cale ioff ioffe nt,
     spec_getcal (spec_setcal l cal cale ioff ioffe nt) = Some (cal, cale, ioff, ioffe, int32_bytes nt)) /\
  (forall vnt sz mx mn, 0 <= sz -> spec_getrange (spec_setrange l vnt sz mx mn) sz = Some (fixed sz mx, fixed sz mn)) /\
  (forall vnt sz v, spec_getfill (spec_setfill l vnt sz v) = Some (fixed sz v)) /\
  (forall lab u f cs len,
     let l' := spec_setstrs l lab u f cs in
     let expect (name : bytes) (s : option bytes) :=
         match s with
         | Some (x :: r) => cstr (firstn (Z.to_nat (Z.min (zlen (x :: r)) len)) (x :: r))
         | _ => get_str l name len
         end in
     get_str l' _HDF_LongName len = expect _HDF_LongName lab /\ get_str l' _HDF_Units len = expect _HDF_Units u /\
     get_str l' _HDF_Format len = expect _HDF_Format f /\ get_str l' _HDF_CoordSys len = expect _HDF_CoordSys cs).
Proof.
  intro l. split; [exact (cal_roundtrip_lemma l)|]. split; [exact (range_roundtrip_lemma l)|].
  split; [exact (fill_roundtrip_lemma l) | exact (strs_roundtrip_lemma l)].
Qed.
Print Assumptions predef_roundtrip.

(** SDgetrange's fall-back (no valid_range of the data's type class): valid_max / valid_min set as two attributes
    come back as (max, min); [getrange_fallback_refines]: the branch as the source has it -- the looked-up names and
    which of them is copied to pmax are regenerated from SDgetrange -- is this specification *)
Theorem range_fallback_roundtrip : forall l vnt sz cmax cmin mx mn,
  spec_getrange_fb (put_all l [mkAttr valid_max_name vnt cmax mx; mkAttr valid_min_name vnt cmin mn]) vnt sz
  = Some (fixed sz mx, fixed sz mn).
Proof. exact range_fallback_roundtrip_lemma. Qed.
Print Assumptions range_fallback_roundtrip.

Theorem getrange_fallback_refines : forall l vnt sz, names_ok l ->
  sd_getrange_fb (Some l) vnt sz = spec_getrange_fb (map abs_m l) vnt sz.
Proof. exact getrange_fallback_refines_lemma. Qed.
Print Assumptions getrange_fallback_refines.

(* ---- (3) the implementation model refines the specification ------------------------------------------- *)

(** SDIputattr with NC_findattr (attr.c / mfsd.c): for C-string names within H4_MAX_NC_NAME, a known number type and
    fewer than H4_MAX_NC_ATTRS attributes, the C algorithm succeeds and changes the list exactly as [attr_set PAny];
    SDattrinfo / SDreadattr / SDfindattr observe exactly [attr_get] / [attr_find]; an unknown type or an over-long
    name is refused with the list untouched *)
Theorem sdi_putattr_refines : forall l name nt count data,
  nul_free name -> names_ok l -> zlen name <= H4_MAX_NC_NAME -> zlen l < H4_MAX_NC_ATTRS -> nc_type nt <> None ->
  exists l', sdi_putattr (Some l) name nt count data = Some (Some l') /\
             attr_set PAny (map abs_m l) (mkAttr name nt count data) = Some (map abs_m l') /\ names_ok l'.
Proof. exact sdi_putattr_refines_lemma. Qed.
Print Assumptions sdi_putattr_refines.

Theorem sdi_putattr_first_and_rejects :
  (forall name nt count data, nul_free name -> zlen name <= H4_MAX_NC_NAME -> nc_type nt <> None ->
     exists a, sdi_putattr None name nt count data = Some (Some [a]) /\
               attr_set PAny [] (mkAttr name nt count data) = Some [abs_m a] /\ names_ok [a]) /\
  (forall ap name nt count data, (nc_type nt = None \/ (nul_free name /\ H4_MAX_NC_NAME < zlen name)) ->
     sdi_putattr ap name nt count data = None).
Proof. split; [exact sdi_putattr_first_lemma | exact sdi_putattr_rejects_lemma]. Qed.
Print Assumptions sdi_putattr_first_and_rejects.

Theorem sd_observers_refine : forall l, names_ok l ->
  (forall i, option_map abs_m (sd_attrinfo (Some l) i) = attr_get (map abs_m l) i) /\
  (forall name, nul_free name -> option_map Z.of_nat (sd_findattr (Some l) name) = attr_find (map abs_m l) name).
Proof. exact sd_observers_refine_lemma. Qed.
Print Assumptions sd_observers_refine.

(** NC_aput (netCDF API) in define mode performs the same list update as SDIputattr *)
Theorem nc_aput_define_mode : forall l name nt ty count szof data, nc_type nt = Some ty ->
  option_map (option_map (map (fun a => (m_name a, m_type a, m_count a, m_data a)))) (nc_aput true true (Some l) name ty count szof data) =
  option_map (option_map (map (fun a => (m_name a, m_type a, m_count a, m_data a)))) (sdi_putattr (Some l) name nt count data).
Proof. exact nc_aput_indef_lemma. Qed.
Print Assumptions nc_aput_define_mode.

(** VSsetattr / Vsetattr (vattr.c): the attribute table with its attribute Vdatas (name = attribute name, class
    "Attr0.0", field "VALUES" of the attribute's type, order = count, one record) behaves, per field, as the list
    with the same-type-and-order rule; the other fields' lists are untouched; VSfnattrs / VSattrinfo / VSgetattr /
    VSfindattr observe the per-field list *)
Theorem attr_vdata_roundtrip : forall nf l fi name nt count data sz,
  nul_free name -> zlen name <= VSNAMELENMAX -> enames_ok l ->
  (fi = _HDF_VDATA \/ 0 <= fi < nf) ->
  nt_size nt = Some sz -> 1 <= count <= MAX_ORDER -> count * sz <= MAX_FIELD_SIZE ->
  match vs_setattr true nf l fi name nt count data with
  | VOk l' => attr_set PSameTypeCount (abs_field l fi) (mkAttr name nt count data) = Some (abs_field l' fi) /\
              (forall fj, fj <> fi -> abs_field l' fj = abs_field l fj) /\ enames_ok l'
  | VFail => attr_set PSameTypeCount (abs_field l fi) (mkAttr name nt count data) = None
  end.
Proof. exact vs_setattr_refines_lemma. Qed.
Print Assumptions attr_vdata_roundtrip.

Theorem vs_observers_refine : forall l fi, enames_ok l ->
  vs_fnattrs l fi = zlen (abs_field l fi) /\
  (forall i, 0 <= i < zlen (abs_field l fi) -> option_map abs_e (vs_attrinfo l fi i) = attr_get (abs_field l fi) i) /\
  (forall name, nul_free name -> vs_findattr l fi name = attr_find (abs_field l fi) name).
Proof. exact vs_observers_refine_lemma. Qed.
Print Assumptions vs_observers_refine.

(** GRsetattr (mfgr.c): the index-keyed attribute tree behaves as the list with the same-type rule (the count
    may change); the tree stays keyed 0..n-1 in list order, so GRattrinfo / GRgetattr by index read list position *)
Theorem gr_setattr_refines : forall t c name nt count data sz,
  gr_wf t c -> nul_free name -> nt_size nt = Some sz -> 1 <= count <= MAX_ORDER -> count * sz <= MAX_FIELD_SIZE ->
  match gr_setattr t c name nt count data with
  | Some (t', c') => attr_set PSameType (map abs_g t) (mkAttr name nt count data) = Some (map abs_g t') /\ gr_wf t' c'
  | None => attr_set PSameType (map abs_g t) (mkAttr name nt count data) = None
  end.
Proof. exact gr_setattr_refines_lemma. Qed.
Print Assumptions gr_setattr_refines.

Theorem gr_index_is_position : forall t i k, gr_wf_from t i ->
  find (fun a => g_index a =? i + Z.of_nat k) t = nth_error t k.
Proof. exact gr_find_index. Qed.
Print Assumptions gr_index_is_position.

(** a Vdata / Vgroup attached for reading refuses VSsetattr / Vsetattr (the access tests as the source has them);
    SDgetdimscale reads, for an unlimited dimension of an HDF file, as many values as the dimension's own coordinate
    variable holds (the file-type test as the source has it) *)
Theorem setattr_refused_when_attached_for_reading : forall nf l fi name nt count data,
  vs_setattr false nf l fi name nt count data = VFail /\ vg_setattr false l name nt count data = VFail.
Proof. exact setattr_refused_for_reading_lemma. Qed.
Print Assumptions setattr_refused_when_attached_for_reading.
Theorem getdimscale_count : forall size fnr vnr,
  (size <> 0 -> sd_getdimscale_count true size fnr vnr = size) /\ sd_getdimscale_count true 0 fnr vnr = vnr /\
  sd_getdimscale_count false 0 fnr vnr = fnr.
Proof. exact getdimscale_count_lemma. Qed.
Print Assumptions getdimscale_count.

(* ---- (4) lookups -------------------------------------------------------------------------------------- *)

(** reference <-> index (SDidtoref / SDreftoindex) are mutually inverse when the NDG refs of the variables are
    distinct (the allocator's guarantee, property C12); name -> index (SDnametoindex) returns the first variable of
    that name and is the inverse of index -> name when names are distinct *)
Theorem lookup_bijections : forall vs,
  (NoDup (map mv_ref vs) ->
     (forall i r, sd_idtoref vs i = Some r -> sd_reftoindex vs r = Some i) /\
     (forall r i, sd_reftoindex vs r = Some i -> sd_idtoref vs i = Some r)) /\
  (vnames_ok vs ->
     (forall n i, nul_free n -> sd_nametoindex vs n = Some i ->
        exists v, nth_error vs i = Some v /\ mv_name v = n /\ forall j w, (j < i)%nat -> nth_error vs j = Some w -> mv_name w <> n) /\
     (NoDup (map mv_name vs) -> forall i v, nth_error vs i = Some v -> sd_nametoindex vs (mv_name v) = Some i)).
Proof. intro vs. split; [exact (ref_lookups_lemma vs) | exact (name_lookups_lemma vs)]. Qed.
Print Assumptions lookup_bijections.

(** dimension -> coordinate variable (SDIgetcoordvar): the variable returned is the one every later lookup of that
    dimension name finds; a second call creates nothing and returns the same index; no other variable moves *)
Theorem coordvar_mapping_stable : forall vs dn dimid nt newref, nul_free dn ->
  let '(vs', i) := sd_getcoordvar vs dn dimid nt newref in
  coordvar_from vs' dn 0 = Some i /\
  (forall newref', sd_getcoordvar vs' dn dimid 0 newref' = (vs', i)) /\
  (exists v, nth_error vs' i = Some v /\ is_coord dn v = true) /\
  (forall j w, (j < length vs)%nat -> j <> i -> nth_error vs j = Some w -> nth_error vs' j = Some w).
Proof. exact getcoordvar_stable_lemma. Qed.
Print Assumptions coordvar_mapping_stable.

(* ---- non-vacuity: concrete, non-trivial instances -------------------------------------------------------- *)
Definition ex_a1 := mkAttr [97] DFNT_INT32 2 [1; 0; 0; 0; 2; 0; 0; 0].
Definition ex_a2 := mkAttr [97; 49] DFNT_CHAR8 3 [120; 121; 122].
Definition ex_a1' := mkAttr [97] DFNT_FLOAT64 1 [0; 0; 0; 0; 0; 0; 240; 63].

Example ex_replace_keeps_index :
  attr_set PAny [ex_a1; ex_a2] ex_a1' = Some [ex_a1'; ex_a2] /\ attr_find [ex_a1'; ex_a2] [97; 49] = Some 1.
Proof. vm_compute. split; reflexivity. Qed.
Example ex_policy_refuses : attr_set PSameTypeCount [ex_a1; ex_a2] ex_a1' = None /\ attr_set PSameType [ex_a1] (mkAttr [97] DFNT_INT32 5 []) <> None.
Proof. vm_compute. split; [reflexivity | discriminate]. Qed.
Example ex_cal : spec_getcal (spec_setcal [ex_a1; mkAttr _HDF_AddOffset DFNT_INT8 1 [7]] [1] [2] [3] [4] DFNT_INT16)
                 = Some ([1], [2], [3], [4], [22; 0; 0; 0]).
Proof. vm_compute. reflexivity. Qed.
Example ex_model_put :
  sdi_putattr (Some [mkM [97] 4 DFNT_INT32 2 [1; 0; 0; 0; 2; 0; 0; 0]; mkM [97; 49] 2 DFNT_CHAR8 3 [120; 121; 122]])
              [97] DFNT_FLOAT64 1 [0; 0; 0; 0; 0; 0; 240; 63]
  = Some (Some [mkM [97] 6 DFNT_FLOAT64 1 [0; 0; 0; 0; 0; 0; 240; 63]; mkM [97; 49] 2 DFNT_CHAR8 3 [120; 121; 122]]).
Proof. vm_compute. reflexivity. Qed.
Example ex_hyps_met : nul_free [97; 49] /\ names_ok [mkM [97] 4 DFNT_INT32 2 []] /\ nc_type DFNT_UINT16 <> None /\
                      gr_wf [mkG 0 [98] DFNT_UINT8 1 [5]; mkG 1 [99] DFNT_INT16 1 [5; 0]] 2.
Proof.
  split; [repeat constructor; discriminate|]. split; [repeat constructor; discriminate|]. split; [vm_compute; discriminate|].
  split; [|reflexivity]. simpl. repeat split; try reflexivity; repeat constructor; discriminate.
Qed.
Example ex_vs_two_fields :
  match vs_setattr true 2 [mkAE 0 DFTAG_VH (mkAV [97] _HDF_ATTRIBUTE ATTR_FIELD_NAME DFNT_INT8 1 1 [1])] 1 [97] DFNT_INT8 1 [9] with
  | VOk l' => abs_field l' 0 = [mkAttr [97] DFNT_INT8 1 [1]] /\ abs_field l' 1 = [mkAttr [97] DFNT_INT8 1 [9]]
  | VFail => False
  end.
Proof. vm_compute. split; reflexivity. Qed.
Example ex_lookup : let vs := [mkMV [120] 2 IS_SDSVAR DFNT_INT32 2 0; mkMV [121] 1 IS_CRDVAR DFNT_FLOAT32 5 1] in
  NoDup (map mv_ref vs) /\ sd_reftoindex vs 5 = Some 1%nat /\ sd_nametoindex vs [121] = Some 1%nat /\
  fst (sd_getcoordvar vs [121] 1 0 9) = vs.
Proof. vm_compute. split; [repeat constructor; simpl; intuition discriminate|]. repeat split; reflexivity. Qed.

(* ================================================================================================================ *)
(** * Part 2 -- persistence across SDend / SDstart, and the whole-file oracle

    AttrPersistModel.v: [store] (hdf_write_xdr_cdf / hdf_write_dim / hdf_write_var / hdf_write_attr) emits the CDF0.0
    Vgroup with its dimension Vgroups, variable Vgroups and attribute Vdatas; [reload] (hdf_read_dims / hdf_read_vars /
    hdf_read_attrs) parses them back; [mstep] is the oracle with the library's dimension -> coordinate variable lookup
    BY NAME and persistence THROUGH THESE RECORDS in place of the specification's lookup by identity and [normalize].
    Class names, field names and tags come from the translator.  The three recorded findings appear as explicit
    hypotheses ([persist_ok], [no_orphan_named]) and as [..._refuted] witnesses on which the model behaves as the
    library does. *)
Require Import H4.AttrPersistModel H4.AttrPersistProofs.

(** one attribute through hdf_write_attr / hdf_read_attrs: name, type, count and bytes come back when the name is a C
    string the Vdata name can hold *)
Theorem attr_record_roundtrip : forall a, nul_free (a_name a) -> zlen (a_name a) <= VSNAMELENMAX ->
  decode_attr (encode_attr a) = Some a.
Proof. exact attr_record_roundtrip_lemma. Qed.
Print Assumptions attr_record_roundtrip.

(** finding 1 (sd-attr-name-over-64-truncated-on-reopen) as a witness *)
Theorem attr_name_truncation_refuted :
  exists a, nul_free (a_name a) /\ zlen (a_name a) = VSNAMELENMAX + 1 /\ decode_attr (encode_attr a) <> Some a.
Proof. exact attr_name_truncation_refuted_lemma. Qed.
Print Assumptions attr_name_truncation_refuted.

(** every attribute list, dimension table and variable table: what SDstart reads back from what SDend wrote is the
    normal form of the state (dimensions in use, in table order; variables referring to them directly) *)
Theorem persist_roundtrip : forall c, inv c -> persist_ok c -> reload (store c) = normalize c.
Proof. exact persist_roundtrip_lemma. Qed.
Print Assumptions persist_roundtrip.

(** ... hence reload (store st) = st for every state in normal form (every state SDstart produces) *)
Theorem reload_store_identity : forall st, inv st -> persist_ok st -> normalize st = st -> reload (store st) = st.
Proof. exact reload_store_identity_lemma. Qed.
Print Assumptions reload_store_identity.

(** the library's lookup of a dimension's coordinate variable by name is the specification's lookup by identity *)
Theorem coordvar_by_name_is_by_identity : forall c k, inv c -> live c k -> coord_by_name c k = coord_of c k.
Proof. exact hooks_agree_lemma. Qed.
Print Assumptions coordvar_by_name_is_by_identity.

(** the invariant is established by SDstart(create) and kept by every operation *)
Theorem state_invariant_kept : sinv init /\ forall s o, sinv s -> hyp s o -> sinv (fst (step s o)).
Proof. exact (conj sinv_init step_inv_lemma). Qed.
Print Assumptions state_invariant_kept.

(** for EVERY history: the whole-file model returns, operation by operation, exactly the results of the whole-file
    specification, and ends in the same state -- under the hypotheses that name findings 1 and 3 *)
Theorem whole_file_refinement : forall ops s, sinv s -> hyps s ops -> run mstep s ops = run step s ops.
Proof. exact whole_file_refinement_lemma. Qed.
Print Assumptions whole_file_refinement.
Theorem whole_file_refinement_from_start : forall ops, hyps init ops -> run mstep init ops = run step init ops.
Proof. exact whole_file_refinement_init_lemma. Qed.
Print Assumptions whole_file_refinement_from_start.

(** finding 3 (sd-unnamed-dim-renumbered-on-write) and finding 1 at the level of whole histories: the model leaves
    the specification exactly as the library does (dimension strings gone after reopen; SDfindattr fails) *)
Theorem fake_renumbering_refuted :
  fst (run mstep init ops_renumber) <> fst (run step init ops_renumber) /\
  last (fst (run step init ops_renumber)) RFail = ROk [TB [108; 97; 98]; TB []; TB []] /\
  last (fst (run mstep init ops_renumber)) RFail = ROk [TB []; TB []; TB []].
Proof. exact fake_renumbering_refuted_lemma. Qed.
Print Assumptions fake_renumbering_refuted.
Theorem long_name_refuted :
  last (fst (run step init ops_longname)) RFail = ROk [TI 0] /\ last (fst (run mstep init ops_longname)) RFail = RFail.
Proof. exact long_name_refuted_lemma. Qed.
Print Assumptions long_name_refuted.

(** finding 2 (sd-dimscale-wider-type-over-existing-scale): the call fails and does not leave the old scale *)
Theorem dimscale_wider_refuted :
  let v := mkSV DFNT_CHAR8 (Some [9; 10; 11; 12; 13]) in
  let '(v', ok) := setdimscale_model v DFNT_UINT16 [26; 27; 28; 29; 30; 31; 32; 33; 34; 35] in
  ok = false /\ sv_nt v' <> sv_nt v /\ sv_elem v' = sv_elem v.
Proof. exact dimscale_wider_refuted_lemma. Qed.
Print Assumptions dimscale_wider_refuted.

(** non-vacuity: an ordinary 16-operation history (create, name, scale, attributes, calibration, two reopens, a
    renaming) meets every hypothesis; the state it leaves in the file is a normal form that reloads to itself *)
Example ex_hyps_ordinary_history : hyps init ops_plain.
Proof. exact ops_plain_hyps. Qed.
Example ex_loaded_state :
  let c := sd_saved (snd (run step init ops_plain)) in
  normalize c = c /\ reload (store c) = c /\ length (s_vars c) = 3%nat /\ length (s_dims c) = 2%nat.
Proof. exact loaded_state_example. Qed.

(** the number-type record of a variable: type code and class byte restore the HDF number type, little-endian
    variants included (which field hdf_write_var tests for the little-endian bit is regenerated) *)
Theorem nt_record_roundtrip : forall nt, nt_plain nt = true -> nt_decode (Z.land nt 255) (nt_class nt) = nt.
Proof. exact nt_class_roundtrip. Qed.
Print Assumptions nt_record_roundtrip.
Example ex_nt_little_endian : nt_plain (DFNT_INT32 + DFNT_LITEND) = true /\ nt_class (DFNT_INT32 + DFNT_LITEND) = DFNTF_PC.
Proof. vm_compute. split; reflexivity. Qed.
