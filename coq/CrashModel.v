(** C17 -- implementation model M (layer L1): the file record, the DD-block list, the end-of-file allocator and
    the flush, as hfile.c / hfiledd.c perform them, emitting the ordered log of physical writes.

      HPgetdiskblock   -> [getdiskblock]   (space only at f_end_off; with caching no byte is written, FILE_END_DIRTY)
      HTIfind_dd(NULL) -> [find_null]      (first NIL descriptor, head to tail)
      HTInew_dd_block  -> [new_dd_block]   (header + NIL DDs written at creation in BOTH cache modes;
                                            predecessor's next-offset only in memory while caching)
      HTIupdate_dd     -> [update_dd]      (deferred while caching; raises f_end_off)
      HTPcreate        -> [create_dd]
      Hstartwrite/Hsetlength/Hwrite/Hendaccess on a new tag/ref -> [op_put], [op_app]
      HTPsync          -> [sync_blocks]    (dirty blocks head to tail: header, then the whole DD list)
      HIextend_file    -> [extend_file]
      HIsync           -> [sync]
      HTPstart         -> [load]           (from the format reader of CrashSpec.v)

    Offsets/lengths are unbounded Z here; the theorems carry the no-overflow guard (< 2^31, see C20).
    No proofs in this file. *)
From Coq Require Import ZArith List Bool.
Require Import H4.gen.Gen_Crash H4.CrashSpec.
Import ListNotations.
Local Open Scope Z_scope.

Record mblock := mkmb { m_blk : block; m_dirty : bool }.

Record frec := mkfrec {
  f_blocks : list mblock;      (* ddhead .. ddlast *)
  f_end : Z;                   (* f_end_off *)
  f_cache : bool;
  f_dd_dirty : bool;           (* dirty & DDLIST_DIRTY *)
  f_end_dirty : bool;          (* dirty & FILE_END_DIRTY *)
  f_maxref : Z                 (* maxref: the highest reference number seen (uint16) *)
}.

Definition set_blocks fr bl := mkfrec bl (f_end fr) (f_cache fr) (f_dd_dirty fr) (f_end_dirty fr) (f_maxref fr).
Definition set_end fr e := mkfrec (f_blocks fr) e (f_cache fr) (f_dd_dirty fr) (f_end_dirty fr) (f_maxref fr).
Definition set_dd_dirty fr b := mkfrec (f_blocks fr) (f_end fr) (f_cache fr) b (f_end_dirty fr) (f_maxref fr).
Definition set_end_dirty fr b := mkfrec (f_blocks fr) (f_end fr) (f_cache fr) (f_dd_dirty fr) b (f_maxref fr).
Definition set_maxref fr m := mkfrec (f_blocks fr) (f_end fr) (f_cache fr) (f_dd_dirty fr) (f_end_dirty fr) m.

(** HTPstart *)
Definition load (img : image) (cache : bool) : option frec :=
  match parse_file img with
  | None => None
  | Some bl => Some (mkfrec (map (fun b => mkmb b false) bl) (old_end bl) cache false false
                            (fold_left Z.max (map d_ref (all_dds bl)) 0))
  end.

(** HPgetdiskblock(file_rec, size, moveto): returns (offset, file record, writes) *)
Definition getdiskblock (fr : frec) (size : Z) : Z * frec * wlog :=
  let ret := f_end fr in
  let '(fr1, w) :=
    if 0 <? size then
      if f_cache fr then (set_end_dirty fr true, [])
      else (fr, [(getdiskblock_mark_off ret size, [0])])
    else (fr, []) in
  (ret, set_end fr1 (f_end fr1 + getdiskblock_advance size), w).

(** index of the first NIL descriptor of a DD list *)
Fixpoint find_null_dds (l : list dd) : option nat :=
  match l with
  | [] => None
  | d :: r => if d_tag d =? DFTAG_NULL then Some O
              else match find_null_dds r with Some i => Some (S i) | None => None end
  end.

Fixpoint find_null (bl : list mblock) : option (nat * nat) :=
  match bl with
  | [] => None
  | b :: r => match find_null_dds (b_dds (m_blk b)) with
              | Some i => Some (O, i)
              | None => match find_null r with Some (bi, i) => Some (S bi, i) | None => None end
              end
  end.

Fixpoint set_nth {A} (n : nat) (x : A) (l : list A) : list A :=
  match l, n with
  | [], _ => []
  | _ :: r, O => x :: r
  | y :: r, S k => y :: set_nth k x r
  end.

Definition set_dds (b : block) (l : list dd) : block := mkblock (b_off b) (b_ndds b) (b_next b) l.
Definition set_next (b : block) (n : Z) : block := mkblock (b_off b) (b_ndds b) n (b_dds b).

Fixpoint upd_block (bi : nat) (f : mblock -> mblock) (bl : list mblock) : list mblock :=
  match bl, bi with
  | [], _ => []
  | b :: r, O => f b :: r
  | b :: r, S k => b :: upd_block k f r
  end.

(** HTIupdate_dd for the descriptor (bi, i) whose new value is d *)
Definition update_dd (fr : frec) (bi i : nat) (d : dd) : frec * wlog :=
  let bl := upd_block bi (fun mb => mkmb (set_dds (m_blk mb) (set_nth i d (b_dds (m_blk mb))))
                                        (if f_cache fr then true else m_dirty mb)) (f_blocks fr) in
  let fr1 := set_blocks fr bl in
  let '(fr2, w) :=
    if f_cache fr then (set_dd_dirty fr1 true, [])
    else match nth_error (f_blocks fr) bi with
         | Some mb => (fr1, [(dd_disk_off (b_off (m_blk mb)) (Z.of_nat i), enc_dd d)])
         | None => (fr1, [])
         end in
  let fr3 := if negb (d_off d =? INVALID_OFFSET) && negb (d_len d =? INVALID_LENGTH) && (f_end fr2 <? d_off d + d_len d)
             then set_end fr2 (d_off d + d_len d) else fr2 in
  (fr3, w).

(** HTInew_dd_block *)
Definition new_dd_block (fr : frec) : frec * wlog :=
  match f_blocks fr with
  | [] => (fr, [])
  | hd :: _ =>
      let ndds := b_ndds (m_blk hd) in
      let '(off, fr1, w1) := getdiskblock fr (newblock_size ndds) in
      let nb := mkmb (mkblock off ndds 0 (repeat nil_dd (Z.to_nat ndds))) (f_cache fr) in
      let w2 := [(off, enc_hdr ndds 0); (off + hdr_sz, enc_dds (repeat nil_dd (Z.to_nat ndds)))] in
      let lasti := (length (f_blocks fr1) - 1)%nat in
      let last_off := match nth_error (f_blocks fr1) lasti with Some mb => b_off (m_blk mb) | None => 0 end in
      let bl := upd_block lasti (fun mb => mkmb (set_next (m_blk mb) off) (if f_cache fr then true else m_dirty mb))
                          (f_blocks fr1) in
      let w3 := if f_cache fr then [] else [(prev_next_field_off last_off, enc32 off)] in
      let fr2 := set_blocks fr1 (bl ++ [nb]) in
      let fr3 := if f_cache fr then set_dd_dirty fr2 true else fr2 in
      (set_end fr3 (newblock_end off ndds), w1 ++ w2 ++ w3)
  end.

(** HTPcreate first refuses a tag/ref that is already in use (HTIfind_dd through the tag tree, which is keyed by the
    base tag and holds every non-NIL descriptor), before any descriptor slot is claimed: [has_dd] *)
Definition basetag (t : Z) : Z := if Z.land t 32768 =? 0 then Z.land t 49151 else t.
Definition has_dd (fr : frec) (tag ref : Z) : bool :=
  existsb (fun d => negb (d_tag d =? DFTAG_NULL) && (basetag (d_tag d) =? basetag tag) && (d_ref d =? ref))
          (flat_map (fun mb => b_dds (m_blk mb)) (f_blocks fr)).

(** HTPcreate (after the duplicate check): slot for a new descriptor (tag, ref) with invalid offset/length *)
Definition create_dd (fr : frec) (tag ref : Z) : (nat * nat) * frec * wlog :=
  let '(slot, fr1, w1) :=
    match find_null (f_blocks fr) with
    | Some s => (s, fr, [])
    | None => let '(fr', w) := new_dd_block fr in ((length (f_blocks fr), O), fr', w)
    end in
  let '(fr2, w2) := update_dd fr1 (fst slot) (snd slot) (mkdd tag ref INVALID_OFFSET INVALID_LENGTH) in
  (slot, (if f_maxref fr2 <? ref then set_maxref fr2 ref else fr2), w1 ++ w2).

(** Hstartwrite(tag, ref, len); Hwrite(data) when data is not empty; Hendaccess -- on a NEW tag/ref *)
Definition op_put (fr : frec) (tag ref len : Z) (data : list Z) : frec * wlog :=
  if has_dd fr tag ref then (fr, []) else
  let '(slot, fr1, w1) := create_dd fr tag ref in
  let '(off, fr2, w2) := getdiskblock fr1 len in
  let '(fr3, w3) := update_dd fr2 (fst slot) (snd slot) (mkdd tag ref off len) in
  match data with
  | [] => (fr3, w1 ++ w2 ++ w3)
  | _ => let e := off + zlen data in
         (if f_end fr3 <? e then set_end fr3 e else fr3, w1 ++ w2 ++ w3 ++ [(off, data)])
  end.

(** Hread / Hgetelement of an existing element: space reserved while caching is added to the file first
    (HIextend_file; FILE_END_DIRTY cleared) *)
Definition op_get (fr : frec) : frec * wlog :=
  if f_cache fr && f_end_dirty fr then (set_end_dirty fr false, [(f_end fr, [0])]) else (fr, []).

(** copying an element: Hstartwrite(tag, ref, len) reserves the space, an existing element is READ, then the new
    one is written (Hwrite; Hendaccess) *)
Definition op_copy (fr : frec) (tag ref len : Z) (data : list Z) : frec * wlog :=
  if has_dd fr tag ref then (fr, []) else
  let '(slot, fr1, w1) := create_dd fr tag ref in
  let '(off, fr2, w2) := getdiskblock fr1 len in
  let '(fr3, w3) := update_dd fr2 (fst slot) (snd slot) (mkdd tag ref off len) in
  let '(fr4, w4) := op_get fr3 in
  match data with
  | [] => (fr4, w1 ++ w2 ++ w3 ++ w4)
  | _ => let e := off + zlen data in
         (if f_end fr4 <? e then set_end fr4 e else fr4, w1 ++ w2 ++ w3 ++ w4 ++ [(off, data)])
  end.

(** Hstartaccess(new, appendable); one Hwrite per chunk; Hendaccess.  The first write sets the length
    (Hsetlength); every later one finds the element at the end of the file and extends it in place. *)
Fixpoint app_writes (fr : frec) (slot : nat * nat) (tag ref off posn : Z) (chunks : list (list Z)) : frec * wlog :=
  match chunks with
  | [] => (fr, [])
  | c :: r =>
      let n := zlen c in
      let '(fr1, w1) := update_dd fr (fst slot) (snd slot) (mkdd tag ref off (posn + n)) in
      let e := off + posn + n in
      let fr2 := if f_end fr1 <? e then set_end fr1 e else fr1 in
      let '(fr3, w3) := app_writes fr2 slot tag ref off (posn + n) r in
      (fr3, w1 ++ [(off + posn, c)] ++ w3)
  end.

Definition op_app (fr : frec) (tag ref : Z) (chunks : list (list Z)) : frec * wlog :=
  if has_dd fr tag ref then (fr, []) else
  let '(slot, fr1, w1) := create_dd fr tag ref in
  match chunks with
  | [] => (fr1, w1)
  | c :: r =>
      let '(off, fr2, w2) := getdiskblock fr1 (zlen c) in
      let '(fr3, w3) := update_dd fr2 (fst slot) (snd slot) (mkdd tag ref off (zlen c)) in
      let e := off + zlen c in
      let fr4 := if f_end fr3 <? e then set_end fr3 e else fr3 in
      let '(fr5, w5) := app_writes fr4 slot tag ref off (zlen c) r in
      (fr5, w1 ++ w2 ++ w3 ++ [(off, c)] ++ w5)
  end.

(** Hnewref: the next reference number while maxref < MAX_REF (65535); afterwards the smallest reference number
    that no descriptor of ANY DD block uses (HTIfind_dd with a wildcard tag walks the whole block list) *)
Definition all_mem_dds (fr : frec) : list dd := flat_map (fun mb => b_dds (m_blk mb)) (f_blocks fr).
Definition ref_used (fr : frec) (r : Z) : bool :=
  existsb (fun d => negb (d_tag d =? DFTAG_NULL) && (d_ref d =? r)) (all_mem_dds fr).
Fixpoint first_free (fr : frec) (n : nat) (r : Z) : Z :=
  match n with
  | O => 0
  | S k => if ref_used fr r then first_free fr k (r + 1) else r
  end.
Definition MAX_REF : Z := 65535.
Definition newref (fr : frec) : Z * frec :=
  if f_maxref fr <? MAX_REF then (f_maxref fr + 1, set_maxref fr (f_maxref fr + 1))
  else (first_free fr (Z.to_nat MAX_REF) 1, fr).

(** Hputelement(tag, Hnewref(), data): the reference number is a uint16 in C, so a value outside 1..65535 cannot
    come back; the guard stands for that typing *)
Definition op_putn (fr : frec) (tag len : Z) (data : list Z) : frec * wlog :=
  let '(ref, fr1) := newref fr in
  if (0 <? ref) && (ref <? 65536) then op_put fr1 tag ref len data else (fr1, []).

(** Hdeldd(tag, ref) of an existing element: HTPdelete releases nothing on disk (HPfreediskblock is a no-op),
    turns the descriptor into a NIL one in memory (tag only) and hands it to HTIupdate_dd *)
Fixpoint find_dd_dds (l : list dd) (tag ref : Z) : option nat :=
  match l with
  | [] => None
  | d :: r => if negb (d_tag d =? DFTAG_NULL) && (basetag (d_tag d) =? basetag tag) && (d_ref d =? ref) then Some O
              else match find_dd_dds r tag ref with Some i => Some (S i) | None => None end
  end.
Fixpoint find_dd (bl : list mblock) (tag ref : Z) : option (nat * nat) :=
  match bl with
  | [] => None
  | b :: r => match find_dd_dds (b_dds (m_blk b)) tag ref with
              | Some i => Some (O, i)
              | None => match find_dd r tag ref with Some (bi, i) => Some (S bi, i) | None => None end
              end
  end.
Definition op_del (fr : frec) (tag ref : Z) : frec * wlog :=
  match find_dd (f_blocks fr) tag ref with
  | None => (fr, [])
  | Some (bi, i) =>
      match nth_error (f_blocks fr) bi with
      | None => (fr, [])
      | Some mb => match nth_error (b_dds (m_blk mb)) i with
                   | None => (fr, [])
                   | Some d => update_dd fr bi i (mkdd DFTAG_NULL (d_ref d) (d_off d) (d_len d))
                   end
      end
  end.

(** rewriting the record of an EXISTING object the way Vdetach / VSdetach do it: HDreuse_tagref (HTPupdate of the
    descriptor to an invalid offset and length, tag and ref kept), then Hputelement under the same tag/ref, which
    Hstartaccess therefore treats as a new element: new space at the end of the file, old bytes untouched *)
Definition op_rewrite (fr : frec) (tag ref len : Z) (data : list Z) : frec * wlog :=
  match find_dd (f_blocks fr) tag ref with
  | None => (fr, [])
  | Some (bi, i) =>
      match nth_error (f_blocks fr) bi with
      | None => (fr, [])
      | Some mb =>
          match nth_error (b_dds (m_blk mb)) i with
          | None => (fr, [])
          | Some d =>
              let '(fr1, w1) := update_dd fr bi i (mkdd (d_tag d) (d_ref d) INVALID_OFFSET INVALID_LENGTH) in
              let '(off, fr2, w2) := getdiskblock fr1 len in
              let '(fr3, w3) := update_dd fr2 bi i (mkdd (d_tag d) (d_ref d) off len) in
              match data with
              | [] => (fr3, w1 ++ w2 ++ w3)
              | _ => let e := off + zlen data in
                     (if f_end fr3 <? e then set_end fr3 e else fr3, w1 ++ w2 ++ w3 ++ [(off, data)])
              end
          end
      end
  end.

(** Hdupdd(tag, ref, otag, oref): a second descriptor for the data of an existing element.  HTPcreate refuses a
    tag/ref that is in use BEFORE it claims a descriptor slot: a refused request leaves no trace *)
Definition op_dup (fr : frec) (tag ref otag oref : Z) : frec * wlog :=
  match find_dd (f_blocks fr) otag oref with
  | None => (fr, [])
  | Some (bi, i) =>
      match nth_error (f_blocks fr) bi with
      | None => (fr, [])
      | Some mb =>
          match nth_error (b_dds (m_blk mb)) i with
          | None => (fr, [])
          | Some d =>
              if has_dd fr tag ref then (fr, []) else
              let '(slot, fr1, w1) := create_dd fr tag ref in
              let '(fr2, w2) := update_dd fr1 (fst slot) (snd slot) (mkdd tag ref (d_off d) (d_len d)) in
              (fr2, w1 ++ w2)
          end
      end
  end.

(** HTPsync: every dirty block, head to tail: header, then the whole DD list *)
Definition block_writes (b : block) : wlog :=
  [(b_off b, enc_hdr (b_ndds b) (b_next b)); (b_off b + hdr_sz, enc_dds (b_dds b))].

Definition sync_blocks (bl : list mblock) : wlog :=
  flat_map (fun mb => if m_dirty mb then block_writes (m_blk mb) else []) bl.

(** HIextend_file *)
Definition extend_file (fr : frec) : wlog := [(f_end fr, [0])].

(** HIsync *)
Definition sync (fr : frec) : frec * wlog :=
  if f_cache fr && (f_dd_dirty fr || f_end_dirty fr) then
    let w1 := if f_dd_dirty fr then sync_blocks (f_blocks fr) else [] in
    let bl := if f_dd_dirty fr then map (fun mb => mkmb (m_blk mb) false) (f_blocks fr) else f_blocks fr in
    let w2 := if f_end_dirty fr then extend_file fr else [] in
    (mkfrec bl (f_end fr) (f_cache fr) false false (f_maxref fr), w1 ++ w2)
  else (fr, []).

(** ---- sessions *)
Inductive op :=
| OpPut (tag ref len : Z) (data : list Z)
| OpApp (tag ref : Z) (chunks : list (list Z))
| OpPutNew (tag len : Z) (data : list Z)
| OpDel (tag ref : Z)
| OpGet
| OpCopy (tag ref len : Z) (data : list Z)
| OpRewrite (tag ref len : Z) (data : list Z)
| OpDup (tag ref otag oref : Z).

Definition run_op (fr : frec) (o : op) : frec * wlog :=
  match o with
  | OpPut t r l d => op_put fr t r l d
  | OpApp t r c => op_app fr t r c
  | OpPutNew t l d => op_putn fr t l d
  | OpDel t r => op_del fr t r
  | OpGet => op_get fr
  | OpCopy t r l d => op_copy fr t r l d
  | OpRewrite t r l d => op_rewrite fr t r l d
  | OpDup t r ot orf => op_dup fr t r ot orf
  end.

Fixpoint run_ops (fr : frec) (ops : list op) : frec * wlog :=
  match ops with
  | [] => (fr, [])
  | o :: r => let '(fr1, w1) := run_op fr o in
              let '(fr2, w2) := run_ops fr1 r in
              (fr2, w1 ++ w2)
  end.

(** a whole append-only session on an existing image: (writes before the flush, writes of the flush at close) *)
Definition session (img : image) (cache : bool) (ops : list op) : option (wlog * wlog) :=
  match load img cache with
  | None => None
  | Some fr => let '(fr1, pre) := run_ops fr ops in
               let '(_, fl) := sync fr1 in
               Some (pre, fl)
  end.

(** a session with explicit Hsync calls in between: list of (ops, flush) episodes *)
Fixpoint episodes (fr : frec) (eps : list (list op)) : list (wlog * wlog) :=
  match eps with
  | [] => []
  | ops :: r => let '(fr1, pre) := run_ops fr ops in
                let '(fr2, fl) := sync fr1 in
                (pre, fl) :: episodes fr2 r
  end.

(** the operations the theorems quantify over: 16-bit tag/ref, tag not NIL, non-negative lengths, data inside
    the reserved length *)
Definition byte_list_ok (l : list Z) : bool := forallb (fun b => (0 <=? b) && (b <? 256)) l.
Definition op_ok (o : op) : bool :=
  match o with
  | OpPut t r l d => (0 <=? t) && (t <? 65536) && negb (t =? DFTAG_NULL) && (0 <=? r) && (r <? 65536) &&
                     (0 <=? l) && (zlen d <=? l) && byte_list_ok d
  | OpApp t r c => (0 <=? t) && (t <? 65536) && negb (t =? DFTAG_NULL) && (0 <=? r) && (r <? 65536) &&
                   forallb (fun x => byte_list_ok x && (0 <? zlen x)) c && negb (length c =? 0)%nat
  | OpPutNew t l d => (0 <=? t) && (t <? 65536) && negb (t =? DFTAG_NULL) && (0 <=? l) && (zlen d <=? l) && byte_list_ok d
  | OpDel _ _ => false
  | OpGet => true
  | OpCopy t r l d => (0 <=? t) && (t <? 65536) && negb (t =? DFTAG_NULL) && (0 <=? r) && (r <? 65536) &&
                      (0 <=? l) && (zlen d <=? l) && byte_list_ok d
  | OpRewrite _ _ _ _ => false
  | OpDup _ _ _ _ => false
  end.

(** the wider class of the first sentence of the property: deletions of old elements are allowed too
    (delete-then-append, as SDend does with its metadata), and so are rewrites of existing records through
    descriptor reuse (Vdetach / VSdetach) *)
Definition op_ok1 (o : op) : bool :=
  match o with
  | OpDel _ _ => true
  | OpRewrite _ _ l d => (0 <=? l) && (zlen d <=? l)
  | OpDup _ _ _ _ => true
  | _ => op_ok o
  end.
