(** C19 -- abstract specification S of "inspection tools report what is actually in the file".
    No proofs in this file.

    A file, as the property sees it, is a list of named objects (datasets, images, tables, groups) plus a set of
    global attributes.  Values are integers: an integer element is its value, a floating-point element is its
    IEEE bit pattern (NaN-free data, no negative zero: equal patterns <-> equal values).

    S says:
      - hdiff F1 F2 exits 0 exactly when F1 and F2 have the same content  ([spec_exit]);
      - an element-wise comparison reports exactly the positions whose values differ ([spec_count]);
      - a data dump lists the values in row-major order: the k-th value printed is the element whose
        multi-index is the mixed-radix representation of k ([spec_index], [spec_offset]);
      - an imported dataset has the shape and the values of its input ([spec_import]). *)
From Coq Require Import ZArith List Bool.
Import ListNotations.
Local Open Scope Z_scope.

(** * File content *)
Record attr := mkattr { a_name : list Z; a_type : Z; a_vals : list Z }.

Inductive body :=
| BSds (nt : Z) (dims : list Z) (vals : list Z) (attrs : list attr)
| BGr (nt ncomp xdim ydim : Z) (vals : list Z)
| BVd (nrec : Z) (fields : list (list Z * (Z * Z))) (vals : list Z)   (* field = name, (type, order) *)
| BVg.

Record obj := mkobj { o_name : list Z; o_body : body }.
Record file := mkfile { f_gattrs : list attr; f_objs : list obj }.

(** boolean equality, structurally *)
Fixpoint zlist_eqb (a b : list Z) : bool :=
  match a, b with
  | [], [] => true
  | x :: a', y :: b' => (x =? y) && zlist_eqb a' b'
  | _, _ => false
  end.

Definition attr_eqb (a b : attr) : bool :=
  zlist_eqb (a_name a) (a_name b) && (a_type a =? a_type b) && zlist_eqb (a_vals a) (a_vals b).

Fixpoint list_eqb {A} (eqb : A -> A -> bool) (a b : list A) : bool :=
  match a, b with
  | [], [] => true
  | x :: a', y :: b' => eqb x y && list_eqb eqb a' b'
  | _, _ => false
  end.

Definition field_eqb (f g : list Z * (Z * Z)) : bool :=
  zlist_eqb (fst f) (fst g) && (fst (snd f) =? fst (snd g)) && (snd (snd f) =? snd (snd g)).

Definition body_eqb (x y : body) : bool :=
  match x, y with
  | BSds t1 d1 v1 a1, BSds t2 d2 v2 a2 => (t1 =? t2) && zlist_eqb d1 d2 && zlist_eqb v1 v2 && list_eqb attr_eqb a1 a2
  | BGr t1 c1 x1 y1 v1, BGr t2 c2 x2 y2 v2 => (t1 =? t2) && (c1 =? c2) && (x1 =? x2) && (y1 =? y2) && zlist_eqb v1 v2
  | BVd n1 f1 v1, BVd n2 f2 v2 => (n1 =? n2) && list_eqb field_eqb f1 f2 && zlist_eqb v1 v2
  | BVg, BVg => true
  | _, _ => false
  end.

Definition obj_eqb (x y : obj) : bool := zlist_eqb (o_name x) (o_name y) && body_eqb (o_body x) (o_body y).

(** global attributes form a finite map: same content = each one occurs, equal, on the other side *)
Definition attr_in (a : attr) (l : list attr) : bool := existsb (attr_eqb a) l.
Definition attrs_same (g1 g2 : list attr) : bool :=
  forallb (fun a => attr_in a g2) g1 && forallb (fun b => attr_in b g1) g2.

Definition same_content (f1 f2 : file) : bool :=
  list_eqb obj_eqb (f_objs f1) (f_objs f2) && attrs_same (f_gattrs f1) (f_gattrs f2).

(** hdiff's exit status *)
Definition spec_exit (f1 f2 : file) : Z := if same_content f1 f2 then 0 else 1.

(** * Element-wise comparison: the positions that differ *)
Fixpoint spec_diff_positions (i : Z) (a b : list Z) : list Z :=
  match a, b with
  | x :: a', y :: b' => if x =? y then spec_diff_positions (i + 1) a' b' else i :: spec_diff_positions (i + 1) a' b'
  | _, _ => []
  end.
Definition spec_count (a b : list Z) : Z := Z.of_nat (length (spec_diff_positions 0 a b)).

(** value range of each integer number type (the domain of the element-wise claims) *)
Definition nt_ranges : list (Z * (Z * Z)) :=
  [(20, (-128, 127)); (21, (0, 255)); (3, (0, 255)); (4, (-128, 127));
   (22, (-32768, 32767)); (23, (0, 65535)); (24, (-2147483648, 2147483647)); (25, (0, 4294967295))].
Fixpoint nt_range_in (l : list (Z * (Z * Z))) (nt : Z) : option (Z * Z) :=
  match l with [] => None | (k, r) :: t => if nt =? k then Some r else nt_range_in t nt end.
Definition nt_range (nt : Z) : option (Z * Z) := nt_range_in nt_ranges nt.
Definition in_range (lo hi v : Z) : Prop := lo <= v <= hi.

(** * Row-major order.  [dims] slowest first. *)
Fixpoint zprod (l : list Z) : Z := match l with [] => 1 | d :: r => d * zprod r end.

(** multi-index of linear position k *)
Fixpoint spec_index (dims : list Z) (k : Z) : list Z :=
  match dims with
  | [] => []
  | d :: r => (k / zprod r) mod d :: spec_index r k
  end.

(** linear position of a multi-index *)
Fixpoint spec_offset (dims idx : list Z) : Z :=
  match dims, idx with
  | d :: r, i :: ir => i * zprod r + spec_offset r ir
  | _, _ => 0
  end.

(** * Import: planes/rows/cols and the numbers, as given *)
Definition spec_import (planes rows cols : Z) (vals : list Z) : list Z * list Z :=
  ((if 1 <? planes then [planes; rows; cols] else [rows; cols]), vals).
