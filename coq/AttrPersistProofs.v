(** C10 -- proofs about the persistence model and the whole-file model (AttrPersistModel.v). *)
From Coq Require Import ZArith List Bool Lia Arith.
Require Import H4.gen.Gen_Attr H4.AttrSpec H4.AttrModel H4.AttrProofs H4.AttrPersistModel.
Import ListNotations.
Local Open Scope Z_scope.

(* ------------------------------------------------------------------------------------------------------- *)
(** * small facts *)
Lemma dname_eqb_eq : forall a b, dname_eqb a b = true <-> a = b.
Proof.
  intros [x|m] [y|n]; simpl; split; intro H; try discriminate.
  - apply beq_eq in H. congruence.
  - inversion H. apply beq_refl.
  - apply Nat.eqb_eq in H. congruence.
  - inversion H. apply Nat.eqb_refl.
Qed.
Lemma dname_eqb_refl : forall a, dname_eqb a a = true.
Proof. intro. apply dname_eqb_eq. reflexivity. Qed.
Lemma dname_eqb_neq : forall a b, a <> b -> dname_eqb a b = false.
Proof. intros a b H. destruct (dname_eqb a b) eqn:E; [apply dname_eqb_eq in E; contradiction | reflexivity]. Qed.
Lemma dname_eqb_false : forall a b, dname_eqb a b = false -> a <> b.
Proof. intros a b H E. subst. rewrite dname_eqb_refl in H. discriminate. Qed.
Lemma dname_eqb_sym : forall a b, dname_eqb a b = dname_eqb b a.
Proof.
  intros a b. destruct (dname_eqb a b) eqn:E.
  - apply dname_eqb_eq in E. subst. symmetry. apply dname_eqb_refl.
  - symmetry. apply dname_eqb_neq. intro H. subst. rewrite dname_eqb_refl in E. discriminate.
Qed.

Lemma first_idx_ext_in : forall (A : Type) (f g : A -> bool) l, (forall x, In x l -> f x = g x) -> first_idx f l = first_idx g l.
Proof.
  induction l as [|x l IH]; simpl; intro H; [reflexivity|].
  rewrite (H x (or_introl eq_refl)). destruct (g x); [reflexivity|]. rewrite IH; [reflexivity|]. intros; apply H; right; assumption.
Qed.
Lemma first_idx_none : forall (A : Type) (f : A -> bool) l, first_idx f l = None -> forall x, In x l -> f x = false.
Proof.
  induction l as [|y l IH]; simpl; intros H x Hx; [contradiction|].
  destruct (f y) eqn:E; [discriminate|]. destruct (first_idx f l) eqn:F; [discriminate|].
  destruct Hx as [Hx | Hx]; [subst; assumption | apply IH; auto].
Qed.

Lemma zupd_length : forall (A : Type) (l : list A) i x, length (zupd l i x) = length l.
Proof. induction l as [|y l IH]; intros [|i] x; simpl; try reflexivity. rewrite IH. reflexivity. Qed.
Lemma zupd_nth_same : forall (A : Type) (l : list A) i x y, nth_error l i = Some y -> nth_error (zupd l i x) i = Some x.
Proof. induction l as [|z l IH]; intros [|i] x y H; simpl in *; try discriminate; [reflexivity | eapply IH; eauto]. Qed.
Lemma zupd_nth_other : forall (A : Type) (l : list A) i j x, i <> j -> nth_error (zupd l i x) j = nth_error l j.
Proof. induction l as [|z l IH]; intros [|i] [|j] x H; simpl; try reflexivity; try lia. apply IH. lia. Qed.
Lemma zupd_In : forall (A : Type) (l : list A) i x y, In y (zupd l i x) -> y = x \/ In y l.
Proof.
  induction l as [|z l IH]; intros [|i] x y H; simpl in *; try contradiction.
  - destruct H; [left; congruence | right; right; assumption].
  - destruct H as [H | H]; [right; left; assumption|]. destruct (IH _ _ _ H); [left | right; right]; assumption.
Qed.
Lemma zupd_map : forall (A B : Type) (f : A -> B) l i x, map f (zupd l i x) = zupd (map f l) i (f x).
Proof. induction l as [|y l IH]; intros [|i] x; simpl; try reflexivity. rewrite IH. reflexivity. Qed.
Lemma zupd_same_id : forall (A : Type) (l : list A) i x, nth_error l i = Some x -> zupd l i x = l.
Proof. induction l as [|y l IH]; intros [|i] x H; simpl in *; try discriminate; [congruence | rewrite IH; auto]. Qed.

(* ------------------------------------------------------------------------------------------------------- *)
(** * one attribute through the file *)
Lemma attr_record_roundtrip_lemma : forall a, nul_free (a_name a) -> zlen (a_name a) <= VSNAMELENMAX ->
  decode_attr (encode_attr a) = Some a.
Proof.
  intros [n t c d] Hn Hl. simpl in *. unfold decode_attr, encode_attr. simpl.
  assert (vs_setname n = n) as E by (unfold vs_setname; rewrite cstr_nul_free by assumption; apply firstn_all2_Z; assumption).
  rewrite E. destruct (t =? DFNT_CHAR); f_equal; f_equal; lia.
Qed.
Definition attr_names_ok (l : list attr) : Prop := Forall (fun a => nul_free (a_name a) /\ zlen (a_name a) <= VSNAMELENMAX) l.
Lemma attrs_roundtrip : forall (A : Type) (wrap : avdata -> A) (unwrap : A -> option attr) l,
  (forall v, unwrap (wrap v) = decode_attr v) -> attr_names_ok l ->
  filter_map unwrap (map (fun a => wrap (encode_attr a)) l) = l.
Proof.
  intros A wrap unwrap l Hw. induction l as [|a l IH]; intro H; [reflexivity|]. inversion H as [|? ? [H1 H2] H3]; subst.
  simpl. rewrite Hw, attr_record_roundtrip_lemma by assumption. rewrite IH by assumption. reflexivity.
Qed.

(** finding 1 as a witness: a name of 65 bytes does not come back *)
Lemma attr_name_truncation_refuted_lemma :
  exists a, nul_free (a_name a) /\ zlen (a_name a) = VSNAMELENMAX + 1 /\ decode_attr (encode_attr a) <> Some a.
Proof.
  exists (mkAttr (repeat 115 65) DFNT_INT32 1 [1; 0; 0; 0]). split; [|split].
  - simpl. repeat constructor; discriminate.
  - reflexivity.
  - vm_compute. discriminate.
Qed.

(* ------------------------------------------------------------------------------------------------------- *)
(** * the invariant of the SD state *)
Definition live (c : sdcore) (k : nat) : Prop := In k (s_slots c).
Definition orphan (c : sdcore) (v : var) : Prop := forall k0, v_cobj v = Some k0 -> ~ live c k0.

Record inv (c : sdcore) : Prop := mkInv {
  i_slots : forall k, live c k -> (k < length (s_dims c))%nat;
  i_vdims : forall v sl, In v (s_vars c) -> In sl (v_dims v) -> (sl < length (s_slots c))%nat;
  i_names : forall k1 k2 d1 d2, live c k1 -> live c k2 -> nth_error (s_dims c) k1 = Some d1 ->
            nth_error (s_dims c) k2 = Some d2 -> d_name d1 = d_name d2 -> k1 = k2;
  i_sds : forall v, In v (s_vars c) -> v_kind v = KSds -> v_cobj v = None /\ exists b, v_name v = DUser b;
  i_rank : forall v, In v (s_vars c) -> v_kind v = KCoord -> length (v_dims v) = 1%nat;
  i_cname : forall v k d, In v (s_vars c) -> v_kind v = KCoord -> v_cobj v = Some k -> live c k ->
            nth_error (s_dims c) k = Some d -> v_name v = d_name d;
  i_cuniq : forall i j vi vj k, nth_error (s_vars c) i = Some vi -> nth_error (s_vars c) j = Some vj ->
            v_kind vi = KCoord -> v_kind vj = KCoord -> v_cobj vi = Some k -> v_cobj vj = Some k -> live c k -> i = j;
  i_orphan : forall v k d, In v (s_vars c) -> v_kind v = KCoord -> orphan c v -> live c k ->
             nth_error (s_dims c) k = Some d -> v_name v <> d_name d;
  i_cobj : forall v k, In v (s_vars c) -> v_cobj v = Some k -> (k < length (s_dims c))%nat;
  i_fake : forall k d n, live c k -> nth_error (s_dims c) k = Some d -> d_name d = DFake n -> (n < length (s_slots c))%nat;
  i_vfake : forall v n, In v (s_vars c) -> v_name v = DFake n -> (n < length (s_slots c))%nat
}.

Lemma inv_sd0 : inv sd0.
Proof. constructor; simpl; unfold live; simpl; intros; try contradiction; try (destruct i; discriminate). Qed.

Lemma live_dim : forall c k, inv c -> live c k -> exists d, nth_error (s_dims c) k = Some d.
Proof.
  intros c k Hi Hl. destruct (nth_error (s_dims c) k) eqn:E; [eexists; reflexivity|].
  apply nth_error_None in E. pose proof (i_slots c Hi k Hl). lia.
Qed.

Lemma classic_live : forall c k, live c k \/ ~ live c k.
Proof. intros c k. unfold live. destruct (in_dec Nat.eq_dec k (s_slots c)); [left | right]; assumption. Qed.

(** ** by name = by identity *)
Lemma hooks_agree_lemma : forall c k, inv c -> live c k -> coord_by_name c k = coord_of c k.
Proof.
  intros c k Hi Hl. unfold coord_by_name, coord_of. destruct (live_dim c k Hi Hl) as [dm Hdm]. rewrite Hdm.
  apply first_idx_ext_in. intros v Hv. unfold is_coord_named, is_coord_of.
  destruct (v_kind v) eqn:Ek; [destruct (v_cobj v); reflexivity|].
  rewrite (i_rank c Hi v Hv Ek). simpl.
  destruct (v_cobj v) as [k'|] eqn:Ec.
  - destruct (Nat.eqb k' k) eqn:E.
    + apply Nat.eqb_eq in E. subst k'. rewrite (i_cname c Hi v k dm Hv Ek Ec Hl Hdm). apply dname_eqb_refl.
    + apply Nat.eqb_neq in E. apply dname_eqb_neq. intro Hn.
      destruct (classic_live c k') as [Hl' | Hl'].
      * destruct (live_dim c k' Hi Hl') as [d' Hd']. pose proof (i_cname c Hi v k' d' Hv Ek Ec Hl' Hd') as Hc.
        apply E. apply (i_names c Hi k' k d' dm Hl' Hl Hd' Hdm). congruence.
      * apply (i_orphan c Hi v k dm Hv Ek); try assumption; [|symmetry; assumption].
        intros k0 H0. rewrite Ec in H0. inversion H0; subst. assumption.
  - apply dname_eqb_neq. intro Hn. apply (i_orphan c Hi v k dm Hv Ek); try assumption; [|symmetry; assumption].
    intros k0 H0. rewrite Ec in H0. discriminate.
Qed.

(* ------------------------------------------------------------------------------------------------------- *)
(** * the oracle depends on its hooks only through the current state *)
Lemma slot_dim_live : forall c sl k, slot_dim c sl = Some k -> live c k.
Proof. intros c sl k H. unfold slot_dim in H. unfold live. eapply nth_error_In; eauto. Qed.

Section Congr.
Variables hk1 hk2 : hooks.
Variable c : sdcore.
Hypothesis Hc : forall k, live c k -> hk_coord hk1 c k = hk_coord hk2 c k.

Lemma ensure_coord_congr : forall sl k nt, live c k -> ensure_coord hk1 c sl k nt = ensure_coord hk2 c sl k nt.
Proof. intros. unfold ensure_coord. rewrite (Hc k H). reflexivity. Qed.
Lemma resolve_congr : forall ob cr, resolve hk1 c ob cr = resolve hk2 c ob cr.
Proof.
  intros [|i|i d] cr; simpl; try reflexivity.
  destruct (var_slot c i d) as [sl|]; [|reflexivity]. destruct (slot_dim c sl) as [k|] eqn:E; [|reflexivity].
  pose proof (slot_dim_live _ _ _ E) as Hl. rewrite (ensure_coord_congr sl k 0 Hl), (Hc k Hl). reflexivity.
Qed.
Lemma sd_rename_congr : forall k dm name, live c k -> sd_rename hk1 c k dm name = sd_rename hk2 c k dm name.
Proof. intros. unfold sd_rename. rewrite (Hc k H). reflexivity. Qed.
End Congr.

Lemma sd_step_hooks_congr : forall hk1 hk2 s o,
  (forall k, live (sd_cur s) k -> hk_coord hk1 (sd_cur s) k = hk_coord hk2 (sd_cur s) k) ->
  (o = SdEnd -> writable (sd_mode s) && sd_dirty s = true -> hk_persist hk1 (sd_cur s) = hk_persist hk2 (sd_cur s)) ->
  sd_step_with hk1 s o = sd_step_with hk2 s o.
Proof.
  intros hk1 hk2 s o Hc Hp.
  pose proof (resolve_congr hk1 hk2 (sd_cur s) Hc) as Hres.
  destruct o; unfold sd_step_with; try reflexivity.
  - (* SdEnd *) destruct (sd_mode s) as [m|] eqn:Em; [|reflexivity].
    destruct (writable (Some m) && sd_dirty s) eqn:E; [|reflexivity]. rewrite (Hp eq_refl eq_refl). reflexivity.
  - (* SdSetAttr *) rewrite Hres. reflexivity.
  - rewrite Hres. reflexivity.
  - rewrite Hres. reflexivity.
  - rewrite Hres. reflexivity.
  - (* SdSetDimName *)
    destruct (negb (writable (sd_mode s))); [reflexivity|]. destruct (negb (dim_names_ok name)); [reflexivity|].
    destruct (var_slot (sd_cur s) i d) as [sl|]; [|reflexivity]. destruct (slot_dim (sd_cur s) sl) as [k|] eqn:E; [|reflexivity].
    destruct (nth_error (s_dims (sd_cur s)) k); [|reflexivity]. destruct (dim_in_use (sd_cur s) (DUser name) k); [reflexivity|].
    rewrite (sd_rename_congr hk1 hk2 _ Hc k d0 name (slot_dim_live _ _ _ E)). reflexivity.
  - (* SdDimInfo *)
    destruct (var_slot (sd_cur s) i d) as [sl|]; [|reflexivity]. destruct (slot_dim (sd_cur s) sl) as [k|] eqn:E; [|reflexivity].
    rewrite (Hc k (slot_dim_live _ _ _ E)). reflexivity.
  - (* SdSetDimScale *)
    destruct (negb (writable (sd_mode s))); [reflexivity|].
    destruct (var_slot (sd_cur s) i d) as [sl|]; [|reflexivity]. destruct (slot_dim (sd_cur s) sl) as [k|] eqn:E; [|reflexivity].
    rewrite (ensure_coord_congr hk1 hk2 _ Hc sl k nt (slot_dim_live _ _ _ E)), (Hc k (slot_dim_live _ _ _ E)). reflexivity.
  - (* SdGetDimScale *)
    destruct (var_slot (sd_cur s) i d) as [sl|]; [|reflexivity]. destruct (slot_dim (sd_cur s) sl) as [k|] eqn:E; [|reflexivity].
    rewrite (ensure_coord_congr hk1 hk2 _ Hc sl k 0 (slot_dim_live _ _ _ E)). reflexivity.
  - (* SdSetDimStrs *)
    destruct (negb (writable (sd_mode s))); [reflexivity|].
    destruct (var_slot (sd_cur s) i d) as [sl|]; [|reflexivity]. destruct (slot_dim (sd_cur s) sl) as [k|] eqn:E; [|reflexivity].
    rewrite (ensure_coord_congr hk1 hk2 _ Hc sl k 0 (slot_dim_live _ _ _ E)). reflexivity.
  - (* SdGetDimStrs *)
    destruct (var_slot (sd_cur s) i d) as [sl|]; [|reflexivity]. destruct (slot_dim (sd_cur s) sl) as [k|] eqn:E; [|reflexivity].
    rewrite (Hc k (slot_dim_live _ _ _ E)). reflexivity.
Qed.

(* ------------------------------------------------------------------------------------------------------- *)
(** * the invariant is kept by every state transformer of the oracle *)
Definition shape (v : var) := (v_name v, v_kind v, v_dims v, v_cobj v).

Lemma shape_in : forall vs vs' v', map shape vs' = map shape vs -> In v' vs' -> exists v, In v vs /\ shape v = shape v'.
Proof.
  intros vs vs' v' H Hin. apply (in_map shape) in Hin. rewrite H in Hin. apply in_map_iff in Hin.
  destruct Hin as [v [H1 H2]]. exists v. split; assumption.
Qed.
Lemma shape_nth : forall vs vs' i v', map shape vs' = map shape vs -> nth_error vs' i = Some v' ->
  exists v, nth_error vs i = Some v /\ shape v = shape v'.
Proof.
  intros vs vs' i v' H Hn. apply (map_nth_error shape) in Hn. rewrite H, nth_error_map in Hn.
  destruct (nth_error vs i) as [v|]; simpl in Hn; [|discriminate]. exists v. split; [reflexivity | congruence].
Qed.

Lemma shape_eq : forall v v', shape v = shape v' ->
  v_name v = v_name v' /\ v_kind v = v_kind v' /\ v_dims v = v_dims v' /\ v_cobj v = v_cobj v'.
Proof. intros v v' H. unfold shape in H. inversion H. tauto. Qed.

Lemma inv_shape : forall c c', map shape (s_vars c') = map shape (s_vars c) -> s_dims c' = s_dims c ->
  s_slots c' = s_slots c -> inv c -> inv c'.
Proof.
  intros c c' Hv Hd Hs Hi.
  assert (forall k, live c' k <-> live c k) as Hl by (intro; unfold live; rewrite Hs; tauto).
  assert (forall v', orphan c' v' -> forall v, shape v = shape v' -> orphan c v) as Ho.
  { intros v' H v E k0 Hk Hlive. destruct (shape_eq _ _ E) as [_ [_ [_ Ec]]]. apply (H k0); [congruence | apply Hl; assumption]. }
  constructor; rewrite ?Hd, ?Hs.
  - intros k H. apply (i_slots c Hi). apply Hl. assumption.
  - intros v' sl Hin Hsl. destruct (shape_in _ _ _ Hv Hin) as [v [H1 H2]]. destruct (shape_eq _ _ H2) as [En [Ek [Ed Ec]]].
    apply (i_vdims c Hi v sl H1). rewrite Ed. assumption.
  - intros k1 k2 d1 d2 H1 H2. apply (i_names c Hi); apply Hl; assumption.
  - intros v' Hin Hk. destruct (shape_in _ _ _ Hv Hin) as [v [H1 H2]]. destruct (shape_eq _ _ H2) as [En [Ek [Ed Ec]]].
    destruct (i_sds c Hi v H1) as [A [b B]]; [congruence|]. split; [congruence | exists b; congruence].
  - intros v' Hin Hk. destruct (shape_in _ _ _ Hv Hin) as [v [H1 H2]]. destruct (shape_eq _ _ H2) as [En [Ek [Ed Ec]]].
    rewrite <- Ed. apply (i_rank c Hi v H1). congruence.
  - intros v' k d Hin Hk Hc Hlive Hn. destruct (shape_in _ _ _ Hv Hin) as [v [H1 H2]]. destruct (shape_eq _ _ H2) as [En [Ek [Ed Ec]]].
    rewrite <- En. apply (i_cname c Hi v k d H1); try congruence. apply Hl. assumption.
  - intros i j vi' vj' k Hi' Hj' Hki Hkj Hci Hcj Hlive.
    destruct (shape_nth _ _ _ _ Hv Hi') as [vi [A1 A2]]. destruct (shape_nth _ _ _ _ Hv Hj') as [vj [B1 B2]].
    destruct (shape_eq _ _ A2) as [_ [Ak [_ Ac]]]. destruct (shape_eq _ _ B2) as [_ [Bk [_ Bc]]].
    apply (i_cuniq c Hi i j vi vj k A1 B1); try congruence. apply Hl. assumption.
  - intros v' k d Hin Hk Horph Hlive Hn. destruct (shape_in _ _ _ Hv Hin) as [v [H1 H2]].
    pose proof (Ho v' Horph v H2) as Ho'. destruct (shape_eq _ _ H2) as [En [Ek [Ed Ec]]]. rewrite <- En.
    apply (i_orphan c Hi v k d H1); try congruence; try assumption. apply Hl. assumption.
  - intros v' k Hin Hc. destruct (shape_in _ _ _ Hv Hin) as [v [H1 H2]]. destruct (shape_eq _ _ H2) as [En [Ek [Ed Ec]]].
    apply (i_cobj c Hi v k H1). congruence.
  - intros k d n Hlive. apply (i_fake c Hi). apply Hl. assumption.
  - intros v' n Hin Hn. destruct (shape_in _ _ _ Hv Hin) as [v [H1 H2]]. destruct (shape_eq _ _ H2) as [En [Ek [Ed Ec]]].
    apply (i_vfake c Hi v n H1). congruence.
Qed.

Lemma inv_set_gattrs : forall c l, inv c -> inv (set_gattrs c l).
Proof. intros. apply (inv_shape c); try reflexivity. assumption. Qed.
Lemma inv_upd_var : forall c j v nt l sc, inv c -> nth_error (s_vars c) j = Some v ->
  inv (set_vars c (zupd (s_vars c) j (upd_var v (v_name v) nt l sc))).
Proof.
  intros c j v nt l sc Hi Hj. apply (inv_shape c); try reflexivity; [|assumption]. simpl.
  rewrite zupd_map. assert (shape (upd_var v (v_name v) nt l sc) = shape v) as E by reflexivity. rewrite E.
  apply zupd_same_id. apply map_nth_error. assumption.
Qed.
Lemma inv_set_var_attrs : forall c j l, inv c -> inv (set_var_attrs c j l).
Proof. intros c j l Hi. unfold set_var_attrs. destruct (nth_error (s_vars c) j) eqn:E; [apply inv_upd_var; assumption | assumption]. Qed.

Lemma in_snoc : forall (A : Type) (l : list A) x y, In y (l ++ [x]) -> In y l \/ y = x.
Proof. intros A l x y H. apply in_app_or in H. destruct H as [H | [H | []]]; [left | right]; auto. Qed.
Lemma nth_snoc : forall (A : Type) (l : list A) x i y, nth_error (l ++ [x]) i = Some y ->
  ((i < length l)%nat /\ nth_error l i = Some y) \/ (i = length l /\ y = x).
Proof.
  intros A l x i y H. destruct (lt_dec i (length l)) as [Hlt | Hge].
  - left. rewrite nth_error_app1 in H by assumption. tauto.
  - right. rewrite nth_error_app2 in H by lia. destruct (i - length l)%nat eqn:E; simpl in H.
    + inversion H. split; [lia | reflexivity].
    + destruct n; discriminate.
Qed.

(** a new coordinate variable for a dimension that has none *)
Lemma inv_new_coord : forall c sl k nt ref, inv c -> nth_error (s_slots c) sl = Some k -> coord_of c k = None ->
  inv (set_vars c (s_vars c ++ [mkVar (match nth_error (s_dims c) k with Some dm => d_name dm | None => DFake 0 end)
                                      KCoord nt [sl] [] None (Some k) ref])).
Proof.
  intros c sl k nt ref Hi Hsl Hnone.
  assert (live c k) as Hlk by (eapply nth_error_In; eauto).
  destruct (live_dim c k Hi Hlk) as [dm Hdm]. rewrite Hdm.
  set (nv := mkVar (d_name dm) KCoord nt [sl] [] None (Some k) ref).
  assert (forall v, orphan (set_vars c (s_vars c ++ [nv])) v <-> orphan c v) as Ho by (intro; unfold orphan, live; simpl; tauto).
  constructor; simpl; unfold live; simpl.
  - apply (i_slots c Hi).
  - intros v s0 Hin Hs0. destruct (in_snoc _ _ _ _ Hin) as [H | H].
    + apply (i_vdims c Hi v s0 H Hs0).
    + subst v. simpl in Hs0. destruct Hs0 as [Hs0 | []]. subst s0. apply nth_error_Some. congruence.
  - apply (i_names c Hi).
  - intros v Hin Hk. destruct (in_snoc _ _ _ _ Hin) as [H | H]; [apply (i_sds c Hi v H Hk) | subst v; discriminate].
  - intros v Hin Hk. destruct (in_snoc _ _ _ _ Hin) as [H | H]; [apply (i_rank c Hi v H Hk) | subst v; reflexivity].
  - intros v k0 d Hin Hk Hc Hl Hd. destruct (in_snoc _ _ _ _ Hin) as [H | H].
    + apply (i_cname c Hi v k0 d H Hk Hc Hl Hd).
    + subst v. simpl in Hc. inversion Hc; subst k0. simpl. congruence.
  - intros i j vi vj k0 Hvi Hvj Hki Hkj Hci Hcj Hl.
    destruct (nth_snoc _ _ _ _ _ Hvi) as [[A1 A2] | [A1 A2]]; destruct (nth_snoc _ _ _ _ _ Hvj) as [[B1 B2] | [B1 B2]].
    + apply (i_cuniq c Hi i j vi vj k0 A2 B2 Hki Hkj Hci Hcj Hl).
    + subst vj. simpl in Hcj. inversion Hcj; subst k0. exfalso.
      pose proof (first_idx_none _ _ _ Hnone vi (nth_error_In _ _ A2)) as Hf. unfold is_coord_of in Hf.
      rewrite Hki, Hci, Nat.eqb_refl in Hf. discriminate.
    + subst vi. simpl in Hci. inversion Hci; subst k0. exfalso.
      pose proof (first_idx_none _ _ _ Hnone vj (nth_error_In _ _ B2)) as Hf. unfold is_coord_of in Hf.
      rewrite Hkj, Hcj, Nat.eqb_refl in Hf. discriminate.
    + lia.
  - intros v k0 d Hin Hk Horph Hl Hd. destruct (in_snoc _ _ _ _ Hin) as [H | H].
    + apply (i_orphan c Hi v k0 d H Hk); try assumption; try (apply Ho; assumption).
    + subst v. exfalso. apply (Horph k eq_refl). assumption.
  - intros v k0 Hin Hc. destruct (in_snoc _ _ _ _ Hin) as [H | H]; [apply (i_cobj c Hi v k0 H Hc)|].
    subst v. simpl in Hc. inversion Hc; subst k0. apply nth_error_Some. congruence.
  - apply (i_fake c Hi).
  - intros v n Hin Hn. destruct (in_snoc _ _ _ _ Hin) as [H | H]; [apply (i_vfake c Hi v n H Hn)|].
    subst v. simpl in Hn. apply (i_fake c Hi k dm n Hlk Hdm Hn).
Qed.

Lemma inv_ensure_coord : forall c sl k nt, inv c -> nth_error (s_slots c) sl = Some k ->
  inv (fst (ensure_coord spec_hooks c sl k nt)) /\
  (exists v, nth_error (s_vars (fst (ensure_coord spec_hooks c sl k nt))) (snd (ensure_coord spec_hooks c sl k nt)) = Some v) /\
  s_slots (fst (ensure_coord spec_hooks c sl k nt)) = s_slots c /\ s_dims (fst (ensure_coord spec_hooks c sl k nt)) = s_dims c.
Proof.
  intros c sl k nt Hi Hsl. unfold ensure_coord. simpl hk_coord. destruct (coord_of c k) as [j|] eqn:E; simpl.
  - split; [assumption|]. split; [|split; reflexivity].
    unfold coord_of in E. destruct (first_idx_sound _ _ _ _ E) as [x [H1 _]]. exists x. assumption.
  - split; [apply inv_new_coord; assumption|]. split; [|split; reflexivity].
    eexists. rewrite nth_error_app2 by lia. rewrite Nat.sub_diag. reflexivity.
Qed.

(** SDsetdimname, name in use: the slot is made to denote the other dimension *)
Lemma inv_share : forall c sl k k2, inv c -> nth_error (s_slots c) sl = Some k -> live c k2 ->
  inv (set_slots c (zupd (s_slots c) sl k2)).
Proof.
  intros c sl k k2 Hi Hsl Hk2.
  assert (forall x, live (set_slots c (zupd (s_slots c) sl k2)) x -> live c x) as Hsub.
  { intros x H. unfold live in *. simpl in H. destruct (zupd_In _ _ _ _ _ H); [subst; assumption | assumption]. }
  constructor; simpl; rewrite ?zupd_length.
  - intros x H. apply (i_slots c Hi). auto.
  - apply (i_vdims c Hi).
  - intros k1 k3 d1 d2 H1 H2. apply (i_names c Hi); auto.
  - apply (i_sds c Hi).
  - apply (i_rank c Hi).
  - intros v k0 d Hin Hk Hc Hl. apply (i_cname c Hi v k0 d Hin Hk Hc). auto.
  - intros i j vi vj k0 A B Hki Hkj Hci Hcj Hl. apply (i_cuniq c Hi i j vi vj k0 A B Hki Hkj Hci Hcj). auto.
  - intros v k0 d Hin Hk Horph Hl Hd.
    destruct (v_cobj v) as [kc|] eqn:Ec.
    + destruct (classic_live c kc) as [Hlc | Hlc].
      * destruct (live_dim c kc Hi Hlc) as [dc Hdc]. rewrite (i_cname c Hi v kc dc Hin Hk Ec Hlc Hdc).
        intro Hn. assert (kc = k0) as E by (apply (i_names c Hi kc k0 dc d); auto).
        subst kc. apply (Horph k0 Ec). assumption.
      * apply (i_orphan c Hi v k0 d Hin Hk); auto. intros k1 H1. rewrite Ec in H1. inversion H1; subst. assumption.
    + apply (i_orphan c Hi v k0 d Hin Hk); auto. intros k1 H1. rewrite Ec in H1. discriminate.
  - apply (i_cobj c Hi).
  - intros k0 d n Hl. apply (i_fake c Hi). auto.
  - apply (i_vfake c Hi).
Qed.

Lemma dim_in_use_none : forall c n k, dim_in_use c n k = None ->
  forall k2 d2, live c k2 -> k2 <> k -> nth_error (s_dims c) k2 = Some d2 -> d_name d2 <> n.
Proof.
  intros c n k H k2 d2 Hl Hne Hd Hn. unfold dim_in_use in H.
  pose proof (find_none _ _ H k2 Hl) as Hf. simpl in Hf. rewrite Hd in Hf.
  apply Nat.eqb_neq in Hne. rewrite Hne in Hf. simpl in Hf. rewrite Hn, dname_eqb_refl in Hf. discriminate.
Qed.
Lemma dim_in_use_some : forall c n k k2, dim_in_use c n k = Some k2 -> live c k2 /\ k2 <> k.
Proof.
  intros c n k k2 H. unfold dim_in_use in H. apply find_some in H. destruct H as [H1 H2]. split; [exact H1|].
  apply andb_true_iff in H2. destruct H2 as [H2 _]. apply negb_true_iff in H2. apply Nat.eqb_neq. assumption.
Qed.

(** SDsetdimname, name not in use: the dimension and its coordinate variable are renamed *)
Definition no_orphan_named (c : sdcore) (n : dname) : Prop :=
  forall v, In v (s_vars c) -> v_kind v = KCoord -> orphan c v -> v_name v <> n.

Lemma inv_rename : forall c k dm name, inv c -> live c k -> nth_error (s_dims c) k = Some dm ->
  dim_in_use c (DUser name) k = None -> no_orphan_named c (DUser name) ->
  inv (sd_rename spec_hooks c k dm name).
Proof.
  intros c k dm name Hi Hlk Hdm Huse Hno. unfold sd_rename. simpl hk_coord.
  set (ds' := zupd (s_dims c) k (mkDim (DUser name) (d_size dm))).
  assert (forall k0 d, nth_error ds' k0 = Some d -> (k0 = k /\ d = mkDim (DUser name) (d_size dm)) \/ (k0 <> k /\ nth_error (s_dims c) k0 = Some d)) as Hds.
  { intros k0 d H. unfold ds' in H. destruct (Nat.eq_dec k0 k) as [E | E].
    - subst k0. rewrite (zupd_nth_same _ _ _ _ _ Hdm) in H. inversion H. left; split; reflexivity.
    - rewrite zupd_nth_other in H by congruence. right; split; assumption. }
  (* the variables afterwards: index by index the old ones, the coordinate variable of k renamed *)
  set (vs' := match coord_of c k with
              | Some j => match nth_error (s_vars c) j with
                          | Some v => zupd (s_vars c) j (upd_var v (DUser name) (v_nt v) (v_attrs v) (v_scale v))
                          | None => s_vars c
                          end
              | None => s_vars c
              end).
  assert (forall i v', nth_error vs' i = Some v' ->
            exists v, nth_error (s_vars c) i = Some v /\ v_kind v' = v_kind v /\ v_dims v' = v_dims v /\ v_cobj v' = v_cobj v /\
                      ((is_coord_of k v = true /\ v_name v' = DUser name) \/ (is_coord_of k v = false /\ v_name v' = v_name v))) as Hvs.
  { intros i v' H. unfold vs' in H. destruct (coord_of c k) as [j|] eqn:Ec.
    - unfold coord_of in Ec. destruct (first_idx_sound _ _ _ _ Ec) as [vj [Hj [Hcj _]]]. rewrite Hj in H.
      destruct (Nat.eq_dec i j) as [E | E].
      + subst i. rewrite (zupd_nth_same _ _ _ _ _ Hj) in H. inversion H; subst v'. exists vj. simpl. repeat split; try assumption. left; split; [assumption | reflexivity].
      + rewrite zupd_nth_other in H by congruence. exists v'. repeat split; try assumption.
        destruct (is_coord_of k v') eqn:Ev; [|right; split; reflexivity]. exfalso.
        unfold is_coord_of in Ev, Hcj. destruct (v_kind v') eqn:K1; [discriminate|]. destruct (v_cobj v') as [k1|] eqn:C1; [|discriminate].
        destruct (v_kind vj) eqn:K2; [discriminate|]. destruct (v_cobj vj) as [k2|] eqn:C2; [|discriminate].
        apply Nat.eqb_eq in Ev. apply Nat.eqb_eq in Hcj. subst k1 k2.
        apply E. apply (i_cuniq c Hi i j v' vj k H Hj K1 K2 C1 C2 Hlk).
    - exists v'. repeat split; try assumption.
      unfold coord_of in Ec. rewrite (first_idx_none _ _ _ Ec v' (nth_error_In _ _ H)). right; split; reflexivity. }
  assert (forall v', In v' vs' -> exists i, nth_error vs' i = Some v') as Hin' by (intros; apply In_nth_error; assumption).
  assert (forall v' v, v_cobj v' = v_cobj v -> orphan (set_dims (set_vars c vs') ds') v' -> orphan c v) as Ho.
  { intros v' v E H k0 Hk0. apply H. congruence. }
  assert (forall v, is_coord_of k v = true -> v_kind v = KCoord /\ v_cobj v = Some k) as Hico.
  { intros v H. unfold is_coord_of in H. destruct (v_kind v); [discriminate|]. destruct (v_cobj v); [|discriminate].
    apply Nat.eqb_eq in H. subst. split; reflexivity. }
  assert (forall v, v_kind v = KCoord -> v_cobj v = Some k -> is_coord_of k v = true) as Hico2.
  { intros v H1 H2. unfold is_coord_of. rewrite H1, H2, Nat.eqb_refl. reflexivity. }
  constructor; simpl; unfold live; simpl; fold ds'; fold vs'.
  - intros x H. unfold ds'. rewrite zupd_length. apply (i_slots c Hi x H).
  - intros v' sl Hin Hsl. destruct (Hin' v' Hin) as [i Hn]. destruct (Hvs i v' Hn) as [v [A [_ [Dd _]]]].
    apply (i_vdims c Hi v sl (nth_error_In _ _ A)). congruence.
  - intros k1 k2 d1 d2 L1 L2 D1 D2 Hn.
    destruct (Hds k1 d1 D1) as [[E1 F1] | [E1 F1]]; destruct (Hds k2 d2 D2) as [[E2 F2] | [E2 F2]].
    + congruence.
    + subst k1 d1. exfalso. apply (dim_in_use_none c _ k Huse k2 d2 L2 E2 F2). simpl in Hn. congruence.
    + subst k2 d2. exfalso. apply (dim_in_use_none c _ k Huse k1 d1 L1 E1 F1). simpl in Hn. congruence.
    + apply (i_names c Hi k1 k2 d1 d2 L1 L2 F1 F2 Hn).
  - intros v' Hin Hk. destruct (Hin' v' Hin) as [i Hn]. destruct (Hvs i v' Hn) as [v [A [Kk [_ [Cc Nn]]]]].
    destruct (i_sds c Hi v (nth_error_In _ _ A)) as [S1 [b S2]]; [congruence|].
    split; [congruence|]. destruct Nn as [[N1 N2] | [N1 N2]]; [eexists; eassumption | exists b; congruence].
  - intros v' Hin Hk. destruct (Hin' v' Hin) as [i Hn]. destruct (Hvs i v' Hn) as [v [A [Kk [Dd _]]]].
    rewrite Dd. apply (i_rank c Hi v (nth_error_In _ _ A)). congruence.
  - intros v' k0 d Hin Hk Hc Hl Hd. destruct (Hin' v' Hin) as [i Hn]. destruct (Hvs i v' Hn) as [v [A [Kk [_ [Cc Nn]]]]].
    destruct Nn as [[N1 N2] | [N1 N2]].
    + destruct (Hico v N1) as [_ C]. assert (k0 = k) by congruence. subst k0.
      destruct (Hds k d Hd) as [[_ F] | [F _]]; [subst d; simpl; assumption | congruence].
    + destruct (Hds k0 d Hd) as [[E F] | [E F]].
      * subst k0. rewrite Hico2 in N1; [discriminate | congruence | congruence].
      * rewrite N2. apply (i_cname c Hi v k0 d (nth_error_In _ _ A)); try congruence; assumption.
  - intros i j vi' vj' k0 A B Hki Hkj Hci Hcj Hl.
    destruct (Hvs i vi' A) as [vi [A1 [A2 [_ [A3 _]]]]]. destruct (Hvs j vj' B) as [vj [B1 [B2 [_ [B3 _]]]]].
    apply (i_cuniq c Hi i j vi vj k0 A1 B1); try congruence; assumption.
  - intros v' k0 d Hin Hk Horph Hl Hd. destruct (Hin' v' Hin) as [i Hn]. destruct (Hvs i v' Hn) as [v [A [Kk [_ [Cc Nn]]]]].
    pose proof (Ho v' v Cc Horph) as Horph0.
    destruct Nn as [[N1 N2] | [N1 N2]].
    + exfalso. destruct (Hico v N1) as [_ C]. apply (Horph0 k C). assumption.
    + rewrite N2. destruct (Hds k0 d Hd) as [[E F] | [E F]].
      * subst d. simpl. apply (Hno v (nth_error_In _ _ A)); [congruence | assumption].
      * apply (i_orphan c Hi v k0 d (nth_error_In _ _ A)); try congruence; assumption.
  - intros v' k0 Hin Hc. destruct (Hin' v' Hin) as [i Hn]. destruct (Hvs i v' Hn) as [v [A [_ [_ [Cc _]]]]].
    unfold ds'. rewrite zupd_length. apply (i_cobj c Hi v k0 (nth_error_In _ _ A)). congruence.
  - intros k0 d n Hl Hd Hn. destruct (Hds k0 d Hd) as [[E F] | [E F]].
    + subst d. simpl in Hn. discriminate.
    + apply (i_fake c Hi k0 d n Hl F Hn).
  - intros v' n Hin Hn. destruct (Hin' v' Hin) as [i Hi']. destruct (Hvs i v' Hi') as [v [A [_ [_ [_ Nn]]]]].
    destruct Nn as [[N1 N2] | [N1 N2]]; [congruence|]. apply (i_vfake c Hi v n (nth_error_In _ _ A)). congruence.
Qed.

(** SDcreate *)
Lemma combine_seq_fst : forall (A : Type) n a (l : list A) j p, nth_error (combine (seq a n) l) j = Some p -> fst p = (a + j)%nat.
Proof.
  induction n as [|n IH]; intros a l j p H; simpl in H; [destruct j; discriminate|].
  destruct l as [|x l]; [destruct j; discriminate|]. destruct j; simpl in H.
  - inversion H. simpl. lia.
  - rewrite (IH (S a) l j p H). lia.
Qed.

Lemma inv_create : forall c name nt dims, inv c -> inv (sd_create c name nt dims).
Proof.
  intros c name nt dims Hi. unfold sd_create.
  set (n := length dims). set (ns := length (s_slots c)). set (nd := length (s_dims c)).
  set (newd := map (fun p => mkDim (DFake (ns + fst p)) (snd p)) (combine (seq 0 n) dims)).
  assert (length newd = n) as Hlen by (unfold newd; rewrite map_length, combine_length, seq_length; apply Nat.min_id).
  assert (forall x, In x (s_slots c ++ map (fun k => (nd + k)%nat) (seq 0 n)) -> live c x \/ exists j, (j < n)%nat /\ x = (nd + j)%nat) as Hlive.
  { intros x H. apply in_app_or in H. destruct H as [H | H]; [left; assumption|]. right.
    apply in_map_iff in H. destruct H as [j [H1 H2]]. apply in_seq in H2. exists j. split; [lia | congruence]. }
  assert (forall x d, (x < nd)%nat -> nth_error (s_dims c ++ newd) x = Some d -> nth_error (s_dims c) x = Some d) as Hold.
  { intros x d Hx H. rewrite nth_error_app1 in H by assumption. assumption. }
  assert (forall j d, nth_error (s_dims c ++ newd) (nd + j) = Some d -> d_name d = DFake (ns + j)) as Hnew.
  { intros j d H. rewrite nth_error_app2 in H by (unfold nd; lia). replace (nd + j - length (s_dims c))%nat with j in H by (unfold nd; lia).
    unfold newd in H. rewrite nth_error_map in H. destruct (nth_error (combine (seq 0 n) dims) j) as [p|] eqn:E; simpl in H; [|discriminate].
    inversion H. simpl. rewrite (combine_seq_fst _ _ _ _ _ _ E). reflexivity. }
  set (nv := mkVar (DUser name) KSds nt (map (fun k => (ns + k)%nat) (seq 0 n)) [] None None (zlen (s_vars c))).
  assert (forall v, In v (s_vars c) -> orphan (mkSd (s_gattrs c) (s_vars c ++ [nv]) (s_dims c ++ newd) (s_slots c ++ map (fun k => (nd + k)%nat) (seq 0 n))) v -> orphan c v) as Ho.
  { intros v _ H k0 Hk0 Hl. apply (H k0 Hk0). unfold live. simpl. apply in_or_app. left. assumption. }
  constructor; simpl; unfold live; simpl; rewrite ?app_length, ?map_length, ?seq_length, ?Hlen; fold n ns nd.
  - intros x H. destruct (Hlive x H) as [H1 | [j [H1 H2]]]; [pose proof (i_slots c Hi x H1); unfold nd; lia | lia].
  - intros v sl Hin Hsl. destruct (in_snoc _ _ _ _ Hin) as [H | H].
    + pose proof (i_vdims c Hi v sl H Hsl). fold ns in H0. lia.
    + subst v. simpl in Hsl. apply in_map_iff in Hsl. destruct Hsl as [j [H1 H2]]. apply in_seq in H2. lia.
  - intros k1 k2 d1 d2 L1 L2 D1 D2 Hn.
    destruct (Hlive k1 L1) as [A | [j1 [A1 A2]]]; destruct (Hlive k2 L2) as [B | [j2 [B1 B2]]].
    + apply (i_names c Hi k1 k2 d1 d2 A B); [apply Hold; [apply (i_slots c Hi); assumption | assumption] | apply Hold; [apply (i_slots c Hi); assumption | assumption] | assumption].
    + exfalso. subst k2. pose proof (Hnew j2 d2 D2) as N2.
      pose proof (Hold k1 d1 (i_slots c Hi k1 A) D1) as O1. rewrite N2 in Hn.
      pose proof (i_fake c Hi k1 d1 (ns + j2) A O1 Hn). fold ns in H. lia.
    + exfalso. subst k1. pose proof (Hnew j1 d1 D1) as N1.
      pose proof (Hold k2 d2 (i_slots c Hi k2 B) D2) as O2. rewrite N1 in Hn. symmetry in Hn.
      pose proof (i_fake c Hi k2 d2 (ns + j1) B O2 Hn). fold ns in H. lia.
    + subst k1 k2. rewrite (Hnew j1 d1 D1), (Hnew j2 d2 D2) in Hn. inversion Hn. lia.
  - intros v Hin Hk. destruct (in_snoc _ _ _ _ Hin) as [H | H]; [apply (i_sds c Hi v H Hk)|].
    subst v. split; [reflexivity | exists name; reflexivity].
  - intros v Hin Hk. destruct (in_snoc _ _ _ _ Hin) as [H | H]; [apply (i_rank c Hi v H Hk) | subst v; discriminate].
  - intros v k0 d Hin Hk Hc Hl Hd. destruct (in_snoc _ _ _ _ Hin) as [H | H]; [|subst v; discriminate].
    pose proof (i_cobj c Hi v k0 H Hc) as Hlt. fold nd in Hlt.
    destruct (Hlive k0 Hl) as [A | [j [A1 A2]]]; [|lia].
    apply (i_cname c Hi v k0 d H Hk Hc A). apply Hold; assumption.
  - intros i j vi vj k0 A B Hki Hkj Hci Hcj Hl.
    destruct (nth_snoc _ _ _ _ _ A) as [[A1 A2] | [A1 A2]]; [|subst vi; discriminate].
    destruct (nth_snoc _ _ _ _ _ B) as [[B1 B2] | [B1 B2]]; [|subst vj; discriminate].
    pose proof (i_cobj c Hi vi k0 (nth_error_In _ _ A2) Hci) as Hlt. fold nd in Hlt.
    destruct (Hlive k0 Hl) as [L | [j0 [L1 L2]]]; [|lia].
    apply (i_cuniq c Hi i j vi vj k0 A2 B2 Hki Hkj Hci Hcj L).
  - intros v k0 d Hin Hk Horph Hl Hd. destruct (in_snoc _ _ _ _ Hin) as [H | H]; [|subst v; discriminate].
    pose proof (Ho v H Horph) as Horph0.
    destruct (Hlive k0 Hl) as [A | [j [A1 A2]]].
    + apply (i_orphan c Hi v k0 d H Hk Horph0 A). apply Hold; [apply (i_slots c Hi); assumption | assumption].
    + subst k0. rewrite (Hnew j d Hd). intro Hn. pose proof (i_vfake c Hi v (ns + j) H Hn). fold ns in H0. lia.
  - intros v k0 Hin Hc. destruct (in_snoc _ _ _ _ Hin) as [H | H]; [|subst v; discriminate].
    pose proof (i_cobj c Hi v k0 H Hc). fold nd in H0. lia.
  - intros k0 d m Hl Hd Hn. destruct (Hlive k0 Hl) as [A | [j [A1 A2]]].
    + pose proof (i_fake c Hi k0 d m A (Hold k0 d (i_slots c Hi k0 A) Hd) Hn). fold ns in H. lia.
    + subst k0. rewrite (Hnew j d Hd) in Hn. inversion Hn. lia.
  - intros v m Hin Hn. destruct (in_snoc _ _ _ _ Hin) as [H | H]; [|subst v; discriminate].
    pose proof (i_vfake c Hi v m H Hn). fold ns in H0. lia.
Qed.

(* ------------------------------------------------------------------------------------------------------- *)
(** * the dimensions in use, and positions in that list *)
Lemma keep_first_in : forall l seen x, In x (keep_first l seen) <-> In x l /\ ~ In x seen.
Proof.
  induction l as [|y l IH]; intros seen x; simpl; [tauto|].
  destruct (existsb (Nat.eqb y) seen) eqn:E.
  - rewrite IH. apply existsb_exists in E. destruct E as [z [E1 E2]]. apply Nat.eqb_eq in E2. subst z.
    split; [tauto|]. intros [[H | H] H2]; [subst; contradiction | tauto].
  - simpl. rewrite IH. simpl.
    assert (~ In y seen) as Hy.
    { intro H. assert (existsb (Nat.eqb y) seen = true) by (apply existsb_exists; exists y; split; [assumption | apply Nat.eqb_refl]). congruence. }
    split.
    + intros [H | [H1 H2]]; [subst; tauto | tauto].
    + intros [[H | H] H2]; [left; assumption|]. destruct (Nat.eq_dec y x); [left; assumption | right; tauto].
Qed.
Lemma keep_first_nodup : forall l seen, NoDup (keep_first l seen).
Proof.
  induction l as [|y l IH]; intro seen; simpl; [constructor|].
  destruct (existsb (Nat.eqb y) seen); [apply IH|]. constructor; [|apply IH].
  rewrite keep_first_in. simpl. tauto.
Qed.
Lemma keep_first_id : forall l seen, NoDup l -> (forall x, In x l -> ~ In x seen) -> keep_first l seen = l.
Proof.
  induction l as [|y l IH]; intros seen Hnd Hd; simpl; [reflexivity|]. inversion Hnd; subst.
  destruct (existsb (Nat.eqb y) seen) eqn:E.
  - apply existsb_exists in E. destruct E as [z [E1 E2]]. apply Nat.eqb_eq in E2. subst z. exfalso. apply (Hd y); simpl; tauto.
  - f_equal. apply IH; [assumption|]. intros x Hx [H | H]; [subst; contradiction | apply (Hd x); simpl; tauto].
Qed.
Lemma live_list_in : forall c x, In x (live_list c) <-> live c x.
Proof. intros. unfold live_list, live. rewrite keep_first_in. simpl. tauto. Qed.
Lemma live_list_nodup : forall c, NoDup (live_list c).
Proof. intro. apply keep_first_nodup. Qed.

Lemma index_of_some : forall k l j, index_of k l = Some j -> nth_error l j = Some k /\ (j < length l)%nat.
Proof.
  intros k l j H. unfold index_of in H. destruct (first_idx_sound _ _ _ _ H) as [x [H1 [H2 _]]].
  apply Nat.eqb_eq in H2. subst x. split; [assumption | apply nth_error_Some; congruence].
Qed.
Lemma index_of_nodup : forall k l j, NoDup l -> nth_error l j = Some k -> index_of k l = Some j.
Proof.
  intros k l j Hnd H. unfold index_of. apply (first_idx_unique _ _ l j k H (Nat.eqb_refl k)).
  intros i y Hi Hy. apply Nat.eqb_eq in Hy. subst y.
  apply (proj1 (NoDup_nth_error l) Hnd i j); [apply nth_error_Some; congruence | congruence].
Qed.
Lemma index_of_in : forall k l, In k l -> exists j, index_of k l = Some j.
Proof.
  intros k l H. unfold index_of. destruct (first_idx (Nat.eqb k) l) eqn:E; [eexists; reflexivity|].
  pose proof (first_idx_none _ _ _ E k H) as Hf. rewrite Nat.eqb_refl in Hf. discriminate.
Qed.
Lemma index_of_notin : forall k l, ~ In k l -> index_of k l = None.
Proof.
  intros k l H. destruct (index_of k l) eqn:E; [|reflexivity]. destruct (index_of_some _ _ _ E) as [H1 _].
  exfalso. apply H. eapply nth_error_In; eauto.
Qed.

Lemma first_idx_map : forall (A B : Type) (f : B -> bool) (g : A -> B) l, first_idx f (map g l) = first_idx (fun x => f (g x)) l.
Proof. induction l as [|x l IH]; simpl; [reflexivity|]. destruct (f (g x)); [reflexivity | rewrite IH; reflexivity]. Qed.

(** what the hypotheses of a faithful reload are (the recorded findings, and nothing else) *)
Definition fakes_stable (c : sdcore) : Prop :=
  forall j k d n, nth_error (live_list c) j = Some k -> nth_error (s_dims c) k = Some d -> d_name d = DFake n -> n = j.
Definition vfakes_ok (c : sdcore) : Prop :=
  forall v n, In v (s_vars c) -> v_name v = DFake n -> (n < length (live_list c))%nat.
Record persist_ok (c : sdcore) : Prop := mkPOk {
  p_gattrs : attr_names_ok (s_gattrs c);                                  (* finding 1: names the Vdata name can hold *)
  p_vattrs : forall v, In v (s_vars c) -> attr_names_ok (v_attrs v);
  p_fakes : fakes_stable c;                                               (* finding 3: no unnamed dimension is renumbered *)
  p_vfakes : vfakes_ok c;                                                 (* ... and no variable bears a number beyond the table *)
  p_nts : forall v, In v (s_vars c) -> nt_plain (v_nt v) = true           (* HDF number types or their little-endian variants *)
}.

Definition obj_of (c : sdcore) (k : nat) : dimo := nth k (s_dims c) dim0.
Lemma obj_of_live : forall c k, inv c -> live c k -> nth_error (s_dims c) k = Some (obj_of c k).
Proof. intros c k Hi Hl. unfold obj_of. apply nth_error_nth'. apply (i_slots c Hi k Hl). Qed.

Lemma norm_dims_nth : forall c j d, inv c -> nth_error (map (obj_of c) (live_list c)) j = Some d ->
  exists k, nth_error (live_list c) j = Some k /\ live c k /\ nth_error (s_dims c) k = Some d.
Proof.
  intros c j d Hi H. rewrite nth_error_map in H. destruct (nth_error (live_list c) j) as [k|] eqn:E; simpl in H; [|discriminate].
  exists k. assert (live c k) as Hl by (apply live_list_in; eapply nth_error_In; eauto).
  split; [reflexivity|]. split; [assumption|]. inversion H. apply obj_of_live; assumption.
Qed.

Lemma inv_normalize : forall c, inv c -> persist_ok c -> inv (normalize c).
Proof.
  intros c Hi Hp. unfold normalize. fold (obj_of c).
  set (L := live_list c).
  set (res := fun sl => match slot_dim c sl with Some k => match index_of k L with Some j => j | None => O end | None => O end).
  set (f := fun v => mkVar (v_name v) (v_kind v) (v_nt v) (map res (v_dims v)) (v_attrs v) (v_scale v)
                           (match v_cobj v with Some k => index_of k L | None => None end) (v_ref v)).
  assert (forall j, In j (seq 0 (length L)) <-> (j < length L)%nat) as Hseq by (intro; rewrite in_seq; lia).
  assert (forall v', In v' (map f (s_vars c)) -> exists v, In v (s_vars c) /\ v' = f v) as Hin'.
  { intros v' H. apply in_map_iff in H. destruct H as [v [H1 H2]]. exists v. split; [assumption | congruence]. }
  assert (forall v, orphan (mkSd (s_gattrs c) (map f (s_vars c)) (map (obj_of c) L) (seq 0 (length L))) (f v) -> orphan c v) as Ho.
  { intros v H k0 Hk0 Hl. apply live_list_in in Hl. destruct (index_of_in _ _ Hl) as [j Hj].
    apply (H j); [simpl; rewrite Hk0; assumption|]. unfold live. simpl. apply Hseq. apply (index_of_some _ _ _ Hj). }
  constructor; simpl; unfold live; simpl; rewrite ?map_length, ?seq_length.
  - intros j H. apply Hseq. assumption.
  - intros v' sl' Hin Hsl. destruct (Hin' v' Hin) as [v [H1 H2]]. subst v'. simpl in Hsl.
    apply in_map_iff in Hsl. destruct Hsl as [sl [A B]]. subst sl'. unfold res.
    pose proof (i_vdims c Hi v sl H1 B) as Hlt. unfold slot_dim.
    destruct (nth_error (s_slots c) sl) as [k|] eqn:E; [|apply nth_error_None in E; lia].
    assert (In k L) as HkL by (apply live_list_in; eapply nth_error_In; eauto).
    destruct (index_of_in _ _ HkL) as [j Hj]. rewrite Hj. apply (index_of_some _ _ _ Hj).
  - intros j1 j2 d1 d2 L1 L2 D1 D2 Hn.
    destruct (norm_dims_nth c j1 d1 Hi D1) as [k1 [A1 [A2 A3]]]. destruct (norm_dims_nth c j2 d2 Hi D2) as [k2 [B1 [B2 B3]]].
    assert (k1 = k2) by (apply (i_names c Hi k1 k2 d1 d2); assumption). subst k2.
    apply (proj1 (NoDup_nth_error L) (live_list_nodup c) j1 j2); [apply Hseq; assumption | unfold L; congruence].
  - intros v' Hin Hk. destruct (Hin' v' Hin) as [v [H1 H2]]. subst v'. simpl in *.
    destruct (i_sds c Hi v H1 Hk) as [A B]. rewrite A. split; [reflexivity | assumption].
  - intros v' Hin Hk. destruct (Hin' v' Hin) as [v [H1 H2]]. subst v'. simpl in *. rewrite map_length. apply (i_rank c Hi v H1 Hk).
  - intros v' j d Hin Hk Hc Hl Hd. destruct (Hin' v' Hin) as [v [H1 H2]]. subst v'. simpl in *.
    destruct (v_cobj v) as [k|] eqn:Ec; [|discriminate]. destruct (index_of_some _ _ _ Hc) as [A _].
    destruct (norm_dims_nth c j d Hi Hd) as [k' [B1 [B2 B3]]]. assert (k' = k) by (unfold L in A; congruence). subst k'.
    apply (i_cname c Hi v k d H1 Hk Ec B2 B3).
  - intros i j vi' vj' j0 A B Hki Hkj Hci Hcj Hl.
    rewrite nth_error_map in A, B.
    destruct (nth_error (s_vars c) i) as [vi|] eqn:Ei; simpl in A; [|discriminate].
    destruct (nth_error (s_vars c) j) as [vj|] eqn:Ej; simpl in B; [|discriminate].
    inversion A; subst vi'. inversion B; subst vj'. simpl in *.
    destruct (v_cobj vi) as [k1|] eqn:C1; [|discriminate]. destruct (v_cobj vj) as [k2|] eqn:C2; [|discriminate].
    destruct (index_of_some _ _ _ Hci) as [X1 _]. destruct (index_of_some _ _ _ Hcj) as [X2 _].
    assert (k1 = k2) by congruence. subst k2.
    apply (i_cuniq c Hi i j vi vj k1 Ei Ej Hki Hkj C1 C2). apply live_list_in. eapply nth_error_In; eauto.
  - intros v' j d Hin Hk Horph Hl Hd. destruct (Hin' v' Hin) as [v [H1 H2]]. subst v'.
    pose proof (Ho v Horph) as Horph0. simpl in *.
    destruct (norm_dims_nth c j d Hi Hd) as [k [B1 [B2 B3]]]. apply (i_orphan c Hi v k d H1 Hk Horph0 B2 B3).
  - intros v' j Hin Hc. destruct (Hin' v' Hin) as [v [H1 H2]]. subst v'. simpl in Hc.
    destruct (v_cobj v); [|discriminate]. apply (index_of_some _ _ _ Hc).
  - intros j d n Hl Hd Hn. destruct (norm_dims_nth c j d Hi Hd) as [k [B1 [B2 B3]]].
    rewrite (p_fakes c Hp j k d n B1 B3 Hn). apply Hseq. assumption.
  - intros v' n Hin Hn. destruct (Hin' v' Hin) as [v [H1 H2]]. subst v'. simpl in Hn. apply (p_vfakes c Hp v n H1 Hn).
Qed.

(* ------------------------------------------------------------------------------------------------------- *)
(** * reload after store *)
Lemma filter_map_app : forall (A B : Type) (f : A -> option B) l1 l2, filter_map f (l1 ++ l2) = filter_map f l1 ++ filter_map f l2.
Proof. induction l1 as [|x l IH]; intro l2; simpl; [reflexivity|]. destruct (f x); simpl; rewrite IH; reflexivity. Qed.
Lemma filter_map_map : forall (A B C : Type) (f : B -> option C) (g : A -> B) l, filter_map f (map g l) = filter_map (fun x => f (g x)) l.
Proof. induction l as [|x l IH]; simpl; [reflexivity|]. destruct (f (g x)); rewrite IH; reflexivity. Qed.
Lemma filter_map_none : forall (A B : Type) (f : A -> option B) l, (forall x, In x l -> f x = None) -> filter_map f l = [].
Proof. induction l as [|x l IH]; simpl; intro H; [reflexivity|]. rewrite (H x (or_introl eq_refl)). apply IH. intros; apply H; right; assumption. Qed.
Lemma filter_map_some : forall (A B : Type) (f : A -> option B) (h : A -> B) l, (forall x, In x l -> f x = Some (h x)) -> filter_map f l = map h l.
Proof. induction l as [|x l IH]; simpl; intro H; [reflexivity|]. rewrite (H x (or_introl eq_refl)). f_equal. apply IH. intros; apply H; right; assumption. Qed.
Lemma existsb_map : forall (A B : Type) (f : B -> bool) (g : A -> B) l, existsb f (map g l) = existsb (fun x => f (g x)) l.
Proof. induction l as [|x l IH]; simpl; [reflexivity|]. rewrite IH. reflexivity. Qed.
Lemma existsb_ext_in : forall (A : Type) (f g : A -> bool) l, (forall x, In x l -> f x = g x) -> existsb f l = existsb g l.
Proof. induction l as [|x l IH]; simpl; intro H; [reflexivity|]. rewrite (H x (or_introl eq_refl)), IH; [reflexivity|]. intros; apply H; right; assumption. Qed.
Lemma first_idx_all_false : forall (A : Type) (f : A -> bool) l, (forall x, In x l -> f x = false) -> first_idx f l = None.
Proof. induction l as [|x l IH]; simpl; intro H; [reflexivity|]. rewrite (H x (or_introl eq_refl)), IH; [reflexivity|]. intros; apply H; right; assumption. Qed.

Lemma same_dim_live : forall c k1 k2, inv c -> live c k1 -> live c k2 -> same_dim (obj_of c k1) (obj_of c k2) = Nat.eqb k1 k2.
Proof.
  intros c k1 k2 Hi L1 L2. unfold same_dim.
  (* the write loop compares the CURRENT entry's name with the EARLIER entry's name *)
  change (pick DEDUPE_CMP_L (obj_of c k1) (obj_of c k2)) with (obj_of c k1).
  change (pick DEDUPE_CMP_R (obj_of c k1) (obj_of c k2)) with (obj_of c k2).
  destruct (Nat.eqb k1 k2) eqn:E.
  - apply Nat.eqb_eq in E. subst. rewrite dname_eqb_refl, !Z.eqb_refl. reflexivity.
  - apply Nat.eqb_neq in E. rewrite dname_eqb_neq; [apply andb_false_r|]. intro Hn. apply E.
    apply (i_names c Hi k1 k2 _ _ L1 L2 (obj_of_live c k1 Hi L1) (obj_of_live c k2 Hi L2) Hn).
Qed.
Lemma name_eq_live : forall c k1 k2, inv c -> live c k1 -> live c k2 ->
  dname_eqb (d_name (obj_of c k1)) (d_name (obj_of c k2)) = Nat.eqb k1 k2.
Proof.
  intros c k1 k2 Hi L1 L2. destruct (Nat.eqb k1 k2) eqn:E.
  - apply Nat.eqb_eq in E. subst. apply dname_eqb_refl.
  - apply Nat.eqb_neq in E. apply dname_eqb_neq. intro Hn. apply E.
    apply (i_names c Hi k1 k2 _ _ L1 L2 (obj_of_live c k1 Hi L1) (obj_of_live c k2 Hi L2) Hn).
Qed.

Lemma dedupe_objs : forall c, inv c -> forall l seen, (forall x, In x l -> live c x) -> (forall x, In x seen -> live c x) ->
  dedupe_from (map (obj_of c) l) (map (obj_of c) seen) = map (obj_of c) (keep_first l seen).
Proof.
  intros c Hi. induction l as [|x l IH]; intros seen Hl Hs; simpl; [reflexivity|].
  assert (existsb (same_dim (obj_of c x)) (map (obj_of c) seen) = existsb (Nat.eqb x) seen) as E.
  { rewrite existsb_map. apply existsb_ext_in. intros y Hy. apply same_dim_live; [assumption | apply Hl; left; reflexivity | apply Hs; assumption]. }
  rewrite E. destruct (existsb (Nat.eqb x) seen).
  - apply IH; [intros; apply Hl; right; assumption | assumption].
  - simpl. f_equal. apply (IH (x :: seen)); [intros; apply Hl; right; assumption|].
    intros y [Hy | Hy]; [subst; apply Hl; left; reflexivity | apply Hs; assumption].
Qed.
Lemma dedupe_slot_objs : forall c, inv c -> dedupe (slot_objs c) = map (obj_of c) (live_list c).
Proof.
  intros c Hi. unfold dedupe, slot_objs, live_list. fold (obj_of c).
  apply (dedupe_objs c Hi (s_slots c) []); [intros; assumption | intros x []].
Qed.
Lemma dedupe_live_objs : forall c, inv c -> dedupe (map (obj_of c) (live_list c)) = map (obj_of c) (live_list c).
Proof.
  intros c Hi. unfold dedupe.
  assert (dedupe_from (map (obj_of c) (live_list c)) (map (obj_of c) []) = map (obj_of c) (keep_first (live_list c) [])) as E
    by (apply (dedupe_objs c Hi); [intros x H; apply live_list_in; assumption | intros x []]).
  simpl in E. rewrite E. rewrite keep_first_id; [reflexivity | apply live_list_nodup | intros x _ []].
Qed.

Lemma udim_ne_dim : beq _HDF_DIMENSION _HDF_UDIMENSION = false. Proof. vm_compute. reflexivity. Qed.
Lemma read_write_dim : forall d cnt, read_dim (mkDG (write_name d cnt) (dim_class d) (mkDV (d_name d) DIM_VALS01 DIMVAL_FIELD DFNT_INT32 1 1 (d_size d)))
                                   = Some (mkDim (write_name d cnt) (d_size d)).
Proof.
  intros d cnt. unfold read_dim, dim_class. simpl. destruct (d_size d =? NC_UNLIMITED) eqn:E.
  - rewrite beq_refl. apply Z.eqb_eq in E. rewrite E. reflexivity.
  - rewrite udim_ne_dim, !beq_refl. reflexivity.
Qed.
Lemma read_write_dims : forall l cnt, (forall j d, nth_error l j = Some d -> write_name d (cnt + j) = d_name d) ->
  filter_map read_dim (write_dims l cnt) = l.
Proof.
  induction l as [|d l IH]; intros cnt H; simpl write_dims; [reflexivity|].
  simpl filter_map. rewrite read_write_dim. pose proof (H O d eq_refl) as H0. rewrite Nat.add_0_r in H0. rewrite H0.
  destruct d as [n s]. simpl. f_equal. apply IH. intros j d' Hj. replace (S cnt + j)%nat with (cnt + S j)%nat by lia. apply (H (S j) d' Hj).
Qed.
Lemma stable_write_names : forall c, inv c -> fakes_stable c ->
  forall j d, nth_error (map (obj_of c) (live_list c)) j = Some d -> write_name d (0 + j) = d_name d.
Proof.
  intros c Hi Hf j d H. destruct (norm_dims_nth c j d Hi H) as [k [A [B C]]]. unfold write_name. simpl.
  destruct (d_name d) as [b|n] eqn:E; [reflexivity|]. rewrite (Hf j k d n A C E). reflexivity.
Qed.

(** ** one variable *)
Section OneVar.
Variable c : sdcore.
Hypothesis Hi : inv c.
Hypothesis Hf : fakes_stable c.
Let L := live_list c.
Let ds := map (obj_of c) L.

Lemma written_name_stable : forall k, live c k -> written_name (slot_objs c) (obj_of c k) = d_name (obj_of c k).
Proof.
  intros k Hl. unfold written_name. rewrite (dedupe_slot_objs c Hi). rewrite first_idx_map.
  rewrite (first_idx_ext_in _ _ (Nat.eqb k) (live_list c)); [|intros x Hx; apply same_dim_live; [assumption | assumption | apply live_list_in; assumption]].
  fold (index_of k (live_list c)). assert (In k (live_list c)) as Hk by (apply live_list_in; assumption).
  destruct (index_of_in _ _ Hk) as [j Hj]. rewrite Hj. destruct (index_of_some _ _ _ Hj) as [A _].
  pose proof (stable_write_names c Hi Hf j (obj_of c k)) as S. simpl in S. apply S. rewrite nth_error_map, A. reflexivity.
Qed.
Lemma dimid_live : forall k, live c k -> dimid_opt ds (d_name (obj_of c k)) = index_of k L.
Proof.
  intros k Hl. unfold dimid_opt, ds. rewrite first_idx_map. unfold index_of. apply first_idx_ext_in.
  intros x Hx. rewrite name_eq_live; [apply Nat.eqb_sym | assumption | apply live_list_in; assumption | assumption].
Qed.
Lemma dimid_absent : forall n, (forall k, live c k -> d_name (obj_of c k) <> n) -> dimid_opt ds n = None.
Proof.
  intros n H. unfold dimid_opt, ds. rewrite first_idx_map. apply first_idx_all_false. intros x Hx.
  apply dname_eqb_neq. apply H. apply live_list_in. assumption.
Qed.

Definition ms (v : var) : list vmember := vgr_members (store_var c v).

Lemma last_kind_app : forall l1 l2 a, last_kind (l1 ++ l2) a = last_kind l2 (last_kind l1 a).
Proof. induction l1 as [|m l IH]; intros l2 a; simpl; [reflexivity|]. destruct m; apply IH. Qed.
Lemma last_kind_dims : forall (g : nat -> vmember) l a, (forall sl, exists n cl, g sl = VM_Dim n cl) -> last_kind (map g l) a = a.
Proof. intros g l a H. induction l as [|x l IH]; simpl; [reflexivity|]. destruct (H x) as [n [cl E]]. rewrite E. assumption. Qed.

Lemma rv_kind : forall v, last_kind (ms v) KSds = v_kind v.
Proof.
  intro v. unfold ms, store_var. simpl vgr_members. rewrite !last_kind_app.
  rewrite last_kind_dims by (intro; eexists; eexists; reflexivity).
  destruct (v_scale v); destruct (v_kind v); reflexivity.
Qed.

Lemma fold_skip : forall (T : Type) (g : vmember -> T -> T) l x, (forall m, In m l -> forall a, g m a = a) -> fold_right g x l = x.
Proof. induction l as [|m l IH]; simpl; intros x H; [reflexivity|]. rewrite H by (left; reflexivity). apply IH. intros; apply H; right; assumption. Qed.

Lemma nt_class_roundtrip : forall nt, nt_plain nt = true -> nt_decode (Z.land nt 255) (nt_class nt) = nt.
Proof.
  intros nt H. unfold nt_plain, hdf_unmap_type_switch in H. simpl in H.
  repeat match goal with
         | H : (_ || _) = true |- _ => apply orb_true_iff in H; destruct H as [H | H]
         end; try discriminate; apply Z.eqb_eq in H; subst nt; vm_compute; reflexivity.
Qed.

Lemma rv_folds : forall v, nt_plain (v_nt v) = true ->
  fold_right (fun m acc => match m with VM_NT b cl => nt_decode b cl | _ => acc end) 0 (ms v) = v_nt v /\
  fold_right (fun m acc => match m with VM_Data d => Some d | _ => acc end) None (ms v) = v_scale v /\
  fold_right (fun m acc => match m with VM_NDG r => r | _ => acc end) 0 (ms v) = v_ref v.
Proof.
  intros v Hnt. unfold ms, store_var. simpl vgr_members. rewrite !fold_right_app.
  repeat split.
  - rewrite fold_skip; [|intros m Hm a; apply in_map_iff in Hm; destruct Hm as [x [E _]]; subst m; reflexivity].
    rewrite fold_skip; [|intros m Hm a; apply in_map_iff in Hm; destruct Hm as [x [E _]]; subst m; reflexivity].
    simpl. destruct (v_scale v); simpl; apply nt_class_roundtrip; assumption.
  - rewrite fold_skip; [|intros m Hm a; apply in_map_iff in Hm; destruct Hm as [x [E _]]; subst m; reflexivity].
    rewrite fold_skip; [|intros m Hm a; apply in_map_iff in Hm; destruct Hm as [x [E _]]; subst m; reflexivity].
    simpl. destruct (v_scale v); reflexivity.
  - rewrite fold_skip; [|intros m Hm a; apply in_map_iff in Hm; destruct Hm as [x [E _]]; subst m; reflexivity].
    rewrite fold_skip; [|intros m Hm a; apply in_map_iff in Hm; destruct Hm as [x [E _]]; subst m; reflexivity].
    simpl. destruct (v_scale v); reflexivity.
Qed.

Lemma marker_not_attr : forall k, decode_attr (kind_marker k) = None.
Proof. intros [|]; vm_compute; reflexivity. Qed.

Lemma rv_attrs : forall v, attr_names_ok (v_attrs v) ->
  filter_map (fun m => match m with VM_VH a => decode_attr a | _ => None end) (ms v) = v_attrs v.
Proof.
  intros v Ha. unfold ms, store_var. simpl vgr_members. rewrite !filter_map_app.
  rewrite (filter_map_none _ _ _ (map _ (v_dims v))); [|intros m Hm; apply in_map_iff in Hm; destruct Hm as [x [E _]]; subst m; reflexivity].
  rewrite (attrs_roundtrip _ VM_VH _ (v_attrs v)); [|reflexivity | assumption].
  simpl. rewrite marker_not_attr. destruct (v_scale v); simpl; rewrite app_nil_r; reflexivity.
Qed.

Definition res_slot (sl : nat) : nat := match slot_dim c sl with Some k => match index_of k L with Some j => j | None => O end | None => O end.

Lemma dim_class_ok : forall d, beq (dim_class d) _HDF_DIMENSION || beq (dim_class d) _HDF_UDIMENSION = true.
Proof. intro d. unfold dim_class. destruct (d_size d =? NC_UNLIMITED); rewrite beq_refl; [apply orb_true_r | reflexivity]. Qed.

Lemma rv_dims : forall v, In v (s_vars c) ->
  filter_map (fun m => match m with
                       | VM_Dim n cls => if beq cls _HDF_DIMENSION || beq cls _HDF_UDIMENSION then Some (dimid ds n) else None
                       | _ => None end) (ms v) = map res_slot (v_dims v).
Proof.
  intros v Hv. unfold ms, store_var. simpl vgr_members. rewrite !filter_map_app.
  rewrite (filter_map_none _ _ _ (map (fun a => VM_VH (encode_attr a)) (v_attrs v))); [|intros m Hm; apply in_map_iff in Hm; destruct Hm as [x [E _]]; subst m; reflexivity].
  destruct (v_scale v); simpl; rewrite app_nil_r; rewrite filter_map_map; apply filter_map_some.
  - intros sl Hsl. rewrite dim_class_ok. f_equal. unfold res_slot, slot_dim.
    pose proof (i_vdims c Hi v sl Hv Hsl) as Hlt.
    destruct (nth_error (s_slots c) sl) as [k|] eqn:E; [|apply nth_error_None in E; lia].
    assert (live c k) as Hl by (eapply nth_error_In; eauto).
    fold (obj_of c k). rewrite (written_name_stable k Hl). unfold dimid. fold (dimid_opt ds (d_name (obj_of c k))).
    rewrite (dimid_live k Hl). reflexivity.
  - intros sl Hsl. rewrite dim_class_ok. f_equal. unfold res_slot, slot_dim.
    pose proof (i_vdims c Hi v sl Hv Hsl) as Hlt.
    destruct (nth_error (s_slots c) sl) as [k|] eqn:E; [|apply nth_error_None in E; lia].
    assert (live c k) as Hl by (eapply nth_error_In; eauto).
    fold (obj_of c k). rewrite (written_name_stable k Hl). unfold dimid. fold (dimid_opt ds (d_name (obj_of c k))).
    rewrite (dimid_live k Hl). reflexivity.
Qed.

Lemma rv_cobj : forall v, In v (s_vars c) ->
  (match v_kind v with KCoord => dimid_opt ds (v_name v) | KSds => None end) = (match v_cobj v with Some k => index_of k L | None => None end).
Proof.
  intros v Hv. destruct (v_kind v) eqn:Ek.
  - destruct (i_sds c Hi v Hv Ek) as [A _]. rewrite A. reflexivity.
  - destruct (v_cobj v) as [k|] eqn:Ec.
    + destruct (classic_live c k) as [Hl | Hl].
      * rewrite (i_cname c Hi v k (obj_of c k) Hv Ek Ec Hl (obj_of_live c k Hi Hl)). apply dimid_live. assumption.
      * rewrite (index_of_notin k L) by (unfold L; rewrite live_list_in; assumption).
        apply dimid_absent. intros k0 Hl0 Hn. apply (i_orphan c Hi v k0 (obj_of c k0) Hv Ek); try assumption; [|apply obj_of_live; assumption | symmetry; assumption].
        intros k1 H1. rewrite Ec in H1. inversion H1; subst. assumption.
    + apply dimid_absent. intros k0 Hl0 Hn. apply (i_orphan c Hi v k0 (obj_of c k0) Hv Ek); try assumption; [|apply obj_of_live; assumption | symmetry; assumption].
      intros k1 H1. rewrite Ec in H1. discriminate.
Qed.

Lemma read_store_var : forall v, In v (s_vars c) -> attr_names_ok (v_attrs v) -> nt_plain (v_nt v) = true ->
  read_var ds (store_var c v) =
  mkVar (v_name v) (v_kind v) (v_nt v) (map res_slot (v_dims v)) (v_attrs v) (v_scale v)
        (match v_cobj v with Some k => index_of k L | None => None end) (v_ref v).
Proof.
  intros v Hv Ha Hnt. unfold read_var. fold (ms v). destruct (rv_folds v Hnt) as [F1 [F2 F3]].
  rewrite (rv_kind v), F1, F2, F3, (rv_attrs v Ha), (rv_dims v Hv).
  change (vgr_name (store_var c v)) with (v_name v). rewrite (rv_cobj v Hv). reflexivity.
Qed.
End OneVar.

(** ** the whole metadata: what SDstart finds is the normal form of what SDend was given *)
Lemma persist_roundtrip_lemma : forall c, inv c -> persist_ok c -> reload (store c) = normalize c.
Proof.
  intros c Hi Hp. unfold reload, store. simpl cg_members. rewrite !filter_map_app, !filter_map_map.
  (* dimensions *)
  assert (filter_map (fun x => read_dim x) (write_dims (dedupe (slot_objs c)) 0) = map (obj_of c) (live_list c)) as Hd.
  { rewrite (dedupe_slot_objs c Hi). apply read_write_dims. apply stable_write_names; [assumption | apply (p_fakes c Hp)]. }
  assert (forall (A B : Type) (l : list A), filter_map (fun _ : A => @None B) l = []) as Hn
    by (intros A B l; induction l as [|x l IH]; simpl; auto).
  rewrite !Hn. rewrite ?app_nil_l, ?app_nil_r. rewrite Hd. rewrite (dedupe_live_objs c Hi).
  unfold normalize. fold (obj_of c). f_equal.
  - (* global attributes *)
    pose proof (attrs_roundtrip _ (fun a => a) decode_attr (s_gattrs c) (fun v => eq_refl) (p_gattrs c Hp)) as E.
    rewrite filter_map_map in E. exact E.
  - (* variables *)
    apply filter_map_some. intros v Hv. change (vgr_class (store_var c v)) with _HDF_VARIABLE. rewrite beq_refl. f_equal.
    apply (read_store_var c Hi (p_fakes c Hp) v Hv (p_vattrs c Hp v Hv) (p_nts c Hp v Hv)).
  - rewrite map_length. reflexivity.
Qed.

(* ------------------------------------------------------------------------------------------------------- *)
(** * the whole-file model refines the whole-file specification, for every history *)
Definition sinv (s : state) : Prop := inv (sd_cur s) /\ inv (sd_saved s).

(** the hypotheses under which the implementation's lookup-by-name and record-level persistence are faithful:
    exactly the recorded findings 1 and 3 (checked where they matter: when the metadata is written, and when a
    dimension is given a name an abandoned coordinate variable still bears) *)
Definition hyp (s : state) (o : op) : Prop :=
  match o with
  | SdEnd => writable (sd_mode s) && sd_dirty s = true -> persist_ok (sd_cur s)
  | SdSetDimName _ _ name => no_orphan_named (sd_cur s) (DUser name)
  | _ => True
  end.

Lemma step_agree_lemma : forall s o, sinv s -> hyp s o -> step_with impl_hooks s o = step_with spec_hooks s o.
Proof.
  intros s o [Hc Hs] Hh. unfold step_with. destruct (is_h_op o) eqn:Eh; [reflexivity|].
  assert (sd_step_with impl_hooks s o = sd_step_with spec_hooks s o) as E.
  { apply sd_step_hooks_congr.
    - intros k Hl. simpl. apply hooks_agree_lemma; assumption.
    - intros Eo Hw. subst o. simpl. unfold persist. apply persist_roundtrip_lemma; [assumption | apply Hh; assumption]. }
  rewrite E. reflexivity.
Qed.

Lemma h_step_plain_sd : forall s o, sd_cur (fst (h_step_plain s o)) = sd_cur s /\ sd_saved (fst (h_step_plain s o)) = sd_saved s.
Proof.
  intros s o. unfold h_step_plain. destruct o; try (split; reflexivity);
  repeat match goal with
         | |- context [if ?b then _ else _] => destruct b
         | |- context [match ?x with _ => _ end] => destruct x
         end; split; reflexivity.
Qed.
Lemma h_step_sd : forall s o, sd_cur (fst (h_step s o)) = sd_cur s /\ sd_saved (fst (h_step s o)) = sd_saved s.
Proof.
  intros s o. unfold h_step. destruct o; try apply h_step_plain_sd.
  destruct o; try (split; reflexivity); apply h_step_plain_sd.
Qed.

Lemma with_cur_sinv : forall s c d, sinv s -> inv c -> sinv (with_cur s c d).
Proof. intros s c d [_ H2] Hc. split; simpl; assumption. Qed.

Lemma resolve_inv : forall c ob cr c' wh l, inv c -> resolve spec_hooks c ob cr = Some (c', wh, l) -> inv c'.
Proof.
  intros c [|i|i d] cr c' wh l Hi H; simpl in H.
  - inversion H; subst; assumption.
  - destruct (znth (s_vars c) i); inversion H; subst; assumption.
  - destruct (var_slot c i d) as [sl|]; [|discriminate]. destruct (slot_dim c sl) as [k|] eqn:E; [|discriminate].
    destruct cr.
    + destruct (inv_ensure_coord c sl k 0 Hi E) as [A _].
      destruct (ensure_coord spec_hooks c sl k 0) as [c1 j]. simpl in A.
      destruct (nth_error (s_vars c1) j); inversion H; subst; assumption.
    + destruct (coord_of c k) as [j|].
      * destruct (nth_error (s_vars c) j); inversion H; subst; assumption.
      * inversion H; subst; assumption.
Qed.
Lemma put_attrs_inv : forall c wh l, inv c -> inv (put_attrs c wh l).
Proof. intros c [|i] l H; simpl; [apply inv_set_gattrs | apply inv_set_var_attrs]; assumption. Qed.

Ltac brk H :=
  repeat match type of H with
         | context [match ?x with _ => _ end] => let E := fresh "E" in destruct x eqn:E
         | context [if ?b then _ else _] => let E := fresh "E" in destruct b eqn:E
         end.

Lemma sd_step_inv : forall s o s' r, sinv s -> hyp s o -> sd_step_with spec_hooks s o = (s', r) -> sinv s'.
Proof.
  intros s o s' r Hs Hh H. pose proof Hs as [Hc Hsv].
  destruct o; unfold sd_step_with in H; try (inversion H; subst; assumption).
  - (* SdStart *) brk H; inversion H; subst; try assumption; split; simpl; try apply inv_sd0; assumption.
  - (* SdEnd *) brk H; inversion H; subst; try assumption; split; simpl; try assumption;
      apply inv_normalize; try assumption; apply Hh; rewrite E; assumption.
  - (* SdCreate *) brk H; inversion H; subst; try assumption. apply with_cur_sinv; [assumption | apply inv_create; assumption].
  - (* SdSetAttr *) brk H; inversion H; subst; try assumption;
      match goal with E : resolve _ _ _ _ = Some _ |- _ => pose proof (resolve_inv _ _ _ _ _ _ Hc E) as Hc' end;
      apply with_cur_sinv; try assumption; apply put_attrs_inv; assumption.
  - (* SdAttrs *) brk H; inversion H; subst; assumption.
  - (* SdAttrInfo *) brk H; inversion H; subst; try assumption;
      match goal with E : resolve _ _ _ _ = Some _ |- _ => pose proof (resolve_inv _ _ _ _ _ _ Hc E) as Hc' end;
      apply with_cur_sinv; assumption.
  - (* SdFindAttr *) brk H; inversion H; subst; try assumption;
      match goal with E : resolve _ _ _ _ = Some _ |- _ => pose proof (resolve_inv _ _ _ _ _ _ Hc E) as Hc' end;
      apply with_cur_sinv; assumption.
  - brk H; inversion H; subst; try assumption. apply with_cur_sinv; [assumption | apply inv_set_var_attrs; assumption].
  - brk H; inversion H; subst; assumption.
  - brk H; inversion H; subst; try assumption. apply with_cur_sinv; [assumption | apply inv_set_var_attrs; assumption].
  - brk H; inversion H; subst; assumption.
  - brk H; inversion H; subst; try assumption. apply with_cur_sinv; [assumption | apply inv_set_var_attrs; assumption].
  - brk H; inversion H; subst; assumption.
  - brk H; inversion H; subst; try assumption. apply with_cur_sinv; [assumption | apply inv_set_var_attrs; assumption].
  - brk H; inversion H; subst; assumption.
  - (* SdSetDimName *) brk H; inversion H; subst; try assumption; apply with_cur_sinv; try assumption.
    + match goal with E1 : slot_dim _ _ = Some _, E2 : dim_in_use _ _ _ = Some _ |- _ =>
        eapply inv_share; [assumption | exact E1 | apply (dim_in_use_some _ _ _ _ E2)] end.
    + match goal with E1 : slot_dim _ _ = Some _, E2 : dim_in_use _ _ _ = None, E3 : nth_error (s_dims _) _ = Some _ |- _ =>
        apply inv_rename; [assumption | apply (slot_dim_live _ _ _ E1) | exact E3 | exact E2 | exact Hh] end.
  - brk H; inversion H; subst; assumption.
  - (* SdSetDimScale *)
    destruct (negb (writable (sd_mode s))); [inversion H; subst; assumption|].
    destruct (var_slot (sd_cur s) i d) as [sl|]; [|inversion H; subst; assumption].
    destruct (slot_dim (sd_cur s) sl) as [k|] eqn:Ek; [|inversion H; subst; assumption].
    destruct (nt_size nt); destruct (nc_type nt); destruct (nth_error (s_dims (sd_cur s)) k); try (inversion H; subst; assumption).
    destruct (negb ((d_size d0 =? 0) || (count =? d_size d0))); [inversion H; subst; assumption|].
    destruct (negb ((zlen data =? count * z) && nt_plain nt && (1 <=? count))); [inversion H; subst; assumption|].
    match type of H with (if ?b then _ else _) = _ => destruct b; [inversion H; subst; assumption|] end.
    destruct (inv_ensure_coord (sd_cur s) sl k nt Hc Ek) as [A _].
    destruct (ensure_coord spec_hooks (sd_cur s) sl k nt) as [c1 j]. simpl in A.
    destruct (nth_error (s_vars c1) j) eqn:Ej; inversion H; subst; try assumption.
    apply with_cur_sinv; [assumption | apply inv_upd_var; assumption].
  - (* SdGetDimScale *)
    destruct (var_slot (sd_cur s) i d) as [sl|]; [|inversion H; subst; assumption].
    destruct (slot_dim (sd_cur s) sl) as [k|] eqn:Ek; [|inversion H; subst; assumption].
    destruct (inv_ensure_coord (sd_cur s) sl k 0 Hc Ek) as [A _].
    destruct (ensure_coord spec_hooks (sd_cur s) sl k 0) as [c1 j]. simpl in A.
    destruct (nth_error (s_vars c1) j) eqn:Ej; [|inversion H; subst; assumption].
    destruct (v_scale v); inversion H; subst; try assumption. apply with_cur_sinv; assumption.
  - (* SdSetDimStrs *)
    destruct (negb (writable (sd_mode s))); [inversion H; subst; assumption|].
    destruct (var_slot (sd_cur s) i d) as [sl|]; [|inversion H; subst; assumption].
    destruct (slot_dim (sd_cur s) sl) as [k|] eqn:Ek; [|inversion H; subst; assumption].
    destruct (inv_ensure_coord (sd_cur s) sl k 0 Hc Ek) as [A _].
    destruct (ensure_coord spec_hooks (sd_cur s) sl k 0) as [c1 j]. simpl in A.
    destruct (nth_error (s_vars c1) j) eqn:Ej; inversion H; subst; try assumption.
    apply with_cur_sinv; [assumption | apply inv_set_var_attrs; assumption].
  - brk H; inversion H; subst; assumption.
Qed.

Lemma step_inv_lemma : forall s o, sinv s -> hyp s o -> sinv (fst (step s o)).
Proof.
  intros s o Hs Hh. unfold step, step_with. destruct (is_h_op o) eqn:Eh.
  - assert (sinv (fst (h_step s o))) as Hhs.
    { destruct (h_step_sd s o) as [A B]. destruct Hs as [H1 H2]. split; [rewrite A | rewrite B]; assumption. }
    destruct o; try discriminate; destruct (h_mode s); simpl; assumption.
  - assert (forall p, sd_step_with spec_hooks s o = p -> sinv (fst p)) as K.
    { intros [s' r] E. simpl. eapply sd_step_inv; eauto. }
    destruct o; try discriminate; destruct (sd_mode s); simpl; try assumption; apply K; reflexivity.
Qed.

Fixpoint run (st : state -> op -> state * res) (s : state) (ops : list op) : list res * state :=
  match ops with
  | [] => ([], s)
  | o :: r => let '(s', x) := st s o in let '(xs, sf) := run st s' r in (x :: xs, sf)
  end.
Fixpoint hyps (s : state) (ops : list op) : Prop :=
  match ops with [] => True | o :: r => hyp s o /\ hyps (fst (step s o)) r end.

Lemma whole_file_refinement_lemma : forall ops s, sinv s -> hyps s ops -> run mstep s ops = run step s ops.
Proof.
  induction ops as [|o ops IH]; intros s Hs Hh; [reflexivity|]. destruct Hh as [H1 H2]. simpl.
  unfold mstep at 1. rewrite (step_agree_lemma s o Hs H1). fold step.
  pose proof (step_inv_lemma s o Hs H1) as Hs'. destruct (step s o) as [s' x]. simpl in *.
  rewrite (IH s' Hs' H2). reflexivity.
Qed.
Lemma sinv_init : sinv init.
Proof. split; apply inv_sd0. Qed.

(* ------------------------------------------------------------------------------------------------------- *)
(** * the recorded findings as witnesses: without the hypotheses the refinement fails, the way the library does *)
Definition ops_renumber : list op :=
  [SdStart MCreate; SdCreate [97] DFNT_INT32 1 [2]; SdCreate [98] DFNT_INT32 1 [2]; SdCreate [99] DFNT_INT32 1 [3];
   SdSetDimName 0 0 [120]; SdSetDimName 1 0 [120];            (* two slots share "x": one dimension fewer is written *)
   SdSetDimStrs 2 0 (Some [108; 97; 98]) None None;           (* coordinate variable "fakeDim2" with long_name "lab" *)
   SdEnd; SdStart MRead; SdGetDimStrs 2 0 64].
Lemma fake_renumbering_refuted_lemma :
  fst (run mstep init ops_renumber) <> fst (run step init ops_renumber) /\
  last (fst (run step init ops_renumber)) RFail = ROk [TB [108; 97; 98]; TB []; TB []] /\
  last (fst (run mstep init ops_renumber)) RFail = ROk [TB []; TB []; TB []].
Proof. vm_compute. split; [discriminate | split; reflexivity]. Qed.

Definition ops_longname : list op :=
  [SdStart MCreate; SdCreate [97] DFNT_INT32 1 [2]; SdSetAttr (OVar 0) (repeat 115 65) DFNT_UINT8 1 [7];
   SdEnd; SdStart MRead; SdFindAttr (OVar 0) (repeat 115 65)].
Lemma long_name_refuted_lemma :
  last (fst (run step init ops_longname)) RFail = ROk [TI 0] /\ last (fst (run mstep init ops_longname)) RFail = RFail.
Proof. vm_compute. split; reflexivity. Qed.

(** finding 2: a wider type over an existing scale fails, and does not leave the old scale *)
Lemma dimscale_wider_refuted_lemma :
  let v := mkSV DFNT_CHAR8 (Some [9; 10; 11; 12; 13]) in
  let '(v', ok) := setdimscale_model v DFNT_UINT16 [26; 27; 28; 29; 30; 31; 32; 33; 34; 35] in
  ok = false /\ sv_nt v' <> sv_nt v /\ sv_elem v' = sv_elem v.
Proof. vm_compute. split; [reflexivity | split; [discriminate | reflexivity]]. Qed.

(** the hypotheses hold along an ordinary history (non-vacuity of the refinement theorem) *)
Definition ops_plain : list op :=
  [SdStart MCreate; SdCreate [97] DFNT_INT32 2 [2; 3]; SdSetDimName 0 0 [120]; SdSetDimScale 0 0 2 DFNT_UINT8 [1; 2];
   SdSetAttr (ODim 0 1) [117] DFNT_UINT8 1 [7]; SdSetCal 0 (repeat 1 32) DFNT_INT16; SdEnd; SdStart MWrite; SdLookup;
   SdGetDimScale 0 0; SdAttrs (ODim 0 1); SdGetCal 0; SdSetDimName 0 1 [121]; SdEnd; SdStart MRead; SdDimInfo 0 1].
Lemma nul_free_dec : forall l, forallb (fun x => negb (x =? 0)) l = true -> nul_free l.
Proof.
  induction l as [|x l IH]; simpl; intro H; [constructor|]. apply andb_true_iff in H. destruct H as [H1 H2].
  constructor; [|apply IH; assumption]. apply negb_true_iff in H1. apply Z.eqb_neq. assumption.
Qed.

(** decidable forms of the hypotheses (used for the non-vacuity example; they could equally be evaluated on any history) *)
Definition attr_names_okb (l : list attr) : bool :=
  forallb (fun a => forallb (fun x => negb (x =? 0)) (a_name a) && (zlen (a_name a) <=? VSNAMELENMAX)) l.
Definition fakes_stableb (c : sdcore) : bool :=
  forallb (fun p : nat * nat => match nth_error (s_dims c) (snd p) with
                                | Some d => match d_name d with DFake n => Nat.eqb n (fst p) | DUser _ => true end
                                | None => true
                                end) (combine (seq 0 (length (live_list c))) (live_list c)).
Definition vfakes_okb (c : sdcore) : bool :=
  forallb (fun v => match v_name v with DFake n => Nat.ltb n (length (live_list c)) | DUser _ => true end) (s_vars c).
Definition persist_okb (c : sdcore) : bool :=
  attr_names_okb (s_gattrs c) && forallb (fun v => attr_names_okb (v_attrs v)) (s_vars c) && fakes_stableb c && vfakes_okb c
  && forallb (fun v => nt_plain (v_nt v)) (s_vars c).
Definition no_orphan_namedb (c : sdcore) (n : dname) : bool :=
  forallb (fun v => match v_kind v with
                    | KCoord => (match v_cobj v with Some k0 => existsb (Nat.eqb k0) (s_slots c) | None => false end)
                                || negb (dname_eqb (v_name v) n)
                    | KSds => true
                    end) (s_vars c).
Definition hypb (s : state) (o : op) : bool :=
  match o with
  | SdEnd => negb (writable (sd_mode s) && sd_dirty s) || persist_okb (sd_cur s)
  | SdSetDimName _ _ name => no_orphan_namedb (sd_cur s) (DUser name)
  | _ => true
  end.
Fixpoint hypsb (s : state) (ops : list op) : bool :=
  match ops with [] => true | o :: r => hypb s o && hypsb (fst (step s o)) r end.

Lemma attr_names_okb_sound : forall l, attr_names_okb l = true -> attr_names_ok l.
Proof.
  intros l H. unfold attr_names_okb in H. rewrite forallb_forall in H. apply Forall_forall. intros a Ha.
  specialize (H a Ha). apply andb_true_iff in H. destruct H as [H1 H2]. split; [apply nul_free_dec; assumption | apply Z.leb_le; assumption].
Qed.
Lemma nth_in_combine_seq : forall (l : list nat) a j k, nth_error l j = Some k -> In ((a + j)%nat, k) (combine (seq a (length l)) l).
Proof.
  induction l as [|x l IH]; intros a j k H; [destruct j; discriminate|]. simpl. destruct j; simpl in H.
  - inversion H. left. f_equal. lia.
  - right. replace (a + S j)%nat with (S a + j)%nat by lia. apply IH. assumption.
Qed.
Lemma persist_okb_sound : forall c, persist_okb c = true -> persist_ok c.
Proof.
  intros c H. unfold persist_okb in H. apply andb_true_iff in H. destruct H as [H H5].
  apply andb_true_iff in H. destruct H as [H H4]. apply andb_true_iff in H. destruct H as [H H3].
  apply andb_true_iff in H. destruct H as [H1 H2]. constructor.
  - apply attr_names_okb_sound. assumption.
  - intros v Hv. apply attr_names_okb_sound. rewrite forallb_forall in H2. apply H2. assumption.
  - intros j k d n A B C. unfold fakes_stableb in H3. rewrite forallb_forall in H3.
    specialize (H3 (j, k) (nth_in_combine_seq _ 0 j k A)). simpl in H3. rewrite B, C in H3. apply Nat.eqb_eq in H3. assumption.
  - intros v n Hv Hn. unfold vfakes_okb in H4. rewrite forallb_forall in H4. specialize (H4 v Hv). rewrite Hn in H4.
    apply Nat.ltb_lt. assumption.
  - intros v Hv. rewrite forallb_forall in H5. apply H5. assumption.
Qed.
Lemma no_orphan_namedb_sound : forall c n, no_orphan_namedb c n = true -> no_orphan_named c n.
Proof.
  intros c n H v Hv Hk Ho. unfold no_orphan_namedb in H. rewrite forallb_forall in H. specialize (H v Hv). rewrite Hk in H.
  apply orb_true_iff in H. destruct H as [H | H].
  - destruct (v_cobj v) as [k0|] eqn:E; [|discriminate]. apply existsb_exists in H. destruct H as [x [H1 H2]].
    apply Nat.eqb_eq in H2. subst x. exfalso. apply (Ho k0 E). assumption.
  - apply negb_true_iff in H. apply dname_eqb_false. assumption.
Qed.
Lemma hypsb_sound : forall ops s, hypsb s ops = true -> hyps s ops.
Proof.
  induction ops as [|o ops IH]; intros s H; simpl in *; [exact I|]. apply andb_true_iff in H. destruct H as [H1 H2].
  split; [|apply IH; assumption]. destruct o; simpl in *; try exact I.
  - intro Hw. rewrite Hw in H1. simpl in H1. apply persist_okb_sound. assumption.
  - apply no_orphan_namedb_sound. assumption.
Qed.
Lemma ops_plain_hyps : hyps init ops_plain.
Proof. apply hypsb_sound. vm_compute. reflexivity. Qed.

Lemma reload_store_identity_lemma : forall st, inv st -> persist_ok st -> normalize st = st -> reload (store st) = st.
Proof. intros st Hi Hp Hn. rewrite (persist_roundtrip_lemma st Hi Hp). assumption. Qed.
Lemma whole_file_refinement_init_lemma : forall ops, hyps init ops -> run mstep init ops = run step init ops.
Proof. intros ops H. apply whole_file_refinement_lemma; [apply sinv_init | assumption]. Qed.
Lemma loaded_state_example :
  let c := sd_saved (snd (run step init ops_plain)) in
  normalize c = c /\ reload (store c) = c /\ length (s_vars c) = 3%nat /\ length (s_dims c) = 2%nat.
Proof. vm_compute. repeat split; reflexivity. Qed.
