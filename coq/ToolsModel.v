(** C19 -- implementation model M of the anchored mechanisms of hdiff, hdp and hdfimport.
    No proofs in this file; total computable definitions only.

    What is NOT written here but imported from the generated file Gen_Tools.v (regenerated from the current
    sources on every run): the element type each array_diff branch reads the buffers through, the expression
    stored in c_diff / i2_diff / i4_diff *with its C widths* (promotion, int32 subtraction, abs, the narrowing
    to the declared type of the variable), the threshold test, the case labels of each branch, the element
    count diff_gr passes to array_diff, the tag switch of diff(), hdp's select_func switch, the printf
    conversions of hdp's fmt* routines and the scanf conversions of hdfimport's g* routines. *)
From Coq Require Import ZArith List Bool.
Require Import H4.ToolsCInt H4.gen.Gen_Tools H4.ToolsSpec.
Import ListNotations.
Local Open Scope Z_scope.

(* ------------------------------------------------------------------------------------------ *)
(** * hdiff_array.c : array_diff *)

Definition reinterp (sg : bool) (bits v : Z) : Z := if sg then swrap bits v else uwrap bits v.

Record branch := mkbranch { br_sg : bool; br_bits : Z; br_diff : Z -> Z -> Z; br_over : Z -> Z -> Z }.
Definition br8 := mkbranch ad8_elt_signed ad8_elt_bits ad8_diff ad8_over.
Definition br16 := mkbranch ad16_elt_signed ad16_elt_bits ad16_diff ad16_over.
Definition br32 := mkbranch ad32_elt_signed ad32_elt_bits ad32_diff ad32_over.

Definition zmem (x : Z) (l : list Z) : bool := existsb (Z.eqb x) l.

Inductive adkind := ADInt (b : branch) | ADFloat | ADBad.

(** Floating-point branches.  The arithmetic itself (IEEE rounding, printf/strtod) is not modelled; what is
    modelled is the *width skeleton* of the difference expression (regenerated: adf32_diff, adf64_diff): at which
    width the subtraction is carried out and where a value is narrowed.  [feval] gives it a meaning over any
    value domain with a rounding function; [fmin_width] is the narrowest format the difference passes through. *)
Section FloatSem.
  Variable V : Type.
  Variables (vsub : V -> V -> V) (vabs : V -> V) (rnd : Z -> V -> V).
  Fixpoint feval (e : fexpr) (a b : V) : V :=
    match e with
    | FA => a
    | FB => b
    | FSub w x y => rnd w (vsub (feval x a b) (feval y a b))
    | FAbs x => vabs (feval x a b)
    | FNarrow w x => rnd w (feval x a b)
    end.
End FloatSem.

Fixpoint fmin_width (elt : Z) (e : fexpr) : Z :=
  match e with
  | FA | FB => elt
  | FSub w x y => Z.min w (Z.min (fmin_width elt x) (fmin_width elt y))
  | FAbs x => fmin_width elt x
  | FNarrow w x => Z.min w (fmin_width elt x)
  end.

(** the branch computes the difference in the element type's own width (or wider) *)
Definition float_own_width (nt : Z) : bool :=
  if nt =? DFNT_FLOAT32 then adf32_elt_bits <=? fmin_width adf32_elt_bits adf32_diff
  else if nt =? DFNT_FLOAT64 then adf64_elt_bits <=? fmin_width adf64_elt_bits adf64_diff
  else false.

(** the second `switch (type & DFNT_MASK)` of array_diff (controlling expression regenerated: ad_type_key) *)
Definition ad_kind (nt : Z) : adkind :=
  let k := ad_type_key nt in
  if zmem k ad8_types then ADInt br8
  else if zmem k ad16_types then ADInt br16
  else if zmem k ad32_types then ADInt br32
  else if (k =? DFNT_FLOAT32) || (k =? DFNT_FLOAT64) then (if float_own_width k then ADFloat else ADBad)
  else ADBad.

(** command-line options that reach array_diff: -t limit (already cast to int32), -p relative (as a rational
    num/den > 0; None = not given), -e count *)
Record adopts := mkopts { o_lim : Z; o_rel : option (Z * Z); o_max : Z }.
Definition opts0 (n : Z) : adopts := mkopts 0 None n.

(** one loop iteration: returns the new n_diff and the (reversed) list of printed positions.
    PER(A,B): per = |(B-A)/A|, not comparable when A = 0; `(float)per > err_rel` is modelled exactly by
    |B-A| * den > num * |A|  (the correspondence keeps |A| small enough for this to be exact). *)
Definition ad_elt (br : branch) (o : adopts) (i x y n : Z) (pr : list Z) : Z * list Z :=
  let a := reinterp (br_sg br) (br_bits br) x in
  let b := reinterp (br_sg br) (br_bits br) y in
  let d := br_diff br a b in
  match o_rel o with
  | Some (num, den) =>
      let both_zero := (a =? 0) && (b =? 0) in
      let not_comparable := (a =? 0) in
      if not_comparable && negb both_zero then (n + 1, i :: pr)
      else if negb not_comparable && (num * Z.abs a <? Z.abs (b - a) * den)
           then (n + 1, if n + 1 <=? o_max o then i :: pr else pr)
           else (n, pr)
  | None =>
      if negb (br_over br d (o_lim o) =? 0)
      then (n + 1, if n + 1 <=? o_max o then i :: pr else pr)
      else (n, pr)
  end.

Fixpoint ad_loop (br : branch) (o : adopts) (i : Z) (a b : list Z) (n : Z) (pr : list Z) : Z * list Z :=
  match a, b with
  | x :: a', y :: b' => let '(n', pr') := ad_elt br o i x y n pr in ad_loop br o (i + 1) a' b' n' pr'
  | _, _ => (n, rev pr)
  end.

(** executable form of the floating-point branches: for NaN-free data without negative zero and without
    options, a difference computed in the element's own width is > 0 iff the bit patterns differ (gradual
    underflow; theorem array_diff_float_own_width states this over [feval]); [ad_kind] selects ADFloat only
    when the regenerated skeleton has that shape. *)
Fixpoint ad_float (i : Z) (a b : list Z) (n : Z) (pr : list Z) : Z * list Z :=
  match a, b with
  | x :: a', y :: b' => if x =? y then ad_float (i + 1) a' b' n pr else ad_float (i + 1) a' b' (n + 1) (i :: pr)
  | _, _ => (n, rev pr)
  end.

(** array_diff: (n_diff returned, positions printed) *)
Definition array_diff_m (nt : Z) (o : adopts) (a b : list Z) : Z * list Z :=
  match ad_kind nt with
  | ADInt br => ad_loop br o 0 a b 0 []
  | ADFloat => ad_float 0 a b 0 []
  | ADBad => (0, [])
  end.
Definition ad_count (nt : Z) (o : adopts) (a b : list Z) : Z := fst (array_diff_m nt o a b).

(** the code as it was before the repairs (DESIGN section 8 #17), kept for the refutation theorems *)
Definition ad8_diff_orig (a b : Z) : Z := swrap 8 (swrap 32 (Z.abs (swrap 32 (a - b)))).
Definition ad16_diff_orig (a b : Z) : Z := swrap 16 (swrap 32 (Z.abs (swrap 32 (a - b)))).
Definition ad32_diff_orig (a b : Z) : Z := swrap 32 (Z.abs (swrap 32 (a - b))).
Definition br8_orig := mkbranch true 8 ad8_diff_orig ad8_over.
Definition br16_orig := mkbranch true 16 ad16_diff_orig ad16_over.
Definition br32_orig := mkbranch true 32 ad32_diff_orig ad32_over.
Definition ad_count_orig (br : branch) (a b : list Z) : Z := fst (ad_loop br (opts0 (Z.of_nat (length a))) 0 a b 0 []).

(** print_pos: linear position -> matrix position, as the C code computes it (acc[] backwards, then quotients) *)
Fixpoint accs (dims : list Z) : list Z :=
  match dims with
  | [] => []
  | _ :: r => match accs r, r with
              | a :: _, d' :: _ => (a * d') :: accs r
              | _, _ => [1]
              end
  end.
Fixpoint pos_walk (acc : list Z) (cur : Z) : list Z :=
  match acc with
  | [] => []
  | a :: r => let p := Z.quot cur a in p :: pos_walk r (cur - a * p)
  end.
Definition print_pos_m (dims : list Z) (k : Z) : list Z := pos_walk (accs dims) k.

(* ------------------------------------------------------------------------------------------ *)
(** * hdiff.c : match (cosequential matching of the two object lists), diff (dispatch) *)

(** strcmp on unsigned character codes *)
Fixpoint strcmp (a b : list Z) : comparison :=
  match a, b with
  | [], [] => Eq
  | [], _ :: _ => Lt
  | _ :: _, [] => Gt
  | x :: a', y :: b' => match x ?= y with Eq => strcmp a' b' | c => c end
  end.

Inductive mentry := Both (o1 o2 : obj) | Only1 (o : obj) | Only2 (o : obj).

(** the `while (more_names_exist)` loop followed by the two remainder loops *)
Fixpoint cmatch (l1 : list obj) : list obj -> list mentry :=
  fix aux (l2 : list obj) : list mentry :=
    match l1, l2 with
    | [], _ => map Only2 l2
    | _, [] => map Only1 l1
    | a :: l1', b :: l2' =>
        match strcmp (o_name a) (o_name b) with
        | Eq => Both a b :: cmatch l1' l2'
        | Lt => Only1 a :: cmatch l1' l2
        | Gt => Only2 b :: aux l2'
        end
    end.

Definition mirror (e : mentry) : mentry :=
  match e with Both a b => Both b a | Only1 o => Only2 o | Only2 o => Only1 o end.

(** tag of an object as hdiff_list enters it into the table *)
Definition obj_tag (o : obj) : Z :=
  match o_body o with BSds _ _ _ _ => DFTAG_NDG | BGr _ _ _ _ _ => DFTAG_RI | BVd _ _ _ => DFTAG_VH | BVg => DFTAG_VG end.

Fixpoint zassoc (k : Z) (l : list (Z * Z)) : option Z :=
  match l with [] => None | (k', v) :: r => if k =? k' then Some v else zassoc k r end.

(** diff_sds_attrs *)
Fixpoint attrs_diff_loop (a1 a2 : list attr) : Z :=
  match a1, a2 with
  | x :: r1, y :: r2 =>
      (if negb (a_type x =? a_type y) || negb (Z.of_nat (length (a_vals x)) =? Z.of_nat (length (a_vals y)))
          || negb (zlist_eqb (a_name x) (a_name y))
       then sds_attr_info_counted                     (* "Different information for attribute": counted? (regenerated) *)
       else if zlist_eqb (a_vals x) (a_vals y) then 0 else 1)
      + attrs_diff_loop r1 r2
  | _, _ => 0
  end.
Definition sds_attrs_diff (a1 a2 : list attr) : Z :=
  if negb (Z.of_nat (length a1) =? Z.of_nat (length a2)) then sds_attr_number_counted   (* "Different number of attributes" *)
  else attrs_diff_loop a1 a2.

(** diff_sds with the default options (compare data and local attributes) *)
Definition diff_sds_m (t1 : Z) (d1 v1 : list Z) (a1 : list attr) (t2 : Z) (d2 v2 : list Z) (a2 : list attr) : Z :=
  if negb (t1 =? t2) then 0                             (* "Comparison not supported": do_nothing *)
  else if negb (zlist_eqb d1 d2) then 0                 (* rank or dimensions differ: do_nothing *)
  else match v1, v2 with
       | [], _ | _, [] => 0                             (* empty SDS: do_nothing *)
       | _, _ => ad_count t1 (opts0 (zprod d1)) v1 v2 + sds_attrs_diff a1 a2
       end.

(** diff_gr *)
Definition diff_gr_m (t1 c1 x1 y1 : Z) (v1 : list Z) (t2 c2 x2 y2 : Z) (v2 : list Z) : Z :=
  if negb (t1 =? t2) || negb (c1 =? c2) || negb (x1 =? x2) || negb (y1 =? y2) then 0
  else if zlist_eqb v1 v2 then 0                        (* memcmp == 0 *)
  else let n := Z.to_nat (gr_cmp_count (x1 * y1) c1) in
       ad_count t1 (opts0 (x1 * y1)) (firstn n v1) (firstn n v2).

(** vdata_cmp: one difference per Vdata whose records differ *)
Definition diff_vs_m (n1 : Z) (f1 : list (list Z * (Z * Z))) (v1 : list Z) (n2 : Z) (f2 : list (list Z * (Z * Z))) (v2 : list Z) : Z :=
  if negb (n1 =? n2) || negb (list_eqb field_eqb f1 f2) then vs_header_counted   (* differing headers: counted? (regenerated) *)
  else if zlist_eqb v1 v2 then 0 else 1.

(** diff(): the switch on tag1 (regenerated), then the per-kind routine.  Both objects must be of the kind the
    tag of the first one selects; otherwise the C code reads ref2 through the wrong interface, which is
    outside the modelled domain (value 0 here, excluded by [comparable] in the theorems). *)
Definition diff_obj_tag (tag1 : Z) (o1 o2 : obj) : Z :=
  match zassoc tag1 diff_switch, o_body o1, o_body o2 with
  | Some 0, BSds t1 d1 v1 a1, BSds t2 d2 v2 a2 => diff_sds_m t1 d1 v1 a1 t2 d2 v2 a2
  | Some 1, BGr t1 c1 x1 y1 v1, BGr t2 c2 x2 y2 v2 => diff_gr_m t1 c1 x1 y1 v1 t2 c2 x2 y2 v2
  | Some 2, BVd n1 f1 v1, BVd n2 f2 v2 => diff_vs_m n1 f1 v1 n2 f2 v2
  | _, _, _ => 0
  end.
Definition diff_obj (o1 o2 : obj) : Z := diff_obj_tag (obj_tag o1) o1 o2.

Definition entry_cost (e : mentry) : Z :=
  match e with Both a b => diff_obj a b | Only1 _ => 0 | Only2 _ => 0 end.

Fixpoint zsum (l : list Z) : Z := match l with [] => 0 | x :: r => x + zsum r end.

Definition match_m (l1 l2 : list obj) : Z := zsum (map entry_cost (cmatch l1 l2)).

(** what the property asks for: a one-sided entry counts as a difference *)
Definition entry_cost_wanted (e : mentry) : Z := match e with Both a b => diff_obj a b | _ => 1 end.
Definition match_wanted (l1 l2 : list obj) : Z := zsum (map entry_cost_wanted (cmatch l1 l2)).

(** hdiff_gattr.c : gattr_diff (SDfindattr = first attribute of that name) *)
Fixpoint find_attr (name : list Z) (l : list attr) : option attr :=
  match l with [] => None | a :: r => if zlist_eqb name (a_name a) then Some a else find_attr name r end.

Definition gattr_one (g2 : list attr) (a : attr) : Z :=
  match find_attr (a_name a) g2 with
  | None => 1
  | Some b => if negb (a_type a =? a_type b) || negb (Z.of_nat (length (a_vals a)) =? Z.of_nat (length (a_vals b)))
                 || negb (zlist_eqb (a_vals a) (a_vals b)) then 1 else 0
  end.
Definition gattr_missing (g1 : list attr) (b : attr) : Z :=
  match find_attr (a_name b) g1 with None => 1 | Some _ => 0 end.
Definition gattr_diff_m (g1 g2 : list attr) : Z :=
  zsum (map (gattr_one g2) g1) + zsum (map (gattr_missing g1) g2).

(** hdiff_table.c : the object table.  dtable_init allocates dtable_init_size entries; dtable_add doubles the
    table when it is full and initialises entries (tag = ref = -1) from index dtable_grow_from on (all regenerated).
    An entry is (tag, object); only the stored entries (index < nobjs) are kept in the list. *)
Record dtable := mkdt { dt_size : Z; dt_objs : list (Z * obj) }.
Definition dtable_init_m : dtable := mkdt dtable_init_size [].

Fixpoint reset_from (from i : Z) (l : list (Z * obj)) : list (Z * obj) :=
  match l with
  | [] => []
  | (t, o) :: r => (if from <=? i then (-1, o) else (t, o)) :: reset_from from (i + 1) r
  end.

Definition dtable_add_m (t : dtable) (o : obj) : dtable :=
  let n := Z.of_nat (length (dt_objs t)) in
  let t' := if negb (dtable_full n (dt_size t) =? 0)
            then let size' := dt_size t * dtable_grow_factor in
                 mkdt size' (reset_from (dtable_grow_from n size') 0 (dt_objs t))
            else t in
  mkdt (dt_size t') (dt_objs t' ++ [(obj_tag o, o)]).

Definition dtable_build (l : list obj) : dtable := fold_left dtable_add_m l dtable_init_m.
Definition table_tags (l : list obj) : list Z := map fst (dt_objs (dtable_build l)).

(** match() + diff() with the tags as they stand in the first file's table: the entries of cmatch come in the
    order of the first list, so each Both / Only1 entry consumes the next tag *)
Fixpoint costs_tab (es : list mentry) (tags : list Z) : Z :=
  match es with
  | [] => 0
  | Both a b :: r => (match tags with t :: _ => diff_obj_tag t a b | [] => 0 end) + costs_tab r (tl tags)
  | Only1 _ :: r => costs_tab r (tl tags)
  | Only2 _ :: r => costs_tab r tags
  end.
Definition match_tab_m (l1 l2 : list obj) : Z := costs_tab (cmatch l1 l2) (table_tags l1).
Definition hdiff_tab_m (f1 f2 : file) : Z := match_tab_m (f_objs f1) (f_objs f2) + gattr_diff_m (f_gattrs f1) (f_gattrs f2).
Definition hdiff_tab_exit_m (f1 f2 : file) : Z := if hdiff_tab_m f1 f2 =? 0 then 0 else 1.

(** hdiff(): number of differences; the tool exits 1 when it is non-zero.  (diff_match_dim, the comparison of
    named dimension scales, is not modelled: the generated files carry no dimension scales.) *)
Definition hdiff_m (f1 f2 : file) : Z := match_m (f_objs f1) (f_objs f2) + gattr_diff_m (f_gattrs f1) (f_gattrs f2).
Definition hdiff_exit_m (f1 f2 : file) : Z := if hdiff_m f1 f2 =? 0 then 0 else 1.

(* ------------------------------------------------------------------------------------------ *)
(** * hdp_sds.c : sdsdumpfull's walk over the rows (start[] / left[] odometer), hdp_dump.c : integer formatting *)

(** per outer dimension: (start, left, dimsize), slowest dimension first *)
Definition ostate := list (Z * (Z * Z)).
Definition ostate0 (outer : list Z) : ostate := map (fun d => (0, (d, d))) outer.
Definition starts (st : ostate) : list Z := map fst st.

(** `for (j = rank - 2; j >= 0; j--) { if (--left[j] > 0) { start[j]++; break; } else { left[j] = dimsizes[j];
    start[j] = 0; if (j == 0) done = 1; } }` : returns the new state and `done` *)
Fixpoint ostep (st : ostate) : ostate * bool :=
  match st with
  | [] => ([], true)
  | (s, (l, d)) :: r =>
      let '(r', carry) := ostep r in
      if carry then (if 0 <? l - 1 then ((s + 1, (l - 1, d)) :: r', false) else ((0, (d, d)) :: r', true))
      else ((s, (l, d)) :: r', false)
  end.

(** the `while (!done)` loop: the row starts visited, in order; None = the loop did not finish within fuel *)
Fixpoint owalk (fuel : nat) (st : ostate) : option (list (list Z)) :=
  match fuel with
  | O => None
  | S f => let '(st', done) := ostep st in
           if done then Some [starts st]
           else match owalk f st' with Some l => Some (starts st :: l) | None => None end
  end.

(** values dumped for an SDS of rank >= 1: each visited row is read with SDreaddata(start, edge = 1,..,1,rowlen)
    -- by the array specification (C03) that is the slice at the row-major offset of start *)
Definition dump_sds_m (dims vals : list Z) : option (list Z) :=
  let outer := removelast dims in
  let rowlen := last dims 1 in
  match owalk (Z.to_nat (zprod outer)) (ostate0 outer) with
  | None => None
  | Some rows => Some (flat_map (fun st => firstn (Z.to_nat rowlen) (skipn (Z.to_nat (spec_offset outer st * rowlen)) vals)) rows)
  end.

(** show.c : dumpvd's ASCII loop.  The Vdata is read in pieces of `chunk` records when it exceeds BUFFER bytes;
    the transfer buffer is modelled by the record numbers its slots hold (a shorter last piece leaves stale
    records behind it); after each read the first dumpvd_print_bound records of the buffer are printed.  All
    conditions and the bound are regenerated.  Result: the record numbers printed, in order. *)
Fixpoint zseqn (s : Z) (n : nat) : list Z := match n with O => [] | S n' => s :: zseqn (s + 1) n' end.

Fixpoint vd_loop (fuel : nat) (nv chunk done : Z) (buf : list Z) : option (list Z) :=
  match fuel with
  | O => None
  | S f =>
      if dumpvd_continue done nv =? 0 then Some []
      else
        let count := if negb (dumpvd_more nv done chunk =? 0) then chunk else nv - done in
        let buf' := zseqn done (Z.to_nat count) ++ skipn (Z.to_nat count) buf in
        match vd_loop f nv chunk (done + count) buf' with
        | Some l => Some (firstn (Z.to_nat (dumpvd_print_bound chunk count nv)) buf' ++ l)
        | None => None
        end
  end.

Definition dumpvd_m (nv vsize : Z) : option (list Z) :=
  let chunk := if negb (dumpvd_split nv vsize =? 0) then dumpvd_chunk vsize else nv in
  vd_loop (S (Z.to_nat nv)) nv chunk 0 [].

(** decimal text of an integer (what printf %d / %u / %ld / %lu produce), most significant digit first *)
Fixpoint dec_rev (fuel : nat) (n : Z) : list Z :=
  match fuel with
  | O => []
  | S f => (48 + n mod 10) :: (if n <? 10 then [] else dec_rev f (n / 10))
  end.
Definition fmt_nat (n : Z) : list Z := rev (dec_rev (S (Z.to_nat (Z.log2 n))) n).
Definition fmt_dec (z : Z) : list Z := if z <? 0 then 45 :: fmt_nat (- z) else fmt_nat z.

(** the fmt* routine select_func picks, as (signed?, bits) of the value passed to printf and the conversion *)
Definition fmt_signed (f : list Z) : bool := zlist_eqb f [37; 100] || zlist_eqb f [37; 108; 100].       (* %d %ld *)
Definition fmt_unsigned (f : list Z) : bool := zlist_eqb f [37; 117] || zlist_eqb f [37; 108; 117].     (* %u %lu *)
Definition fmt_long (f : list Z) : bool := zlist_eqb f [37; 108; 100] || zlist_eqb f [37; 108; 117].

Definition hdp_routine (nt : Z) : option (bool * Z * list Z) :=
  match zassoc (select_func_key nt) select_func_switch with
  | Some 2 => Some (false, 8, fmtuint8_format)                    (* *(unsigned char * )x *)
  | Some 3 => Some (true, 8, fmtint8_format)                      (* *(signed char * )x *)
  | Some 4 => Some (fmtuint16_var_signed, fmtuint16_var_bits, fmtuint16_format)
  | Some 5 => Some (fmtint16_var_signed, fmtint16_var_bits, fmtint16_format)
  | Some 6 => Some (fmtuint32_var_signed, fmtuint32_var_bits, fmtuint32_format)
  | Some 7 => Some (fmtint32_var_signed, fmtint32_var_bits, fmtint32_format)
  | _ => None
  end.

(** text printed for one integer element *)
Definition hdp_print (nt v : Z) : option (list Z) :=
  match hdp_routine nt with
  | Some (sg, bits, f) =>
      let x := reinterp sg bits v in
      if fmt_signed f then Some (fmt_dec x)
      else if fmt_unsigned f then Some (fmt_dec (uwrap (if fmt_long f then 64 else 32) x))
      else None
  | None => None
  end.

(* ------------------------------------------------------------------------------------------ *)
(** * hdfimport.c : text input (fscanf conversions) for the integer output types *)

Definition is_space (c : Z) : bool := (c =? 32) || ((9 <=? c) && (c <=? 13)).
Definition is_digit (c : Z) : bool := (48 <=? c) && (c <=? 57).

Fixpoint skip_space (s : list Z) : list Z :=
  match s with c :: r => if is_space c then skip_space r else s | [] => [] end.

Fixpoint scan_digits (s : list Z) (acc : Z) : Z * list Z :=
  match s with
  | c :: r => if is_digit c then scan_digits r (acc * 10 + (c - 48)) else (acc, s)
  | [] => (acc, [])
  end.

(** fscanf("%d"): skip white space, optional sign, at least one digit *)
Definition scan_int (s : list Z) : option (Z * list Z) :=
  match skip_space s with
  | c :: r =>
      let neg := c =? 45 in
      let body := if neg || (c =? 43) then r else c :: r in
      match body with
      | d :: _ => if is_digit d then let '(v, rest) := scan_digits body 0 in Some ((if neg then - v else v), rest)
                  else None
      | [] => None
      end
  | [] => None
  end.

(** width of the object a scanf conversion stores into: %d -> int, %hd -> short *)
Definition scanf_bits (f : list Z) : option Z :=
  if zlist_eqb f [37; 100] then Some 32 else if zlist_eqb f [37; 104; 100] then Some 16 else None.

Fixpoint scan_ints (n : nat) (bits : Z) (s : list Z) : option (list Z * list Z) :=
  match n with
  | O => Some ([], s)
  | S n' => match scan_int s with
            | Some (v, r) => match scan_ints n' bits r with
                             | Some (l, r') => Some (swrap bits v :: l, r')
                             | None => None
                             end
            | None => None
            end
  end.

(** output type: 32, 16 or 8 bits (-t INT32 / INT16 / INT8); the value is scanned with the conversion of the
    g* routine and, for INT8, narrowed from the int16 temporary *)
Definition import_conv (outbits : Z) : option (Z * Z) :=   (* (scanned width, stored width) *)
  if outbits =? 32 then match scanf_bits gint32_format with Some b => Some (b, 32) | None => None end
  else if outbits =? 16 then match scanf_bits gint16_format with Some b => Some (b, 16) | None => None end
  else if outbits =? 8 then match scanf_bits gint8_format with
                            | Some b => if b =? gint8_temp_bits then Some (b, 8) else None
                            | None => None end
  else None.

(** gtype (4-character tag), gdimen, gmaxmin, gscale, gdata on a TEXT file *)
Definition import_m (outbits : Z) (s : list Z) : option (list Z * list Z) :=
  match import_conv outbits, scanf_bits gint_format with
  | Some (sb, ob), Some db =>
      match scan_ints 3 db (skipn 4 s) with
      | Some ([planes; rows; cols], r1) =>
          if (cols <? 2) || (rows <? 2) then None
          else
            let nscale := (if 1 <? planes then planes else 0) + rows + cols in
            match scan_ints (Z.to_nat (2 + nscale)) sb r1 with
            | Some (_, r2) =>
                match scan_ints (Z.to_nat (planes * rows * cols)) sb r2 with
                | Some (vals, _) => Some ((if 1 <? planes then [planes; rows; cols] else [rows; cols]), map (swrap ob) vals)
                | None => None
                end
            | None => None
            end
      | _ => None
      end
  | _, _ => None
  end.

(* ------------------------------------------------------------------------------------------ *)
(** * The domain of the equality claim: "comparable content" *)

(** values of an array of number type t lie in the type's range (integer types, any flavour), or t is a
    floating type (values are bit patterns of NaN-free data without negative zero) *)
Definition elem_domain (t : Z) (v : list Z) : Prop :=
  (exists lo hi, nt_range (Z.land t DFNT_MASK) = Some (lo, hi) /\ Forall (in_range lo hi) v) \/ ad_kind t = ADFloat.

Definition attr_shape (a b : attr) : Prop :=
  a_name a = a_name b /\ a_type a = a_type b /\ length (a_vals a) = length (a_vals b).

(** two objects hdiff pairs up are of the same class, type and shape (otherwise: "Comparison not supported") *)
Definition comparable_body (x y : body) : Prop :=
  match x, y with
  | BSds t1 d1 v1 a1, BSds t2 d2 v2 a2 =>
      t1 = t2 /\ d1 = d2 /\ v1 <> [] /\ length v1 = length v2 /\ elem_domain t1 v1 /\ elem_domain t1 v2
  | BGr t1 c1 x1 y1 v1, BGr t2 c2 x2 y2 v2 =>
      t1 = t2 /\ c1 = c2 /\ x1 = x2 /\ y1 = y2 /\ 0 <= x1 * y1 * c1 /\ Z.of_nat (length v1) = x1 * y1 * c1 /\
      Z.of_nat (length v2) = x1 * y1 * c1 /\ elem_domain t1 v1 /\ elem_domain t1 v2
  | BVd n1 f1 v1, BVd n2 f2 v2 => True      (* any two Vdatas: differing headers are counted *)
  | BVg, BVg => True
  | _, _ => False
  end.

(** same object names in the same order (an object present in one file only is the known finding
    match_added_object_refuted), pairwise comparable, global attribute names unique *)
Definition comparable (f1 f2 : file) : Prop :=
  map o_name (f_objs f1) = map o_name (f_objs f2) /\
  Forall2 (fun a b => comparable_body (o_body a) (o_body b)) (f_objs f1) (f_objs f2) /\
  NoDup (map a_name (f_gattrs f1)) /\ NoDup (map a_name (f_gattrs f2)).

(* ------------------------------------------------------------------------------------------ *)
(** * hdiff_list.c : lone objects are added unless the table already holds them under one of their own tags *)

(** table entries as (tag, ref).  The "already inserted while the Vgroups were traversed?" test of hdiff_list_gr /
    hdiff_list_sds; whether it looks at the tag at all is regenerated (list_*_checks_tag) *)
Definition already_listed (checks_tag : Z) (tags : list Z) (ref : Z) (tbl : list (Z * Z)) : bool :=
  existsb (fun e => (if checks_tag =? 0 then true else zmem (fst e) tags) && (snd e =? ref)) tbl.

Fixpoint list_lone (checks_tag : Z) (tags : list Z) (tag : Z) (refs : list Z) (tbl : list (Z * Z)) : list (Z * Z) :=
  match refs with
  | [] => tbl
  | r :: rs => if already_listed checks_tag tags r tbl then list_lone checks_tag tags tag rs tbl
               else list_lone checks_tag tags tag rs (tbl ++ [(tag, r)])
  end.

Definition gr_tags : list Z := [DFTAG_RI; DFTAG_CI; DFTAG_RIG; DFTAG_RI8; DFTAG_CI8; DFTAG_II8].
Definition sds_tags : list Z := [DFTAG_SD; DFTAG_SDG; DFTAG_NDG].
Definition list_lone_gr := list_lone list_gr_checks_tag gr_tags DFTAG_RI.
Definition list_lone_sds := list_lone list_sds_checks_tag sds_tags DFTAG_NDG.

(* ------------------------------------------------------------------------------------------ *)
(** * hdp_vd.c : field selection (-f).  flds_indices is an array of MAXCHOICES slots; getFieldIndices writes the
    indices of the Vdata's fields that were chosen into its first slots; whether the array is reset to "none"
    for every Vdata is regenerated (field_indices_reset_per_vdata).  Arrays as lists: the slots after the
    written ones keep what they held. *)
Fixpoint chosen_indices (i : Z) (fields chosen : list (list Z)) : list Z :=
  match fields with
  | [] => []
  | f :: r => (if existsb (zlist_eqb f) chosen then [i] else []) ++ chosen_indices (i + 1) r chosen
  end.

Definition field_indices (prev : list Z) (fields chosen : list (list Z)) : list Z :=
  let now := chosen_indices 0 fields chosen in
  if field_indices_reset_per_vdata =? 0 then now ++ skipn (length now) prev else now.

(** indices used for each Vdata of a file, in order (the array lives across the loop over the Vdatas); a Vdata
    none of whose fields was chosen (flds_match = 0) is not dumped at all *)
Fixpoint fields_walk (prev : list Z) (vds : list (list (list Z))) (chosen : list (list Z)) : list (list Z) :=
  match vds with
  | [] => []
  | fields :: r => let ix := field_indices prev fields chosen in
                   (match chosen_indices 0 fields chosen with [] => [] | _ => ix end) :: fields_walk ix r chosen
  end.

(* ------------------------------------------------------------------------------------------ *)
(** * Round 4: Vdata interlace, attribute Vdatas, the attribute information test *)

(** vdata_cmp reads both Vdatas (interlaces checked equal before) and compares the buffers byte for byte: the two
    reads must ask for the same layout (regenerated: the interlace argument of each VSread) *)
Definition vs_buffers_same_layout (il : Z) : bool := vs_read_il1 il =? vs_read_il2 il.

(** insert_vs: `if (is_lone == 1 && vdata_class[0] <op> '\0') { if (is_reserved(vdata_class)) skip }`.  Which
    comparison guards the reserved-class test is regenerated.  An empty class is never reserved, so with `== '\0'`
    the block never fires and lone Vdatas of class Attr0.0 -- the storage of Vdata / Vgroup attributes -- stay in
    the object table: that is the only way their values get compared. *)
Definition insert_vs_skips (is_lone class_nonempty reserved : bool) : bool :=
  is_lone && (if insert_vs_reserved_test_needs_empty_class =? 0 then class_nonempty else negb class_nonempty) && reserved.
