(** C12 -- the invariant of the DD directory model and its preservation by every operation (inv_step),
    the refinement of the finite-map specification over whole histories (dir_refines_map), and the
    independence of the persistent image from the cache mode (cache_mode_irrelevant). *)
From Coq Require Import ZArith List Bool Lia Permutation.
Require Import H4.gen.Gen_DD H4.DDBvModel H4.DDBvProofs H4.DDSpec H4.DDModel H4.DDProofs H4.DDTagFacts H4.DDEofModel H4.DDCloseModel.
Import ListNotations.
Local Open Scope Z_scope.

(* ------------------------------------------------------------------------------------------ *)
(** * List updates *)

Lemma upd_length : forall A (l : list A) p v, length (upd l p v) = length l.
Proof. induction l as [|x l IH]; intros [|p] v; simpl; auto. Qed.

Lemma nth_upd_other : forall A (l : list A) p q v d, p <> q -> nth q (upd l p v) d = nth q l d.
Proof.
  induction l as [|x l IH]; intros [|p] [|q] v d H; simpl; auto; try lia; try (apply IH; lia).
Qed.

Lemma nth_upd : forall A (l : list A) p q v d, (p < length l)%nat ->
  nth q (upd l p v) d = if Nat.eqb p q then v else nth q l d.
Proof.
  intros A l p q v d Hp. destruct (Nat.eqb_spec p q) as [<-|Hne].
  - apply nth_upd_same. auto.
  - apply nth_upd_other. auto.
Qed.

Lemma upd_app_mid : forall A (l1 l2 : list A) x v, upd (l1 ++ x :: l2) (length l1) v = l1 ++ v :: l2.
Proof. induction l1 as [|y l1 IH]; intros l2 x v; simpl; auto. rewrite IH. reflexivity. Qed.

Lemma split_at : forall (l : list dd) p, (p < length l)%nat ->
  exists l1 l2, l = l1 ++ nth p l nil_dd :: l2 /\ length l1 = p.
Proof. intros l p Hp. destruct (nth_split l nil_dd Hp) as (l1 & l2 & H1 & H2). exists l1, l2. auto. Qed.

Lemma upd_out_of_range : forall A (l : list A) p v, (length l <= p)%nat -> upd l p v = l.
Proof. induction l as [|x l IH]; intros [|p] v H; simpl in *; auto; try lia. rewrite IH; auto. lia. Qed.

Lemma in_upd : forall A (l : list A) p v x, In x (upd l p v) -> x = v \/ In x l.
Proof.
  induction l as [|y l IH]; intros [|p] v x H; simpl in *; auto.
  - destruct H; auto.
  - destruct H as [->|H]; auto. destruct (IH _ _ _ H); auto.
Qed.

(* ------------------------------------------------------------------------------------------ *)
(** * Tag tree and dynarray (association lists) *)

Lemma tt_find_set : forall t k v k', tt_find (tt_set t k v) k' = if k =? k' then Some v else tt_find t k'.
Proof.
  induction t as [|[k0 v0] t IH]; intros k v k'; cbn [tt_set tt_find].
  - reflexivity.
  - destruct (Z.eqb_spec k0 k) as [->|Hne]; cbn [tt_find].
    + destruct (Z.eqb_spec k k'); reflexivity.
    + rewrite IH. destruct (Z.eqb_spec k0 k') as [->|]; auto.
      destruct (Z.eqb_spec k k'); [lia|reflexivity].
Qed.

Lemma da_get_del : forall d r r', da_get (da_del d r) r' = if r =? r' then None else da_get d r'.
Proof.
  induction d as [|[r0 p0] d IH]; intros r r'; unfold da_del in *; cbn [filter da_get fst].
  - destruct (r =? r'); reflexivity.
  - destruct (Z.eqb_spec r0 r) as [->|Hne]; cbn [negb da_get].
    + rewrite IH. destruct (Z.eqb_spec r r'); reflexivity.
    + rewrite IH. destruct (Z.eqb_spec r0 r') as [->|]; auto. destruct (Z.eqb_spec r r'); [lia|reflexivity].
Qed.

Lemma da_get_set : forall d r p r', da_get (da_set d r p) r' = if r =? r' then Some p else da_get d r'.
Proof.
  intros d r p r'. unfold da_set. cbn [da_get]. rewrite da_get_del. destruct (Z.eqb_spec r r'); reflexivity.
Qed.

(** the dynarray entry of (base tag, ref), through the tag tree *)
Definition tree_da (tree : list (Z * tinfo)) (base r : Z) : option nat :=
  match tt_find tree base with None => None | Some ti => da_get (ti_da ti) r end.

(** per tag: the bit-vector mirrors the dynarray (bit 0 is always set) *)
Definition bits_ok (tree : list (Z * tinfo)) : Prop :=
  forall base ti, tt_find tree base = Some ti ->
    bv_wf (ti_bv ti) /\ bv_bit (ti_bv ti) 0 = true /\
    (forall r, 1 <= r -> (bv_bit (ti_bv ti) r = true <-> da_get (ti_da ti) r <> None)).

Lemma ref_bits0_spec : exists b, REF_BITS0 = Some b /\ bv_wf b /\ forall m, 0 <= m -> bv_bit b m = (m =? 0).
Proof.
  unfold REF_BITS0. destruct (bv_new (-1)) as [b0|] eqn:E; [|vm_compute in E; discriminate].
  destruct (bv_new_wf _ _ E) as [W0 Hclr].
  destruct (bv_set_spec b0 0 BV_TRUE W0 ltac:(lia) ltac:(auto)) as (b & Hs & Wb & Hb & _).
  exists b. split; auto. split; auto. intros m Hm. rewrite Hb by auto. rewrite Hclr.
  destruct (m =? 0); reflexivity.
Qed.

Lemma register_spec : forall tree tag ref p, bits_ok tree -> 1 <= ref ->
  tree_da tree (BASETAG tag) ref = None ->
  exists tree', register_tag_ref tree tag ref p = Some tree' /\ bits_ok tree' /\
    forall b r, tree_da tree' b r = if (BASETAG tag =? b) && (ref =? r) then Some p else tree_da tree b r.
Proof.
  intros tree tag ref p Hb Hr Hnone. unfold register_tag_ref. unfold tree_da in Hnone.
  set (base := BASETAG tag) in *.
  assert (Hgo : forall ti, bv_wf (ti_bv ti) -> bv_bit (ti_bv ti) 0 = true ->
            (forall r, 1 <= r -> (bv_bit (ti_bv ti) r = true <-> da_get (ti_da ti) r <> None)) ->
            da_get (ti_da ti) ref = None ->
            (forall r, tree_da tree base r = da_get (ti_da ti) r) ->
            exists tree', match bv_set (ti_bv ti) ref BV_TRUE with
                          | Some b => Some (tt_set tree base (mkti b (da_set (ti_da ti) ref p)))
                          | None => None end = Some tree' /\ bits_ok tree' /\
              forall b r, tree_da tree' b r = if (base =? b) && (ref =? r) then Some p else tree_da tree b r).
  { intros ti W H0 Hbits Hda Hsame.
    destruct (bv_set_spec (ti_bv ti) ref BV_TRUE W ltac:(lia) ltac:(auto)) as (b' & Hs & Wb' & Hb' & _).
    rewrite Hs. eexists. split; [reflexivity|]. split.
    - intros b2 ti2 Hf. rewrite tt_find_set in Hf. destruct (Z.eqb_spec base b2) as [<-|Hne].
      + injection Hf as <-. cbn [ti_bv ti_da]. split; [auto|]. split.
        * rewrite Hb' by lia. destruct (Z.eqb_spec 0 ref); [lia|auto].
        * intros r Hr1. rewrite Hb' by lia. rewrite da_get_set. destruct (Z.eqb_spec r ref) as [->|Hne].
          -- rewrite !Z.eqb_refl. split; [intros _; discriminate|intros _; reflexivity].
          -- destruct (Z.eqb_spec ref r); [lia|]. apply Hbits. auto.
      + exact (Hb b2 ti2 Hf).
    - intros b2 r. unfold tree_da at 1. rewrite tt_find_set. destruct (Z.eqb_spec base b2) as [<-|Hne]; cbn [andb ti_da].
      + rewrite da_get_set. destruct (Z.eqb_spec ref r); auto; try (symmetry; apply Hsame).
      + reflexivity. }
  destruct (tt_find tree base) as [ti|] eqn:Ef.
  - destruct (Hb base ti Ef) as (W & H0 & Hbits).
    rewrite (bv_get_spec _ _ W) by lia.
    destruct (bv_bit (ti_bv ti) ref) eqn:Ebit.
    + exfalso. apply (proj1 (Hbits ref Hr)) in Ebit. congruence.
    + cbn [Z.eqb BV_FALSE BV_TRUE]. apply Hgo; auto. intros r. unfold tree_da. rewrite Ef. reflexivity.
  - destruct ref_bits0_spec as (b0 & E0 & W0 & Hb0). rewrite E0.
    apply (Hgo (mkti b0 [])); cbn [ti_bv ti_da da_get]; auto.
    + rewrite Hb0 by lia. reflexivity.
    + intros r Hr1. rewrite Hb0 by lia. destruct (Z.eqb_spec r 0); [lia|]. split; [discriminate|congruence].
    + intros r. unfold tree_da. rewrite Ef. reflexivity.
Qed.

Lemma unregister_spec : forall tree tag ref p, bits_ok tree -> 1 <= ref ->
  tree_da tree (BASETAG tag) ref = Some p ->
  exists tree', unregister_tag_ref tree tag ref = Some tree' /\ bits_ok tree' /\
    forall b r, tree_da tree' b r = if (BASETAG tag =? b) && (ref =? r) then None else tree_da tree b r.
Proof.
  intros tree tag ref p Hb Hr Hsome. unfold unregister_tag_ref. unfold tree_da in Hsome.
  set (base := BASETAG tag) in *. destruct (tt_find tree base) as [ti|] eqn:Ef; [|discriminate].
  destruct (Hb base ti Ef) as (W & H0 & Hbits).
  rewrite (bv_get_spec _ _ W) by lia.
  assert (Ebit : bv_bit (ti_bv ti) ref = true) by (apply Hbits; auto; congruence). rewrite Ebit.
  cbn [Z.eqb BV_FALSE BV_TRUE].
  destruct (bv_set_spec (ti_bv ti) ref BV_FALSE W ltac:(lia) ltac:(auto)) as (b' & Hs & Wb' & Hb' & _).
  rewrite Hs, Hsome. eexists. split; [reflexivity|]. split.
  - intros b2 ti2 Hf. rewrite tt_find_set in Hf. destruct (Z.eqb_spec base b2) as [<-|Hne].
    + injection Hf as <-. cbn [ti_bv ti_da]. split; [auto|]. split.
      * rewrite Hb' by lia. destruct (Z.eqb_spec 0 ref); [lia|auto].
      * intros r Hr1. rewrite Hb' by lia. rewrite da_get_del. destruct (Z.eqb_spec r ref) as [->|Hne].
        -- rewrite !Z.eqb_refl. cbn. split; [discriminate|congruence].
        -- destruct (Z.eqb_spec ref r); [lia|]. apply Hbits. auto.
    + exact (Hb b2 ti2 Hf).
  - intros b2 r. unfold tree_da at 1. rewrite tt_find_set. destruct (Z.eqb_spec base b2) as [<-|Hne]; cbn [andb ti_da].
    + rewrite da_get_del. destruct (Z.eqb_spec ref r); auto. unfold tree_da. rewrite Ef. reflexivity.
    + reflexivity.
Qed.

(* ------------------------------------------------------------------------------------------ *)
(** * The invariant *)

Definition dd_ok (d : dd) : Prop :=
  uint16 (d_tag d) = true /\ BASETAG (d_tag d) <> 0 /\ BASETAG (d_tag d) <> 1 /\ BASETAG (d_tag d) <> 108 /\
  1 <= d_ref d <= MAX_REF /\
  ((d_off d = INVALID_OFFSET /\ d_len d = INVALID_LENGTH) \/ (d_off d = VALID_OFFSET /\ 1 <= d_len d)).

(** memory and disk: a clean block equals its disk image; dirty blocks exist only while caching with the
    file marked dirty *)
Record disk_ok (st : mst) : Prop := {
  k_nblk : (0 < length (m_bdirty st))%nat;
  k_slots : length (m_slots st) = (length (m_bdirty st) * nddsn st)%nat;
  k_hdr : length (m_dhdr st) = length (m_bdirty st);
  k_dsl : length (m_dslots st) = (length (m_bdirty st) * nddsn st)%nat;
  k_clean_dd : forall q, (q < length (m_slots st))%nat -> nth (q / nddsn st) (m_bdirty st) true = false ->
               nth q (m_dslots st) None = Some (nth q (m_slots st) nil_dd);
  k_clean_hdr : forall k, (k < length (m_bdirty st))%nat -> nth k (m_bdirty st) true = false ->
               nth k (m_dhdr st) None = Some (negb (S k =? length (m_bdirty st))%nat);
  k_nocache : m_cache st = false -> forall k, (k < length (m_bdirty st))%nat -> nth k (m_bdirty st) true = false;
  k_notdirty : m_fdirty st = false -> forall k, (k < length (m_bdirty st))%nat -> nth k (m_bdirty st) true = false
}.

Record Inv (st : mst) : Prop := {
  i_nd : (0 < nddsn st)%nat;
  i_live : forall d, In d (m_slots st) -> live d = true -> dd_ok d;
  i_refs : forall d, In d (m_slots st) -> 0 <= d_ref d <= MAX_REF;
  i_bits : bits_ok (m_tree st);
  i_sound : forall b r p, tree_da (m_tree st) b r = Some p ->
      (p < length (m_slots st))%nat /\ live (slot st p) = true /\
      BASETAG (d_tag (slot st p)) = b /\ d_ref (slot st p) = r;
  i_complete : forall p, (p < length (m_slots st))%nat -> live (slot st p) = true ->
      tree_da (m_tree st) (BASETAG (d_tag (slot st p))) (d_ref (slot st p)) = Some p;
  i_maxref : 0 <= m_maxref st <= MAX_REF /\
             forall d, In d (m_slots st) -> live d = true -> d_ref d <= m_maxref st;
  i_disk : disk_ok st
}.

Lemma slot_in : forall st p, (p < length (m_slots st))%nat -> In (slot st p) (m_slots st).
Proof. intros. unfold slot. apply nth_In. auto. Qed.

Lemma in_slot : forall st d, In d (m_slots st) -> exists p, (p < length (m_slots st))%nat /\ slot st p = d.
Proof. intros st d H. destruct (In_nth _ _ nil_dd H) as (p & Hp & E). exists p. auto. Qed.

Lemma find_exact_tree_da : forall st t r, find_exact st t r = tree_da (m_tree st) (BASETAG t) r.
Proof. reflexivity. Qed.

Lemma dd_ok_tag : forall d, dd_ok d -> d_tag d <> 0 /\ d_tag d <> 1 /\ d_tag d <> 108 /\ d_ref d <> 0.
Proof.
  intros d (Hu & H0 & H1 & H108 & Hr & _). tag_facts_of (d_tag d) Hu.
  destruct Hf as [[[[_ Hz] Ho] Hfr] _].
  repeat split; try lia; intros E; rewrite E in *; cbn in *; try discriminate; try (apply H0; reflexivity);
    try (apply H1; reflexivity); try (apply H108; reflexivity).
Qed.

(** the invariant implies the hypotheses of the observer theorems *)
Lemma Inv_inv : forall st, Inv st -> inv st.
Proof.
  intros st I. destruct I as [Ind Ilive Irefs Ibits Isound Icomp Imax Idisk].
  split; [auto|]. split; [|split; [|split]].
  - intros p Hp Hl. pose proof (dd_ok_tag _ (Ilive _ (slot_in st p Hp) Hl)) as (H0 & _ & _ & Hr).
    split; [|split; auto]. rewrite find_exact_tree_da. apply Icomp; auto.
  - split; [tauto|]. intros d Hin Hl. split; [|apply Imax; auto].
    destruct (Ilive d Hin Hl) as (_ & _ & _ & _ & Hr & _). lia.
  - intros base. unfold tree_da in *. destruct (tt_find (m_tree st) base) as [ti|] eqn:Ef.
    + destruct (Ibits base ti Ef) as (W & H0 & Hb). split; auto. split; auto. intros r Hr. rewrite Hb by auto. split.
      * intros Hne. destruct (da_get (ti_da ti) r) as [p|] eqn:Ed; [|congruence].
        destruct (Isound base r p) as (Hp & Hl & Hk & Hrr). { rewrite Ef. exact Ed. }
        exists (slot st p). repeat split; auto. apply slot_in; auto.
      * intros (d & Hin & Hl & Hk & Hrr). destruct (in_slot st d Hin) as (p & Hp & <-).
        pose proof (Icomp p Hp Hl) as Hc. rewrite Hk, Hrr, Ef in Hc. congruence.
    + intros r (d & Hin & Hl & Hk & Hrr). destruct (in_slot st d Hin) as (p & Hp & <-).
      pose proof (Icomp p Hp Hl) as Hc. rewrite Hk, Ef in Hc. discriminate.
  - intros d Hin. destruct (live d) eqn:Hl.
    + pose proof (dd_ok_tag _ (Ilive d Hin Hl)). unfold DFTAG_FREE. tauto.
    + unfold live in Hl. apply negb_false_iff in Hl. apply Z.eqb_eq in Hl. rewrite Hl. discriminate.
Qed.

(* ------------------------------------------------------------------------------------------ *)
(** * Writing one slot (set_dd followed by HTIupdate_dd) and adding a block keep memory and disk in step *)

Definition write_slot (st : mst) (p : nat) (d : dd) : mst := update_dd (set_dd st p d) p.

Lemma write_slot_proj : forall st p d,
  m_slots (write_slot st p d) = upd (m_slots st) p d /\ m_tree (write_slot st p d) = m_tree st /\
  m_ndds (write_slot st p d) = m_ndds st /\ m_maxref (write_slot st p d) = m_maxref st /\
  m_cache (write_slot st p d) = m_cache st /\ m_null (write_slot st p d) = m_null st.
Proof. intros. unfold write_slot, update_dd, set_dd, set_slots. cbn [m_cache]. destruct (m_cache st); cbn; auto 10. Qed.

Lemma div_lt_blocks : forall p nblk n, (0 < n)%nat -> (p < nblk * n)%nat -> (p / n < nblk)%nat.
Proof. intros. apply Nat.div_lt_upper_bound; lia. Qed.

Lemma write_slot_disk : forall st p d, (0 < nddsn st)%nat -> disk_ok st -> (p < length (m_slots st))%nat ->
  disk_ok (write_slot st p d).
Proof.
  intros st p d Hn [K1 K2 K3 K4 K5 K6 K7 K8] Hp.
  assert (Hblk : (p / nddsn st < length (m_bdirty st))%nat) by (apply div_lt_blocks; auto; lia).
  unfold write_slot, update_dd, set_dd, set_slots, blk_of, nddsn, slot in *. cbn [m_cache m_ndds m_slots m_bdirty].
  destruct (m_cache st) eqn:Ec; constructor; unfold nddsn; cbn [m_slots m_bdirty m_dhdr m_dslots m_cache m_fdirty m_ndds];
    rewrite ?upd_length; auto; try discriminate.
  - intros q Hq Hc. rewrite nth_upd in Hc by auto.
    destruct (Nat.eqb_spec (p / Z.to_nat (m_ndds st)) (q / Z.to_nat (m_ndds st))) as [E|E]; [discriminate|].
    assert (p <> q) by (intros ->; apply E; reflexivity). rewrite nth_upd_other by auto. apply K5; auto.
  - intros k Hk Hc. rewrite nth_upd in Hc by auto.
    destruct (Nat.eqb_spec (p / Z.to_nat (m_ndds st)) k); [discriminate|]. apply K6; auto.
  - intros q Hq Hc. destruct (Nat.eq_dec p q) as [<-|Hne].
    + rewrite !nth_upd_same by lia. reflexivity.
    + rewrite !nth_upd_other by auto. apply K5; auto.
Qed.

Lemma new_block_proj : forall st,
  m_slots (new_dd_block st) = m_slots st ++ repeat nil_dd (nddsn st) /\ m_tree (new_dd_block st) = m_tree st /\
  m_ndds (new_dd_block st) = m_ndds st /\ m_maxref (new_dd_block st) = m_maxref st /\
  m_cache (new_dd_block st) = m_cache st /\ m_null (new_dd_block st) = m_null st.
Proof. intros. unfold new_dd_block. destruct (m_cache st); cbn; auto 10. Qed.

Lemma nth_repeat_lt : forall A (a d : A) m q, (q < m)%nat -> nth q (repeat a m) d = a.
Proof. induction m as [|m IH]; intros q H; [lia|]. destruct q; cbn; auto. apply IH. lia. Qed.

Lemma nth_app_l : forall A (l l' : list A) q d, (q < length l)%nat -> nth q (l ++ l') d = nth q l d.
Proof. intros. apply app_nth1. auto. Qed.

Lemma new_block_disk : forall st, (0 < nddsn st)%nat -> disk_ok st -> disk_ok (new_dd_block st).
Proof.
  intros st Hn [K1 K2 K3 K4 K5 K6 K7 K8]. unfold new_dd_block.
  set (n := nddsn st) in *. set (nb := length (m_bdirty st)) in *.
  assert (Hdivnew : forall q, (nb * n <= q < (nb + 1) * n)%nat -> (q / n = nb)%nat).
  { intros q Hq. symmetry. apply (Nat.div_unique q n nb (q - nb * n)); lia. }
  destruct (m_cache st) eqn:Ec; constructor; unfold nddsn;
    cbn [m_slots m_bdirty m_dhdr m_dslots m_cache m_fdirty m_ndds]; fold (nddsn st); fold n;
    rewrite ?app_length, ?upd_length, ?repeat_length; cbn [length]; fold nb; try lia; try discriminate.
  - (* caching: clean DDs *)
    intros q Hq Hc. destruct (Nat.lt_ge_cases q (nb * n)) as [Hold|Hnew].
    + assert (Hb : (q / n < nb)%nat) by (apply div_lt_blocks; auto).
      rewrite nth_app_l in Hc by (rewrite upd_length; auto). rewrite nth_upd in Hc by (fold nb; lia).
      destruct (Nat.eqb_spec (nb - 1) (q / n)); [discriminate|].
      rewrite !nth_app_l by lia. apply K5; auto. lia.
    + rewrite (Hdivnew q) in Hc by lia. rewrite app_nth2 in Hc by (rewrite upd_length; fold nb; lia).
      rewrite upd_length in Hc. fold nb in Hc. rewrite Nat.sub_diag in Hc. discriminate.
  - (* caching: clean headers *)
    intros k Hk Hc. destruct (Nat.lt_ge_cases k nb) as [Hold|Hnew].
    + rewrite nth_app_l in Hc by (rewrite upd_length; auto). rewrite nth_upd in Hc by (fold nb; lia).
      destruct (Nat.eqb_spec (nb - 1) k); [discriminate|]. rewrite nth_app_l by lia. rewrite K6 by auto. fold nb.
      f_equal. f_equal. destruct (Nat.eqb_spec (S k) nb), (Nat.eqb_spec (S k) (nb + 1)); auto; lia.
    + rewrite app_nth2 in Hc by (rewrite upd_length; fold nb; lia). rewrite upd_length in Hc. fold nb in Hc.
      replace (k - nb)%nat with 0%nat in Hc by lia. discriminate.
  - (* not caching: clean DDs *)
    intros q Hq _. destruct (Nat.lt_ge_cases q (nb * n)) as [Hold|Hnew].
    + rewrite !nth_app_l by lia. apply K5; [lia|]. apply K7; auto. apply div_lt_blocks; auto.
    + rewrite !app_nth2 by lia. rewrite K2, K4. fold n nb.
      rewrite !nth_repeat_lt by lia. reflexivity.
  - (* not caching: clean headers *)
    intros k Hk _. assert (Hlast : nth (nb - 1) (m_dhdr st) None = Some (negb (S (nb - 1) =? nb)%nat)).
    { apply K6; [fold nb; lia|]. apply K7; auto. fold nb. lia. }
    destruct (Nat.lt_ge_cases k nb) as [Hold|Hnew].
    + rewrite nth_app_l by (rewrite upd_length; lia). rewrite nth_upd by lia.
      destruct (Nat.eqb_spec (nb - 1) k) as [<-|Hne].
      * rewrite Hlast. f_equal. destruct (Nat.eqb_spec (S (nb - 1)) (nb + 1)); [lia|reflexivity].
      * rewrite K6 by (auto; apply K7; auto). fold nb. f_equal.
        destruct (Nat.eqb_spec (S k) nb), (Nat.eqb_spec (S k) (nb + 1)); auto; lia.
    + rewrite app_nth2 by (rewrite upd_length; lia). rewrite upd_length, K3. fold nb.
      replace (k - nb)%nat with 0%nat by lia. cbn [nth]. f_equal.
      destruct (Nat.eqb_spec (S k) (nb + 1)); [reflexivity|lia].
  - (* not caching: nothing dirty *)
    intros _ k Hk. destruct (Nat.lt_ge_cases k nb) as [Hold|Hnew].
    + rewrite nth_app_l by lia. apply K7; auto.
    + rewrite app_nth2 by lia. fold nb. replace (k - nb)%nat with 0%nat by lia. reflexivity.
  - intros Hf k Hk. destruct (Nat.lt_ge_cases k nb) as [Hold|Hnew].
    + rewrite nth_app_l by lia. apply K7; auto.
    + rewrite app_nth2 by lia. fold nb. replace (k - nb)%nat with 0%nat by lia. reflexivity.
Qed.

(* ------------------------------------------------------------------------------------------ *)
(** * Changing one slot: effect on the represented map, and on the invariant *)

Definition absl (l : list dd) : list entry := map entry_of (filter live l).
Definition optl (v : dd) : list entry := if live v then [entry_of v] else [].

Lemma abs_absl : forall st, abs st = absl (m_slots st).
Proof. reflexivity. Qed.

Lemma upd_same : forall (l : list dd) p, upd l p (nth p l nil_dd) = l.
Proof. induction l as [|x l IH]; intros [|p]; simpl; auto. rewrite IH. reflexivity. Qed.

Lemma absl_app : forall a b, absl (a ++ b) = absl a ++ absl b.
Proof. intros. unfold absl. rewrite filter_app, map_app. reflexivity. Qed.

Lemma abs_upd_frame : forall l p, (p < length l)%nat ->
  exists R, forall v, Permutation (absl (upd l p v)) (optl v ++ R).
Proof.
  intros l p Hp. destruct (split_at l p Hp) as (l1 & l2 & Hl & Hlen).
  set (x := nth p l nil_dd) in *. clearbody x. subst l p.
  exists (absl l1 ++ absl l2). intros v. rewrite upd_app_mid.
  rewrite absl_app. change (v :: l2) with ([v] ++ l2). rewrite absl_app.
  replace (absl [v]) with (optl v) by (unfold absl, optl; cbn; destruct (live v); reflexivity).
  apply Permutation_app_swap_app.
Qed.

Definition ekey (e : entry) : Z * Z := (BASETAG (e_tag e), e_ref e).
Definition dkey (d : dd) : Z * Z := (BASETAG (d_tag d), d_ref d).

Lemma nodup_keys_of_unique : forall l,
  (forall i j, (i < length l)%nat -> (j < length l)%nat -> live (nth i l nil_dd) = true -> live (nth j l nil_dd) = true ->
     dkey (nth i l nil_dd) = dkey (nth j l nil_dd) -> i = j) ->
  NoDup (map ekey (absl l)).
Proof.
  induction l as [|x l IH]; intros H; [constructor|].
  assert (Htl : NoDup (map ekey (absl l))).
  { apply IH. intros i j Hi Hj Hli Hlj Hk. assert (S i = S j); [|lia]. apply H; cbn [length nth]; auto; lia. }
  unfold absl in *. cbn [filter]. destruct (live x) eqn:Hx; [|exact Htl]. cbn [map]. constructor; [|exact Htl].
  intros Hin. apply in_map_iff in Hin. destruct Hin as (e & Hk & He). apply in_map_iff in He.
  destruct He as (y & <- & Hy). apply filter_In in Hy. destruct Hy as [Hy Hly].
  destruct (In_nth _ _ nil_dd Hy) as (j & Hj & Ej).
  assert (0%nat = S j); [|lia]. apply H; cbn [length nth]; try lia; auto; rewrite ?Ej; auto.
Qed.

Lemma Inv_unique : forall st, Inv st -> forall i j, (i < length (m_slots st))%nat -> (j < length (m_slots st))%nat ->
  live (slot st i) = true -> live (slot st j) = true -> dkey (slot st i) = dkey (slot st j) -> i = j.
Proof.
  intros st I i j Hi Hj Hli Hlj Hk. pose proof (i_complete st I i Hi Hli) as Ci. pose proof (i_complete st I j Hj Hlj) as Cj.
  unfold dkey in Hk. injection Hk as Hb Hr. rewrite Hb, Hr in Ci. congruence.
Qed.

Lemma Inv_nodup : forall st, Inv st -> NoDup (map ekey (abs st)).
Proof. intros st I. apply nodup_keys_of_unique. apply (Inv_unique st I). Qed.

Definition disk_eq (a b : mst) : Prop :=
  m_ndds a = m_ndds b /\ m_slots a = m_slots b /\ m_bdirty a = m_bdirty b /\ m_dhdr a = m_dhdr b /\
  m_dslots a = m_dslots b /\ m_cache a = m_cache b /\ m_fdirty a = m_fdirty b.

Lemma disk_ok_eq : forall a b, disk_eq a b -> disk_ok a -> disk_ok b.
Proof.
  intros a b (E1 & E2 & E3 & E4 & E5 & E6 & E7) [K1 K2 K3 K4 K5 K6 K7 K8].
  unfold nddsn in *. constructor; unfold nddsn; rewrite <- ?E1, <- ?E2, <- ?E3, <- ?E4, <- ?E5, <- ?E6, <- ?E7; auto.
Qed.

(** the general slot-change lemma: create (dead -> live), delete (live -> dead), update (live -> live, same key) *)
Lemma Inv_write : forall st p v tr mx st',
  Inv st -> (p < length (m_slots st))%nat ->
  (live v = true -> dd_ok v) -> 0 <= d_ref v <= MAX_REF ->
  bits_ok tr ->
  (forall b r, tree_da tr b r =
     if live v && (BASETAG (d_tag v) =? b) && (d_ref v =? r) then Some p
     else if live (slot st p) && (BASETAG (d_tag (slot st p)) =? b) && (d_ref (slot st p) =? r) then None
     else tree_da (m_tree st) b r) ->
  (live v = true -> live (slot st p) = false -> tree_da (m_tree st) (BASETAG (d_tag v)) (d_ref v) = None) ->
  (live v = true -> live (slot st p) = true -> dkey v = dkey (slot st p)) ->
  (live v = true -> d_ref v <= mx) -> m_maxref st <= mx <= MAX_REF ->
  disk_eq (write_slot st p v) st' -> m_tree st' = tr -> m_maxref st' = mx ->
  Inv st'.
Proof.
  intros st p v tr mx st' I Hp Hvok Hvref Hbits Htr Hfresh Hsame Hvmx Hmx Hdeq Et Em.
  destruct I as [Ind Ilive Irefs Ibits Isound Icomp Imax Idisk].
  pose proof (write_slot_proj st p v) as (Ws & _ & Wn & _).
  destruct Hdeq as (E1 & E2 & E3 & E4 & E5 & E6 & E7).
  assert (Hslots : m_slots st' = upd (m_slots st) p v) by congruence.
  assert (Hnd : nddsn st' = nddsn st) by (unfold nddsn; rewrite <- E1, Wn; reflexivity).
  assert (Hslot : forall q, slot st' q = if Nat.eqb p q then v else slot st q).
  { intros q. unfold slot. rewrite Hslots. apply nth_upd. auto. }
  assert (Hlen : length (m_slots st') = length (m_slots st)) by (rewrite Hslots; apply upd_length).
  constructor.
  - rewrite Hnd. auto.
  - intros d Hin Hl. rewrite Hslots in Hin. destruct (in_upd _ _ _ _ _ Hin) as [->|Hold]; auto.
  - intros d Hin. rewrite Hslots in Hin. destruct (in_upd _ _ _ _ _ Hin) as [->|Hold]; auto.
  - rewrite Et. auto.
  - intros b r q Hq. rewrite Et, Htr in Hq. rewrite Hlen, Hslot.
    destruct (live v && (BASETAG (d_tag v) =? b) && (d_ref v =? r)) eqn:C1.
    + injection Hq as <-. rewrite Nat.eqb_refl. repeat rewrite andb_true_iff in C1. destruct C1 as [[Hl Hb] Hr].
      apply Z.eqb_eq in Hb. apply Z.eqb_eq in Hr. auto.
    + destruct (live (slot st p) && (BASETAG (d_tag (slot st p)) =? b) && (d_ref (slot st p) =? r)) eqn:C2; [discriminate|].
      destruct (Isound b r q Hq) as (Hql & Hlq & Hbq & Hrq). destruct (Nat.eqb_spec p q) as [<-|Hne]; auto.
      exfalso. rewrite Hlq, <- Hbq, <- Hrq, !Z.eqb_refl in C2. discriminate.
  - intros q Hq Hl. rewrite Hlen in Hq. rewrite Hslot in Hl |- *. rewrite Et, Htr.
    destruct (Nat.eqb_spec p q) as [<-|Hne].
    + rewrite Hl, !Z.eqb_refl. reflexivity.
    + pose proof (Icomp q Hq Hl) as Cq.
      destruct (live v && (BASETAG (d_tag v) =? BASETAG (d_tag (slot st q))) && (d_ref v =? d_ref (slot st q))) eqn:C1.
      * exfalso. repeat rewrite andb_true_iff in C1. destruct C1 as [[Hlv Hb] Hr].
        apply Z.eqb_eq in Hb. apply Z.eqb_eq in Hr. destruct (live (slot st p)) eqn:Hlp.
        -- pose proof (Hsame Hlv eq_refl) as Hk. unfold dkey in Hk. injection Hk as Hkb Hkr.
           pose proof (Icomp p Hp Hlp) as Cp. rewrite <- Hkb, <- Hkr, Hb, Hr in Cp. congruence.
        -- pose proof (Hfresh Hlv eq_refl) as Hf. rewrite Hb, Hr in Hf. congruence.
      * destruct (live (slot st p) && (BASETAG (d_tag (slot st p)) =? BASETAG (d_tag (slot st q))) &&
                  (d_ref (slot st p) =? d_ref (slot st q))) eqn:C2; auto.
        exfalso. repeat rewrite andb_true_iff in C2. destruct C2 as [[Hlp Hb] Hr].
        apply Z.eqb_eq in Hb. apply Z.eqb_eq in Hr. pose proof (Icomp p Hp Hlp) as Cp. rewrite Hb, Hr in Cp. congruence.
  - rewrite Em. split; [lia|]. intros d Hin Hl. rewrite Hslots in Hin.
    destruct (in_upd _ _ _ _ _ Hin) as [->|Hold]; auto. destruct Imax as [_ Hm]. specialize (Hm d Hold Hl). lia.
  - apply (disk_ok_eq (write_slot st p v)); [repeat split; auto|]. apply write_slot_disk; auto.
Qed.

Lemma Inv_transport : forall st st', disk_eq st st' -> m_tree st' = m_tree st -> m_maxref st' = m_maxref st ->
  Inv st -> Inv st'.
Proof.
  intros st st' Hd Et Em I. pose proof Hd as (E1 & E2 & _).
  assert (Hn : nddsn st' = nddsn st) by (unfold nddsn; rewrite E1; reflexivity).
  assert (Hs : forall p, slot st' p = slot st p) by (intros; unfold slot; rewrite E2; reflexivity).
  destruct I as [Ind Ilive Irefs Ibits Isound Icomp Imax Idisk].
  constructor; rewrite ?Hn, ?Et, ?Em, <- ?E2; auto.
  - intros b r p H. rewrite Hs. auto.
  - intros p Hp Hl. rewrite Hs in *. auto.
  - apply (disk_ok_eq st); auto.
Qed.

Lemma live_nil : live nil_dd = false.
Proof. reflexivity. Qed.

Lemma not_live_tag : forall d, live d = false -> d_tag d = DFTAG_NULL.
Proof. intros d H. unfold live in H. apply negb_false_iff in H. apply Z.eqb_eq in H. exact H. Qed.

Lemma find_null_spec : forall st st1 r, Inv st -> find_null st = (st1, r) ->
  Inv st1 /\ m_slots st1 = m_slots st /\ m_tree st1 = m_tree st /\ m_maxref st1 = m_maxref st /\
  m_cache st1 = m_cache st /\ nddsn st1 = nddsn st /\
  match r with Some p => (p < length (m_slots st))%nat /\ live (slot st p) = false | None => True end.
Proof.
  intros st st1 r I H. unfold find_null in H.
  pose proof (find_from (fun d => d_tag d =? DFTAG_NULL) (m_slots st) (match m_null st with None => 0%nat | Some p => S p end)) as Hf.
  destruct (find_fwd _ (m_slots st) 0 _) as [p|].
  - apply pair_equal_spec in H. destruct H as [<- <-]. cbn [m_slots m_tree m_maxref m_cache]. unfold nddsn. cbn [m_ndds].
    destruct Hf as (Hlt & Hf & _).
    split; [|repeat split; auto; try lia].
    + apply (Inv_transport st); auto. repeat split; reflexivity.
    + unfold live, slot. rewrite Hf. reflexivity.
  - apply pair_equal_spec in H. destruct H as [<- <-]. split; [exact I|]. repeat split; auto.
Qed.

Lemma new_block_Inv : forall st, Inv st ->
  Inv (new_dd_block st) /\ live (slot (new_dd_block st) (length (m_slots st))) = false /\
  (length (m_slots st) < length (m_slots (new_dd_block st)))%nat /\
  (forall q, (q < length (m_slots st))%nat -> slot (new_dd_block st) q = slot st q).
Proof.
  intros st I. pose proof (new_block_proj st) as (Ps & Pt & Pn & Pm & Pc & _).
  pose proof (i_nd st I) as Hn.
  assert (Hold : forall q, (q < length (m_slots st))%nat -> slot (new_dd_block st) q = slot st q).
  { intros q Hq. unfold slot. rewrite Ps. apply app_nth1. auto. }
  assert (Hnew : forall q, (length (m_slots st) <= q)%nat -> slot (new_dd_block st) q = nil_dd).
  { intros q Hq. unfold slot. rewrite Ps. rewrite app_nth2 by auto.
    destruct (Nat.lt_ge_cases (q - length (m_slots st)) (nddsn st)); [apply nth_repeat_lt; auto|].
    apply nth_overflow. rewrite repeat_length. auto. }
  assert (Hlen : length (m_slots (new_dd_block st)) = (length (m_slots st) + nddsn st)%nat)
    by (rewrite Ps, app_length, repeat_length; reflexivity).
  split; [|split; [rewrite Hnew by lia; reflexivity|split; [lia|exact Hold]]].
  destruct I as [Ind Ilive Irefs Ibits Isound Icomp Imax Idisk].
  assert (Hin : forall d, In d (m_slots (new_dd_block st)) -> In d (m_slots st) \/ d = nil_dd).
  { intros d H. rewrite Ps in H. apply in_app_or in H. destruct H as [H|H]; auto. right. eapply repeat_spec; eauto. }
  constructor; rewrite ?Pt, ?Pm.
  - unfold nddsn. rewrite Pn. exact Ind.
  - intros d H Hl. destruct (Hin d H) as [Ho| ->]; auto. discriminate.
  - intros d H. destruct (Hin d H) as [Ho| ->]; auto. unfold nil_dd, DFREF_NONE, MAX_REF; cbn [d_ref]; lia.
  - auto.
  - intros b r p H. destruct (Isound b r p H) as (Hp & Hl & Hb & Hr). rewrite Hold by auto. split; auto. lia.
  - intros p Hp Hl. destruct (Nat.lt_ge_cases p (length (m_slots st))) as [Ho|Hnw].
    + rewrite Hold in * by auto. auto.
    + rewrite Hnew in Hl by auto. discriminate.
  - split; [tauto|]. intros d H Hl. destruct (Hin d H) as [Ho| ->]; [|discriminate]. apply Imax; auto.
  - apply new_block_disk; auto.
Qed.

Lemma absl_repeat_nil : forall n, absl (repeat nil_dd n) = [].
Proof. induction n; cbn; auto. Qed.

Definition created (tag ref : Z) : dd := mkdd tag ref INVALID_OFFSET INVALID_LENGTH.

(** HTPcreate: refuses a key in use without touching anything; otherwise claims a free slot (first NIL DD from
    the cursor, or the first slot of a new block), and the directory gains exactly that entry *)
Lemma htpcreate_spec : forall st tag ref, Inv st -> uint16 tag = true ->
  BASETAG tag <> 0 -> BASETAG tag <> 1 -> BASETAG tag <> 108 -> 1 <= ref <= MAX_REF ->
  match tree_da (m_tree st) (BASETAG tag) ref with
  | Some _ => htpcreate st tag ref = (st, None)
  | None => exists st' p, htpcreate st tag ref = (st', Some p) /\ Inv st' /\ (p < length (m_slots st'))%nat /\
              slot st' p = created tag ref /\
              Permutation (abs st') (mkentry tag ref INVALID_LENGTH :: abs st) /\
              (forall q, (q < length (m_slots st))%nat -> live (slot st q) = true -> slot st' q = slot st q) /\
              (length (m_slots st) <= length (m_slots st'))%nat /\ m_cache st' = m_cache st
  end.
Proof.
  intros st tag ref I Hu H0 H1 H108 Hr.
  assert (Hok : dd_ok (created tag ref)).
  { unfold dd_ok, created. cbn [d_tag d_ref d_off d_len]. repeat split; auto; try lia. }
  pose proof (dd_ok_tag _ Hok) as (T0 & T1 & _ & R0). cbn [created d_tag d_ref] in T0, T1, R0.
  unfold htpcreate. unfold DFTAG_NULL, DFTAG_WILDCARD, DFREF_WILDCARD.
  destruct (Z.eqb_spec tag 1); [contradiction|]. destruct (Z.eqb_spec tag 0); [contradiction|].
  destruct (Z.eqb_spec ref 0); [contradiction|]. cbn [orb].
  unfold htifind_dd, DFTAG_WILDCARD. destruct (Z.eqb_spec tag 0); [contradiction|].
  destruct (Z.eqb_spec ref 0); [contradiction|]. cbn [negb andb]. rewrite find_exact_tree_da.
  destruct (tree_da (m_tree st) (BASETAG tag) ref) as [q|] eqn:Eda; [reflexivity|].
  destruct (find_null st) as [st1 found] eqn:Efn.
  destruct (find_null_spec st st1 found I Efn) as (I1 & S1 & T1' & M1 & C1 & N1 & Hfound).
  (* the state with a dead slot at position p *)
  assert (Hst2 : exists st2 p, (match found with Some p => (st1, p) | None => (new_dd_block st1, length (m_slots st1)) end) = (st2, p) /\
            Inv st2 /\ (p < length (m_slots st2))%nat /\ live (slot st2 p) = false /\ m_tree st2 = m_tree st /\
            m_maxref st2 = m_maxref st /\ m_cache st2 = m_cache st /\
            (forall q, (q < length (m_slots st))%nat -> slot st2 q = slot st q) /\
            (length (m_slots st) <= length (m_slots st2))%nat /\
            (forall q, (q < length (m_slots st))%nat -> live (slot st q) = true -> q <> p) /\
            Permutation (abs st2) (abs st)).
  { destruct found as [p|].
    - exists st1, p. destruct Hfound as [Hp Hl]. split; [reflexivity|].
      assert (Hsl : forall q, slot st1 q = slot st q) by (intros; unfold slot; rewrite S1; reflexivity).
      rewrite S1. rewrite Hsl. split; [exact I1|]. repeat split; auto.
      + intros q Hq Hlq ->. congruence.
      + unfold abs. rewrite S1. reflexivity.
    - exists (new_dd_block st1), (length (m_slots st1)). split; [reflexivity|].
      destruct (new_block_Inv st1 I1) as (I2 & Hd & Hlt & Hold).
      pose proof (new_block_proj st1) as (Ps & Pt & Pn & Pm & Pc & _).
      assert (Hsl : forall q, slot st1 q = slot st q) by (intros; unfold slot; rewrite S1; reflexivity).
      split; [exact I2|]. split; [exact Hlt|]. split; [exact Hd|]. split; [congruence|]. split; [congruence|].
      split; [congruence|].
      split; [intros q Hq; rewrite Hold by (rewrite S1; auto); apply Hsl|].
      split; [rewrite <- S1; lia|].
      split; [intros q Hq _; rewrite S1; lia|].
      unfold abs. rewrite Ps, S1. fold (absl (m_slots st ++ repeat nil_dd (nddsn st1))). rewrite absl_app.
      rewrite absl_repeat_nil, app_nil_r. reflexivity. }
  destruct Hst2 as (st2 & p & E2 & I2 & Hp & Hdead & T2 & M2 & C2 & Hold & Hlen & Hne & Habs).
  rewrite E2.
  destruct (register_spec (m_tree st2) tag ref p (i_bits st2 I2) ltac:(lia) ltac:(rewrite T2; exact Eda))
    as (tr & Ereg & Hbits & Htr).
  replace (update_dd (set_dd st2 p (mkdd tag ref INVALID_OFFSET INVALID_LENGTH)) p) with (write_slot st2 p (created tag ref)) by reflexivity.
  pose proof (write_slot_proj st2 p (created tag ref)) as (Ws & Wt & Wn & Wm & Wc & _).
  rewrite Wt, Ereg.
  set (st5 := set_tree (write_slot st2 p (created tag ref)) tr).
  set (stf := if m_maxref st5 <? ref then set_maxref st5 ref else st5).
  assert (Hproj : disk_eq (write_slot st2 p (created tag ref)) stf /\ m_tree stf = tr /\
                  m_maxref stf = Z.max (m_maxref st2) ref /\ m_cache stf = m_cache st2).
  { unfold stf, st5. unfold set_tree, set_maxref. cbn [m_maxref]. rewrite Wm.
    destruct (Z.ltb_spec (m_maxref st2) ref); cbn; (split; [repeat split; auto|]); rewrite ?Wm, ?Wc; repeat split; auto; lia. }
  destruct Hproj as (Hdeq & Etf & Emf & Ecf).
  assert (If : Inv stf).
  { apply (Inv_write st2 p (created tag ref) tr (Z.max (m_maxref st2) ref) stf); auto.
    - cbn [created d_ref]. lia.
    - intros b r. rewrite Htr. rewrite Hdead. unfold live, created. cbn [d_tag d_ref andb].
      destruct (Z.eqb_spec tag DFTAG_NULL); [contradiction|]. reflexivity.
    - intros _ _. cbn [created d_tag d_ref]. rewrite T2. exact Eda.
    - intros _ Hl. congruence.
    - intros _. cbn [created d_ref]. lia.
    - pose proof (i_maxref st2 I2) as [Hb _]. lia. }
  exists stf, p. split; [reflexivity|]. split; [exact If|].
  assert (Hsf : m_slots stf = upd (m_slots st2) p (created tag ref)) by (destruct Hdeq as (_ & E & _); congruence).
  split; [rewrite Hsf, upd_length; exact Hp|]. split; [unfold slot; rewrite Hsf; apply nth_upd_same; exact Hp|].
  split; [|split; [|split]].
  - unfold abs. rewrite Hsf. destruct (abs_upd_frame (m_slots st2) p Hp) as (R & HR).
    fold (absl (upd (m_slots st2) p (created tag ref))). rewrite (HR (created tag ref)).
    pose proof (HR (slot st2 p)) as H2. unfold slot in H2 at 1. rewrite upd_same in H2.
    unfold optl in *. rewrite Hdead in H2. cbn [app] in H2.
    replace (live (created tag ref)) with true
      by (unfold live, created; cbn [d_tag]; destruct (Z.eqb_spec tag DFTAG_NULL); [contradiction|reflexivity]).
    cbn [app]. change (entry_of (created tag ref)) with (mkentry tag ref INVALID_LENGTH). apply perm_skip.
    apply (Permutation_trans (Permutation_sym H2)). exact Habs.
  - intros q Hq Hl. unfold slot at 1. rewrite Hsf. rewrite nth_upd_other by (intros E; apply (Hne q Hq Hl); auto).
    apply Hold. auto.
  - rewrite Hsf, upd_length. exact Hlen.
  - congruence.
Qed.

(** HTPupdate: same key, new offset/length *)
Lemma htpupdate_spec : forall st p off len, Inv st -> (p < length (m_slots st))%nat -> live (slot st p) = true ->
  ((off = INVALID_OFFSET /\ len = INVALID_LENGTH) \/ (off = VALID_OFFSET /\ 1 <= len)) ->
  let v := mkdd (d_tag (slot st p)) (d_ref (slot st p)) off len in
  let st' := htpupdate st p off len in
  Inv st' /\ m_slots st' = upd (m_slots st) p v /\ m_cache st' = m_cache st /\ m_maxref st' = m_maxref st.
Proof.
  intros st p off len I Hp Hl Hol v st'.
  assert (Est : st' = write_slot st p v).
  { unfold st', htpupdate, v. unfold INVALID_OFFSET, INVALID_LENGTH, VALID_OFFSET in Hol.
    destruct (Z.eqb_spec len (-2)); [lia|]. destruct (Z.eqb_spec off (-2)); [lia|]. reflexivity. }
  pose proof (write_slot_proj st p v) as (Ws & Wt & Wn & Wm & Wc & _).
  rewrite Est. split; [|auto].
  assert (Hlv : live v = true) by exact Hl.
  pose proof (i_live st I _ (slot_in st p Hp) Hl) as (Hu & H0 & H1 & H108 & Hr & _).
  apply (Inv_write st p v (m_tree st) (m_maxref st) (write_slot st p v)); auto.
  - intros _. unfold dd_ok, v. cbn [d_tag d_ref d_off d_len]. repeat split; auto; try lia.
  - unfold v. cbn [d_ref]. lia.
  - apply (i_bits st I).
  - intros b r. rewrite Hlv, Hl. unfold v. cbn [d_tag d_ref andb].
    destruct ((BASETAG (d_tag (slot st p)) =? b) && (d_ref (slot st p) =? r)) eqn:C; auto.
    apply andb_true_iff in C. destruct C as [Cb Cr]. apply Z.eqb_eq in Cb. apply Z.eqb_eq in Cr. subst b r.
    apply (i_complete st I); auto.
  - intros _ C. congruence.
  - intros _. unfold v. cbn [d_ref]. destruct (i_maxref st I) as [_ Hm]. apply Hm; auto. apply slot_in; auto.
  - pose proof (i_maxref st I). lia.
  - repeat split; reflexivity.
Qed.

Lemma hd_step1 : forall p st, htpdelete_step p (Some st) 1 = Some (update_dd st p).
Proof. reflexivity. Qed.
Lemma hd_step2 : forall p st, htpdelete_step p (Some st) 2 =
  match unregister_tag_ref (m_tree st) (d_tag (slot st p)) (d_ref (slot st p)) with
  | None => None
  | Some tr => let d := slot st p in Some (set_dd (set_tree st tr) p (mkdd DFTAG_NULL (d_ref d) (d_off d) (d_len d)))
  end.
Proof. reflexivity. Qed.
Lemma hd_step3 : forall p st, htpdelete_step p (Some st) 3 = Some st.
Proof. reflexivity. Qed.

(** HTPdelete (steps in the generated order: unregister, then update the disk) *)
Lemma htpdelete_spec : forall st p, Inv st -> (p < length (m_slots st))%nat -> live (slot st p) = true ->
  exists st', htpdelete st p = Some st' /\ Inv st' /\
    m_slots st' = upd (m_slots st) p (mkdd DFTAG_NULL (d_ref (slot st p)) (d_off (slot st p)) (d_len (slot st p))) /\
    m_cache st' = m_cache st.
Proof.
  intros st p I Hp Hl. unfold htpdelete, HTPdelete_calls. cbn [fold_left htpdelete_step].
  change (0 =? 1) with false. change (0 =? 2) with false. change (2 =? 1) with false. change (2 =? 2) with true.
  change (1 =? 1) with true. change (3 =? 1) with false. change (3 =? 2) with false. cbv iota.
  set (st0 := set_null st None).
  assert (I0 : Inv st0) by (apply (Inv_transport st); auto; repeat split; reflexivity).
  assert (Hs0 : forall q, slot st0 q = slot st q) by reflexivity.
  pose proof (i_live st I _ (slot_in st p Hp) Hl) as (Hu & H0 & H1 & H108 & Hr & _).
  destruct (unregister_spec (m_tree st0) (d_tag (slot st0 p)) (d_ref (slot st0 p)) p (i_bits st0 I0) ltac:(rewrite Hs0; lia)
              (i_complete st0 I0 p Hp Hl)) as (tr & Eun & Hbits & Htr).
  rewrite hd_step2, Eun, hd_step1, hd_step3.
  set (v := mkdd DFTAG_NULL (d_ref (slot st p)) (d_off (slot st p)) (d_len (slot st p))).
  cbv zeta. change (slot st0 p) with (slot st p) in *. fold v.
  replace (update_dd (set_dd (set_tree st0 tr) p v) p) with (write_slot (set_tree st0 tr) p v) by reflexivity.
  eexists. split; [reflexivity|].
  pose proof (write_slot_proj (set_tree st0 tr) p v) as (Ws & Wt & Wn & Wm & Wc & _).
  pose proof (write_slot_proj st0 p v) as (Ws0 & Wt0 & Wn0 & Wm0 & Wc0 & _).
  split; [|split; [exact Ws|exact Wc]].
  apply (Inv_write st0 p v tr (m_maxref st0) (write_slot (set_tree st0 tr) p v)); auto.
  - intros C. discriminate.
  - unfold v. cbn [d_ref]. lia.
  - intros b r. rewrite Htr. change (live v) with false. cbn [andb]. change (slot st0 p) with (slot st p). rewrite Hl. cbn [andb]. reflexivity.
  - intros C. discriminate.
  - intros C. discriminate.
  - intros C. discriminate.
  - pose proof (i_maxref st0 I0). lia.
  - unfold write_slot, update_dd, set_dd, set_slots, set_tree, disk_eq. cbn [m_cache]. destruct (m_cache st0); cbn; auto 10.
Qed.

(* ------------------------------------------------------------------------------------------ *)
(** * The specification side: lookups in a key-distinct list *)

Lemma key_eq_ekey : forall t r e, key_eq t r e = true <-> ekey e = (BASETAG t, r).
Proof.
  intros t r e. unfold key_eq, ekey. rewrite andb_true_iff, !Z.eqb_eq. split.
  - intros [-> ->]. reflexivity.
  - intros H. injection H as -> ->. auto.
Qed.

Lemma find_unique : forall l t r e, NoDup (map ekey l) -> In e l -> key_eq t r e = true ->
  find (key_eq t r) l = Some e.
Proof.
  induction l as [|x l IH]; intros t r e Hnd Hin Hk; [contradiction|]. cbn [find].
  cbn [map] in Hnd. apply NoDup_cons_iff in Hnd. destruct Hnd as [Hnot Hnd].
  destruct (key_eq t r x) eqn:Ex.
  - destruct Hin as [->|Hin]; auto. exfalso. apply Hnot.
    apply key_eq_ekey in Ex. apply key_eq_ekey in Hk. rewrite Ex, <- Hk. apply in_map. exact Hin.
  - destruct Hin as [->|Hin]; [congruence|]. apply IH; auto.
Qed.

Lemma perm_nodup_keys : forall a b, Permutation a b -> NoDup (map ekey a) -> NoDup (map ekey b).
Proof. intros a b H. apply Permutation_NoDup. apply Permutation_map. exact H. Qed.

Lemma in_abs : forall st e, In e (abs st) <->
  exists p, (p < length (m_slots st))%nat /\ live (slot st p) = true /\ e = entry_of (slot st p).
Proof.
  intros st e. unfold abs. rewrite in_map_iff. split.
  - intros (d & <- & Hd). apply filter_In in Hd. destruct Hd as [Hin Hl].
    destruct (in_slot st d Hin) as (p & Hp & <-). exists p. auto.
  - intros (p & Hp & Hl & ->). exists (slot st p). split; auto. apply filter_In. split; auto. apply slot_in. auto.
Qed.

Lemma lookup_agree : forall st s t r, Inv st -> Permutation (abs st) s ->
  s_lookup s t r = match tree_da (m_tree st) (BASETAG t) r with
                   | Some p => Some (entry_of (slot st p))
                   | None => None
                   end.
Proof.
  intros st s t r I Hp. unfold s_lookup.
  pose proof (perm_nodup_keys _ _ Hp (Inv_nodup st I)) as Hnd.
  destruct (tree_da (m_tree st) (BASETAG t) r) as [p|] eqn:E.
  - destruct (i_sound st I _ _ _ E) as (Hlt & Hl & Hb & Hr).
    apply find_unique; auto.
    + apply (Permutation_in _ Hp). apply in_abs. exists p. auto.
    + apply key_eq_ekey. unfold ekey, entry_of. cbn [e_tag e_ref]. rewrite Hb, Hr. reflexivity.
  - destruct (find (key_eq t r) s) as [e|] eqn:Ef; auto. exfalso.
    apply find_some in Ef. destruct Ef as [Hin Hk].
    apply (Permutation_in _ (Permutation_sym Hp)) in Hin. apply in_abs in Hin. destruct Hin as (p & Hlt & Hl & ->).
    apply key_eq_ekey in Hk. unfold ekey, entry_of in Hk. cbn [e_tag e_ref] in Hk. injection Hk as Hb Hr.
    pose proof (i_complete st I p Hlt Hl) as C. rewrite Hb, Hr in C. congruence.
Qed.

(** entries other than the one with a given key, in a key-distinct list split as x :: R *)
Lemma others_not_key : forall x R t r, NoDup (map ekey (x :: R)) -> key_eq t r x = true ->
  forall y, In y R -> key_eq t r y = false.
Proof.
  intros x R t r Hnd Hk y Hy. cbn [map] in Hnd. apply NoDup_cons_iff in Hnd. destruct Hnd as [Hnot _].
  destruct (key_eq t r y) eqn:Ey; auto. exfalso. apply Hnot.
  apply key_eq_ekey in Hk. apply key_eq_ekey in Ey. rewrite Hk, <- Ey. apply in_map. exact Hy.
Qed.

Lemma remove_frame : forall s x R t r, Permutation s (x :: R) -> NoDup (map ekey s) -> key_eq t r x = true ->
  Permutation (s_remove s t r) R.
Proof.
  intros s x R t r Hp Hnd Hk. unfold s_remove.
  assert (Hf : Permutation (filter (fun e => negb (key_eq t r e)) s) (filter (fun e => negb (key_eq t r e)) (x :: R))).
  { clear Hnd. induction Hp; cbn [filter]; auto.
    - destruct (negb (key_eq t r x0)); auto.
    - destruct (negb (key_eq t r x0)), (negb (key_eq t r y)); auto. apply perm_swap.
    - eapply Permutation_trans; eauto. }
  eapply Permutation_trans; [exact Hf|]. cbn [filter]. rewrite Hk. cbn [negb].
  pose proof (others_not_key x R t r (perm_nodup_keys _ _ Hp Hnd) Hk) as Ho.
  replace (filter (fun e => negb (key_eq t r e)) R) with R; auto.
  clear -Ho. induction R as [|y R IH]; auto. cbn [filter]. rewrite (Ho y (or_introl eq_refl)). cbn [negb].
  f_equal. apply IH. intros z Hz. apply Ho. right. exact Hz.
Qed.

Lemma setlen_frame : forall s x R t r l, Permutation s (x :: R) -> NoDup (map ekey s) -> key_eq t r x = true ->
  Permutation (s_setlen s t r l) (mkentry (e_tag x) (e_ref x) l :: R).
Proof.
  intros s x R t r l Hp Hnd Hk. unfold s_setlen.
  eapply Permutation_trans; [apply Permutation_map; exact Hp|]. cbn [map]. rewrite Hk. apply perm_skip.
  pose proof (others_not_key x R t r (perm_nodup_keys _ _ Hp Hnd) Hk) as Ho.
  replace (map (fun e => if key_eq t r e then mkentry (e_tag e) (e_ref e) l else e) R) with R; auto.
  clear -Ho. induction R as [|y R IH]; auto. cbn [map]. rewrite (Ho y (or_introl eq_refl)).
  f_equal. apply IH. intros z Hz. apply Ho. right. exact Hz.
Qed.

(* ------------------------------------------------------------------------------------------ *)
(** * The H-level operations of the model *)

Lemma hfind_exact : forall st t r dir, t <> 0 -> r <> 0 ->
  hfind st t r 0 0 dir = tree_da (m_tree st) (BASETAG t) r.
Proof.
  intros st t r dir Ht Hr. unfold hfind. cbn [Z.eqb negb orb]. unfold htifind_dd, DFTAG_WILDCARD.
  destruct (Z.eqb_spec t 0); [contradiction|]. destruct (Z.eqb_spec r 0); [contradiction|]. reflexivity.
Qed.

Lemma htpselect_tree : forall st t r, t <> 0 -> t <> 1 -> r <> 0 ->
  htpselect st t r = tree_da (m_tree st) (BASETAG t) r.
Proof.
  intros st t r H0 H1 Hr. unfold htpselect, DFTAG_NULL, DFTAG_WILDCARD, DFREF_WILDCARD.
  destruct (Z.eqb_spec t 1); [contradiction|]. destruct (Z.eqb_spec t 0); [contradiction|].
  destruct (Z.eqb_spec r 0); [contradiction|]. reflexivity.
Qed.

Lemma select_live : forall st p, Inv st -> (p < length (m_slots st))%nat -> live (slot st p) = true ->
  htpselect st (d_tag (slot st p)) (d_ref (slot st p)) = Some p.
Proof.
  intros st p I Hp Hl. pose proof (dd_ok_tag _ (i_live st I _ (slot_in st p Hp) Hl)) as (T0 & T1 & _ & R0).
  rewrite htpselect_tree by auto. apply (i_complete st I); auto.
Qed.

Lemma maxref_bump_id : forall st p, Inv st -> (p < length (m_slots st))%nat -> live (slot st p) = true ->
  (if m_maxref st <? d_ref (slot st p) then set_maxref st (d_ref (slot st p)) else st) = st.
Proof.
  intros st p I Hp Hl. destruct (i_maxref st I) as [_ Hm]. specialize (Hm _ (slot_in st p Hp) Hl).
  destruct (Z.ltb_spec (m_maxref st) (d_ref (slot st p))); [lia|reflexivity].
Qed.

Lemma frame_at : forall st p, (p < length (m_slots st))%nat ->
  exists R, Permutation (abs st) (optl (slot st p) ++ R) /\
            forall st' v, m_slots st' = upd (m_slots st) p v -> Permutation (abs st') (optl v ++ R).
Proof.
  intros st p Hp. destruct (abs_upd_frame (m_slots st) p Hp) as (R & HR). exists R. split.
  - pose proof (HR (slot st p)) as H. unfold slot in H at 1. rewrite upd_same in H. exact H.
  - intros st' v Hs. unfold abs. rewrite Hs. apply HR.
Qed.

Lemma live_mk : forall t r o l, t <> 1 -> live (mkdd t r o l) = true.
Proof. intros. unfold live, DFTAG_NULL. cbn [d_tag]. destruct (Z.eqb_spec t 1); [contradiction|reflexivity]. Qed.

(** Hputelement of a new element *)
Lemma hput_new : forall st t r l, Inv st -> uint16 t = true -> BASETAG t = t ->
  t <> 0 -> t <> 1 -> t <> 108 -> 1 <= r <= MAX_REF -> 1 <= l ->
  tree_da (m_tree st) (BASETAG t) r = None ->
  exists st', hputelement st t r l = (st', ROk) /\ Inv st' /\ Permutation (abs st') (mkentry t r l :: abs st) /\
              m_cache st' = m_cache st.
Proof.
  intros st t r l I Hu Hb T0 T1 T108 Hr Hl Hnone. unfold hputelement. cbv zeta. rewrite Hb. rewrite Hb in Hnone.
  rewrite hfind_exact by lia. rewrite Hb, Hnone. rewrite htpselect_tree by lia. rewrite Hb, Hnone.
  pose proof (htpcreate_spec st t r I Hu ltac:(rewrite Hb; auto) ltac:(rewrite Hb; auto) ltac:(rewrite Hb; auto) Hr) as Hc.
  rewrite Hb, Hnone in Hc. destruct Hc as (st1 & p & Ec & I1 & Hp & Hslot & Habs & _ & _ & Hc1).
  rewrite Ec.
  assert (Hlive : live (slot st1 p) = true).
  { rewrite Hslot. unfold live, created. cbn [d_tag]. destruct (Z.eqb_spec t DFTAG_NULL); [contradiction|reflexivity]. }
  assert (Hbump : (if m_maxref st1 <? r then set_maxref st1 r else st1) = st1).
  { pose proof (maxref_bump_id st1 p I1 Hp Hlive) as H. rewrite Hslot in H. exact H. }
  rewrite Hbump.
  destruct (htpupdate_spec st1 p VALID_OFFSET l I1 Hp Hlive ltac:(right; auto)) as (I2 & Hs2 & Hc2 & _).
  eexists. split; [reflexivity|]. split; [exact I2|]. split; [|congruence].
  destruct (frame_at st1 p Hp) as (R & H1 & H2). rewrite Hslot in *. cbn [created d_tag d_ref] in Hs2.
  specialize (H2 _ _ Hs2). unfold optl in *.
  rewrite Hlive in H1. rewrite live_mk in H2 by auto.
  cbn [app] in *. unfold entry_of, created in *. cbn [d_tag d_ref d_len] in *.
  eapply Permutation_trans; [exact H2|]. apply perm_skip.
  apply (Permutation_cons_inv (a := mkentry t r INVALID_LENGTH)).
  eapply Permutation_trans; [apply Permutation_sym; exact H1|exact Habs].
Qed.

(* ------------------------------------------------------------------------------------------ *)
(** * Flushing and re-reading the DD blocks *)

Lemma nth_skipn_gen : forall A (l : list A) a k d, nth k (skipn a l) d = nth (a + k) l d.
Proof. induction l as [|x l IH]; intros [|a] k d; simpl; auto. destruct k; reflexivity. Qed.

Lemma nth_firstn_lt : forall A (l : list A) n i d, (i < n)%nat -> nth i (firstn n l) d = nth i l d.
Proof.
  induction l as [|x l IH]; intros n i d H; [rewrite firstn_nil; reflexivity|].
  destruct n; [lia|]. destruct i; cbn; auto. apply IH. lia.
Qed.

Lemma sync_image : forall n, (0 < n)%nat -> forall m k nblk dirty slots dhdr dslots,
  length dirty = m -> length dhdr = m -> (k + m = nblk)%nat ->
  length slots = (m * n)%nat -> length dslots = (m * n)%nat ->
  (forall q, (q < m * n)%nat -> nth (q / n) dirty true = false -> nth q dslots None = Some (nth q slots nil_dd)) ->
  (forall j, (j < m)%nat -> nth j dirty true = false -> nth j dhdr None = Some (negb (S (k + j) =? nblk)%nat)) ->
  sync_blocks n k nblk dirty slots dhdr dslots = (image_hdrs k m nblk, map Some slots).
Proof.
  intros n Hn. induction m as [|m IH]; intros k nblk dirty slots dhdr dslots Hd Hh Hk Hs Hds Hcd Hch.
  - destruct dirty; [|simpl in Hd; lia]. destruct slots; [|simpl in Hs; lia]. reflexivity.
  - destruct dirty as [|dty dirty]; [simpl in Hd; lia|]. destruct dhdr as [|h dhdr]; [simpl in Hh; lia|].
    cbn [sync_blocks].
    rewrite (IH (S k) nblk dirty (skipn n slots) dhdr (skipn n dslots)); try (simpl in *; lia);
      try (rewrite skipn_length; lia).
    + unfold image_hdrs. change (seq k (S m)) with (k :: seq (S k) m). cbn [map].
      assert (Hcat : map Some (firstn n slots) ++ map Some (skipn n slots) = map Some slots)
        by (rewrite <- map_app, firstn_skipn; reflexivity).
      destruct dty.
      * rewrite Hcat. reflexivity.
      * pose proof (Hch 0%nat ltac:(lia) eq_refl) as Hh0. cbn [nth] in Hh0. rewrite Hh0.
        rewrite Nat.add_0_r. f_equal. rewrite <- Hcat. f_equal.
        apply (nth_ext _ _ None None).
        -- rewrite map_length, !firstn_length. lia.
        -- intros i Hi. rewrite firstn_length in Hi.
           assert (Hin : (i < n)%nat) by lia. rewrite nth_firstn_lt by auto.
           rewrite Hcd; [|lia|rewrite Nat.div_small by auto; reflexivity].
           rewrite (nth_indep _ None (Some nil_dd)) by (rewrite map_length, firstn_length; lia).
           rewrite map_nth. rewrite nth_firstn_lt by auto. reflexivity.
    + intros q Hq Hc. rewrite !nth_skipn_gen. apply Hcd; [lia|].
      replace ((n + q) / n)%nat with (S (q / n)).
      * exact Hc.
      * replace (n + q)%nat with (q + 1 * n)%nat by lia. rewrite Nat.div_add by lia. lia.
    + intros j Hj Hc. replace (S k + j)%nat with (k + S j)%nat by lia. apply (Hch (S j)); [lia|exact Hc].
Qed.

Lemma all_clean_image : forall st, (0 < nddsn st)%nat -> disk_ok st ->
  (forall k, (k < length (m_bdirty st))%nat -> nth k (m_bdirty st) true = false) ->
  m_dhdr st = image_hdrs 0 (length (m_bdirty st)) (length (m_bdirty st)) /\ m_dslots st = map Some (m_slots st).
Proof.
  intros st Hn [K1 K2 K3 K4 K5 K6 K7 K8] Hclean. split.
  - apply (nth_ext _ _ None None).
    + unfold image_hdrs. rewrite map_length, seq_length. exact K3.
    + intros k Hk. rewrite K3 in Hk. rewrite K6 by auto. unfold image_hdrs.
      set (f := fun k0 => Some (negb (S k0 =? length (m_bdirty st))%nat)).
      rewrite (nth_indep _ None (f 0%nat)) by (rewrite map_length, seq_length; auto).
      rewrite (map_nth f). rewrite seq_nth by auto. reflexivity.
  - apply (nth_ext _ _ None None).
    + rewrite map_length. lia.
    + intros q Hq. rewrite K4 in Hq. rewrite K5; [| lia | apply Hclean; apply div_lt_blocks; auto].
      rewrite (nth_indep _ None (Some nil_dd)) by (rewrite map_length; lia). rewrite map_nth. reflexivity.
Qed.

Lemma Inv_new_disk : forall st st', m_ndds st' = m_ndds st -> m_slots st' = m_slots st ->
  m_tree st' = m_tree st -> m_maxref st' = m_maxref st -> disk_ok st' -> Inv st -> Inv st'.
Proof.
  intros st st' E1 E2 Et Em Hd I.
  assert (Hn : nddsn st' = nddsn st) by (unfold nddsn; rewrite E1; reflexivity).
  assert (Hs : forall p, slot st' p = slot st p) by (intros; unfold slot; rewrite E2; reflexivity).
  destruct I as [Ind Ilive Irefs Ibits Isound Icomp Imax Idisk].
  constructor; rewrite ?Hn, ?Et, ?Em, ?E2; auto.
  - intros b r p H. rewrite Hs. auto.
  - intros p Hp Hl. rewrite Hs in *. auto.
Qed.

Definition all_clean (st : mst) : Prop :=
  forall k, (k < length (m_bdirty st))%nat -> nth k (m_bdirty st) true = false.

Lemma nth_map_false : forall (l : list bool) k, (k < length l)%nat -> nth k (map (fun _ => false) l) true = false.
Proof. induction l as [|x l IH]; intros [|k] H; simpl in *; try lia; auto. apply IH. lia. Qed.

Lemma hisync_spec : forall st, Inv st ->
  Inv (hisync st) /\ m_slots (hisync st) = m_slots st /\ m_tree (hisync st) = m_tree st /\
  m_maxref (hisync st) = m_maxref st /\ m_cache (hisync st) = m_cache st /\ m_ndds (hisync st) = m_ndds st /\
  all_clean (hisync st).
Proof.
  intros st I. pose proof (i_nd st I) as Hn. pose proof (i_disk st I) as D. destruct D as [K1 K2 K3 K4 K5 K6 K7 K8].
  unfold hisync. destruct (m_cache st && m_fdirty st) eqn:Ec.
  - unfold htpsync.
    rewrite (sync_image (nddsn st) Hn (length (m_bdirty st)) 0 (length (m_bdirty st)) (m_bdirty st) (m_slots st)
               (m_dhdr st) (m_dslots st)); auto.
    + cbn [m_ndds m_slots m_bdirty m_dhdr m_dslots m_tree m_null m_maxref m_cache].
      set (st1 := mkst _ _ _ _ _ _ _ _ _ _).
      assert (Hclean : all_clean st1).
      { intros k Hk. unfold st1 in *. cbn [m_bdirty] in *. rewrite map_length in Hk. apply nth_map_false. auto. }
      split; [|repeat split; auto].
      apply (Inv_new_disk st); auto.
      constructor.
      all: unfold st1, nddsn; cbn [m_ndds m_slots m_bdirty m_dhdr m_dslots m_cache m_fdirty]; fold (nddsn st);
        rewrite ?map_length.
      * exact K1.
      * exact K2.
      * unfold image_hdrs. rewrite map_length, seq_length. reflexivity.
      * lia.
      * intros q Hq _. rewrite (nth_indep _ None (Some nil_dd)) by (rewrite map_length; lia). rewrite map_nth. reflexivity.
      * intros k Hk _. unfold image_hdrs. set (f := fun k0 => Some (negb (S k0 =? length (m_bdirty st))%nat)).
        rewrite (nth_indep _ None (f 0%nat)) by (rewrite map_length, seq_length; auto).
        rewrite (map_nth f). rewrite seq_nth by auto. reflexivity.
      * intros _ k Hk. apply nth_map_false. auto.
      * intros _ k Hk. apply nth_map_false. auto.
    + intros q Hq. apply K5. lia.
  - split; [exact I|]. repeat split; auto. intros k Hk.
    apply andb_false_iff in Ec. destruct Ec as [Ec|Ec]; [apply K7|apply K8]; auto.
Qed.

Lemma skipn_cons_nth : forall (l : list dd) p d l', skipn p l = d :: l' ->
  (p < length l)%nat /\ nth p l nil_dd = d /\ skipn (S p) l = l'.
Proof.
  induction l as [|x l IH]; intros p d l' H.
  - rewrite skipn_nil in H. discriminate.
  - destruct p.
    + cbn in H. injection H as -> ->. cbn. repeat split; auto. lia.
    + cbn [skipn] in H. destruct (IH p d l' H) as (H1 & H2 & H3). cbn [length nth]. repeat split; auto. lia.
Qed.

Lemma register_all_spec : forall slots,
  (forall d, In d slots -> live d = true -> 1 <= d_ref d) ->
  (forall i j, (i < length slots)%nat -> (j < length slots)%nat ->
     live (nth i slots nil_dd) = true -> live (nth j slots nil_dd) = true ->
     dkey (nth i slots nil_dd) = dkey (nth j slots nil_dd) -> i = j) ->
  forall l p tree, skipn p slots = l -> (p <= length slots)%nat -> bits_ok tree ->
    (forall b r q, tree_da tree b r = Some q <->
       (q < p)%nat /\ live (nth q slots nil_dd) = true /\ dkey (nth q slots nil_dd) = (b, r)) ->
    exists tr, register_all tree l p = Some tr /\ bits_ok tr /\
      (forall b r q, tree_da tr b r = Some q <->
         (q < length slots)%nat /\ live (nth q slots nil_dd) = true /\ dkey (nth q slots nil_dd) = (b, r)).
Proof.
  intros slots Href Huniq. induction l as [|d l IH]; intros p tree Hsk Hp Hbits Hiff.
  - assert (p = length slots).
    { destruct (Nat.eq_dec p (length slots)); auto. exfalso.
      assert (Hl : length (skipn p slots) = (length slots - p)%nat) by apply skipn_length. rewrite Hsk in Hl. simpl in Hl. lia. }
    subst p. exists tree. split; [reflexivity|]. split; auto.
  - destruct (skipn_cons_nth _ _ _ _ Hsk) as (Hlt & Hd & Hsk').
    cbn [register_all]. destruct (Z.eqb_spec (d_tag d) DFTAG_NULL) as [Hnull|Hnn].
    + apply (IH (S p) tree); auto. intros b r q. rewrite Hiff. split.
      * intros (H1 & H2 & H3). split; [lia|auto].
      * intros (H1 & H2 & H3). split; [|auto]. destruct (Nat.eq_dec q p) as [->|]; [|lia].
        rewrite Hd in H2. unfold live in H2. rewrite Hnull in H2. discriminate.
    + assert (Hlive : live (nth p slots nil_dd) = true).
      { rewrite Hd. unfold live. destruct (Z.eqb_spec (d_tag d) DFTAG_NULL); [contradiction|reflexivity]. }
      assert (Hr1 : 1 <= d_ref d). { apply Href; [rewrite <- Hd; apply nth_In; auto|rewrite <- Hd; auto]. }
      assert (Hnone : tree_da tree (BASETAG (d_tag d)) (d_ref d) = None).
      { destruct (tree_da tree (BASETAG (d_tag d)) (d_ref d)) as [q|] eqn:E; auto. exfalso.
        apply Hiff in E. destruct E as (Hq & Hlq & Hkq).
        assert (q = p); [|lia]. apply Huniq; auto; try lia. rewrite Hkq, Hd. reflexivity. }
      destruct (register_spec tree (d_tag d) (d_ref d) p Hbits Hr1 Hnone) as (tr1 & Ereg & Hbits1 & Htr1).
      rewrite Ereg. apply (IH (S p) tr1); auto. intros b r q. rewrite Htr1.
      destruct ((BASETAG (d_tag d) =? b) && (d_ref d =? r)) eqn:C.
      * apply andb_true_iff in C. destruct C as [Cb Cr]. apply Z.eqb_eq in Cb. apply Z.eqb_eq in Cr. split.
        -- intros E. injection E as <-. split; [lia|]. split; auto. rewrite Hd. unfold dkey. congruence.
        -- intros (H1 & H2 & H3). f_equal. apply Huniq; auto; try lia. rewrite H3, Hd. unfold dkey. congruence.
      * rewrite Hiff. split.
        -- intros (H1 & H2 & H3). split; [lia|auto].
        -- intros (H1 & H2 & H3). split; [|auto]. destruct (Nat.eq_dec q p) as [->|]; [|lia]. exfalso.
           rewrite Hd in H3. unfold dkey in H3. injection H3 as <- <-. rewrite !Z.eqb_refl in C. discriminate.
Qed.

Lemma fold_max_spec : forall (l : list dd) a M, (forall d, In d l -> 0 <= d_ref d <= M) -> 0 <= a <= M ->
  let m := fold_left (fun a d => Z.max a (d_ref d)) l a in
  a <= m <= M /\ forall d, In d l -> d_ref d <= m.
Proof.
  induction l as [|x l IH]; intros a M Hl Ha; cbn [fold_left].
  - split; [lia|]. intros d [].
  - assert (Hx : 0 <= d_ref x <= M) by (apply Hl; left; auto).
    destruct (IH (Z.max a (d_ref x)) M) as [H1 H2]; [intros; apply Hl; right; auto|lia|].
    split; [lia|]. intros d [<-|Hd]; [lia|auto].
Qed.

(** Hclose followed by Hopen: whatever the cache mode and the dirty flags, the DD blocks read back are the
    table in memory, and the rebuilt tag tree satisfies the invariant again *)
Lemma hreopen_spec : forall st, Inv st ->
  exists st', hreopen st = Some st' /\ Inv st' /\ m_slots st' = m_slots st /\ m_cache st' = true.
Proof.
  intros st I. destruct (hisync_spec st I) as (I1 & S1 & T1 & M1 & C1 & N1 & Hclean).
  unfold hreopen. set (st1 := hisync st) in *. clearbody st1.
  pose proof (i_nd st1 I1) as Hn. pose proof (i_disk st1 I1) as D.
  destruct (all_clean_image st1 Hn D Hclean) as (Eh & Ed).
  destruct D as [K1 K2 K3 K4 K5 K6 K7 K8].
  unfold htpstart. rewrite Eh, Ed.
  destruct (length (m_bdirty st1)) as [|m] eqn:Enb; [lia|].
  rewrite (read_image (nddsn st1) m 0 (S m) (m_slots st1)) by lia.
  assert (Huniq := Inv_unique st1 I1).
  destruct (register_all_spec (m_slots st1)
              (fun d Hin Hl => proj1 (proj1 (proj2 (proj2 (proj2 (proj2 (i_live st1 I1 d Hin Hl)))))))
              Huniq (m_slots st1) 0%nat [] eq_refl ltac:(lia)) as (tr & Ereg & Hbits & Htr).
  { intros b ti H. discriminate. }
  { intros b r q. unfold tree_da. cbn [tt_find]. split; [discriminate|intros (H & _); lia]. }
  rewrite Ereg. eexists. split; [reflexivity|].
  cbn [m_slots m_cache]. split; [|split; [congruence|reflexivity]].
  pose proof (fold_max_spec (m_slots st1) 0 MAX_REF (i_refs st1 I1) ltac:(unfold MAX_REF; lia)) as (Hm1 & Hm2).
  set (mx := fold_left (fun a d => Z.max a (d_ref d)) (m_slots st1) 0) in *.
  destruct I1 as [Ind Ilive Irefs Ibits Isound Icomp Imax Idisk].
  constructor; unfold slot, nddsn; cbn [m_ndds m_slots m_tree m_maxref]; fold (nddsn st1).
  - exact Ind.
  - exact Ilive.
  - exact Irefs.
  - exact Hbits.
  - intros b r p H. apply Htr in H. destruct H as (Hp & Hl & Hk). unfold dkey in Hk. injection Hk as Hb Hr. auto.
  - intros p Hp Hl. apply Htr. auto.
  - split; [lia|]. intros d Hin _. apply Hm2. auto.
  - constructor; unfold nddsn; cbn [m_ndds m_slots m_bdirty m_dhdr m_dslots m_cache m_fdirty]; fold (nddsn st1);
      rewrite ?repeat_length.
    + lia.
    + exact K2.
    + rewrite firstn_length. unfold image_hdrs. rewrite map_length, seq_length. lia.
    + rewrite firstn_length, map_length. lia.
    + intros q Hq _. rewrite firstn_all2 by (rewrite map_length; lia).
      rewrite (nth_indep _ None (Some nil_dd)) by (rewrite map_length; lia). rewrite map_nth. reflexivity.
    + intros k Hk _. rewrite firstn_all2 by (unfold image_hdrs; rewrite map_length, seq_length; lia).
      unfold image_hdrs. set (f := fun k0 => Some (negb (S k0 =? S m)%nat)).
      rewrite (nth_indep _ None (f 0%nat)) by (rewrite map_length, seq_length; auto).
      rewrite (map_nth f). rewrite seq_nth by auto. reflexivity.
    + intros C. discriminate.
    + intros _ k Hk. apply nth_repeat_lt. auto.
Qed.

(* ------------------------------------------------------------------------------------------ *)
(** * Initial state, cache switches, reference allocation *)

Lemma htpinit_Inv : forall n, 0 <= n -> Inv (htpinit n) /\ abs (htpinit n) = [] /\ m_tree (htpinit n) = [] /\
  m_cache (htpinit n) = true.
Proof.
  intros n Hn. unfold htpinit.
  set (nn := if n =? 0 then DEF_NDDS else if n <? MIN_NDDS then MIN_NDDS else n).
  assert (Hnn : 0 < nn).
  { unfold nn, DEF_NDDS, MIN_NDDS. destruct (Z.eqb_spec n 0); [lia|]. destruct (Z.ltb_spec n 4); lia. }
  assert (Hin : forall d, In d (repeat nil_dd (Z.to_nat nn)) -> d = nil_dd) by (intros d H; eapply repeat_spec; eauto).
  split; [|split; [|split; reflexivity]].
  - constructor; unfold slot, nddsn; cbn [m_ndds m_slots m_tree m_maxref].
    + lia.
    + intros d H Hl. rewrite (Hin d H) in Hl. discriminate.
    + intros d H. rewrite (Hin d H). unfold nil_dd, DFREF_NONE, MAX_REF. cbn [d_ref]. lia.
    + intros b ti H. discriminate.
    + intros b r p H. discriminate.
    + intros p Hp Hl. rewrite repeat_length in Hp. rewrite nth_repeat_lt in Hl by auto. discriminate.
    + split; [unfold MAX_REF; lia|]. intros d H Hl. rewrite (Hin d H) in Hl. discriminate.
    + constructor; unfold nddsn; cbn [m_ndds m_slots m_bdirty m_dhdr m_dslots m_cache m_fdirty length];
        rewrite ?repeat_length; try lia; try discriminate.
      * intros q Hq _. rewrite !nth_repeat_lt by lia. reflexivity.
      * intros k Hk _. destruct k; [reflexivity|lia].
      * intros _ k Hk. destruct k; [reflexivity|lia].
  - unfold abs. cbn [m_slots]. apply absl_repeat_nil.
Qed.

Lemma Inv_set_maxref : forall st mx, Inv st -> m_maxref st <= mx <= MAX_REF -> Inv (set_maxref st mx).
Proof.
  intros st mx I Hmx. destruct I as [Ind Ilive Irefs Ibits Isound Icomp Imax Idisk].
  constructor; auto.
  - cbn [set_maxref m_maxref m_slots]. split; [lia|]. intros d H Hl. destruct Imax as [_ Hm]. specialize (Hm d H Hl). lia.
  - apply (disk_ok_eq st); auto. repeat split; reflexivity.
Qed.

Lemma Inv_set_tree : forall st tr, Inv st -> bits_ok tr ->
  (forall b r, tree_da tr b r = tree_da (m_tree st) b r) -> Inv (set_tree st tr).
Proof.
  intros st tr I Hb Hsame. destruct I as [Ind Ilive Irefs Ibits Isound Icomp Imax Idisk].
  constructor; auto.
  - intros b r p H. cbn [set_tree m_tree] in H. rewrite Hsame in H. apply (Isound b r p H).
  - intros p Hp Hl. cbn [set_tree m_tree]. rewrite Hsame. apply (Icomp p Hp Hl).
  - apply (disk_ok_eq st); auto. repeat split; reflexivity.
Qed.

Lemma hcache_spec : forall st b, Inv st -> Inv (hcache st b) /\ m_slots (hcache st b) = m_slots st.
Proof.
  intros st b I. unfold hcache.
  set (st1 := if negb b && m_cache st then hisync st else st).
  assert (H1 : Inv st1 /\ m_slots st1 = m_slots st /\ (b = false -> all_clean st1)).
  { unfold st1. destruct (negb b && m_cache st) eqn:E.
    - destruct (hisync_spec st I) as (I1 & S1 & _ & _ & _ & _ & Hc). auto.
    - split; [auto|]. split; [auto|]. intros ->. cbn [negb andb] in E. intros k Hk.
      apply (k_nocache st (i_disk st I)); auto. }
  destruct H1 as (I1 & S1 & Hc). clearbody st1. split; [|exact S1].
  apply (Inv_new_disk st1); auto.
  destruct (i_disk st1 I1) as [K1 K2 K3 K4 K5 K6 K7 K8].
  constructor; unfold nddsn; cbn [m_ndds m_slots m_bdirty m_dhdr m_dslots m_cache m_fdirty]; auto.
Qed.

Lemma hnewref_Inv : forall st st' v, Inv st -> hnewref st = (st', v) -> Inv st' /\ m_slots st' = m_slots st.
Proof.
  intros st st' v I H. unfold hnewref in H. destruct (Z.ltb_spec (m_maxref st) MAX_REF).
  - apply pair_equal_spec in H. destruct H as [<- _]. split; [|reflexivity]. apply Inv_set_maxref; auto. lia.
  - apply pair_equal_spec in H. destruct H as [<- _]. auto.
Qed.

Lemma htagnewref_Inv : forall st t st' v, Inv st -> htagnewref st t = (st', v) -> Inv st' /\ m_slots st' = m_slots st.
Proof.
  intros st t st' v I H. unfold htagnewref in H.
  destruct (tt_find (m_tree st) (BASETAG t)) as [ti|] eqn:Ef.
  - destruct (i_bits st I _ _ Ef) as (W & H0 & Hb).
    destruct (bv_find_next_zero_spec _ W) as (b' & r & Hz & Wb' & Hsame & _).
    rewrite Hz in H.
    assert (Hgoal : Inv (set_tree st (tt_set (m_tree st) (BASETAG t) (mkti b' (ti_da ti))))).
    { apply Inv_set_tree; auto.
      - intros b2 ti2 Hf. rewrite tt_find_set in Hf. destruct (Z.eqb_spec (BASETAG t) b2) as [<-|].
        + injection Hf as <-. cbn [ti_bv ti_da]. split; auto. split; [rewrite Hsame by lia; auto|].
          intros r0 Hr0. rewrite Hsame by lia. apply Hb. auto.
        + apply (i_bits st I _ _ Hf).
      - intros b2 r2. unfold tree_da. rewrite tt_find_set. destruct (Z.eqb_spec (BASETAG t) b2) as [<-|]; auto.
        rewrite Ef. reflexivity. }
    destruct (MAX_REF <? r); apply pair_equal_spec in H; destruct H as [<- _]; auto.
  - apply pair_equal_spec in H. destruct H as [<- _]. auto.
Qed.

(* ------------------------------------------------------------------------------------------ *)
(** * Every mutating operation refines the specification step *)

Definition rel (st : mst) (s : smap) : Prop := Inv st /\ Permutation (abs st) s.

Lemma mut_tag_facts : forall t, mut_tag t = true ->
  uint16 t = true /\ BASETAG t <> 0 /\ BASETAG t <> 1 /\ BASETAG t <> 108 /\ t <> 0 /\ t <> 1 /\ t <> 108.
Proof.
  intros t H. unfold mut_tag in H. repeat rewrite andb_true_iff in H. destruct H as [[[[Hu H0] H1] H108] _].
  apply negb_true_iff in H0, H1, H108. apply Z.eqb_neq in H0, H1, H108.
  unfold DFTAG_WILDCARD, DFTAG_NULL, DFTAG_FREE in *.
  repeat split; auto; intros ->; [apply H0|apply H1|apply H108]; reflexivity.
Qed.

Lemma nonspecial_base : forall t, uint16 t = true -> is_special t = false -> BASETAG t = t.
Proof.
  intros t Hu Hs. unfold is_special in Hs. apply negb_false_iff in Hs. tag_facts_of t Hu.
  destruct Hf as [[[[[[[_ Hcase] _] _] _] _] _] _]. rewrite Hs in Hcase. cbn [andb negb orb] in Hcase.
  rewrite orb_false_r in Hcase. apply Z.eqb_eq in Hcase. exact Hcase.
Qed.

Lemma entry_key : forall st p t r, Inv st -> tree_da (m_tree st) (BASETAG t) r = Some p ->
  key_eq t r (entry_of (slot st p)) = true /\ (p < length (m_slots st))%nat /\ live (slot st p) = true.
Proof.
  intros st p t r I H. destruct (i_sound st I _ _ _ H) as (Hp & Hl & Hb & Hr). split; auto.
  unfold key_eq, entry_of. cbn [e_tag e_ref]. rewrite Hb, Hr, !Z.eqb_refl. reflexivity.
Qed.

Lemma frame_live : forall st s p, Inv st -> Permutation (abs st) s -> (p < length (m_slots st))%nat ->
  live (slot st p) = true ->
  exists R, Permutation s (entry_of (slot st p) :: R) /\ NoDup (map ekey s) /\
            forall st' v, m_slots st' = upd (m_slots st) p v -> Permutation (abs st') (optl v ++ R).
Proof.
  intros st s p I Hperm Hp Hl. destruct (frame_at st p Hp) as (R & H1 & H2). exists R.
  unfold optl in H1. rewrite Hl in H1. cbn [app] in H1. split; [|split; auto].
  - eapply Permutation_trans; [apply Permutation_sym; exact Hperm|exact H1].
  - apply (perm_nodup_keys _ _ Hperm). apply Inv_nodup. auto.
Qed.

Lemma invalid_iff : forall d, dd_ok d ->
  (d_off d =? INVALID_OFFSET) && (d_len d =? INVALID_LENGTH) = (d_len d =? INVALID_LENGTH).
Proof.
  intros d (_ & _ & _ & _ & _ & [[Ho Hl]|[Ho Hl]]); rewrite ?Ho, ?Hl; unfold INVALID_OFFSET, INVALID_LENGTH, VALID_OFFSET in *.
  - reflexivity.
  - destruct (Z.eqb_spec (d_len d) (-1)); [lia|]. reflexivity.
Qed.

Lemma put_step : forall st s t r l st' rm s' rs, rel st s ->
  hputelement st t r l = (st', rm) -> s_step s (OPut t r l) = (s', rs) -> rs <> RNoDomain ->
  rel st' s' /\ rm = rs.
Proof.
  intros st s t r l st' rm s' rs [I Hperm] Hm Hs Hnd. cbn [s_step] in Hs.
  destruct (mut_tag t && negb (is_special t) && mut_ref r && (1 <=? l)) eqn:Edom;
    [|cbn [negb] in Hs; apply pair_equal_spec in Hs; destruct Hs as [_ <-]; congruence].
  cbn [negb] in Hs. repeat rewrite andb_true_iff in Edom. destruct Edom as [[[Hmt Hns] Hmr] Hl1].
  apply negb_true_iff in Hns. apply Z.leb_le in Hl1.
  unfold mut_ref in Hmr. apply andb_true_iff in Hmr. destruct Hmr as [Hr1 Hr2]. apply Z.leb_le in Hr1, Hr2.
  destruct (mut_tag_facts t Hmt) as (Hu & B0 & B1 & B108 & T0 & T1 & T108).
  pose proof (nonspecial_base t Hu Hns) as Hb.
  rewrite (lookup_agree st s t r I Hperm) in Hs.
  destruct (tree_da (m_tree st) (BASETAG t) r) as [p|] eqn:Eda.
  - (* the element exists *)
    destruct (entry_key st p t r I Eda) as (Hk & Hp & Hlive).
    pose proof (i_live st I _ (slot_in st p Hp) Hlive) as Hok.
    unfold hputelement in Hm. cbv zeta in Hm. rewrite Hb in Hm. rewrite hfind_exact in Hm by lia.
    rewrite Eda in Hm. rewrite (select_live st p I Hp Hlive) in Hm.
    change (is_special_dd (slot st p)) with (is_special (e_tag (entry_of (slot st p)))) in Hm.
    destruct (is_special (e_tag (entry_of (slot st p)))) eqn:Esp.
    { apply pair_equal_spec in Hs. destruct Hs as [_ <-]. congruence. }
    rewrite (maxref_bump_id st p I Hp Hlive) in Hm. rewrite (invalid_iff _ Hok) in Hm.
    change (e_len (entry_of (slot st p))) with (d_len (slot st p)) in Hs.
    destruct (d_len (slot st p) =? INVALID_LENGTH) eqn:Einv.
    + apply pair_equal_spec in Hs. destruct Hs as [<- <-]. apply pair_equal_spec in Hm. destruct Hm as [<- <-].
      split; [|reflexivity].
      destruct (htpupdate_spec st p VALID_OFFSET l I Hp Hlive ltac:(right; auto)) as (I2 & Hs2 & _).
      split; [exact I2|].
      destruct (frame_live st s p I Hperm Hp Hlive) as (R & HsR & Hnd' & Hfr).
      specialize (Hfr _ _ Hs2). unfold optl in Hfr. rewrite live_mk in Hfr by (apply (dd_ok_tag _ Hok)).
      cbn [app] in Hfr. eapply Permutation_trans; [exact Hfr|]. apply Permutation_sym.
      apply (setlen_frame s (entry_of (slot st p)) R t r l HsR Hnd' Hk).
    + destruct (Z.ltb_spec (d_len (slot st p)) l), (Z.leb_spec l (d_len (slot st p))); try lia;
        apply pair_equal_spec in Hs; destruct Hs as [<- <-]; apply pair_equal_spec in Hm; destruct Hm as [<- <-];
        (split; [split; auto|reflexivity]).
  - (* a new element *)
    destruct (hput_new st t r l I Hu Hb T0 T1 T108 ltac:(lia) Hl1 Eda) as (st2 & E2 & I2 & Habs & _).
    rewrite E2 in Hm. apply pair_equal_spec in Hm. destruct Hm as [<- <-].
    apply pair_equal_spec in Hs. destruct Hs as [<- <-]. split; [|reflexivity]. split; [exact I2|].
    eapply Permutation_trans; [exact Habs|]. eapply Permutation_trans; [apply perm_skip; exact Hperm|].
    apply Permutation_cons_append.
Qed.

Lemma no_ref0 : forall st b, Inv st -> tree_da (m_tree st) b 0 = None.
Proof.
  intros st b I. destruct (tree_da (m_tree st) b 0) as [p|] eqn:E; auto. exfalso.
  destruct (i_sound st I _ _ _ E) as (Hp & Hl & _ & Hr).
  destruct (i_live st I _ (slot_in st p Hp) Hl) as (_ & _ & _ & _ & Hr1 & _). lia.
Qed.

Lemma del_step : forall st s t r st' rm s' rs, rel st s ->
  hdeldd st t r = (st', rm) -> s_step s (ODel t r) = (s', rs) -> rs <> RNoDomain ->
  rel st' s' /\ rm = rs.
Proof.
  intros st s t r st' rm s' rs [I Hperm] Hm Hs Hnd. cbn [s_step] in Hs.
  destruct (mut_tag t && uint16 r) eqn:Edom;
    [|cbn [negb] in Hs; apply pair_equal_spec in Hs; destruct Hs as [_ <-]; congruence].
  cbn [negb] in Hs. apply andb_true_iff in Edom. destruct Edom as [Hmt Hur].
  destruct (mut_tag_facts t Hmt) as (Hu & B0 & B1 & B108 & T0 & T1 & T108).
  unfold hdeldd, DFTAG_WILDCARD, DFREF_WILDCARD in Hm. destruct (Z.eqb_spec t 0); [contradiction|]. cbn [orb] in Hm.
  destruct (Z.eqb_spec r 0) as [->|Hr0].
  - apply pair_equal_spec in Hs. destruct Hs as [<- <-]. apply pair_equal_spec in Hm. destruct Hm as [<- <-].
    split; [split; auto|reflexivity].
  - rewrite htpselect_tree in Hm by auto. rewrite (lookup_agree st s t r I Hperm) in Hs.
    destruct (tree_da (m_tree st) (BASETAG t) r) as [p|] eqn:Eda.
    + destruct (entry_key st p t r I Eda) as (Hk & Hp & Hlive).
      destruct (htpdelete_spec st p I Hp Hlive) as (st2 & Ed & I2 & Hs2 & _). rewrite Ed in Hm.
      apply pair_equal_spec in Hs. destruct Hs as [<- <-]. apply pair_equal_spec in Hm. destruct Hm as [<- <-].
      split; [|reflexivity]. split; [exact I2|].
      destruct (frame_live st s p I Hperm Hp Hlive) as (R & HsR & Hnd' & Hfr).
      specialize (Hfr _ _ Hs2). unfold optl in Hfr. change (live (mkdd DFTAG_NULL _ _ _)) with false in Hfr.
      cbn [app] in Hfr. eapply Permutation_trans; [exact Hfr|]. apply Permutation_sym.
      apply (remove_frame s (entry_of (slot st p)) R t r HsR Hnd' Hk).
    + apply pair_equal_spec in Hs. destruct Hs as [<- <-]. apply pair_equal_spec in Hm. destruct Hm as [<- <-].
      split; [split; auto|reflexivity].
Qed.

Lemma reuse_step : forall st s t r st' rm s' rs, rel st s ->
  hdreuse st t r = (st', rm) -> s_step s (OReuse t r) = (s', rs) -> rs <> RNoDomain ->
  rel st' s' /\ rm = rs.
Proof.
  intros st s t r st' rm s' rs [I Hperm] Hm Hs Hnd. cbn [s_step] in Hs.
  destruct (mut_tag t && uint16 r) eqn:Edom;
    [|cbn [negb] in Hs; apply pair_equal_spec in Hs; destruct Hs as [_ <-]; congruence].
  cbn [negb] in Hs. apply andb_true_iff in Edom. destruct Edom as [Hmt Hur].
  destruct (mut_tag_facts t Hmt) as (Hu & B0 & B1 & B108 & T0 & T1 & T108).
  unfold hdreuse, DFTAG_WILDCARD, DFREF_WILDCARD in Hm. destruct (Z.eqb_spec t 0); [contradiction|]. cbn [orb] in Hm.
  destruct (Z.eqb_spec r 0) as [->|Hr0].
  - apply pair_equal_spec in Hs. destruct Hs as [<- <-]. apply pair_equal_spec in Hm. destruct Hm as [<- <-].
    split; [split; auto|reflexivity].
  - rewrite htpselect_tree in Hm by auto. rewrite (lookup_agree st s t r I Hperm) in Hs.
    destruct (tree_da (m_tree st) (BASETAG t) r) as [p|] eqn:Eda.
    + destruct (entry_key st p t r I Eda) as (Hk & Hp & Hlive).
      pose proof (i_live st I _ (slot_in st p Hp) Hlive) as Hok.
      change (is_special_dd (slot st p)) with (is_special (e_tag (entry_of (slot st p)))) in Hm.
      destruct (is_special (e_tag (entry_of (slot st p)))).
      { apply pair_equal_spec in Hs. destruct Hs as [_ <-]. congruence. }
      destruct (htpupdate_spec st p INVALID_OFFSET INVALID_LENGTH I Hp Hlive ltac:(left; auto)) as (I2 & Hs2 & _).
      apply pair_equal_spec in Hs. destruct Hs as [<- <-]. apply pair_equal_spec in Hm. destruct Hm as [<- <-].
      split; [|reflexivity]. split; [exact I2|].
      destruct (frame_live st s p I Hperm Hp Hlive) as (R & HsR & Hnd' & Hfr).
      specialize (Hfr _ _ Hs2). unfold optl in Hfr. rewrite live_mk in Hfr by (apply (dd_ok_tag _ Hok)).
      cbn [app] in Hfr. eapply Permutation_trans; [exact Hfr|]. apply Permutation_sym.
      apply (setlen_frame s (entry_of (slot st p)) R t r INVALID_LENGTH HsR Hnd' Hk).
    + apply pair_equal_spec in Hs. destruct Hs as [<- <-]. apply pair_equal_spec in Hm. destruct Hm as [<- <-].
      split; [split; auto|reflexivity].
Qed.

Lemma htpcreate_ref0 : forall st tag, htpcreate st tag 0 = (st, None).
Proof. intros. unfold htpcreate, DFREF_WILDCARD. cbn [Z.eqb]. rewrite orb_true_r. reflexivity. Qed.

Lemma special_variant_facts : forall t, uint16 t = true -> MKSPECIALTAG t <> DFTAG_NULL ->
  uint16 (MKSPECIALTAG t) = true /\ BASETAG (MKSPECIALTAG t) = BASETAG t.
Proof.
  intros t Hu Hn. tag_facts_of t Hu. destruct Hf as [[[[[[[[[[_ Hus] _] Hsp] _] _] _] _] _] _] _].
  split; auto. apply orb_true_iff in Hsp. destruct Hsp as [Hsp|Hsp].
  - apply Z.eqb_eq in Hsp. contradiction.
  - repeat rewrite andb_true_iff in Hsp. destruct Hsp as [[Hb _] _]. apply Z.eqb_eq in Hb. exact Hb.
Qed.

Lemma dup_step : forall st s nt nr ot or_ st' rm s' rs, rel st s ->
  hdupdd st nt nr ot or_ = (st', rm) -> s_step s (ODup nt nr ot or_) = (s', rs) -> rs <> RNoDomain ->
  rel st' s' /\ rm = rs.
Proof.
  intros st s nt nr ot or_ st' rm s' rs [I Hperm] Hm Hs Hnd. cbn [s_step] in Hs.
  destruct (mut_tag nt && mut_tag ot && uint16 nr && uint16 or_) eqn:Edom;
    [|cbn [negb] in Hs; apply pair_equal_spec in Hs; destruct Hs as [_ <-]; congruence].
  cbn [negb] in Hs. repeat rewrite andb_true_iff in Edom. destruct Edom as [[[Hmn Hmo] Hunr] Huor].
  destruct (mut_tag_facts nt Hmn) as (Hun & NB0 & NB1 & NB108 & NT0 & NT1 & NT108).
  destruct (mut_tag_facts ot Hmo) as (Huo & OB0 & OB1 & OB108 & OT0 & OT1 & OT108).
  assert (Hfail : forall (A B : Prop), (st, RFail) = (st', rm) -> (s, RFail) = (s', rs) -> rel st' s' /\ rm = rs).
  { intros _ _ E1 E2. apply pair_equal_spec in E1. destruct E1 as [<- <-]. apply pair_equal_spec in E2.
    destruct E2 as [<- <-]. split; [split; auto|reflexivity]. }
  unfold hdupdd in Hm. rewrite (lookup_agree st s ot or_ I Hperm) in Hs.
  destruct (Z.eq_dec or_ 0) as [->|Hor0].
  - rewrite no_ref0 in Hs by auto. unfold htpselect, DFREF_WILDCARD in Hm. cbn [Z.eqb] in Hm. rewrite orb_true_r in Hm.
    apply (Hfail True True); auto.
  - rewrite htpselect_tree in Hm by auto.
    destruct (tree_da (m_tree st) (BASETAG ot) or_) as [po|] eqn:Eo; [|apply (Hfail True True); auto].
    destruct (entry_key st po ot or_ I Eo) as (Hko & Hpo & Hlo).
    pose proof (i_live st I _ (slot_in st po Hpo) Hlo) as Hoko.
    cbv zeta in Hm. destruct (Z.eqb_spec or_ 0); [contradiction|]. rewrite orb_false_r in Hs.
    change (is_special_dd (slot st po)) with (is_special (e_tag (entry_of (slot st po)))) in Hm.
    assert (Hneg : negb (is_special nt) = (SPECIALTAG nt =? 0)) by (unfold is_special; apply negb_involutive).
    rewrite <- Hneg in Hm. cbv zeta in Hs.
    set (c := is_special (e_tag (entry_of (slot st po))) && negb (is_special nt)) in *.
    destruct (Z.eqb_spec nr 0) as [->|Hnr0].
    { (* new ref 0: HTPcreate rejects it *)
      rewrite htpcreate_ref0 in Hm. destruct (c && _) in Hm; apply (Hfail True True); auto. }
    set (tag' := if c then MKSPECIALTAG nt else nt) in *.
    destruct (Z.eqb_spec tag' DFTAG_NULL) as [Enull|Enn].
    { (* a user tag has no special variant *)
      assert (c = true). { destruct c eqn:Ecc; auto; try (exfalso; unfold tag' in Enull; try rewrite Ecc in Enull; unfold DFTAG_NULL in Enull; contradiction). }
      rewrite H in Hm. cbn [andb] in Hm. apply (Hfail True True); auto. }
    rewrite andb_false_r in Hm.
    assert (Htag' : uint16 tag' = true /\ BASETAG tag' = BASETAG nt).
    { unfold tag' in *. destruct c; [apply special_variant_facts; auto|auto]. }
    destruct Htag' as (Hut' & Hbt').
    unfold uint16 in Hunr. apply andb_true_iff in Hunr. destruct Hunr as [Hn0 Hn1]. apply Z.leb_le in Hn0, Hn1.
    pose proof (htpcreate_spec st tag' nr I Hut' ltac:(rewrite Hbt'; auto) ltac:(rewrite Hbt'; auto)
                  ltac:(rewrite Hbt'; auto) ltac:(unfold MAX_REF; lia)) as Hc.
    rewrite (lookup_agree st s nt nr I Hperm) in Hs. rewrite Hbt' in Hc.
    destruct (tree_da (m_tree st) (BASETAG nt) nr) as [pn0|] eqn:En.
    { rewrite Hc in Hm. apply (Hfail True True); auto. }
    destruct Hc as (st1 & pn & Ec & I1 & Hpn & Hslot & Habs & Hpres & Hlen & _). rewrite Ec in Hm.
    assert (Hold : slot st1 po = slot st po) by (apply Hpres; auto).
    assert (Hpnlive : live (slot st1 pn) = true).
    { rewrite Hslot. apply live_mk. exact Enn. }
    rewrite Hold in Hm.
    destruct Hoko as (_ & _ & _ & _ & _ & Hol).
    destruct (htpupdate_spec st1 pn (d_off (slot st po)) (d_len (slot st po)) I1 Hpn Hpnlive Hol) as (I2 & Hs2 & _).
    apply pair_equal_spec in Hm. destruct Hm as [<- <-]. apply pair_equal_spec in Hs. destruct Hs as [<- <-].
    split; [|reflexivity]. split; [exact I2|].
    destruct (frame_at st1 pn Hpn) as (R & H1 & H2). specialize (H2 _ _ Hs2).
    unfold optl in H1, H2. rewrite Hpnlive in H1. rewrite Hslot in H1, H2. cbn [created d_tag d_ref] in H2.
    rewrite live_mk in H2 by exact Enn. cbn [app] in H1, H2.
    unfold entry_of in H1, H2. cbn [created d_tag d_ref d_len] in H1, H2.
    change (e_len (entry_of (slot st po))) with (d_len (slot st po)).
    eapply Permutation_trans; [exact H2|]. eapply Permutation_trans; [|apply Permutation_cons_append].
    apply perm_skip. eapply Permutation_trans; [|exact Hperm].
    apply (Permutation_cons_inv (a := mkentry tag' nr INVALID_LENGTH)).
    eapply Permutation_trans; [apply Permutation_sym; exact H1|exact Habs].
Qed.

(* ------------------------------------------------------------------------------------------ *)
(** * Observers, and the step theorem *)

Lemma obs_tag_facts : forall t, obs_tag t = true -> uint16 t = true /\ t <> 1.
Proof.
  intros t H. unfold obs_tag in H. repeat rewrite andb_true_iff in H. destruct H as [[[Hu H1] _] _].
  split; auto. apply negb_true_iff in H1. apply Z.eqb_neq in H1. intros ->. apply H1. reflexivity.
Qed.

Lemma findall_exact : forall st fuel t r dir, t <> 0 -> r <> 0 ->
  findall st (S fuel) t r 0 0 dir =
  match tree_da (m_tree st) (BASETAG t) r with Some p => [dd_triple (slot st p)] | None => [] end.
Proof.
  intros st fuel t r dir Ht Hr. cbn [findall]. rewrite hfind_exact by auto.
  destruct (tree_da (m_tree st) (BASETAG t) r); auto.
  destruct (Z.eqb_spec t 0); [contradiction|]. destruct (Z.eqb_spec r 0); [contradiction|]. reflexivity.
Qed.

Lemma select_exact : forall st s t r, Inv st -> Permutation (abs st) s -> t <> 0 -> r <> 0 ->
  s_select s t r = match tree_da (m_tree st) (BASETAG t) r with Some p => [entry_of (slot st p)] | None => [] end.
Proof.
  intros st s t r I Hp Ht Hr. unfold s_select, DFTAG_WILDCARD, DFREF_WILDCARD.
  destruct (Z.eqb_spec t 0); [contradiction|]. destruct (Z.eqb_spec r 0); [contradiction|]. cbn [negb andb].
  rewrite (lookup_agree st s t r I Hp). destruct (tree_da (m_tree st) (BASETAG t) r); reflexivity.
Qed.

Lemma select_wild : forall s t r, (t = 0 \/ r = 0) ->
  s_select s t r = filter (fun e => tag_matches t e && ref_matches r e) s.
Proof.
  intros s t r H. unfold s_select, DFTAG_WILDCARD, DFREF_WILDCARD.
  destruct H as [-> | ->]; cbn [Z.eqb negb andb]; auto. rewrite andb_false_r. reflexivity.
Qed.

Lemma filter_perm : forall (g : entry -> bool) a b, Permutation a b -> Permutation (filter g a) (filter g b).
Proof.
  intros g a b H. induction H; cbn [filter]; auto.
  - destruct (g x); auto.
  - destruct (g x), (g y); auto. apply perm_swap.
  - eapply Permutation_trans; eauto.
Qed.

Lemma hfind_wild_start : forall st t r, Inv st -> t <> DFTAG_NULL -> (t = 0 \/ r = 0) ->
  (match hfind st t r 0 0 DF_FORWARD with Some _ => 1 | None => 0 end) =
  (match filter (spec_match t r) (m_slots st) with [] => 0 | _ => 1 end).
Proof.
  intros st t r Iv Ht Hw. destruct (Inv_inv st Iv) as (_ & Hidx & _).
  pose proof (hfind_cursor st t r None DF_FORWARD Hidx I Hw) as Hc. cbn [cur_tag cur_ref] in Hc. rewrite Hc.
  rewrite find_wild_fwd. cbn [cstart].
  rewrite (find_fwd_ext_gen _ _ (fun d => match_fwd_spec t r d Ht Hw)).
  pose proof (find_from (spec_match t r) (m_slots st) 0) as H. cbn [skipn] in H.
  destruct (find_fwd (spec_match t r) (m_slots st) 0 0).
  - destruct H as (_ & _ & ->). reflexivity.
  - rewrite H. reflexivity.
Qed.

Lemma nonempty_perm : forall (a b : list entry), Permutation a b ->
  (match a with [] => 0 | _ => 1 end) = (match b with [] => 0 | _ => 1 end).
Proof.
  intros a b H. pose proof (Permutation_length H) as L. destruct a, b; simpl in L; auto; lia.
Qed.

Definition feed (o : op) (rm : res) : op :=
  match o, rm with
  | ONewref _, RVal v => ONewref v
  | OTagnewref t _, RVal v => OTagnewref t v
  | _, _ => o
  end.

Definition res_agree (o : op) (rm rs : res) : Prop :=
  match o with
  | ONewref _ | OTagnewref _ _ => rs = ROk
  | OFindall _ _ _ => exists lm ls, rm = RList lm /\ rs = RList ls /\ Permutation lm ls
  | _ => rm = rs
  end.

Lemma open_rel : forall st n s s' rs st' rm, m_step st (OOpen n) = (st', rm) -> s_step s (OOpen n) = (s', rs) ->
  rs <> RNoDomain -> rel st' s' /\ rm = rs.
Proof.
  intros st n s s' rs st' rm Hm Hs Hnd. cbn [s_step] in Hs.
  destruct ((n <? 0) || (32767 <? n)) eqn:E; [apply pair_equal_spec in Hs; destruct Hs as [_ <-]; congruence|].
  apply orb_false_iff in E. destruct E as [E1 _]. apply Z.ltb_ge in E1.
  apply pair_equal_spec in Hs. destruct Hs as [<- <-].
  cbn [m_step] in Hm. unfold hopen_create in Hm. destruct (Z.ltb_spec n 0); [lia|].
  destruct (htpinit_Inv n E1) as (I0 & Habs0 & Ht0 & _).
  destruct (hput_new (htpinit n) DFTAG_VERSION 1 LIBVER_LEN I0 eq_refl eq_refl ltac:(discriminate) ltac:(discriminate)
              ltac:(discriminate) ltac:(unfold MAX_REF; lia) ltac:(unfold LIBVER_LEN; lia)) as (st1 & E & I1 & Habs & _).
  { rewrite Ht0. reflexivity. }
  rewrite E in Hm. apply pair_equal_spec in Hm. destruct Hm as [<- <-]. split; [|reflexivity].
  split; [exact I1|]. rewrite Habs0 in Habs. exact Habs.
Qed.

(** inv_step: every operation of a history preserves the invariant and commutes with the specification *)
Theorem inv_step_lemma : forall st s o st' rm s' rs,
  rel st s -> m_step st o = (st', rm) -> s_step s (feed o rm) = (s', rs) -> rs <> RNoDomain ->
  rel st' s' /\ res_agree o rm rs.
Proof.
  intros st s o st' rm s' rs R Hm Hs Hnd. pose proof R as [I Hperm].
  destruct o; cbn [feed res_agree] in *.
  - (* open *) eapply open_rel; eauto.
  - (* reopen *)
    cbn [m_step s_step] in *. destruct (hreopen_spec st I) as (st2 & E & I2 & S2 & _). rewrite E in Hm.
    apply pair_equal_spec in Hm. destruct Hm as [<- <-]. apply pair_equal_spec in Hs. destruct Hs as [<- <-].
    split; [|reflexivity]. split; [exact I2|]. unfold abs. rewrite S2. exact Hperm.
  - (* cache *)
    cbn [m_step s_step] in *. destruct (hcache_spec st (negb (b =? 0)) I) as (I2 & S2).
    apply pair_equal_spec in Hm. destruct Hm as [<- <-]. apply pair_equal_spec in Hs. destruct Hs as [<- <-].
    split; [|reflexivity]. split; [exact I2|]. unfold abs. rewrite S2. exact Hperm.
  - (* sync *)
    cbn [m_step s_step] in *. destruct (hisync_spec st I) as (I2 & S2 & _).
    apply pair_equal_spec in Hm. destruct Hm as [<- <-]. apply pair_equal_spec in Hs. destruct Hs as [<- <-].
    split; [|reflexivity]. split; [exact I2|]. unfold abs. rewrite S2. exact Hperm.
  - (* put *) eapply put_step; eauto.
  - (* dup *) eapply dup_step; eauto.
  - (* del *) eapply del_step; eauto.
  - (* reuse *) eapply reuse_step; eauto.
  - (* newref *)
    cbn [m_step] in Hm. destruct (hnewref st) as [st1 v1] eqn:E. apply pair_equal_spec in Hm. destruct Hm as [<- <-].
    destruct (hnewref_Inv _ _ _ I E) as (I2 & S2).
    destruct (observers_refine_lemma st s (Inv_inv st I) Hperm) as (_ & _ & Hn & _).
    destruct (Hn 0 st1 v1) as (Hok & _). { cbn [m_step]. rewrite E. reflexivity. }
    cbn [s_step] in Hs, Hok. apply pair_equal_spec in Hs. destruct Hs as [<- <-]. cbn [snd] in Hok.
    split; [|exact Hok]. split; [exact I2|]. unfold abs. rewrite S2. exact Hperm.
  - (* tagnewref *)
    cbn [m_step] in Hm. destruct (htagnewref st t) as [st1 v1] eqn:E. apply pair_equal_spec in Hm. destruct Hm as [<- <-].
    destruct (htagnewref_Inv _ _ _ _ I E) as (I2 & S2).
    cbn [s_step] in Hs.
    destruct (mut_tag t || (BASETAG t =? DFTAG_VERSION) && uint16 t) eqn:Edom;
      [|cbn [negb] in Hs; apply pair_equal_spec in Hs; destruct Hs as [_ <-]; congruence].
    cbn [negb] in Hs. apply pair_equal_spec in Hs. destruct Hs as [<- <-].
    destruct (htagnewref_fresh_lemma _ _ _ _ (proj1 (proj2 (proj2 (proj2 (Inv_inv st I))))) E) as (H1 & H2 & _).
    rewrite (newref_ok_spec _ (tagref_in_use st (BASETAG t)) v1 (fun x => tagref_used_iff st s t x Hperm) H1 H2).
    split; [|reflexivity]. split; [exact I2|]. unfold abs. rewrite S2. exact Hperm.
  - (* number *)
    cbn [m_step s_step] in *. destruct (obs_tag t) eqn:Eo;
      [|cbn [negb] in Hs; apply pair_equal_spec in Hs; destruct Hs as [_ <-]; congruence].
    cbn [negb] in Hs. destruct (Inv_inv st I) as (Hn & _ & _ & _ & Hnf).
    rewrite (hnumber_exact_lemma st t Hn Eo Hnf) in Hm. rewrite (filter_perm_length _ _ _ Hperm) in Hm.
    apply pair_equal_spec in Hm. destruct Hm as [<- <-]. apply pair_equal_spec in Hs. destruct Hs as [<- <-]. auto.
  - (* exist *)
    cbn [m_step s_step] in *. destruct (obs_tag t && uint16 r) eqn:Eo;
      [|cbn [negb] in Hs; apply pair_equal_spec in Hs; destruct Hs as [_ <-]; congruence].
    cbn [negb] in Hs. apply andb_true_iff in Eo. destruct Eo as [Eo _]. destruct (obs_tag_facts t Eo) as (Hu & T1).
    apply pair_equal_spec in Hm. destruct Hm as [<- <-]. apply pair_equal_spec in Hs. destruct Hs as [<- <-].
    split; [exact R|]. f_equal.
    destruct (Z.eq_dec t 0) as [Ht0|Ht0]; [|destruct (Z.eq_dec r 0) as [Hr0|Hr0]].
    + rewrite (hfind_wild_start st t r I T1 (or_introl Ht0)). rewrite (select_wild s t r (or_introl Ht0)).
      rewrite <- (nonempty_perm _ _ (filter_perm _ _ _ Hperm)). unfold abs.
      pose proof (abs_select t r (m_slots st)) as Ha.
      destruct (filter (spec_match t r) (m_slots st)); cbn [map] in Ha;
        destruct (filter _ (map entry_of (filter live (m_slots st)))); cbn [map] in Ha; auto; discriminate.
    + rewrite (hfind_wild_start st t r I T1 (or_intror Hr0)). rewrite (select_wild s t r (or_intror Hr0)).
      rewrite <- (nonempty_perm _ _ (filter_perm _ _ _ Hperm)). unfold abs.
      pose proof (abs_select t r (m_slots st)) as Ha.
      destruct (filter (spec_match t r) (m_slots st)); cbn [map] in Ha;
        destruct (filter _ (map entry_of (filter live (m_slots st)))); cbn [map] in Ha; auto; discriminate.
    + rewrite hfind_exact by auto. rewrite (select_exact st s t r I Hperm Ht0 Hr0).
      destruct (tree_da (m_tree st) (BASETAG t) r); reflexivity.
  - (* check *)
    cbn [m_step s_step] in *. destruct (obs_tag t && uint16 r) eqn:Eo;
      [|cbn [negb] in Hs; apply pair_equal_spec in Hs; destruct Hs as [_ <-]; congruence].
    cbn [negb] in Hs. apply andb_true_iff in Eo. destruct Eo as [Eo _]. destruct (obs_tag_facts t Eo) as (Hu & T1).
    unfold DFTAG_NULL, DFTAG_WILDCARD, DFREF_WILDCARD in *. destruct (Z.eqb_spec t 1); [contradiction|]. cbn [orb] in Hm.
    destruct ((t =? 0) || (r =? 0)).
    + apply pair_equal_spec in Hm. destruct Hm as [<- <-]. apply pair_equal_spec in Hs. destruct Hs as [<- <-]. auto.
    + rewrite (lookup_agree st s t r I Hperm) in Hs. rewrite find_exact_tree_da in Hm.
      apply pair_equal_spec in Hm. destruct Hm as [<- <-]. apply pair_equal_spec in Hs. destruct Hs as [<- <-].
      split; [exact R|]. destruct (tree_da (m_tree st) (BASETAG t) r); reflexivity.
  - (* length *)
    cbn [m_step s_step] in *.
    destruct (obs_tag t && negb (t =? DFTAG_WILDCARD) && negb (is_special t) && mut_ref r) eqn:Eo;
      [|cbn [negb] in Hs; apply pair_equal_spec in Hs; destruct Hs as [_ <-]; congruence].
    cbn [negb] in Hs. repeat rewrite andb_true_iff in Eo. destruct Eo as [[[Eo Ht0] Hns] Hmr].
    destruct (obs_tag_facts t Eo) as (Hu & T1). apply negb_true_iff in Ht0, Hns. apply Z.eqb_neq in Ht0.
    unfold mut_ref in Hmr. apply andb_true_iff in Hmr. destruct Hmr as [Hr1 _]. apply Z.leb_le in Hr1.
    pose proof (nonspecial_base t Hu Hns) as Hb.
    rewrite (lookup_agree st s t r I Hperm) in Hs.
    unfold hlength in Hm. cbv zeta in Hm. rewrite Hb in Hm. rewrite hfind_exact in Hm by (unfold DFTAG_WILDCARD in *; lia).
    destruct (tree_da (m_tree st) (BASETAG t) r) as [p|] eqn:Eda.
    + destruct (entry_key st p t r I Eda) as (Hk & Hp & Hlive). rewrite (select_live st p I Hp Hlive) in Hm.
      change (is_special_dd (slot st p)) with (is_special (e_tag (entry_of (slot st p)))) in Hm.
      destruct (is_special (e_tag (entry_of (slot st p)))).
      { apply pair_equal_spec in Hs. destruct Hs as [_ <-]. congruence. }
      rewrite (maxref_bump_id st p I Hp Hlive) in Hm.
      apply pair_equal_spec in Hm. destruct Hm as [<- <-]. apply pair_equal_spec in Hs. destruct Hs as [<- <-]. auto.
    + apply pair_equal_spec in Hm. destruct Hm as [<- <-]. apply pair_equal_spec in Hs. destruct Hs as [<- <-]. auto.
  - (* findall *)
    cbn [m_step s_step] in *.
    destruct (obs_tag t && uint16 r && ((d =? DF_FORWARD) || (d =? DF_BACKWARD))) eqn:Eo;
      [|cbn [negb] in Hs; apply pair_equal_spec in Hs; destruct Hs as [_ <-]; congruence].
    cbn [negb] in Hs. repeat rewrite andb_true_iff in Eo. destruct Eo as [[Eo _] Hd].
    destruct (obs_tag_facts t Eo) as (Hu & T1).
    apply pair_equal_spec in Hm. destruct Hm as [<- <-]. apply pair_equal_spec in Hs. destruct Hs as [<- <-].
    split; [exact R|]. eexists. eexists. split; [reflexivity|]. split; [reflexivity|].
    destruct (Z.eq_dec t 0) as [Ht0|Ht0]; [|destruct (Z.eq_dec r 0) as [Hr0|Hr0]].
    + destruct (find_enumerates_once_lemma st t r (proj1 (proj2 (Inv_inv st I))) T1 (or_introl Ht0)) as (Hf & Hbk).
      rewrite (select_wild s t r (or_introl Ht0)).
      apply orb_true_iff in Hd. destruct Hd as [Hd|Hd]; apply Z.eqb_eq in Hd; subst d.
      * rewrite Hf. apply Permutation_map. apply filter_perm. exact Hperm.
      * rewrite Hbk. eapply Permutation_trans; [apply Permutation_sym; apply Permutation_rev|].
        apply Permutation_map. apply filter_perm. exact Hperm.
    + destruct (find_enumerates_once_lemma st t r (proj1 (proj2 (Inv_inv st I))) T1 (or_intror Hr0)) as (Hf & Hbk).
      rewrite (select_wild s t r (or_intror Hr0)).
      apply orb_true_iff in Hd. destruct Hd as [Hd|Hd]; apply Z.eqb_eq in Hd; subst d.
      * rewrite Hf. apply Permutation_map. apply filter_perm. exact Hperm.
      * rewrite Hbk. eapply Permutation_trans; [apply Permutation_sym; apply Permutation_rev|].
        apply Permutation_map. apply filter_perm. exact Hperm.
    + rewrite findall_exact by auto. rewrite (select_exact st s t r I Hperm Ht0 Hr0).
      destruct (tree_da (m_tree st) (BASETAG t) r); reflexivity.
  - (* dump: outside the specification *)
    cbn [s_step] in Hs. apply pair_equal_spec in Hs. destruct Hs as [_ <-]. congruence.
Qed.

(* ------------------------------------------------------------------------------------------ *)
(** * Whole histories *)

(** running a history through M and S side by side (S is fed M's answers for new references);
    the flag says that S stayed inside its domain *)
Fixpoint run_states (st : mst) (s : smap) (h : list op) : mst * smap * bool :=
  match h with
  | [] => (st, s, true)
  | o :: h' =>
      let '(st', rm) := m_step st o in
      let '(s', rs) := s_step s (feed o rm) in
      match rs with RNoDomain => (st', s', false) | _ => run_states st' s' h' end
  end.

Fixpoint run_agree (st : mst) (s : smap) (h : list op) : Prop :=
  match h with
  | [] => True
  | o :: h' =>
      let '(st', rm) := m_step st o in
      let '(s', rs) := s_step s (feed o rm) in
      rs = RNoDomain \/ (res_agree o rm rs /\ run_agree st' s' h')
  end.

Lemma res_dec_nodomain : forall r : res, r = RNoDomain \/ r <> RNoDomain.
Proof. destruct r; auto; right; discriminate. Qed.

Lemma run_agree_rel : forall h st s, rel st s -> run_agree st s h.
Proof.
  induction h as [|o h IH]; intros st s R; cbn [run_agree]; auto.
  destruct (m_step st o) as [st' rm] eqn:Em. destruct (s_step s (feed o rm)) as [s' rs] eqn:Es.
  destruct (res_dec_nodomain rs) as [|Hnd]; auto. right.
  destruct (inv_step_lemma st s o st' rm s' rs R Em Es Hnd) as [R' Ha]. split; auto.
Qed.

Lemma run_states_rel : forall h st s, rel st s ->
  forall st' s', run_states st s h = (st', s', true) -> rel st' s'.
Proof.
  induction h as [|o h IH]; intros st s R st' s' H; cbn [run_states] in H.
  - injection H as <- <-. exact R.
  - destruct (m_step st o) as [st1 rm] eqn:Em. destruct (s_step s (feed o rm)) as [s1 rs] eqn:Es.
    destruct (res_dec_nodomain rs) as [->|Hnd]; [discriminate|].
    destruct (inv_step_lemma st s o st1 rm s1 rs R Em Es Hnd) as [R' _].
    apply (IH st1 s1 R'). destruct rs; auto; congruence.
Qed.

(** dir_refines_map: every history that starts by creating a file, with any block size *)
Theorem dir_refines_map_lemma : forall n h st0 s0, run_agree st0 s0 (OOpen n :: h).
Proof.
  intros n h st0 s0. cbn [run_agree]. destruct (m_step st0 (OOpen n)) as [st' rm] eqn:Em.
  assert (Ef : feed (OOpen n) rm = OOpen n) by reflexivity. rewrite Ef.
  destruct (s_step s0 (OOpen n)) as [s' rs] eqn:Es.
  destruct (res_dec_nodomain rs) as [|Hnd]; auto. right.
  destruct (open_rel st0 n s0 s' rs st' rm Em Es Hnd) as [R E]. split; [exact E|]. apply run_agree_rel. exact R.
Qed.

Lemma reachable_rel : forall n h st0 s0 st s, run_states st0 s0 (OOpen n :: h) = (st, s, true) -> rel st s.
Proof.
  intros n h st0 s0 st s H. cbn [run_states] in H. destruct (m_step st0 (OOpen n)) as [st' rm] eqn:Em.
  assert (Ef : feed (OOpen n) rm = OOpen n) by reflexivity. rewrite Ef in H.
  destruct (s_step s0 (OOpen n)) as [s' rs] eqn:Es.
  destruct (res_dec_nodomain rs) as [->|Hnd]; [discriminate|].
  destruct (open_rel st0 n s0 s' rs st' rm Em Es Hnd) as [R _].
  apply (run_states_rel h st' s' R). destruct rs; auto; congruence.
Qed.

(** the hypotheses of the freshness / enumeration / counting theorems hold in every reachable state *)
Lemma reachable_inv_lemma : forall n h st0 s0 st s, run_states st0 s0 (OOpen n :: h) = (st, s, true) ->
  index_ok st /\ maxref_ok st /\ tree_bits_ok st /\ no_free_tags st /\ Permutation (abs st) s.
Proof.
  intros n h st0 s0 st s H. destruct (reachable_rel _ _ _ _ _ _ H) as [I P].
  destruct (Inv_inv st I) as (_ & H1 & H2 & H3 & H4). auto.
Qed.

(* ---- cache mode ---- *)
Definition is_cache_op (o : op) : bool := match o with OCache _ | OSync => true | _ => false end.

Lemma s_state_feed : forall s o rm rm', fst (s_step s (feed o rm)) = fst (s_step s (feed o rm')).
Proof.
  intros s o rm rm'. destruct o; try reflexivity.
  - destruct rm, rm'; cbn [feed s_step fst]; reflexivity.
  - destruct rm, rm'; cbn [feed s_step fst]; try reflexivity;
      repeat match goal with |- context [if ?c then _ else _] => destruct c end; reflexivity.
Qed.

Lemma s_state_cache : forall s o rm, is_cache_op o = true -> s_step s (feed o rm) = (s, ROk).
Proof. intros s o rm H. destruct o; try discriminate; reflexivity. Qed.

Lemma run_states_s_indep : forall h stA stB s a sa b sb,
  run_states stA s h = (a, sa, true) ->
  run_states stB s (filter (fun o => negb (is_cache_op o)) h) = (b, sb, true) -> sa = sb.
Proof.
  induction h as [|o h IH]; intros stA stB s a sa b sb HA HB.
  - cbn in HA, HB. congruence.
  - cbn [filter] in HB. cbn [run_states] in HA.
    destruct (m_step stA o) as [stA' rmA] eqn:EmA. destruct (s_step s (feed o rmA)) as [sA' rsA] eqn:EsA.
    destruct (is_cache_op o) eqn:Ec; cbn [negb] in HB.
    + rewrite (s_state_cache s o rmA Ec) in EsA. injection EsA as <- <-. apply (IH stA' stB s a sa b sb); auto.
    + cbn [run_states] in HB.
      destruct (m_step stB o) as [stB' rmB] eqn:EmB. destruct (s_step s (feed o rmB)) as [sB' rsB] eqn:EsB.
      assert (sA' = sB').
      { pose proof (s_state_feed s o rmA rmB) as H. rewrite EsA, EsB in H. exact H. }
      subst sB'. destruct rsA; try discriminate; destruct rsB; try discriminate;
        apply (IH stA' stB' sA' a sa b sb); auto.
Qed.

(** cache_mode_irrelevant: with caching off, on, or toggled anywhere (and Hsync anywhere), the directory read
    back after close is the same: it is the one of the history with every cache operation removed *)
Theorem cache_mode_irrelevant_lemma : forall n h st0 s0 st1 s1 st2 s2,
  run_states st0 s0 (OOpen n :: h) = (st1, s1, true) ->
  run_states st0 s0 (OOpen n :: filter (fun o => negb (is_cache_op o)) h) = (st2, s2, true) ->
  exists r1 r2, hreopen st1 = Some r1 /\ hreopen st2 = Some r2 /\
                m_slots r1 = m_slots st1 /\ m_slots r2 = m_slots st2 /\ Permutation (abs r1) (abs r2).
Proof.
  intros n h st0 s0 st1 s1 st2 s2 H1 H2.
  destruct (reachable_rel _ _ _ _ _ _ H1) as [I1 P1]. destruct (reachable_rel _ _ _ _ _ _ H2) as [I2 P2].
  destruct (hreopen_spec st1 I1) as (r1 & E1 & _ & S1 & _). destruct (hreopen_spec st2 I2) as (r2 & E2 & _ & S2 & _).
  exists r1, r2. repeat split; auto.
  assert (s1 = s2).
  { change (OOpen n :: filter (fun o => negb (is_cache_op o)) h)
      with (filter (fun o => negb (is_cache_op o)) (OOpen n :: h)) in H2.
    eapply run_states_s_indep; eauto. }
  subst s2. unfold abs. rewrite S1, S2. eapply Permutation_trans; [exact P1|apply Permutation_sym; exact P2].
Qed.

(* ------------------------------------------------------------------------------------------ *)
(** * HTPstart's end of file *)

Lemma eof_dd_spec : forall e d, e <= eof_dd e d /\ fst d + snd d <= eof_dd e d.
Proof.
  intros e d. unfold eof_dd, HTPstart_dd_end_test, HTPstart_dd_end_set.
  destruct (Z.gtb_spec (fst d + snd d) e); lia.
Qed.

Lemma fold_eof_dd : forall l e, e <= fold_left eof_dd l e /\ forall d, In d l -> fst d + snd d <= fold_left eof_dd l e.
Proof.
  induction l as [|x l IH]; intros e; cbn [fold_left].
  - split; [lia|]. intros d [].
  - destruct (IH (eof_dd e x)) as [H1 H2]. destruct (eof_dd_spec e x) as [H3 H4]. split; [lia|].
    intros d [<-|Hd]; [lia|auto].
Qed.

Lemma eof_block_spec : forall e b,
  e <= eof_block e b /\ block_end b <= eof_block e b /\ forall d, In d (lb_dds b) -> fst d + snd d <= eof_block e b.
Proof.
  intros e b. unfold eof_block.
  set (e1 := if HTPstart_blk_end_test (lb_off b) (lb_ndds b) >? e then HTPstart_blk_end_set (lb_off b) (lb_ndds b) else e).
  assert (He1 : e <= e1 /\ block_end b <= e1).
  { unfold e1, HTPstart_blk_end_test, HTPstart_blk_end_set, block_end, NDDS_SZ, OFFSET_SZ, DD_SZ.
    destruct (Z.gtb_spec (lb_off b + (2 + 4) + lb_ndds b * 12) e); lia. }
  destruct (fold_eof_dd (lb_dds b) e1) as [H1 H2]. repeat split; try lia. exact H2.
Qed.

Lemma fold_eof_block : forall bl e,
  e <= fold_left eof_block bl e /\
  forall b, In b bl -> block_end b <= fold_left eof_block bl e /\
                        forall d, In d (lb_dds b) -> fst d + snd d <= fold_left eof_block bl e.
Proof.
  induction bl as [|x bl IH]; intros e; cbn [fold_left].
  - split; [lia|]. intros b [].
  - destruct (IH (eof_block e x)) as [H1 H2]. destruct (eof_block_spec e x) as (H3 & H4 & H5). split; [lia|].
    intros b [<-|Hb]; [|auto]. split; [lia|]. intros d Hd. specialize (H5 d Hd). lia.
Qed.

(** the end of file HTPstart recovers lies at or beyond the end of every DD block and of every element *)
Lemma htpstart_eof_covers_lemma : forall bl, eof_covers (htpstart_end_off bl) bl = true.
Proof.
  intros bl. unfold eof_covers, htpstart_end_off. apply forallb_forall. intros b Hb.
  destruct (fold_eof_block bl 0) as [_ H]. destruct (H b Hb) as [H1 H2].
  apply andb_true_iff. split; [apply Z.leb_le; exact H1|]. apply forallb_forall. intros d Hd. apply Z.leb_le. auto.
Qed.

(* ------------------------------------------------------------------------------------------ *)
(** * Hclose refused for attached access elements *)
Lemma hclose_refused_lemma : forall rc, 0 < rc ->
  hclose_refused_refcount rc = rc /\ badfrec (hclose_refused_refcount rc) = false /\ refusal_releases = false.
Proof.
  intros rc Hrc. assert (E : refusal_segment = [1]) by reflexivity.
  unfold hclose_refused_refcount, refusal_releases. rewrite E. cbn [fold_left existsb Z.eqb Pos.eqb orb].
  change (1 =? 1) with true. cbv iota. replace (rc - 1 + 1) with rc by lia.
  split; [reflexivity|]. split; [|reflexivity]. unfold badfrec. destruct (Z.eqb_spec rc 0); [lia|reflexivity].
Qed.
