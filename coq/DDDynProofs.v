(** C12 -- dynarray.c: the faithful model (DDDynModel.v) refines the finite map ref -> slot that the DD model uses
    (DDModel.da_get / da_set / da_del), for all operation sequences; growth and index bounds. *)
From Coq Require Import ZArith List Bool Lia.
Require Import H4.gen.Gen_DD H4.DDModel H4.DDDynModel H4.DDInvProofs.
Import ListNotations.
Local Open Scope Z_scope.

Definition dn_wf (d : dyn) : Prop := 0 <= dn_num d /\ 0 < dn_incr d /\ Z.of_nat (length (dn_arr d)) = dn_num d.

Lemma lset_length : forall A (l : list A) n v, length (lset l n v) = length l.
Proof. induction l as [|x l IH]; intros [|n] v; simpl; auto. Qed.

Lemma nth_lset : forall A (l : list A) n m v d, (n < length l)%nat ->
  nth m (lset l n v) d = if Nat.eqb n m then v else nth m l d.
Proof.
  induction l as [|x l IH]; intros n m v d H; [simpl in H; lia|].
  destruct n, m; simpl; auto. apply IH. simpl in H. lia.
Qed.

Lemma new_size_spec : forall incr e, 0 < incr -> 0 <= e ->
  DAset_elem_new_size incr e = (e / incr + 1) * incr /\ e < DAset_elem_new_size incr e.
Proof.
  intros incr e Hi He. unfold DAset_elem_new_size. rewrite Z.quot_div_nonneg by lia. split; [lia|].
  pose proof (Z.div_mod e incr ltac:(lia)). pose proof (Z.mod_pos_bound e incr Hi). nia.
Qed.

Lemma nth_repeat_none : forall (n m : nat), nth m (repeat (@None nat) n) None = None.
Proof. induction n; destruct m; simpl; auto. Qed.

Lemma grow_spec : forall d e, dn_wf d -> 0 <= e ->
  let d1 := dn_grow d e in
  dn_wf d1 /\ e < dn_num d1 /\ dn_incr d1 = dn_incr d /\ (forall r, dn_get d1 r = dn_get d r) /\
  (dn_num d1 = dn_num d \/ (dn_num d <= e /\ dn_num d1 = (e / dn_incr d + 1) * dn_incr d)).
Proof.
  intros d e (Hn & Hi & Hl) He. unfold dn_grow. destruct (Z.geb_spec e (dn_num d)) as [Hge|Hlt]; cbv zeta.
  - destruct (new_size_spec (dn_incr d) e Hi He) as [Ens Hbig]. set (ns := DAset_elem_new_size (dn_incr d) e) in *.
    cbn [dn_num dn_incr dn_arr]. split; [|split; [lia|split; [reflexivity|split]]].
    + unfold dn_wf. cbn [dn_num dn_incr dn_arr]. rewrite app_length, repeat_length. lia.
    + intros r. unfold dn_get. cbn [dn_num dn_arr]. destruct (Z.ltb_spec r 0); auto.
      destruct (Z.geb_spec r ns), (Z.geb_spec r (dn_num d)); auto; try lia.
      * rewrite app_nth2 by lia. apply nth_repeat_none.
      * apply app_nth1. lia.
    + right. split; [lia|exact Ens].
  - split; [unfold dn_wf; auto|]. split; [lia|]. split; auto.
Qed.

(** DAset_elem never stores outside the array; it grows the array only when the index is beyond it, and then
    exactly to the next multiple of incr_mult above the index; every other cell keeps its content *)
Lemma dn_set_spec : forall d e v, dn_wf d -> 0 <= e ->
  exists d', dn_set d e v = Some d' /\ dn_wf d' /\ e < dn_num d' /\
    (forall r, 0 <= r -> dn_get d' r = if e =? r then v else dn_get d r) /\
    (dn_num d' = dn_num d \/ (dn_num d <= e /\ dn_num d' = (e / dn_incr d + 1) * dn_incr d)) /\
    dn_incr d' = dn_incr d.
Proof.
  intros d e v W He. unfold dn_set. destruct (Z.ltb_spec e 0); [lia|].
  destruct (grow_spec d e W He) as ((Hn & Hi & Hl) & Hlt & Hinc & Hget & Hgrow). set (d1 := dn_grow d e) in *.
  destruct (Nat.ltb_spec (Z.to_nat e) (length (dn_arr d1))) as [Hin|Hout]; [|lia].
  eexists. split; [reflexivity|]. cbn [dn_num dn_incr dn_arr]. split; [|split; [exact Hlt|split; [|split; auto]]].
  - unfold dn_wf. cbn [dn_num dn_incr dn_arr]. rewrite lset_length. auto.
  - intros r Hr. rewrite <- Hget. unfold dn_get. cbn [dn_num dn_arr]. destruct (Z.ltb_spec r 0); [lia|].
    destruct (Z.eqb_spec e r) as [<-|Hne].
    + destruct (Z.geb_spec e (dn_num d1)); [lia|]. rewrite nth_lset by auto. rewrite Nat.eqb_refl. reflexivity.
    + destruct (Z.geb_spec r (dn_num d1)); auto. rewrite nth_lset by auto.
      destruct (Nat.eqb_spec (Z.to_nat e) (Z.to_nat r)); [lia|reflexivity].
Qed.

Lemma dn_del_spec : forall d e, dn_wf d -> 0 <= e ->
  let '(d', old) := dn_del d e in
  dn_wf d' /\ old = dn_get d e /\ dn_num d' = dn_num d /\
  (forall r, 0 <= r -> dn_get d' r = if e =? r then None else dn_get d r).
Proof.
  intros d e (Hn & Hi & Hl) He. unfold dn_del. destruct (Z.ltb_spec e 0); [lia|].
  destruct (Z.geb_spec e (dn_num d)) as [Hge|Hlt].
  - split; [unfold dn_wf; auto|]. unfold dn_get. destruct (Z.ltb_spec e 0); [lia|]. destruct (Z.geb_spec e (dn_num d)); [|lia].
    split; auto. split; auto. intros r Hr. destruct (Z.eqb_spec e r) as [<-|]; auto.
    destruct (Z.ltb_spec e 0); [lia|]. destruct (Z.geb_spec e (dn_num d)); [auto|lia].
  - cbn [dn_num dn_incr dn_arr]. split; [unfold dn_wf; cbn [dn_num dn_incr dn_arr]; rewrite lset_length; auto|].
    split; [unfold dn_get; destruct (Z.ltb_spec e 0); [lia|]; destruct (Z.geb_spec e (dn_num d)); [lia|reflexivity]|].
    split; auto. intros r Hr. unfold dn_get. cbn [dn_num dn_arr]. destruct (Z.ltb_spec r 0); [lia|].
    destruct (Z.geb_spec r (dn_num d)).
    + destruct (Z.eqb_spec e r); auto.
    + rewrite nth_lset by lia. destruct (Z.eqb_spec e r) as [<-|].
      * rewrite Nat.eqb_refl. reflexivity.
      * destruct (Nat.eqb_spec (Z.to_nat e) (Z.to_nat r)); [lia|reflexivity].
Qed.

Lemma dn_create_spec : forall s i d, dn_create s i = Some d ->
  dn_wf d /\ dn_num d = s /\ dn_incr d = i /\ forall r, dn_get d r = None.
Proof.
  intros s i d H. unfold dn_create in H. destruct ((s <? 0) || (i <=? 0)) eqn:E; [discriminate|].
  apply orb_false_iff in E. destruct E as [E1 E2]. apply Z.ltb_ge in E1. apply Z.leb_gt in E2.
  injection H as <-. cbn [dn_num dn_incr dn_arr]. split; [|split; [auto|split; auto]].
  - unfold dn_wf. cbn [dn_num dn_incr dn_arr]. rewrite repeat_length. lia.
  - intros r. unfold dn_get. cbn [dn_num dn_arr]. destruct (r <? 0); auto. destruct (r >=? s); auto. apply nth_repeat_none.
Qed.

(* ---- refinement of the finite map used by the DD model, for all operation sequences ---- *)
Definition dyn_rep (d : dyn) (a : list (Z * nat)) : Prop := forall r, 0 <= r -> dn_get d r = da_get a r.

Definition a_step (a : list (Z * nat)) (o : Z * Z * nat) : list (Z * nat) * Z :=
  let '(k, r, p) := o in
  if k =? 0 then (da_set a r p, 0)
  else if k =? 1 then (a, enc (da_get a r))
  else (da_del a r, enc (da_get a r)).
Fixpoint a_run (a : list (Z * nat)) (h : list (Z * Z * nat)) : list Z :=
  match h with [] => [] | o :: h' => let '(a', r) := a_step a o in r :: a_run a' h' end.

Lemma dyn_refines_map_lemma : forall h d a, dn_wf d -> dyn_rep d a ->
  (forall k r p, In (k, r, p) h -> 0 <= r) ->
  map fst (dn_run d h) = a_run a h /\ Forall (fun x => 0 <= snd x) (dn_run d h).
Proof.
  induction h as [|[[k r] p] h IH]; intros d a W R Hr; [split; [reflexivity|constructor]|].
  assert (Hr0 : 0 <= r) by (apply (Hr k r p); left; reflexivity).
  assert (Hrest : forall k r p, In (k, r, p) h -> 0 <= r) by (intros; eapply Hr; right; eauto).
  cbn [dn_run a_run dn_step a_step]. destruct (Z.eqb_spec k 0) as [->|Hk0]; [|destruct (Z.eqb_spec k 1) as [->|Hk1]].
  - destruct (dn_set_spec d r (Some p) W Hr0) as (d' & Es & W' & Hlt & Hget & _). rewrite Es.
    destruct (IH d' (da_set a r p) W') as [H1 H2]; auto.
    { intros x Hx. rewrite Hget by auto. rewrite da_get_set. destruct (Z.eqb_spec r x); auto. }
    cbn [map fst]. rewrite H1. split; [reflexivity|]. constructor; [cbn; lia|exact H2].
  - destruct (IH d a W R Hrest) as [H1 H2]. cbn [map fst]. rewrite H1, (R r Hr0). split; [reflexivity|].
    constructor; [cbn; destruct W; lia|exact H2].
  - pose proof (dn_del_spec d r W Hr0) as Hd. destruct (dn_del d r) as [d' old].
    destruct Hd as (W' & Eold & Hnum & Hget).
    destruct (IH d' (da_del a r) W') as [H1 H2]; auto.
    { intros x Hx. rewrite Hget by auto. rewrite da_get_del. destruct (Z.eqb_spec r x); auto. }
    cbn [map fst]. rewrite H1, Eold, (R r Hr0). split; [reflexivity|]. constructor; [cbn; destruct W'; lia|exact H2].
Qed.

(** from DAcreate_array(REF_DYNARRAY_START, REF_DYNARRAY_INCR), as HTIregister_tag_ref creates it *)
Lemma ref_dynarray_refines_map_lemma : forall h, (forall k r p, In (k, r, p) h -> 0 <= r) ->
  exists out, dn_run_new REF_DYNARRAY_START REF_DYNARRAY_INCR h = Some out /\ map fst out = a_run [] h.
Proof.
  intros h Hr. unfold dn_run_new. destruct (dn_create REF_DYNARRAY_START REF_DYNARRAY_INCR) as [d|] eqn:E; [|discriminate].
  destruct (dn_create_spec _ _ _ E) as (W & _ & _ & Hnone). eexists. split; [reflexivity|].
  apply (dyn_refines_map_lemma h d [] W); auto. intros r _. rewrite Hnone. reflexivity.
Qed.
