(** C04 -- implementation model M of a chunked element accessed through SEVERAL access ids at the same time
    (hdf/src/hchunks.c: HMCPseek / HMCPread / HMCPwrite).  The chunk information record -- and with it the chunk
    indices [seek_chunk_indices] / positions in chunk [seek_pos_chunk], the chunk table and the cache -- is SHARED by all
    access ids attached to the element; only the position lives in each access record.  The transfer loops work on the
    shared indices: they bring them up to date from the access record's own position first
    (update_chunk_indices_seek(access_rec->posn, ...), pinned by [call_skeletons]) and after every piece.
    [recompute = false] models a routine that trusts the shared indices instead (what a stale-state edit does).
    Total computable definitions only. *)
From Coq Require Import ZArith List Bool.
Require Import H4.gen.Gen_Chunk H4.ChunkModel H4.MCacheModel H4.HChunkModel.
Import ListNotations.
Local Open Scope Z_scope.

Definition cidx := (list Z * list Z)%type.      (* shared: seek_chunk_indices, seek_pos_chunk *)

Section Aid.
  Variable nt : Z.
  Variable dd : list dimrec.

  Definition idx_at (pos : Z) : cidx := update_chunk_indices_seek pos nt dd.
  Definition idx_chunk (ix : cidx) : Z := calculate_chunk_num (fst ix) dd.
  Definition idx_seek (ix : cidx) : Z := calculate_seek_in_chunk nt (snd ix) dd.
  Definition idx_piece (ix : cidx) (remaining : Z) : Z := calculate_chunk_for_chunk nt remaining 0 (fst ix) (snd ix) dd.

  (** the while loop of HMCPwrite on the shared indices *)
  Fixpoint sh_write (fuel : nat) (st : cstate) (ix : cidx) (pos : Z) (data : list Z) : option (cstate * cidx) :=
    match data with
    | [] => Some (st, ix)
    | _ :: _ =>
        match fuel with
        | O => None
        | S f =>
            let piece := idx_piece ix (Z.of_nat (List.length data)) in
            if piece <=? 0 then None
            else match mc_access fstore fs_in fs_out (fst st) (snd st) (idx_chunk ix + 1)
                         (fun pg => splice pg (idx_seek ix) (firstn (Z.to_nat piece) data)) MCACHE_DIRTY with
                 | None => None
                 | Some (mp', s', _) =>
                     sh_write f (mp', s') (idx_at (pos + piece)) (pos + piece) (skipn (Z.to_nat piece) data)
                 end
        end
    end.

  (** the while loop of HMCPread on the shared indices *)
  Fixpoint sh_read (fuel : nat) (st : cstate) (ix : cidx) (pos len : Z) : option (cstate * cidx * list Z) :=
    if len <=? 0 then Some (st, ix, [])
    else match fuel with
         | O => None
         | S f =>
             let piece := idx_piece ix len in
             if piece <=? 0 then None
             else match mc_access fstore fs_in fs_out (fst st) (snd st) (idx_chunk ix + 1) (fun pg => pg) 0 with
                  | None => None
                  | Some (mp', s', pg) =>
                      match sh_read f (mp', s') (idx_at (pos + piece)) (pos + piece) (len - piece) with
                      | None => None
                      | Some (st2, ix2, rest) => Some (st2, ix2, slice pg (idx_seek ix) piece ++ rest)
                      end
                  end
         end.

  (** the element as all its access ids see it: shared part + one position per access id *)
  Record aelt := mkae { ae_st : cstate; ae_ix : cidx; ae_pos : list Z }.

  Inductive aop :=
  | ASeek (a : nat) (e : Z)                 (* Hseek(aid a, e elements from the start) *)
  | ARead (a : nat) (r : Z)                 (* Hread(aid a, r elements) *)
  | AWrite (a : nat) (data : list Z).       (* Hwrite(aid a, bytes) *)

  Fixpoint set_nth (l : list Z) (a : nat) (v : Z) : list Z :=
    match l, a with
    | [], _ => []
    | _ :: r, O => v :: r
    | x :: r, S k => x :: set_nth r k v
    end.

  Variable recompute : bool.

  Definition aop_step (x : aelt) (o : aop) : option (aelt * list Z) :=
    match o with
    | ASeek a e =>
        (* HMCPseek: update_chunk_indices_seek(offset) on the shared record, posn := offset *)
        Some (mkae (ae_st x) (idx_at (e * nt)) (set_nth (ae_pos x) a (e * nt)), [])
    | ARead a r =>
        let pos := nth a (ae_pos x) 0 in
        let ix0 := if recompute then idx_at pos else ae_ix x in
        match sh_read (Z.to_nat r) (ae_st x) ix0 pos (r * nt) with
        | None => None
        | Some (st', ix', out) => Some (mkae st' ix' (set_nth (ae_pos x) a (pos + r * nt)), out)
        end
    | AWrite a data =>
        let pos := nth a (ae_pos x) 0 in
        let ix0 := if recompute then idx_at pos else ae_ix x in
        match sh_write (List.length data) (ae_st x) ix0 pos data with
        | None => None
        | Some (st', ix') => Some (mkae st' ix' (set_nth (ae_pos x) a (pos + Z.of_nat (List.length data))), [])
        end
    end.

  Fixpoint aop_run (x : aelt) (os : list aop) : option (aelt * list (list Z)) :=
    match os with
    | [] => Some (x, [])
    | o :: r => match aop_step x o with
                | None => None
                | Some (x', out) => match aop_run x' r with
                                    | None => None
                                    | Some (x2, outs) => Some (x2, out :: outs)
                                    end
                end
    end.
End Aid.
