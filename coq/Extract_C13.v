(** Extraction of the C13 models and specifications (ExtrOcamlBasic only; Z stays the extracted datatype). *)
Require Import H4.gen.Gen_Atom H4.AtomModel.
Require Extraction.
Require ExtrOcamlBasic.
Extraction "../extract/gen/atom_model.ml" m_init m_step s_init s_step op_ok f_init f_step f_quiescent sd_check
  h_step ct_init ct_step ct_check atom_of group_of loc_of enc
  SD_file_id SD_sds_id SD_dim_id SD_id_type SD_id_slot SD_var_index SD_dim_index SD_create_id_base.
