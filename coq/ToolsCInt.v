(** C19 -- C integer conversions used by the generated definitions of Gen_Tools.v (definitions only).
    [swrap w z] is the value of z converted to a signed two's-complement integer of w bits, [uwrap w z] to an
    unsigned one, [b2z] a C truth value. *)
From Coq Require Import ZArith.
Local Open Scope Z_scope.

Definition uwrap (w z : Z) : Z := z mod 2 ^ w.
Definition swrap (w z : Z) : Z := (z + 2 ^ (w - 1)) mod 2 ^ w - 2 ^ (w - 1).
Definition b2z (b : bool) : Z := if b then 1 else 0.

(** width skeleton of a floating-point expression over the two elements being compared: which subtraction is
    carried out at which width (32 / 64 bits) and where a value is narrowed to a smaller format *)
Inductive fexpr := FA | FB | FSub (w : Z) (x y : fexpr) | FAbs (x : fexpr) | FNarrow (w : Z) (x : fexpr).
