(** C04 -- implementation model M of the chunk table behind the cache (hdf/src/hchunks.c): the TBBT of chunk records
    keyed by chunk number, the page-in routine HMCPchunkread (absent record or record with tag DFTAG_NULL: the page is
    filled with the fill value; tag DFTAG_CHUNK: the chunk element's bytes; anything else: FAIL), the page-out routine
    HMCPchunkwrite (record must exist; a DFTAG_NULL record becomes a DFTAG_CHUNK record) and the creation of a
    DFTAG_NULL record by HMCPwrite/HMCwriteChunk before they ask the cache for the page (tbbtdfind/tbbtdins, pinned by
    [call_skeletons]).  Tag tests, the new tag and the fill count come from coq/gen/Gen_Chunk.v.  The chunk element's
    bytes (plain element, or element behind a coder) are abstracted into the page kept in the record.
    Total computable definitions only. *)
From Coq Require Import ZArith List Bool.
Require Import H4.gen.Gen_Chunk H4.ChunkModel H4.MCacheModel.
Import ListNotations.
Local Open Scope Z_scope.

Record crec := mkcrec { cr_tag : Z; cr_page : page }.
Definition ctab := list (Z * crec).

Fixpoint find_rec (t : ctab) (n : Z) : option crec :=
  match t with
  | [] => None
  | (k, r) :: tl => if k =? n then Some r else find_rec tl n
  end.

Fixpoint set_rec (t : ctab) (n : Z) (r : crec) : ctab :=
  match t with
  | [] => []
  | (k, r0) :: tl => if k =? n then (k, r) :: tl else (k, r0) :: set_rec tl n r
  end.

(** HDmemfill(datap, fill_val, fill_val_len, nitems) with nitems = chunk_size*nt_size / fill_val_len *)
Definition fill_page (chunk_size nt_size : Z) (fe : list Z) : page :=
  concat (repeat fe (Z.to_nat (HMCPchunkread_q_nitems_1 chunk_size (Z.of_nat (List.length fe)) nt_size))).

Section Tab.
  Variable fillpg : page.

  (** HMCPchunkread *)
  Definition ct_pagein (t : ctab) (n : Z) : option page :=
    match find_rec t n with
    | None => Some fillpg
    | Some r =>
        if truthy (HMCPchunkread_q_if_0 (cr_tag r)) then Some (cr_page r)
        else if truthy (HMCPchunkread_q_if_1 (cr_tag r)) then Some fillpg
        else None
    end.

  (** HMCPchunkwrite *)
  Definition ct_pageout (t : ctab) (n : Z) (pg : page) : option ctab :=
    match find_rec t n with
    | None => None
    | Some r =>
        Some (set_rec t n (mkcrec (if truthy (HMCPchunkwrite_q_if_0 (cr_tag r)) then HMCPchunkwrite_q_chkptr_chk_tag_0
                                   else cr_tag r) pg))
    end.

  (** HMCPwrite / HMCwriteChunk: if (tbbtdfind(...) == NULL) insert a record with tag DFTAG_NULL *)
  Definition ct_ensure (t : ctab) (n : Z) : ctab :=
    match find_rec t n with
    | None => (n, mkcrec DFTAG_NULL []) :: t
    | Some _ => t
    end.

  (** the page map the cache sees *)
  Definition tab_store (t : ctab) : fstore :=
    fun n => match ct_pagein t n with Some p => p | None => fillpg end.
End Tab.
