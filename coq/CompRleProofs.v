(** C05 -- proofs about the run-length coder model (CompRleModel.v). *)
From Coq Require Import ZArith List Bool Lia.
Require Import H4.gen.Gen_Comp H4.CompSpec H4.CompRleModel.
Import ListNotations.
Local Open Scope Z_scope.

(** * generic list / Z helpers *)
Lemma zlen_nonneg {A} (l : list A) : 0 <= zlen l.
Proof. unfold zlen; lia. Qed.
Lemma zlen_app {A} (a b : list A) : zlen (a ++ b) = zlen a + zlen b.
Proof. unfold zlen; rewrite app_length; lia. Qed.
Lemma zlen_cons {A} (x : A) l : zlen (x :: l) = 1 + zlen l.
Proof. unfold zlen; simpl length; lia. Qed.
Lemma zlen_nil {A} : zlen (@nil A) = 0.
Proof. reflexivity. Qed.
Lemma zlen_repeat {A} (x : A) n : zlen (repeat x n) = Z.of_nat n.
Proof. unfold zlen; now rewrite repeat_length. Qed.
Lemma ztake_all {A} (l : list A) n : zlen l <= n -> ztake n l = l.
Proof. unfold ztake, zlen; intros; apply firstn_all2; lia. Qed.
Lemma ztake_0 {A} (l : list A) n : n <= 0 -> ztake n l = [].
Proof. unfold ztake; intros; replace (Z.to_nat n) with O by lia; reflexivity. Qed.
Lemma zdrop_0 {A} (l : list A) n : n <= 0 -> zdrop n l = l.
Proof. unfold zdrop; intros; replace (Z.to_nat n) with O by lia; reflexivity. Qed.
Lemma zdrop_all {A} (l : list A) n : zlen l <= n -> zdrop n l = [].
Proof. unfold zdrop, zlen; intros; apply skipn_all2; lia. Qed.
Lemma ztake_zdrop {A} (l : list A) n : ztake n l ++ zdrop n l = l.
Proof. apply firstn_skipn. Qed.
Lemma zlen_ztake {A} (l : list A) n : 0 <= n <= zlen l -> zlen (ztake n l) = n.
Proof. unfold ztake, zlen; intros; rewrite firstn_length; lia. Qed.
Lemma zlen_zdrop {A} (l : list A) n : 0 <= n <= zlen l -> zlen (zdrop n l) = zlen l - n.
Proof. unfold zdrop, zlen; intros; rewrite skipn_length; lia. Qed.
Lemma ztake_app_l {A} (a b : list A) n : 0 <= n <= zlen a -> ztake n (a ++ b) = ztake n a.
Proof.
  unfold ztake, zlen; intros. rewrite firstn_app.
  replace (Z.to_nat n - length a)%nat with O by lia. simpl. now rewrite app_nil_r.
Qed.
Lemma zdrop_app_l {A} (a b : list A) n : 0 <= n <= zlen a -> zdrop n (a ++ b) = zdrop n a ++ b.
Proof.
  unfold zdrop, zlen; intros. rewrite skipn_app.
  replace (Z.to_nat n - length a)%nat with O by lia. reflexivity.
Qed.
Lemma ztake_app_exact {A} (a b : list A) : ztake (zlen a) (a ++ b) = a.
Proof. unfold ztake, zlen. rewrite Nat2Z.id. rewrite firstn_app, Nat.sub_diag, firstn_all. simpl. apply app_nil_r. Qed.
Lemma zdrop_app_exact {A} (a b : list A) : zdrop (zlen a) (a ++ b) = b.
Proof. unfold zdrop, zlen. rewrite Nat2Z.id. rewrite skipn_app, Nat.sub_diag, skipn_all. reflexivity. Qed.
Lemma ztake_add {A} (l : list A) a b : 0 <= a -> 0 <= b -> ztake (a + b) l = ztake a l ++ ztake b (zdrop a l).
Proof.
  intros. unfold ztake, zdrop. rewrite Z2Nat.inj_add by lia.
  revert l. generalize (Z.to_nat b) as m. induction (Z.to_nat a) as [|k IH]; intros m l; simpl.
  - reflexivity.
  - destruct l; simpl. + now rewrite firstn_nil. + now rewrite IH.
Qed.
Lemma zdrop_add {A} (l : list A) a b : 0 <= a -> 0 <= b -> zdrop (a + b) l = zdrop b (zdrop a l).
Proof.
  intros. unfold zdrop. rewrite Z2Nat.inj_add by lia.
  revert l. generalize (Z.to_nat b) as m. induction (Z.to_nat a) as [|k IH]; intros m l; simpl.
  - reflexivity.
  - destruct l; simpl. + now rewrite skipn_nil. + apply IH.
Qed.
Lemma ztake_repeat {A} (x : A) n k : 0 <= k <= Z.of_nat n -> ztake k (repeat x n) = repeat x (Z.to_nat k).
Proof.
  intros. unfold ztake. replace n with (Z.to_nat k + (n - Z.to_nat k))%nat by lia.
  rewrite repeat_app, firstn_app, repeat_length, Nat.sub_diag. simpl.
  rewrite app_nil_r. rewrite firstn_all2; [reflexivity | rewrite repeat_length; lia].
Qed.
Lemma zdrop_repeat {A} (x : A) n k : 0 <= k <= Z.of_nat n -> zdrop k (repeat x n) = repeat x (n - Z.to_nat k).
Proof.
  intros. unfold zdrop. replace n with (Z.to_nat k + (n - Z.to_nat k))%nat at 1 by lia.
  rewrite repeat_app, skipn_app, repeat_length, Nat.sub_diag. simpl.
  rewrite skipn_all2; [reflexivity | rewrite repeat_length; lia].
Qed.

(** finite sweeps over 0 <= x < n *)
Lemma zseq_from_in a n x : a <= x < a + Z.of_nat n -> In x (zseq_from a n).
Proof.
  revert a; induction n as [|n IH]; intros a H; simpl. - lia.
  - destruct (Z.eq_dec a x); [now left | right; apply IH; lia].
Qed.
Lemma zrange_forall (P : Z -> bool) n : forallb P (zseq n) = true -> forall x, 0 <= x < n -> P x = true.
Proof.
  intros H x Hx. rewrite forallb_forall in H. apply H. unfold zseq. apply zseq_from_in. lia.
Qed.

Definition byte (b : Z) : Prop := 0 <= b < 256.

Lemma lor128 x : 0 <= x < 128 -> Z.lor 128 x = 128 + x.
Proof. intros. apply Z.eqb_eq. revert x H. apply (zrange_forall (fun x => Z.lor 128 x =? 128 + x) 128). now vm_compute. Qed.
Lemma land128_hi x : 0 <= x < 128 -> Z.land (128 + x) 128 = 128 /\ Z.land (128 + x) 127 = x.
Proof.
  intros. split; apply Z.eqb_eq; revert x H.
  - apply (zrange_forall (fun x => Z.land (128 + x) 128 =? 128) 128). now vm_compute.
  - apply (zrange_forall (fun x => Z.land (128 + x) 127 =? x) 128). now vm_compute.
Qed.
Lemma land128_lo x : 0 <= x < 128 -> Z.land x 128 = 0 /\ Z.land x 127 = x.
Proof.
  intros. split; apply Z.eqb_eq; revert x H.
  - apply (zrange_forall (fun x => Z.land x 128 =? 0) 128). now vm_compute.
  - apply (zrange_forall (fun x => Z.land x 127 =? x) 128). now vm_compute.
Qed.
Lemma u8_id x : 0 <= x < 256 -> u8 x = x.
Proof. intros; unfold u8; now apply Z.mod_small. Qed.

(** * packets: the format of an RLE stream *)
Inductive pkt := PRun (n b : Z) | PMix (l : list Z).
Definition pkt_ok (p : pkt) : Prop :=
  match p with
  | PRun n b => RLE_MIN_RUN <= n <= RLE_MAX_RUN /\ byte b
  | PMix l => RLE_MIN_MIX <= zlen l <= RLE_BUF_SIZE /\ Forall byte l
  end.
Definition pkt_ser (p : pkt) : list Z :=
  match p with PRun n b => [128 + (n - 3); b] | PMix l => (zlen l - 1) :: l end.
Definition pkt_exp (p : pkt) : list Z :=
  match p with PRun n b => repeat b (Z.to_nat n) | PMix l => l end.
Definition flat_ser (ps : list pkt) : list Z := concat (map pkt_ser ps).
Definition flat_exp (ps : list pkt) : list Z := concat (map pkt_exp ps).

Lemma flat_ser_app a b : flat_ser (a ++ b) = flat_ser a ++ flat_ser b.
Proof. unfold flat_ser; now rewrite map_app, concat_app. Qed.
Lemma flat_exp_app a b : flat_exp (a ++ b) = flat_exp a ++ flat_exp b.
Proof. unfold flat_exp; now rewrite map_app, concat_app. Qed.

(** * the encoder: every call keeps "emitted packets ++ pending buffer = input so far" *)
Definition enc_pending (s : rle_enc) : list Z :=
  if re_state s =? RLE_RUN then repeat (re_last s) (Z.to_nat (re_len s))
  else if re_state s =? RLE_MIX then re_buf s else [].

Inductive enc_wf : rle_enc -> Prop :=
| wf_init buf len : enc_wf (mk_rle_enc RLE_INIT buf len RLE_NIL RLE_NIL)
| wf_run buf len b : 3 <= len < 130 -> byte b -> enc_wf (mk_rle_enc RLE_RUN buf len b b)
| wf_mix1 b sec : byte b -> sec <> b -> enc_wf (mk_rle_enc RLE_MIX [b] 1 b sec)
| wf_mix2 pre sec b : Forall byte pre -> byte sec -> byte b -> zlen pre + 2 < 128 ->
    enc_wf (mk_rle_enc RLE_MIX (pre ++ [sec; b]) (zlen pre + 2) b sec).

Definition step_ok (s : rle_enc) (b : Z) : Prop :=
  exists ps, Forall pkt_ok ps /\ snd (rle_enc_step s b) = flat_ser ps /\ enc_wf (fst (rle_enc_step s b)) /\
             flat_exp ps ++ enc_pending (fst (rle_enc_step s b)) = enc_pending s ++ [b].

Lemma repeat_snoc {A} (x : A) n : repeat x n ++ [x] = repeat x (S n).
Proof. induction n; simpl; [reflexivity | now rewrite IHn]. Qed.

Lemma step_init buf len b : byte b -> step_ok (mk_rle_enc RLE_INIT buf len RLE_NIL RLE_NIL) b.
Proof.
  intros Hb. exists []. unfold rle_enc_step; simpl. repeat split; try constructor; auto.
  unfold RLE_NIL, byte in *; lia.
Qed.

Lemma step_run buf len l b : 3 <= len < 130 -> byte l -> byte b -> step_ok (mk_rle_enc RLE_RUN buf len l l) b.
Proof.
  intros Hlen Hl Hb. unfold step_ok, rle_enc_step. cbn [re_state re_last re_len re_buf re_second].
  change (RLE_RUN =? RLE_INIT) with false. change (RLE_RUN =? RLE_RUN) with true. cbv iota.
  destruct (Z.eqb_spec b l) as [->|Hne]; cbn [negb].
  - (* the run continues *)
    unfold rle_enc_run_limit. destruct (Z.leb_spec 130 (len + 1)).
    + exists [PRun (len + 1) l]. cbn [fst snd]. repeat split.
      * constructor; [|constructor]. unfold pkt_ok, RLE_MIN_RUN, RLE_MAX_RUN. split; [lia|auto].
      * unfold flat_ser; simpl. unfold rle_enc_run_ctl_max. rewrite lor128 by lia.
        rewrite !u8_id by (unfold byte in *; lia). reflexivity.
      * constructor.
      * unfold flat_exp, enc_pending; simpl. rewrite app_nil_r.
        change (RLE_INIT =? RLE_RUN) with false. change (RLE_INIT =? RLE_MIX) with false.
        rewrite app_nil_r. rewrite repeat_snoc. f_equal. lia.
    + exists []. cbn [fst snd]. repeat split; try constructor; try lia; auto.
      unfold flat_exp, enc_pending; simpl. rewrite repeat_snoc. f_equal. lia.
  - (* the run ends *)
    exists [PRun len l]. cbn [fst snd]. repeat split.
    + constructor; [|constructor]. unfold pkt_ok, RLE_MIN_RUN, RLE_MAX_RUN. split; [lia|auto].
    + unfold flat_ser; simpl. unfold rle_enc_run_ctl_end. rewrite lor128 by lia.
      rewrite !u8_id by (unfold byte in *; lia). reflexivity.
    + apply wf_mix1; auto.
    + unfold flat_exp, enc_pending; simpl. now rewrite app_nil_r.
Qed.

Lemma step_mix1 l sec b : byte l -> sec <> l -> byte b -> step_ok (mk_rle_enc RLE_MIX [l] 1 l sec) b.
Proof.
  intros Hl Hs Hb. unfold step_ok, rle_enc_step. cbn [re_state re_last re_len re_buf re_second].
  change (RLE_MIX =? RLE_INIT) with false. change (RLE_MIX =? RLE_RUN) with false. cbv iota.
  destruct (Z.eqb_spec b l) as [->|Hne]; cbn [andb].
  - destruct (Z.eqb_spec l sec) as [E|_]; [congruence|].
    exists []. cbn [fst snd]. unfold rle_enc_mix_limit. change (128 <=? 1 + 1) with false. cbv iota.
    repeat split; try constructor.
    + apply (wf_mix2 [] l l); auto. simpl; lia.
  - exists []. cbn [fst snd]. unfold rle_enc_mix_limit. change (128 <=? 1 + 1) with false. cbv iota.
    repeat split; try constructor.
    + apply (wf_mix2 [] l b); auto. simpl; lia.
Qed.

Lemma Forall_app_iff {A} (P : A -> Prop) a b : Forall P (a ++ b) <-> Forall P a /\ Forall P b.
Proof. apply Forall_app. Qed.

Lemma step_mix2 pre sec l b : Forall byte pre -> byte sec -> byte l -> zlen pre + 2 < 128 -> byte b ->
  step_ok (mk_rle_enc RLE_MIX (pre ++ [sec; l]) (zlen pre + 2) l sec) b.
Proof.
  intros Hpre Hs Hl Hlen Hb. pose proof (zlen_nonneg pre) as Hp0.
  unfold step_ok, rle_enc_step. cbn [re_state re_last re_len re_buf re_second].
  change (RLE_MIX =? RLE_INIT) with false. change (RLE_MIX =? RLE_RUN) with false. cbv iota.
  destruct (Z.eqb_spec b l) as [->|Hne]; cbn [andb].
  - destruct (Z.eqb_spec l sec) as [<-|Hne2].
    + (* a run starts: the mix without its last two bytes is written out *)
      unfold rle_enc_torun_keep, rle_enc_run_start.
      destruct (Z.ltb_spec (3 - 1) (zlen pre + 2)).
      * exists [PMix pre]. cbn [fst snd]. repeat split.
        -- constructor; [|constructor]. unfold pkt_ok, RLE_MIN_MIX, RLE_BUF_SIZE. split; [lia|auto].
        -- unfold flat_ser; simpl. rewrite app_nil_r. unfold rle_enc_mix_ctl_torun, rle_enc_mix_len_torun.
           rewrite u8_id by lia. f_equal; [lia|].
           replace (zlen pre + 2 - (3 - 1)) with (zlen pre) by lia. apply ztake_app_exact.
        -- apply wf_run; auto; lia.
        -- unfold flat_exp, enc_pending; simpl. rewrite app_nil_r. rewrite <- app_assoc. reflexivity.
      * assert (pre = []) as -> by (destruct pre; [reflexivity | rewrite zlen_cons in *; pose proof (zlen_nonneg pre); lia]).
        exists []. cbn [fst snd]. repeat split; try constructor; auto; lia.
    + (* mix continues *)
      unfold rle_enc_mix_limit.
      destruct (Z.leb_spec 128 (zlen pre + 2 + 1)).
      * exists [PMix ((pre ++ [sec; l]) ++ [l])]. cbn [fst snd].
        assert (Hz : zlen ((pre ++ [sec; l]) ++ [l]) = zlen pre + 3) by (rewrite !zlen_app; simpl; unfold zlen; simpl; lia).
        repeat split.
        -- constructor; [|constructor]. unfold pkt_ok, RLE_MIN_MIX, RLE_BUF_SIZE. split; [lia|].
           rewrite !Forall_app_iff. repeat split; auto.
        -- unfold flat_ser; simpl. rewrite app_nil_r. unfold rle_enc_mix_ctl_full, rle_enc_mix_len_full.
           rewrite u8_id by lia. f_equal; [lia|]. apply ztake_all. lia.
        -- constructor.
        -- unfold flat_exp, enc_pending; simpl. now rewrite !app_nil_r.
      * exists []. cbn [fst snd]. repeat split; try constructor.
        -- replace ((pre ++ [sec; l]) ++ [l]) with ((pre ++ [sec]) ++ [l; l]) by (rewrite <- !app_assoc; reflexivity).
           replace (zlen pre + 2 + 1) with (zlen (pre ++ [sec]) + 2) by (rewrite zlen_app; unfold zlen; simpl; lia).
           apply wf_mix2; auto. ++ rewrite Forall_app_iff; split; auto. ++ rewrite zlen_app; unfold zlen in *; simpl; lia.
  - unfold rle_enc_mix_limit.
    destruct (Z.leb_spec 128 (zlen pre + 2 + 1)).
    + exists [PMix ((pre ++ [sec; l]) ++ [b])]. cbn [fst snd].
      assert (Hz : zlen ((pre ++ [sec; l]) ++ [b]) = zlen pre + 3) by (rewrite !zlen_app; simpl; unfold zlen; simpl; lia).
      repeat split.
      * constructor; [|constructor]. unfold pkt_ok, RLE_MIN_MIX, RLE_BUF_SIZE. split; [lia|].
        rewrite !Forall_app_iff. repeat split; auto.
      * unfold flat_ser; simpl. rewrite app_nil_r. unfold rle_enc_mix_ctl_full, rle_enc_mix_len_full.
        rewrite u8_id by lia. f_equal; [lia|]. apply ztake_all. lia.
      * constructor.
      * unfold flat_exp, enc_pending; simpl. now rewrite !app_nil_r.
    + exists []. cbn [fst snd]. repeat split; try constructor.
      replace ((pre ++ [sec; l]) ++ [b]) with ((pre ++ [sec]) ++ [l; b]) by (rewrite <- !app_assoc; reflexivity).
      replace (zlen pre + 2 + 1) with (zlen (pre ++ [sec]) + 2) by (rewrite zlen_app; unfold zlen; simpl; lia).
      apply wf_mix2; auto. * rewrite Forall_app_iff; split; auto. * rewrite zlen_app; unfold zlen in *; simpl; lia.
Qed.

Lemma enc_step_ok s b : enc_wf s -> byte b -> step_ok s b.
Proof.
  intros W Hb. destruct W.
  - now apply step_init.
  - now apply step_run.
  - now apply step_mix1.
  - now apply step_mix2.
Qed.

Lemma enc_encode_ok bs : forall s, enc_wf s -> Forall byte bs ->
  exists ps, Forall pkt_ok ps /\ snd (rle_encode s bs) = flat_ser ps /\ enc_wf (fst (rle_encode s bs)) /\
             flat_exp ps ++ enc_pending (fst (rle_encode s bs)) = enc_pending s ++ bs.
Proof.
  induction bs as [|b t IH]; intros s W Hbs.
  - exists []. simpl. repeat split; auto. now rewrite app_nil_r.
  - inversion Hbs as [|? ? Hb Ht]; subst.
    destruct (enc_step_ok s b W Hb) as (ps1 & P1 & S1 & W1 & E1).
    simpl. destruct (rle_enc_step s b) as [s1 o1] eqn:Es. simpl in *.
    destruct (IH s1 W1 Ht) as (ps2 & P2 & S2 & W2 & E2).
    destruct (rle_encode s1 t) as [s2 o2] eqn:Et. simpl in *.
    exists (ps1 ++ ps2). repeat split.
    + apply Forall_app; auto.
    + rewrite flat_ser_app. congruence.
    + auto.
    + rewrite flat_exp_app, <- app_assoc, E2, app_assoc, E1, <- app_assoc. reflexivity.
Qed.

Lemma enc_calls_ok calls : forall s, enc_wf s -> Forall (Forall byte) calls ->
  exists ps, Forall pkt_ok ps /\ snd (rle_encode_calls s calls) = flat_ser ps /\
             enc_wf (fst (rle_encode_calls s calls)) /\
             flat_exp ps ++ enc_pending (fst (rle_encode_calls s calls)) = enc_pending s ++ concat calls.
Proof.
  induction calls as [|c t IH]; intros s W Hc.
  - exists []. simpl. repeat split; auto. now rewrite app_nil_r.
  - inversion Hc as [|? ? Hb Ht]; subst.
    destruct (enc_encode_ok c s W Hb) as (ps1 & P1 & S1 & W1 & E1).
    simpl. destruct (rle_encode s c) as [s1 o1] eqn:Es. simpl in *.
    destruct (IH s1 W1 Ht) as (ps2 & P2 & S2 & W2 & E2).
    destruct (rle_encode_calls s1 t) as [s2 o2] eqn:Et. simpl in *.
    exists (ps1 ++ ps2). repeat split.
    + apply Forall_app; auto.
    + rewrite flat_ser_app. congruence.
    + auto.
    + rewrite flat_exp_app, <- app_assoc, E2, app_assoc, E1, <- app_assoc. reflexivity.
Qed.

(** the partition into calls is irrelevant for the encoder *)
Lemma rle_encode_app a : forall s b,
  rle_encode s (a ++ b) = let '(s1, o1) := rle_encode s a in let '(s2, o2) := rle_encode s1 b in (s2, o1 ++ o2).
Proof.
  induction a as [|x t IH]; intros s b; simpl.
  - destruct (rle_encode s b); reflexivity.
  - destruct (rle_enc_step s x) as [s1 o1]. rewrite IH.
    destruct (rle_encode s1 t) as [s2 o2]. destruct (rle_encode s2 b) as [s3 o3]. now rewrite app_assoc.
Qed.
Lemma rle_encode_calls_concat calls : forall s, rle_encode_calls s calls = rle_encode s (concat calls).
Proof.
  induction calls as [|c t IH]; intros s; simpl; [reflexivity|].
  rewrite rle_encode_app. destruct (rle_encode s c) as [s1 o1]. rewrite IH. reflexivity.
Qed.

Lemma enc_term_ok s : enc_wf s -> re_state s <> RLE_INIT ->
  exists p, pkt_ok p /\ snd (rle_term s) = pkt_ser p /\ pkt_exp p = enc_pending s.
Proof.
  intros W Hs. destruct W; [now elim Hs | | | ].
  - exists (PRun len b). unfold rle_term, enc_pending. cbn [snd re_state re_len re_last re_buf pkt_ser pkt_exp pkt_ok].
    change (RLE_RUN =? RLE_RUN) with true. cbv iota. repeat split; auto;
      try (unfold RLE_MIN_RUN, RLE_MAX_RUN, byte in *; lia).
    unfold rle_term_run_ctl. rewrite lor128 by lia. rewrite !u8_id by (unfold byte in *; lia). reflexivity.
  - exists (PMix [b]). unfold rle_term, enc_pending. cbn [snd re_state re_len re_last re_buf pkt_ser pkt_exp pkt_ok].
    change (RLE_MIX =? RLE_RUN) with false. change (RLE_MIX =? RLE_MIX) with true. cbv iota. repeat split; auto;
      try (unfold RLE_MIN_MIX, RLE_BUF_SIZE, zlen, byte in *; simpl; lia).
  - exists (PMix (pre ++ [sec; b])). unfold rle_term, enc_pending.
    cbn [snd re_state re_len re_last re_buf pkt_ser pkt_exp pkt_ok].
    change (RLE_MIX =? RLE_RUN) with false. change (RLE_MIX =? RLE_MIX) with true. cbv iota.
    assert (Hz : zlen (pre ++ [sec; b]) = zlen pre + 2) by (rewrite zlen_app; unfold zlen; simpl; lia).
    pose proof (zlen_nonneg pre). repeat split; try (unfold RLE_MIN_MIX, RLE_BUF_SIZE; lia).
    + rewrite Forall_app_iff; split; auto.
    + unfold rle_term_mix_ctl, rle_term_mix_len. rewrite u8_id by lia. f_equal; [lia|]. apply ztake_all; lia.
Qed.

(** A write session (any partition into Hwrite calls, then Hendaccess) emits a well-formed packet stream
    that expands to exactly the bytes written. *)
Lemma rle_write_session_packets calls : Forall (Forall byte) calls ->
  exists ps, Forall pkt_ok ps /\ rle_write_session calls = flat_ser ps /\ flat_exp ps = concat calls.
Proof.
  intros Hc. unfold rle_write_session.
  destruct (enc_calls_ok calls rle_enc_init (wf_init _ _) Hc) as (ps & P & S & W & E).
  destruct (rle_encode_calls rle_enc_init calls) as [s o]. cbn [fst snd] in *.
  change (enc_pending rle_enc_init) with (@nil Z) in E. cbn [app] in E.
  destruct (Z.eqb_spec (re_state s) RLE_INIT) as [Ei|Ne].
  - exists ps. repeat split; auto. + now rewrite app_nil_r.
    + unfold enc_pending in E. rewrite Ei in E. change (RLE_INIT =? RLE_RUN) with false in E.
      change (RLE_INIT =? RLE_MIX) with false in E. now rewrite app_nil_r in E.
  - destruct (enc_term_ok s W Ne) as (p & Pp & Sp & Ep).
    exists (ps ++ [p]). repeat split.
    + apply Forall_app; split; auto.
    + rewrite flat_ser_app, S, Sp. unfold flat_ser; simpl. now rewrite app_nil_r.
    + rewrite flat_exp_app. unfold flat_exp at 2; simpl. rewrite app_nil_r, Ep. exact E.
Qed.

(** * the decoder *)
Definition dec_pending (d : rle_dec) : list Z :=
  if rd_state d =? RLE_RUN then repeat (rd_last d) (Z.to_nat (rd_len d))
  else if rd_state d =? RLE_MIX then rd_buf d else [].

Inductive dec_wf : rle_dec -> Prop :=
| dwf_init len last buf inp off : dec_wf (mk_rle_dec RLE_INIT len last buf inp off)
| dwf_run len last buf inp off : 1 <= len -> dec_wf (mk_rle_dec RLE_RUN len last buf inp off)
| dwf_mix last buf inp off : 1 <= zlen buf -> dec_wf (mk_rle_dec RLE_MIX (zlen buf) last buf inp off).

Lemma dec_fetch_ok rest d ps n :
  dec_wf d -> Forall pkt_ok ps -> rd_in d = flat_ser ps ++ rest ->
  0 < n <= zlen (dec_pending d ++ flat_exp ps) ->
  exists d1 ps1, rle_dec_fetch d = Some d1 /\ dec_wf d1 /\ rd_state d1 <> RLE_INIT /\ Forall pkt_ok ps1 /\
    rd_in d1 = flat_ser ps1 ++ rest /\ dec_pending d1 ++ flat_exp ps1 = dec_pending d ++ flat_exp ps /\
    rd_off d1 = rd_off d.
Proof.
  intros W P I N. destruct W.
  - (* INIT: a control byte must be there *)
    unfold dec_pending in N. cbn [rd_state] in N. change (RLE_INIT =? RLE_RUN) with false in N.
    change (RLE_INIT =? RLE_MIX) with false in N. cbn [app] in N.
    destruct ps as [|p ps0]; [unfold flat_exp, zlen in N; simpl in N; lia|].
    inversion P as [|? ? Pp P0]; subst. cbn [rd_in] in I.
    unfold rle_dec_fetch. cbn [rd_state rd_in rd_buf rd_off rd_last]. change (RLE_INIT =? RLE_INIT) with true. cbv iota.
    destruct p as [m b|l]; unfold flat_ser in I; cbn [map concat pkt_ser app] in I; subst inp.
    + destruct Pp as [Hm Hb]. unfold RLE_MIN_RUN, RLE_MAX_RUN in Hm.
      unfold rle_dec_is_run, rle_dec_run_len. destruct (land128_hi (m - 3)) as [E1 E2]; [lia|].
      rewrite E1, E2. change (negb (128 =? 0)) with true. cbv iota.
      eexists; exists ps0. split; [reflexivity|]. repeat split; auto.
      * apply dwf_run; lia.
      * cbn [rd_state]; unfold RLE_RUN, RLE_INIT; lia.
      * unfold dec_pending. cbn [rd_state rd_last rd_len]. change (RLE_RUN =? RLE_RUN) with true. cbv iota.
        change (RLE_INIT =? RLE_RUN) with false. change (RLE_INIT =? RLE_MIX) with false. cbv iota.
        unfold flat_exp. cbn [map concat pkt_exp app]. f_equal. f_equal. lia.
    + destruct Pp as [Hl Hb]. unfold RLE_MIN_MIX, RLE_BUF_SIZE in Hl.
      unfold rle_dec_is_run, rle_dec_mix_len. destruct (land128_lo (zlen l - 1)) as [E1 E2]; [lia|].
      rewrite E1, E2. change (negb (0 =? 0)) with false. cbv iota.
      replace (zlen l - 1 + 1) with (zlen l) by lia.
      rewrite <- app_assoc. rewrite zlen_app.
      destruct (Z.ltb_spec (zlen l + zlen (concat (map pkt_ser ps0) ++ rest)) (zlen l)) as [Hbad|_];
        [pose proof (zlen_nonneg (concat (map pkt_ser ps0) ++ rest)); lia|].
      rewrite ztake_app_exact, zdrop_app_exact.
      eexists; exists ps0. split; [reflexivity|]. repeat split; auto;
        try (apply dwf_mix; lia); try (cbn [rd_state]; unfold RLE_MIX, RLE_INIT; lia).
  - exists (mk_rle_dec RLE_RUN len last buf inp off), ps. unfold rle_dec_fetch. cbn [rd_state].
    change (RLE_RUN =? RLE_INIT) with false. cbv iota. repeat split; auto.
    + apply dwf_run; auto. + unfold RLE_RUN, RLE_INIT; lia.
  - exists (mk_rle_dec RLE_MIX (zlen buf) last buf inp off), ps. unfold rle_dec_fetch. cbn [rd_state].
    change (RLE_MIX =? RLE_INIT) with false. cbv iota. repeat split; auto.
    + apply dwf_mix; auto. + unfold RLE_MIX, RLE_INIT; lia.
Qed.

Lemma dec_iter_ok rest d ps n :
  dec_wf d -> Forall pkt_ok ps -> rd_in d = flat_ser ps ++ rest ->
  0 < n <= zlen (dec_pending d ++ flat_exp ps) ->
  exists d2 ps2 k, rle_dec_iter d n = Some (d2, ztake k (dec_pending d ++ flat_exp ps)) /\ 0 < k <= n /\
    zlen (ztake k (dec_pending d ++ flat_exp ps)) = k /\
    dec_wf d2 /\ Forall pkt_ok ps2 /\ rd_in d2 = flat_ser ps2 ++ rest /\
    dec_pending d2 ++ flat_exp ps2 = zdrop k (dec_pending d ++ flat_exp ps) /\ rd_off d2 = rd_off d.
Proof.
  intros W P I N.
  destruct (dec_fetch_ok rest d ps n W P I N) as (d1 & ps1 & F & W1 & S1 & P1 & I1 & E1 & O1).
  unfold rle_dec_iter. rewrite F. rewrite <- E1 in *. clear F E1.
  destruct W1 as [| len last buf inp off Hlen | last buf inp off Hlen]; [now elim S1 | |].
  - (* RUN *)
    cbn [rd_state rd_len rd_last rd_buf rd_in rd_off] in *.
    change (RLE_RUN =? RLE_RUN) with true. cbv iota.
    set (k := if len <? n then len else n).
    assert (Hk : 0 < k <= n /\ k <= len) by (subst k; destruct (Z.ltb_spec len n); lia).
    assert (Hpend : dec_pending (mk_rle_dec RLE_RUN len last buf inp off) = repeat last (Z.to_nat len)) by reflexivity.
    rewrite !Hpend. clear Hpend.
    eexists; exists ps1, k. split; [|split; [lia|]].
    + f_equal. f_equal. rewrite ztake_app_l by (rewrite zlen_repeat; lia).
      rewrite ztake_repeat by lia. reflexivity.
    + split; [rewrite zlen_ztake; [lia | rewrite zlen_app, zlen_repeat; pose proof (zlen_nonneg (flat_exp ps1)); lia]|].
      rewrite zdrop_app_l by (rewrite zlen_repeat; lia). rewrite zdrop_repeat by lia.
      destruct (Z.leb_spec (len - k) 0).
      * repeat split; auto. -- constructor.
        -- unfold dec_pending. cbn [rd_state]. change (RLE_INIT =? RLE_RUN) with false.
           change (RLE_INIT =? RLE_MIX) with false. cbv iota.
           replace (Z.to_nat len - Z.to_nat k)%nat with O by lia. reflexivity.
      * repeat split; auto. -- apply dwf_run; lia.
        -- unfold dec_pending. cbn [rd_state rd_last rd_len]. change (RLE_RUN =? RLE_RUN) with true. cbv iota.
           f_equal. f_equal. lia.
  - (* MIX *)
    cbn [rd_state rd_len rd_last rd_buf rd_in rd_off] in *.
    change (RLE_MIX =? RLE_RUN) with false. cbv iota.
    set (k := if zlen buf <? n then zlen buf else n).
    assert (Hk : 0 < k <= n /\ k <= zlen buf) by (subst k; destruct (Z.ltb_spec (zlen buf) n); lia).
    assert (Hpend : dec_pending (mk_rle_dec RLE_MIX (zlen buf) last buf inp off) = buf) by reflexivity.
    rewrite !Hpend. clear Hpend.
    eexists; exists ps1, k. split; [|split; [lia|]].
    + f_equal. f_equal. rewrite ztake_app_l by lia. reflexivity.
    + split; [rewrite zlen_ztake; [lia | rewrite zlen_app; pose proof (zlen_nonneg (flat_exp ps1)); lia]|].
      rewrite zdrop_app_l by lia.
      destruct (Z.leb_spec (zlen buf - k) 0).
      * repeat split; auto. -- constructor.
        -- unfold dec_pending. cbn [rd_state]. change (RLE_INIT =? RLE_RUN) with false.
           change (RLE_INIT =? RLE_MIX) with false. cbv iota.
           rewrite zdrop_all by lia. reflexivity.
      * repeat split; auto.
        -- replace (zlen buf - k) with (zlen (zdrop k buf)) by (rewrite zlen_zdrop; lia).
           apply dwf_mix. rewrite zlen_zdrop; lia.
Qed.

Lemma dec_loop_ok rest : forall fuel d ps n,
  dec_wf d -> Forall pkt_ok ps -> rd_in d = flat_ser ps ++ rest ->
  0 <= n <= zlen (dec_pending d ++ flat_exp ps) -> (Z.to_nat n <= fuel)%nat ->
  exists d' ps', rle_dec_loop fuel d n = Some (d', ztake n (dec_pending d ++ flat_exp ps)) /\
     dec_wf d' /\ Forall pkt_ok ps' /\ rd_in d' = flat_ser ps' ++ rest /\
     dec_pending d' ++ flat_exp ps' = zdrop n (dec_pending d ++ flat_exp ps) /\ rd_off d' = rd_off d.
Proof.
  induction fuel as [|f IH]; intros d ps n W P I N Hf.
  - assert (n = 0) by lia. subst. exists d, ps. simpl. repeat split; auto.
  - destruct (Z.leb_spec n 0) as [Hn|Hn].
    + assert (n = 0) by lia. subst. exists d, ps. simpl. repeat split; auto.
    + cbn [rle_dec_loop]. destruct (Z.leb_spec n 0); [lia|].
      destruct (dec_iter_ok rest d ps n W P I) as (d2 & ps2 & k & It & Hk & Lk & W2 & P2 & I2 & E2 & O2); [lia|].
      rewrite It, Lk. destruct (Z.eqb_spec k 0); [lia|].
      set (all := dec_pending d ++ flat_exp ps) in *.
      destruct (IH d2 ps2 (n - k) W2 P2 I2) as (d3 & ps3 & L3 & W3 & P3 & I3 & E3 & O3).
      * rewrite E2. rewrite zlen_zdrop; lia.
      * lia.
      * rewrite L3. exists d3, ps3. repeat split; auto.
        -- f_equal. f_equal. rewrite E2. replace n with (k + (n - k)) at 2 by lia.
           rewrite ztake_add by lia. reflexivity.
        -- rewrite E3, E2. replace n with (k + (n - k)) at 2 by lia. rewrite zdrop_add by lia. reflexivity.
        -- congruence.
Qed.

(** * reads and seeks on one access id *)
Definition dec_inv (rest data : list Z) (d : rle_dec) : Prop :=
  exists ps, dec_wf d /\ Forall pkt_ok ps /\ rd_in d = flat_ser ps ++ rest /\
             dec_pending d ++ flat_exp ps = zdrop (rd_off d) data /\ 0 <= rd_off d <= zlen data.

Lemma dec_inv_init rest ps : Forall pkt_ok ps -> dec_inv rest (flat_exp ps) (rle_dec_init (flat_ser ps ++ rest)).
Proof.
  intros P. exists ps. unfold rle_dec_init. repeat split; auto.
  - constructor. - cbn [rd_off]. lia. - cbn [rd_off]. apply zlen_nonneg.
Qed.

Lemma decode_inv rest data d n : dec_inv rest data d -> 0 <= n -> rd_off d + n <= zlen data ->
  exists d', rle_decode d n = Some (d', ztake n (zdrop (rd_off d) data)) /\ dec_inv rest data d' /\
             rd_off d' = rd_off d + n.
Proof.
  intros (ps & W & P & I & E & O) Hn Hr.
  destruct (dec_loop_ok rest (Z.to_nat n) d ps n W P I) as (d1 & ps1 & L & W1 & P1 & I1 & E1 & O1).
  - rewrite E. rewrite zlen_zdrop; lia.
  - lia.
  - unfold rle_decode. rewrite L. rewrite E in *. eexists. split; [reflexivity|]. split; [|cbn [rd_off]; lia].
    exists ps1. cbn [rd_in rd_off]. repeat split; auto; try lia.
    + destruct W1; constructor; auto.
    + replace (dec_pending _) with (dec_pending d1) by (destruct d1; reflexivity).
      rewrite E1. rewrite <- zdrop_add by lia. f_equal. lia.
Qed.

Lemma skip_chunks_inv rest data offset : forall fuel d, dec_inv rest data d ->
  rd_off d <= offset <= zlen data ->
  exists d', rle_skip_chunks fuel d offset = Some d' /\ dec_inv rest data d' /\ rd_off d <= rd_off d' <= offset.
Proof.
  induction fuel as [|f IH]; intros d D R; cbn [rle_skip_chunks].
  - exists d. repeat split; auto; lia.
  - destruct (Z.ltb_spec (rd_off d + TMP_BUF_SIZE) offset).
    + destruct (decode_inv rest data d TMP_BUF_SIZE D) as (d1 & Dc & D1 & O1); [unfold TMP_BUF_SIZE; lia | lia |].
      rewrite Dc. destruct (IH d1 D1) as (d2 & S2 & D2 & O2); [lia|].
      exists d2. repeat split; auto; unfold TMP_BUF_SIZE in *; lia.
    + exists d. repeat split; auto; lia.
Qed.

Lemma seek_inv rest ps d offset : Forall pkt_ok ps -> dec_inv rest (flat_exp ps) d ->
  0 <= offset <= zlen (flat_exp ps) ->
  exists d', rle_seek (flat_ser ps ++ rest) d offset = Some d' /\ dec_inv rest (flat_exp ps) d' /\ rd_off d' = offset.
Proof.
  intros P D R. unfold rle_seek.
  replace (negb (rle_seek_restarts offset (rd_off d) =? 0)) with (offset <? rd_off d)
    by (unfold rle_seek_restarts; destruct (offset <? rd_off d); reflexivity).
  set (d0 := if offset <? rd_off d then rle_dec_init (flat_ser ps ++ rest) else d).
  assert (D0 : dec_inv rest (flat_exp ps) d0 /\ rd_off d0 <= offset).
  { subst d0. destruct (Z.ltb_spec offset (rd_off d)).
    - split; [now apply dec_inv_init | cbn [rle_dec_init rd_off]; lia].
    - split; [assumption | lia]. }
  destruct D0 as [D0 O0].
  destruct (skip_chunks_inv rest (flat_exp ps) offset (Z.to_nat (offset / TMP_BUF_SIZE + 1)) d0 D0) as (d1 & S1 & D1 & O1); [lia|].
  rewrite S1. destruct (Z.ltb_spec (rd_off d1) offset).
  - destruct (decode_inv rest (flat_exp ps) d1 (offset - rd_off d1) D1) as (d2 & Dc & D2 & O2); [lia | lia |].
    rewrite Dc. exists d2. repeat split; auto. lia.
  - exists d1. repeat split; auto. lia.
Qed.

Lemma run_reads_ok rest ps : Forall pkt_ok ps -> forall ops d, dec_inv rest (flat_exp ps) d ->
  reads_in_range (zlen (flat_exp ps)) (rd_off d) ops = true ->
  rle_run_reads (flat_ser ps ++ rest) d ops = Some (spec_run_reads (flat_exp ps) (rd_off d) ops).
Proof.
  intros P. induction ops as [|o t IH]; intros d D R; cbn [rle_run_reads spec_run_reads]; [reflexivity|].
  destruct o as [n|off]; cbn [reads_in_range] in R; rewrite !andb_true_iff in R; destruct R as [[R1 R2] R3];
    apply Z.leb_le in R1, R2.
  - destruct (decode_inv rest (flat_exp ps) d n D R1 R2) as (d1 & Dc & D1 & O1).
    rewrite Dc. rewrite <- O1 in R3. rewrite (IH d1 D1 R3). rewrite O1. reflexivity.
  - destruct (seek_inv rest ps d off P D) as (d1 & Sk & D1 & O1); [lia|].
    rewrite Sk. rewrite <- O1 in R3. rewrite (IH d1 D1 R3). rewrite O1. reflexivity.
Qed.

(** * the round trip *)
Lemma rle_roundtrip_lemma : forall (calls : list (list Z)) (ops : list rop) (rest : list Z),
  Forall (Forall byte) calls ->
  reads_in_range (zlen (concat calls)) 0 ops = true ->
  let stream := rle_write_session calls ++ rest in
  rle_run_reads stream (rle_dec_init stream) ops = Some (spec_run_reads (concat calls) 0 ops).
Proof.
  intros calls ops rest Hc R stream. subst stream.
  destruct (rle_write_session_packets calls Hc) as (ps & P & S & E).
  rewrite S, <- E in *.
  apply (run_reads_ok rest ps P ops (rle_dec_init (flat_ser ps ++ rest))); [now apply dec_inv_init | exact R].
Qed.

(** the stream does not depend on how the writes were partitioned *)
Lemma rle_partition_irrelevant_lemma : forall calls1 calls2,
  concat calls1 = concat calls2 -> rle_write_session calls1 = rle_write_session calls2.
Proof.
  intros c1 c2 E. unfold rle_write_session. now rewrite !rle_encode_calls_concat, E.
Qed.

(** emitted control bytes stay within one byte and runs/mixes within the format limits *)
Lemma rle_run_limits_lemma : forall calls, Forall (Forall byte) calls ->
  exists ps, rle_write_session calls = flat_ser ps /\ flat_exp ps = concat calls /\
    Forall (fun p => match p with
                     | PRun n b => 3 <= n <= 130 /\ 128 <= 128 + (n - 3) <= 255
                     | PMix l => 1 <= zlen l <= 128 /\ 0 <= zlen l - 1 <= 127
                     end) ps.
Proof.
  intros calls Hc. destruct (rle_write_session_packets calls Hc) as (ps & P & S & E).
  exists ps. repeat split; auto. eapply Forall_impl; [|exact P].
  intros [n b|l]; unfold pkt_ok, RLE_MIN_RUN, RLE_MAX_RUN, RLE_MIN_MIX, RLE_BUF_SIZE; intros [H _]; lia.
Qed.

(** whole-stream decoder used on raw library output *)
Lemma rle_decode_all_lemma : forall calls rest, Forall (Forall byte) calls ->
  rle_decode_all (rle_write_session calls ++ rest) (zlen (concat calls)) = Some (concat calls).
Proof.
  intros calls rest Hc. destruct (rle_write_session_packets calls Hc) as (ps & P & S & E).
  unfold rle_decode_all. rewrite S, <- E.
  destruct (decode_inv rest (flat_exp ps) (rle_dec_init (flat_ser ps ++ rest)) (zlen (flat_exp ps)))
    as (d1 & Dc & _ & _); [now apply dec_inv_init | apply zlen_nonneg | cbn [rle_dec_init rd_off]; lia |].
  rewrite Dc. cbn [rle_dec_init rd_off]. rewrite zdrop_0 by lia. rewrite ztake_all by lia. reflexivity.
Qed.
