(** Extraction of the C17 specification and model (ExtrOcamlBasic only; Z/positive/nat stay inductive). *)
Require Import H4.CrashSpec H4.CrashModel.
Require Extraction.
Require ExtrOcamlBasic.
Extraction "../extract/gen/crash_model.ml" parse_file old_end preserves wf_image write_at apply_log log_above crash_safe
  all_dds load run_ops sync episodes session op_ok.
