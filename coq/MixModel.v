(** C15 -- implementation model M: the records of the older storage conventions as the code writes and reads
    them.  No proofs in this file (total computable definitions; extracted to OCaml).

    Field sequences (widths, signedness, order) of the SDD, ID and ID8 records are *not* written down here: they
    are interpreted from the lists the translator reads off the ENCODE/DECODE macro calls of the current sources
    (gen/Gen_Mix.v: DFR8putrig_ID, DFR8getrig_ID, DFGRaddrig_ID, DFGRgetrig_ID, GRIupdatemeta_ID, DFSDIputndg_SDD,
    DFSDIgetndg_SDD, hdf_write_var_SDD, hdf_read_rank_f, hdf_read_dimsizes_f, hdf_read_NT_f).

    Modelled functions:
      writers  hdf_write_var (cdf.c: NT, SDD, NDG and the Var0.0 Vgroup description of one variable),
               DFSDIputndg (dfsd.c: NT, SDD, NDG), DFR8putrig (dfr8.c: NT, ID, ID8, RIG), DFGRaddrig (dfgr.c),
               GRIupdatemeta + GRIupdateRIG (mfgr.c)
      readers  hdf_read_ndgs (hdfsds.c: one NDG/SDG -> rank, dims, type, data ref), hdf_read_vars (cdf.c: the same
               from the Vgroup description), DFSDIgetndg (dfsd.c), DFR8getrig (dfr8.c), DFGRgetrig (dfgr.c)
      maps     interlace codes DFIL_* <-> MFGR_INTERLACE_*, dimension order (x,y), palette shape 256 x 3            *)
From Coq Require Import String ZArith Bool List.
Require Import H4.gen.Gen_Mix.
Import ListNotations.
Local Open Scope Z_scope.

(* ------------------------------------------------------------------------------------------ big-endian *)
Fixpoint be_enc (w : nat) (v : Z) : list Z :=
  match w with O => [] | S k => (v / 256 ^ Z.of_nat k) mod 256 :: be_enc k v end.
Fixpoint be_dec (l : list Z) (acc : Z) : Z :=
  match l with [] => acc | b :: r => be_dec r (acc * 256 + b) end.

Definition field := (Z * bool * string)%type.
Definition f_width (f : field) : Z := fst (fst f).
Definition f_signed (f : field) : bool := snd (fst f).
Definition f_name (f : field) : string := snd f.

Definition enc_val (w : Z) (v : Z) : list Z := be_enc (Z.to_nat w) (v mod 256 ^ w).
Definition dec_val (w : Z) (signed : bool) (bytes : list Z) : Z :=
  let u := be_dec bytes 0 in
  if signed && (2 ^ (8 * w - 1) <=? u) then u - 2 ^ (8 * w) else u.

Fixpoint enc_fields (l : list field) (env : string -> Z) : list Z :=
  match l with [] => [] | f :: r => enc_val (f_width f) (env (f_name f)) ++ enc_fields r env end.

Fixpoint dec_fields (l : list field) (bytes : list Z) : option (list (string * Z)) :=
  match l with
  | [] => Some []
  | f :: r =>
      let k := Z.to_nat (f_width f) in
      if (length bytes <? k)%nat then None
      else match dec_fields r (skipn k bytes) with
           | None => None
           | Some e => Some ((f_name f, dec_val (f_width f) (f_signed f) (firstn k bytes)) :: e)
           end
  end.

Fixpoint lookup (e : list (string * Z)) (n : string) : Z :=
  match e with [] => 0 | (m, v) :: r => if String.eqb m n then v else lookup r n end.

(** first field of a layout with the given name (width 0 when the layout has none: nothing is encoded) *)
Fixpoint fld (l : list field) (n : string) : field :=
  match l with [] => (0, false, n) | f :: r => if String.eqb (f_name f) n then f else fld r n end.

(* -------------------------------------------------------------------------------- image description (ID) *)
Record idrec := mkId { id_x : Z; id_y : Z; id_nt_tag : Z; id_nt_ref : Z; id_ncomp : Z; id_il : Z;
                       id_ctag : Z; id_cref : Z }.

Definition id_env (r : idrec) (n : string) : Z :=
  if String.eqb n "xdim" then id_x r else if String.eqb n "ydim" then id_y r
  else if String.eqb n "nt_tag" then id_nt_tag r else if String.eqb n "nt_ref" then id_nt_ref r
  else if String.eqb n "ncomp" then id_ncomp r else if String.eqb n "il" then id_il r
  else if String.eqb n "il_pixel" then MFGR_INTERLACE_PIXEL      (* GR forces the stored interlace *)
  else if String.eqb n "c_tag" then id_ctag r else if String.eqb n "c_ref" then id_cref r else 0.

Definition id_of_env (e : list (string * Z)) : idrec :=
  mkId (lookup e "xdim") (lookup e "ydim") (lookup e "nt_tag") (lookup e "nt_ref") (lookup e "ncomp")
       (lookup e "il") (lookup e "c_tag") (lookup e "c_ref").

Definition id_encode (layout : list field) (r : idrec) : list Z := enc_fields layout (id_env r).
Definition id_decode (layout : list field) (bytes : list Z) : option idrec :=
  option_map id_of_env (dec_fields layout bytes).

(** the 8-bit raster description ID8: two unsigned 16-bit extents *)
Definition id8_encode (x y : Z) : list Z :=
  enc_fields DFR8putrig_ID8 (fun n => if String.eqb n "xdim" then x else y).

(* ------------------------------------------------------------------------------ dimension record (SDD) *)
Record sdd := mkSdd { sdd_rank : Z; sdd_dims : list Z; sdd_nts : list (Z * Z) }.

Definition enc_pair (l : list field) (p : Z * Z) : list Z :=
  enc_val (f_width (fld l "nt_tag")) (fst p) ++ enc_val (f_width (fld l "nt_ref")) (snd p).

(** rank, the extents, then one NT tag/ref for the data and one per dimension scale *)
Definition sdd_encode (l : list field) (s : sdd) : list Z :=
  enc_val (f_width (fld l "rank")) (sdd_rank s) ++
  flat_map (enc_val (f_width (fld l "dim"))) (sdd_dims s) ++
  flat_map (enc_pair l) (sdd_nts s).

(** n values of one field *)
Fixpoint read_n (f : field) (n : nat) (bytes : list Z) : option (list Z * list Z) :=
  match n with
  | O => Some ([], bytes)
  | S m =>
      let k := Z.to_nat (f_width f) in
      if (length bytes <? k)%nat then None
      else match read_n f m (skipn k bytes) with
           | None => None
           | Some (vs, rest) => Some (dec_val (f_width f) (f_signed f) (firstn k bytes) :: vs, rest)
           end
  end.

Fixpoint read_pairs (ft fr : field) (n : nat) (bytes : list Z) : option (list (Z * Z) * list Z) :=
  match n with
  | O => Some ([], bytes)
  | S m =>
      match read_n ft 1 bytes with
      | Some ([t], r1) =>
          match read_n fr 1 r1 with
          | Some ([r], r2) =>
              match read_pairs ft fr m r2 with
              | Some (ps, rest) => Some ((t, r) :: ps, rest)
              | None => None
              end
          | _ => None
          end
      | _ => None
      end
  end.

(** hdfsds.c: hdf_read_rank (rank must be positive), hdf_read_dimsizes (no negative extent), the data NT and one
    NT per dimension (hdf_read_NT) *)
Definition sd_read_sdd (bytes : list Z) : option sdd :=
  match read_n (fld hdf_read_rank_f "rank") 1 bytes with
  | Some ([rank], r1) =>
      if 0 <? rank then
        match read_n (fld hdf_read_dimsizes_f "dim") (Z.to_nat rank) r1 with
        | Some (dims, r2) =>
            if forallb (fun d => 0 <=? d) dims then
              match read_pairs (fld hdf_read_NT_f "nt_tag") (fld hdf_read_NT_f "nt_ref") (S (Z.to_nat rank)) r2 with
              | Some (nts, _) => Some (mkSdd rank dims nts)
              | None => None
              end
            else None
        | None => None
        end
      else None
  | _ => None
  end.

(** dfsd.c: DFSDIgetndg, case DFTAG_SDD (no range checks) *)
Definition dfsd_read_sdd (bytes : list Z) : option sdd :=
  let l := DFSDIgetndg_SDD in
  match read_n (fld l "rank") 1 bytes with
  | Some ([rank], r1) =>
      match read_n (fld l "dim") (Z.to_nat rank) r1 with
      | Some (dims, r2) =>
          match read_pairs (fld l "nt_tag") (fld l "nt_ref") (S (Z.to_nat rank)) r2 with
          | Some (nts, _) => Some (mkSdd rank dims nts)
          | None => None
          end
      | None => None
      end
  | _ => None
  end.

(* ---------------------------------------------------------------------------------- number type (NT) *)
(** dfconv.c: DFKgetPNSC -- the platform's class of a number type *)
Definition pnsc (nt : Z) : Z :=
  let b := Z.land nt 255 in
  if (b =? DFNT_CHAR8) || (b =? DFNT_UCHAR8) then Z.land DF_MT 15
  else if (b =? DFNT_FLOAT32) then Z.land (Z.shiftr DF_MT 8) 15
  else if (b =? DFNT_FLOAT64) then Z.land (Z.shiftr DF_MT 12) 15
  else Z.land (Z.shiftr DF_MT 4) 15.

Fixpoint assoc (l : list (Z * Z)) (k : Z) : option Z :=
  match l with [] => None | (a, b) :: r => if a =? k then Some b else assoc r k end.

Definition ntsize (nt : Z) : Z := match assoc DFKNTsize_switch (Z.land nt 255) with Some s => s | None => 0 end.

(** cdf.c hdf_write_var / dfsd.c DFSDIputndg: [version; type; width in bits; class] *)
Definition nt_encode (nt : Z) : list Z :=
  let outNT := if Z.testbit nt 12 then pnsc nt else if Z.testbit nt 14 then DFNTF_PC else DFNTF_IEEE in
  [DFNT_VERSION; Z.land nt 255; (ntsize nt * 8) mod 256; outNT].

(** dfr8.c DFR8putrig / dfgr.c DFGRaddrig: 8-bit characters; mfgr.c GRIupdatemeta: the image's own type *)
Definition nt_encode_r8 : list Z := [DFNT_VERSION; DFNT_UCHAR8; 8; DFNTC_BYTE].
Definition nt_encode_gr (nt : Z) : list Z := [DFNT_VERSION; Z.land nt 255; (ntsize nt * 8) mod 256; DFNTC_BYTE].

(** hdfsds.c hdf_check_nt / cdf.c hdf_read_vars: the type with its flavour bits, None for a foreign native class *)
Definition nt_decode (b : list Z) : option Z :=
  match b with
  | [ver; ty; _; cls] =>
      if negb (ver =? DFNT_VERSION) || (negb (cls =? DFNTF_NONE) && negb (cls =? DFNTF_IEEE)) then
        if cls =? DFNTF_PC then Some (ty + DFNT_LITEND)
        else if cls =? pnsc ty then Some (ty + DFNT_NATIVE) else None
      else Some ty
  | _ => None
  end.

(* ------------------------------------------------------------------------------ groups and the element store *)
Definition di_encode (l : list (Z * Z)) : list Z := flat_map (fun p => be_enc 2 (fst p) ++ be_enc 2 (snd p)) l.
Fixpoint di_decode (fuel : nat) (b : list Z) : list (Z * Z) :=
  match fuel with
  | O => []
  | S k => match b with
           | t1 :: t0 :: r1 :: r0 :: rest => (t1 * 256 + t0, r1 * 256 + r0) :: di_decode k rest
           | _ => []
           end
  end.

Definition elem := (Z * Z * list Z)%type.     (* tag, ref, bytes *)
Definition store := list elem.
Fixpoint get (st : store) (tag ref : Z) : option (list Z) :=
  match st with
  | [] => None
  | (t, r, b) :: rest => if (t =? tag) && (r =? ref) then Some b else get rest tag ref
  end.

(* ------------------------------------------------------------------------------------- SD variables *)
Record svar := mkVar {
  v_dims : list Z;          (* extents; for a record variable the head is the current record count *)
  v_nt : Z;                 (* HDF number type with flavour bits *)
  v_data_ref : Z;           (* ref of the DFTAG_SD element, 0 when there is no data yet *)
  v_ref : Z;                (* ref of the NT and SDD records *)
  v_ndg_ref : Z
}.

Definition zlen {A} (l : list A) : Z := Z.of_nat (length l).

(** cdf.c: hdf_write_var -- NT, SDD and NDG of one variable *)
Definition sd_ndg_members (v : svar) : list (Z * Z) :=
  (if v_data_ref v =? 0 then [] else [(DFTAG_SD, v_data_ref v)]) ++
  [(DFTAG_NT, v_ref v); (DFTAG_SDD, v_ref v); (BOGUS_TAG, v_ref v)].

Definition sd_sdd (v : svar) : sdd :=
  mkSdd (zlen (v_dims v)) (v_dims v) (repeat (DFTAG_NT, v_ref v) (S (length (v_dims v)))).

Definition sd_write_var (v : svar) : store :=
  [(DFTAG_NT, v_ref v, nt_encode (v_nt v));
   (DFTAG_SDD, v_ref v, sdd_encode hdf_write_var_SDD (sd_sdd v));
   (DFTAG_NDG, v_ndg_ref v, di_encode (sd_ndg_members v))].

(** ... and the Vgroup description of the same variable: the sizes of its dimension Vgroups (in order) and the
    tag/refs that hdf_read_vars looks at *)
Record vgdesc := mkVg { vg_dims : list Z; vg_members : list (Z * Z) }.
Definition sd_write_vg (v : svar) : vgdesc :=
  mkVg (v_dims v)
       ((if v_data_ref v =? 0 then [] else [(DFTAG_SD, v_data_ref v)]) ++
        [(DFTAG_NT, v_ref v); (DFTAG_SDD, v_ref v); (DFTAG_NDG, v_ndg_ref v)]).

(** what a reader reconstructs: rank, extents, type, data ref *)
Definition view := (Z * list Z * Z * Z)%type.

(** hdfsds.c: hdf_read_ndgs, one group: the SDD member gives rank, extents and (through its first NT) the type;
    the SD member the data; every other member is skipped here.  Default type float32. *)
Fixpoint ndg_scan (st : store) (members : list (Z * Z)) (acc : option (Z * list Z * Z)) (dref : Z)
  : option (option (Z * list Z * Z) * Z) :=
  match members with
  | [] => Some (acc, dref)
  | (t, r) :: rest =>
      if t =? DFTAG_SDD then
        match get st DFTAG_SDD r with
        | Some b =>
            match sd_read_sdd b with
            | Some s =>
                match sdd_nts s with
                | (nt_t, nt_r) :: _ =>
                    match get st nt_t nt_r with
                    | Some nb => match nt_decode nb with
                                 | Some ty => ndg_scan st rest (Some (sdd_rank s, sdd_dims s, ty)) dref
                                 | None => None
                                 end
                    | None => None
                    end
                | [] => None
                end
            | None => None
            end
        | None => None
        end
      else if t =? DFTAG_SD then ndg_scan st rest acc r
      else ndg_scan st rest acc dref
  end.

Definition ndg_view (st : store) (members : list (Z * Z)) : option view :=
  match ndg_scan st members None 0 with
  | Some (Some (rank, dims, ty), dref) => Some (rank, dims, ty, dref)
  | _ => None
  end.

(** cdf.c: hdf_read_vars, one Var0.0 Vgroup: rank = number of dimension Vgroups, extents from them, type from the
    DFTAG_NT member, data from the DFTAG_SD member *)
Fixpoint vg_scan (st : store) (members : list (Z * Z)) (ty : option Z) (dref : Z) : option (option Z * Z) :=
  match members with
  | [] => Some (ty, dref)
  | (t, r) :: rest =>
      if t =? DFTAG_NT then
        match get st DFTAG_NT r with
        | Some nb => match nt_decode nb with
                     | Some y => vg_scan st rest (Some y) dref
                     | None => None
                     end
        | None => None
        end
      else if t =? DFTAG_SD then vg_scan st rest ty r
      else vg_scan st rest ty dref
  end.

Definition vg_view (st : store) (g : vgdesc) : option view :=
  match vg_scan st (vg_members g) None 0 with
  | Some (Some ty, dref) => Some (zlen (vg_dims g), vg_dims g, ty, dref)
  | _ => None
  end.

(** dfsd.c: DFSDIputndg (the records every dataset gets) and DFSDIgetndg *)
Definition dfsd_put (v : svar) : store :=
  [(DFTAG_NT, v_ref v, nt_encode (v_nt v));
   (DFTAG_SDD, v_ref v, sdd_encode DFSDIputndg_SDD (sd_sdd v));
   (DFTAG_NDG, v_ndg_ref v, di_encode [(DFTAG_SD, v_data_ref v); (DFTAG_SDD, v_ref v)])].

Definition dfsd_nt_decode (b : list Z) : option Z :=
  match b with
  | [_; ty; _; cls] =>
      if ty =? DFNT_NONE then None
      else if negb (cls =? DFNTF_HDFDEFAULT) && negb (cls =? DFNTF_PC) && negb (cls =? pnsc ty) then None
      else if cls =? DFNTF_HDFDEFAULT then Some ty
      else if cls =? DFNTF_PC then Some (ty + DFNT_LITEND) else Some (ty + DFNT_NATIVE)
  | _ => None
  end.

Fixpoint dfsd_scan (st : store) (members : list (Z * Z)) (acc : option (Z * list Z * Z)) (dref : Z)
  : option (option (Z * list Z * Z) * Z) :=
  match members with
  | [] => Some (acc, dref)
  | (t, r) :: rest =>
      if t =? DFTAG_SDD then
        match get st DFTAG_SDD r with
        | Some b =>
            match dfsd_read_sdd b with
            | Some s =>
                match sdd_nts s with
                | (nt_t, nt_r) :: _ =>
                    match get st nt_t nt_r with
                    | Some nb => match dfsd_nt_decode nb with
                                 | Some ty => dfsd_scan st rest (Some (sdd_rank s, sdd_dims s, ty)) dref
                                 | None => None
                                 end
                    | None => None
                    end
                | [] => None
                end
            | None => None
            end
        | None => None
        end
      else if t =? DFTAG_SD then dfsd_scan st rest acc r
      else dfsd_scan st rest acc dref
  end.

Definition dfsd_view (st : store) (members : list (Z * Z)) : option view :=
  match dfsd_scan st members None 0 with
  | Some (Some (rank, dims, ty), dref) => Some (rank, dims, ty, dref)
  | _ => None
  end.

(** hdfsds.c hdf_read_ndgs, case DFTAG_SDLNK (and dfsd.c DFSDIsetnsdg_t): an NDG that carries a link element names
    the SDG that describes the same data for pre-3.2 readers; that SDG is not presented a second time *)
Definition sdlnk_sdg (st : store) (members : list (Z * Z)) : list Z :=
  flat_map (fun p => if fst p =? DFTAG_SDLNK then
                       match get st DFTAG_SDLNK (snd p) with
                       | Some [_; _; _; _; _; _; r1; r0] => [r1 * 256 + r0]
                       | _ => []
                       end
                     else []) members.

(* --------------------------------------------------- record dimensions and dimension scales (older records) *)
(** cdf.c hdf_write_var: the extents written into the SDD.  The size of the record dimension is "faked": for an HDF
    file the variable's own record count, for a netCDF file the file-wide one. *)
Definition ndg_dims (hdf_file : bool) (shape : list Z) (var_numrecs handle_numrecs : Z) : list Z :=
  map (fun d => if d =? NC_UNLIMITED then (if hdf_file then var_numrecs else handle_numrecs) else d) shape.

(** the extents of a variable as its own interface reports them *)
Definition effective_dims (shape : list Z) (var_numrecs : Z) : list Z :=
  map (fun d => if d =? NC_UNLIMITED then var_numrecs else d) shape.

(** dfsd.c DFSDIputndg: the scales record (DFTAG_SDS) = one flag byte per dimension, then the scales of those
    dimensions that have one, in order *)
Definition sds_flags (scales : list (option (list Z))) : list Z :=
  map (fun s => match s with Some _ => 1 | None => 0 end) scales.
Fixpoint present (scales : list (option (list Z))) : list (list Z) :=
  match scales with [] => [] | Some b :: r => b :: present r | None :: r => present r end.
Definition sds_encode (scales : list (option (list Z))) : list Z := sds_flags scales ++ concat (present scales).

(** hdfsds.c hdf_read_ndgs: the offset of each dimension's scale in that record.  The walk starts behind the flag
    bytes and advances only over scales that are present.  sizes = dimsizes[dim] * DFKNTsize(scaletypes[dim]) *)
Fixpoint scale_offsets (sizes flags : list Z) (off : Z) : list (option Z) :=
  match sizes, flags with
  | n :: ns, f :: fs => if f =? 0 then None :: scale_offsets ns fs off else Some off :: scale_offsets ns fs (off + n)
  | _, _ => []
  end.
Definition slice (rec : list Z) (off n : Z) : list Z := firstn (Z.to_nat n) (skipn (Z.to_nat off) rec).
Definition sd_read_scales (sizes : list Z) (rec : list Z) : list (option (list Z)) :=
  let rank := length sizes in
  map (fun on => match fst on with Some off => Some (slice rec off (snd on)) | None => None end)
      (combine (scale_offsets sizes (firstn rank rec) (Z.of_nat rank)) sizes).

(** dfsd.c DFSDIgetndg, case DFTAG_SDS: the flags, then the present scales read one after the other *)
Fixpoint seq_scales (sizes flags : list Z) (rest : list Z) : list (option (list Z)) :=
  match sizes, flags with
  | n :: ns, f :: fs =>
      if f =? 0 then None :: seq_scales ns fs rest
      else Some (firstn (Z.to_nat n) rest) :: seq_scales ns fs (skipn (Z.to_nat n) rest)
  | _, _ => []
  end.
Definition dfsd_read_scales (sizes : list Z) (rec : list Z) : list (option (list Z)) :=
  let rank := length sizes in seq_scales sizes (firstn rank rec) (skipn rank rec).

(* --------------------------------------- the single-file SDS writer between datasets (dfsd.c Ref.scales) *)
(** Writesdg.dimscales together with Ref.scales: -1 = no scales record, 0 = scales were modified and have to be
    written again, r > 0 = the record with ref r (its content is kept here as a ghost) is up to date and is
    shared by the following datasets.  Which setter assigns what is read off the source by the translator. *)
Record wscales := mkWs { wsc_scales : list (option (list Z)); wsc_ref : Z; wsc_written : list Z }.

Definition has_scale (l : list (option (list Z))) : bool :=
  existsb (fun s => match s with Some _ => true | None => false end) l.
Fixpoint set_scale (n : nat) (v : option (list Z)) (l : list (option (list Z))) : list (option (list Z)) :=
  match l, n with [], _ => [] | _ :: t, O => v :: t | h :: t, S k => h :: set_scale k v t end.

(** DFSDsetdimscale(dim, size, scale): scale == NULL frees the dimension's scale *)
Definition wsc_setscale (st : wscales) (dim : nat) (s : option (list Z)) : wscales :=
  let marks := match s with Some _ => DFSDsetdimscale_set_marks_modified | None => DFSDsetdimscale_null_marks_modified end in
  mkWs (set_scale dim s (wsc_scales st)) (if marks then 0 else wsc_ref st) (wsc_written st).

(** DFSDsetdims with new dimensions / DFSDclear (DFSDIclear) and DFSDsetNT with a new type (DFSDIclearNT) *)
Definition wsc_forget (flag : bool) (rank : nat) (st : wscales) : wscales :=
  mkWs (repeat None rank) (if flag then -1 else wsc_ref st) (wsc_written st).

(** DFSDIputndg for the dataset that gets ref r: the new state and the scales record the NDG refers to *)
Definition wsc_put (st : wscales) (r : Z) : wscales * option (list Z) :=
  if wsc_ref st =? 0 then
    if has_scale (wsc_scales st)
    then (mkWs (wsc_scales st) r (sds_encode (wsc_scales st)), Some (sds_encode (wsc_scales st)))
    else (mkWs (wsc_scales st) (-1) (wsc_written st), None)
  else if 0 <? wsc_ref st then (st, Some (wsc_written st)) else (st, None).

Inductive wop := WSet (dim : nat) (s : option (list Z)) | WNewDims (rank : nat) | WNewNT (rank : nat) | WPut (r : Z).
Definition wsc_step (st : wscales) (op : wop) : wscales * list (list (option (list Z)) * option (list Z)) :=
  match op with
  | WSet d s => (wsc_setscale st d s, [])
  | WNewDims rank => (wsc_forget DFSDIclear_forgets_scales_record rank st, [])
  | WNewNT rank => (wsc_forget DFSDIclearNT_forgets_scales_record rank st, [])
  | WPut r => let (st', rec) := wsc_put st r in (st', [(wsc_scales st, rec)])
  end.
(** every dataset written: the scales in effect and the record its NDG refers to *)
Fixpoint wsc_run (st : wscales) (ops : list wop) : list (list (option (list Z)) * option (list Z)) :=
  match ops with [] => [] | op :: r => let (st', out) := wsc_step st op in out ++ wsc_run st' r end.

(** The same bookkeeping for the other settings of the writer (Ref.luf[...] for the label/unit/format records,
    Ref.maxmin for the range): one slot = the value in effect, the ref state (-1 none, 0 modified, r > 0 written) and
    the content of the record the ref names.  [present] says whether a modified value produces a record at all
    (the string records are always written once modified; a range is present when set), [oneshot] whether the setting
    applies to one dataset only (DFSDIputndg resets Ref.maxmin after writing). *)
Record slot (A : Type) := mkSlot { sl_val : A; sl_ref : Z; sl_written : A }.
Arguments mkSlot {A}. Arguments sl_val {A}. Arguments sl_ref {A}. Arguments sl_written {A}.

Definition sl_set {A} (marks : bool) (st : slot A) (v : A) : slot A :=
  mkSlot v (if marks then 0 else sl_ref st) (sl_written st).
Definition sl_forget {A} (forgets : bool) (dflt : A) (st : slot A) : slot A :=
  mkSlot dflt (if forgets then -1 else sl_ref st) (sl_written st).
Definition sl_put {A} (present : A -> bool) (oneshot : bool) (dflt : A) (st : slot A) (r : Z) : slot A * option A :=
  let res :=
    if sl_ref st =? 0 then
      if present (sl_val st) then (mkSlot (sl_val st) r (sl_val st), Some (sl_val st))
      else (mkSlot (sl_val st) (-1) (sl_written st), None)
    else if 0 <? sl_ref st then (st, Some (sl_written st)) else (st, None) in
  (if oneshot then mkSlot dflt (-1) (sl_written (fst res)) else fst res, snd res).

Inductive slot_op (A : Type) := SlSet (v : A) | SlForget | SlPut (r : Z).
Arguments SlSet {A}. Arguments SlForget {A}. Arguments SlPut {A}.
Definition sl_step {A} (marks forgets oneshot : bool) (present : A -> bool) (dflt : A) (st : slot A) (op : slot_op A)
  : slot A * list (A * option A) :=
  match op with
  | SlSet v => (sl_set marks st v, [])
  | SlForget => (sl_forget forgets dflt st, [])
  | SlPut r => let (st', out) := sl_put present oneshot dflt st r in (st', [(sl_val st, out)])
  end.
Fixpoint sl_run {A} (marks forgets oneshot : bool) (present : A -> bool) (dflt : A) (st : slot A) (ops : list (slot_op A))
  : list (A * option A) :=
  match ops with
  | [] => []
  | op :: r => let (st', out) := sl_step marks forgets oneshot present dflt st op in
               out ++ sl_run marks forgets oneshot present dflt st' r
  end.

(** the strings slot: data strings and the strings of every dimension (one record per kind, always written once
    modified); the range slot: maximum and minimum, for the next dataset only *)
Definition luf_value := (option (list Z * list Z * list Z) * list (option (list Z * list Z * list Z)))%type.
Definition luf_run := @sl_run luf_value (DFSDIsetdatastrs_marks_modified && DFSDIsetdimstrs_marks_modified)
                              DFSDIclear_forgets_scales_record false
                              (fun _ => DFSDIputndg_luf_always_written) (None, []).
Definition range_value := option (list Z * list Z).
Definition range_run := @sl_run range_value DFSDsetrange_marks_modified (DFSDIclear_forgets_range && DFSDIclearNT_forgets_range)
                                DFSDIputndg_range_applies_once
                                (fun v => match v with Some _ => true | None => false end) None.

(* --------------------------------------------- what the single-file readers keep from one call to the next *)
(** dfan.c DFANIopen: the directories of annotation refs (labels, descriptions) built for the file used last are
    thrown away when a different file is opened (or the file is created anew) and kept when the same file is opened
    again.  Which directory is thrown away is read off the source. *)
Definition dfan_open {A} (same_file : bool) (dirs : list A * list A) : list A * list A :=
  if same_file then dirs
  else ((if DFANIopen_forgets_label_directory then [] else fst dirs),
        (if DFANIopen_forgets_desc_directory then [] else snd dirs)).

(** df24.c: the images a caller gets who reads one image after the other without asking for the dimensions in
    between.  groups = number of components of the raster-image groups of the file, in file order.  DF24getimage steps
    to the next group through DF24getdims, which passes over every group that has not 3 components. *)
Fixpoint df24_sequence (groups : list Z) : list Z :=
  match groups with
  | [] => []
  | g :: r =>
      if DF24getimage_steps_with_DF24getdims && DF24getdims_skips_other_groups
      then (if g =? 3 then g :: df24_sequence r else df24_sequence r)
      else g :: df24_sequence r
  end.

(* ------------------------------------------------ the coordinate variable of a dimension (mfsd.c SDgetdimstrs) *)
(** strncmp(a, b, strlen(a)) == 0 for names without embedded NUL *)
Fixpoint prefix_eqb (a b : list Z) : bool :=
  match a, b with
  | [], _ => true
  | x :: a', y :: b' => (x =? y) && prefix_eqb a' b'
  | _ :: _, [] => false
  end.
(** namelen == var name length && strncmp(name, var name, strlen(name)) == 0 *)
Definition name_match (dim var : list Z) : bool := Nat.eqb (length dim) (length var) && prefix_eqb dim var.

Record cvar := mkCv { cv_name : list Z; cv_rank : Z; cv_is_sds : bool; cv_strs : list Z * list Z * list Z }.

(** the loop over handle->vars keeps the LAST one-dimensional variable that is not an SDS and whose name matches *)
Definition find_coordvar (dim : list Z) (vars : list cvar) : option cvar :=
  fold_left (fun acc v => if (cv_rank v =? 1) && name_match dim (cv_name v) && negb (cv_is_sds v) then Some v else acc)
            vars None.
Definition sd_getdimstrs (dim : list Z) (vars : list cvar) : list Z * list Z * list Z :=
  match find_coordvar dim vars with Some v => cv_strs v | None => ([], [], []) end.

(* --------------------------------- reading into a caller's array (dfsd.c DFSDIgetslice, dimension collapse) *)
(** one dimension as the loop sees it: extent of the caller's array, of the window, start of the window, extent in
    the file.  The loop merges the least significant dimension into the next one unless the regenerated break
    condition holds; the list is least significant first and the most significant dimension is never merged away. *)
Definition gdim := (Z * Z * Z * Z)%type.
Definition collapse_break (d : gdim) : bool :=
  match d with (a, w, s, f) => negb (getslice_collapse_break a w s f =? 0) end.
Fixpoint collapse (fuel : nat) (l : list gdim) : list gdim :=
  match fuel with
  | O => l
  | S k =>
      match l with
      | (a1, w1, s1, f1) :: (a0, w0, s0, f0) :: rest =>
          if collapse_break (a1, w1, s1, f1) then l
          else collapse k ((a0 * a1, w0 * w1, s0 * f1, f0 * f1) :: rest)
      | _ => l
      end
  end.

(** where the elements of the window land: (position in the caller's array, position in the file's array), both in
    elements and row-major, listed in row-major order of the window.  Dimensions least significant first. *)
Definition zrange (n : Z) : list Z := map Z.of_nat (seq 0 (Z.to_nat n)).
Fixpoint cells (l : list gdim) : list (Z * Z) :=
  match l with
  | [] => [(0, 0)]
  | (a, w, s, f) :: rest =>
      flat_map (fun p => map (fun i => (i + a * fst p, (s + i) + f * snd p)) (zrange w)) (cells rest)
  end.

(* ------------------------------------------------------------------- values: the data element and its conversion *)
(** DFKconvert between the caller's memory (little-endian host) and the file: the bytes of every element are reversed
    unless the type's flavour says the file holds the host's order (C06 proves the conversion kernel; here it is the
    composition of writer and reader that matters).  The same function serves both directions. *)
Fixpoint chunk (fuel w : nat) (l : list Z) : list (list Z) :=
  match fuel with
  | O => []
  | S k => match l with [] => [] | _ => firstn w l :: chunk k w (skipn w l) end
  end.
Definition swap_needed (nt : Z) : bool := negb (Z.testbit nt 14 || Z.testbit nt 12).
Definition conv_elems (nt : Z) (els : list (list Z)) : list (list Z) := if swap_needed nt then map (@rev Z) els else els.
Definition convert (nt : Z) (data : list Z) : list Z :=
  concat (conv_elems nt (chunk (length data) (Z.to_nat (ntsize nt)) data)).

(** what a reader hands to its caller: the description it reconstructs and the data element converted to memory order
    according to the type it decoded (SDreaddata / DFSDgetdata of the whole dataset) *)
Definition read_values (viewf : store -> list (Z * Z) -> option view) (st : store) (members : list (Z * Z))
  : option (view * list Z) :=
  match viewf st members with
  | Some (rank, dims, ty, dref) =>
      match get st DFTAG_SD dref with
      | Some b => Some ((rank, dims, ty, dref), convert ty b)
      | None => None
      end
  | None => None
  end.
Definition read_values_vg (st : store) (g : vgdesc) : option (view * list Z) :=
  match vg_view st g with
  | Some (rank, dims, ty, dref) =>
      match get st DFTAG_SD dref with
      | Some b => Some ((rank, dims, ty, dref), convert ty b)
      | None => None
      end
  | None => None
  end.

(** the writers with the data element: SDwritedata / DFSDadddata store the converted values under DFTAG_SD *)
Definition sd_write_full (v : svar) (data : list Z) (st' : store) : store :=
  sd_write_var v ++ (DFTAG_SD, v_data_ref v, convert (v_nt v) data) :: st'.
Definition dfsd_put_full (v : svar) (data : list Z) (st' : store) : store :=
  dfsd_put v ++ (DFTAG_SD, v_data_ref v, convert (v_nt v) data) :: st'.

(** how every view names a type written with flavour bits (native is recorded as the host's class) *)
Definition shown_nt (nt : Z) : Z :=
  let b := Z.land nt 255 in
  if Z.testbit nt 12 then
    (if pnsc b =? DFNTF_PC then b + DFNT_LITEND else if pnsc b =? DFNTF_IEEE then b else b + DFNT_NATIVE)
  else nt.

(* ----------------------------------------------------------------------------------- raster images *)
Record rimage := mkRi {
  ri_x : Z; ri_y : Z; ri_ncomp : Z; ri_nt : Z; ri_il : Z;
  ri_img_tag : Z; ri_img_ref : Z;          (* DFTAG_RI / DFTAG_CI element holding the pixels *)
  ri_ctag : Z;                             (* old-style compression tag in the description, 0 = none *)
  ri_lut_ref : Z;                          (* 0 = no palette *)
  ri_ref : Z                               (* ref of NT, ID and RIG *)
}.

Definition ri_id (m : rimage) : idrec :=
  mkId (ri_x m) (ri_y m) DFTAG_NT (ri_ref m) (ri_ncomp m) (ri_il m) (ri_ctag m) (if ri_ctag m =? 0 then 0 else ri_img_ref m).

(** dfr8.c: DFR8putrig (one component) *)
Definition dfr8_put (m : rimage) : store :=
  [(DFTAG_NT, ri_ref m, nt_encode_r8);
   (DFTAG_ID, ri_ref m, id_encode DFR8putrig_ID (ri_id m));
   (DFTAG_ID8, ri_ref m, id8_encode (ri_x m) (ri_y m));
   (DFTAG_RIG, ri_ref m,
    di_encode ([(DFTAG_ID, ri_ref m); (ri_img_tag m, ri_img_ref m)] ++
               (if ri_lut_ref m =? 0 then [] else [(DFTAG_LUT, ri_lut_ref m)])))].

(** dfgr.c: DFGRaddrig (24-bit calls; image description only) *)
Definition dfgr_put (m : rimage) : store :=
  [(DFTAG_NT, ri_ref m, nt_encode_r8);
   (DFTAG_ID, ri_ref m, id_encode DFGRaddrig_ID (ri_id m));
   (DFTAG_RIG, ri_ref m, di_encode [(DFTAG_ID, ri_ref m); (ri_img_tag m, ri_img_ref m)])].

(** mfgr.c: GRIupdateRIG writes a group only for images the older calls can take *)
Definition gr_compat (m : rimage) : bool :=
  negb (negb (ri_nt m =? DFNT_UINT8) || (negb (ri_ncomp m =? 1) && negb (ri_ncomp m =? 3))).

(** mfgr.c: GRIupdatemeta + GRIupdateRIG (the stored interlace is always pixel) *)
Definition gr_put (m : rimage) : store :=
  if gr_compat m then
    [(DFTAG_NT, ri_ref m, nt_encode_gr (ri_nt m));
     (DFTAG_ID, ri_ref m, id_encode GRIupdatemeta_ID (ri_id m));
     (DFTAG_RIG, ri_ref m,
      di_encode ([(DFTAG_ID, ri_ref m); (ri_img_tag m, ri_img_ref m)] ++
                 (if ri_lut_ref m =? 0 then [] else [(DFTAG_LD, ri_lut_ref m); (DFTAG_LUT, ri_lut_ref m)])))]
  else [].

(** what the RIG readers reconstruct *)
Record rview := mkRv { rv_x : Z; rv_y : Z; rv_ncomp : Z; rv_il : Z; rv_ctag : Z;
                       rv_img_tag : Z; rv_img_ref : Z; rv_lut_ref : Z }.

(** the number-type test of DFR8getrig / DFGRgetrig: 8 bits wide, unsigned characters or unsigned bytes *)
Definition rig_nt_ok (nb : list Z) : bool :=
  match nb with
  | [_; ty; w; _] => negb (negb (w =? 8) || (negb (ty =? DFNT_UCHAR8) && negb (ty =? DFNT_UINT8)))
  | _ => false
  end.

(** dfr8.c DFR8getrig (only8 = true: one component required) / dfgr.c DFGRgetrig *)
Fixpoint rig_scan (only8 : bool) (layout : list field) (st : store) (members : list (Z * Z)) (v : rview) : option rview :=
  match members with
  | [] => Some v
  | (t, r) :: rest =>
      if (t =? DFTAG_CI) || (t =? DFTAG_RI) then
        rig_scan only8 layout st rest (mkRv (rv_x v) (rv_y v) (rv_ncomp v) (rv_il v) (rv_ctag v) t r (rv_lut_ref v))
      else if t =? DFTAG_LUT then
        rig_scan only8 layout st rest (mkRv (rv_x v) (rv_y v) (rv_ncomp v) (rv_il v) (rv_ctag v) (rv_img_tag v) (rv_img_ref v) r)
      else if t =? DFTAG_ID then
        match get st DFTAG_ID r with
        | Some b =>
            match id_decode layout b with
            | Some d =>
                if only8 && negb (id_ncomp d =? 1) then None
                else
                  let v' := mkRv (id_x d) (id_y d) (id_ncomp d) (id_il d) (id_ctag d) (rv_img_tag v) (rv_img_ref v) (rv_lut_ref v) in
                  if id_nt_tag d =? 0 then rig_scan only8 layout st rest v'
                  else match get st (id_nt_tag d) (id_nt_ref d) with
                       | Some nb => if rig_nt_ok nb then rig_scan only8 layout st rest v' else None
                       | None => None
                       end
            | None => None
            end
        | None => None
        end
      else rig_scan only8 layout st rest v
  end.

Definition rv0 : rview := mkRv 0 0 0 0 0 0 0 0.
Definition dfr8_view (st : store) (members : list (Z * Z)) : option rview := rig_scan true DFR8getrig_ID st members rv0.
Definition dfgr_view (st : store) (members : list (Z * Z)) : option rview := rig_scan false DFGRgetrig_ID st members rv0.

Definition rview_of (m : rimage) (il : Z) : rview :=
  mkRv (ri_x m) (ri_y m) (ri_ncomp m) il (ri_ctag m) (ri_img_tag m) (ri_img_ref m) (ri_lut_ref m).

(** the pixels with the description: the older readers hand over the image element as it is when the description
    names no old-style compression (8-bit images have a single component, so no interlace is involved) *)
Definition rig_read_pixels (viewf : store -> list (Z * Z) -> option rview) (st : store) (members : list (Z * Z))
  : option (rview * list Z) :=
  match viewf st members with
  | Some v => if rv_ctag v =? 0 then
                match get st (rv_img_tag v) (rv_img_ref v) with Some b => Some (v, b) | None => None end
              else None
  | None => None
  end.
Definition gr_put_full (m : rimage) (pixels : list Z) (st' : store) : store :=
  gr_put m ++ (ri_img_tag m, ri_img_ref m, pixels) :: st'.
Definition dfr8_put_full (m : rimage) (pixels : list Z) (st' : store) : store :=
  dfr8_put m ++ (ri_img_tag m, ri_img_ref m, pixels) :: st'.

(* ------------------------------------------------------------------------------ maps between the views *)
(** interlace codes of the single-file calls (DFIL_PIXEL ..) and of GR (MFGR_INTERLACE_PIXEL ..) *)
Definition gr_il_of_dfil (il : Z) : option Z :=
  if il =? DFIL_PIXEL then Some MFGR_INTERLACE_PIXEL
  else if il =? DFIL_LINE then Some MFGR_INTERLACE_LINE
  else if il =? DFIL_PLANE then Some MFGR_INTERLACE_COMPONENT else None.
Definition dfil_of_gr_il (il : Z) : option Z :=
  if il =? MFGR_INTERLACE_PIXEL then Some DFIL_PIXEL
  else if il =? MFGR_INTERLACE_LINE then Some DFIL_LINE
  else if il =? MFGR_INTERLACE_COMPONENT then Some DFIL_PLANE else None.

(** dimension order: the single-file calls take (xdim, ydim); GR takes dims[0] = x, dims[1] = y; ID stores x first *)
Definition gr_dims_of_xy (x y : Z) : list Z := [x; y].
Definition xy_of_gr_dims (d : list Z) : option (Z * Z) := match d with [x; y] => Some (x, y) | _ => None end.

(** palette shape: 768 bytes = 256 entries of 3 components, pixel interlaced *)
Definition lut_entry (pal : list Z) (i : nat) : list Z := firstn 3 (skipn (3 * i) pal).
Definition lut_of_entries (es : list (list Z)) : list Z := concat es.
Definition lut_entries (pal : list Z) : list (list Z) := map (lut_entry pal) (seq 0 256).

(* ------------------------------------------------------------- old-style files made by the record writers *)
(** a pre-NDG file: SDG + SDD + NT + SD per dataset (float32 only, as DFSDIgetndg demands for SDGs), or the NDG form *)
Definition old_sds_file (group_tag : Z) (ds : list (list Z * Z * list Z * list (option (list Z)))) : store :=
  flat_map (fun kd => match kd with
     (k, (dims, nt, filebytes, scales)) =>
       let r := 2 + k in
       let has := existsb (fun s => match s with Some _ => true | None => false end) scales in
       [(DFTAG_SD, r, filebytes);
        (DFTAG_NT, r, nt_encode nt);
        (DFTAG_SDD, r, sdd_encode DFSDIputndg_SDD (mkSdd (zlen dims) dims (repeat (DFTAG_NT, r) (S (length dims)))))] ++
       (if has then [(DFTAG_SDS, r, sds_encode scales)] else []) ++
       [(group_tag, r, di_encode ([(DFTAG_SD, r); (DFTAG_SDD, r)] ++ (if has then [(DFTAG_SDS, r)] else [])))]
     end)
   (combine (map Z.of_nat (seq 0 (length ds))) ds).

(** raster files: RIG form (DFR8putrig / DFGRaddrig records) or the bare Raster-8 form (RI8 + ID8 [+ IP8]) *)
Definition old_img_file (bare : bool) (ims : list (Z * Z * Z * Z * list Z * option (list Z))) : store :=
  flat_map (fun km => match km with
     (k, (x, y, nc, il, pix, pal)) =>
       let r := 2 + k in
       if bare then
         [(DFTAG_RI8, r, pix); (DFTAG_ID8, r, id8_encode x y)] ++
         match pal with Some p => [(DFTAG_IP8, r, p)] | None => [] end
       else
         let m := mkRi x y nc DFNT_UCHAR8 il DFTAG_RI r 0 (match pal with Some _ => r | None => 0 end) r in
         [(DFTAG_RI, r, pix)] ++ match pal with Some p => [(DFTAG_LUT, r, p)] | None => [] end ++
         (if nc =? 1 then dfr8_put m else dfgr_put m)
     end)
   (combine (map Z.of_nat (seq 0 (length ims))) ims).
