(** C15 -- implementation model M: record codecs of the older storage conventions (placeholder, grown below). *)
From Coq Require Import ZArith List Bool.
Import ListNotations.
Local Open Scope Z_scope.

Definition be_bytes (w : nat) (v : Z) : list Z :=
  map (fun i => Z.land (Z.shiftr v (8 * Z.of_nat (w - 1 - i))) 255) (seq 0 w).
