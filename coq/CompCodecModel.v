(** C05 -- implementation models M of bit I/O (hbitio.c), the n-bit coder (cnbit.c), the compression header
    (hcomp.c) and the skipping-Huffman coder (cskphuff.c).  No proofs in this file.

    Tables (maskc, maskl, mask_arr8, mask_arr32), constants (BITNUM, DATANUM, SUCCMAX, ROOT ...), the header
    field layouts and the expressions that build the initial splay tree come from the generated Gen_Comp.v. *)
From Coq Require Import ZArith List Bool String.
Require Import H4.gen.Gen_Comp H4.CompSpec.
Import ListNotations.
Local Open Scope Z_scope.

Definition u8 (z : Z) : Z := Z.modulo z 256.
Definition u32 (z : Z) : Z := Z.modulo z 4294967296.
Definition tab (t : list Z) (i : Z) : Z := nth (Z.to_nat i) t 0.

(** ** bit I/O.  The 4096-byte block buffer of hbitio.c is abstracted to "bytes emitted so far" / "bytes not
    yet consumed"; the bit manipulation of Hbitwrite / Hbitread / the final flush is modelled as written. *)
Record bitw := mk_bitw { bw_out : list Z; bw_bits : Z; bw_count : Z }.     (* count = free bits in [bits], 1..8 *)
Definition bitw_init : bitw := mk_bitw [] 0 BITNUM.

Fixpoint bw_whole (fuel : nat) (out : list Z) (data count : Z) : list Z * Z :=
  match fuel with
  | O => (out, count)
  | S f => if BITNUM <=? count then bw_whole f (out ++ [u8 (Z.shiftr data (count - BITNUM))]) data (count - BITNUM)
           else (out, count)
  end.

Definition bw_write (s : bitw) (count0 data0 : Z) : bitw :=
  let count := if DATANUM <? count0 then DATANUM else count0 in
  let data := Z.land data0 (tab maskl count) in
  if count <? bw_count s then
    mk_bitw (bw_out s) (Z.lor (bw_bits s) (u8 (Z.shiftl data (bw_count s - count)))) (bw_count s - count)
  else
    let c1 := count - bw_count s in
    let out1 := bw_out s ++ [u8 (Z.lor (bw_bits s) (u8 (Z.shiftr data c1)))] in
    let '(out2, c2) := bw_whole 4 out1 data c1 in
    let cnt := BITNUM - c2 in
    mk_bitw out2 (if 0 <? cnt then u8 (Z.shiftl data cnt) else bw_bits s) cnt.

(** Hendbitaccess on a sequentially written element: a pending partial byte is completed with the bits
    already in the buffer (zeros for a fresh element) -- the flushbit argument has no effect there *)
Definition bw_flush (s : bitw) : list Z :=
  if bw_count s <? BITNUM then bw_out s ++ [bw_bits s] else bw_out s.

Record bitr := mk_bitr { br_in : list Z; br_bits : Z; br_count : Z }.      (* count = unread bits in [bits], 0..7 *)
Definition bitr_init (bytes : list Z) : bitr := mk_bitr bytes 0 0.

Fixpoint br_whole (fuel : nat) (inp : list Z) (b count : Z) : option (list Z * Z * Z) :=
  match fuel with
  | O => Some (inp, b, count)
  | S f => if BITNUM <=? count then
             match inp with
             | [] => None
             | l :: t => br_whole f t (Z.lor b (Z.shiftl l (count - BITNUM))) (count - BITNUM)
             end
           else Some (inp, b, count)
  end.

Definition br_read (s : bitr) (count0 : Z) : option (bitr * Z) :=
  let count := if DATANUM <? count0 then DATANUM else count0 in
  if count <=? br_count s then
    Some (mk_bitr (br_in s) (br_bits s) (br_count s - count),
          Z.land (Z.shiftr (br_bits s) (br_count s - count)) (tab maskc count))
  else
    let c1 := if 0 <? br_count s then count - br_count s else count in
    let b0 := if 0 <? br_count s then Z.shiftl (Z.land (br_bits s) (tab maskc (br_count s))) c1 else 0 in
    match br_whole 4 (br_in s) b0 c1 with
    | None => None
    | Some (inp, b, c2) =>
        if 0 <? c2 then
          match inp with
          | [] => None
          | l :: t => Some (mk_bitr t l (BITNUM - c2), Z.lor b (Z.shiftr l (BITNUM - c2)))
          end
        else Some (mk_bitr inp (br_bits s) 0, b)
    end.

(** Hbitseek on a read access *)
Definition br_seek (bytes : list Z) (byte bit : Z) : option bitr :=
  if (0 <=? byte) && (byte <=? zlen bytes) && (0 <=? bit) && (bit <? BITNUM) then
    if 0 <? bit then
      match zdrop byte bytes with
      | [] => None
      | l :: t => Some (mk_bitr t l (BITNUM - bit))
      end
    else Some (mk_bitr (zdrop byte bytes) 0 0)
  else None.

Fixpoint bw_writes (s : bitw) (ws : list (Z * Z)) : bitw :=
  match ws with [] => s | (c, v) :: t => bw_writes (bw_write s c v) t end.
Fixpoint br_reads (s : bitr) (cs : list Z) : option (list Z) :=
  match cs with
  | [] => Some []
  | c :: t => match br_read s c with
              | None => None
              | Some (s', v) => match br_reads s' t with None => None | Some r => Some (v :: r) end
              end
  end.

(** ** n-bit coder *)
Record mask_info := mk_mi { mi_off : Z; mi_len : Z; mi_mask : Z }.
Definition mi_zero : mask_info := mk_mi 0 0 0.

(** the for-loop of HCIcnbit_init (with its two break statements) *)
Fixpoint nbit_masks (n : nat) (top_bit bot_bit mask_top mask_bot : Z) : list mask_info :=
  match n with
  | O => []
  | S n' =>
      if top_bit <=? mask_top then
        if mask_bot <=? bot_bit then
          mk_mi 7 8 (tab mask_arr8 8) :: nbit_masks n' (top_bit - 8) (bot_bit - 8) mask_top mask_bot
        else
          mk_mi 7 (top_bit - mask_bot + 1)
                (u8 (Z.shiftl (tab mask_arr8 (top_bit - mask_bot + 1)) (8 - (top_bit - mask_bot + 1))))
          :: repeat mi_zero n'
      else if bot_bit <=? mask_top then
        if mask_bot <? bot_bit then
          mk_mi (mask_top - bot_bit) (mask_top - bot_bit + 1) (tab mask_arr8 (mask_top - bot_bit + 1))
          :: nbit_masks n' (top_bit - 8) (bot_bit - 8) mask_top mask_bot
        else
          mk_mi (mask_top - bot_bit) (mask_top - mask_bot + 1)
                (u8 (Z.shiftl (tab mask_arr8 (mask_top - mask_bot + 1)) (mask_bot - bot_bit)))
          :: repeat mi_zero n'
      else mi_zero :: nbit_masks n' (top_bit - 8) (bot_bit - 8) mask_top mask_bot
  end.

Record nbit_cfg := mk_nbit { nb_size : Z; nb_off : Z; nb_len : Z; nb_sign : bool; nb_fill : bool }.
Definition nbit_mask_info (c : nbit_cfg) : list mask_info :=
  nbit_masks (Z.to_nat (nb_size c)) (nb_size c * 8 - 1) (nb_size c * 8 - 8) (nb_off c) (nb_off c - (nb_len c - 1)).
Definition nbit_mask_buf (c : nbit_cfg) : list Z :=
  map (fun mi => if nb_fill c then Z.land 255 (u8 (Z.lnot (mi_mask mi))) else 0) (nbit_mask_info c).

(** HCIcnbit_encode: one Hbitwrite per byte whose mask is not empty *)
Fixpoint nbit_encode_fields (mis all : list mask_info) (bytes : list Z) : list (Z * Z) :=
  match bytes with
  | [] => []
  | b :: t =>
      match mis with
      | [] => match all with
              | [] => []
              | mi :: rest =>
                  (if 0 <? mi_len mi then [(mi_len mi, Z.shiftr (Z.land b (mi_mask mi)) (mi_off mi - mi_len mi + 1))] else [])
                  ++ nbit_encode_fields rest all t
              end
      | mi :: rest =>
          (if 0 <? mi_len mi then [(mi_len mi, Z.shiftr (Z.land b (mi_mask mi)) (mi_off mi - mi_len mi + 1))] else [])
          ++ nbit_encode_fields rest all t
      end
  end.
Definition nbit_encode (c : nbit_cfg) (bytes : list Z) : list Z :=
  let mis := nbit_mask_info c in
  bw_flush (bw_writes bitw_init (nbit_encode_fields mis mis bytes)).

(** decoding of one value: the inner j-loop of HCIcnbit_decode (both branches), then sign extension *)
Fixpoint nbit_decode_bytes (mis : list mask_info) (mbuf : list Z) (s : bitr) (j sign_byte sign_mask : Z)
  : option (list Z * bitr * bool * bool) :=      (* bytes, reader, sign bit, sign seen *)
  match mis, mbuf with
  | mi :: mt, m :: bt =>
      if 0 <? mi_len mi then
        match br_read s (mi_len mi) with
        | None => None
        | Some (s1, v) =>
            let sh := u32 (Z.shiftl v (mi_off mi - mi_len mi + 1)) in
            let byte := Z.lor m (Z.land (mi_mask mi) (u8 sh)) in
            match nbit_decode_bytes mt bt s1 (j + 1) sign_byte sign_mask with
            | None => None
            | Some (r, s2, sb, seen) =>
                if j =? sign_byte then Some (byte :: r, s2, negb (Z.land sign_mask sh =? 0), true)
                else Some (byte :: r, s2, sb, seen)
            end
        end
      else
        match nbit_decode_bytes mt bt s (j + 1) sign_byte sign_mask with
        | None => None
        | Some (r, s2, sb, seen) => Some (m :: r, s2, sb, seen)
        end
  | _, _ => Some ([], s, false, false)
  end.

Definition nbit_sign_extend (c : nbit_cfg) (bytes : list Z) (sign_bit : bool) : list Z :=
  let sign_byte := nb_size c - (nb_off c / 8 + 1) in
  let sext := u8 (Z.lnot (tab mask_arr32 (nb_off c mod 8))) in
  if Bool.eqb sign_bit (nb_fill c) then bytes
  else
    map (fun '(j, b) =>
           if j <? sign_byte then (if sign_bit then 255 else 0)
           else if j =? sign_byte then (if sign_bit then Z.lor b sext else Z.land b (u8 (Z.lnot sext)))
           else b)
        (combine (zseq (zlen bytes)) bytes).

Definition nbit_decode_value (c : nbit_cfg) (s : bitr) (prev_sign : bool) : option (list Z * bitr * bool) :=
  let sign_byte := nb_size c - (nb_off c / 8 + 1) in
  let sign_mask := Z.lxor (tab mask_arr32 (nb_off c mod 8 + 1)) (tab mask_arr32 (nb_off c mod 8)) in
  match nbit_decode_bytes (nbit_mask_info c) (nbit_mask_buf c) s 0 sign_byte sign_mask with
  | None => None
  | Some (bytes, s', sb, seen) =>
      if nb_sign c then
        let sbit := if seen then sb else prev_sign in
        Some (nbit_sign_extend c bytes sbit, s', sbit)
      else Some (bytes, s', prev_sign)
  end.

Fixpoint nbit_decode_values (n : nat) (c : nbit_cfg) (s : bitr) (prev : bool) : option (list Z) :=
  match n with
  | O => Some []
  | S n' => match nbit_decode_value c s prev with
            | None => None
            | Some (v, s', sb) => match nbit_decode_values n' c s' sb with None => None | Some r => Some (v ++ r) end
            end
  end.
Definition nbit_decode (c : nbit_cfg) (stream : list Z) (nvalues : Z) : option (list Z) :=
  nbit_decode_values (Z.to_nat nvalues) c (bitr_init stream) false.

(** ** compression header (HCPencode_header / HCPdecode_header): layouts from Gen_Comp *)
Fixpoint assocz {A} (k : Z) (l : list (Z * A)) : option A :=
  match l with [] => None | (k', v) :: t => if k =? k' then Some v else assocz k t end.

Definition hdr_param_count (coder : Z) : nat :=
  if coder =? COMP_CODE_NBIT then 5%nat else if coder =? COMP_CODE_SKPHUFF then 1%nat
  else if coder =? COMP_CODE_DEFLATE then 1%nat else 0%nat.

(** values HCPencode_header stores for the fields of a coder, in order (skipping-Huffman stores its size twice) *)
Definition hdr_field_values (coder : Z) (p : list Z) : list Z :=
  if coder =? COMP_CODE_SKPHUFF then [nth 0 p 0; nth 0 p 0] else firstn (hdr_param_count coder) p.

Fixpoint hdr_put (fields : list (Z * string)) (vals : list Z) : list Z :=
  match fields, vals with
  | (w, _) :: ft, v :: vt => be_bytes w (Z.modulo v (2 ^ (8 * w))) ++ hdr_put ft vt
  | _, _ => []
  end.
Definition hdr_encode (model coder : Z) (p : list Z) : list Z :=
  be_bytes 2 model ++ be_bytes 2 coder ++
  hdr_put (match assocz coder hdr_encode_fields with Some f => f | None => [] end) (hdr_field_values coder p).
Definition hdr_query_len (coder : Z) : Z :=
  hdr_model_base_len + hdr_coder_base_len + match assocz coder hdr_coder_extra_len with Some n => n | None => 0 end.

Fixpoint hdr_get (fields : list (Z * string)) (bytes : list Z) : list Z :=
  match fields with
  | [] => []
  | (w, _) :: ft => be_value (ztake w bytes) :: hdr_get ft (zdrop w bytes)
  end.
Definition hdr_decode (bytes : list Z) : Z * Z * list Z :=
  let model := be_value (ztake 2 bytes) in
  let coder := be_value (ztake 2 (zdrop 2 bytes)) in
  let vals := hdr_get (match assocz coder hdr_decode_fields with Some f => f | None => [] end) (zdrop 4 bytes) in
  (model, coder, firstn (hdr_param_count coder) vals).

(** the special-element description record written by HCIwrite_header *)
Definition hdr_record (length comp_ref model coder : Z) (p : list Z) : list Z :=
  be_bytes 2 SPECIAL_COMP ++ be_bytes 2 COMP_HEADER_VERSION ++ be_bytes 4 length ++ be_bytes 2 comp_ref ++
  hdr_encode model coder p.

(** ** skipping Huffman: one splay tree per lane *)
Record tree := mk_tree { t_left : list Z; t_right : list Z; t_up : list Z }.
Definition upd (l : list Z) (i v : Z) : list Z :=
  firstn (Z.to_nat i) l ++ v :: skipn (S (Z.to_nat i)) l.
Definition tree_init : tree :=
  mk_tree (map skp_init_left (zseq skp_init_lr_count)) (map skp_init_right (zseq skp_init_lr_count))
          (map skp_init_up (zseq skp_init_up_count)).

(** HCIcskphuff_splay: the do-while loop, fuel bounds the number of iterations (depth of the tree) *)
Fixpoint skp_splay_loop (fuel : nat) (t : tree) (a : Z) : tree :=
  match fuel with
  | O => t
  | S f =>
      let c := tab (t_up t) a in
      if negb (c =? ROOT) then
        let d := tab (t_up t) c in
        let b0 := tab (t_left t) d in
        let '(b, l1, r1) :=
          if c =? b0 then (tab (t_right t) d, t_left t, upd (t_right t) d a)
          else (b0, upd (t_left t) d a, t_right t) in
        let '(l2, r2) := if a =? tab l1 c then (upd l1 c b, r1) else (l1, upd r1 c b) in
        let up2 := upd (upd (t_up t) a d) b c in
        let t' := mk_tree l2 r2 up2 in
        if d =? ROOT then t' else skp_splay_loop f t' d
      else t
  end.
Definition skp_splay (t : tree) (plain : Z) : tree := skp_splay_loop 300 t (plain + SUCCMAX).

(** encoder: walk up from the leaf; the bits, root first *)
Fixpoint skp_path_up (fuel : nat) (t : tree) (a : Z) (acc : list bool) : list bool :=
  match fuel with
  | O => acc
  | S f => let p := tab (t_up t) a in
           let bit := tab (t_right t) p =? a in
           if p =? ROOT then bit :: acc else skp_path_up f t p (bit :: acc)
  end.
Definition skp_code (t : tree) (plain : Z) : list bool := skp_path_up 600 t (plain + SUCCMAX) [].

(** decoder: walk down from the root along the given bits until a leaf is reached *)
Fixpoint skp_walk_down (fuel : nat) (t : tree) (a : Z) (bits : list bool) : option (Z * list bool) :=
  match fuel with
  | O => None
  | S f => match bits with
           | [] => None
           | b :: rest => let a' := if b then tab (t_right t) a else tab (t_left t) a in
                          if a' <=? skp_dec_internal_max then skp_walk_down f t a' rest
                          else Some (a' - skp_leaf_base, rest)
           end
  end.

(** lanes: list of trees, position rotates *)
Fixpoint skp_encode_bits (trees : list tree) (pos : nat) (bytes : list Z) : list bool :=
  match bytes with
  | [] => []
  | b :: rest =>
      let t := nth pos trees tree_init in
      let code := skp_code t b in
      let trees' := firstn pos trees ++ skp_splay t b :: skipn (S pos) trees in
      code ++ skp_encode_bits trees' (Nat.modulo (S pos) (List.length trees)) rest
  end.
Fixpoint skp_decode_bits (n : nat) (trees : list tree) (pos : nat) (bits : list bool) : option (list Z) :=
  match n with
  | O => Some []
  | S n' =>
      let t := nth pos trees tree_init in
      match skp_walk_down 600 t ROOT bits with
      | None => None
      | Some (plain, rest) =>
          let trees' := firstn pos trees ++ skp_splay t plain :: skipn (S pos) trees in
          match skp_decode_bits n' trees' (Nat.modulo (S pos) (List.length trees)) rest with
          | None => None
          | Some r => Some (plain :: r)
          end
      end
  end.

Fixpoint bits_to_bytes (bits : list bool) (fuel : nat) : list Z :=
  match fuel with
  | O => []
  | S f => match bits with
           | [] => []
           | _ => bits_value (firstn 8 (bits ++ repeat false 7)) :: bits_to_bytes (skipn 8 bits) f
           end
  end.
Definition bytes_to_bits (bytes : list Z) : list bool := List.concat (map (field_bits 8) bytes).

Definition skp_encode (skip : Z) (bytes : list Z) : list Z :=
  let bits := skp_encode_bits (repeat tree_init (Z.to_nat skip)) 0 bytes in
  bits_to_bytes bits (S (List.length bits)).
Definition skp_decode (skip : Z) (stream : list Z) (n : Z) : option (list Z) :=
  skp_decode_bits (Z.to_nat n) (repeat tree_init (Z.to_nat skip)) 0 (bytes_to_bits stream).
