(** Extraction of the C09 model and specification (ExtrOcamlBasic only; nat/Z stay inductive datatypes). *)
Require Import H4.GRModel.
Require Extraction.
Require ExtrOcamlBasic.
Extraction "../extract/gen/gr_model.ml"
  il_of_code mk_geom m_create s_create m_setfill s_setfill m_setcomp m_setchunk s_setchunk
  m_writeimage s_writeimage m_readimage s_readimage m_reqil s_reqil m_reqlutil s_reqlutil
  m_reopen s_reopen m_info s_info m_writelut s_writelut m_readlut s_readlut m_dump v_walk v_spec nt_size m_legacy s_legacy m_dump_rle u_case m_writechunk s_writechunk m_readchunk s_readchunk.
