(** C02 -- implementation model M: the encoders of the library's record writers, as the C code performs them,
    and the block-table walk of HLgetdatainfo.  No proofs here.

    Tie to the source: every integer is emitted through the ENCODE statement macros regenerated from hdf_priv.h
    (Gen_Fmt.INT16ENCODE_bytes ...), and WHICH macro is used for the k-th field of a record is looked up in the
    list of encode calls regenerated from the writer's source text (Gen_Fmt.DDENCODE_seq, HTPsync_seq,
    HLcreate_seq, HXcreate_seq, HCIwrite_header_seq, HCPencode_header_seq, HMCcreate_seq, vpackvs_seq,
    vpackvg_seq): a source edit that changes a width, a signedness or the order of the calls changes these
    definitions and breaks the round-trip proofs in FmtProofs.v. *)
From Coq Require Import ZArith List Bool String.
Require Import H4.FmtSpec H4.gen.Gen_Fmt.
Import ListNotations.
Local Open Scope Z_scope.

Definition enc_by (m : string) (v : Z) : list Z :=
  if String.eqb m "INT16ENCODE" then INT16ENCODE_bytes v
  else if String.eqb m "UINT16ENCODE" then UINT16ENCODE_bytes v
  else if String.eqb m "INT32ENCODE" then INT32ENCODE_bytes v
  else if String.eqb m "UINT32ENCODE" then UINT32ENCODE_bytes v
  else [].

(** the k-th encode call of a writer *)
Definition encn (seq : list (string * string)) (k : nat) (v : Z) : list Z :=
  enc_by (fst (nth k seq (EmptyString, EmptyString))) v.

(* ---- hfiledd.c: DDENCODE, HTPsync ---------------------------------------------------------------- *)
Definition dd_encode (d : dd) : list Z :=
  encn DDENCODE_seq 0 (dd_tag d) ++ encn DDENCODE_seq 1 (dd_ref d) ++
  encn DDENCODE_seq 2 (dd_off d) ++ encn DDENCODE_seq 3 (dd_len d).

Definition block_encode (b : ddblock) : list Z :=
  encn HTPsync_seq 0 (blk_ndds b) ++ encn HTPsync_seq 1 (blk_next b) ++ flat_map dd_encode (blk_dds b).

(** HP_write at an offset inside the file *)
Definition write_at (img : image) (off : Z) (bytes : list Z) : image :=
  firstn (Z.to_nat off) img ++ bytes ++ skipn (Z.to_nat off + List.length bytes) img.

(** HTPsync: every (dirty) block is written at its own offset *)
Definition sync_blocks (img : image) (bl : list ddblock) : image :=
  fold_left (fun im b => write_at im (blk_off b) (block_encode b)) bl img.

(** a new file: magic number, then the directory *)
Definition sync_file (img : image) (bl : list ddblock) : image :=
  sync_blocks (write_at img 0 HDFMAGIC) bl.

(* ---- hfile.c HPgetdiskblock: space is handed out strictly at the end of the file ------------------- *)
Definition getdiskblock (f_end size : Z) : Z * Z := (f_end, f_end + size).     (* (offset, new end) *)
Fixpoint alloc_all (f_end : Z) (sizes : list Z) : list (Z * Z) :=
  match sizes with
  | [] => []
  | n :: t => let '(o, e) := getdiskblock f_end n in (o, n) :: alloc_all e t
  end.

(* ---- hblocks.c: HLcreate / HLconvert description record, HLInewlink block table ------------------- *)
Definition linked_encode (h : linked_hdr) : list Z :=
  encn HLcreate_seq 0 SPECIAL_LINKED ++ encn HLcreate_seq 1 (lh_length h) ++ encn HLcreate_seq 2 (lh_blen h) ++
  encn HLcreate_seq 3 (lh_nblk h) ++ encn HLcreate_seq 4 (lh_ref h).

Definition linktable_encode (next : Z) (refs : list Z) : list Z :=
  UINT16ENCODE_bytes next ++ flat_map UINT16ENCODE_bytes refs.

(* ---- hextelt.c HXcreate ---------------------------------------------------------------------------- *)
Definition ext_encode (h : ext_hdr) : list Z :=
  encn HXcreate_seq 0 SPECIAL_EXT ++ encn HXcreate_seq 1 (xh_length h) ++ encn HXcreate_seq 2 (xh_offset h) ++
  encn HXcreate_seq 3 (zlen (xh_name h)) ++ xh_name h.

(* ---- hcomp.c HCPencode_header, HCIwrite_header ------------------------------------------------------ *)
Definition coder_code (c : coder) : Z :=
  match c with
  | CNone => COMP_CODE_NONE | CRle => COMP_CODE_RLE | CNbit _ _ _ _ _ => COMP_CODE_NBIT
  | CSkphuff _ _ => COMP_CODE_SKPHUFF | CDeflate _ => COMP_CODE_DEFLATE | CSzip _ _ _ _ _ => COMP_CODE_SZIP
  | COther k => k
  end.

Definition coder_encode (model : Z) (c : coder) : list Z :=
  let s := HCPencode_header_seq in
  encn s 0 model ++ encn s 1 (coder_code c) ++
  match c with
  | CNbit nt se fo sb bl => encn s 2 nt ++ encn s 3 se ++ encn s 4 fo ++ encn s 5 sb ++ encn s 6 bl
  | CSkphuff a b => encn s 7 a ++ encn s 8 b
  | CDeflate lv => encn s 9 lv
  | CSzip a b m d e => encn s 10 a ++ encn s 11 b ++ encn s 12 m ++ [d; e]
  | _ => []
  end.

Definition comp_encode (h : comp_hdr) : list Z :=
  let s := HCIwrite_header_seq in
  encn s 0 SPECIAL_COMP ++ encn s 1 (ch_version h) ++ encn s 2 (ch_length h) ++ encn s 3 (ch_ref h) ++
  coder_encode (ch_model h) (ch_coder h).

(* ---- hchunks.c HMCcreate ----------------------------------------------------------------------------- *)
Definition cdim_encode (d : chunk_dim) : list Z :=
  let s := HMCcreate_seq in encn s 11 (cd_flag d) ++ encn s 12 (cd_len d) ++ encn s 13 (cd_clen d).

Definition chunk_encode (h : chunk_hdr) : list Z :=
  let s := HMCcreate_seq in
  encn s 0 SPECIAL_CHUNKED ++ encn s 1 (kh_hlen h) ++ [kh_version h] ++ encn s 2 (kh_flag h) ++
  encn s 3 (kh_length h) ++ encn s 4 (kh_csize h) ++ encn s 5 (kh_ntsize h) ++ encn s 6 (kh_tbltag h) ++
  encn s 7 (kh_tblref h) ++ encn s 8 (kh_sptag h) ++ encn s 9 (kh_spref h) ++ encn s 10 (zlen (kh_dims h)) ++
  flat_map cdim_encode (kh_dims h) ++ encn s 14 (zlen (kh_fill h)) ++ kh_fill h ++
  match kh_comp h with
  | Some (cl, m, c) => encn s 15 SPECIAL_COMP ++ encn s 16 cl ++ coder_encode m c
  | None => []
  end.

Definition special_encode (s : special) : list Z :=
  match s with
  | SLinked h => linked_encode h
  | SExt h => ext_encode h
  | SComp h => comp_encode h
  | SChunked h => chunk_encode h
  | SOther k => UINT16ENCODE_bytes k
  end.

(* ---- vio.c vpackvs ------------------------------------------------------------------------------------- *)
Definition str_encode (seq : list (string * string)) (k : nat) (s : list Z) : list Z := encn seq k (zlen s) ++ s.

Definition vattr_encode (a : vattr) : list Z :=
  let s := vpackvs_seq in encn s 17 (va_findex a) ++ encn s 18 (va_tag a) ++ encn s 19 (va_ref a).

Definition vh_body (v : vh) : list Z :=
  let s := vpackvs_seq in
  encn s 0 (vh_interlace v) ++ encn s 1 (vh_nvert v) ++ encn s 2 (vh_ivsize v) ++ encn s 3 (zlen (vh_types v)) ++
  flat_map (encn s 4) (vh_types v) ++ flat_map (encn s 5) (vh_isizes v) ++ flat_map (encn s 6) (vh_offs v) ++
  flat_map (encn s 7) (vh_orders v) ++ flat_map (str_encode s 8) (vh_names v) ++
  str_encode s 9 (vh_name v) ++ str_encode s 10 (vh_class v) ++
  encn s 11 (vh_extag v) ++ encn s 12 (vh_exref v) ++ encn s 13 (vh_version v) ++ encn s 14 (vh_more v) ++
  (if vh_flags v =? 0 then [] else
     encn s 15 (vh_flags v) ++
     if Z.land (vh_flags v) VS_ATTR_SET =? 0 then [] else
       encn s 16 (zlen (vh_attrs v)) ++ flat_map vattr_encode (vh_attrs v)).

(** the duplicated version / more fields and the one byte by which the size is over-counted ("*bb = 0") *)
Definition vh_tail (v : vh) : list Z :=
  let s := vpackvs_seq in encn s 20 (vh_version v) ++ encn s 21 (vh_more v) ++ [0].

Definition vh_encode (v : vh) : list Z := vh_body v ++ vh_tail v.

(* ---- vgp.c vpackvg ------------------------------------------------------------------------------------- *)
Definition vgattr_encode (a : Z * Z) : list Z :=
  let s := vpackvg_seq in encn s 9 (fst a) ++ encn s 10 (snd a).

(** vpackvg raises the version to VSET_NEW_VERSION when flags are set *)
Definition vg_out_version (g : vg) : Z :=
  if negb (vg_flags g =? 0) && (vg_version g <? VSET_NEW_VERSION) then VSET_NEW_VERSION else vg_version g.

Definition vg_body (g : vg) : list Z :=
  let s := vpackvg_seq in
  encn s 0 (zlen (vg_tags g)) ++ flat_map (encn s 1) (vg_tags g) ++ flat_map (encn s 2) (vg_refs g) ++
  str_encode s 3 (vg_name g) ++ str_encode s 4 (vg_class g) ++
  encn s 5 (vg_extag g) ++ encn s 6 (vg_exref g) ++
  (if vg_flags g =? 0 then [] else
     encn s 7 (vg_flags g) ++
     if Z.land (vg_flags g) VG_ATTR_SET =? 0 then [] else
       encn s 8 (zlen (vg_attrs g)) ++ flat_map vgattr_encode (vg_attrs g)).

(** version, more, and the historic extra byte ("the '+1' part shouldn't be there") *)
Definition vg_tail (g : vg) : list Z :=
  let s := vpackvg_seq in encn s 11 (vg_out_version g) ++ encn s 12 (vg_more g) ++ [0].

Definition vg_encode (g : vg) : list Z := vg_body g ++ vg_tail g.

(* ---- hblocks.c HLgetdatainfo (after the fix: commits: both loops test info_count; slots never written are
        skipped, not stopped at, and advance the position) ------------------------------------------------ *)
(** [cap]: None = NULL arrays (count only); Some n = arrays of n entries (info_count is unsigned in C).
    [blk r] = (Hoffset, Hlength) of block (DFTAG_LINKED, r), None when the lookup fails.
    state = (num_data_blocks, accum_length, entries written so far); [isf] = the C variable first_block *)
Definition hl_full (cap : option Z) (num : Z) : bool :=
  match cap with None => false | Some n => n <=? num end.

Fixpoint hl_table (blk : Z -> option (Z * Z)) (refs : list Z) (blen total : Z) (cap : option Z) (isf : bool)
                  (st : Z * Z * list (Z * Z)) : option (Z * Z * list (Z * Z) * bool) :=
  match refs with
  | [] => Some (st, isf)
  | r :: t =>
    let '(num, accum, out) := st in
    if negb (accum <? total) || hl_full cap num then Some (st, isf) else
    if r =? 0 then hl_table blk t blen total cap false (num, accum + blen, out) else
    match blk r with
    | None => None
    | Some (o, len) =>
      let slot := if isf then len else blen in
      let used := Z.min (Z.min slot len) (total - accum) in
      hl_table blk t blen total cap false
               (num + 1, accum + slot, match cap with None => out | Some _ => out ++ [(o, used)] end)
    end
  end.

Fixpoint hl_tables (blk : Z -> option (Z * Z)) (tables : list (Z * list Z)) (blen total : Z) (cap : option Z)
                   (isf : bool) (st : Z * Z * list (Z * Z)) : option (Z * Z * list (Z * Z)) :=
  match tables with
  | [] => Some st
  | (nx, refs) :: more =>
    let '(num, _, _) := st in
    if hl_full cap num then Some st else
    match hl_table blk refs blen total cap isf st with
    | None => None
    | Some (st', isf') => if nx =? 0 then Some st' else hl_tables blk more blen total cap isf' st'
    end
  end.

(** -> Some (return value, entries written) or None = FAIL *)
Definition hl_getdatainfo (blk : Z -> option (Z * Z)) (tables : list (Z * list Z)) (blen total : Z) (cap : option Z)
  : option (Z * list (Z * Z)) :=
  match cap with
  | Some 0 => None                                   (* info_count == 0 with non-NULL arrays: DFE_ARGS *)
  | _ => match tables with
         | [] => None                                (* HLIgetlink of the first table failed *)
         | _ => match hl_tables blk tables blen total cap true (0, 0, []) with
                | Some (num, _, out) => Some (num, out)
                | None => None
                end
         end
  end.

(** the chain of block tables as HLIgetlink delivers it (next ref, block refs), read through the specification's
    element reader -- input of [hl_getdatainfo] in the correspondence run *)
Fixpoint link_tables (fuel : nat) (get : Z -> Z -> content) (lref : Z) (nblk : nat) : list (Z * list Z) :=
  match fuel with
  | O => []
  | S f =>
    match get tag_linked lref with
    | CBytes t => match p_linktable nblk t with
                  | Some (nx, refs, _) => (nx, refs) :: (if nx =? 0 then [] else link_tables f get nx nblk)
                  | None => []
                  end
    | _ => []
    end
  end.

(* ---- hdatainfo.c GRgetpalinfo: the walk over all descriptors with the loop guard regenerated from the source ---- *)
(** [ds]: the descriptors Hstartread / Hnextread(DFTAG_WILDCARD) deliver (NULL descriptors are skipped by them); the
    end of the list is the failing Hnextread; ret_value is SUCCEED (0) while elements remain *)
Fixpoint palinfo_loop (ds : list dd) (pal_count idx : Z) (out : list dd) : Z * list dd :=
  match ds with
  | [] => (idx, out)
  | d :: t =>
    if GRgetpalinfo_guard 0 idx pal_count =? 0 then (idx, out)
    else if (dd_tag d =? DFTAG_IP8) || (dd_tag d =? DFTAG_LUT)
         then palinfo_loop t pal_count (idx + 1) (out ++ [d])
         else palinfo_loop t pal_count idx out
  end.
Definition gr_getpalinfo (ds : list dd) (pal_count : Z) : Z * list dd := palinfo_loop (live ds) pal_count 0 [].

(* ---- mfdatainfo.c SDgetattdatainfo: the search for the attribute's Vdata, with the name comparison regenerated
        from the source ----------------------------------------------------------------------------------------- *)
Definition sd_attr_lookup (members : list (list Z * list Z * Z)) (attrname : list Z) : option Z :=
  match find (fun m => bytes_eqb (fst (fst m)) attr_class && SDgetattdatainfo_match attrname (snd (fst m))) members with
  | Some m => Some (snd m)
  | None => None
  end.

(* ---- hdatainfo.c VSgetattdatainfo: the search through the attribute list -- a pointer stepped entry by entry until
        the attrindex-th entry of the wanted owner (the owner test is regenerated from the source; FmtProofs pins
        "vs_alist++" as the step and "vs_alist->aref" as the entry that is attached afterwards) ------------------- *)
Fixpoint vs_att_loop (rest : list vattr) (findex attrindex a_index : Z) : option vattr :=
  match rest with
  | [] => None
  | e :: t =>
    if VSgetattdatainfo_owner_test (va_findex e) findex =? 0 then vs_att_loop t findex attrindex a_index
    else if a_index + 1 =? attrindex then Some e
    else vs_att_loop t findex attrindex (a_index + 1)
  end.
Definition vs_getattdatainfo_entry (alist : list vattr) (findex attrindex : Z) : option vattr :=
  if attrindex <? 0 then None else vs_att_loop alist findex attrindex (-1).

(* ---- hfile.c HIsync: flush of a file whose DD caching is on -- two independent steps (FmtProofs pins both as plain
        "if", neither an "else" of the other): write the dirty DD blocks, extend the file to the reserved end -------- *)
Definition extend_file (img : image) (f_end : Z) : image := img ++ repeat 0 (Z.to_nat (f_end - zlen img)).
Definition hi_sync (img : image) (bl : list ddblock) (f_end : Z) (ddlist_dirty end_dirty : bool) : image :=
  let img1 := if ddlist_dirty then sync_blocks img bl else img in
  if end_dirty then extend_file img1 f_end else img1.
