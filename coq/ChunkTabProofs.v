(** C04 -- the chunk table implements the page map the cache model works on: page-in never fails and yields the fill
    page for absent / never written chunks, page-out after the record was created succeeds and changes exactly that
    chunk; the fill page repeats the fill element. *)
From Coq Require Import ZArith List Bool Lia.
Require Import H4.gen.Gen_Chunk H4.ChunkModel H4.MCacheModel H4.ChunkTabModel.
Import ListNotations.
Local Open Scope Z_scope.

(** the two tags a chunk record can carry, and what the regenerated tests say about them *)
Lemma tag_tests :
  truthy (HMCPchunkread_q_if_0 DFTAG_CHUNK) = true /\ truthy (HMCPchunkread_q_if_0 DFTAG_NULL) = false /\
  truthy (HMCPchunkread_q_if_1 DFTAG_NULL) = true /\
  truthy (HMCPchunkwrite_q_if_0 DFTAG_NULL) = true /\ truthy (HMCPchunkwrite_q_if_0 DFTAG_CHUNK) = false /\
  HMCPchunkwrite_q_chkptr_chk_tag_0 = DFTAG_CHUNK.
Proof. repeat split; vm_compute; reflexivity. Qed.

Definition tab_wf (t : ctab) : Prop := Forall (fun kr => cr_tag (snd kr) = DFTAG_NULL \/ cr_tag (snd kr) = DFTAG_CHUNK) t.

Lemma find_rec_wf : forall t n r, tab_wf t -> find_rec t n = Some r -> cr_tag r = DFTAG_NULL \/ cr_tag r = DFTAG_CHUNK.
Proof.
  induction t as [|[k r0] tl IH]; intros n r H E; simpl in E; [discriminate|].
  inversion H; subst. destruct (k =? n); [inversion E; subst; auto | eapply IH; eauto].
Qed.

Lemma find_set_rec : forall t n r k, find_rec t n <> None ->
  find_rec (set_rec t n r) k = if k =? n then Some r else find_rec t k.
Proof.
  induction t as [|[j r0] tl IH]; intros n r k H; simpl in *; [congruence|].
  destruct (Z.eqb_spec j n) as [->|Hj]; simpl.
  - destruct (Z.eqb_spec n k) as [->|]; [rewrite Z.eqb_refl; reflexivity|].
    destruct (Z.eqb_spec k n); [lia|reflexivity].
  - destruct (Z.eqb_spec j k) as [->|].
    + destruct (Z.eqb_spec k n); [lia|reflexivity].
    + apply IH; auto.
Qed.

Lemma set_rec_wf : forall t n r, tab_wf t -> (cr_tag r = DFTAG_NULL \/ cr_tag r = DFTAG_CHUNK) -> tab_wf (set_rec t n r).
Proof.
  induction t as [|[j r0] tl IH]; intros n r H Hr; simpl; [constructor|].
  inversion H; subst. destruct (j =? n); constructor; auto. apply IH; auto.
Qed.

(** page-in never fails on a well-formed table; absent and never written chunks give the fill page *)
Lemma pagein_total : forall fillpg t n, tab_wf t ->
  ct_pagein fillpg t n = Some (tab_store fillpg t n) /\
  (find_rec t n = None -> tab_store fillpg t n = fillpg) /\
  (forall r, find_rec t n = Some r -> cr_tag r = DFTAG_NULL -> tab_store fillpg t n = fillpg) /\
  (forall r, find_rec t n = Some r -> cr_tag r = DFTAG_CHUNK -> tab_store fillpg t n = cr_page r).
Proof.
  intros fillpg t n Hwf. unfold tab_store, ct_pagein. destruct tag_tests as (T1 & T2 & T3 & _).
  destruct (find_rec t n) as [r|] eqn:E.
  - destruct (find_rec_wf t n r Hwf E) as [Ht|Ht]; rewrite Ht.
    + rewrite T2, T3. repeat split; auto; intros; try discriminate. inversion H; subst. congruence.
    + rewrite T1. repeat split; auto; intros; try discriminate; inversion H; subst; auto. rewrite Ht in H0. discriminate.
  - repeat split; auto; intros; discriminate.
Qed.

(** creating the record does not change what anybody reads *)
Lemma ensure_same : forall fillpg t n, tab_wf t ->
  tab_wf (ct_ensure t n) /\ find_rec (ct_ensure t n) n <> None /\
  forall k, tab_store fillpg (ct_ensure t n) k = tab_store fillpg t k.
Proof.
  intros fillpg t n Hwf. unfold ct_ensure. destruct (find_rec t n) eqn:E.
  - repeat split; auto. congruence.
  - split; [constructor; simpl; auto|]. split; [simpl; rewrite Z.eqb_refl; discriminate|].
    intros k. unfold tab_store, ct_pagein. simpl. destruct (Z.eqb_spec n k) as [->|]; [|reflexivity].
    rewrite E. cbn [cr_tag cr_page]. destruct tag_tests as (_ & T2 & T3 & _). rewrite T2, T3. reflexivity.
Qed.

(** page-out of chunk n once its record exists: succeeds, and the page map changes exactly at n *)
Lemma pageout_updates : forall fillpg t n pg, tab_wf t -> find_rec t n <> None ->
  exists t', ct_pageout t n pg = Some t' /\ tab_wf t' /\
    forall k, tab_store fillpg t' k = if k =? n then pg else tab_store fillpg t k.
Proof.
  intros fillpg t n pg Hwf Hex. unfold ct_pageout. destruct (find_rec t n) as [r|] eqn:E; [|congruence].
  destruct tag_tests as (T1 & T2 & T3 & T4 & T5 & T6).
  assert (Htag : (if truthy (HMCPchunkwrite_q_if_0 (cr_tag r)) then HMCPchunkwrite_q_chkptr_chk_tag_0 else cr_tag r) = DFTAG_CHUNK).
  { destruct (find_rec_wf t n r Hwf E) as [Ht|Ht]; rewrite Ht; [rewrite T4; exact T6 | rewrite T5; reflexivity]. }
  rewrite Htag. eexists. split; [reflexivity|]. split; [apply set_rec_wf; simpl; auto|].
  intros k. unfold tab_store, ct_pagein. rewrite find_set_rec by congruence.
  destruct (Z.eqb_spec k n); [cbn [cr_tag cr_page]; rewrite T1; reflexivity | reflexivity].
Qed.

(** hence the chunk table implements the backing store of MCacheModel.v: [fs_in]/[fs_out] on [tab_store] *)
Lemma chunk_table_implements_store_lemma : forall fillpg t n pg, tab_wf t ->
  fs_in (tab_store fillpg t) n = ct_pagein fillpg t n /\
  exists t', ct_pageout (ct_ensure t n) n pg = Some t' /\ tab_wf t' /\
    forall k, fs_out (tab_store fillpg t) n pg = Some (fun j => if j =? n then pg else tab_store fillpg t j) /\
              tab_store fillpg t' k = (fun j => if j =? n then pg else tab_store fillpg t j) k.
Proof.
  intros fillpg t n pg Hwf. split.
  - unfold fs_in. symmetry. apply pagein_total; auto.
  - destruct (ensure_same fillpg t n Hwf) as (W1 & W2 & W3).
    destruct (pageout_updates fillpg (ct_ensure t n) n pg W1 W2) as (t' & E & W' & U).
    exists t'. split; [exact E|]. split; [exact W'|]. intros k. split; [reflexivity|].
    rewrite U. destruct (k =? n); [reflexivity|apply W3].
Qed.

(** the fill page repeats the fill element *)
Lemma nth_concat_repeat : forall (fe : list Z) m n k b, List.length fe = m -> (k < n)%nat -> (b < m)%nat ->
  nth (k * m + b) (concat (repeat fe n)) 0 = nth b fe 0.
Proof.
  intros fe m. induction n as [|n IH]; intros k b Hm Hk Hb; [lia|]. simpl.
  destruct k as [|k].
  - simpl. rewrite app_nth1 by lia. reflexivity.
  - rewrite app_nth2 by (rewrite Hm; nia). rewrite Hm.
    replace (S k * m + b - m)%nat with (k * m + b)%nat by nia. apply IH; auto; lia.
Qed.

Lemma fill_page_repeats : forall chunk_size nt (fe : list Z) off b,
  1 <= nt -> Z.of_nat (List.length fe) = nt -> 0 <= chunk_size ->
  0 <= off -> off + nt <= chunk_size * nt -> (nt | off) -> 0 <= b < nt ->
  nth (Z.to_nat (off + b)) (fill_page chunk_size nt fe) 0 = nth (Z.to_nat b) fe 0.
Proof.
  intros chunk_size nt fe off b Hnt Hl Hc Ho Hin (a & Ha) Hb. unfold fill_page, HMCPchunkread_q_nitems_1.
  rewrite Hl. rewrite Z.quot_div_nonneg by nia. rewrite Z.div_mul by lia.
  subst off. assert (0 <= a) by nia.
  replace (Z.to_nat (a * nt + b)) with (Z.to_nat a * List.length fe + Z.to_nat b)%nat by nia.
  apply nth_concat_repeat; auto; nia.
Qed.
