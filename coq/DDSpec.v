(** C12 -- abstract specification S of the tag/ref directory: a finite map (base tag, ref) -> (tag, length).

    The directory of an HDF4 file is, abstractly, the set of objects created and not deleted.  A reference
    number is shared by a tag and its "special" variant (BASETAG), so the key of the map is (BASETAG tag, ref)
    and the stored value is the tag actually recorded plus the length.  No proofs here (model file). *)
From Coq Require Import ZArith List Bool.
Require Import H4.gen.Gen_DD.
Import ListNotations.
Local Open Scope Z_scope.

(** operations of a history (what the harness drives through the public API) *)
Inductive op :=
| OOpen (ndds : Z)            (* Hopen(DFACC_CREATE, ndds) *)
| OReopen                     (* Hclose; Hopen(DFACC_RDWR) *)
| OCache (b : Z)              (* Hcache(fid, b) *)
| OSync                       (* Hsync *)
| OPut (t r l : Z)            (* Hputelement(fid, t, r, data, l) *)
| ODup (nt nr ot or_ : Z)     (* Hdupdd(fid, nt, nr, ot, or) *)
| ODel (t r : Z)              (* Hdeldd *)
| OReuse (t r : Z)            (* HDreuse_tagref *)
| ONewref (v : Z)             (* Hnewref; v = the value the party under test returned *)
| OTagnewref (t v : Z)        (* Htagnewref *)
| ONumber (t : Z)             (* Hnumber *)
| OExist (t r : Z)            (* Hexist *)
| OCheck (t r : Z)            (* HDcheck_tagref *)
| OLength (t r : Z)           (* Hlength *)
| OFindall (t r d : Z)        (* iterate Hfind from the start, direction d *)
| ODump.                      (* in-memory DD table (model tie only) *)

Inductive res :=
| ROk | RFail | RNoDomain
| RVal (z : Z)
| RList (l : list (Z * Z * Z))                 (* (tag, ref, length) *)
| RDump (maxref : Z) (ndds : Z) (l : list (Z * Z * Z)).

Record entry := mkentry { e_tag : Z; e_ref : Z; e_len : Z }.
Definition smap := list entry.     (* invariant (proved): keys (BASETAG e_tag, e_ref) pairwise distinct *)

Definition key_eq (t r : Z) (e : entry) : bool := (BASETAG (e_tag e) =? BASETAG t) && (e_ref e =? r).
Definition s_lookup (m : smap) (t r : Z) : option entry := find (key_eq t r) m.
Definition s_remove (m : smap) (t r : Z) : smap := filter (fun e => negb (key_eq t r e)) m.
Definition s_setlen (m : smap) (t r l : Z) : smap :=
  map (fun e => if key_eq t r e then mkentry (e_tag e) (e_ref e) l else e) m.

Definition is_special (t : Z) : bool := negb (SPECIALTAG t =? 0).
Definition uint16 (z : Z) : bool := (0 <=? z) && (z <=? 65535).
(** tags a history may create / delete: not the wildcard, not DFTAG_NULL, not DFTAG_FREE, not the library's own
    version descriptor, and not a special variant of one of those *)
Definition mut_tag (t : Z) : bool :=
  uint16 t && negb (BASETAG t =? DFTAG_WILDCARD) && negb (BASETAG t =? DFTAG_NULL) &&
  negb (BASETAG t =? DFTAG_FREE) && negb (BASETAG t =? DFTAG_VERSION).
(** tags a history may search for / count (wildcard allowed) *)
Definition obs_tag (t : Z) : bool :=
  uint16 t && negb (BASETAG t =? DFTAG_NULL) && negb (BASETAG t =? DFTAG_FREE) && negb (t =? MKSPECIALTAG DFTAG_WILDCARD).
Definition mut_ref (r : Z) : bool := (1 <=? r) && (r <=? MAX_REF).

(** which entries a (possibly wildcard) search tag/ref designates *)
Definition tag_matches (t : Z) (e : entry) : bool :=
  (t =? DFTAG_WILDCARD) || (e_tag e =? t) || (negb (MKSPECIALTAG t =? DFTAG_NULL) && (e_tag e =? MKSPECIALTAG t)).
Definition ref_matches (r : Z) (e : entry) : bool := (r =? DFREF_WILDCARD) || (e_ref e =? r).
Definition s_select (m : smap) (t r : Z) : list entry :=
  if negb (t =? DFTAG_WILDCARD) && negb (r =? DFREF_WILDCARD)
  then match s_lookup m t r with Some e => [e] | None => [] end      (* exact: the object with that key *)
  else filter (fun e => tag_matches t e && ref_matches r e) m.

Definition triple (e : entry) : Z * Z * Z := (e_tag e, e_ref e, e_len e).

(** a reference number is free (file-wide / for one base tag) *)
Definition ref_used (m : smap) (v : Z) : bool := existsb (fun e => e_ref e =? v) m.
Definition tagref_used (m : smap) (t v : Z) : bool := existsb (key_eq t v) m.
Fixpoint all_used (used : Z -> bool) (fuel : nat) (r : Z) : bool :=
  match fuel with O => true | S f => used r && all_used used f (r + 1) end.
Definition newref_ok (used : Z -> bool) (v : Z) : bool :=
  if v =? 0 then all_used used (Z.to_nat MAX_REF) 1       (* 0 only when no reference is free *)
  else mut_ref v && negb (used v).

Definition s_init : smap := [mkentry DFTAG_VERSION 1 LIBVER_LEN].

Definition s_step (m : smap) (o : op) : smap * res :=
  match o with
  | OOpen n => if (n <? 0) || (32767 <? n) then (m, RNoDomain) else (s_init, ROk)
  | OReopen => (m, ROk)                                   (* persistence: the map is unchanged *)
  | OCache _ => (m, ROk)
  | OSync => (m, ROk)
  | OPut t r l =>
      if negb (mut_tag t && negb (is_special t) && mut_ref r && (1 <=? l)) then (m, RNoDomain) else
      match s_lookup m t r with
      | None => (m ++ [mkentry t r l], ROk)
      | Some e => if is_special (e_tag e) then (m, RNoDomain)
                  else if e_len e =? INVALID_LENGTH then (s_setlen m t r l, ROk)
                  else if l <=? e_len e then (m, ROk) else (m, RFail)
      end
  | ODup nt nr ot or_ =>
      if negb (mut_tag nt && mut_tag ot && uint16 nr && uint16 or_) then (m, RNoDomain) else
      match s_lookup m ot or_ with
      | None => (m, RFail)
      | Some e => if (nr =? 0) || (or_ =? 0) then (m, RFail) else
                  (* the duplicate of a special element is recorded under the special variant of the new tag *)
                  let nt' := if is_special (e_tag e) && negb (is_special nt) then MKSPECIALTAG nt else nt in
                  if nt' =? DFTAG_NULL then (m, RFail) else
                  match s_lookup m nt nr with
                  | Some _ => (m, RFail)
                  | None => (m ++ [mkentry nt' nr (e_len e)], ROk)
                  end
      end
  | ODel t r =>
      if negb (mut_tag t && uint16 r) then (m, RNoDomain) else
      if r =? 0 then (m, RFail) else
      match s_lookup m t r with None => (m, RFail) | Some _ => (s_remove m t r, ROk) end
  | OReuse t r =>
      if negb (mut_tag t && uint16 r) then (m, RNoDomain) else
      if r =? 0 then (m, RFail) else
      match s_lookup m t r with
      | None => (m, RFail)
      | Some e => if is_special (e_tag e) then (m, RNoDomain) else (s_setlen m t r INVALID_LENGTH, ROk)
      end
  | ONewref v => (m, if newref_ok (ref_used m) v then ROk else RFail)
  | OTagnewref t v =>
      if negb (mut_tag t || (BASETAG t =? DFTAG_VERSION) && uint16 t) then (m, RNoDomain)
      else (m, if newref_ok (tagref_used m t) v then ROk else RFail)
  | ONumber t =>
      if negb (obs_tag t) then (m, RNoDomain)
      else (m, RVal (Z.of_nat (length (filter (tag_matches t) m))))
  | OExist t r =>
      if negb (obs_tag t && uint16 r) then (m, RNoDomain)
      else (m, RVal (match s_select m t r with [] => 0 | _ => 1 end))
  | OCheck t r =>
      if negb (obs_tag t && uint16 r) then (m, RNoDomain)
      else if (t =? DFTAG_WILDCARD) || (r =? DFREF_WILDCARD) then (m, RVal (-1))
      else (m, RVal (match s_lookup m t r with Some _ => 1 | None => 0 end))
  | OLength t r =>
      if negb (obs_tag t && negb (t =? DFTAG_WILDCARD) && negb (is_special t) && mut_ref r) then (m, RNoDomain)
      else match s_lookup m t r with
           | None => (m, RVal FAIL)
           | Some e => if is_special (e_tag e) then (m, RNoDomain) else (m, RVal (e_len e))
           end
  | OFindall t r d =>
      if negb (obs_tag t && uint16 r && ((d =? DF_FORWARD) || (d =? DF_BACKWARD))) then (m, RNoDomain)
      else (m, RList (map triple (s_select m t r)))    (* as a set: compared up to order *)
  | ODump => (m, RNoDomain)
  end.

Fixpoint s_run (m : smap) (h : list op) : list res :=
  match h with
  | [] => []
  | o :: h' => let '(m', r) := s_step m o in r :: s_run m' h'
  end.
