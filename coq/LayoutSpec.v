(** C04 -- abstract specification S: a dataset is an n-dimensional array of values; a history of
    hyperslab / whole-chunk writes and reads is interpreted on that array and on nothing else.
    No storage layout, chunk shape, coder, cache size or block size occurs in the meaning of a read
    (the chunk lengths only say WHICH region a whole-chunk operation addresses).
    Total computable definitions only; proofs are in ChunkProofs.v. *)
From Coq Require Import ZArith List Bool.
Import ListNotations.
Local Open Scope Z_scope.

(** [zseq n] = [0; 1; ...; n-1] (empty for n <= 0). *)
Definition zseq (n : Z) : list Z := map Z.of_nat (seq 0 (Z.to_nat n)).

Definition total (dims : list Z) : Z := fold_right Z.mul 1 dims.

(** row-major linear index of a coordinate vector *)
Fixpoint lin (dims idx : list Z) : Z :=
  match dims, idx with
  | _ :: ds, i :: is_ => i * total ds + lin ds is_
  | _, _ => 0
  end.

(** coordinates of a strided slab, in row-major (= transfer) order *)
Fixpoint slab_coords (start stride edge : list Z) : list (list Z) :=
  match start, stride, edge with
  | s :: ss, t :: ts, e :: es =>
      flat_map (fun k => map (cons (s + k * t)) (slab_coords ss ts es)) (zseq e)
  | _, _, _ => [[]]
  end.

(** the slab lies inside the extent: what SDwritedata / SDreaddata accept *)
Fixpoint slab_ok (dims start stride edge : list Z) : bool :=
  match dims, start, stride, edge with
  | [], [], [], [] => true
  | d :: ds, s :: ss, t :: ts, e :: es =>
      (0 <=? s) && (1 <=? t) && (1 <=? e) && (s + (e - 1) * t <? d) && slab_ok ds ss ts es
  | _, _, _, _ => false
  end.

Fixpoint upd (l : list Z) (i : nat) (v : Z) : list Z :=
  match l, i with
  | [], _ => []
  | _ :: r, O => v :: r
  | x :: r, S j => x :: upd r j v
  end.

Definition arr_get (a : list Z) (i : Z) : Z := nth (Z.to_nat i) a 0.
Definition arr_set (a : list Z) (i : Z) (v : Z) : list Z := upd a (Z.to_nat i) v.

Definition spec_write (dims : list Z) (a : list Z) (start stride edge data : list Z) : option (list Z) :=
  let cs := slab_coords start stride edge in
  if slab_ok dims start stride edge && (Z.of_nat (length data) =? Z.of_nat (length cs)) then
    Some (fold_left (fun acc cv => arr_set acc (lin dims (fst cv)) (snd cv)) (combine cs data) a)
  else None.

Definition spec_read (dims : list Z) (a : list Z) (start stride edge : list Z) : option (list Z) :=
  if slab_ok dims start stride edge then
    Some (map (fun c => arr_get a (lin dims c)) (slab_coords start stride edge))
  else None.

(** Whole-chunk access: chunk [origin] of a chunking with lengths [cl] addresses the region
    [origin*cl, origin*cl + cl) clipped to the extent; the transfer buffer holds a full chunk in row-major
    order of [cl]; only its in-extent part carries data. *)
Definition ceil_div (a b : Z) : Z := (a + b - 1) / b.

Fixpoint chunk_origin_ok (dims cl origin : list Z) : bool :=
  match dims, cl, origin with
  | [], [], [] => true
  | d :: ds, c :: cs, o :: os => (1 <=? c) && (0 <=? o) && (o <? ceil_div d c) && chunk_origin_ok ds cs os
  | _, _, _ => false
  end.

(** relative coordinates (inside the chunk) of the in-extent part *)
Fixpoint chunk_rel_edge (dims cl origin : list Z) : list Z :=
  match dims, cl, origin with
  | d :: ds, c :: cs, o :: os => Z.min c (d - o * c) :: chunk_rel_edge ds cs os
  | _, _, _ => []
  end.

Definition chunk_start (cl origin : list Z) : list Z := map (fun p => fst p * snd p) (combine origin cl).
Definition ones (n : nat) : list Z := repeat 1 n.
Definition zeros (n : nat) : list Z := repeat 0 n.

Definition vadd (a b : list Z) : list Z := map (fun p => fst p + snd p) (combine a b).

Definition spec_writechunk (dims cl : list Z) (a : list Z) (origin data : list Z) : option (list Z) :=
  if chunk_origin_ok dims cl origin && (Z.of_nat (length data) =? total cl) then
    let rel := slab_coords (zeros (length dims)) (ones (length dims)) (chunk_rel_edge dims cl origin) in
    let st := chunk_start cl origin in
    Some (fold_left (fun acc r => arr_set acc (lin dims (vadd st r)) (arr_get data (lin cl r))) rel a)
  else None.

(** the in-extent elements of the chunk, in row-major order of the clipped region *)
Definition spec_readchunk (dims cl : list Z) (a : list Z) (origin : list Z) : option (list Z) :=
  if chunk_origin_ok dims cl origin then
    spec_read dims a (chunk_start cl origin) (ones (length dims)) (chunk_rel_edge dims cl origin)
  else None.

(** Histories. *)
Inductive op :=
| OWrite (start stride edge data : list Z)
| ORead (start stride edge : list Z)
| OWriteChunk (origin data : list Z)
| OReadChunk (origin : list Z)
| OReopen
| OCache (n : Z)
| OHRead (reqs : list (Z * Z * Z)).

Inductive out :=
| RFail
| ROk
| RData (vs : list Z).

(** n-bit storage keeps bits [start_bit-bit_len+1 .. start_bit] of every value of a [w]-bit type;
    on the way back the bits below are filled with [fill_one], the bits above with the sign bit
    ([sign_ext]) or [fill_one].  Layout independence for n-bit is "on the projected values". *)
Definition nbit_proj (w : Z) (signed : bool) (start_bit bit_len : Z) (sign_ext fill_one : bool) (v : Z) : Z :=
  let u := v mod 2 ^ w in
  let lo := start_bit - bit_len + 1 in
  let field := (u / 2 ^ lo) mod 2 ^ bit_len in
  let lowfill := if fill_one then 2 ^ lo - 1 else 0 in
  let nhigh := w - 1 - start_bit in
  let top := Z.odd (u / 2 ^ start_bit) in
  let highbits := if sign_ext then (if top then 2 ^ nhigh - 1 else 0)
                  else (if fill_one then 2 ^ nhigh - 1 else 0) in
  let r := highbits * 2 ^ (start_bit + 1) + field * 2 ^ lo + lowfill in
  if signed && (2 ^ (w - 1) <=? r) then r - 2 ^ w else r.

(** Byte-stream level access to the dataset's data element through several access ids opened at the same time
    (Hstartread ... Hseek/Hread, interleaved): every access id has its OWN position, starting at element 0.
    A request (a, p, n): access id [a] seeks to element [p] (p < 0: no seek, continue where this id stands) and reads
    [n] elements of the row-major stream.  The result is the concatenation of all reads; it depends on the array
    only, never on what another access id did in between. *)
Fixpoint pos_get (ps : list Z) (a : nat) : Z :=
  match ps, a with
  | [], _ => 0
  | p :: _, O => p
  | _ :: r, S k => pos_get r k
  end.
Fixpoint pos_set (ps : list Z) (a : nat) (v : Z) : list Z :=
  match ps, a with
  | [], _ => []
  | _ :: r, O => v :: r
  | p :: r, S k => p :: pos_set r k v
  end.

Fixpoint hread_run (arr : list Z) (ps : list Z) (reqs : list (Z * Z * Z)) : option (list Z) :=
  match reqs with
  | [] => Some []
  | (a, p, n) :: r =>
      let ai := Z.to_nat a in
      let start := if p <? 0 then pos_get ps ai else p in
      if (0 <=? a) && (a <? Z.of_nat (length ps)) && (0 <=? n) && (start + n <=? Z.of_nat (length arr)) then
        match hread_run arr (pos_set ps ai (start + n)) r with
        | Some rest => Some (map (fun k => arr_get arr (start + k)) (zseq n) ++ rest)
        | None => None
        end
      else None
  end.

(** [view] is the identity for every layout except n-bit, where it is the projection. *)
Definition apply_view (view : Z -> Z) (o : out) : out :=
  match o with RData vs => RData (map view vs) | x => x end.

(** [cdims] is the extent as the chunk layer sees it: equal to [dims] for SD datasets; for GR images the
    chunk layer views the same row-major pixel stream as an [xdim][ydim] array (mfgr.c GRsetchunk), so the
    region a whole-chunk call addresses is expressed in that view. *)
Definition spec_step (dims cdims cl : list Z) (a : list Z) (o : op) : list Z * out :=
  match o with
  | OWrite s t e d => match spec_write dims a s t e d with Some a' => (a', ROk) | None => (a, RFail) end
  | ORead s t e => match spec_read dims a s t e with Some vs => (a, RData vs) | None => (a, RFail) end
  | OWriteChunk og d => match spec_writechunk cdims cl a og d with Some a' => (a', ROk) | None => (a, RFail) end
  | OReadChunk og => match spec_readchunk cdims cl a og with Some vs => (a, RData vs) | None => (a, RFail) end
  | OReopen => (a, ROk)
  | OCache n => (a, if 1 <=? n then ROk else RFail)
  | OHRead reqs => match hread_run a [0; 0; 0] reqs with Some vs => (a, RData vs) | None => (a, RFail) end
  end.

Fixpoint spec_run (dims cdims cl : list Z) (a : list Z) (ops : list op) : list out :=
  match ops with
  | [] => []
  | o :: r => let (a', x) := spec_step dims cdims cl a o in x :: spec_run dims cdims cl a' r
  end.

(** the initial state: every element is the fill value *)
Definition spec_init (dims : list Z) (fill : Z) : list Z := repeat fill (Z.to_nat (total dims)).

Definition spec_history (dims cdims cl : list Z) (fill : Z) (ops : list op) : list out :=
  spec_run dims cdims cl (spec_init dims fill) ops.
